/-
  Life-cycle invariants (`LifeInv`, `NoPendInv` of Core2Life.lean) are preserved by `releaseApp`, `appRemove`,
  `phTimeout`, `stateTimeout`, and — at the end of a node removal, from `LifeCore` alone — by `leaveApp` /
  `sweepTerminated`.  Helper lemmas live in `Yk.LifeC`, the results about the operations in `Yk`.
-/
import YkProofs.Core2Life
namespace Yk
open Res Core

namespace LifeC

/-! ### the state machine -/

theorem ofName_name {st : String} {a : AppState} (h : AppState.ofName st = some a) : a.name = st := by
  unfold AppState.ofName at h
  simpa using List.find?_some h

/-- `fireState st e` is `st` itself or what the state machine says for the state named `st` -/
theorem fire_cases (st : String) (e : AppEvent) :
    fireState st e = st ∨ ∃ a : AppState, a.name = st ∧ fireState st e = (handle a e).name := by
  unfold fireState
  cases h : AppState.ofName st with
  | none => exact Or.inl rfl
  | some a => exact Or.inr ⟨a, ofName_name h, rfl⟩

/-- CompleteApplication ends in a terminated state only from Completing (or from a terminated state) -/
theorem term_complete (st : String) (h : terminated (fireState st .complete) = true) :
    st = "Completing" ∨ terminated st = true := by
  rcases fire_cases st .complete with e | ⟨a, rfl, e⟩
  · rw [e] at h; exact Or.inr h
  · rw [e] at h
    revert h
    cases a <;> decide

theorem setState_state (a : CApp) (st : String) : (setState a st).state = st := by
  unfold setState
  split
  · rename_i h
    exact (by simpa using h : st = a.state).symm
  · rfl

/-! ### the invariants, application by application -/

/-- the clauses of `LifeCore` about one application -/
structure AppLife (a : CApp) : Prop where
  pos : a.live = true → ∀ i ∈ a.items, PosRes i.res
  completingNoReal : a.live = true → a.state = "Completing" → ∀ i ∈ a.items, i.bound = true → i.ph = true
  noPhOrphan : (a.live = false ∨ terminated a.state = true) → ∀ i ∈ a.items, i.bound = true → i.ph = false
  completedNoReal : a.state = "Completed" → ∀ i ∈ a.items, i.bound = true → i.ph = true

/-- `termGone` for one application -/
def AppGone (a : CApp) : Prop := a.live = true → terminated a.state = false

/-- the clauses of `NoPendInv` about one application -/
structure AppNoPend (a : CApp) : Prop where
  completingNoPending : a.live = true → a.state = "Completing" → ∀ i ∈ a.items, i.outstanding = false
  completedNoAsk : a.state = "Completed" → ∀ i ∈ a.items, i.outstanding = false

theorem appLife_of {s : Core} (h : LifeCore s) {a : CApp} (ha : a ∈ s.apps) : AppLife a :=
  ⟨h.pos a ha, h.completingNoReal a ha, h.noPhOrphan a ha, h.completedNoReal a ha⟩

theorem lifeCore_of {s : Core} (ha : ∀ a ∈ s.apps, AppLife a)
    (hn : ∀ n ∈ s.nodes, ∀ x ∈ n.allocs, x.foreign = false → PosRes x.res) : LifeCore s :=
  ⟨fun a h => (ha a h).pos, hn, fun a h => (ha a h).completingNoReal, fun a h => (ha a h).noPhOrphan,
   fun a h => (ha a h).completedNoReal⟩

theorem appNoPend_of {s : Core} (h : NoPendInv s) {a : CApp} (ha : a ∈ s.apps) : AppNoPend a :=
  ⟨h.completingNoPending a ha, h.completedNoAsk a ha⟩

theorem noPend_of {s : Core} (h : ∀ a ∈ s.apps, AppNoPend a) : NoPendInv s :=
  ⟨fun a ha => (h a ha).completingNoPending, fun a ha => (h a ha).completedNoAsk⟩

/-- the nodes only lose entries -/
def NodesSub (s t : Core) : Prop := ∀ n ∈ t.nodes, ∃ n0 ∈ s.nodes, ∀ x ∈ n.allocs, x ∈ n0.allocs

theorem NodesSub.of_eq {s t : Core} (h : t.nodes = s.nodes) : NodesSub s t :=
  fun n hn => ⟨n, h ▸ hn, fun _ hx => hx⟩

theorem posNode_sub {s t : Core} (hs : NodesSub s t) (h : LifeCore s) :
    ∀ n ∈ t.nodes, ∀ x ∈ n.allocs, x.foreign = false → PosRes x.res := by
  intro n hn x hx hf
  obtain ⟨n0, hn0, hsub⟩ := hs n hn
  exact h.posNode n0 hn0 x (hsub x hx) hf

/-- one live application is replaced: a property of the applications carries over when the new record has it -/
theorem upd_all {s t : Core} {P : CApp → Prop} (hw : CoreWF s) {id : String} {f : CApp → CApp} {a : CApp}
    (ham : a ∈ s.apps) (hl : a.live = true) (hid : a.id = id) (hta : t.apps = updApps s.apps id f)
    (hfa : P (f a)) (h : ∀ x ∈ s.apps, P x) : ∀ x ∈ t.apps, P x := by
  rw [hta]
  intro x hx
  rcases mem_updApps hw.appIds ham hl hid hx with rfl | ⟨hxs, _⟩
  · exact hfa
  · exact h x hxs

theorem lifeCore_upd {s t : Core} (hw : CoreWF s) {id : String} {f : CApp → CApp} {a : CApp}
    (ham : a ∈ s.apps) (hl : a.live = true) (hid : a.id = id) (hta : t.apps = updApps s.apps id f)
    (hn : NodesSub s t) (h : LifeCore s) (h1 : AppLife (f a)) : LifeCore t :=
  lifeCore_of (upd_all hw ham hl hid hta h1 (fun _ hx => appLife_of h hx)) (posNode_sub hn h)

theorem life_upd {s t : Core} (hw : CoreWF s) {id : String} {f : CApp → CApp} {a : CApp}
    (ham : a ∈ s.apps) (hl : a.live = true) (hid : a.id = id) (hta : t.apps = updApps s.apps id f)
    (hn : NodesSub s t) (h : LifeInv s) (h1 : AppLife (f a)) (h2 : AppGone (f a)) : LifeInv t :=
  ⟨lifeCore_upd hw ham hl hid hta hn h.core h1,
   upd_all (P := AppGone) hw ham hl hid hta h2 (fun x hx => h.termGone x hx)⟩

theorem noPend_upd {s t : Core} (hw : CoreWF s) {id : String} {f : CApp → CApp} {a : CApp}
    (ham : a ∈ s.apps) (hl : a.live = true) (hid : a.id = id) (hta : t.apps = updApps s.apps id f)
    (h : NoPendInv s) (h1 : AppNoPend (f a)) : NoPendInv t :=
  noPend_of (upd_all hw ham hl hid hta h1 (fun _ hx => appNoPend_of h hx))

/-- applications and node entries only disappear -/
theorem life_sub {s t : Core} (ha : ∀ x ∈ t.apps, x ∈ s.apps) (hn : NodesSub s t) (h : LifeInv s) : LifeInv t :=
  ⟨lifeCore_of (fun _ hx => appLife_of h.core (ha _ hx)) (posNode_sub hn h.core), fun x hx => h.termGone x (ha x hx)⟩

theorem noPend_sub {s t : Core} (ha : ∀ x ∈ t.apps, x ∈ s.apps) (h : NoPendInv s) : NoPendInv t :=
  noPend_of (fun _ hx => appNoPend_of h (ha _ hx))

/-! ### flags: state, `live` and what the items are do not change -/

theorem flag_app {a b : CApp} (g : CItem → CItem) (hg : ItemIrrel g) (hi : b.items = a.items.map g)
    (hs : b.state = a.state) (hl : b.live = a.live) :
    (AppLife a → AppLife b) ∧ (AppGone a → AppGone b) ∧ (AppNoPend a → AppNoPend b) := by
  have key : ∀ y ∈ b.items, ∃ x ∈ a.items, y.res = x.res ∧ y.ph = x.ph ∧ y.bound = x.bound ∧
      y.outstanding = x.outstanding := by
    intro y hy
    rw [hi] at hy
    obtain ⟨x, hx, rfl⟩ := List.mem_map.mp hy
    obtain ⟨_, h2, h3, h4, h5, h6⟩ := hg x
    exact ⟨x, hx, h2, h3, h5, by unfold CItem.outstanding; rw [h4, h6]⟩
  refine ⟨?_, ?_, ?_⟩
  · intro h
    refine ⟨?_, ?_, ?_, ?_⟩
    · intro hbl y hy
      obtain ⟨x, hx, hr, _⟩ := key y hy
      rw [hr]; exact h.pos (hl.symm.trans hbl) x hx
    · intro hbl hst y hy hyb
      obtain ⟨x, hx, _, hp, hb, _⟩ := key y hy
      rw [hp]; exact h.completingNoReal (hl.symm.trans hbl) (hs.symm.trans hst) x hx (hb.symm.trans hyb)
    · intro hor y hy hyb
      obtain ⟨x, hx, _, hp, hb, _⟩ := key y hy
      rw [hp]; exact h.noPhOrphan (by rw [← hl, ← hs]; exact hor) x hx (hb.symm.trans hyb)
    · intro hst y hy hyb
      obtain ⟨x, hx, _, hp, hb, _⟩ := key y hy
      rw [hp]; exact h.completedNoReal (hs.symm.trans hst) x hx (hb.symm.trans hyb)
  · intro h hbl
    rw [hs]; exact h (hl.symm.trans hbl)
  · intro h
    refine ⟨?_, ?_⟩
    · intro hbl hst y hy
      obtain ⟨x, hx, _, _, _, ho⟩ := key y hy
      rw [ho]; exact h.completingNoPending (hl.symm.trans hbl) (hs.symm.trans hst) x hx
    · intro hst y hy
      obtain ⟨x, hx, _, _, _, ho⟩ := key y hy
      rw [ho]; exact h.completedNoAsk (hs.symm.trans hst) x hx

/-- a flag update of one application -/
theorem flag_upd (s : Core) (id : String) (f : CApp → CApp)
    (hf : ∀ a, (f a).state = a.state ∧ (f a).live = a.live ∧ ∃ g, ItemIrrel g ∧ (f a).items = a.items.map g) :
    (LifeInv s → LifeInv (updApp s id f)) ∧ (NoPendInv s → NoPendInv (updApp s id f)) := by
  have hmem : ∀ y ∈ (updApp s id f).apps, ∃ x ∈ s.apps, y = x ∨ y = f x := by
    intro y hy
    rw [updApp_apps] at hy
    obtain ⟨x, hx, rfl⟩ := List.mem_map.mp hy
    refine ⟨x, hx, ?_⟩
    split
    · exact Or.inr rfl
    · exact Or.inl rfl
  have hall : ∀ x, (AppLife x → AppLife (f x)) ∧ (AppGone x → AppGone (f x)) ∧ (AppNoPend x → AppNoPend (f x)) := by
    intro x
    obtain ⟨h1, h2, g, hg, h3⟩ := hf x
    exact flag_app g hg h3 h1 h2
  constructor
  · intro h
    refine ⟨lifeCore_of ?_ (posNode_sub (NodesSub.of_eq (s := s) (t := updApp s id f) rfl) h.core), ?_⟩
    · intro y hy
      obtain ⟨x, hx, rfl | rfl⟩ := hmem y hy
      · exact appLife_of h.core hx
      · exact (hall x).1 (appLife_of h.core hx)
    · intro y hy
      obtain ⟨x, hx, rfl | rfl⟩ := hmem y hy
      · exact h.termGone y hx
      · exact (hall x).2.1 (h.termGone x hx)
  · intro h
    apply noPend_of
    intro y hy
    obtain ⟨x, hx, rfl | rfl⟩ := hmem y hy
    · exact appNoPend_of h hx
    · exact (hall x).2.2 (appNoPend_of h hx)

/-! ### `releaseApp` -/

theorem relAllApp_state (a : CApp) :
    (relAllApp a).state = if isZero (some a.pending) = true then fireState a.state .complete else a.state := by
  unfold relAllApp
  simp only [setState_state]

theorem relAll2_gone (tt : TermType) (a : CApp) : AppGone (relAll2 tt a) := by
  intro h
  unfold relAll2 at h ⊢
  simp only [Bool.and_eq_true, Bool.not_eq_true'] at h
  exact h.2

theorem relAll2_state_noasks {tt : TermType} {a : CApp} (h : relAsks tt a = false) :
    (relAll2 tt a).state = (relAllApp a).state := by
  unfold relAll2
  simp only [h, Bool.false_eq_true, if_false]

/-- the items after `releaseApp`: none when the asks were dropped, otherwise old requests, unbound -/
theorem mem_relAll2 {tt : TermType} {a : CApp} {y : CItem} (hy : y ∈ (relAll2 tt a).items) :
    relAsks tt a = false ∧ y.bound = false ∧
      ∃ x ∈ a.items, y.res = x.res ∧ y.allocated = x.allocated ∧ y.inReq = x.inReq := by
  rw [relAll2_items] at hy
  cases h : relAsks tt a with
  | true => rw [h] at hy; simp only [if_true] at hy; cases hy
  | false =>
    rw [h] at hy
    simp only [Bool.false_eq_true, if_false] at hy
    obtain ⟨hb, x, hx, _, hr, ha, hq⟩ := mem_unboundAll hy
    exact ⟨rfl, hb, x, hx, hr, ha, hq⟩

theorem appLife_relAll2 (tt : TermType) (a : CApp) (hl : a.live = true) (h : AppLife a) : AppLife (relAll2 tt a) := by
  refine ⟨?_, ?_, ?_, ?_⟩
  · intro _ y hy
    obtain ⟨_, _, x, hx, hr, _⟩ := mem_relAll2 hy
    rw [hr]; exact h.pos hl x hx
  · intro _ _ y hy hb
    rw [(mem_relAll2 hy).2.1] at hb; cases hb
  · intro _ y hy hb
    rw [(mem_relAll2 hy).2.1] at hb; cases hb
  · intro _ y hy hb
    rw [(mem_relAll2 hy).2.1] at hb; cases hb

theorem appNoPend_relAll2 (tt : TermType) (a : CApp) (hl : a.live = true) (hb : AppBooks a) (hw : AppWF a)
    (hlife : AppLife a) (h : AppNoPend a) : AppNoPend (relAll2 tt a) := by
  have key : ∀ y ∈ (relAll2 tt a).items, (isZero (some a.pending) = true ∨ (relAll2 tt a).state = a.state) ∧
      ∃ x ∈ a.items, y.outstanding = x.outstanding := by
    intro y hy
    obtain ⟨hr, _, x, hx, _, ha, hq⟩ := mem_relAll2 hy
    refine ⟨?_, x, hx, by unfold CItem.outstanding; rw [ha, hq]⟩
    rw [relAll2_state_noasks hr, relAllApp_state]
    cases hz : isZero (some a.pending) with
    | true => exact Or.inl rfl
    | false => right; simp only [Bool.false_eq_true, if_false]
  have hzero := (AppBooks.none_of_zero hb hw (hlife.pos hl)).2.2
  constructor
  · intro _ hst y hy
    obtain ⟨hor, x, hx, ho⟩ := key y hy
    rw [ho]
    rcases hor with hz | hs
    · exact hzero hz x hx
    · exact h.completingNoPending hl (hs.symm.trans hst) x hx
  · intro hst y hy
    obtain ⟨hor, x, hx, ho⟩ := key y hy
    rw [ho]
    rcases hor with hz | hs
    · exact hzero hz x hx
    · exact h.completedNoAsk (hs.symm.trans hst) x hx

theorem releaseApp_shape (s : Core) (tt : TermType) (app : String) (a : CApp) (hfind : s.findApp app = some a) :
    (s.releaseApp tt app).apps = updApps s.apps app (fun _ => relAll2 tt a) ∧ NodesSub s (s.releaseApp tt app) := by
  obtain ⟨e1, _, e3⟩ := releaseApp_lists s tt app a hfind
  obtain ⟨c1, c2, _⟩ := releaseAppCore_lists s tt app a
  constructor
  · rw [e1]
    split
    · rw [LinkA.unreserveApp_apps, c1]
    · exact c1
  · intro n hn
    rw [e3] at hn
    have hcore : ∃ n1 ∈ (releaseAppCore s tt app a).nodes, n1.id = n.id ∧ n1.allocs = n.allocs := by
      split at hn
      · exact unreserveApp_nodes_mem _ a false n hn
      · exact ⟨n, hn, rfl, rfl⟩
    obtain ⟨n1, hn1, _, hal1⟩ := hcore
    rw [c2] at hn1
    obtain ⟨n0, hn0, _, hsub, _⟩ := rmNs_mem _ _ n1 hn1
    exact ⟨n0, hn0, fun x hx => hsub x (hal1 ▸ hx)⟩

/-! ### `appRemove` -/

theorem appRemove_shape (s : Core) (app : String) :
    (∀ x ∈ (s.appRemove app).apps, x ∈ s.apps) ∧ NodesSub s (s.appRemove app) := by
  constructor
  · cases hfind : s.findApp app with
    | none =>
      have : s.appRemove app = s := by unfold appRemove; simp only [hfind]
      rw [this]; exact fun _ hx => hx
    | some a =>
      rw [(appRemove_lists s app a hfind).1, LinkA.unreserveApp_apps, (appRemoveCore_lists s app a).1]
      exact fun x hx => (List.mem_filter.mp hx).1
  · intro n hn
    obtain ⟨n0, hn0, _, hsub⟩ := appRemove_allocs_subset s app n hn
    exact ⟨n0, hn0, hsub⟩

/-! ### `dropAsksApp` -/

/-- the items after removeAsksInternal(""): none is requested any more; each is an old item, same size, same binding -/
theorem mem_dropAsksApp {b : CApp} {y : CItem} (hy : y ∈ (dropAsksApp b).items) :
    y.inReq = false ∧ ∃ x ∈ b.items, y.res = x.res ∧ y.ph = x.ph ∧ y.bound = x.bound := by
  cases hr : b.items.any (·.inReq) with
  | false =>
    rw [Timer.dropAsksApp_noreq b hr] at hy
    have := List.any_eq_false.mp hr y hy
    exact ⟨by simpa using this, y, hy, rfl, rfl, rfl⟩
  | true =>
    rw [(Timer.dropAsksApp_fields b hr).1] at hy
    obtain ⟨x, hx, _, rfl⟩ := Timer.mem_boundOnly hy
    exact ⟨rfl, x, hx, rfl, rfl, rfl⟩

/-- the state after removeAsksInternal(""): unchanged, or CompleteApplication fired — then the real total is zero and
    the application was neither Failing nor Completing -/
theorem dropAsksApp_state (b : CApp) :
    (dropAsksApp b).state = b.state ∨
    ((dropAsksApp b).state = fireState b.state .complete ∧ isZero (some b.allocated) = true ∧ b.state ≠ "Failing" ∧
      b.state ≠ "Completing") := by
  unfold dropAsksApp
  split
  · exact Or.inl rfl
  · simp only [setState_state]
    split
    · rename_i hc
      simp only [Bool.and_eq_true, bne_iff_ne, ne_eq] at hc
      exact Or.inr ⟨rfl, hc.1.1.1, hc.1.1.2, hc.1.2⟩
    · exact Or.inl rfl

theorem outstanding_of_noReq {y : CItem} (h : y.inReq = false) : y.outstanding = false := by
  unfold CItem.outstanding; rw [h]; rfl

/-! ### `phTimeout`, case 2 -/

theorem phApp1_state (a : CApp) (ev : Option String) :
    (Timer.phApp1 a ev).state = match ev with | some st => st | none => a.state := by
  unfold Timer.phApp1
  cases ev with
  | none => rfl
  | some st => exact setState_state a st

theorem mem_phApp1 {a : CApp} {ev : Option String} {y : CItem} (hy : y ∈ (Timer.phApp1 a ev).items) :
    ∃ x ∈ a.items, y.res = x.res ∧ y.ph = x.ph ∧ y.bound = x.bound := by
  rw [(Timer.phApp1_fields a ev).1] at hy
  obtain ⟨x, hx, rfl⟩ := List.mem_map.mp hy
  obtain ⟨_, h2, h3, _, h5, _⟩ := Timer.itemIrrel_ite (fun x => x.bound && !x.preempted) _ Timer.itemIrrel_released x
  exact ⟨x, hx, h2, h3, h5⟩

/-- what the life-cycle proofs need of the application after case 2 of `phTimeout` -/
theorem phApp2_facts (a : CApp) (ev : Option String) (hev : ev = none ∨ ev = some "Failing" ∨ ev = some "Resuming")
    (hnt : terminated a.state = false) :
    (Timer.phApp2 a ev).live = a.live ∧ terminated (Timer.phApp2 a ev).state = false ∧
    ((Timer.phApp2 a ev).state = "Completing" → a.state = "Completing" ∨ isZero (some a.allocated) = true) ∧
    (∀ y ∈ (Timer.phApp2 a ev).items, y.inReq = false ∧ ∃ x ∈ a.items, y.res = x.res ∧ y.ph = x.ph ∧ y.bound = x.bound) := by
  have hst1 : (Timer.phApp1 a ev).state = a.state ∨ (Timer.phApp1 a ev).state = "Failing" ∨
      (Timer.phApp1 a ev).state = "Resuming" := by
    rw [phApp1_state]
    rcases hev with rfl | rfl | rfl
    · exact Or.inl rfl
    · exact Or.inr (Or.inl rfl)
    · exact Or.inr (Or.inr rfl)
  have hnt1 : terminated (Timer.phApp1 a ev).state = false := by
    rcases hst1 with e | e | e <;> rw [e]
    · exact hnt
    · decide
    · decide
  have hc1 : (Timer.phApp1 a ev).state = "Completing" → a.state = "Completing" := by
    intro hc
    rcases hst1 with e | e | e
    · rw [← e]; exact hc
    · rw [e] at hc; exact absurd hc (by decide)
    · rw [e] at hc; exact absurd hc (by decide)
  refine ⟨(Timer.phApp2_fields a ev).2.2.1, ?_, ?_, ?_⟩
  · unfold Timer.phApp2
    rcases dropAsksApp_state (Timer.phApp1 a ev) with e | ⟨e, _, _, hnc⟩
    · rw [e]; exact hnt1
    · rw [e]
      cases ht : terminated (fireState (Timer.phApp1 a ev).state .complete) with
      | false => rfl
      | true =>
        rcases term_complete _ ht with h | h
        · exact absurd h hnc
        · rw [hnt1] at h; cases h
  · unfold Timer.phApp2
    intro hc
    rcases dropAsksApp_state (Timer.phApp1 a ev) with e | ⟨_, hz, _, _⟩
    · rw [e] at hc; exact Or.inl (hc1 hc)
    · rw [(Timer.phApp1_fields a ev).2.2.2.2.1] at hz; exact Or.inr hz
  · intro y hy
    unfold Timer.phApp2 at hy
    obtain ⟨h1, x, hx, h2, h3, h4⟩ := mem_dropAsksApp hy
    obtain ⟨x', hx', h2', h3', h4'⟩ := mem_phApp1 hx
    exact ⟨h1, x', hx', h2.trans h2', h3.trans h3', h4.trans h4'⟩

theorem phApp2_life (a : CApp) (ev : Option String) (hev : ev = none ∨ ev = some "Failing" ∨ ev = some "Resuming")
    (hl : a.live = true) (hb : AppBooks a) (hw : AppWF a) (hlife : AppLife a) (hg : AppGone a) :
    AppLife (Timer.phApp2 a ev) ∧ AppGone (Timer.phApp2 a ev) ∧ AppNoPend (Timer.phApp2 a ev) := by
  obtain ⟨f1, f2, f3, f4⟩ := phApp2_facts a ev hev (hg hl)
  have hzero := (AppBooks.none_of_zero hb hw (hlife.pos hl)).1
  refine ⟨⟨?_, ?_, ?_, ?_⟩, fun _ => f2, ⟨?_, ?_⟩⟩
  · intro _ y hy
    obtain ⟨_, x, hx, hr, _⟩ := f4 y hy
    rw [hr]; exact hlife.pos hl x hx
  · intro _ hst y hy hyb
    obtain ⟨_, x, hx, _, hp, hbd⟩ := f4 y hy
    rw [hp]
    rcases f3 hst with h | h
    · exact hlife.completingNoReal hl h x hx (hbd.symm.trans hyb)
    · exact hzero h x hx (hbd.symm.trans hyb)
  · intro hor
    rcases hor with h | h
    · rw [f1, hl] at h; cases h
    · rw [f2] at h; cases h
  · intro hst
    rw [hst] at f2
    exact absurd f2 (by decide)
  · intro _ _ y hy
    exact outstanding_of_noReq (f4 y hy).1
  · intro _ y hy
    exact outstanding_of_noReq (f4 y hy).1

/-- the "release the placeholders that are not being replaced" item update of the two timers: a flag -/
abbrev relPh (x : CItem) : CItem :=
  if (x.bound && x.ph && !x.released && !x.preempted) = true then { x with released := true } else x

theorem relPh_irrel : ItemIrrel relPh :=
  Timer.itemIrrel_ite (fun x => x.bound && x.ph && !x.released && !x.preempted) _ Timer.itemIrrel_released

/-- the state after `phTimeout`, case by case -/
theorem phTimeout_shape (s : Core) (app : String) (ev : Option String) (a : CApp) (hfind : s.findApp app = some a) :
    (s.phTimeout app ev = updApp s app (fun a => { a with items := a.items.map (fun x =>
        if (x.bound && x.ph && !x.released && !x.preempted) = true then { x with released := true } else x) })) ∨
    ((s.phTimeout app ev).apps = updApps s.apps app (fun _ => Timer.phApp2 a ev) ∧ NodesSub s (s.phTimeout app ev)) := by
  cases hc : ((a.state == "Running" || a.state == "Completing") && !(isZero (some a.allocatedPh))) with
  | true =>
    left
    unfold phTimeout; simp only [hfind, hc, if_true]
  | false =>
    right
    have e : s.phTimeout app ev =
        if a.items.any (·.inReq) = true then unreserveApp (Timer.phCore2 s app ev a) a false else Timer.phCore2 s app ev a := by
      unfold phTimeout; simp only [hfind, hc, Bool.false_eq_true, if_false]; rfl
    obtain ⟨l1, l2⟩ := LinkA.phCore2_lists s app ev a
    rw [e]
    split
    · refine ⟨by rw [LinkA.unreserveApp_apps, l1], ?_⟩
      intro n hn
      obtain ⟨n0, hn0, _, hal⟩ := unreserveApp_nodes_mem _ a false n hn
      rw [l2] at hn0
      exact ⟨n0, hn0, fun x hx => hal ▸ hx⟩
    · exact ⟨l1, NodesSub.of_eq l2⟩

/-! ### `stateTimeout` -/

/-- what a Completing application without placeholders becomes when its state timer fires -/
def doneApp (a : CApp) : CApp := { setState a "Completed" with live := false, items := Timer.boundOnly a.items }

theorem stateTimeout_shape (s : Core) (app : String) (a : CApp) (hfind : s.findApp app = some a) :
    s.stateTimeout app = s ∨
    s.stateTimeout app = updApp s app (fun a => { a with stateTimer := false, items := a.items.map relPh }) ∨
    (a.state = "Completing" ∧ isZero (some a.allocatedPh) = true ∧
      (s.stateTimeout app).apps = updApps s.apps app (fun _ => doneApp a) ∧ (s.stateTimeout app).nodes = s.nodes) := by
  cases hst : (a.state != "Completing") with
  | true => left; unfold stateTimeout; simp only [hfind, hst, if_true]
  | false =>
    right
    have hstate : a.state = "Completing" := by simpa using hst
    cases hph : (!(isZero (some a.allocatedPh))) with
    | true =>
      left
      unfold stateTimeout; simp only [hfind, hst, hph, Bool.false_eq_true, if_false, if_true]
    | false =>
      right
      have e : s.stateTimeout app =
          updQueues (updApp s app (fun _ => doneApp a)) (pathChain s a.queue) (Core.qLeave (doneApp a)) := by
        unfold stateTimeout doneApp
        simp only [hfind, hph, Bool.false_eq_true, if_false, hstate, Timer.fire_completing]
        rfl
      refine ⟨hstate, by simpa using hph, ?_, ?_⟩
      · rw [e]; rfl
      · rw [e]; rfl

/-- the timer only fires this branch when nothing is bound any more: the new record lists no item at all -/
theorem doneApp_life (a : CApp) (hl : a.live = true) (hst : a.state = "Completing")
    (hz : isZero (some a.allocatedPh) = true) (hb : AppBooks a) (hw : AppWF a) (hlife : AppLife a) :
    AppLife (doneApp a) ∧ AppGone (doneApp a) ∧ AppNoPend (doneApp a) := by
  have hno : ∀ y ∈ (doneApp a).items, False := by
    intro y hy
    have hy' : y ∈ Timer.boundOnly a.items := hy
    obtain ⟨x, hx, hxb, _⟩ := Timer.mem_boundOnly hy'
    have h1 := hlife.completingNoReal hl hst x hx hxb
    have h2 := (AppBooks.none_of_zero hb hw (hlife.pos hl)).2.1 hz x hx hxb
    rw [h1] at h2; cases h2
  have hlive : (doneApp a).live = false := rfl
  refine ⟨⟨?_, ?_, ?_, ?_⟩, ?_, ⟨?_, ?_⟩⟩
  · intro _ y hy; exact (hno y hy).elim
  · intro _ _ y hy; exact (hno y hy).elim
  · intro _ y hy; exact (hno y hy).elim
  · intro _ y hy; exact (hno y hy).elim
  · intro h; rw [hlive] at h; cases h
  · intro _ _ y hy; exact (hno y hy).elim
  · intro _ y hy; exact (hno y hy).elim

/-! ### `leaveApp`, `sweepTerminated` -/

/-- moveTerminatedApp on the application record -/
def leftApp (a : CApp) : CApp := { a with live := false, items := Timer.boundOnly a.items }

theorem leaveApp_shape (c : Core) (app : String) (a : CApp) (hfind : c.findApp app = some a) :
    (c.leaveApp app).apps = updApps c.apps app (fun _ => leftApp a) ∧ (c.leaveApp app).nodes = c.nodes := by
  unfold leaveApp
  simp only [hfind]
  exact ⟨rfl, rfl⟩

theorem mem_leftApp {a : CApp} {y : CItem} (hy : y ∈ (leftApp a).items) :
    y.inReq = false ∧ ∃ x ∈ a.items, x.bound = true ∧ y.ph = x.ph := by
  have hy' : y ∈ Timer.boundOnly a.items := hy
  obtain ⟨x, hx, hxb, rfl⟩ := Timer.mem_boundOnly hy'
  exact ⟨rfl, x, hx, hxb, rfl⟩

/-- a terminated application that leaves holds no placeholder (`noPhOrphan` of the live record) -/
theorem appLife_leftApp (a : CApp) (ht : terminated a.state = true) (h : AppLife a) : AppLife (leftApp a) := by
  have hlive : (leftApp a).live = false := rfl
  have hstate : (leftApp a).state = a.state := rfl
  refine ⟨?_, ?_, ?_, ?_⟩
  · intro hl; rw [hlive] at hl; cases hl
  · intro hl; rw [hlive] at hl; cases hl
  · intro _ y hy _
    obtain ⟨_, x, hx, hxb, hp⟩ := mem_leftApp hy
    rw [hp]; exact h.noPhOrphan (Or.inr ht) x hx hxb
  · intro hst y hy _
    obtain ⟨_, x, hx, hxb, hp⟩ := mem_leftApp hy
    rw [hp]; exact h.completedNoReal (hstate.symm.trans hst) x hx hxb

theorem appNoPend_leftApp (a : CApp) : AppNoPend (leftApp a) :=
  ⟨fun _ _ _ hy => outstanding_of_noReq (mem_leftApp hy).1, fun _ _ hy => outstanding_of_noReq (mem_leftApp hy).1⟩

/-- the live applications after `leaveApp`: live applications of the old state with another id -/
theorem leaveApp_live_mem (c : Core) (id : String) (hw : CoreWF c) :
    ∀ b ∈ (c.leaveApp id).apps, b.live = true → b ∈ c.apps ∧ b.id ≠ id := by
  intro b hb hbl
  cases hfind : c.findApp id with
  | none =>
    have e : c.leaveApp id = c := by unfold leaveApp; simp only [hfind]
    rw [e] at hb
    exact ⟨hb, findApp_none hfind b hb hbl⟩
  | some a =>
    obtain ⟨ham, hl, hid⟩ := findApp_some hfind
    rw [(leaveApp_shape c id a hfind).1] at hb
    rcases mem_updApps hw.appIds ham hl hid hb with rfl | ⟨hbs, hne⟩
    · have : (leftApp a).live = false := rfl
      rw [this] at hbl; cases hbl
    · refine ⟨hbs, ?_⟩
      intro e
      exact hne (by simp [hbl, e])

end LifeC

/-! ### the results -/

/-- partition.removeAllocation(app, "", tt) keeps the life-cycle invariant -/
theorem life_releaseApp (s : Core) (tt : TermType) (app : String) (hw : CoreWF s) (_hb : Books s) (h : LifeInv s) :
    LifeInv (s.releaseApp tt app) := by
  cases hfind : s.findApp app with
  | none =>
    have : s.releaseApp tt app = s := by unfold releaseApp; simp only [hfind]
    rw [this]; exact h
  | some a =>
    obtain ⟨ham, hl, hid⟩ := findApp_some hfind
    obtain ⟨e1, e2⟩ := LifeC.releaseApp_shape s tt app a hfind
    exact LifeC.life_upd hw ham hl hid e1 e2 h (LifeC.appLife_relAll2 tt a hl (LifeC.appLife_of h.core ham))
      (LifeC.relAll2_gone tt a)

theorem nopend_releaseApp (s : Core) (tt : TermType) (app : String) (hw : CoreWF s) (hb : Books s) (h : LifeInv s)
    (hp : NoPendInv s) : NoPendInv (s.releaseApp tt app) := by
  cases hfind : s.findApp app with
  | none =>
    have : s.releaseApp tt app = s := by unfold releaseApp; simp only [hfind]
    rw [this]; exact hp
  | some a =>
    obtain ⟨ham, hl, hid⟩ := findApp_some hfind
    obtain ⟨e1, _⟩ := LifeC.releaseApp_shape s tt app a hfind
    exact LifeC.noPend_upd hw ham hl hid e1 hp
      (LifeC.appNoPend_relAll2 tt a hl (hb.apps a ham hl) (hw.app ham hl) (LifeC.appLife_of h.core ham)
        (LifeC.appNoPend_of hp ham))

/-- partition.removeApplication keeps the life-cycle invariant -/
theorem life_appRemove (s : Core) (app : String) (_hw : CoreWF s) (_hb : Books s) (h : LifeInv s) :
    LifeInv (s.appRemove app) :=
  LifeC.life_sub (LifeC.appRemove_shape s app).1 (LifeC.appRemove_shape s app).2 h

theorem nopend_appRemove (s : Core) (app : String) (_hw : CoreWF s) (_hb : Books s) (_h : LifeInv s) (hp : NoPendInv s) :
    NoPendInv (s.appRemove app) :=
  LifeC.noPend_sub (LifeC.appRemove_shape s app).1 hp

/-- timeoutPlaceholderProcessing keeps the life-cycle invariant, both parts; `ev` is what it can announce -/
theorem life_nopend_phTimeout (s : Core) (app : String) (ev : Option String) (hw : CoreWF s) (hb : Books s) (h : LifeInv s)
    (hev : ev = none ∨ ev = some "Failing" ∨ ev = some "Resuming") :
    LifeInv (s.phTimeout app ev) ∧ (NoPendInv s → NoPendInv (s.phTimeout app ev)) := by
  cases hfind : s.findApp app with
  | none =>
    have : s.phTimeout app ev = s := by unfold phTimeout; simp only [hfind]
    rw [this]; exact ⟨h, fun hp => hp⟩
  | some a =>
    obtain ⟨ham, hl, hid⟩ := findApp_some hfind
    rcases LifeC.phTimeout_shape s app ev a hfind with e | ⟨e1, e2⟩
    · rw [e]
      obtain ⟨f1, f2⟩ := LifeC.flag_upd s app (fun a => { a with items := a.items.map LifeC.relPh })
        (fun _ => ⟨rfl, rfl, LifeC.relPh, LifeC.relPh_irrel, rfl⟩)
      exact ⟨f1 h, f2⟩
    · obtain ⟨g1, g2, g3⟩ := LifeC.phApp2_life a ev hev hl (hb.apps a ham hl) (hw.app ham hl) (LifeC.appLife_of h.core ham)
        (h.termGone a ham)
      exact ⟨LifeC.life_upd hw ham hl hid e1 e2 h g1 g2, fun hp => LifeC.noPend_upd hw ham hl hid e1 hp g3⟩

theorem life_phTimeout (s : Core) (app : String) (ev : Option String) (hw : CoreWF s) (hb : Books s) (h : LifeInv s)
    (hev : ev = none ∨ ev = some "Failing" ∨ ev = some "Resuming") : LifeInv (s.phTimeout app ev) :=
  (life_nopend_phTimeout s app ev hw hb h hev).1

theorem nopend_phTimeout (s : Core) (app : String) (ev : Option String) (hw : CoreWF s) (hb : Books s) (h : LifeInv s)
    (hp : NoPendInv s) (hev : ev = none ∨ ev = some "Failing" ∨ ev = some "Resuming") : NoPendInv (s.phTimeout app ev) :=
  (life_nopend_phTimeout s app ev hw hb h hev).2 hp

/-- timeoutStateTimer keeps the life-cycle invariant, both parts -/
theorem life_nopend_stateTimeout (s : Core) (app : String) (hw : CoreWF s) (hb : Books s) (h : LifeInv s) :
    LifeInv (s.stateTimeout app) ∧ (NoPendInv s → NoPendInv (s.stateTimeout app)) := by
  cases hfind : s.findApp app with
  | none =>
    have : s.stateTimeout app = s := by unfold stateTimeout; simp only [hfind]
    rw [this]; exact ⟨h, fun hp => hp⟩
  | some a =>
    obtain ⟨ham, hl, hid⟩ := findApp_some hfind
    rcases LifeC.stateTimeout_shape s app a hfind with e | e | ⟨hst, hz, e1, e2⟩
    · rw [e]; exact ⟨h, fun hp => hp⟩
    · rw [e]
      obtain ⟨f1, f2⟩ := LifeC.flag_upd s app (fun a => { a with stateTimer := false, items := a.items.map LifeC.relPh })
        (fun _ => ⟨rfl, rfl, LifeC.relPh, LifeC.relPh_irrel, rfl⟩)
      exact ⟨f1 h, f2⟩
    · obtain ⟨g1, g2, g3⟩ := LifeC.doneApp_life a hl hst hz (hb.apps a ham hl) (hw.app ham hl) (LifeC.appLife_of h.core ham)
      exact ⟨LifeC.life_upd hw ham hl hid e1 (LifeC.NodesSub.of_eq e2) h g1 g2,
        fun hp => LifeC.noPend_upd hw ham hl hid e1 hp g3⟩

theorem life_stateTimeout (s : Core) (app : String) (hw : CoreWF s) (hb : Books s) (h : LifeInv s) :
    LifeInv (s.stateTimeout app) := (life_nopend_stateTimeout s app hw hb h).1

theorem nopend_stateTimeout (s : Core) (app : String) (hw : CoreWF s) (hb : Books s) (h : LifeInv s) (hp : NoPendInv s) :
    NoPendInv (s.stateTimeout app) := (life_nopend_stateTimeout s app hw hb h).2 hp

/-- moveTerminatedApp for an application that has terminated (inside / at the end of a node removal: `LifeCore` only) -/
theorem lifeCore_leaveApp (c : Core) (app : String) (hw : CoreWF c) (_hb : Books c) (h : LifeCore c)
    (hterm : ∀ a, c.findApp app = some a → terminated a.state = true) : LifeCore (c.leaveApp app) := by
  cases hfind : c.findApp app with
  | none =>
    have : c.leaveApp app = c := by unfold leaveApp; simp only [hfind]
    rw [this]; exact h
  | some a =>
    obtain ⟨ham, hl, hid⟩ := findApp_some hfind
    obtain ⟨e1, e2⟩ := LifeC.leaveApp_shape c app a hfind
    exact LifeC.lifeCore_upd hw ham hl hid e1 (LifeC.NodesSub.of_eq e2) h
      (LifeC.appLife_leftApp a (hterm a hfind) (LifeC.appLife_of h ham))

theorem nopend_leaveApp (c : Core) (app : String) (hw : CoreWF c) (hp : NoPendInv c) : NoPendInv (c.leaveApp app) := by
  cases hfind : c.findApp app with
  | none =>
    have : c.leaveApp app = c := by unfold leaveApp; simp only [hfind]
    rw [this]; exact hp
  | some a =>
    obtain ⟨ham, hl, hid⟩ := findApp_some hfind
    exact LifeC.noPend_upd hw ham hl hid (LifeC.leaveApp_shape c app a hfind).1 hp (LifeC.appNoPend_leftApp a)

/-- the loop of `sweepTerminated` over any list `l` of application records: when the live application of the current
    state with the id of a live terminated element of `l` is terminated, and every live terminated application of the
    current state is announced by `l`, the result satisfies the whole invariant -/
theorem LifeC.sweep_fold_life (l : List CApp) : ∀ (c : Core), CoreWF c → Books c → LifeCore c →
    (∀ a ∈ l, (a.live && terminated a.state) = true →
      ∀ b ∈ c.apps, b.live = true → b.id = a.id → terminated b.state = true) →
    (∀ b ∈ c.apps, b.live = true → terminated b.state = true →
      ∃ a ∈ l, (a.live && terminated a.state) = true ∧ a.id = b.id) →
    LifeInv (l.foldl (fun c a => if a.live && terminated a.state then leaveApp c a.id else c) c) := by
  induction l with
  | nil =>
    intro c _ _ h _ h2
    refine ⟨h, ?_⟩
    intro b hb hbl
    cases ht : terminated b.state with
    | false => rfl
    | true =>
      obtain ⟨a, ha, _⟩ := h2 b hb hbl ht
      cases ha
  | cons a t ih =>
    intro c hw hb h h1 h2
    rw [List.foldl_cons]
    by_cases hc : (a.live && terminated a.state) = true
    · rw [if_pos hc]
      obtain ⟨hb1, hw1⟩ := leaveApp_props c a.id hw hb
      have hl1 : LifeCore (c.leaveApp a.id) := lifeCore_leaveApp c a.id hw hb h (fun a2 hf => by
        obtain ⟨m, l, i⟩ := findApp_some hf
        exact h1 a List.mem_cons_self hc a2 m l i)
      refine ih _ hw1 hb1 hl1 ?_ ?_
      · intro a' ha' hc' b hbm hbl hbid
        exact h1 a' (List.mem_cons_of_mem _ ha') hc' b (LifeC.leaveApp_live_mem c a.id hw b hbm hbl).1 hbl hbid
      · intro b hbm hbl ht
        obtain ⟨hbc, hne⟩ := LifeC.leaveApp_live_mem c a.id hw b hbm hbl
        obtain ⟨a', ha', hc', hid'⟩ := h2 b hbc hbl ht
        rcases List.mem_cons.mp ha' with rfl | ha't
        · exact absurd hid'.symm hne
        · exact ⟨a', ha't, hc', hid'⟩
    · rw [if_neg hc]
      refine ih c hw hb h ?_ ?_
      · intro a' ha' hc' b hbm hbl hbid
        exact h1 a' (List.mem_cons_of_mem _ ha') hc' b hbm hbl hbid
      · intro b hbm hbl ht
        obtain ⟨a', ha', hc', hid'⟩ := h2 b hbm hbl ht
        rcases List.mem_cons.mp ha' with rfl | ha't
        · exact absurd hc' hc
        · exact ⟨a', ha't, hc', hid'⟩

/-- at the end of a node removal: once the terminated applications have left, the whole invariant holds again -/
theorem life_sweepTerminated (c : Core) (hw : CoreWF c) (hb : Books c) (h : LifeCore c) : LifeInv c.sweepTerminated := by
  refine LifeC.sweep_fold_life c.apps c hw hb h ?_ ?_
  · intro a ha hc b hbm hbl hid
    simp only [Bool.and_eq_true] at hc
    have : b = a := (appIds_atMostOne a.id hw.appIds).eq hbm ha (by simp [hbl, hid]) (by simp [hc.1])
    rw [this]; exact hc.2
  · intro b hbm hbl ht
    exact ⟨b, hbm, by simp [hbl, ht], rfl⟩

theorem LifeC.sweep_fold_nopend (l : List CApp) : ∀ (c : Core), CoreWF c → Books c → NoPendInv c →
    NoPendInv (l.foldl (fun c a => if a.live && terminated a.state then leaveApp c a.id else c) c) := by
  induction l with
  | nil => intro c _ _ hp; exact hp
  | cons a t ih =>
    intro c hw hb hp
    rw [List.foldl_cons]
    by_cases hc : (a.live && terminated a.state) = true
    · rw [if_pos hc]
      obtain ⟨hb1, hw1⟩ := leaveApp_props c a.id hw hb
      exact ih _ hw1 hb1 (nopend_leaveApp c a.id hw hp)
    · rw [if_neg hc]
      exact ih c hw hb hp

theorem nopend_sweepTerminated (c : Core) (hw : CoreWF c) (hb : Books c) (hp : NoPendInv c) :
    NoPendInv c.sweepTerminated := LifeC.sweep_fold_nopend c.apps c hw hb hp

/-- the record that leaves lists no ask at all: `leaveApp` also keeps the clause about asks in its mid-removal form -/
theorem nopendMid_leaveApp (c : Core) (app : String) (hw : CoreWF c) (hp : NoPendMid c) : NoPendMid (c.leaveApp app) := by
  cases hfind : c.findApp app with
  | none =>
    have : c.leaveApp app = c := by unfold leaveApp; simp only [hfind]
    rw [this]; exact hp
  | some a =>
    obtain ⟨ham, hl, hid⟩ := findApp_some hfind
    have h1 := LifeC.appNoPend_leftApp a
    exact LifeC.upd_all (P := AppNoPendMid) hw ham hl hid (LifeC.leaveApp_shape c app a hfind).1
      ⟨h1.completingNoPending, fun _ => h1.completedNoAsk⟩ hp

theorem LifeC.sweep_fold_nopendMid (l : List CApp) : ∀ (c : Core), CoreWF c → Books c → NoPendMid c →
    NoPendMid (l.foldl (fun c a => if a.live && terminated a.state then leaveApp c a.id else c) c) := by
  induction l with
  | nil => intro c _ _ hp; exact hp
  | cons a t ih =>
    intro c hw hb hp
    rw [List.foldl_cons]
    by_cases hc : (a.live && terminated a.state) = true
    · rw [if_pos hc]
      obtain ⟨hb1, hw1⟩ := leaveApp_props c a.id hw hb
      exact ih _ hw1 hb1 (nopendMid_leaveApp c a.id hw hp)
    · rw [if_neg hc]
      exact ih c hw hb hp

/-- at the end of a node removal: the terminated applications have left (`life_sweepTerminated`), so the clause about
    asks holds in full again -/
theorem nopend_sweepTerminated_mid (c : Core) (hw : CoreWF c) (hb : Books c) (hL : LifeCore c) (hp : NoPendMid c) :
    NoPendInv c.sweepTerminated :=
  NoPendMid.inv (LifeC.sweep_fold_nopendMid c.apps c hw hb hp) (life_sweepTerminated c hw hb hL).termGone

end Yk
