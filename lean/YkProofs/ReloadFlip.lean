/- C16: a parent that becomes a leaf — the children it had are not named by the configuration (an entry of leaf type has
   no entry below it), so the recursion of updateQueues into the queue with the empty child list marks them for removal -/
import YkProofs.ReloadMark
namespace Yk.Reload
open Yk Yk.Reload

/-- every entry but the top one comes after an entry of PARENT type that carries its parent path -/
theorem confWFAux_parent_isParent (conf : List QC) : ∀ seen : List QC, confWFAux seen conf = true →
    ∀ c ∈ conf, c.parent = "" ∨ ∃ p ∈ seen ++ conf, p.path = c.parent ∧ p.isParent = true := by
  induction conf with
  | nil => intro _ _ c hc; cases hc
  | cons a r ih =>
    intro seen hwf c hc
    unfold confWFAux at hwf
    simp only [Bool.and_eq_true, Bool.or_eq_true, decide_eq_true_eq, List.any_eq_true] at hwf
    cases hc with
    | head =>
      rcases hwf.1.2 with h0 | ⟨p, hp, hpp, hpi⟩
      · exact Or.inl h0
      · exact Or.inr ⟨p, List.mem_append_left _ hp, hpp, hpi⟩
    | tail _ hm =>
      rcases ih (seen ++ [a]) hwf.2 c hm with h0 | ⟨p, hp, hpp, hpi⟩
      · exact Or.inl h0
      · exact Or.inr ⟨p, by simpa [List.append_assoc] using hp, hpp, hpi⟩

/-- no entry of a well-formed configuration sits below a path at which the configuration has only leaf-type entries -/
theorem no_entry_below_leaf (conf : List QC) (hwf : confWF conf = true) (p : String) (hp : ¬ p = "")
    (hleaf : ∀ c ∈ conf, c.path = p → c.isParent = false) : ∀ c ∈ conf, ¬ c.parent = p := by
  intro c hc hpar
  rcases confWFAux_parent_isParent conf [] hwf c hc with h0 | ⟨e, he, hep, hei⟩
  · exact hp (by rw [← hpar, h0])
  · have he' : e ∈ conf := by simpa using he
    have := hleaf e he' (by rw [hep, hpar])
    rw [this] at hei; cases hei

/-- the children of a queue that the configuration turns into a leaf (or keeps as one) are not named by the configuration -/
theorem children_of_leaf_not_configured (t : Tree) (conf : List QC) (h : TreeOK t) (hwf : confWF conf = true) (hcp : confPaths conf = true)
    (p : String) (hp : ¬ p = "") (hleaf : ∀ c ∈ conf, c.path = p → c.isParent = false)
    (x : String) (q : RQ) (hq : t.find x = some q) (hpar : q.parent = p) : configured conf x = false := by
  cases hc : configured conf x with
  | false => rfl
  | true =>
    obtain ⟨c, hcm, hcx⟩ := (configured_iff conf x).mp hc
    have h1 := (confPaths_spec conf hcp c hcm).1
    have h2 := h.pp q (find_mem hq)
    have hqx := find_some_path hq
    exact absurd (by rw [h1, hcx, ← hqx, ← h2, hpar]) (no_entry_below_leaf conf hwf p hp hleaf c hcm)

/-- … hence the update as the code performs it (`updateTreeRec`: the recursion into every configured queue, with an empty
    child list for a leaf entry) gives each managed one of them the Remove event: Active and Draining become Draining -/
theorem updateTreeRec_flip_children (t t' : Tree) (conf : List QC) (h : TreeOK t) (hwf : confWF conf = true) (hcp : confPaths conf = true)
    (htop : ∀ q ∈ t, q.parent = "" → configured conf q.path = true) (hupd : updateTreeRec t conf = (t', none))
    (p : String) (hp : ¬ p = "") (hleaf : ∀ c ∈ conf, c.path = p → c.isParent = false) :
    ∀ x q, t.find x = some q → q.managed = true → q.parent = p → t'.find x = some q.mark := by
  intro x q hq hm hpar
  exact updateTreeRec_dropped t t' conf h hwf hcp htop hupd x q hq hm
    (children_of_leaf_not_configured t conf h hwf hcp p hp hleaf x q hq hpar)

end Yk.Reload
