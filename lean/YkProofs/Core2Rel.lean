/-
  `releaseKeyT` (partition.removeAllocation for a key, every termination type): the books and the well-formedness of the
  state are preserved.  Two steps as in the code: the bound allocation leaves application, node and queue chain
  (`relBoundT`), then the ask leaves the application (`askRemoveT`; skipped for a TIMEOUT confirmation).
-/
import YkProofs.Core2Base
namespace Yk
open Res Core

/-! ### the application after `relAppT` -/

theorem relAppT_items (tt : TermType) (key : String) (i : CItem) (a : CApp) :
    (relAppT tt key i a).items = (updItem key (fun x => { x with bound := false }) a.items).filter (fun x => x.bound || x.inReq) := by
  unfold relAppT; cases i.ph <;> simp
theorem relAppT_queue (tt : TermType) (key : String) (i : CItem) (a : CApp) : (relAppT tt key i a).queue = a.queue := by
  unfold relAppT; cases i.ph <;> simp
theorem relAppT_id (tt : TermType) (key : String) (i : CItem) (a : CApp) : (relAppT tt key i a).id = a.id := by
  unfold relAppT; cases i.ph <;> simp
theorem relAppT_pending (tt : TermType) (key : String) (i : CItem) (a : CApp) : (relAppT tt key i a).pending = a.pending := by
  unfold relAppT; cases i.ph <;> simp
theorem relAppT_allocated (tt : TermType) (key : String) (i : CItem) (a : CApp) :
    (relAppT tt key i a).allocated = if i.ph = true then a.allocated else prune (subX a.allocated i.res) := by
  unfold relAppT; cases i.ph <;> simp
theorem relAppT_allocatedPh (tt : TermType) (key : String) (i : CItem) (a : CApp) :
    (relAppT tt key i a).allocatedPh = if i.ph = true then prune (subX a.allocatedPh i.res) else a.allocatedPh := by
  unfold relAppT; cases i.ph <;> simp

/-- the item list after the allocation `key` left application.allocations -/
def unbound (key : String) (l : List CItem) : List CItem :=
  (updItem key (fun x => { x with bound := false }) l).filter (fun x => x.bound || x.inReq)

theorem mem_unbound {key : String} {l : List CItem} {y : CItem} (hy : y ∈ unbound key l) :
    ∃ x ∈ l, y.key = x.key ∧ y.res = x.res ∧ y.ph = x.ph ∧ y.allocated = x.allocated ∧ y.inReq = x.inReq ∧
      ((x.key = key ∧ y.bound = false) ∨ (x.key ≠ key ∧ y = x)) := by
  obtain ⟨hm, _⟩ := List.mem_filter.mp hy
  obtain ⟨x, hx, h | h⟩ := mem_updItem hm
  · obtain ⟨hk, rfl⟩ := h
    exact ⟨x, hx, rfl, rfl, rfl, rfl, rfl, Or.inl ⟨hk, rfl⟩⟩
  · obtain ⟨hk, rfl⟩ := h
    exact ⟨y, hx, rfl, rfl, rfl, rfl, rfl, Or.inr ⟨hk, rfl⟩⟩

theorem pairwise_unbound (key : String) (l : List CItem) (h : l.Pairwise (fun i j => i.key ≠ j.key)) :
    (unbound key l).Pairwise (fun i j => i.key ≠ j.key) := by
  unfold unbound
  exact (pairwise_updItem l key (fun x => { x with bound := false }) (fun _ => rfl) h).filter _

/-- the three sums after an allocation was unbound -/
theorem itemSum_unbound (l : List CItem) (hk : l.Pairwise (fun i j => i.key ≠ j.key)) (key : String) (i : CItem)
    (hi : i ∈ l) (hkey : i.key = key) (hbd : i.bound = true) (k : String) :
    itemSum (unbound key l) (fun i => i.bound && !i.ph) k =
      itemSum l (fun i => i.bound && !i.ph) k - (if i.ph = true then 0 else i.res.getD k) ∧
    itemSum (unbound key l) (fun i => i.bound && i.ph) k =
      itemSum l (fun i => i.bound && i.ph) k - (if i.ph = true then i.res.getD k else 0) ∧
    itemSum (unbound key l) (fun i => i.inReq && !i.allocated) k = itemSum l (fun i => i.inReq && !i.allocated) k := by
  unfold unbound
  refine ⟨?_, ?_, ?_⟩
  · rw [itemSum_filter_irrel _ _ _ _ (fun x _ hd => by
      simp only [Bool.or_eq_false_iff] at hd; simp [hd.1]), itemSum_updItem _ hk key _ i hi hkey]
    cases i.ph <;> simp [hbd]
  · rw [itemSum_filter_irrel _ _ _ _ (fun x _ hd => by
      simp only [Bool.or_eq_false_iff] at hd; simp [hd.1]), itemSum_updItem _ hk key _ i hi hkey]
    cases i.ph <;> simp [hbd]
  · rw [itemSum_filter_irrel _ _ _ _ (fun x _ hd => by
      simp only [Bool.or_eq_false_iff] at hd; simp [hd.2]), itemSum_updItem _ hk key _ i hi hkey]
    simp

theorem appBooks_relAppT (tt : TermType) (key : String) (i : CItem) (a : CApp) (hba : AppBooks a) (hwa : AppWF a)
    (him : i ∈ a.items) (hkey : i.key = key) (hbd : i.bound = true) : AppBooks (relAppT tt key i a) := by
  obtain ⟨hwp, hwal, hwh⟩ := hwa.appRes
  obtain ⟨hwr, _⟩ := hwa.itemRes i him
  refine ⟨?_, ?_, ?_⟩ <;> intro k
  · rw [relAppT_items, relAppT_allocated]
    have := (itemSum_unbound a.items hwa.itemKeys key i him hkey hbd k).1
    unfold unbound at this
    rw [this, ← hba.allocated k]
    cases i.ph <;> simp [prune_subX_getD _ _ hwal hwr]
  · rw [relAppT_items, relAppT_allocatedPh]
    have := (itemSum_unbound a.items hwa.itemKeys key i him hkey hbd k).2.1
    unfold unbound at this
    rw [this, ← hba.allocatedPh k]
    cases i.ph <;> simp [prune_subX_getD _ _ hwh hwr]
  · rw [relAppT_items, relAppT_pending]
    have := (itemSum_unbound a.items hwa.itemKeys key i him hkey hbd k).2.2
    unfold unbound at this
    rw [this, ← hba.pending k]

theorem appWF_relAppT (tt : TermType) (key : String) (i : CItem) (a : CApp) (hwa : AppWF a) : AppWF (relAppT tt key i a) := by
  obtain ⟨hwp, hwal, hwh⟩ := hwa.appRes
  refine ⟨?_, ?_, ?_, ?_⟩
  · rw [relAppT_items]; exact pairwise_unbound key a.items hwa.itemKeys
  · rw [relAppT_pending, relAppT_allocated, relAppT_allocatedPh]
    refine ⟨hwp, ?_, ?_⟩
    · split
      · exact hwal
      · exact prune_wf _ (subX_wf _ _ hwal)
    · split
      · exact prune_wf _ (subX_wf _ _ hwh)
      · exact hwh
  · intro y hy
    rw [relAppT_items] at hy
    obtain ⟨x, hx, _, hr, _⟩ := mem_unbound hy
    rw [hr]; exact hwa.itemRes x hx
  · intro y hy hb
    rw [relAppT_items] at hy
    obtain ⟨x, hx, _, _, _, hal, _, h | h⟩ := mem_unbound hy
    · rw [h.2] at hb; cases hb
    · rw [h.2] at hb ⊢; exact hwa.boundAllocated x hx hb

/-! ### the queue chain after `relBoundT` -/

theorem relQT_path (i : CItem) (a' : CApp) (b : Bool) (q : CQueue) : (relQT i a' b q).path = q.path := by
  unfold relQT qLeave qDecPreempting qDecAlloc
  cases a'.live <;> cases b <;> cases i.preempted <;> cases strictlyGreaterThanZero (some i.res) <;> rfl

theorem relQT_pending_live (i : CItem) (a' : CApp) (b : Bool) (q : CQueue) (h : a'.live = true) :
    (relQT i a' b q).pending = q.pending := by
  unfold relQT qDecPreempting qDecAlloc
  rw [h]
  cases b <;> cases i.preempted <;> cases strictlyGreaterThanZero (some i.res) <;> rfl

/-- the queue before the application possibly leaves it -/
def relQT0 (i : CItem) (b : Bool) (q : CQueue) : CQueue :=
  let q1 := if b && strictlyGreaterThanZero (some i.res) then qDecAlloc i.res q else q
  if b && i.preempted && strictlyGreaterThanZero (some i.res) then qDecPreempting i.res q1 else q1

theorem relQT_eq (i : CItem) (a' : CApp) (b : Bool) (q : CQueue) :
    relQT i a' b q = if a'.live = true then relQT0 i b q else qLeave a' (relQT0 i b q) := rfl

theorem relQT0_pending (i : CItem) (b : Bool) (q : CQueue) : (relQT0 i b q).pending = q.pending := by
  unfold relQT0 qDecPreempting qDecAlloc
  cases b <;> cases i.preempted <;> cases strictlyGreaterThanZero (some i.res) <;> rfl

theorem relQT0_wf (i : CItem) (b : Bool) (q : CQueue) (hq : QWF q) : QWF (relQT0 i b q) := by
  unfold relQT0
  dsimp only
  split <;> split <;>
    first
    | exact hq
    | exact qDecAlloc_wf _ _ hq
    | exact qDecPreempting_wf _ _ (qDecAlloc_wf _ _ hq)
    | exact qDecPreempting_wf _ _ hq

theorem relQT0_allocated (i : CItem) (q : CQueue) (hq : QWF q) (hwr : wf i.res = true) (hnn : NonNeg i.res) (k : String) :
    (relQT0 i true q).allocated.getD k = q.allocated.getD k - i.res.getD k := by
  unfold relQT0
  cases hz : strictlyGreaterThanZero (some i.res) with
  | true =>
    simp only [Bool.true_and, if_true, Bool.and_true]
    split
    · exact qDecAlloc_allocated _ _ hq hwr k
    · exact qDecAlloc_allocated _ _ hq hwr k
  | false =>
    simp only [Bool.and_false, Bool.false_eq_true, if_false]
    rw [zero_of_not_sgtz hnn hz k]; omega

theorem relQT_wf (i : CItem) (a' : CApp) (b : Bool) (q : CQueue) (hq : QWF q) : QWF (relQT i a' b q) := by
  rw [relQT_eq]
  split
  · exact relQT0_wf i b q hq
  · exact qLeave_wf _ _ (relQT0_wf i b q hq)

/-- the chain queue after a release, pointwise (`a'` = the application afterwards) -/
theorem relQT_getD (i : CItem) (a' : CApp) (q : CQueue) (hq : QWF q) (hwr : wf i.res = true) (hnn : NonNeg i.res)
    (ha : wf a'.allocated = true) (hh : wf a'.allocatedPh = true) (hp : wf a'.pending = true)
    (hle : ∀ k, 0 ≤ a'.pending.getD k ∧ a'.pending.getD k ≤ q.pending.getD k) (k : String) :
    (relQT i a' true q).allocated.getD k =
      q.allocated.getD k - i.res.getD k - (if a'.live = true then 0 else a'.allocated.getD k + a'.allocatedPh.getD k) ∧
    (relQT i a' true q).pending.getD k = q.pending.getD k - (if a'.live = true then 0 else a'.pending.getD k) := by
  rw [relQT_eq]
  have h0 := relQT0_wf i true q hq
  cases hlv : a'.live with
  | true =>
    simp only [if_true]
    rw [relQT0_allocated i q hq hwr hnn k, relQT0_pending]; constructor <;> omega
  | false =>
    simp only [Bool.false_eq_true, if_false]
    rw [qLeave_allocated _ _ h0 ha hh k, relQT0_allocated i q hq hwr hnn k,
      qLeave_pending _ _ h0 hp (by rw [relQT0_pending]; exact hle) k, relQT0_pending]
    constructor <;> omega

/-! ### `relBoundT` -/

theorem relBoundT_unbound (s : Core) (tt : TermType) (app key : String) (a : CApp) (i : CItem) (h : i.bound = false) :
    relBoundT s tt app key a i = s := by
  unfold relBoundT; simp [h]

/-- the three lists after `relBoundT` for a bound allocation on a registered node -/
theorem relBoundT_lists (s : Core) (tt : TermType) (app key : String) (a : CApp) (i : CItem) (hbd : i.bound = true)
    (n : CNode) (hn : s.findNode i.node = some n) :
    (relBoundT s tt app key a i).apps = updApps s.apps app (fun _ => relAppT tt key i a) ∧
    (relBoundT s tt app key a i).nodes = updNs s.nodes i.node (nodeRm key i.res) ∧
    (relBoundT s tt app key a i).queues = updQs s.queues (pathChain s a.queue) (relQT i (relAppT tt key i a) true) := by
  unfold relBoundT
  simp only [hbd, if_true, hn, Option.isSome_some]
  exact ⟨rfl, rfl, rfl⟩

theorem nodeRm_books (key : String) (r : Res) (m : CNode) (hm : NWF m) (hmb : NodeBooks m) (hr : wf r = true)
    (x : CNodeAlloc) (hx : x ∈ m.allocs) (hxk : x.key = key) (hxf : x.foreign = false) (hxr : ∀ k, x.res.getD k = r.getD k) :
    NodeBooks (nodeRm key r m) := by
  obtain ⟨_, ho, hma, hv⟩ := hm.nodeRes
  constructor
  · intro k
    show (prune (subX m.allocated r)).getD k = allocSum (m.allocs.filter (fun y => y.key != key)) k
    rw [prune_subX_getD _ _ hma hr, allocSum_rm _ hm.allocKeys key x hx hxk, hmb.allocated k, hxr k]
    simp [hxf]
  · intro k
    show (addX m.available r).getD k = m.total.getD k - (prune (subX m.allocated r)).getD k - m.occupied.getD k
    rw [addX_getD _ _ hr, prune_subX_getD _ _ hma hr, hmb.available k]; omega

theorem nodeRm_wf (key : String) (r : Res) (m : CNode) (hm : NWF m) : NWF (nodeRm key r m) := by
  obtain ⟨ht, ho, hma, hv⟩ := hm.nodeRes
  refine ⟨hm.allocKeys.filter _, ⟨ht, ho, prune_wf _ (subX_wf _ _ hma), addX_wf _ _ hv⟩, ?_⟩
  intro x hx
  exact hm.allocRes x (List.mem_filter.mp hx).1

theorem books_relBoundT (s : Core) (tt : TermType) (app key : String) (a : CApp) (i : CItem) (hw : CoreWF s) (hb : Books s)
    (hfind : s.findApp app = some a) (hitem : a.items.find? (·.key == key) = some i) (hok : ReleaseOK s app key) :
    Books (relBoundT s tt app key a i) := by
  cases hbd : i.bound with
  | false => rw [relBoundT_unbound _ _ _ _ _ _ hbd]; exact hb
  | true =>
    obtain ⟨ham, hl, hid⟩ := findApp_some hfind
    obtain ⟨him, hkey⟩ := find_key_some hitem
    obtain ⟨n, hn, x, hxm, hxk, hxf, hxr⟩ := hok.onNode a i hfind hitem hbd
    obtain ⟨hnm, hnid⟩ := findNode_some hn
    have hwa := hw.app ham hl
    obtain ⟨hwp, hwal, hwh⟩ := hwa.appRes
    obtain ⟨hwr, hnn⟩ := hwa.itemRes i him
    have hba := hb.apps a ham hl
    obtain ⟨hta, htn, htq⟩ := relBoundT_lists s tt app key a i hbd n hn
    have hnodes : ∀ m ∈ (relBoundT s tt app key a i).nodes, NodeBooks m := by
      rw [htn]
      apply books_upd_nodes _ _ _ hb.nodes
      intro m hm hmid hmb
      have : m = n := nodeIds_eq hw hnm hm (hmid.trans hnid.symm)
      subst this
      exact nodeRm_books key i.res m (hw.node hm) hmb hwr x hxm hxk hxf hxr
    have hwa' := appWF_relAppT tt key i a hwa
    obtain ⟨hwp', hwal', hwh'⟩ := hwa'.appRes
    refine books_upd s _ app a _ (pathChain s a.queue) _ hta htq hnodes hw.appIds ham hl hid hb.apps hb.queues
      (relAppT_queue tt key i a) (fun _ => appBooks_relAppT tt key i a hba hwa him hkey hbd) (chain_iff s a.queue)
      (relQT_path i _ true) ?_
    intro q hq hun k
    have hge := fun k' => app_pending_ge s.apps (fun y hy hyl j hj => (hw.itemRes y hy hyl j hj).2) hb.apps a ham hl q
      (hb.queues q hq) hun k'
    obtain ⟨e1, e2⟩ := relQT_getD i (relAppT tt key i a) q (hw.queue hq) hwr hnn hwal' hwh' hwp'
      (by rw [relAppT_pending]; exact hge) k
    show (relQT i (relAppT tt key i a) true q).allocated.getD k = _ ∧ (relQT i (relAppT tt key i a) true q).pending.getD k = _
    rw [e1, e2]
    show _ = q.allocated.getD k - (a.allocated.getD k + a.allocatedPh.getD k)
        + (if (relAppT tt key i a).live = true then (relAppT tt key i a).allocated.getD k + (relAppT tt key i a).allocatedPh.getD k else 0) ∧
      _ = q.pending.getD k - a.pending.getD k + (if (relAppT tt key i a).live = true then (relAppT tt key i a).pending.getD k else 0)
    rw [relAppT_allocated, relAppT_allocatedPh, relAppT_pending]
    cases hph : i.ph <;> cases hlv : (relAppT tt key i a).live <;>
      simp only [Bool.false_eq_true, if_false, if_true, prune_subX_getD _ _ hwh hwr, prune_subX_getD _ _ hwal hwr] <;> omega

theorem relBoundT_lists' (s : Core) (tt : TermType) (app key : String) (a : CApp) (i : CItem) (hbd : i.bound = true) :
    (relBoundT s tt app key a i).apps = updApps s.apps app (fun _ => relAppT tt key i a) ∧
    (relBoundT s tt app key a i).nodes = (if (s.findNode i.node).isSome = true then updNs s.nodes i.node (nodeRm key i.res) else s.nodes) ∧
    (relBoundT s tt app key a i).queues =
      updQs s.queues (pathChain s a.queue) (relQT i (relAppT tt key i a) (s.findNode i.node).isSome) := by
  unfold relBoundT
  simp only [hbd, if_true]
  refine ⟨?_, ?_, ?_⟩ <;> cases (s.findNode i.node).isSome <;> rfl

theorem nodeRm_id (key : String) (r : Res) (n : CNode) : (nodeRm key r n).id = n.id := rfl

theorem wf_relBoundT (s : Core) (tt : TermType) (app key : String) (a : CApp) (i : CItem) (hw : CoreWF s)
    (hfind : s.findApp app = some a) : CoreWF (relBoundT s tt app key a i) := by
  cases hbd : i.bound with
  | false => rw [relBoundT_unbound _ _ _ _ _ _ hbd]; exact hw
  | true =>
    obtain ⟨ham, hl, hid⟩ := findApp_some hfind
    obtain ⟨hta, htn, htq⟩ := relBoundT_lists' s tt app key a i hbd
    obtain ⟨h1, h2⟩ := wf_updApps s.apps app (fun _ => relAppT tt key i a) a hw.appIds ham hl hid (fun x hx hxl => hw.app hx hxl)
      (const_id (by rw [relAppT_id, hid])) (fun _ => appWF_relAppT tt key i a (hw.app ham hl))
    have h3 := wf_updQs s.queues (pathChain s a.queue) (relQT i (relAppT tt key i a) (s.findNode i.node).isSome)
      (fun q hq => hw.queue hq) (fun q hq _ => relQT_wf _ _ _ q (hw.queue hq))
    obtain ⟨h4, h5⟩ := wf_updNs s.nodes i.node (nodeRm key i.res) hw.nodeIds (fun n hn => hw.node hn) (nodeRm_id key i.res)
      (fun n hn _ => nodeRm_wf key i.res n (hw.node hn))
    refine CoreWF.of_parts (by rw [hta]; exact h1) ?_ (by rw [hta]; exact h2) (by rw [htq]; exact h3) ?_
    · rw [htn]; split
      · exact h4
      · exact hw.nodeIds
    · rw [htn]; split
      · exact h5
      · exact fun n hn => hw.node hn

/-! ### `askRemoveT` -/

theorem askAppT_items (key : String) (x : CItem) (a : CApp) :
    (askAppT key x a).items = (updItem key (fun y => { y with inReq := false }) a.items).filter (fun y => y.bound || y.inReq) := by
  unfold askAppT; simp
theorem askAppT_queue (key : String) (x : CItem) (a : CApp) : (askAppT key x a).queue = a.queue := by unfold askAppT; simp
theorem askAppT_id (key : String) (x : CItem) (a : CApp) : (askAppT key x a).id = a.id := by unfold askAppT; simp
theorem askAppT_live (key : String) (x : CItem) (a : CApp) : (askAppT key x a).live = a.live := by unfold askAppT; simp
theorem askAppT_allocated (key : String) (x : CItem) (a : CApp) : (askAppT key x a).allocated = a.allocated := by unfold askAppT; simp
theorem askAppT_allocatedPh (key : String) (x : CItem) (a : CApp) : (askAppT key x a).allocatedPh = a.allocatedPh := by unfold askAppT; simp
theorem askAppT_pending (key : String) (x : CItem) (a : CApp) :
    (askAppT key x a).pending = if x.allocated = true then a.pending else prune (subX a.pending x.res) := by unfold askAppT; simp

theorem mem_askItems {key : String} {l : List CItem} {y : CItem}
    (hy : y ∈ (updItem key (fun y => { y with inReq := false }) l).filter (fun y => y.bound || y.inReq)) :
    ∃ x ∈ l, y.key = x.key ∧ y.res = x.res ∧ y.allocated = x.allocated ∧ y.bound = x.bound := by
  obtain ⟨hm, _⟩ := List.mem_filter.mp hy
  obtain ⟨x, hx, h | h⟩ := mem_updItem hm
  · obtain ⟨_, rfl⟩ := h; exact ⟨x, hx, rfl, rfl, rfl, rfl⟩
  · obtain ⟨_, rfl⟩ := h; exact ⟨y, hx, rfl, rfl, rfl, rfl⟩

theorem appBooks_askAppT (key : String) (x : CItem) (a : CApp) (hba : AppBooks a) (hwa : AppWF a)
    (hxm : x ∈ a.items) (hxk : x.key = key) (hxreq : x.inReq = true) : AppBooks (askAppT key x a) := by
  obtain ⟨hwp, _, _⟩ := hwa.appRes
  obtain ⟨hwr, _⟩ := hwa.itemRes x hxm
  refine ⟨?_, ?_, ?_⟩ <;> intro k
  · rw [askAppT_items, askAppT_allocated, itemSum_filter_irrel _ _ _ _ (fun y _ hd => by
      simp only [Bool.or_eq_false_iff] at hd; simp [hd.1]), itemSum_updItem_irrel]
    · exact hba.allocated k
    · intro y _; exact ⟨rfl, rfl⟩
  · rw [askAppT_items, askAppT_allocatedPh, itemSum_filter_irrel _ _ _ _ (fun y _ hd => by
      simp only [Bool.or_eq_false_iff] at hd; simp [hd.1]), itemSum_updItem_irrel]
    · exact hba.allocatedPh k
    · intro y _; exact ⟨rfl, rfl⟩
  · rw [askAppT_items, askAppT_pending, itemSum_filter_irrel _ _ _ _ (fun y _ hd => by
      simp only [Bool.or_eq_false_iff] at hd; simp [hd.2]), itemSum_updItem _ hwa.itemKeys key _ x hxm hxk, ← hba.pending k]
    cases hal : x.allocated
    · simp [hxreq, prune_subX_getD _ _ hwp hwr]
    · simp

theorem appWF_askAppT (key : String) (x : CItem) (a : CApp) (hwa : AppWF a) : AppWF (askAppT key x a) := by
  obtain ⟨hwp, hwal, hwh⟩ := hwa.appRes
  refine ⟨?_, ?_, ?_, ?_⟩
  · rw [askAppT_items]
    exact (pairwise_updItem a.items key (fun y => { y with inReq := false }) (fun _ => rfl) hwa.itemKeys).filter _
  · rw [askAppT_pending, askAppT_allocated, askAppT_allocatedPh]
    refine ⟨?_, hwal, hwh⟩
    split
    · exact hwp
    · exact prune_wf _ (subX_wf _ _ hwp)
  · intro y hy
    rw [askAppT_items] at hy
    obtain ⟨z, hz, _, hr, _⟩ := mem_askItems hy
    rw [hr]; exact hwa.itemRes z hz
  · intro y hy hb
    rw [askAppT_items] at hy
    obtain ⟨z, hz, _, _, hal, hbd⟩ := mem_askItems hy
    rw [hal]; exact hwa.boundAllocated z hz (hbd ▸ hb)

/-- the state after the ask left the application and the queue chain, before the reservation bookkeeping -/
def askRemoveCore (s1 : Core) (app key : String) (chain : List String) (x : CItem) : Core :=
  let s2 := updApp s1 app (askAppT key x)
  if x.allocated then s2 else updQueues s2 chain (qDecPend x.res)

theorem askRemoveCore_props (s1 : Core) (app key : String) (chain : List String) (a : CApp) (x : CItem)
    (hw : CoreWF s1) (hb : Books s1) (hfind : s1.findApp app = some a)
    (hitem : a.items.find? (fun x => x.key == key && x.inReq) = some x)
    (hchain : ∀ q ∈ s1.queues, (chain.contains q.path = true ↔ under a.queue q.path = true)) :
    Books (askRemoveCore s1 app key chain x) ∧ CoreWF (askRemoveCore s1 app key chain x) := by
  obtain ⟨ham, hl, hid⟩ := findApp_some hfind
  have hxm : x ∈ a.items := List.mem_of_find?_eq_some hitem
  have hxp := List.find?_some hitem
  simp only [Bool.and_eq_true, beq_iff_eq] at hxp
  obtain ⟨hxk, hxreq⟩ := hxp
  have hwa := hw.app ham hl
  obtain ⟨hwp, _, _⟩ := hwa.appRes
  obtain ⟨hwr, hnn⟩ := hwa.itemRes x hxm
  have hba := hb.apps a ham hl
  have hfa := appBooks_askAppT key x a hba hwa hxm hxk hxreq
  obtain ⟨w1, w2⟩ := wf_updApps s1.apps app (askAppT key x) a hw.appIds ham hl hid (fun y hy hyl => hw.app hy hyl)
    (fun y _ => askAppT_id key x y) (fun _ => appWF_askAppT key x a hwa)
  unfold askRemoveCore
  cases hal : x.allocated with
  | true =>
    simp only [if_true]
    constructor
    · refine books_upd s1 _ app a _ chain (fun q => q) rfl (by rw [updApp_queues, updQs_id]) hb.nodes hw.appIds ham hl hid
        hb.apps hb.queues (askAppT_queue key x a) (fun _ => hfa) hchain (fun _ => rfl) ?_
      intro q hq _ k
      rw [askAppT_live, askAppT_allocated, askAppT_allocatedPh, askAppT_pending]
      simp only [hl, hal, if_true]; constructor <;> omega
    · exact CoreWF.of_parts w1 hw.nodeIds w2 (fun q hq => hw.queue hq) (fun n hn => hw.node hn)
  | false =>
    simp only [Bool.false_eq_true, if_false]
    constructor
    · refine books_upd s1 _ app a _ chain _ rfl rfl hb.nodes hw.appIds ham hl hid
        hb.apps hb.queues (askAppT_queue key x a) (fun _ => hfa) hchain (fun _ => rfl) ?_
      intro q hq hun k
      have hge := fun k' => pending_ge s1.apps (fun y hy hyl j hj => (hw.itemRes y hy hyl j hj).2) hb.apps a ham hl x hxm
        (by simp [hxreq, hal]) q (hb.queues q hq) hun k'
      rw [askAppT_live, askAppT_allocated, askAppT_allocatedPh, askAppT_pending]
      constructor
      · show q.allocated.getD k = _
        simp only [hl, if_true]; omega
      · rw [qDecPend_pending _ _ (hw.queue hq) hwr (fun k' => by have := hge k'; omega)]
        simp only [hl, hal, if_true, Bool.false_eq_true, if_false, prune_subX_getD _ _ hwp hwr]; omega
    · refine CoreWF.of_parts w1 hw.nodeIds w2 ?_ (fun n hn => hw.node hn)
      exact wf_updQs s1.queues chain _ (fun q hq => hw.queue hq) (fun q hq _ => qDecPend_wf _ _ (hw.queue hq))

theorem askRemoveT_eq (s1 : Core) (app key : String) (chain : List String) (a1 : CApp) (x : CItem)
    (hfind : s1.findApp app = some a1) (hitem : a1.items.find? (fun x => x.key == key && x.inReq) = some x) :
    ∃ (gq : CQueue → CQueue) (gn : CNode → CNode),
      (∀ q, (gq q).path = q.path ∧ (gq q).allocated = q.allocated ∧ (gq q).pending = q.pending) ∧ NodeIrrel gn ∧
      (askRemoveT s1 app key chain).apps = (askRemoveCore s1 app key chain x).apps ∧
      (askRemoveT s1 app key chain).queues = (askRemoveCore s1 app key chain x).queues.map gq ∧
      (askRemoveT s1 app key chain).nodes = (askRemoveCore s1 app key chain x).nodes.map gn := by
  unfold askRemoveT
  simp only [hfind, hitem]
  split
  · refine ⟨fun q => q, fun n => n, fun _ => ⟨rfl, rfl, rfl⟩, fun _ => ⟨rfl, rfl, rfl, rfl, rfl, rfl⟩, rfl, ?_, ?_⟩
    · simp [askRemoveCore]
    · simp [askRemoveCore]
  · rename_i r _
    refine ⟨_, _, ?_, nodeIrrel_upd r.2 (fun n => { n with reservations := n.reservations.filter (· != key) })
      (fun _ => ⟨rfl, rfl, rfl, rfl, rfl, rfl⟩), rfl, rfl, rfl⟩
    intro q
    split <;> exact ⟨rfl, rfl, rfl⟩

theorem askRemoveT_props (s1 : Core) (app key : String) (chain : List String) (hw : CoreWF s1) (hb : Books s1)
    (hchain : ∀ a1, s1.findApp app = some a1 → ∀ q ∈ s1.queues, (chain.contains q.path = true ↔ under a1.queue q.path = true)) :
    Books (askRemoveT s1 app key chain) ∧ CoreWF (askRemoveT s1 app key chain) := by
  cases hfind : s1.findApp app with
  | none => unfold askRemoveT; simp only [hfind]; exact ⟨hb, hw⟩
  | some a1 =>
    cases hitem : a1.items.find? (fun x => x.key == key && x.inReq) with
    | none => unfold askRemoveT; simp only [hfind, hitem]; exact ⟨hb, hw⟩
    | some x =>
      obtain ⟨hb2, hw2⟩ := askRemoveCore_props s1 app key chain a1 x hw hb hfind hitem (hchain a1 hfind)
      obtain ⟨gq, gn, hgq, hgn, e1, e2, e3⟩ := askRemoveT_eq s1 app key chain a1 x hfind hitem
      have ha : (askRemoveT s1 app key chain).apps = (askRemoveCore s1 app key chain x).apps.map (fun a => a) := by
        rw [e1]; simp
      have hirr : AppIrrel (fun a : CApp => a) :=
        fun a => ⟨rfl, rfl, rfl, rfl, rfl, rfl, fun x => x, fun x => ⟨rfl, rfl, rfl, rfl, rfl, rfl⟩, by simp⟩
      exact ⟨books_irrel _ gq gn hirr hgq hgn ha e2 e3 hb2, wf_irrel _ gq gn hirr hgq hgn ha e2 e3 hw2⟩

/-! ### `releaseKeyT` -/

/-- the chain of the application is still its chain after one of the updates of this file -/
theorem chain_after (s t : Core) (app : String) (a : CApp) (f : CApp → CApp) (fq : CQueue → CQueue) (chain : List String)
    (hw : CoreWF s) (hfind : s.findApp app = some a) (hta : t.apps = updApps s.apps app f) (htq : t.queues = updQs s.queues chain fq)
    (hfq : (f a).queue = a.queue) (hpath : ∀ q, (fq q).path = q.path) :
    ∀ a1, t.findApp app = some a1 → ∀ q ∈ t.queues, ((pathChain s a.queue).contains q.path = true ↔ under a1.queue q.path = true) := by
  obtain ⟨ham, hl, hid⟩ := findApp_some hfind
  intro a1 h1 q1 hq1
  obtain ⟨h1m, h1l, h1id⟩ := findApp_some h1
  rw [hta] at h1m
  have hq : a1.queue = a.queue := by
    rcases mem_updApps hw.appIds ham hl hid h1m with h | ⟨_, hnd⟩
    · rw [h]; exact hfq
    · exact absurd (by simp [h1l, h1id]) hnd
  rw [hq]
  rw [htq] at hq1
  obtain ⟨q, hqm, rfl⟩ := List.mem_map.mp hq1
  have hp : (if (chain.contains q.path) = true then fq q else q).path = q.path := by
    split
    · exact hpath q
    · rfl
  rw [hp]
  exact mem_pathChain s.queues a.queue q.path ⟨q, hqm, rfl⟩

theorem releaseKeyT_props (s : Core) (tt : TermType) (app key : String)
    (hw : CoreWF s) (hb : Books s) (hrel : ReleaseOK s app key) :
    Books (s.releaseKeyT tt app key) ∧ CoreWF (s.releaseKeyT tt app key) := by
  cases hfind : s.findApp app with
  | none => unfold releaseKeyT; simp only [hfind]; exact ⟨hb, hw⟩
  | some a =>
    cases hitem : a.items.find? (·.key == key) with
    | none => unfold releaseKeyT; simp only [hfind, hitem]; exact ⟨hb, hw⟩
    | some i =>
      have hb1 := books_relBoundT s tt app key a i hw hb hfind hitem hrel
      have hw1 := wf_relBoundT s tt app key a i hw hfind
      unfold releaseKeyT
      simp only [hfind, hitem]
      split
      · exact ⟨hb1, hw1⟩
      · apply askRemoveT_props _ app key _ hw1 hb1
        cases hbd : i.bound with
        | false =>
          rw [relBoundT_unbound _ _ _ _ _ _ hbd]
          intro a1 h1 q hq
          rw [hfind] at h1
          simp only [Option.some.injEq] at h1
          subst h1
          exact chain_iff s _ q hq
        | true =>
          obtain ⟨hta, _, htq⟩ := relBoundT_lists' s tt app key a i hbd
          exact chain_after s _ app a _ _ _ hw hfind hta htq (relAppT_queue tt key i a) (relQT_path i _ _)

theorem books_releaseKeyT (s : Core) (tt : TermType) (app key : String)
    (hw : CoreWF s) (hb : Books s) (hrel : ReleaseOK s app key) : Books (s.releaseKeyT tt app key) :=
  (releaseKeyT_props s tt app key hw hb hrel).1

theorem wf_releaseKeyT (s : Core) (tt : TermType) (app key : String)
    (hw : CoreWF s) (hb : Books s) (hrel : ReleaseOK s app key) : CoreWF (s.releaseKeyT tt app key) :=
  (releaseKeyT_props s tt app key hw hb hrel).2

/-! ### reservations are not in the books -/

theorem appIrrel_id : AppIrrel (fun a : CApp => a) :=
  fun _ => ⟨rfl, rfl, rfl, rfl, rfl, rfl, fun x => x, fun _ => ⟨rfl, rfl, rfl, rfl, rfl, rfl⟩, by simp⟩

theorem unreserveApp_props (s : Core) (a : CApp) (c : Bool) (hw : CoreWF s) (hb : Books s) :
    Books (unreserveApp s a c) ∧ CoreWF (unreserveApp s a c) := by
  unfold unreserveApp
  split
  · exact ⟨hb, hw⟩
  · have hgq : ∀ q : CQueue, ((fun q : CQueue => if q.path == a.queue then { q with reserved := q.reserved.filter (·.1 != a.id) } else q) q).path = q.path ∧
        ((fun q : CQueue => if q.path == a.queue then { q with reserved := q.reserved.filter (·.1 != a.id) } else q) q).allocated = q.allocated ∧
        ((fun q : CQueue => if q.path == a.queue then { q with reserved := q.reserved.filter (·.1 != a.id) } else q) q).pending = q.pending := by
      intro q; dsimp only; split <;> exact ⟨rfl, rfl, rfl⟩
    have hgn : NodeIrrel (fun n : CNode => { n with reservations := n.reservations.filter (fun k => !(a.reservations.contains (k, n.id))) }) :=
      fun _ => ⟨rfl, rfl, rfl, rfl, rfl, rfl⟩
    exact ⟨books_irrel _ _ _ appIrrel_id hgq hgn (by simp) rfl rfl hb, wf_irrel _ _ _ appIrrel_id hgq hgn (by simp) rfl rfl hw⟩

end Yk
