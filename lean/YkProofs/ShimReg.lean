/- Registration invariant of the shim monitor (C04): applications and nodes are registered at most once. -/
import YkProofs.Shim
namespace Yk
open ShimView

def RInv (v : ShimView) : Prop := v.apps.Nodup ∧ v.nodes.Nodup

theorem nodup_cons_unless {l : List String} (a : String) (h : l.Nodup) :
    (if l.contains a = true then l else a :: l).Nodup := by
  by_cases hc : l.contains a = true
  · simp only [hc, if_true]; exact h
  · simp only [hc, Bool.false_eq_true, if_false]
    exact List.nodup_cons.mpr ⟨fun hm => hc (List.contains_iff_mem.mpr hm), h⟩

theorem step_RInv (v v' : ShimView) (m : ShimMsg) (h : RInv v) (hs : v.step m = some v') : RInv v' := by
  cases m with
  | nodeCreate id => simp only [step, Option.some.injEq] at hs; subst hs; exact h
  | nodeRemove id => simp only [step, Option.some.injEq] at hs; subst hs; exact ⟨h.1, h.2.filter _⟩
  | appAdd id => simp only [step, Option.some.injEq] at hs; subst hs; exact h
  | appRemove id => simp only [step, Option.some.injEq] at hs; subst hs; exact ⟨h.1.filter _, h.2⟩
  | ask key app =>
    simp only [step] at hs
    split at hs
    · simp only [Option.some.injEq] at hs; subst hs; exact h
    · simp only [Option.some.injEq] at hs; subst hs; exact h
  | place key app node => simp only [step, Option.some.injEq] at hs; subst hs; exact h
  | releaseKey key => simp only [step, dropKey, Option.some.injEq] at hs; subst hs; exact h
  | releaseApp app => simp only [step, Option.some.injEq] at hs; subst hs; exact h
  | newAlloc key app node =>
    simp only [step] at hs
    split at hs
    · simp only [Option.some.injEq] at hs; subst hs; exact h
    · split at hs
      · cases hs
      · split at hs
        · cases hs
        · split at hs
          · cases hs
          · split at hs
            · cases hs
            · simp only [Option.some.injEq] at hs; subst hs; exact h
  | release key c =>
    simp only [step] at hs
    split at hs
    · cases hs
    · split at hs
      · simp only [Option.some.injEq] at hs; subst hs; exact h
      · simp only [dropKey, Option.some.injEq] at hs; subst hs; exact h
  | appAccepted app =>
    simp only [step] at hs
    split at hs
    · cases hs
    · simp only [Option.some.injEq] at hs; subst hs; exact ⟨nodup_cons_unless app h.1, h.2⟩
  | appRejected app =>
    simp only [step] at hs
    split at hs
    · cases hs
    · simp only [Option.some.injEq] at hs; subst hs; exact h
  | nodeAccepted n =>
    simp only [step] at hs
    split at hs
    · cases hs
    · simp only [Option.some.injEq] at hs; subst hs; exact ⟨h.1, nodup_cons_unless n h.2⟩
  | nodeRejected n =>
    simp only [step] at hs
    split at hs
    · cases hs
    · simp only [Option.some.injEq] at hs; subst hs; exact h

theorem run_RInv (trace : List ShimMsg) (v0 v : ShimView) (h0 : RInv v0) (h : run v0 trace = some v) : RInv v := by
  induction trace generalizing v0 with
  | nil => simp only [run, Option.some.injEq] at h; subst h; exact h0
  | cons m ms ih =>
    simp only [run] at h
    cases hs : v0.step m with
    | none => rw [hs] at h; cases h
    | some v1 => rw [hs] at h; exact ih v1 (step_RInv v0 v1 m h0 hs) h

/-- an allocation the core announces on its own (not the echo of a reported one) lands on an application and a node
    that are registered in the resulting view, and is bound there -/
theorem newAlloc_lands (v v' : ShimView) (key app node : String) (hr : v.reported.contains (key, node) = false)
    (hs : v.step (.newAlloc key app node) = some v') :
    (key, app, node) ∈ v'.bound ∧ app ∈ v'.apps ∧ node ∈ v'.nodes ∧ key ∉ v'.asks.map (·.1) := by
  simp only [step, hr, Bool.false_eq_true, if_false] at hs
  split at hs
  · cases hs
  · split at hs
    · cases hs
    · rename_i ha
      split at hs
      · cases hs
      · rename_i hn
        split at hs
        · cases hs
        · simp only [Option.some.injEq] at hs; subst hs
          refine ⟨List.mem_cons_self, ?_, ?_, not_mem_map_filter_ne _ _ _⟩
          · simpa using ha
          · simpa using hn

end Yk
