/-
  Generic deadlock-freedom theorem for the abstract lock machine (YkModel/Lock.lean):
  if every thread only asks for a lock whose rank is strictly above the rank of every lock it holds, then no reachable
  state has a wait-for cycle or a deadlocked set, and the machine is never stuck — for any number of threads and locks,
  read and write modes, writer preference included.
-/
import YkModel.Lock
namespace Yk.Lock

set_option linter.unusedSectionVars false

variable {L : Type} [DecidableEq L]

/-- the discipline: a request is for a lock ranked strictly above everything the thread holds -/
def Ordered (rank : L → Nat) (ok : List (L × Mode) → L → Mode → Prop) : Prop :=
  ∀ H l m, ok H l m → ∀ p ∈ H, rank p.1 < rank l

/-- invariant: what a waiting thread asks for is ranked above everything it holds -/
def Inv (rank : L → Nat) (s : State L) : Prop :=
  ∀ t l m, s.want t = some (l, m) → ∀ p ∈ s.held t, rank p.1 < rank l

@[simp] theorem upd_same {α : Type} (f : Tid → α) (t : Tid) (v : α) : upd f t v t = v := by simp [upd]

theorem upd_other {α : Type} (f : Tid → α) (t u : Tid) (v : α) (h : u ≠ t) : upd f t v u = f u := by simp [upd, h]

theorem inv_init (rank : L → Nat) : Inv rank (State.init : State L) := by
  intro t l m h
  simp [State.init] at h

theorem inv_step {rank : L → Nat} {ok : List (L × Mode) → L → Mode → Prop} (hord : Ordered rank ok)
    {s s' : State L} (hinv : Inv rank s) (hs : Step ok s s') : Inv rank s' := by
  cases hs with
  | request t l m hw hok =>
    intro u l' m' hwu p hp
    dsimp only at hwu hp
    by_cases hut : u = t
    · subst hut
      simp at hwu
      obtain ⟨rfl, rfl⟩ := hwu
      exact hord _ _ _ hok p hp
    · rw [upd_other _ _ _ _ hut] at hwu
      exact hinv u l' m' hwu p hp
  | grant t l m hw hfree =>
    intro u l' m' hwu p hp
    dsimp only at hwu hp
    by_cases hut : u = t
    · subst hut
      simp at hwu
    · rw [upd_other _ _ _ _ hut] at hwu
      rw [upd_other _ _ _ _ hut] at hp
      exact hinv u l' m' hwu p hp
  | release t l m hw hmem =>
    intro u l' m' hwu p hp
    dsimp only at hwu hp
    by_cases hut : u = t
    · subst hut
      rw [hw] at hwu
      cases hwu
    · rw [upd_other _ _ _ _ hut] at hp
      exact hinv u l' m' hwu p hp

theorem inv_reach {rank : L → Nat} {ok : List (L × Mode) → L → Mode → Prop} (hord : Ordered rank ok)
    {s : State L} (hr : Reach ok s) : Inv rank s := by
  induction hr with
  | init => exact inv_init rank
  | step _ hs ih => exact inv_step hord ih hs

/-! ### the measure: rank of the wanted lock, writers just above readers of the same lock -/

def modeBit : Mode → Nat
  | .R => 0
  | .W => 1

def key (rank : L → Nat) (s : State L) (t : Tid) : Nat :=
  match s.want t with
  | some p => 2 * rank p.1 + modeBit p.2
  | none => 0

theorem blocked_waits {s : State L} {t u : Tid} (h : BlockedBy s t u) : s.want t ≠ none := by
  obtain ⟨l, m, hw, _⟩ := h
  rw [hw]
  simp

/-- along a wait-for edge between two waiting threads the measure strictly increases -/
theorem key_lt {rank : L → Nat} {s : State L} (hinv : Inv rank s) {t u : Tid}
    (hb : BlockedBy s t u) (hwu : s.want u ≠ none) : key rank s t < key rank s u := by
  obtain ⟨l, m, hwt, hc⟩ := hb
  rcases hc with ⟨m', hmem, _⟩ | ⟨hm, _, hw⟩
  · cases hu : s.want u with
    | none => exact absurd hu hwu
    | some p =>
      obtain ⟨l2, m2⟩ := p
      have hlt : rank l < rank l2 := hinv u l2 m2 hu (l, m') hmem
      simp only [key, hwt, hu]
      cases m <;> cases m2 <;> simp only [modeBit] <;> omega
  · subst hm
    simp only [key, hwt, hw, modeBit]
    omega

theorem chain_head_waits {s : State L} {t u : Tid} (h : Chain s t u) : s.want t ≠ none := by
  cases h with
  | single hb => exact blocked_waits hb
  | cons hb _ => exact blocked_waits hb

theorem chain_key_lt {rank : L → Nat} {s : State L} (hinv : Inv rank s) {t u : Tid}
    (hc : Chain s t u) (hwu : s.want u ≠ none) : key rank s t < key rank s u := by
  induction hc with
  | single hb => exact key_lt hinv hb hwu
  | cons hb hc ih =>
    have h1 := key_lt hinv hb (chain_head_waits hc)
    have h2 := ih hwu
    omega

/-- no wait-for cycle in a state that satisfies the invariant -/
theorem no_cycle_of_inv {rank : L → Nat} {s : State L} (hinv : Inv rank s) : ¬ Cycle s := by
  rintro ⟨t, hc⟩
  have := chain_key_lt hinv hc (chain_head_waits hc)
  omega

theorem exists_max (f : Tid → Nat) : ∀ S : List Tid, S ≠ [] → ∃ t ∈ S, ∀ u ∈ S, f u ≤ f t := by
  intro S
  induction S with
  | nil => intro h; exact absurd rfl h
  | cons a S ih =>
    intro _
    by_cases hS : S = []
    · subst hS
      exact ⟨a, by simp, by intro u hu; simp at hu; subst hu; exact Nat.le_refl _⟩
    · obtain ⟨t, ht, hmax⟩ := ih hS
      by_cases hle : f t ≤ f a
      · refine ⟨a, by simp, ?_⟩
        intro u hu
        rcases List.mem_cons.mp hu with rfl | hu
        · exact Nat.le_refl _
        · exact Nat.le_trans (hmax u hu) hle
      · refine ⟨t, List.mem_cons_of_mem _ ht, ?_⟩
        intro u hu
        rcases List.mem_cons.mp hu with rfl | hu
        · omega
        · exact hmax u hu

/-- no deadlocked set in a state that satisfies the invariant -/
theorem no_deadlock_of_inv {rank : L → Nat} {s : State L} (hinv : Inv rank s) : ¬ Deadlocked s := by
  rintro ⟨S, hne, hall⟩
  obtain ⟨t, ht, hmax⟩ := exists_max (key rank s) S hne
  obtain ⟨u, hu, hb⟩ := hall t ht
  obtain ⟨v, _, hbu⟩ := hall u hu
  have h1 := key_lt hinv hb (blocked_waits hbu)
  have h2 := hmax u hu
  omega

/-! ### progress: the machine is never stuck -/

/-- all waiting threads are among `T` -/
def Support (s : State L) (T : List Tid) : Prop := ∀ t, s.want t ≠ none → t ∈ T

theorem support_reach {ok : List (L × Mode) → L → Mode → Prop} {s : State L} (hr : Reach ok s) :
    ∃ T, Support s T := by
  induction hr with
  | init => exact ⟨[], by intro t h; simp [State.init] at h⟩
  | @step s1 s2 _ hs ih =>
    obtain ⟨T, hT⟩ := ih
    cases hs with
    | request t l m hw hok =>
      refine ⟨t :: T, ?_⟩
      intro u hu
      by_cases hut : u = t
      · subst hut; simp
      · have hu' : s1.want u ≠ none := by simpa [upd, hut] using hu
        exact List.mem_cons_of_mem _ (hT u hu')
    | grant t l m hw hfree =>
      refine ⟨T, ?_⟩
      intro u hu
      by_cases hut : u = t
      · subst hut; simp at hu
      · have hu' : s1.want u ≠ none := by simpa [upd, hut] using hu
        exact hT u hu'
    | release t l m hw hmem =>
      exact ⟨T, fun u hu => hT u hu⟩

/-- if somebody waits, then some waiting thread can be granted its lock or some running thread holds a lock -/
theorem progress_of_inv {rank : L → Nat} {s : State L} (hinv : Inv rank s) {T : List Tid} (hT : Support s T)
    (hw : ∃ t, s.want t ≠ none) : ∃ t, Grantable s t ∨ RunningHolder s t := by
  obtain ⟨t0, ht0⟩ := hw
  -- the waiting threads of T
  let W := T.filter (fun t => (s.want t).isSome)
  have hWmem : ∀ t, t ∈ W ↔ s.want t ≠ none := by
    intro t
    constructor
    · intro h
      have := (List.mem_filter.mp h).2
      intro hn
      rw [hn] at this
      simp at this
    · intro h
      refine List.mem_filter.mpr ⟨hT t h, ?_⟩
      cases hs : s.want t with
      | none => exact absurd hs h
      | some _ => simp
  have hWne : W ≠ [] := by
    intro h
    have : t0 ∈ W := (hWmem t0).mpr ht0
    rw [h] at this
    simp at this
  obtain ⟨t, ht, hmax⟩ := exists_max (key rank s) W hWne
  have htw : s.want t ≠ none := (hWmem t).mp ht
  cases hwt : s.want t with
  | none => exact absurd hwt htw
  | some p =>
    obtain ⟨l, m⟩ := p
    by_cases hg : ∀ u, ¬ Conflicts s t u l m
    · exact ⟨t, Or.inl ⟨l, m, hwt, hg⟩⟩
    · obtain ⟨u, hu⟩ := Classical.not_forall.mp hg
      have hc : Conflicts s t u l m := Classical.not_not.mp hu
      by_cases hwu : s.want u = none
      · -- the obstacle is a running thread: it must hold the lock
        rcases hc with ⟨m', hmem, _⟩ | ⟨_, _, hw'⟩
        · refine ⟨u, Or.inr ⟨hwu, ?_⟩⟩
          intro hnil
          rw [hnil] at hmem
          simp at hmem
        · rw [hwu] at hw'
          cases hw'
      · -- the obstacle waits itself: it would have a larger measure
        have h1 := key_lt hinv (show BlockedBy s t u from ⟨l, m, hwt, hc⟩) hwu
        have h2 := hmax u ((hWmem u).mpr hwu)
        omega

/-- **Generic theorem.** Under a rank discipline every reachable state of the lock machine is free of wait-for cycles
    and deadlocked sets, and the machine can always move on while somebody is waiting. -/
theorem deadlock_free {rank : L → Nat} {ok : List (L × Mode) → L → Mode → Prop} (hord : Ordered rank ok)
    {s : State L} (hr : Reach ok s) :
    ¬ Cycle s ∧ ¬ Deadlocked s ∧ ((∃ t, s.want t ≠ none) → ∃ t, Grantable s t ∨ RunningHolder s t) := by
  have hinv := inv_reach (rank := rank) hord hr
  obtain ⟨T, hT⟩ := support_reach hr
  exact ⟨no_cycle_of_inv hinv, no_deadlock_of_inv hinv, progress_of_inv hinv hT⟩

/-! ### the hazards the discipline rules out are real deadlocks of the machine (non-vacuity of the model) -/

omit [DecidableEq L] in
/-- a thread that holds a lock for writing and asks for it again waits for itself -/
theorem relock_self_deadlock (s : State L) (t : Tid) (l : L) (m : Mode)
    (hh : (l, Mode.W) ∈ s.held t) (hw : s.want t = some (l, m)) : Cycle s :=
  ⟨t, Chain.single ⟨l, m, hw, Or.inl ⟨.W, hh, Or.inr rfl⟩⟩⟩

omit [DecidableEq L] in
/-- recursive RLock: a thread that holds a read lock and asks for it again while another thread waits for the write
    lock is deadlocked with that writer -/
theorem recursive_rlock_deadlock (s : State L) (t w : Tid) (l : L) (hne : w ≠ t)
    (hh : (l, Mode.R) ∈ s.held t) (hwt : s.want t = some (l, .R)) (hww : s.want w = some (l, .W)) : Cycle s :=
  ⟨t, Chain.cons ⟨l, .R, hwt, Or.inr ⟨rfl, hne, hww⟩⟩ (Chain.single ⟨l, .W, hww, Or.inl ⟨.R, hh, Or.inl rfl⟩⟩)⟩

/-- and such a state is reachable when there is no discipline -/
theorem recursive_rlock_reachable :
    ∃ s : State Nat, Reach (fun _ _ _ => True) s ∧ Cycle s := by
  let ok : List (Nat × Mode) → Nat → Mode → Prop := fun _ _ _ => True
  let s0 : State Nat := State.init
  have r0 : Reach ok s0 := Reach.init
  have r1 := Reach.step r0 (Step.request s0 0 7 .R rfl trivial)
  have r2 := Reach.step r1 (Step.grant _ 0 7 .R (by simp [upd]) (by
    intro u hc
    rcases hc with ⟨m', hmem, _⟩ | ⟨_, _, hw⟩
    · simp [s0, State.init] at hmem
    · by_cases h : u = 0 <;> simp [upd, h, s0, State.init] at hw))
  have r3 := Reach.step r2 (Step.request _ 1 7 .W (by simp [upd, s0, State.init]) trivial)
  have r4 := Reach.step r3 (Step.request _ 0 7 .R (by simp [upd]) trivial)
  exact ⟨_, r4, recursive_rlock_deadlock _ 0 1 7 (by decide) (by simp [upd]) (by simp [upd]) (by simp [upd])⟩

end Yk.Lock
