/-
  C09 on the stepped Core model, part E:
  A. the invariant `ResInv` (with `CoreWF`) implies what the monitor `Core.resOK` checks;
  B. the Bool checkers of YkProofs/Core2Res.lean are sound;
  C. the "reservations disappear" clauses as step theorems;
  D. a concrete history with reservations (non-vacuity).
-/
import YkProofs.Core2Res
import YkProofs.Core2LifeEx
namespace Yk
open Res Core

namespace ResE

/-- the first item with key `k` of a list with unique keys is the item with key `k` -/
theorem find_key_of_mem {l : List CItem} (hk : l.Pairwise (fun i j => i.key ≠ j.key)) {i : CItem} {k : String}
    (hi : i ∈ l) (hkey : i.key = k) : l.find? (·.key == k) = some i := by
  cases hf : l.find? (·.key == k) with
  | none =>
    have := List.find?_eq_none.mp hf i hi
    simp [hkey] at this
  | some j =>
    obtain ⟨hj, hjk⟩ := find_key_some hf
    rw [itemKeys_eq hk hj hi (by rw [hjk, hkey])]

theorem findQueue_some {s : Core} {p : String} {q : CQueue} (h : s.findQueue p = some q) : q ∈ s.queues ∧ q.path = p := by
  unfold findQueue at h
  exact ⟨List.mem_of_find?_eq_some h, by simpa using List.find?_some h⟩

/-! ### A. `ResInv` ⇒ `resOK = none`, clause by clause -/

theorem orElse_none {α : Type} {o : Option α} {f : Unit → Option α} (h1 : o = none) (h2 : f () = none) : o.orElse f = none := by
  subst h1; exact h2

theorem r1a (s : Core) (hw : CoreWF s) (h : ResInv s) :
    (s.liveApps.findSome? (fun a => a.reservations.findSome? (fun r =>
      match s.findNode r.2 with
      | none => some s!"R1 reservation on unknown node {r.1}@{r.2}"
      | some n => if n.reservations.contains r.1 then
          (match a.items.find? (·.key == r.1) with
           | some i => if i.inReq && !i.allocated then none else some s!"R5 reservation for an ask that is not outstanding {r.1}"
           | none => some s!"R5 reservation for an unknown ask {r.1}")
        else some s!"R1 node does not know reservation {r.1}@{r.2}"))) = none := by
  rw [List.findSome?_eq_none_iff]
  intro a ha
  obtain ⟨ham, hl⟩ := mem_liveApps.mp ha
  rw [List.findSome?_eq_none_iff]
  intro r hr
  obtain ⟨n, hn, hkn⟩ := h.appNode a ham hl r hr
  obtain ⟨i, hi, hik, hout⟩ := h.outstanding a ham hl r hr
  have hfi := find_key_of_mem (hw.itemKeys a ham hl) hi hik
  have hc : n.reservations.contains r.1 = true := by simpa using hkn
  have ho : (i.inReq && !i.allocated) = true := hout
  simp only [hn, hc, hfi, ho, if_true]

theorem r1b (s : Core) (h : ResInv s) :
    (s.nodes.findSome? (fun n => n.reservations.findSome? (fun k =>
      if s.liveApps.any (fun a => a.reservations.contains (k, n.id)) then none
      else some s!"R1 application does not know reservation {k}@{n.id}"))) = none := by
  rw [List.findSome?_eq_none_iff]
  intro n hn
  rw [List.findSome?_eq_none_iff]
  intro k hk
  obtain ⟨a, ha, hl, hm⟩ := h.nodeApp n hn k hk
  have : s.liveApps.any (fun a => a.reservations.contains (k, n.id)) = true :=
    List.any_eq_true.mpr ⟨a, mem_liveApps.mpr ⟨ha, hl⟩, by simpa using hm⟩
  rw [if_pos this]

theorem r2a (s : Core) (h : ResInv s) :
    (s.liveApps.findSome? (fun a =>
      let n := a.reservations.length
      match s.findQueue a.queue with
      | none => if n == 0 then none else some s!"R2 reserved application without queue {a.id}"
      | some q => if ((q.reserved.lookup a.id).getD 0) == n then none else some s!"R2 queue count ≠ application reservations {a.id}")) = none := by
  rw [List.findSome?_eq_none_iff]
  intro a ha
  obtain ⟨ham, hl⟩ := mem_liveApps.mp ha
  have hq := h.queueCount a ham hl
  cases hf : s.findQueue a.queue with
  | none =>
    rw [hf] at hq
    simp only at hq
    simp [hq]
  | some q =>
    rw [hf] at hq
    simp only at hq
    obtain ⟨hqm, hqp⟩ := findQueue_some hf
    simp [hq q hqm hqp]

theorem r2b (s : Core) (h : ResInv s) :
    (s.queues.findSome? (fun q => q.reserved.findSome? (fun r =>
      if r.2 == 0 || s.liveApps.any (fun a => a.id == r.1 && a.queue == q.path) then none
      else some s!"R2 queue lists reservations of an application it does not hold {r.1}@{q.path}"))) = none := by
  rw [List.findSome?_eq_none_iff]
  intro q hq
  rw [List.findSome?_eq_none_iff]
  intro r hr
  have : (r.2 == 0 || s.liveApps.any (fun a => a.id == r.1 && a.queue == q.path)) = true := by
    rcases h.queueApp q hq r hr with h0 | ⟨a, ha, hl, hid, hqp⟩
    · simp [h0]
    · rw [Bool.or_eq_true]
      exact Or.inr (List.any_eq_true.mpr ⟨a, mem_liveApps.mpr ⟨ha, hl⟩, by simp [hid, hqp]⟩)
  rw [if_pos this]

theorem r3 (s : Core) (h : ResInv s) :
    (let total := (s.liveApps.map (·.reservations.length)).sum
     if total > 0 && s.reservations == 0 then some "R3 partition reservation counter is zero while reservations exist" else none) = none := by
  have hc : (s.liveApps.map (·.reservations.length)).sum ≤ s.reservations := h.counter
  simp only
  split
  · rename_i hx
    simp only [Bool.and_eq_true, decide_eq_true_eq, beq_iff_eq] at hx
    omega
  · rfl

theorem r4 (s : Core) (h : ResInv s) :
    (s.nodes.findSome? (fun n =>
      if n.reservations.length ≤ 1 then none else
      if n.reservations.all (fun k => s.liveApps.any (fun a => a.items.any (fun i => i.key == k && i.reqNode == n.id))) then none
      else some s!"R4 several reservations on {n.id}")) = none := by
  rw [List.findSome?_eq_none_iff]
  intro n hn
  rcases h.nodeExcl n hn with h1 | h2
  · rw [if_pos h1]
  · split
    · rfl
    · have : n.reservations.all (fun k => s.liveApps.any (fun a => a.items.any (fun i => i.key == k && i.reqNode == n.id))) = true := by
        rw [List.all_eq_true]
        intro k hk
        obtain ⟨a, ha, hl, _, i, hi, hik, hir⟩ := h2 k hk
        exact List.any_eq_true.mpr ⟨a, mem_liveApps.mpr ⟨ha, hl⟩, List.any_eq_true.mpr ⟨i, hi, by simp [hik, hir]⟩⟩
      rw [if_pos this]

end ResE

/-- A. a well-formed state that satisfies the reservation invariant passes the monitor `Core.resOK` (R1–R5) -/
theorem resInv_resOK (s : Core) (hw : CoreWF s) (h : ResInv s) : s.resOK = none := by
  unfold Core.resOK
  exact ResE.orElse_none (ResE.r1a s hw h) (ResE.orElse_none (ResE.r1b s h) (ResE.orElse_none (ResE.r2a s h)
    (ResE.orElse_none (ResE.r2b s h) (ResE.orElse_none (ResE.r3 s h) (ResE.r4 s h)))))

/-! ### B. soundness of the Bool checkers -/

namespace ResE

theorem eraseDups_length_le {α : Type} [BEq α] (n : Nat) : ∀ l : List α, l.length ≤ n → l.eraseDups.length ≤ l.length := by
  induction n with
  | zero =>
    intro l hl
    cases l with
    | nil => simp
    | cons a t => simp at hl
  | succ n ih =>
    intro l hl
    cases l with
    | nil => simp
    | cons a t =>
      rw [List.eraseDups_cons]
      simp only [List.length_cons] at hl ⊢
      have h1 := List.length_filter_le (fun b => !b == a) t
      have := ih (t.filter (fun b => !b == a)) (by omega)
      omega

theorem nodup_of_eraseDups_aux {α : Type} [BEq α] [LawfulBEq α] (n : Nat) :
    ∀ l : List α, l.length ≤ n → l.eraseDups.length = l.length → l.Nodup := by
  induction n with
  | zero =>
    intro l hl _
    cases l with
    | nil => exact List.nodup_nil
    | cons a t => simp at hl
  | succ n ih =>
    intro l hl h
    cases l with
    | nil => exact List.nodup_nil
    | cons a t =>
      rw [List.eraseDups_cons] at h
      simp only [List.length_cons] at hl h
      have h1 := List.length_filter_le (fun b => !b == a) t
      have h2 := eraseDups_length_le _ (t.filter (fun b => !b == a)) (Nat.le_refl _)
      have h3 : (t.filter (fun b => !b == a)).length = t.length := by omega
      have h4 := List.length_filter_eq_length_iff.mp h3
      have h5 : t.filter (fun b => !b == a) = t := List.filter_eq_self.mpr h4
      rw [h5] at h
      rw [List.nodup_cons]
      refine ⟨?_, ih t (by omega) (by omega)⟩
      intro hm
      have := h4 a hm
      simp at this

/-- `eraseDups` keeps the length only of a list without duplicates -/
theorem nodup_of_eraseDups {α : Type} [BEq α] [LawfulBEq α] (l : List α) (h : l.eraseDups.length = l.length) : l.Nodup :=
  nodup_of_eraseDups_aux l.length l (Nat.le_refl _) h

theorem live_any {s : Core} {p : CApp → Bool} (h : s.liveApps.any p = true) : ∃ a ∈ s.apps, a.live = true ∧ p a = true := by
  obtain ⟨a, ha, hp⟩ := List.any_eq_true.mp h
  obtain ⟨ham, hl⟩ := mem_liveApps.mp ha
  exact ⟨a, ham, hl, hp⟩

end ResE

/-- B. the executable form of the invariant is sufficient for it (`CoreWF` is not needed: the checker compares ids and
    keys directly) -/
theorem resInv_of_b' (s : Core) (h : resInvb s = true) : ResInv s := by
  simp only [resInvb, Bool.and_eq_true] at h
  obtain ⟨⟨⟨⟨⟨⟨⟨⟨h1, h2⟩, h3⟩, h4⟩, h5⟩, h6⟩, h7⟩, h8⟩, h9⟩ := h
  have hlive : ∀ a ∈ s.apps, a.live = true → a ∈ s.liveApps := fun a ha hl => mem_liveApps.mpr ⟨ha, hl⟩
  refine ⟨?_, ?_, ?_, ?_, ?_, ?_, ?_, ?_, ?_, ?_, ?_, ?_⟩
  · -- appNode
    intro a ha hl r hr
    have := List.all_eq_true.mp (List.all_eq_true.mp h1 a (hlive a ha hl)) r hr
    rw [Bool.and_eq_true, Option.any_eq_true] at this
    obtain ⟨⟨n, hn, hc⟩, _⟩ := this
    exact ⟨n, hn, by simpa using hc⟩
  · -- outstanding
    intro a ha hl r hr
    have := List.all_eq_true.mp (List.all_eq_true.mp h1 a (hlive a ha hl)) r hr
    rw [Bool.and_eq_true] at this
    obtain ⟨i, hi, hc⟩ := List.any_eq_true.mp this.2
    rw [Bool.and_eq_true, beq_iff_eq] at hc
    exact ⟨i, hi, hc.1, hc.2⟩
  · -- onePerAsk
    intro a ha hl
    have := List.all_eq_true.mp h2 a (hlive a ha hl)
    rw [beq_iff_eq] at this
    exact ResE.nodup_of_eraseDups _ (by rw [this, List.length_map])
  · -- nodeApp
    intro n hn k hk
    have := List.all_eq_true.mp h3 n hn
    rw [Bool.and_eq_true] at this
    obtain ⟨a, ha, hl, hc⟩ := ResE.live_any (List.all_eq_true.mp this.1 k hk)
    exact ⟨a, ha, hl, by simpa using hc⟩
  · -- nodeKeys
    intro n hn
    have := List.all_eq_true.mp h3 n hn
    rw [Bool.and_eq_true, beq_iff_eq] at this
    exact ResE.nodup_of_eraseDups _ this.2
  · -- owner
    intro a ha b hb hla hlb r hra hrb
    have := List.all_eq_true.mp (List.all_eq_true.mp h4 a (hlive a ha hla)) b (hlive b hb hlb)
    rw [Bool.or_eq_true, beq_iff_eq] at this
    rcases this with h' | h'
    · exact h'
    · have := List.all_eq_true.mp h' r hra
      have hc : b.reservations.contains r = true := by simpa using hrb
      rw [hc] at this
      cases this
  · -- queueCount
    intro a ha hl
    have := List.all_eq_true.mp h5 a (hlive a ha hl)
    cases hf : s.findQueue a.queue with
    | none =>
      rw [hf] at this
      simp only at this
      simpa using this
    | some q0 =>
      rw [hf] at this
      simp only at this ⊢
      intro q hq hqp
      have := List.all_eq_true.mp this q hq
      simpa [hqp] using this
  · -- queueKeys
    intro q hq
    have := List.all_eq_true.mp h6 q hq
    rw [Bool.and_eq_true, beq_iff_eq] at this
    exact ResE.nodup_of_eraseDups _ (by rw [this.1, List.length_map])
  · -- queueApp
    intro q hq r hr
    have := List.all_eq_true.mp h6 q hq
    rw [Bool.and_eq_true] at this
    have := List.all_eq_true.mp this.2 r hr
    rw [Bool.or_eq_true, beq_iff_eq] at this
    rcases this with h' | h'
    · exact Or.inl h'
    · obtain ⟨a, ha, hl, hc⟩ := ResE.live_any h'
      rw [Bool.and_eq_true, beq_iff_eq, beq_iff_eq] at hc
      exact Or.inr ⟨a, ha, hl, hc.1, hc.2⟩
  · -- counter
    simpa using h7
  · -- nodeExcl
    intro n hn
    have := List.all_eq_true.mp h8 n hn
    rw [Bool.or_eq_true, decide_eq_true_eq] at this
    rcases this with h' | h'
    · exact Or.inl h'
    · refine Or.inr ?_
      intro k hk
      obtain ⟨a, ha, hl, hc⟩ := ResE.live_any (List.all_eq_true.mp h' k hk)
      rw [Bool.and_eq_true] at hc
      obtain ⟨i, hi, hic⟩ := List.any_eq_true.mp hc.2
      rw [Bool.and_eq_true, beq_iff_eq, beq_iff_eq] at hic
      exact ⟨a, ha, hl, by simpa using hc.1, i, hi, hic.1, hic.2⟩
  · -- quiet
    intro a ha hl hst
    have := List.all_eq_true.mp h9 a (hlive a ha hl)
    rw [Bool.or_eq_true] at this
    rcases this with h' | h'
    · exfalso
      rcases hst with e | e | e <;> simp [e] at h'
    · exact List.isEmpty_iff.mp h'

/-- … in the shape asked for (the well-formedness hypothesis is not used) -/
theorem resInv_of_b (s : Core) (h : resInvb s = true) (_hw : CoreWF s) : ResInv s := resInv_of_b' s h

theorem reserveOK_of_b (s : Core) (app key node : String) (h : reserveOKb s app key node = true) :
    ReserveOK s app key node := by
  unfold reserveOKb at h
  refine ⟨?_, ?_⟩
  · intro a ha
    rw [ha] at h
    simp only [Bool.and_eq_true, bne_iff_ne, ne_eq] at h
    obtain ⟨⟨⟨⟨h1, h2⟩, h3⟩, h4⟩, _⟩ := h
    obtain ⟨i, hi, hc⟩ := List.any_eq_true.mp h3
    rw [Bool.and_eq_true, beq_iff_eq] at hc
    exact ⟨h1, h2, ⟨i, hi, hc.1, hc.2⟩, h4⟩
  · intro a ha
    rw [ha] at h
    simp only [Bool.and_eq_true] at h
    obtain ⟨_, h5⟩ := h
    cases hf : s.findNode node with
    | none => rw [hf] at h5; cases h5
    | some n =>
      rw [hf] at h5
      simp only [Bool.and_eq_true, Bool.or_eq_true] at h5
      obtain ⟨h6, h7⟩ := h5
      refine ⟨n, rfl, by simpa using h6, ?_⟩
      rcases h7 with h7 | ⟨h7, h8⟩
      · exact Or.inl (List.isEmpty_iff.mp h7)
      · refine Or.inr ⟨?_, ?_⟩
        · obtain ⟨i, hi, hc⟩ := List.any_eq_true.mp h7
          rw [Bool.and_eq_true, beq_iff_eq, beq_iff_eq] at hc
          exact ⟨i, hi, hc.1, hc.2⟩
        · intro k hk
          obtain ⟨b, hb, hl, hc⟩ := ResE.live_any (List.all_eq_true.mp h8 k hk)
          rw [Bool.and_eq_true] at hc
          obtain ⟨i, hi, hic⟩ := List.any_eq_true.mp hc.2
          rw [Bool.and_eq_true, beq_iff_eq, beq_iff_eq] at hic
          exact ⟨b, hb, hl, by simpa using hc.1, i, hi, hic.1, hic.2⟩

theorem notReserved_of_b (s : Core) (app key : String) (h : notReservedb s app key = true) : NotReserved s app key := by
  intro a ha r hr
  unfold notReservedb at h
  rw [ha] at h
  simpa using List.all_eq_true.mp h r hr

theorem okRes_of_b (s : Core) (op : Op) (h : op.okResb s = true) : op.okRes s := by
  cases op with
  | reserve app key node => exact reserveOK_of_b s app key node h
  | schedAlloc app key node => exact notReserved_of_b s app key h
  | swapStart app realKey phKey node => exact notReserved_of_b s app realKey h
  | releaseKey app key => exact notReserved_of_b s app key h
  | appAdd a nq =>
    simp only [Op.okResb, Bool.and_eq_true] at h
    refine ⟨?_, ?_⟩
    · intro x hx
      subst hx
      exact List.isEmpty_iff.mp h.1
    · intro q hq
      exact List.isEmpty_iff.mp (List.all_eq_true.mp h.2 q hq)
  | _ => trivial

/-! ### D. a concrete history with a reservation -/

/-- every step meets `Op.okRes` in the state it is applied to -/
def RunResOK : Core → List Op → Prop
  | _, [] => True
  | s, op :: t => op.okRes s ∧ RunResOK (op.apply s) t

def runOKResb : Core → List Op → Bool
  | _, [] => true
  | s, op :: t => op.okResb s && runOKResb (op.apply s) t

theorem runOKResb_sound (s : Core) (ops : List Op) (h : runOKResb s ops = true) : RunResOK s ops := by
  induction ops generalizing s with
  | nil => trivial
  | cons op t ih =>
    simp only [runOKResb, Bool.and_eq_true] at h
    exact ⟨okRes_of_b s op h.1, ih _ h.2⟩

namespace Example

/-- the application of the example without a placeholder request -/
def exAppR : CApp := { exApp with phAsk := [] }

/-- a node of 4 cpu; the application asks for 3 cpu twice: the first ask is bound, the second does not fit and the scheduler
    reserves the node for it; the first allocation is released; the scheduler unreserves and binds the second ask (what
    partition.allocate does for a reserved ask); it is released as well -/
def exOpsR : List Op :=
  [.nodeCreate "n1" [("cpu", 4)] true,
   .appAdd (some exAppR) [],
   .ask "app" "k1" [("cpu", 3)] false "" "",
   .schedAlloc "app" "k1" "n1",
   .ask "app" "k2" [("cpu", 3)] false "" "",
   .reserve "app" "k2" "n1",
   .release .stopped "app" "k1",
   .unreserve "app" "k2" "n1",
   .schedAlloc "app" "k2" "n1",
   .release .stopped "app" "k2"]

theorem exOpsR_ok2 : RunOK2 ex0 exOpsR := runOKb2_sound _ _ (by decide +kernel)
theorem exOpsR_life : RunLifeOK ex0 exOpsR := runLifeOK_of _ _ exOpsR_ok2 (by decide)
theorem exOpsR_res : RunResOK ex0 exOpsR := runOKResb_sound _ _ (by decide +kernel)

/-- no scheduling decision of the history is refused by the model -/
theorem exOpsR_strict : (run? ex0 exOpsR).isSome = true := by decide +kernel

/-- the empty partition satisfies the reservation invariant -/
theorem resInv_ex0 : ResInv ex0 := by
  have hq : ∀ q ∈ ex0.queues, q.reserved = [] := by
    intro q hq
    simp only [ex0, List.mem_cons, List.not_mem_nil, or_false] at hq
    rcases hq with rfl | rfl <;> rfl
  refine ⟨?_, ?_, ?_, ?_, ?_, ?_, ?_, ?_, ?_, ?_, ?_, ?_⟩
  · intro a ha; cases ha
  · intro a ha; cases ha
  · intro a ha; cases ha
  · intro n hn; cases hn
  · intro n hn; cases hn
  · intro a ha; cases ha
  · intro a ha; cases ha
  · intro q hq'; rw [hq q hq']; exact List.nodup_nil
  · intro q hq' r hr; rw [hq q hq'] at hr; cases hr
  · exact Nat.le_refl 0
  · intro n hn; cases hn
  · intro a ha; cases ha

/-- the full invariant and the reservation invariant hold at the start … -/
theorem coreInv_resInv_ex0 : CoreInv ex0 ∧ ResInv ex0 := ⟨coreInv_ex0, resInv_ex0⟩

/-- … and `CoreInv` after every prefix of the history (`reachable_life`) -/
theorem exOpsR_coreInv : CoreInv (run ex0 exOpsR) := reachable_life ex0 exOpsR coreInv_ex0 exOpsR_life

/-- after step 6 (`reserve`) the application, the node, the leaf queue and the partition counter all show the reservation -/
theorem exR6 :
    (run ex0 (exOpsR.take 6)).apps.map (·.reservations) = [[("k2", "n1")]] ∧
    (run ex0 (exOpsR.take 6)).nodes.map (·.reservations) = [["k2"]] ∧
    (run ex0 (exOpsR.take 6)).queues.map (fun q => (q.path, q.reserved)) = [("root", []), ("root.a", [("app", 1)])] ∧
    (run ex0 (exOpsR.take 6)).reservations = 1 := by decide +kernel

/-- the reservation survives the release of the first allocation (step 7); the node is free again -/
theorem exR7 :
    (run ex0 (exOpsR.take 7)).apps.map (·.reservations) = [[("k2", "n1")]] ∧
    (run ex0 (exOpsR.take 7)).nodes.map (fun n => (n.reservations, n.available)) = [(["k2"], [("cpu", 4)])] ∧
    (run ex0 (exOpsR.take 7)).reservations = 1 ∧ (run ex0 (exOpsR.take 7)).allocations = 0 := by decide +kernel

/-- after step 8 (`unreserve`) all four views are empty / zero -/
theorem exR8 :
    (run ex0 (exOpsR.take 8)).apps.map (·.reservations) = [[]] ∧
    (run ex0 (exOpsR.take 8)).nodes.map (·.reservations) = [[]] ∧
    (run ex0 (exOpsR.take 8)).queues.map (fun q => (q.path, q.reserved)) = [("root", []), ("root.a", [])] ∧
    (run ex0 (exOpsR.take 8)).reservations = 0 := by decide +kernel

/-- step 9 binds the ask that held the reservation -/
theorem exR9 :
    (run ex0 (exOpsR.take 9)).apps.map (fun a => a.items.map (fun i => (i.key, i.allocated, i.bound, i.node))) =
      [[("k2", true, true, "n1")]] ∧
    (run ex0 (exOpsR.take 9)).nodes.map (·.available) = [[("cpu", 1)]] ∧
    (run ex0 (exOpsR.take 9)).allocations = 1 := by decide +kernel

/-- at the end everything is released: no item, no reservation, the node free, the queues empty, the counters zero; the
    application is Completing -/
theorem exR_end :
    (run ex0 exOpsR).apps.map (fun a => (a.id, a.live, a.state)) = [("app", true, "Completing")] ∧
    (run ex0 exOpsR).apps.map (fun a => (a.items.map (·.key), a.reservations)) = [([], [])] ∧
    (run ex0 exOpsR).nodes.map (fun n => (n.allocs, n.reservations, n.available)) = [([], [], [("cpu", 4)])] ∧
    (run ex0 exOpsR).queues.map (fun q => (q.allocated, q.pending, q.reserved)) = [([], [], []), ([], [], [])] ∧
    (run ex0 exOpsR).reservations = 0 ∧ (run ex0 exOpsR).allocations = 0 := by
  refine ⟨?_, ?_, ?_, ?_, ?_⟩ <;> decide +kernel

/-- the invariant (by its checker) and the monitor on the state that holds the reservation, and at the end -/
theorem exR6_resInv : ResInv (run ex0 (exOpsR.take 6)) := resInv_of_b' _ (by decide +kernel)
theorem exR6_resOK : (run ex0 (exOpsR.take 6)).resOK = none := by decide +kernel
theorem exR_end_resInv : ResInv (run ex0 exOpsR) := resInv_of_b' _ (by decide +kernel)
/-- `resInv_resOK` applies to the end state -/
theorem exR_end_resOK : (run ex0 exOpsR).resOK = none := resInv_resOK _ exOpsR_coreInv.wf exR_end_resInv

end Example

/-! ### C. reservations disappear: step theorems -/

namespace ResE

/-- entries with distinct keys: the key determines the entry -/
theorem eq_of_fst {α β : Type} : ∀ (l : List (α × β)), (l.map (·.1)).Nodup → ∀ {x y : α × β}, x ∈ l → y ∈ l → x.1 = y.1 → x = y := by
  intro l
  induction l with
  | nil => intro _ x y hx; cases hx
  | cons e t ih =>
    intro h x y hx hy hxy
    rw [List.map_cons, List.nodup_cons] at h
    rcases List.mem_cons.mp hx with rfl | hx'
    · rcases List.mem_cons.mp hy with rfl | hy'
      · rfl
      · exact absurd (List.mem_map.mpr ⟨y, hy', hxy.symm⟩) h.1
    · rcases List.mem_cons.mp hy with rfl | hy'
      · exact absurd (List.mem_map.mpr ⟨x, hx', hxy⟩) h.1
      · exact ih h.2 hx' hy' hxy

theorem nodup_of_map_fst {α β : Type} : ∀ (l : List (α × β)), (l.map (·.1)).Nodup → l.Nodup := by
  intro l
  induction l with
  | nil => intro _; exact List.nodup_nil
  | cons e t ih =>
    intro h
    rw [List.map_cons, List.nodup_cons] at h
    rw [List.nodup_cons]
    exact ⟨fun hm => h.1 (List.mem_map.mpr ⟨e, hm, rfl⟩), ih h.2⟩

/-- removing the one occurrence of an element -/
theorem length_filter_ne {α : Type} [BEq α] [LawfulBEq α] : ∀ (l : List α) (x : α), l.Nodup → x ∈ l →
    (l.filter (· != x)).length + 1 = l.length := by
  intro l
  induction l with
  | nil => intro x _ hx; cases hx
  | cons e t ih =>
    intro x h hx
    rw [List.nodup_cons] at h
    rw [List.filter_cons]
    by_cases he : e = x
    · subst he
      have hf : t.filter (· != e) = t := by
        rw [List.filter_eq_self]
        intro b hb
        simp only [bne_iff_ne, ne_eq]
        intro hbe; subst hbe; exact h.1 hb
      simp [hf]
    · have hx' : x ∈ t := by
        rcases List.mem_cons.mp hx with h' | h'
        · exact absurd h'.symm he
        · exact h'
      have : (e != x) = true := by simpa using he
      rw [if_pos this, List.length_cons, List.length_cons, ih x h.2 hx']

theorem le_sum_of_mem {α : Type} (f : α → Nat) : ∀ (l : List α) (x : α), x ∈ l → f x ≤ (l.map f).sum := by
  intro l
  induction l with
  | nil => intro x hx; cases hx
  | cons e t ih =>
    intro x hx
    rw [List.map_cons, List.sum_cons]
    rcases List.mem_cons.mp hx with rfl | hx'
    · omega
    · have := ih x hx'; omega

/-- the queue's list after one reservation of application `app` was given back (queue.UnReserve) -/
def decEntry (app : String) (l : List (String × Nat)) : List (String × Nat) :=
  l.filterMap (fun e => if e.1 == app then (if e.2 ≤ 1 then none else some (e.1, e.2 - 1)) else some e)

theorem decEntry_no (app : String) : ∀ (l : List (String × Nat)), app ∉ l.map (·.1) → (decEntry app l).lookup app = none := by
  intro l
  induction l with
  | nil => intro _; rfl
  | cons e t ih =>
    intro h
    obtain ⟨k, c⟩ := e
    simp only [List.map_cons, List.mem_cons, not_or] at h
    have hk : (k == app) = false := by simpa using fun e : k = app => h.1 e.symm
    have hk' : (app == k) = false := by simpa using h.1
    unfold decEntry
    rw [List.filterMap_cons]
    simp only [hk, Bool.false_eq_true, if_false]
    rw [List.lookup_cons, hk']
    exact ih h.2

theorem lookup_decEntry (app : String) : ∀ (l : List (String × Nat)), (l.map (·.1)).Nodup →
    (decEntry app l).lookup app = (l.lookup app).bind (fun c => if c ≤ 1 then none else some (c - 1)) := by
  intro l
  induction l with
  | nil => intro _; rfl
  | cons e t ih =>
    intro h
    obtain ⟨k, c⟩ := e
    rw [List.map_cons, List.nodup_cons] at h
    by_cases hk : k = app
    · subst hk
      rw [List.lookup_cons]
      simp only [beq_self_eq_true, Option.bind_some]
      unfold decEntry
      rw [List.filterMap_cons]
      simp only [beq_self_eq_true, if_true]
      by_cases hc : c ≤ 1
      · simp only [hc, if_true]
        exact decEntry_no k t h.1
      · simp only [hc, if_false]
        rw [List.lookup_cons]
        simp
    · have hk1 : (k == app) = false := by simpa using hk
      have hk2 : (app == k) = false := by simpa using fun e : app = k => hk e.symm
      rw [List.lookup_cons, hk2]
      unfold decEntry
      rw [List.filterMap_cons]
      simp only [hk1, Bool.false_eq_true, if_false]
      rw [List.lookup_cons, hk2]
      exact ih h.2

end ResE

/-- C. `unreserve` (what partition.allocate does before it binds a reserved ask) for a reservation `(key, node)` the live
    application `app` holds: afterwards the application has one reservation less and none for `key`, the node `node` does
    not list `key`, every queue with the application's path counts one less for it (the entry is gone at zero), and the
    partition counter is one less. -/
theorem unreserve_gone (s : Core) (app key node : String) (a : CApp) (h : ResInv s)
    (ha : s.findApp app = some a) (hr : (key, node) ∈ a.reservations) :
    (∃ a', (s.unreserve app key node).findApp app = some a' ∧ a'.reservations = a.reservations.filter (· != (key, node)) ∧
      (∀ r ∈ a'.reservations, r.1 ≠ key) ∧ a'.reservations.length + 1 = a.reservations.length) ∧
    (∀ n' ∈ (s.unreserve app key node).nodes, n'.id = node → key ∉ n'.reservations) ∧
    (∀ q' ∈ (s.unreserve app key node).queues, q'.path = a.queue →
      q'.reserved.lookup app = if a.reservations.length ≤ 1 then none else some (a.reservations.length - 1)) ∧
    (s.unreserve app key node).reservations + 1 = s.reservations := by
  obtain ⟨ham, hl, hid⟩ := findApp_some ha
  have hc : a.reservations.contains (key, node) = true := by simpa using hr
  have hone := h.onePerAsk a ham hl
  have e : s.unreserve app key node =
      { s with apps := updApps s.apps app (fun x => { x with reservations := x.reservations.filter (· != (key, node)) }),
               nodes := updNs s.nodes node (fun n => { n with reservations := n.reservations.filter (· != key) }),
               queues := s.queues.map (fun q => if q.path == a.queue then { q with reserved := ResE.decEntry app q.reserved } else q),
               reservations := s.reservations - 1 } := by
    unfold Core.unreserve
    simp only [ha, hc, Bool.not_true, Bool.false_eq_true, if_false]
    rfl
  rw [e]
  refine ⟨?_, ?_, ?_, ?_⟩
  · refine ⟨_, LifeE.findApp_upd (f := fun x => { x with reservations := x.reservations.filter (· != (key, node)) }) rfl ha hl hid,
      rfl, ?_, ?_⟩
    · intro r hr'
      obtain ⟨hrm, hne⟩ := List.mem_filter.mp hr'
      intro hk
      have : r = (key, node) := ResE.eq_of_fst _ hone hrm hr hk
      simp [this] at hne
    · exact ResE.length_filter_ne _ _ (ResE.nodup_of_map_fst _ hone) hr
  · intro n' hn' hid'
    obtain ⟨n, hn, rfl⟩ := List.mem_map.mp hn'
    by_cases hd : (n.id == node) = true
    · rw [if_pos hd]
      intro hm
      have := (List.mem_filter.mp hm).2
      simp at this
    · rw [if_neg hd] at hid'
      exact absurd (by simpa using hid') hd
  · intro q' hq' hp
    obtain ⟨q, hq, rfl⟩ := List.mem_map.mp hq'
    have hqp : q.path = a.queue := by
      by_cases hd : (q.path == a.queue) = true
      · simpa using hd
      · rw [if_neg hd] at hp; exact hp
    have hd : (q.path == a.queue) = true := by simpa using hqp
    rw [if_pos hd]
    have hcount := h.queueCount a ham hl
    have hlen : 1 ≤ a.reservations.length := List.length_pos_of_mem hr
    cases hf : s.findQueue a.queue with
    | none =>
      rw [hf] at hcount
      simp only at hcount
      rw [hcount] at hr; cases hr
    | some q0 =>
      rw [hf] at hcount
      simp only at hcount
      have hc1 := hcount q hq hqp
      rw [hid] at hc1
      show (ResE.decEntry app q.reserved).lookup app = _
      rw [ResE.lookup_decEntry app _ (h.queueKeys q hq)]
      cases hlk : q.reserved.lookup app with
      | none => rw [hlk] at hc1; simp at hc1; omega
      | some c =>
        rw [hlk] at hc1
        simp only [Option.getD_some] at hc1
        subst hc1
        rfl
  · have h1 : a.reservations.length ≤ resvTotal s :=
      ResE.le_sum_of_mem (fun x : CApp => x.reservations.length) s.liveApps a (mem_liveApps.mpr ⟨ham, hl⟩)
    have h2 := h.counter
    have hlen : 1 ≤ a.reservations.length := List.length_pos_of_mem hr
    show s.reservations - 1 + 1 = s.reservations
    omega

namespace ResE

theorem askAppT_reservations (key : String) (x : CItem) (a : CApp) :
    (askAppT key x a).reservations = a.reservations.filter (·.1 != key) := by unfold askAppT; simp

theorem relAppT_reservations (tt : TermType) (key : String) (i : CItem) (a : CApp) :
    (relAppT tt key i a).reservations = a.reservations := by unfold relAppT; cases i.ph <;> simp

theorem fail_terminated (st : String) (h : terminated (fireState st .fail) = true) : st = "Failing" ∨ terminated st = true := by
  refine LifeB.fireState_ind (fun s t => terminated t = true → s = "Failing" ∨ terminated s = true) .fail st ?_ ?_ h
  · intro _ hc; exact Or.inr hc
  · intro a; cases a <;> decide

/-- `relAppT` makes an application leave the partition only from Failing / Completing -/
theorem relSt_terminated (tt : TermType) (i : CItem) (a : CApp) (h : terminated (LifeB.relSt tt i a) = true) :
    a.state = "Failing" ∨ a.state = "Completing" ∨ terminated a.state = true := by
  unfold LifeB.relSt at h
  split at h
  · split at h
    · split at h
      · rcases fail_terminated _ h with e | e
        · exact Or.inl e
        · exact Or.inr (Or.inr e)
      · split at h
        · exact Or.inr (Or.inr (LifeB.run_terminated _ h))
        · rcases LifeB.complete_terminated _ h with e | e
          · exact Or.inr (Or.inl e)
          · exact Or.inr (Or.inr e)
    · exact Or.inr (Or.inr h)
  · split at h
    · split at h
      · split at h
        · rcases fail_terminated _ h with e | e
          · exact Or.inl e
          · exact Or.inr (Or.inr e)
        · exact Or.inr (Or.inr h)
      · rcases LifeB.complete_terminated _ h with e | e
        · exact Or.inr (Or.inl e)
        · exact Or.inr (Or.inr e)
    · exact Or.inr (Or.inr h)

/-- the node list after `askRemoveT` found the ask and its reservation -/
theorem askRemoveT_nodes (s1 : Core) (app key : String) (chain : List String) (a1 : CApp) (x : CItem) (r : String × String)
    (hfind : s1.findApp app = some a1) (hitem : a1.items.find? (fun x => x.key == key && x.inReq) = some x)
    (hres : a1.reservations.find? (·.1 == key) = some r) :
    (askRemoveT s1 app key chain).nodes =
      updNs s1.nodes r.2 (fun n => { n with reservations := n.reservations.filter (· != key) }) := by
  unfold askRemoveT
  simp only [hfind, hitem, hres]
  cases x.allocated <;> rfl

theorem askRemoveT_apps (s1 : Core) (app key : String) (chain : List String) (a1 : CApp) (x : CItem)
    (hfind : s1.findApp app = some a1) (hitem : a1.items.find? (fun x => x.key == key && x.inReq) = some x) :
    (askRemoveT s1 app key chain).apps = updApps s1.apps app (askAppT key x) := by
  unfold askRemoveT
  simp only [hfind, hitem]
  split <;> cases x.allocated <;> rfl

/-- `askRemoveT` with what it needs of the application only: every reservation belongs to an outstanding ask, one
    reservation per ask -/
theorem askRemoveT_gone_aux (s1 : Core) (app key : String) (chain : List String)
    (hout : ∀ a1, s1.findApp app = some a1 → ∀ r ∈ a1.reservations, ∃ i ∈ a1.items, i.key = r.1 ∧ i.outstanding = true)
    (hone : ∀ a1, s1.findApp app = some a1 → (a1.reservations.map (·.1)).Nodup) :
    (∀ a', (askRemoveT s1 app key chain).findApp app = some a' → ∀ r ∈ a'.reservations, r.1 ≠ key) ∧
    (∀ a1, s1.findApp app = some a1 → ∀ nd, (key, nd) ∈ a1.reservations →
      ∀ n' ∈ (askRemoveT s1 app key chain).nodes, n'.id = nd → key ∉ n'.reservations) := by
  cases hfind : s1.findApp app with
  | none =>
    have e : askRemoveT s1 app key chain = s1 := by unfold askRemoveT; simp only [hfind]
    rw [e]
    exact ⟨fun a' h' => (by rw [hfind] at h'; cases h'), fun a1 h1 => (by cases h1)⟩
  | some a1 =>
    obtain ⟨ham, hl, hid⟩ := findApp_some hfind
    cases hitem : a1.items.find? (fun x => x.key == key && x.inReq) with
    | none =>
      have e : askRemoveT s1 app key chain = s1 := by unfold askRemoveT; simp only [hfind, hitem]
      rw [e]
      have hno : ∀ r ∈ a1.reservations, r.1 ≠ key := by
        intro r hr hk
        obtain ⟨i, hi, hik, ho⟩ := hout a1 hfind r hr
        have := List.find?_eq_none.mp hitem i hi
        unfold CItem.outstanding at ho
        simp only [Bool.and_eq_true] at ho
        simp [hik, hk, ho.1] at this
      refine ⟨?_, ?_⟩
      · intro a' h'
        rw [hfind] at h'
        simp only [Option.some.injEq] at h'
        subst h'
        exact hno
      · intro a2 h2 nd hnd
        simp only [Option.some.injEq] at h2
        subst h2
        exact absurd rfl (hno _ hnd)
    | some x =>
      refine ⟨?_, ?_⟩
      · intro a' h'
        have hf := LifeE.findApp_upd (f := askAppT key x) (askRemoveT_apps s1 app key chain a1 x hfind hitem) hfind
          (by rw [askAppT_live]; exact hl) (by rw [askAppT_id]; exact hid)
        rw [hf] at h'
        simp only [Option.some.injEq] at h'
        subst h'
        intro r hr
        rw [askAppT_reservations] at hr
        simpa using (List.mem_filter.mp hr).2
      · intro a2 h2 nd hnd n' hn' hid'
        simp only [Option.some.injEq] at h2
        subst h2
        cases hres : a1.reservations.find? (·.1 == key) with
        | none =>
          have := List.find?_eq_none.mp hres _ hnd
          simp at this
        | some r =>
          have hrm := List.mem_of_find?_eq_some hres
          have hrk : r.1 = key := by simpa using List.find?_some hres
          have hr : r = (key, nd) := eq_of_fst _ (hone a1 hfind) hrm hnd hrk
          rw [askRemoveT_nodes s1 app key chain a1 x r hfind hitem hres] at hn'
          obtain ⟨n, hn, rfl⟩ := List.mem_map.mp hn'
          by_cases hd : (n.id == r.2) = true
          · rw [if_pos hd]
            intro hm
            have := (List.mem_filter.mp hm).2
            simp at this
          · rw [if_neg hd] at hid'
            rw [hr] at hd
            exact absurd (by simpa using hid') hd

end ResE

/-- C. RemoveAllocationAsk(key) (`askRemoveT`): afterwards the live application `app` (if still there) has no reservation
    with key `key`, and the node that held the reservation does not list `key` any more. -/
theorem askRemoveT_gone (s1 : Core) (app key : String) (chain : List String) (h : ResInv s1) :
    (∀ a', (askRemoveT s1 app key chain).findApp app = some a' → ∀ r ∈ a'.reservations, r.1 ≠ key) ∧
    (∀ a1, s1.findApp app = some a1 → ∀ nd, (key, nd) ∈ a1.reservations →
      ∀ n' ∈ (askRemoveT s1 app key chain).nodes, n'.id = nd → key ∉ n'.reservations) := by
  apply ResE.askRemoveT_gone_aux
  · intro a1 h1
    obtain ⟨ham, hl, _⟩ := findApp_some h1
    exact h.outstanding a1 ham hl
  · intro a1 h1
    obtain ⟨ham, hl, _⟩ := findApp_some h1
    exact h.onePerAsk a1 ham hl

/-- C. partition.removeAllocation(app, key, tt) with a termination type other than TIMEOUT (the ask is removed):
    afterwards the live application `app` (if still there) has no reservation with key `key`, and the node that held the
    reservation does not list `key` any more. -/
theorem releaseKeyT_gone (s : Core) (tt : TermType) (app key : String) (hw : CoreWF s) (h : ResInv s) (htt : tt ≠ .timeout) :
    (∀ a', (s.releaseKeyT tt app key).findApp app = some a' → ∀ r ∈ a'.reservations, r.1 ≠ key) ∧
    (∀ a, s.findApp app = some a → ∀ nd, (key, nd) ∈ a.reservations →
      ∀ n' ∈ (s.releaseKeyT tt app key).nodes, n'.id = nd → key ∉ n'.reservations) := by
  have htt' : (tt == TermType.timeout) = false := by
    cases tt <;> first | rfl | exact absurd rfl htt
  cases hfind : s.findApp app with
  | none =>
    have e : s.releaseKeyT tt app key = s := by unfold releaseKeyT; simp only [hfind]
    rw [e]
    exact ⟨fun a' h' => (by rw [hfind] at h'; cases h'), fun a1 h1 => (by cases h1)⟩
  | some a =>
    obtain ⟨ham, hl, hid⟩ := findApp_some hfind
    cases hitem : a.items.find? (·.key == key) with
    | none =>
      have e : s.releaseKeyT tt app key = s := by unfold releaseKeyT; simp only [hfind, hitem]
      rw [e]
      have hno : ∀ r ∈ a.reservations, r.1 ≠ key := by
        intro r hr hk
        obtain ⟨i, hi, hik, _⟩ := h.outstanding a ham hl r hr
        have := List.find?_eq_none.mp hitem i hi
        simp [hik, hk] at this
      refine ⟨?_, ?_⟩
      · intro a' h'
        rw [hfind] at h'
        simp only [Option.some.injEq] at h'
        subst h'
        exact hno
      · intro a2 h2 nd hnd
        simp only [Option.some.injEq] at h2
        subst h2
        exact absurd rfl (hno _ hnd)
    | some i =>
      have e : s.releaseKeyT tt app key = askRemoveT (relBoundT s tt app key a i) app key (pathChain s a.queue) := by
        unfold releaseKeyT
        simp only [hfind, hitem, htt', Bool.false_eq_true, if_false]
      rw [e]
      cases hbd : i.bound with
      | false =>
        rw [relBoundT_unbound _ _ _ _ _ _ hbd]
        obtain ⟨g1, g2⟩ := askRemoveT_gone s app key (pathChain s a.queue) h
        exact ⟨g1, fun a2 h2 => g2 a2 (by rw [hfind]; exact h2)⟩
      | true =>
        obtain ⟨hta, _, _⟩ := relBoundT_lists' s tt app key a i hbd
        cases hlv : (relAppT tt key i a).live with
        | false =>
          -- the application left the partition: it was Failing / Completing and held no reservation
          have hnone := LifeE.findApp_upd_none (f := fun _ => relAppT tt key i a) hw hta hfind hlv
          have e2 : askRemoveT (relBoundT s tt app key a i) app key (pathChain s a.queue) = relBoundT s tt app key a i := by
            unfold askRemoveT; simp only [hnone]
          rw [e2]
          have hq : a.reservations = [] := by
            apply h.quiet a ham hl
            apply ResE.relSt_terminated tt i a
            have := LifeB.relAppT_live tt key i a
            rw [hlv] at this
            simpa using this.symm
          refine ⟨fun a' h' => (by rw [hnone] at h'; cases h'), ?_⟩
          intro a2 h2 nd hnd
          simp only [Option.some.injEq] at h2
          subst h2
          rw [hq] at hnd; cases hnd
        | true =>
          have hf1 := LifeE.findApp_upd (f := fun _ => relAppT tt key i a) hta hfind hlv (by rw [relAppT_id]; exact hid)
          obtain ⟨g1, g2⟩ := ResE.askRemoveT_gone_aux (relBoundT s tt app key a i) app key (pathChain s a.queue)
            (by
              intro a1 h1
              rw [hf1] at h1
              simp only [Option.some.injEq] at h1
              subst h1
              intro r hr
              rw [ResE.relAppT_reservations] at hr
              obtain ⟨i0, hi0, hk0, ho0⟩ := h.outstanding a ham hl r hr
              have hreq : i0.inReq = true := by
                unfold CItem.outstanding at ho0
                simp only [Bool.and_eq_true] at ho0
                exact ho0.1
              rw [relAppT_items]
              by_cases hk : i0.key = key
              · refine ⟨{ i0 with bound := false }, ?_, hk0, ho0⟩
                exact List.mem_filter.mpr ⟨mem_updItem_of_eq hi0 hk, by simp [hreq]⟩
              · refine ⟨i0, ?_, hk0, ho0⟩
                exact List.mem_filter.mpr ⟨mem_updItem_of_ne hi0 hk, by simp [hreq]⟩)
            (by
              intro a1 h1
              rw [hf1] at h1
              simp only [Option.some.injEq] at h1
              subst h1
              rw [ResE.relAppT_reservations]
              exact h.onePerAsk a ham hl)
          refine ⟨g1, ?_⟩
          intro a2 h2 nd hnd
          simp only [Option.some.injEq] at h2
          subst h2
          exact g2 _ hf1 nd (by rw [ResE.relAppT_reservations]; exact hnd)

namespace ResE

theorem lookup_of_mem {β : Type} : ∀ (l : List (String × β)), (l.map (·.1)).Nodup → ∀ e ∈ l, l.lookup e.1 = some e.2 := by
  intro l
  induction l with
  | nil => intro _ e he; cases he
  | cons x t ih =>
    intro h e he
    obtain ⟨k, c⟩ := x
    rw [List.map_cons, List.nodup_cons] at h
    rw [List.lookup_cons]
    rcases List.mem_cons.mp he with rfl | he'
    · simp
    · have hne : (e.1 == k) = false := by
        have : e.1 ≠ k := fun hk => h.1 (List.mem_map.mpr ⟨e, he', hk⟩)
        simpa using this
      rw [hne]
      exact ih h.2 e he'

/-- an application without reservations: the queues with its path count zero for it -/
theorem empty_queue (s : Core) (a : CApp) (h : ResInv s) (ham : a ∈ s.apps) (hl : a.live = true) (he : a.reservations = []) :
    ∀ q ∈ s.queues, q.path = a.queue → ∀ e ∈ q.reserved, e.1 = a.id → e.2 = 0 := by
  intro q hq hp e hem hid
  have hcount := h.queueCount a ham hl
  cases hf : s.findQueue a.queue with
  | none =>
    unfold findQueue at hf
    have := List.find?_eq_none.mp hf q hq
    simp [hp] at this
  | some q0 =>
    rw [hf] at hcount
    simp only at hcount
    have h1 := hcount q hq hp
    rw [← hid, lookup_of_mem _ (h.queueKeys q hq) e hem, he] at h1
    simpa using h1

theorem unreserveApp_apps (c : Core) (a : CApp) (b : Bool) : (unreserveApp c a b).apps = c.apps := by
  unfold unreserveApp; split <;> rfl

/-- `unreserveApp` for the reservations of a live application of `s` on a state `c` whose queues carry the paths and the
    reservation lists of the queues of `s` -/
theorem unreserveApp_gone (c s : Core) (a : CApp) (b : Bool) (h : ResInv s) (ham : a ∈ s.apps) (hl : a.live = true)
    (hq : ∀ q' ∈ c.queues, ∃ q ∈ s.queues, q'.path = q.path ∧ q'.reserved = q.reserved) :
    (∀ n' ∈ (unreserveApp c a b).nodes, ∀ k ∈ n'.reservations, (k, n'.id) ∉ a.reservations) ∧
    (∀ q' ∈ (unreserveApp c a b).queues, q'.path = a.queue → ∀ e ∈ q'.reserved, e.1 = a.id →
      e.2 = 0 ∧ ∃ q ∈ s.queues, q.path = a.queue ∧ e ∈ q.reserved) := by
  unfold unreserveApp
  split
  · rename_i he
    have he' : a.reservations = [] := List.isEmpty_iff.mp he
    refine ⟨?_, ?_⟩
    · intro n' _ k _
      rw [he']; exact List.not_mem_nil
    · intro q' hq' hp e hem hid
      obtain ⟨q, hqm, h1, h2⟩ := hq q' hq'
      rw [h2] at hem
      rw [h1] at hp
      exact ⟨empty_queue s a h ham hl he' q hqm hp e hem hid, q, hqm, hp, hem⟩
  · refine ⟨?_, ?_⟩
    · intro n' hn' k hk
      obtain ⟨n, hn, rfl⟩ := List.mem_map.mp hn'
      have := (List.mem_filter.mp hk).2
      simpa using this
    · intro q' hq' hp e hem hid
      obtain ⟨q, hqm, rfl⟩ := List.mem_map.mp hq'
      by_cases hd : (q.path == a.queue) = true
      · rw [if_pos hd] at hem
        have := (List.mem_filter.mp hem).2
        simp [hid] at this
      · rw [if_neg hd] at hp
        exact absurd (by simpa using hp) hd

theorem updQs_keep (queues : List CQueue) (chain : List String) (f : CQueue → CQueue)
    (hf : ∀ q, (f q).path = q.path ∧ (f q).reserved = q.reserved) :
    ∀ q' ∈ updQs queues chain f, ∃ q ∈ queues, q'.path = q.path ∧ q'.reserved = q.reserved := by
  intro q' hq'
  obtain ⟨q, hq, rfl⟩ := List.mem_map.mp hq'
  refine ⟨q, hq, ?_⟩
  split
  · exact hf q
  · exact ⟨rfl, rfl⟩

theorem rmQ_reserved (a : CApp) (q : CQueue) : (rmQ a q).reserved = q.reserved := by
  rw [rmQ_eq]
  unfold rmQ1 rmQ0
  split <;> split <;> rfl

theorem relAllQ_reserved (total pre : Res) (a1 a2 : CApp) (asks : Bool) (q : CQueue) :
    (relAllQ total pre a1 a2 asks q).reserved = q.reserved := by
  rw [relAllQ_eq]
  unfold relAllQ1 relAllQ0 qDecPreempting qDecAlloc
  cases asks <;> cases strictlyGreaterThanZero (some total) <;> cases strictlyGreaterThanZero (some pre) <;> split <;> rfl

theorem dropAsksApp_reservations (a : CApp) :
    (dropAsksApp a).reservations = if a.items.any (fun x => x.inReq) = true then [] else a.reservations := by
  unfold dropAsksApp
  cases h : a.items.any (fun x => x.inReq) <;> simp

theorem relAllApp_live (a : CApp) :
    (relAllApp a).live = !(terminated (if isZero (some a.pending) = true then fireState a.state .complete else a.state)) := by
  unfold relAllApp; simp

theorem unboundAll_any (l : List CItem) (h : l.any (·.inReq) = true) : (unboundAll l).any (·.inReq) = true := by
  obtain ⟨i, hi, hr⟩ := List.any_eq_true.mp h
  refine List.any_eq_true.mpr ⟨{ i with bound := false }, ?_, hr⟩
  unfold unboundAll
  exact List.mem_filter.mpr ⟨List.mem_map.mpr ⟨i, hi, rfl⟩, hr⟩

end ResE

/-- C. partition.removeApplication: afterwards no node lists a reservation of the removed application, the queues with
    its path carry no count for its id (an entry for it, if any, is an old entry with count 0; none when the queues have
    no zero entries), and there is no live application with its id. -/
theorem appRemove_gone (s : Core) (app : String) (a : CApp) (h : ResInv s) (ha : s.findApp app = some a) :
    (∀ n' ∈ (s.appRemove app).nodes, ∀ k ∈ n'.reservations, (k, n'.id) ∉ a.reservations) ∧
    (∀ q' ∈ (s.appRemove app).queues, q'.path = a.queue → ∀ e ∈ q'.reserved, e.1 = app →
      e.2 = 0 ∧ ∃ q ∈ s.queues, q.path = a.queue ∧ e ∈ q.reserved) ∧
    (s.appRemove app).findApp app = none := by
  obtain ⟨ham, hl, hid⟩ := findApp_some ha
  obtain ⟨ea, eq, en⟩ := appRemove_lists s app a ha
  obtain ⟨ca, _, cq⟩ := appRemoveCore_lists s app a
  obtain ⟨g1, g2⟩ := ResE.unreserveApp_gone (appRemoveCore s app a) s a false h ham hl
    (by rw [cq]; exact ResE.updQs_keep _ _ _ (fun q => ⟨rmQ_path a q, ResE.rmQ_reserved a q⟩))
  refine ⟨by rw [en]; exact g1, ?_, ?_⟩
  · rw [eq]
    intro q' hq' hp e hem hide
    exact g2 q' hq' hp e hem (by rw [hide, hid])
  · apply findApp_eq_none
    intro y hy hyl
    rw [ea, ResE.unreserveApp_apps, ca] at hy
    have := (List.mem_filter.mp hy).2
    simpa [hyl] using this

/-- … with no zero-count entries in the queues: no entry at all -/
theorem appRemove_gone_noentry (s : Core) (app : String) (a : CApp) (h : ResInv s) (ha : s.findApp app = some a)
    (hz : ∀ q ∈ s.queues, ∀ e ∈ q.reserved, e.2 ≠ 0) :
    ∀ q' ∈ (s.appRemove app).queues, q'.path = a.queue → ∀ e ∈ q'.reserved, e.1 ≠ app := by
  intro q' hq' hp e he hid
  obtain ⟨h0, q, hq, _, hem⟩ := (appRemove_gone s app a h ha).2.1 q' hq' hp e he hid
  exact hz q hq e hem h0

/-- C. partition.removeAllocation(app, "", tt) with a termination type other than TIMEOUT for an application that has
    requests: afterwards the application (if still live) holds no reservation, no node lists one of its reservations, the
    queues with its path carry no count for it. -/
theorem releaseApp_gone (s : Core) (tt : TermType) (app : String) (a : CApp) (hw : CoreWF s) (h : ResInv s)
    (ha : s.findApp app = some a) (htt : tt ≠ .timeout) (hreq : a.items.any (·.inReq) = true) :
    (∀ a', (s.releaseApp tt app).findApp app = some a' → a'.reservations = []) ∧
    (∀ n' ∈ (s.releaseApp tt app).nodes, ∀ k ∈ n'.reservations, (k, n'.id) ∉ a.reservations) ∧
    (∀ q' ∈ (s.releaseApp tt app).queues, q'.path = a.queue → ∀ e ∈ q'.reserved, e.1 = app →
      e.2 = 0 ∧ ∃ q ∈ s.queues, q.path = a.queue ∧ e ∈ q.reserved) := by
  obtain ⟨ham, hl, hid⟩ := findApp_some ha
  obtain ⟨ea, eq, en⟩ := releaseApp_lists s tt app a ha
  obtain ⟨ca, _, cq⟩ := releaseAppCore_lists s tt app a
  have htt' : (tt != TermType.timeout) = true := by
    cases tt <;> first | rfl | exact absurd rfl htt
  have hany : (relAllApp a).items.any (·.inReq) = true := by
    rw [relAllApp_items]; exact ResE.unboundAll_any _ hreq
  have hasks : relAsks tt a = (relAllApp a).live := by
    unfold relAsks; rw [htt', hany]; simp
  have hkeep : ∀ q' ∈ (releaseAppCore s tt app a).queues, ∃ q ∈ s.queues, q'.path = q.path ∧ q'.reserved = q.reserved := by
    rw [cq]; exact ResE.updQs_keep _ _ _ (fun q => ⟨relAllQ_path _ _ _ _ _ q, ResE.relAllQ_reserved _ _ _ _ _ q⟩)
  have happs : (s.releaseApp tt app).apps = updApps s.apps app (fun _ => relAll2 tt a) := by
    rw [ea]; split
    · rw [ResE.unreserveApp_apps, ca]
    · exact ca
  cases hlv : (relAllApp a).live with
  | true =>
    rw [hlv] at hasks
    rw [hasks] at eq en
    simp only [if_true] at eq en
    obtain ⟨g1, g2⟩ := ResE.unreserveApp_gone (releaseAppCore s tt app a) s a false h ham hl hkeep
    refine ⟨?_, by rw [en]; exact g1, by rw [eq]; exact fun q' hq' hp e hem hide => g2 q' hq' hp e hem (by rw [hide, hid])⟩
    intro a' h'
    obtain ⟨hm', hl', hid'⟩ := findApp_some h'
    rw [happs] at hm'
    rcases mem_updApps hw.appIds ham hl hid hm' with e | ⟨_, hnd⟩
    · rw [e]
      show (if relAsks tt a = true then dropAsksApp (relAllApp a) else relAllApp a).reservations = []
      rw [hasks, if_pos rfl, ResE.dropAsksApp_reservations, hany, if_pos rfl]
    · exact absurd (by simp [hl', hid']) hnd
  | false =>
    rw [hlv] at hasks
    rw [hasks] at eq en
    simp only [Bool.false_eq_true, if_false] at eq en
    -- the application left in `RemoveAllAllocations`: it was Completing (or terminated) and held no reservation
    have hq : a.reservations = [] := by
      apply h.quiet a ham hl
      have hx := ResE.relAllApp_live a
      rw [hlv] at hx
      have ht : terminated (if isZero (some a.pending) = true then fireState a.state .complete else a.state) = true := by
        simpa using hx.symm
      split at ht
      · rcases LifeB.complete_terminated _ ht with e | e
        · exact Or.inr (Or.inl e)
        · exact Or.inr (Or.inr e)
      · exact Or.inr (Or.inr ht)
    refine ⟨?_, ?_, ?_⟩
    · intro a' h'
      obtain ⟨hm', hl', hid'⟩ := findApp_some h'
      rw [happs] at hm'
      rcases mem_updApps hw.appIds ham hl hid hm' with e | ⟨_, hnd⟩
      · have : (relAll2 tt a).live = false := by
          show ((relAllApp a).live && _) = false
          rw [hlv]; rfl
        rw [e, this] at hl'; cases hl'
      · exact absurd (by simp [hl', hid']) hnd
    · intro n' _ k _
      rw [hq]; exact List.not_mem_nil
    · intro q' hq' hp e hem hid2
      rw [eq] at hq'
      obtain ⟨q, hqm, h1, h2⟩ := hkeep q' hq'
      rw [h2] at hem
      rw [h1] at hp
      exact ⟨ResE.empty_queue s a h ham hl hq q hqm hp e hem (by rw [hid2, hid]), q, hqm, hp, hem⟩

end Yk
