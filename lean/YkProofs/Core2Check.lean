/-
  Executable checkers for the side conditions of the stepped model (`Op.ok`, YkProofs/Core2Run.lean).  Every side
  condition structure gets a Bool function that is SUFFICIENT for it (`…_of_b`), `Op.okb` / `runOKb` check one step / a
  history, and `runOKb_sound : runOKb s ops = true → RunOK s ops` makes `books_reachable` applicable to concrete
  histories by evaluation.
-/
import YkProofs.Core2Run
namespace Yk
open Res Core

/-! ### sparse vectors -/

/-- `r ≤ p` pointwise, checked on the keys that occur -/
def leqb (r p : Res) : Bool := (r.keys ++ p.keys).all (fun k => decide (r.getD k ≤ p.getD k))

theorem leqb_sound {r p : Res} (h : leqb r p = true) (k : String) : r.getD k ≤ p.getD k := by
  unfold leqb at h
  by_cases hk : k ∈ r.keys ++ p.keys
  · simpa using List.all_eq_true.mp h k hk
  · rw [List.mem_append, not_or] at hk
    rw [getD_of_not_mem_keys hk.1, getD_of_not_mem_keys hk.2]
    exact Int.le_refl 0

def nonNegb (r : Res) : Bool := r.all (fun p => decide (0 ≤ p.2))

theorem nonNeg_of_b {r : Res} (h : nonNegb r = true) : NonNeg r := by
  intro p hp
  simpa using List.all_eq_true.mp h p hp

def allInRb (r : Res) : Bool := r.all (fun p => decide (minI ≤ p.2) && decide (p.2 ≤ maxI))

theorem allInR_of_b {r : Res} (h : allInRb r = true) : allInR r := by
  intro p hp
  have := List.all_eq_true.mp h p hp
  simp only [Bool.and_eq_true, decide_eq_true_eq] at this
  exact this

/-! ### an allocation is listed by its node -/

/-- the node `node` is registered and lists a non-foreign allocation `key` of size `r` -/
def onNodeb (s : Core) (node key : String) (r : Res) : Bool :=
  match s.findNode node with
  | none => false
  | some n => n.allocs.any (fun x => x.key == key && !x.foreign && sparseEq x.res r)

theorem onNode_of_b {s : Core} {node key : String} {r : Res} (h : onNodeb s node key r = true) :
    ∃ n, s.findNode node = some n ∧ ∃ x ∈ n.allocs, x.key = key ∧ x.foreign = false ∧ ∀ k, x.res.getD k = r.getD k := by
  unfold onNodeb at h
  split at h
  · cases h
  · rename_i n hn
    obtain ⟨x, hx, hc⟩ := List.any_eq_true.mp h
    simp only [Bool.and_eq_true, beq_iff_eq, Bool.not_eq_true'] at hc
    exact ⟨n, hn, x, hx, hc.1.1, hc.1.2, sparseEq_getD hc.2⟩

/-! ### `ReleaseOK` -/

def releaseOKb (s : Core) (app key : String) : Bool :=
  match s.findApp app with
  | none => true
  | some a =>
    match a.items.find? (·.key == key) with
    | none => true
    | some i => !i.bound || onNodeb s i.node key i.res

theorem releaseOK_of_b {s : Core} {app key : String} (hb : releaseOKb s app key = true) : ReleaseOK s app key := by
  refine ⟨?_⟩
  intro a i ha hi hbd
  simp only [releaseOKb, ha, hi, hbd, Bool.not_true, Bool.false_or] at hb
  exact onNode_of_b hb

/-! ### `AskOK` -/

/-- the pending totals of the queues at or above `queue`, increased by `res`, hold int64 values -/
def noSatb (s : Core) (queue : String) (res : Res) : Bool :=
  s.queues.all (fun q => !(under queue q.path) || allInRb (addX q.pending res))

theorem noSat_of_b {s : Core} {queue : String} {res : Res} (h : noSatb s queue res = true) :
    ∀ q ∈ s.queues, under queue q.path = true → allInR (addX q.pending res) := by
  intro q hq hu
  have := List.all_eq_true.mp h q hq
  simp only [hu, Bool.not_true, Bool.false_or] at this
  exact allInR_of_b this

def askOKb (s : Core) (app key : String) (res : Res) : Bool :=
  wf res &&
  match s.findApp app with
  | none => true
  | some a => a.items.all (fun i => i.key != key) && noSatb s a.queue res

theorem askOK_of_b {s : Core} {app key : String} {res : Res} (hb : askOKb s app key res = true) : AskOK s app key res := by
  unfold askOKb at hb
  rw [Bool.and_eq_true] at hb
  obtain ⟨h1, h2⟩ := hb
  refine ⟨h1, ?_, ?_⟩
  · intro a ha i hi
    simp only [ha, Bool.and_eq_true] at h2
    simpa using List.all_eq_true.mp h2.1 i hi
  · intro a ha
    simp only [ha, Bool.and_eq_true] at h2
    exact noSat_of_b h2.2

/-! ### `FreshOnNode` -/

def freshOnNodeb (s : Core) (node key : String) : Bool :=
  match s.findNode node with
  | none => true
  | some n => n.allocs.all (fun x => x.key != key)

theorem freshOnNode_of_b {s : Core} {node key : String} (hb : freshOnNodeb s node key = true) : FreshOnNode s node key := by
  intro n hn x hx
  simp only [freshOnNodeb, hn] at hb
  simpa using List.all_eq_true.mp hb x hx

/-! ### `FreshQueuesOK` -/

def freshQueuesOKb (s : Core) (nq : List CQueue) : Bool :=
  nq.all (fun q => !(s.findQueue q.path).isNone || s.apps.all (fun x => !x.live || !(under x.queue q.path)))

theorem freshQueuesOK_of_b {s : Core} {nq : List CQueue} (hb : freshQueuesOKb s nq = true) : FreshQueuesOK s nq := by
  refine ⟨?_⟩
  intro q hq hn x hx hl
  have h1 := List.all_eq_true.mp hb q hq
  simp only [hn, Bool.not_true, Bool.false_or] at h1
  have h2 := List.all_eq_true.mp h1 x hx
  simpa [hl] using h2

/-! ### `AppOnNodes` -/

def appOnNodesb (s : Core) (app : String) : Bool :=
  match s.findApp app with
  | none => true
  | some a => a.items.all (fun i => !i.bound || onNodeb s i.node i.key i.res)

theorem appOnNodes_of_b {s : Core} {app : String} (hb : appOnNodesb s app = true) : AppOnNodes s app := by
  refine ⟨?_⟩
  intro a ha i hi hbd
  simp only [appOnNodesb, ha] at hb
  have := List.all_eq_true.mp hb i hi
  simp only [hbd, Bool.not_true, Bool.false_or] at this
  exact onNode_of_b this

/-! ### `ReplOK` -/

def replOKb (a : CApp) (p r : CItem) : Bool :=
  decide (p ∈ a.items) && p.bound && p.ph && (r.key != p.key) && !r.ph && r.allocated && wf r.res && nonNegb r.res &&
  ((decide (r ∈ a.items) && !r.bound) || (a.items.all (fun x => x.key != r.key) && !r.inReq))

theorem replOK_of_b {a : CApp} {p r : CItem} (hb : replOKb a p r = true) : ReplOK a p r := by
  unfold replOKb at hb
  simp only [Bool.and_eq_true, Bool.or_eq_true, decide_eq_true_eq, bne_iff_ne, ne_eq, Bool.not_eq_true'] at hb
  obtain ⟨⟨⟨⟨⟨⟨⟨⟨h1, h2⟩, h3⟩, h4⟩, h5⟩, h6⟩, h7⟩, h8⟩, h9⟩ := hb
  refine ⟨h1, h2, h3, h4, h5, h6, ⟨h7, nonNeg_of_b h8⟩, ?_⟩
  rcases h9 with h | h
  · exact Or.inl h
  · refine Or.inr ⟨?_, h.2⟩
    intro x hx
    simpa using List.all_eq_true.mp h.1 x hx

/-! ### `SwapOK` -/

/-- what `SwapOK` asks of the main path, for the placeholder `p` and the real allocation `r` -/
def swapCaseOKb (s : Core) (a : CApp) (p r : CItem) : Bool :=
  replOKb a p r && leqb r.res p.res && (decide (r.node ≠ p.node) || freshOnNodeb s p.node r.key)

def swapOKb (s : Core) (app phKey : String) : Bool :=
  releaseOKb s app phKey &&
  match s.findApp app with
  | none => true
  | some a =>
    match a.items.find? (·.key == phKey) with
    | none => true
    | some p =>
      !(p.bound && p.ph) ||
      match p.release.bind (findReal s a) with
      | none => true
      | some r => swapCaseOKb s a p r

theorem swapCaseOK_of_b {s : Core} {app phKey : String} (hb : swapOKb s app phKey = true) {a : CApp} {p r : CItem}
    (hc : SwapCase s app phKey a p r) : swapCaseOKb s a p r = true := by
  unfold swapOKb at hb
  rw [Bool.and_eq_true] at hb
  have h2 := hb.2
  simp only [hc.app, hc.item, hc.isPh, hc.real, Bool.not_true, Bool.false_or] at h2
  exact h2

theorem swapOK_of_b {s : Core} {app phKey : String} (hb : swapOKb s app phKey = true) : SwapOK s app phKey := by
  have hrel : releaseOKb s app phKey = true := by
    unfold swapOKb at hb
    rw [Bool.and_eq_true] at hb
    exact hb.1
  refine ⟨releaseOK_of_b hrel, ?_, ?_, ?_⟩
  · intro a p r hc
    have h := swapCaseOK_of_b hb hc
    simp only [swapCaseOKb, Bool.and_eq_true] at h
    exact replOK_of_b h.1.1
  · intro a p r hc
    have h := swapCaseOK_of_b hb hc
    simp only [swapCaseOKb, Bool.and_eq_true] at h
    exact leqb_sound h.1.2
  · intro a p r hc hnode
    have h := swapCaseOK_of_b hb hc
    simp only [swapCaseOKb, Bool.and_eq_true, Bool.or_eq_true, decide_eq_true_eq] at h
    rcases h.2 with h' | h'
    · exact absurd hnode h'
    · exact freshOnNode_of_b h'

/-! ### `NodeRmOK`, `NodeLoopOK`, `NodeRemoveOK` -/

/-- an allocated ask that becomes outstanding again: not bound, and no saturation of the pending totals -/
def reaskOKb (c : Core) (a : CApp) (r : CItem) : Bool :=
  !(r.inReq && r.allocated) || (!r.bound && noSatb c a.queue r.res)

def nodeRmOKb (c : Core) (nodeId app key : String) : Bool :=
  match c.findApp app with
  | none => true
  | some a =>
    match a.items.find? (·.key == key) with
    | none => true
    | some i =>
      match i.release with
      | none => true
      | some rk =>
        if i.ph = true then
          match findReal c a rk with
          | none => true
          | some r =>
            if r.node = nodeId then reaskOKb c a r
            else !i.bound || (replOKb a i r && leqb r.res i.res)
        else reaskOKb c a i

theorem reaskOK_of_b {c : Core} {a : CApp} {r : CItem} (hb : reaskOKb c a r = true) (h1 : r.inReq = true)
    (h2 : r.allocated = true) :
    r.bound = false ∧ ∀ q ∈ c.queues, under a.queue q.path = true → allInR (addX q.pending r.res) := by
  simp only [reaskOKb, h1, h2, Bool.and_self, Bool.not_true, Bool.false_or, Bool.and_eq_true, Bool.not_eq_true'] at hb
  exact ⟨hb.1, noSat_of_b hb.2⟩

theorem nodeRmOK_of_b {c : Core} {nodeId app key : String} (hb : nodeRmOKb c nodeId app key = true) :
    NodeRmOK c nodeId app key := by
  refine ⟨?_, ?_, ?_⟩
  · intro a i rk r ha hi hrel hph hreal hnode hbd
    simp only [nodeRmOKb, ha, hi, hrel, hph, if_true, hreal, hnode, if_false, hbd, Bool.not_true, Bool.false_or,
      Bool.and_eq_true] at hb
    exact ⟨replOK_of_b hb.1, leqb_sound hb.2⟩
  · intro a i rk r ha hi hrel hph hreal hnode hreq hall
    simp only [nodeRmOKb, ha, hi, hrel, hph, if_true, hreal, hnode] at hb
    exact reaskOK_of_b hb hreq hall
  · intro a i rk ha hi hrel hph hreq hall
    simp only [nodeRmOKb, ha, hi, hrel, hph, Bool.false_eq_true, if_false] at hb
    exact reaskOK_of_b hb hreq hall

def nodeLoopOKb (nodeId : String) : Core → List (String × String) → Bool
  | _, [] => true
  | c, p :: t => nodeRmOKb c nodeId p.1 p.2 && nodeLoopOKb nodeId (nodeRmAlloc c nodeId p.1 p.2) t

theorem nodeLoopOK_of_b {nodeId : String} {c : Core} {l : List (String × String)} (hb : nodeLoopOKb nodeId c l = true) :
    NodeLoopOK nodeId c l := by
  induction l generalizing c with
  | nil => trivial
  | cons p t ih =>
    simp only [nodeLoopOKb, Bool.and_eq_true] at hb
    exact ⟨nodeRmOK_of_b hb.1, ih hb.2⟩

def nodeRemoveOKb (s : Core) (id : String) (order : List (String × String)) : Bool :=
  match s.findNode id with
  | none => true
  | some n => nodeLoopOKb id (n.reservations.foldl (fun c k => unreserveOn c id k) s) (order ++ nodeRest n order)

theorem nodeRemoveOK_of_b {s : Core} {id : String} {order : List (String × String)}
    (hb : nodeRemoveOKb s id order = true) : NodeRemoveOK s id order := by
  intro n hn
  simp only [nodeRemoveOKb, hn] at hb
  exact nodeLoopOK_of_b hb

/-! ### one step, a history -/

/-- the executable side condition of one step (same cases as `Op.ok`) -/
def Op.okb (s : Core) : Op → Bool
  | .nodeCreate _ cap _ => wf cap
  | .nodeUpdate _ cap => wf cap
  | .nodeSchedulable _ _ => true
  | .nodeRemove id order => nodeRemoveOKb s id order
  | .foreignAdd key node res => wf res && freshOnNodeb s node key
  | .foreignRemove _ => true
  | .appAdd _ nq => freshQueuesOKb s nq
  | .appRemove app => appOnNodesb s app
  | .ask app key res _ _ _ => askOKb s app key res
  | .schedAlloc _ key node => freshOnNodeb s node key
  | .swapStart _ realKey _ node => freshOnNodeb s node realKey
  | .swapConfirm app phKey => swapOKb s app phKey
  | .releaseKey app key => releaseOKb s app key
  | .release _ app key => releaseOKb s app key
  | .releaseApp _ app => appOnNodesb s app
  | .markReleased _ _ _ => true
  | .phTimeout _ _ => true
  | .stateTimeout _ => true
  | .cleanup => true
  | .reserve _ _ _ => true
  | .unreserve _ _ _ => true

theorem okb_sound {s : Core} {op : Op} (h : op.okb s = true) : op.ok s := by
  cases op with
  | nodeCreate id cap b => exact h
  | nodeUpdate id cap => exact h
  | nodeSchedulable id b => trivial
  | nodeRemove id order => exact nodeRemoveOK_of_b h
  | foreignAdd key node res =>
    have h' : (wf res && freshOnNodeb s node key) = true := h
    rw [Bool.and_eq_true] at h'
    exact ⟨h'.1, freshOnNode_of_b h'.2⟩
  | foreignRemove key => trivial
  | appAdd a nq => exact freshQueuesOK_of_b h
  | appRemove app => exact appOnNodes_of_b h
  | ask app key res ph tg reqNode => exact askOK_of_b h
  | schedAlloc app key node => exact freshOnNode_of_b h
  | swapStart app realKey phKey node => exact freshOnNode_of_b h
  | swapConfirm app phKey => exact swapOK_of_b h
  | releaseKey app key => exact releaseOK_of_b h
  | release tt app key => exact releaseOK_of_b h
  | releaseApp tt app => exact appOnNodes_of_b h
  | markReleased app key p => trivial
  | phTimeout app ev => trivial
  | stateTimeout app => trivial
  | cleanup => trivial
  | reserve _ _ _ => trivial
  | unreserve _ _ _ => trivial

/-- every step of the history passes its executable side condition in the state it is applied to -/
def runOKb : Core → List Op → Bool
  | _, [] => true
  | s, op :: t => op.okb s && runOKb (op.apply s) t

theorem runOKb_sound (s : Core) (ops : List Op) (h : runOKb s ops = true) : RunOK s ops := by
  induction ops generalizing s with
  | nil => trivial
  | cons op t ih =>
    simp only [runOKb, Bool.and_eq_true] at h
    exact ⟨okb_sound h.1, ih _ h.2⟩

/-- `books_reachable` for a history that passes the executable check -/
theorem books_reachable_b (s : Core) (ops : List Op) (hw : CoreWF s) (hb : Books s) (h : runOKb s ops = true) :
    Books (run s ops) ∧ CoreWF (run s ops) :=
  books_reachable s ops hw hb (runOKb_sound s ops h)

end Yk
