import YkModel.Generated.ResArith
namespace Yk

theorem clamp_inR (x : Int) : inR (clamp x) := by
  unfold inR clamp minI maxI; repeat' split
  all_goals omega

theorem wrap64_inR (x : Int) : inR (wrap64 x) := by
  unfold inR wrap64 minI maxI; omega

theorem wrap64_id {x : Int} (h : inR x) : wrap64 x = x := by
  unfold inR minI maxI at h; unfold wrap64; omega

theorem goAddVal_spec {a b : Int} (ha : inR a) (hb : inR b) : goAddVal a b = clamp (a + b) := by
  unfold inR minI maxI at ha hb
  unfold goAddVal clamp wrap64 minI maxI
  simp only [bne_iff_ne, ne_eq, decide_eq_decide, decide_eq_true_eq]
  split <;> split <;> (try split) <;> omega

theorem goAddVal_inR {a b : Int} (ha : inR a) (hb : inR b) : inR (goAddVal a b) := by
  rw [goAddVal_spec ha hb]; exact clamp_inR _

theorem goSubVal_spec {a b : Int} (ha : inR a) (hb : inR b) : goSubVal a b = clamp (a - b) := by
  unfold inR minI maxI at ha hb
  unfold goSubVal clamp wrap64 minI maxI
  simp only [bne_iff_ne, ne_eq, decide_eq_decide, decide_eq_true_eq]
  split <;> split <;> (try split) <;> omega

theorem goSubVal_inR {a b : Int} (ha : inR a) (hb : inR b) : inR (goSubVal a b) := by
  rw [goSubVal_spec ha hb]; exact clamp_inR _

/-- `mulValRatio`: `prod` is the (integer) truncation of the float64 product; the float64 itself is trusted. -/
theorem goMulValRatio_spec {v : Int} (hv : v ≠ 0) (p : Int) : goMulValRatio v false p = clamp p := by
  unfold goMulValRatio clamp conv64 minI maxI
  simp only [decide_eq_true_eq, Bool.or_false, hv, if_false, ge_iff_le, gt_iff_lt]
  repeat' split
  all_goals omega

theorem goMulValRatio_zero (v p : Int) (rz : Bool) (h : v = 0 ∨ rz = true) : goMulValRatio v rz p = 0 := by
  unfold goMulValRatio
  rcases h with h | h <;> simp [h]

theorem goMulValRatio_inR (v p : Int) (rz : Bool) : inR (goMulValRatio v rz p) := by
  unfold goMulValRatio conv64 inR minI maxI
  simp only [decide_eq_true_eq, Bool.or_eq_true]
  repeat' split
  all_goals omega

theorem mulOverflow_detect {a b : Int} (ha : inR a) (hb : inR b) (hb0 : b ≠ 0)
    (hm : ¬ inR (a * b)) (hs : ¬ (a = minI ∧ b = -1)) :
    wrap64 (Int.tdiv (wrap64 (a * b)) b) ≠ a := by
  intro heq
  unfold inR minI maxI at *
  have hmul : b * a = a * b := Int.mul_comm b a
  generalize hmdef : a * b = m at *
  generalize hrdef : wrap64 m = r at *
  have hr : r = (m + 9223372036854775808) % 18446744073709551616 - 9223372036854775808 := by
    rw [← hrdef]; rfl
  by_cases hb1 : b = 1
  · subst hb1; simp at hmul; omega
  by_cases hbm1 : b = -1
  · subst hbm1; omega
  have hq1 := Int.natAbs_tdiv r b
  have ht1 := Int.natAbs_tmod r b
  have hsum := Int.mul_tdiv_add_tmod r b
  generalize hqdef : Int.tdiv r b = q at *
  generalize htdef : Int.tmod r b = t at *
  have hbabs : 2 ≤ b.natAbs := by omega
  have htlt : t.natAbs < b.natAbs := by rw [ht1]; exact Nat.mod_lt _ (by omega)
  have hqle : q.natAbs ≤ r.natAbs := by rw [hq1]; exact Nat.div_le_self _ _
  have hqa : q = a := by
    have : r.natAbs = 0 ∨ q.natAbs < r.natAbs := by
      by_cases h0 : r.natAbs = 0
      · left; exact h0
      · right; rw [hq1]; exact Nat.div_lt_self (by omega) (by omega)
    have hw : q = (q + 9223372036854775808) % 18446744073709551616 - 9223372036854775808 := by omega
    unfold wrap64 at heq; omega
  subst hqa
  rw [hmul] at hsum
  omega

theorem mul_sign_neg {a b : Int} (h : (a < 0) ≠ (b < 0)) (ha : a ≠ 0) (hb : b ≠ 0) : a * b < 0 := by
  by_cases h1 : a < 0
  · have : 0 < b := by
      have : ¬ b < 0 := fun hb' => h (by simp [h1, hb'])
      omega
    exact Int.mul_neg_of_neg_of_pos h1 this
  · have h2 : b < 0 := by
      by_cases hb' : b < 0
      · exact hb'
      · exact absurd (by simp [h1, hb']) h
    exact Int.mul_neg_of_pos_of_neg (by omega) h2

theorem mul_sign_pos {a b : Int} (h : (a < 0) = (b < 0)) (ha : a ≠ 0) (hb : b ≠ 0) : 0 < a * b := by
  by_cases h1 : a < 0
  · have h2 : b < 0 := by rw [← h]; exact h1
    exact Int.mul_pos_of_neg_of_neg h1 h2
  · have h2 : ¬ b < 0 := by rw [← h]; exact h1
    exact Int.mul_pos (by omega) (by omega)

theorem goMulVal_spec {a b : Int} (ha : inR a) (hb : inR b) : goMulVal a b = clamp (a * b) := by
  unfold goMulVal
  by_cases ha0 : a = 0
  · subst ha0; simp [clamp, minI, maxI]
  by_cases hb0 : b = 0
  · subst hb0; simp [clamp, minI, maxI]
  simp only [ha0, hb0, decide_false, Bool.or_self, Bool.false_eq_true, if_false]
  have hm1 : wrap64 (-1) = -1 := by decide
  simp only [hm1, bne_iff_ne, ne_eq, decide_eq_decide, decide_eq_true_eq, Bool.or_eq_true,
    Bool.and_eq_true, decide_not, Bool.not_eq_true', decide_eq_false_iff_not]
  by_cases hm : inR (a * b)
  · -- no overflow
    have hw : wrap64 (a * b) = a * b := wrap64_id hm
    have hne : ¬ (a = minI ∧ b = -1) := by
      rintro ⟨h1, h2⟩; subst h1 h2; revert hm; unfold inR minI maxI; omega
    rw [hw, Int.mul_tdiv_cancel a hb0, wrap64_id ha]
    simp only [not_true_eq_false, false_or, hne, if_false]
    unfold clamp; unfold inR at hm
    have h1 : ¬ a * b < minI := by omega
    have h2 : ¬ a * b > maxI := by omega
    simp [h1, h2]
  · -- overflow: the guard fires
    have hg : ¬ wrap64 (Int.tdiv (wrap64 (a * b)) b) = a ∨ (a = minI ∧ b = -1) := by
      by_cases hs : a = minI ∧ b = -1
      · right; exact hs
      · left; exact mulOverflow_detect ha hb hb0 hm hs
    rw [if_pos hg]
    by_cases hsg : (a < 0) = (b < 0)
    · have hp := mul_sign_pos hsg ha0 hb0
      have : ¬ ¬ ((a < 0) ↔ (b < 0)) := by rw [hsg]; simp
      simp only [this, if_false]
      unfold clamp; unfold inR at hm; unfold minI maxI at *
      have h1 : ¬ a * b < -9223372036854775808 := by omega
      have h2 : a * b > 9223372036854775807 := by omega
      simp [h1, h2]
    · have hn := mul_sign_neg hsg ha0 hb0
      have : ¬ ((a < 0) ↔ (b < 0)) := fun h => hsg (propext h)
      simp only [this, not_false_eq_true, if_true]
      unfold clamp; unfold inR at hm; unfold minI maxI at *
      have h1 : a * b < -9223372036854775808 := by omega
      simp [h1]

theorem goMulVal_inR {a b : Int} (ha : inR a) (hb : inR b) : inR (goMulVal a b) := by
  rw [goMulVal_spec ha hb]; exact clamp_inR _

end Yk
