/- The admission budget of the max-applications gate (C11): lemmas behind YkProps/C11 `budget`. -/
import YkProofs.Queue
namespace Yk
open Res QTree

/-- running + allocating never exceeds a configured maximum -/
def Budget (t : QTree) : Prop := ∀ q ∈ t, q.maxApps ≠ 0 → q.running + q.allocating.length ≤ q.maxApps

namespace QTree

/-- a counter operation as the scheduler issues it: an application is marked allocating, or counted as running,
    only after the gate said yes in that very state -/
def gated (t : QTree) : CounterOp → Bool
  | .incRun i app => canRunApp t i app
  | .decRun _ => true
  | .setAllocating i app => canRunApp t i app

def gatedRun : QTree → List CounterOp → Bool
  | _, [] => true
  | t, op :: ops => gated t op && gatedRun (cstep t op) ops

theorem treeWfAux_modify (f : Q → Q) (hf : ∀ i q, qWf i q = true → qWf i (f q) = true) :
    ∀ (t : List Q) (n i : Nat), treeWfAux n t = true → treeWfAux n (t.modify i f) = true := by
  intro t
  induction t with
  | nil => intro n i h; rw [List.modify_nil]; exact h
  | cons a t ih =>
    intro n i h
    simp only [treeWfAux, Bool.and_eq_true] at h
    cases i with
    | zero =>
      rw [List.modify_zero_cons]
      simp only [treeWfAux, Bool.and_eq_true]
      exact ⟨hf _ _ h.1, h.2⟩
    | succ j =>
      rw [List.modify_succ_cons]
      simp only [treeWfAux, Bool.and_eq_true]
      exact ⟨h.1, ih _ _ h.2⟩

theorem applyChain_wf (f : Q → Q) (hf : ∀ i q, qWf i q = true → qWf i (f q) = true) :
    ∀ (c : List Nat) (t : QTree), TreeWF t → TreeWF (applyChain t c f) := by
  intro c
  induction c with
  | nil => intro t h; exact h
  | cons a c ih =>
    intro t h
    rw [applyChain_cons]
    exact ih _ (treeWfAux_modify f hf t 0 a h)

theorem cstep_wf (t : QTree) (op : CounterOp) (hw : TreeWF t) : TreeWF (cstep t op) := by
  cases op with
  | incRun i app =>
    show TreeWF (incRunningApps t i app)
    unfold incRunningApps
    refine applyChain_wf _ ?_ _ t hw
    intro j q h; exact h
  | decRun i =>
    show TreeWF (decRunningApps t i)
    unfold decRunningApps
    refine applyChain_wf _ ?_ _ t hw
    intro j q h; exact h
  | setAllocating i app =>
    refine applyChain_wf _ ?_ _ t hw
    intro j q h
    by_cases hc : q.allocating.contains app = true
    · simp only [hc, if_true]; exact h
    · simp only [hc]; exact h

theorem applyChain_forall_chain (f : Q → Q) (P : Q → Prop) (c : List Nat) (t : QTree) (hn : c.Nodup)
    (h : ∀ q ∈ t, P q) (hf : ∀ j ∈ c, ∀ q, t[j]? = some q → P (f q)) : ∀ q ∈ applyChain t c f, P q := by
  intro q' hq'
  obtain ⟨j, hj⟩ := List.mem_iff_getElem?.mp hq'
  rw [applyChain_getElem? f c t hn j] at hj
  by_cases hm : j ∈ c
  · rw [if_pos hm] at hj
    cases hq : t[j]? with
    | none => rw [hq] at hj; cases hj
    | some q =>
      rw [hq] at hj
      simp only [Option.map_some, Option.some.injEq] at hj
      subst hj
      exact hf j hm q hq
  · rw [if_neg hm] at hj
    exact h q' (List.mem_iff_getElem?.mpr ⟨j, hj⟩)

theorem budget_step (t : QTree) (op : CounterOp) (hw : TreeWF t) (hb : Budget t) (hg : gated t op = true) :
    Budget (cstep t op) := by
  cases op with
  | incRun i app =>
    apply applyChain_forall_chain _ (fun q => q.maxApps ≠ 0 → q.running + q.allocating.length ≤ q.maxApps) _ t
      (chain_nodup hw i) hb
    intro j hj q hq hm
    simp only at hm ⊢
    have hbq := hb q (List.mem_iff_getElem?.mpr ⟨j, hq⟩) hm
    have hgate := canRun_gate t i app hg j hj q hq hm
    have hle : (q.allocating.filter (· != app)).length ≤ q.allocating.length := List.length_filter_le _ _
    have hlt : app ∈ q.allocating → (q.allocating.filter (· != app)).length < q.allocating.length := by
      intro hmem
      apply List.length_filter_lt_length_iff_exists.mpr
      exact ⟨app, hmem, by simp⟩
    by_cases hc : q.running + 1 > q.maxApps
    · have : (decide (q.maxApps > 0) && decide (q.running + 1 > q.maxApps)) = true := by
        simp only [Bool.and_eq_true, decide_eq_true_eq]; omega
      simp only [this, if_true]
      rcases hgate with hgate | hgate
      · have := hlt hgate; omega
      · omega
    · have : (decide (q.maxApps > 0) && decide (q.running + 1 > q.maxApps)) = false := by
        simp only [Bool.and_eq_false_iff, decide_eq_false_iff_not]; omega
      simp only [this, Bool.false_eq_true, if_false]
      rcases hgate with hgate | hgate
      · have := hlt hgate; omega
      · omega
  | decRun i =>
    apply applyChain_forall _ (fun q => q.maxApps ≠ 0 → q.running + q.allocating.length ≤ q.maxApps) _ _ t hb
    intro q hq hm
    have := hq hm
    simp only at hm ⊢; omega
  | setAllocating i app =>
    apply applyChain_forall_chain _ (fun q => q.maxApps ≠ 0 → q.running + q.allocating.length ≤ q.maxApps) _ t
      (chain_nodup hw i) hb
    intro j hj q hq
    by_cases hc : q.allocating.contains app = true
    · simp only [hc, if_true]
      exact hb q (List.mem_iff_getElem?.mpr ⟨j, hq⟩)
    · simp only [hc, Bool.false_eq_true, if_false]
      intro hm
      have hgate := canRun_gate t i app hg j hj q hq hm
      rcases hgate with hgate | hgate
      · exact absurd (List.contains_iff_mem.mpr hgate) hc
      · simp only [List.length_append, List.length_cons, List.length_nil]; omega

theorem budget_run (t : QTree) (ops : List CounterOp) (hw : TreeWF t) (hb : Budget t)
    (hg : gatedRun t ops = true) : Budget (ops.foldl cstep t) := by
  induction ops generalizing t with
  | nil => exact hb
  | cons op ops ih =>
    simp only [gatedRun, Bool.and_eq_true] at hg
    rw [List.foldl_cons]
    exact ih _ (cstep_wf t op hw) (budget_step t op hw hb hg.1) hg.2

/-- the forced path (recovery, `incRunningApps` without asking the gate) is what the clamp exists for: ungated it
    can break the budget while `RunningLeMax` still holds -/
theorem ungated_breaks_budget :
    ∃ t : QTree, TreeWF t ∧ Budget t ∧ ¬ Budget (cstep (cstep t (.setAllocating 0 "b")) (.incRun 0 "a")) := by
  refine ⟨[{ path := "root", parent := none, max := none, guaranteed := none, allocated := [], maxApps := 1,
             running := 0, allocating := [] }], by decide, ?_, ?_⟩
  · intro q hq hm
    simp only [List.mem_singleton] at hq
    subst hq; simp
  · intro h
    have := h _ (List.mem_singleton.mpr rfl) (by decide)
    revert this
    decide

end QTree
end Yk
