/- C09 / C06: the four-view reservation machine `RState`, the placeholder counters `PhData`, the swap guard. -/
import YkModel.Reserve
import YkProofs.Res
namespace Yk
open Res RState

/-! ### list helpers -/

theorem r_nodup_map_filter {α β : Type} (f : α → β) (p : α → Bool) {l : List α} (h : (l.map f).Nodup) :
    ((l.filter p).map f).Nodup :=
  h.sublist (List.Sublist.map f List.filter_sublist)

theorem r_nodup_of_map {α β : Type} (f : α → β) {l : List α} (h : (l.map f).Nodup) : l.Nodup := by
  induction l with
  | nil => exact List.nodup_nil
  | cons x t ih =>
    rw [List.map_cons, List.nodup_cons] at h
    rw [List.nodup_cons]
    exact ⟨fun hx => h.1 (List.mem_map.mpr ⟨x, hx, rfl⟩), ih h.2⟩

theorem r_eq_of_map_eq {α β : Type} (f : α → β) {l : List α} (h : (l.map f).Nodup) {x y : α}
    (hx : x ∈ l) (hy : y ∈ l) (hxy : f x = f y) : x = y := by
  induction l with
  | nil => cases hx
  | cons z t ih =>
    rw [List.map_cons, List.nodup_cons] at h
    rw [List.mem_cons] at hx hy
    rcases hx with rfl | hx <;> rcases hy with rfl | hy
    · rfl
    · exact absurd (List.mem_map.mpr ⟨y, hy, hxy.symm⟩) h.1
    · exact absurd (List.mem_map.mpr ⟨x, hx, hxy⟩) h.1
    · exact ih h.2 hx hy

theorem r_filter_ne_of_not_mem {α : Type} [BEq α] [LawfulBEq α] {l : List α} {x : α} (h : x ∉ l) :
    l.filter (fun y => y != x) = l := by
  rw [List.filter_eq_self]
  intro y hy
  simp only [bne_iff_ne, ne_eq]
  intro he; subst he; exact h hy

/-- removing the one occurrence of `x` from a duplicate-free list, counted through any further filter -/
theorem r_filter_ne_length {α : Type} [BEq α] [LawfulBEq α] (p : α → Bool) {l : List α} {x : α} (hn : l.Nodup) (hx : x ∈ l) :
    ((l.filter (fun y => y != x)).filter p).length + (if p x = true then 1 else 0) = (l.filter p).length := by
  induction l with
  | nil => cases hx
  | cons y t ih =>
    rw [List.nodup_cons] at hn
    by_cases hxy : y = x
    · subst hxy
      have : (y :: t).filter (fun z => z != y) = t := by
        rw [List.filter_cons]; simp [r_filter_ne_of_not_mem hn.1]
      rw [this, List.filter_cons]
      by_cases hp : p y = true <;> simp [hp]
    · have hxt : x ∈ t := by
        rcases List.mem_cons.mp hx with h | h
        · exact absurd h.symm hxy
        · exact h
      have ih' := ih hn.2 hxt
      have : (y :: t).filter (fun z => z != x) = y :: t.filter (fun z => z != x) := by
        rw [List.filter_cons]; simp [hxy]
      rw [this, List.filter_cons, List.filter_cons (xs := t)]
      by_cases hp : p y = true
      · simp only [hp, if_true, List.length_cons]; omega
      · simp only [hp]; exact ih'

theorem r_filter_ne_length' {α : Type} [BEq α] [LawfulBEq α] {l : List α} {x : α} (hn : l.Nodup) (hx : x ∈ l) :
    (l.filter (fun y => y != x)).length + 1 = l.length := by
  have := r_filter_ne_length (fun _ => true) hn hx
  have e : ∀ m : List α, m.filter (fun _ => true) = m := fun m => List.filter_eq_self.mpr (fun _ _ => rfl)
  rw [e, e] at this
  simpa using this

theorem r_lookup_filter_ne (q : List (String × Nat)) (a a' : String) (h : a' ≠ a) :
    (q.filter (fun x => x.1 != a)).lookup a' = q.lookup a' := by
  induction q with
  | nil => rfl
  | cons x t ih =>
    obtain ⟨b, n⟩ := x
    rw [List.filter_cons]
    by_cases hb : b = a
    · subst hb
      have : (a' == b) = false := by simp [h]
      simp [List.lookup_cons, this, ih]
    · have : ((b, n).1 != a) = true := by simp [hb]
      rw [this, if_pos rfl, List.lookup_cons, List.lookup_cons, ih]

theorem r_lookup_filter_self (q : List (String × Nat)) (a : String) :
    (q.filter (fun x => x.1 != a)).lookup a = none := by
  induction q with
  | nil => rfl
  | cons x t ih =>
    obtain ⟨b, n⟩ := x
    rw [List.filter_cons]
    by_cases hb : b = a
    · subst hb; simp [ih]
    · have : ((b, n).1 != a) = true := by simp [hb]
      have h2 : (a == b) = false := by simp; exact fun e => hb e.symm
      rw [this, if_pos rfl, List.lookup_cons, h2, ih]

namespace RState

theorem lookup_setQueue (s : RState) (a : String) (n : Nat) (a' : String) :
    ((s.setQueue a n).lookup a').getD 0 = if a' = a then n else s.queueCount a' := by
  unfold setQueue queueCount
  by_cases h : a' = a
  · subst h
    by_cases hn : n = 0
    · subst hn; simp [r_lookup_filter_self]
    · have : (n == 0) = false := by simp [hn]
      simp [this]
  · by_cases hn : n = 0
    · subst hn; simp [h, r_lookup_filter_ne _ _ _ h]
    · have : (n == 0) = false := by simp [hn]
      have h2 : (a' == a) = false := by simp [h]
      simp [this, List.lookup_cons, h2, h, r_lookup_filter_ne _ _ _ h]

theorem mem_setQueue (s : RState) (a : String) (n : Nat) (q : String × Nat) (h : q ∈ s.setQueue a n) :
    (q = (a, n) ∧ n ≠ 0) ∨ (q ∈ s.queue ∧ q.1 ≠ a) := by
  unfold setQueue at h
  have hf : q ∈ s.queue.filter (fun x => x.1 != a) → q ∈ s.queue ∧ q.1 ≠ a := by
    intro hq
    have := List.mem_filter.mp hq
    exact ⟨this.1, by simpa using this.2⟩
  by_cases hn : n = 0
  · subst hn
    simp only [beq_self_eq_true, if_true] at h
    exact Or.inr (hf h)
  · have : (n == 0) = false := by simp [hn]
    simp only [this, Bool.false_eq_true, if_false, List.mem_cons] at h
    rcases h with h | h
    · exact Or.inl ⟨h, hn⟩
    · exact Or.inr (hf h)

end RState

/-! ### the inductive invariant of the reservation machine -/

structure RInv (s : RState) : Prop where
  keys : (s.app.map (·.2.1)).Nodup
  node : ∀ n k, (n, k) ∈ s.node ↔ ∃ a, (a, k, n) ∈ s.app
  qcount : ∀ a, s.queueCount a = (s.app.filter (·.1 == a)).length
  qent : ∀ q ∈ s.queue, q.2 = (s.app.filter (·.1 == q.1)).length ∧ q.2 ≠ 0
  part : s.part = s.app.length
  excl : ∀ n, (s.nodeKeys n).length ≤ 1 ∨ ∀ k ∈ s.nodeKeys n, k ∈ s.required

theorem RInv.init : RInv {} :=
  ⟨List.nodup_nil, fun n k => ⟨fun h => (by cases h), fun ⟨_, h⟩ => (by cases h)⟩, fun _ => rfl,
   fun _ h => (by cases h), rfl, fun _ => Or.inl (Nat.zero_le _)⟩

namespace RState

theorem askReserved_false {s : RState} {key : String} (h : s.askReserved key = false) : key ∉ s.app.map (·.2.1) := by
  intro hm
  obtain ⟨x, hx, hk⟩ := List.mem_map.mp hm
  unfold askReserved at h
  rw [List.any_eq_false] at h
  exact h x hx (by simp [hk])

theorem nodeKeys_cons (s : RState) (node key n : String) (s' : RState) (hs : s'.node = (node, key) :: s.node) :
    s'.nodeKeys n = if node = n then key :: s.nodeKeys n else s.nodeKeys n := by
  unfold nodeKeys; rw [hs, List.filter_cons]
  by_cases h : node = n
  · subst h; simp
  · have : ((node, key).1 == n) = false := by simp [h]
    rw [this]; simp [h]

theorem nodeKeys_filter_sublist (s : RState) (p : String × String → Bool) (n : String) (s' : RState)
    (hs : s'.node = s.node.filter p) : List.Sublist (s'.nodeKeys n) (s.nodeKeys n) := by
  unfold nodeKeys; rw [hs]
  exact List.Sublist.map _ (List.Sublist.filter _ List.filter_sublist)

end RState

theorem reserve_inv (s : RState) (h : RInv s) (a key node : String) : RInv (s.reserve a key node) := by
  unfold reserve
  split
  · exact h
  · rename_i hc
    have hc1 : s.askReserved key = false := by
      cases h1 : s.askReserved key with
      | false => rfl
      | true => exact absurd (by simp [h1]) hc
    have hc2 : s.nodeAccepts node key = true := by
      cases h2 : s.nodeAccepts node key with
      | true => rfl
      | false => exact absurd (by simp [h2]) hc
    have hk := askReserved_false hc1
    refine ⟨?_, ?_, ?_, ?_, ?_, ?_⟩
    · show (((a, key, node) :: s.app).map (·.2.1)).Nodup
      rw [List.map_cons, List.nodup_cons]; exact ⟨hk, h.keys⟩
    · intro n k
      show (n, k) ∈ (node, key) :: s.node ↔ ∃ a', (a', k, n) ∈ (a, key, node) :: s.app
      rw [List.mem_cons, h.node]
      constructor
      · rintro (he | ⟨a', ha'⟩)
        · injection he with h1 h2; subst h1; subst h2; exact ⟨a, List.mem_cons_self⟩
        · exact ⟨a', List.mem_cons_of_mem _ ha'⟩
      · rintro ⟨a', ha'⟩
        rcases List.mem_cons.mp ha' with he | hm
        · injection he with h0 he; injection he with h1 h2; subst h1; subst h2; exact Or.inl rfl
        · exact Or.inr ⟨a', hm⟩
    · intro a'
      show ((s.setQueue a (s.queueCount a + 1)).lookup a').getD 0 = (((a, key, node) :: s.app).filter (·.1 == a')).length
      rw [lookup_setQueue, List.filter_cons]
      by_cases he : a' = a
      · subst he; simp [h.qcount]
      · have : ((a, key, node).1 == a') = false := by simp; exact fun e => he e.symm
        rw [this]; simp [he, h.qcount]
    · intro q hq
      show q.2 = (((a, key, node) :: s.app).filter (·.1 == q.1)).length ∧ q.2 ≠ 0
      have hq' : q ∈ s.setQueue a (s.queueCount a + 1) := hq
      rcases mem_setQueue s a _ q hq' with ⟨he, hn⟩ | ⟨hm, hne⟩
      · subst he; simp [h.qcount]
      · have : ((a, key, node).1 == q.1) = false := by simp; exact fun e => hne e.symm
        rw [List.filter_cons, this]; exact h.qent q hm
    · show s.part + 1 = ((a, key, node) :: s.app).length
      rw [List.length_cons, h.part]
    · intro n
      have hnk := nodeKeys_cons s node key n
        { s with app := (a, key, node) :: s.app, node := (node, key) :: s.node,
                 queue := s.setQueue a (s.queueCount a + 1), part := s.part + 1 } rfl
      rw [hnk]
      show _ ∨ ∀ k ∈ _, k ∈ s.required
      by_cases hn : node = n
      · subst hn
        simp only [if_true]
        unfold nodeAccepts at hc2
        by_cases hr : s.required.contains key = true
        · simp only [hr, if_true] at hc2
          right
          intro k hk'
          rcases List.mem_cons.mp hk' with rfl | hk'
          · simpa using hr
          · have := List.all_eq_true.mp hc2 k hk'
            simpa using this
        · simp only [hr, Bool.false_eq_true, if_false] at hc2
          left
          have : s.nodeKeys node = [] := by simpa using hc2
          rw [this]; exact Nat.le_refl _
      · simp only [hn, if_false]; exact h.excl n

theorem unreserve_inv (s : RState) (h : RInv s) (a key node : String) : RInv (s.unreserve a key node) := by
  unfold unreserve
  split
  · exact h
  · rename_i hc
    have hm : (a, key, node) ∈ s.app := by
      cases h1 : s.app.contains (a, key, node) with
      | true => simpa using h1
      | false => exact absurd (by rw [h1]; rfl) hc
    have hnd : s.app.Nodup := r_nodup_of_map _ h.keys
    have hcnt := fun a' => r_filter_ne_length (fun r : String × String × String => r.1 == a') hnd hm
    have hqa : s.queueCount a - 1 = ((s.app.filter (· != (a, key, node))).filter (·.1 == a)).length := by
      have := hcnt a; rw [h.qcount]; simp only [beq_self_eq_true, if_true] at this; omega
    have hqo : ∀ a', a' ≠ a →
        ((s.app.filter (· != (a, key, node))).filter (·.1 == a')).length = (s.app.filter (·.1 == a')).length := by
      intro a' hne
      have := hcnt a'
      have hb : ((a, key, node).1 == a') = false := by simp; exact fun e => hne e.symm
      rw [hb] at this; simpa using this
    refine ⟨?_, ?_, ?_, ?_, ?_, ?_⟩
    · show ((s.app.filter (· != (a, key, node))).map (·.2.1)).Nodup
      exact r_nodup_map_filter _ _ h.keys
    · intro n k
      show (n, k) ∈ s.node.filter (· != (node, key)) ↔ ∃ a', (a', k, n) ∈ s.app.filter (· != (a, key, node))
      rw [List.mem_filter, h.node]
      constructor
      · rintro ⟨⟨a', ha'⟩, hne⟩
        refine ⟨a', List.mem_filter.mpr ⟨ha', ?_⟩⟩
        simp only [bne_iff_ne, ne_eq] at hne ⊢
        intro he; apply hne
        injection he with h0 he; injection he with h1 h2; subst h1; subst h2; rfl
      · rintro ⟨a', ha'⟩
        have ha'' := List.mem_filter.mp ha'
        refine ⟨⟨a', ha''.1⟩, ?_⟩
        have hne := ha''.2
        simp only [bne_iff_ne, ne_eq] at hne ⊢
        intro he; apply hne
        injection he with h1 h2; subst h1; subst h2
        exact r_eq_of_map_eq (fun r : String × String × String => r.2.1) h.keys ha''.1 hm rfl
    · intro a'
      show ((s.setQueue a (s.queueCount a - 1)).lookup a').getD 0 = _
      rw [lookup_setQueue]
      by_cases he : a' = a
      · subst he; simp only [if_true]; exact hqa
      · simp only [he, if_false]; rw [h.qcount]; exact (hqo a' he).symm
    · intro q hq
      have hq' : q ∈ s.setQueue a (s.queueCount a - 1) := hq
      show q.2 = ((s.app.filter (· != (a, key, node))).filter (·.1 == q.1)).length ∧ q.2 ≠ 0
      rcases mem_setQueue s a _ q hq' with ⟨he, hn⟩ | ⟨hm', hne⟩
      · subst he; exact ⟨hqa, hn⟩
      · rw [hqo q.1 hne]; exact h.qent q hm'
    · show s.part - 1 = (s.app.filter (· != (a, key, node))).length
      have := r_filter_ne_length' hnd hm
      rw [h.part]; omega
    · intro n
      have hsub := nodeKeys_filter_sublist s (· != (node, key)) n
        { s with app := s.app.filter (· != (a, key, node)), node := s.node.filter (· != (node, key)),
                 queue := s.setQueue a (s.queueCount a - 1), part := s.part - 1 } rfl
      rcases h.excl n with hl | hr
      · exact Or.inl (Nat.le_trans hsub.length_le hl)
      · exact Or.inr (fun k hk => hr k (hsub.subset hk))

theorem step_inv (s : RState) (h : RInv s) (op : ROp) : RInv (s.step op) := by
  cases op with
  | reserve a k n => exact reserve_inv s h a k n
  | unreserve a k n => exact unreserve_inv s h a k n
  | markRequired k =>
    simp only [step]
    split
    · exact h
    · refine ⟨h.keys, h.node, h.qcount, h.qent, h.part, ?_⟩
      intro n
      rcases h.excl n with hl | hr
      · exact Or.inl hl
      · exact Or.inr (fun k' hk' => List.mem_cons_of_mem _ (hr k' hk'))

theorem run_inv (ops : List ROp) (s : RState) (h : RInv s) : RInv (ops.foldl RState.step s) := by
  induction ops generalizing s with
  | nil => exact h
  | cons op t ih => exact ih _ (step_inv s h op)

theorem RInv.consistent {s : RState} (h : RInv s) : s.consistent = true := by
  unfold RState.consistent
  simp only [Bool.and_eq_true]
  refine ⟨⟨⟨⟨?_, ?_⟩, ?_⟩, ?_⟩, ?_⟩
  · rw [List.all_eq_true]
    intro r hr
    obtain ⟨a, k, n⟩ := r
    rw [List.contains_eq_mem, decide_eq_true_eq]
    exact (h.node n k).mpr ⟨a, hr⟩
  · rw [List.all_eq_true]
    intro r hr
    obtain ⟨n, k⟩ := r
    obtain ⟨a, ha⟩ := (h.node n k).mp hr
    rw [List.any_eq_true]
    exact ⟨(a, k, n), ha, by simp⟩
  · rw [List.all_eq_true]
    intro r _
    rw [beq_iff_eq]; exact h.qcount r.1
  · rw [List.all_eq_true]
    intro q hq
    have := h.qent q hq
    rw [Bool.and_eq_true, beq_iff_eq, bne_iff_ne]; exact this
  · rw [beq_iff_eq]; exact h.part

/-! ### exported statements (YkProps/C09) -/

theorem rstate_consistent_run (ops : List ROp) : (ops.foldl RState.step {}).consistent = true :=
  (run_inv ops {} RInv.init).consistent

theorem rstate_ask_nodup (ops : List ROp) : ((ops.foldl RState.step {}).app.map (·.2.1)).Nodup :=
  (run_inv ops {} RInv.init).keys

theorem rstate_node_exclusive (ops : List ROp) (n : String) :
    ((ops.foldl RState.step {}).nodeKeys n).length ≤ 1 ∨
      ∀ k ∈ (ops.foldl RState.step {}).nodeKeys n, k ∈ (ops.foldl RState.step {}).required :=
  (run_inv ops {} RInv.init).excl n

theorem rstate_reserve_refused (s : RState) (a key node : String)
    (h : (s.nodeKeys node) ≠ []) (hk : key ∉ s.required) : s.reserve a key node = s := by
  unfold reserve
  have : s.nodeAccepts node key = false := by
    unfold nodeAccepts
    have hr : s.required.contains key = false := by simpa using hk
    simp only [hr, Bool.false_eq_true, if_false]
    simpa using h
  simp [this]

theorem unreserve_removes_gen (s0 : RState) (a key node : String) :
    (a, key, node) ∉ (s0.unreserve a key node).app ∧
      ((a, key, node) ∈ s0.app → (node, key) ∉ (s0.unreserve a key node).node) := by
  unfold unreserve
  split
  · rename_i hc
    have hm : (a, key, node) ∉ s0.app := by simpa using hc
    exact ⟨hm, fun h => absurd h hm⟩
  · constructor
    · intro hc; have := (List.mem_filter.mp hc).2; simp at this
    · intro _ hc; have := (List.mem_filter.mp hc).2; simp at this

/-- CORRECTED statement (the node clause needs the reservation to exist: see the report) -/
theorem rstate_unreserve_removes (ops : List ROp) (a key node : String) :
    let s := (ops.foldl RState.step {}).unreserve a key node
    (a, key, node) ∉ s.app ∧ ((a, key, node) ∈ (ops.foldl RState.step {}).app → (node, key) ∉ s.node) :=
  unreserve_removes_gen _ a key node

/-! ### placeholder counters (YkProps/C06) -/

def PhData.bal (d : PhData) : Prop :=
  d.replaced + d.timedOut + d.cancelled + d.pendingAsks + d.allocated = d.count

theorem PhData.step_bal (d : PhData) (h : d.bal) (op : PhOp) : (d.step op).bal := by
  unfold PhData.bal at h ⊢
  cases op with
  | ask => simp only [PhData.step]; omega
  | allocate =>
    simp only [PhData.step]
    by_cases h0 : d.pendingAsks = 0
    · simp only [h0, beq_self_eq_true, if_true]; omega
    · have : (d.pendingAsks == 0) = false := by simp [h0]
      simp only [this, Bool.false_eq_true, if_false]; omega
  | replaced =>
    simp only [PhData.step]
    by_cases h0 : d.allocated = 0
    · simp only [h0, beq_self_eq_true, if_true]; omega
    · have : (d.allocated == 0) = false := by simp [h0]
      simp only [this, Bool.false_eq_true, if_false]; omega
  | removed =>
    simp only [PhData.step]
    by_cases h0 : d.allocated = 0
    · simp only [h0, beq_self_eq_true, if_true]; omega
    · have : (d.allocated == 0) = false := by simp [h0]
      simp only [this, Bool.false_eq_true, if_false]; omega
  | askTimedOut =>
    simp only [PhData.step]
    by_cases h0 : d.pendingAsks = 0
    · simp only [h0, beq_self_eq_true, if_true]; omega
    · have : (d.pendingAsks == 0) = false := by simp [h0]
      simp only [this, Bool.false_eq_true, if_false]; omega
  | askCancelled =>
    simp only [PhData.step]
    by_cases h0 : d.pendingAsks = 0
    · simp only [h0, beq_self_eq_true, if_true]; omega
    · have : (d.pendingAsks == 0) = false := by simp [h0]
      simp only [this, Bool.false_eq_true, if_false]; omega

theorem PhData.run_bal (ops : List PhOp) (d : PhData) (h : d.bal) : (ops.foldl PhData.step d).bal := by
  induction ops generalizing d with
  | nil => exact h
  | cons op t ih => exact ih _ (PhData.step_bal d h op)

theorem phdata_balance (ops : List PhOp) :
    let d := ops.foldl PhData.step {}
    d.replaced + d.timedOut + d.cancelled + d.pendingAsks + d.allocated = d.count ∧ d.replaced ≤ d.count := by
  intro d
  have h : d.bal := PhData.run_bal ops {} rfl
  unfold PhData.bal at h
  exact ⟨h, by omega⟩

/-! ### the replacement-size guard (YkProps/C06) -/

theorem swap_guard_iff (ph real : Res) (hp : wf ph = true) (hr : wf real = true) :
    hasNegativeValue (some (subX ph real)) = false ↔ ∀ k, real.getD k ≤ ph.getD k := by
  have hd : wf (subX ph real) = true := by unfold subX; exact zipFold_wf _ ph real hp
  have hg := subX_getD ph real hr
  generalize subX ph real = d at hd hg
  unfold hasNegativeValue
  simp only [List.any_eq_false, decide_eq_true_eq]
  constructor
  · intro h k
    have hk := hg k
    cases hget : get? d k with
    | none =>
      have : getD d k = 0 := by rw [getD_eq_get?, hget]; rfl
      omega
    | some v =>
      have hv : getD d k = v := by rw [getD_eq_get?, hget]; rfl
      have := h (k, v) (mem_of_get? hget)
      simp only at this
      omega
  · intro h p hpm
    obtain ⟨k, v⟩ := p
    have hget := get?_of_mem hd hpm
    have hv : getD d k = v := by rw [getD_eq_get?, hget]; rfl
    have := hg k
    have := h k
    simp only
    omega

end Yk
