/-
  `Linked` (I8 of C03) is preserved by the two whole-application operations `releaseApp` (partition.removeAllocation
  with an empty key) and `appRemove` (partition.removeApplication).  The released application lists no bound item
  afterwards; every other live application keeps its bound items and each of them keeps its node entry: the entries
  `rmFromNodes` filters out carry the key of a bound item of the RELEASED application on that node, and two live
  applications cannot both list the same key on the same node (`linked_same_app`).
-/
import YkProofs.Core2Link
namespace Yk
open Res Core

/-! ### `OnNode` on the node list -/

/-- `OnNode` phrased on the node list -/
def OnNodeL (nodes : List CNode) (app : String) (i : CItem) : Prop :=
  ∃ n, nodes.find? (·.id == i.node) = some n ∧ ∃ x ∈ n.allocs, x.key = i.key ∧ x.app = app ∧ x.foreign = false ∧
    ∀ k, x.res.getD k = i.res.getD k

theorem onNode_iff (s : Core) (app : String) (i : CItem) : OnNode s app i ↔ OnNodeL s.nodes app i := Iff.rfl

/-- the lookup by id commutes with a map that keeps the ids -/
theorem find?_map_id (nodes : List CNode) (g : CNode → CNode) (hg : ∀ n, (g n).id = n.id) (id : String) :
    (nodes.map g).find? (·.id == id) = (nodes.find? (·.id == id)).map g := by
  induction nodes with
  | nil => rfl
  | cons n t ih =>
    simp only [List.map_cons, List.find?_cons, hg n]
    cases hm : (n.id == id) with
    | true => rfl
    | false => exact ih

/-- an id-preserving map of the node list that keeps the entry of the allocation keeps it "on its node" -/
theorem OnNodeL.map {nodes : List CNode} {app : String} {j : CItem} (g : CNode → CNode) (hg : ∀ n, (g n).id = n.id)
    (h : OnNodeL nodes app j)
    (hkeep : ∀ n, n.id = j.node → ∀ x ∈ n.allocs, x.key = j.key → x ∈ (g n).allocs) : OnNodeL (nodes.map g) app j := by
  obtain ⟨n, hn, x, hx, hxk, rest⟩ := h
  have hid : n.id = j.node := by simpa using List.find?_some hn
  exact ⟨g n, by rw [find?_map_id nodes g hg, hn]; rfl, x, hkeep n hid x hx hxk, hxk, rest⟩

/-- node.RemoveAllocation of another allocation (another node, or another key on the same node) -/
theorem OnNodeL.rm_step {nodes : List CNode} {app : String} {j : CItem} (i : CItem) (h : OnNodeL nodes app j)
    (hne : i.node = j.node → i.key ≠ j.key) : OnNodeL (updNs nodes i.node (nodeRm i.key i.res)) app j := by
  refine h.map _ (fun n => ?_) ?_
  · by_cases hd : (n.id == i.node) = true
    · rw [if_pos hd]; rfl
    · rw [if_neg hd]
  · intro n hid x hx hxk
    by_cases hd : (n.id == i.node) = true
    · rw [if_pos hd]
      have hnode : i.node = j.node := by
        have : n.id = i.node := by simpa using hd
        rw [← this, hid]
      have hk := hne hnode
      show x ∈ n.allocs.filter (fun y => y.key != i.key)
      refine List.mem_filter.mpr ⟨hx, ?_⟩
      rw [hxk]
      simpa using fun e => hk e.symm
    · rw [if_neg hd]; exact hx

/-- … of a list of allocations none of which is the allocation `j` on its node -/
theorem OnNodeL.rmNs {app : String} {j : CItem} (l : List CItem) : ∀ (nodes : List CNode), OnNodeL nodes app j →
    (∀ i ∈ l, i.node = j.node → i.key ≠ j.key) → OnNodeL (rmNs nodes l) app j := by
  induction l with
  | nil => intro nodes h _; exact h
  | cons i t ih =>
    intro nodes h hne
    rw [rmNs_cons]
    exact ih _ (h.rm_step i (hne i List.mem_cons_self)) (fun i' hi' => hne i' (List.mem_cons_of_mem _ hi'))

/-- the reservation bookkeeping does not touch the entries of the nodes -/
theorem OnNodeL.unreserveApp {c : Core} {app : String} {j : CItem} (a : CApp) (b : Bool) (h : OnNodeL c.nodes app j) :
    OnNodeL (unreserveApp c a b).nodes app j := by
  unfold Core.unreserveApp
  split
  · exact h
  · exact h.map _ (fun _ => rfl) (fun n _ x hx _ => hx)

theorem unreserveApp_apps (c : Core) (a : CApp) (b : Bool) : (unreserveApp c a b).apps = c.apps := by
  unfold unreserveApp
  split <;> rfl

/-! ### the entries of the other applications survive -/

/-- A bound item `j` of a live application other than `app` stays on its node when the allocations of `app` leave the
    nodes. -/
theorem onNodeL_rm_other {s : Core} (hw : CoreWF s) (hL : Linked s) {app : String} {a : CApp}
    (hfind : s.findApp app = some a) {b : CApp} (hb : b ∈ s.apps) (hbl : b.live = true)
    (hne : ¬ (b.live && b.id == app) = true) {j : CItem} (hj : j ∈ b.items) (hjb : j.bound = true) :
    OnNodeL (rmNs s.nodes (onNodes s a.items)) b.id j := by
  obtain ⟨ham, hl, hid⟩ := findApp_some hfind
  have hOj : OnNode s b.id j := hL b hb hbl j hj hjb
  refine OnNodeL.rmNs _ s.nodes hOj ?_
  intro i hi hnode hkey
  unfold onNodes at hi
  obtain ⟨him, hc⟩ := List.mem_filter.mp hi
  have hib : i.bound = true := by
    simp only [Bool.and_eq_true] at hc
    exact hc.1
  have hOi : OnNode s a.id i := hL a ham hl i him hib
  have : a.id = b.id := linked_same_app hw hOi hOj hnode hkey
  apply hne
  rw [hbl, ← this, hid]
  simp

/-! ### `releaseApp` -/

/-- partition.removeAllocation(app, "", tt) keeps every listed allocation on its node -/
theorem linked_releaseApp {s : Core} (tt : TermType) (app : String) (hw : CoreWF s) (_hb : Books s) (hL : Linked s) :
    Linked (s.releaseApp tt app) := by
  cases hfind : s.findApp app with
  | none =>
    have : s.releaseApp tt app = s := by unfold releaseApp; simp only [hfind]
    rw [this]; exact hL
  | some a =>
    obtain ⟨ham, hl, hid⟩ := findApp_some hfind
    obtain ⟨e1, _, e3⟩ := releaseApp_lists s tt app a hfind
    obtain ⟨hta, htn, _⟩ := releaseAppCore_lists s tt app a
    have ea : (s.releaseApp tt app).apps = updApps s.apps app (fun _ => relAll2 tt a) := by
      rw [e1]
      split
      · rw [unreserveApp_apps, hta]
      · exact hta
    intro b hbm hbl j hj hjb
    rw [ea] at hbm
    rcases mem_updApps hw.appIds ham hl hid hbm with rfl | ⟨hbs, hne⟩
    · exfalso
      rw [relAll2_items] at hj
      split at hj
      · cases hj
      · rw [(mem_unboundAll hj).1] at hjb; cases hjb
    · have h1 := onNodeL_rm_other hw hL hfind hbs hbl hne hj hjb
      rw [onNode_iff, e3]
      split
      · apply OnNodeL.unreserveApp
        rw [htn]; exact h1
      · rw [htn]; exact h1

/-! ### `appRemove` -/

/-- partition.removeApplication keeps every listed allocation of the other applications on its node -/
theorem linked_appRemove {s : Core} (app : String) (hw : CoreWF s) (_hb : Books s) (hL : Linked s) :
    Linked (s.appRemove app) := by
  cases hfind : s.findApp app with
  | none =>
    have : s.appRemove app = s := by unfold appRemove; simp only [hfind]
    rw [this]; exact hL
  | some a =>
    obtain ⟨e1, _, e3⟩ := appRemove_lists s app a hfind
    obtain ⟨hta, htn, _⟩ := appRemoveCore_lists s app a
    intro b hbm hbl j hj hjb
    rw [e1, unreserveApp_apps, hta] at hbm
    obtain ⟨hbs, hc⟩ := List.mem_filter.mp hbm
    have hne : ¬ (b.live && b.id == app) = true := by
      intro h; rw [h] at hc; simp at hc
    have h1 := onNodeL_rm_other hw hL hfind hbs hbl hne hj hjb
    rw [onNode_iff, e3]
    apply OnNodeL.unreserveApp
    rw [htn]; exact h1

end Yk
