/- A second configuration: under hypotheses that exclude the mechanisms of the known findings, the limits in force after
   the reload are those of the new configuration (YkProps/C05 limits_follow_config_reload_partial). -/
import YkProofs.UgmGLoad
namespace Yk.Ugm
open Yk Yk.Res Yk.QTree

/-! ### tracker trees: allowed limits, frame lemmas -/

/-- every tracker of the tree holds a limit that `sv` allows for its queue -/
def QA (t : Tree) (sv : Path → Triple → Prop) : Prop := ∀ p n, aget t p = some n → sv p (triple n)

theorem QA_mono {t : Tree} {sv sv' : Path → Triple → Prop} (h : QA t sv) (hi : ∀ p τ, sv p τ → sv' p τ) : QA t sv' :=
  fun p n hn => hi _ _ (h p n hn)

theorem QA_ensurePath {t : Tree} {sv : Path → Triple → Prop} (h : QA t sv) (w : List (Path × Limit)) (b : Bool) (q : Path)
    (hn : ∀ p ∈ prefixes q, sv p (triple (newNode w b p))) : QA (ensurePath w b t q) sv := by
  intro p n hpn
  rw [aget_ensurePath] at hpn
  cases hh : aget t p with
  | some n0 => rw [hh] at hpn; cases hpn; exact h p _ hh
  | none =>
    rw [hh] at hpn
    by_cases hm : p ∈ prefixes q
    · simp only [hm, if_true, Option.some.injEq] at hpn; subst hpn; exact hn p hm
    · simp [hm] at hpn

theorem QA_setLimit {t : Tree} {sv : Path → Triple → Prop} (h : QA t sv) (w : List (Path × Limit)) (b : Bool) (q : Path)
    (mr : ORes) (ma : Nat) (uw ck : Bool)
    (hn : ∀ p ∈ prefixes q, sv p (triple (newNode w b p))) (hs : sv q (mr, ma, uw)) :
    QA (setLimit w b t q mr ma uw ck) sv := by
  have h1 := QA_ensurePath h w b q hn
  intro p n hpn
  unfold setLimit at hpn
  rw [aget_amod] at hpn
  by_cases e : q = p
  · subst e
    simp only [if_true] at hpn
    cases hh : aget (ensurePath w b t q) q with
    | none => rw [hh] at hpn; cases hpn
    | some n0 =>
      rw [hh] at hpn
      simp only [Option.map_some, Option.some.injEq] at hpn
      subst hpn
      split
      · exact h1 q n0 hh
      · exact hs
  · simp only [e, if_false] at hpn; exact h1 p n hpn

/-- unlink is the filter, possibly followed by the removal of the end queue -/
theorem unlink_cases (t : Tree) (q : Path) :
    unlink t q = t.filter (fun e => !(q.isPrefixOf e.1 && decide (q.length < e.1.length) && subtreeNoApps t e.1)) ∨
    unlink t q = adel (t.filter (fun e => !(q.isPrefixOf e.1 && decide (q.length < e.1.length) && subtreeNoApps t e.1))) q := by
  unfold unlink
  simp only
  generalize t.filter (fun e => !(q.isPrefixOf e.1 && decide (q.length < e.1.length) && subtreeNoApps t e.1)) = t1
  generalize (decide (1 < q.length) && (match aget t1 q with | some n => n.apps.isEmpty && !hasChild t1 q | none => false)) = c
  cases c
  · left; rfl
  · right; rfl

theorem keysNodup_unlink {t : Tree} (h : KeysNodup t) (q : Path) : KeysNodup (unlink t q) := by
  rcases unlink_cases t q with hc | hc
  · rw [hc]; exact keysNodup_filter h _
  · rw [hc]; exact keysNodup_adel (keysNodup_filter h _) _

/-- unlinking only removes trackers -/
theorem aget_unlink_sub {t : Tree} (hk : KeysNodup t) {p q : Path} {n : Node} (h : aget (unlink t q) p = some n) : aget t p = some n := by
  have hf : ∀ f : Path × Node → Bool, aget (t.filter f) p = some n → aget t p = some n := by
    intro f hx
    rw [aget_filter hk] at hx
    cases hh : aget t p with
    | none => rw [hh] at hx; cases hx
    | some n0 =>
      rw [hh] at hx; simp only at hx
      split at hx
      · exact hx
      · cases hx
  rcases unlink_cases t q with hc | hc
  · rw [hc] at h; exact hf _ h
  · rw [hc, aget_adel] at h
    by_cases e : q = p
    · simp [e] at h
    · simp only [e, if_false] at h; exact hf _ h

theorem QA_unlink {t : Tree} {sv : Path → Triple → Prop} (h : QA t sv) (hk : KeysNodup t) (q : Path) : QA (unlink t q) sv :=
  fun p n hn => h p n (aget_unlink_sub hk hn)

theorem keysNodup_setLimit {t : Tree} (h : KeysNodup t) (w : List (Path × Limit)) (b : Bool) (q : Path) (mr : ORes) (ma : Nat) (uw ck : Bool) :
    KeysNodup (setLimit w b t q mr ma uw ck) := by
  unfold setLimit KeysNodup; rw [keys_amod]; exact keysNodup_ensurePath w b t q h

theorem keysNodup_newTree (w : List (Path × Limit)) (b : Bool) : KeysNodup (newTree w b) := by
  unfold KeysNodup keys newTree; simp

theorem aget_newTree (w : List (Path × Limit)) (b : Bool) (p : Path) :
    aget (newTree w b) p = if rootPath = p then some (newNode w b rootPath) else none := by
  unfold newTree; rw [aget_cons, aget_nil]

/-- a limit change on another queue leaves an existing tracker alone -/
theorem aget_setLimit_other {t : Tree} {p q : Path} {n : Node} (w : List (Path × Limit)) (b : Bool) (mr : ORes) (ma : Nat) (uw ck : Bool)
    (hne : q ≠ p) (hex : aget t p = some n) : aget (setLimit w b t q mr ma uw ck) p = some n := by
  unfold setLimit
  rw [aget_amod, aget_ensurePath, hex]; simp [hne]

theorem ahas_setLimit_mono {t : Tree} {p : Path} (w : List (Path × Limit)) (b : Bool) (q : Path) (mr : ORes) (ma : Nat) (uw ck : Bool)
    (h : ahas t p = true) : ahas (setLimit w b t q mr ma uw ck) p = true := by
  rw [setLimit_ahas]; exact ensurePath_ahas_mono w b t q p h

/-- an unconditional limit change: the tracker of the queue exists afterwards and holds the limit -/
theorem aget_setLimit_self (t : Tree) (w : List (Path × Limit)) (b : Bool) {q : Path} (hq : q ≠ []) (mr : ORes) (ma : Nat) (uw : Bool) :
    ∃ n, aget (setLimit w b t q mr ma uw false) q = some n ∧ triple n = (mr, ma, uw) := by
  obtain ⟨n0, hn0⟩ := ensurePath_has w b t q q (mem_prefixes_self hq)
  refine ⟨{ n0 with maxRes := mr, maxApps := ma, wild := uw }, ?_, rfl⟩
  unfold setLimit
  rw [aget_amod, hn0]; simp

/-- a conditional (wildcard-only) change: the tracker exists afterwards; it is not a wildcard tracker unless it took the new value -/
theorem aget_setLimit_check (t : Tree) (w : List (Path × Limit)) (b : Bool) {q : Path} (hq : q ≠ []) (mr : ORes) (ma : Nat) (uw : Bool) :
    ∃ n, aget (setLimit w b t q mr ma uw true) q = some n ∧
      (triple n = (mr, ma, uw) ∨ (n.wild = false ∧ ∃ n0, aget (ensurePath w b t q) q = some n0 ∧ n = n0)) := by
  obtain ⟨n0, hn0⟩ := ensurePath_has w b t q q (mem_prefixes_self hq)
  unfold setLimit
  rw [aget_amod, hn0]
  simp only [if_true, Option.map_some, Bool.true_and]
  by_cases hw : n0.wild = true
  · refine ⟨{ n0 with maxRes := mr, maxApps := ma, wild := uw }, ?_, Or.inl rfl⟩
    simp [hw]
  · have hw' : n0.wild = false := by simpa using hw
    refine ⟨n0, ?_, Or.inr ⟨hw', n0, rfl, rfl⟩⟩
    simp [hw']

theorem aget_filter_keep {t : Tree} {p : Path} {n : Node} (f : Path × Node → Bool) (h : aget t p = some n) (hf : f (p, n) = true) :
    aget (t.filter f) p = some n := by
  induction t with
  | nil => cases h
  | cons a t ih =>
    obtain ⟨a1, a2⟩ := a
    by_cases hk : a1 = p
    · subst hk
      simp only [aget, if_true, Option.some.injEq] at h
      subst h
      simp [List.filter, hf, aget]
    · simp only [aget, hk, if_false] at h
      by_cases hfa : f (a1, a2) = true
      · simp only [List.filter, hfa, aget, hk, if_false]; exact ih h
      · simp only [List.filter, hfa]; exact ih h

theorem isPrefixOf_refl (p : Path) : p.isPrefixOf p = true := isPrefixOf_self p

/-- unlinking queue `pd` keeps every tracker that is not below `pd` -/
theorem aget_unlink_keep {t : Tree} {p pd : Path} {n : Node} (h : aget t p = some n) (hp : pd.isPrefixOf p = false) :
    aget (unlink t pd) p = some n := by
  have hne : pd ≠ p := by intro e; subst e; rw [isPrefixOf_refl] at hp; cases hp
  have h1 := aget_filter_keep (fun e => !(pd.isPrefixOf e.1 && decide (pd.length < e.1.length) && subtreeNoApps t e.1)) h (by simp [hp])
  rcases unlink_cases t pd with hc | hc
  · rw [hc]; exact h1
  · rw [hc, aget_adel, if_neg hne]; exact h1

theorem mem_prefixesFrom_prefix : ∀ (rest : List String) (pre p : Path), p ∈ prefixesFrom pre rest → p <+: pre ++ rest := by
  intro rest
  induction rest with
  | nil => intro pre p h; simp [prefixesFrom] at h
  | cons c rest ih =>
    intro pre p h
    simp only [prefixesFrom, List.mem_cons] at h
    have e : pre ++ c :: rest = (pre ++ [c]) ++ rest := by simp
    rcases h with h | h
    · subst h; rw [e]; exact List.prefix_append _ _
    · rw [e]; exact ih _ _ h

theorem mem_prefixes_isPrefixOf {p p' : Path} (h : p' ∈ prefixes p) : p'.isPrefixOf p = true := by
  have := mem_prefixesFrom_prefix p [] p' h
  simp only [List.nil_append] at this
  exact List.isPrefixOf_iff_prefix.mpr this

theorem isPrefixOf_trans {a b c : Path} (h1 : a.isPrefixOf b = true) (h2 : b.isPrefixOf c = true) : a.isPrefixOf c = true :=
  List.isPrefixOf_iff_prefix.mpr ((List.isPrefixOf_iff_prefix.mp h1).trans (List.isPrefixOf_iff_prefix.mp h2))

/-- a queue that is not below `pd` has no ancestor below `pd` -/
theorem not_below_of_prefix {pd p p' : Path} (h : pd.isPrefixOf p = false) (hp : p' ∈ prefixes p) : pd.isPrefixOf p' = false := by
  cases hh : pd.isPrefixOf p' with
  | false => rfl
  | true => rw [isPrefixOf_trans hh (mem_prefixes_isPrefixOf hp)] at h; cases h

theorem mem_prefixesFrom_of_split : ∀ (a : List String) (pre : Path) (b : List String), a ≠ [] → pre ++ a ∈ prefixesFrom pre (a ++ b) := by
  intro a
  induction a with
  | nil => intro pre b h; exact absurd rfl h
  | cons c a ih =>
    intro pre b _
    simp only [List.cons_append, prefixesFrom]
    by_cases ha : a = []
    · subst ha; exact List.mem_cons_self
    · have := ih (pre ++ [c]) b ha
      rw [List.append_assoc] at this
      exact List.mem_cons_of_mem _ this

theorem mem_prefixes_iff {p p' : Path} : p' ∈ prefixes p ↔ p' ≠ [] ∧ p' <+: p := by
  constructor
  · intro h
    refine ⟨?_, ?_⟩
    · intro e; have := mem_prefixesFrom_length _ _ _ h; rw [e] at this; simp at this
    · have := mem_prefixesFrom_prefix p [] p' h; simpa using this
  · intro ⟨hne, b, hb⟩
    have := mem_prefixesFrom_of_split p' [] b hne
    rw [hb] at this
    simpa [prefixes] using this

theorem mem_prefixes_trans {p p1 p' : Path} (h1 : p1 ∈ prefixes p) (h2 : p' ∈ prefixes p1) : p' ∈ prefixes p := by
  rw [mem_prefixes_iff] at *
  exact ⟨h2.1, h2.2.trans h1.2⟩

theorem prefixes_rootPath : prefixes rootPath = [rootPath] := rfl

/-! ### one side (users, or groups) of the manager through internalProcessConfig -/

def WildT (w : List (Path × Limit)) (p : Path) (τ : Triple) : Prop := ∃ lw, aget w p = some lw ∧ τ = t3w lw
def NamedT (L : List (Path × List (String × Limit))) (p : Path) (x : String) (τ : Triple) : Prop := ∃ lc, aget2 L p x = some lc ∧ τ = t3 lc
/-- a limit the OLD configuration explains: none, the wildcard limit of the queue, the limit the name had there -/
def OldT (w : List (Path × Limit)) (Lold : List (Path × List (String × Limit))) (x : String) (p : Path) (τ : Triple) : Prop :=
  τ = dflt ∨ WildT w p τ ∨ NamedT Lold p x τ

theorem newNode_triple (w : List (Path × Limit)) (b : Bool) (p : Path) :
    triple (newNode w b p) = dflt ∨ WildT w p (triple (newNode w b p)) := by
  unfold newNode
  cases b with
  | false => left; rfl
  | true =>
    simp only [if_true]
    cases h : aget w p with
    | none => left; rfl
    | some l => right; exact ⟨l, h, rfl⟩

/-- the old configuration names `x` on queue `p` -/
def InOld (Lold : List (Path × List (String × Limit))) (p : Path) (x : String) : Prop := ∃ us l, (p, us) ∈ Lold ∧ (x, l) ∈ us

/-- the trackers `T` of one side while the new configuration is parsed into `Lnew` -/
structure Side (w : List (Path × Limit)) (b : Bool) (Lold : List (Path × List (String × Limit))) (T : String → Option Tree)
    (Lnew : List (Path × List (String × Limit))) : Prop where
  nd : ∀ x t, T x = some t → KeysNodup t
  allow : ∀ x t, T x = some t → QA t (fun p τ => (aget2 Lnew p x).isSome = true ∨ OldT w Lold x p τ)
  exact : ∀ x p lc, aget2 Lnew p x = some lc → ∃ t n, T x = some t ∧ aget t p = some n ∧ triple n = t3 lc ∧ ∀ p' ∈ prefixes p, ahas t p' = true
  pre : ∀ x t p, T x = some t → InOld Lold p x → ahas t p = true → ∀ p' ∈ prefixes p, ahas t p' = true
  ne : ∀ x t, T x = some t → ahas t [] = false

theorem Side_congr {w : List (Path × Limit)} {b : Bool} {Lold Lnew : List (Path × List (String × Limit))} {T T' : String → Option Tree}
    (h : Side w b Lold T Lnew) (e : ∀ x, T' x = T x) : Side w b Lold T' Lnew :=
  ⟨fun x t ht => h.nd x t (by rw [← e]; exact ht), fun x t ht => h.allow x t (by rw [← e]; exact ht),
   fun x p lc hl => by obtain ⟨t, n, h1, h2⟩ := h.exact x p lc hl; exact ⟨t, n, by rw [e]; exact h1, h2⟩,
   fun x t p ht => h.pre x t p (by rw [← e]; exact ht), fun x t ht => h.ne x t (by rw [← e]; exact ht)⟩

/-- setUserLimits / setGroupLimits of name `x` on queue `q`, as seen on the trackers of the side -/
theorem Side_set {w : List (Path × Limit)} {b : Bool} {Lold Lnew : List (Path × List (String × Limit))} {T : String → Option Tree}
    (h : Side w b Lold T Lnew) (x : String) {q : Path} (hq : q ≠ []) (lc : Limit) :
    Side w b Lold (fun x' => if x = x' then some (setLimit w b ((T x').getD (newTree w b)) q lc.maxRes lc.maxApps false false) else T x')
      (aset2 Lnew q x lc) := by
  have hmono : ∀ p x', (aget2 Lnew p x').isSome = true → (aget2 (aset2 Lnew q x lc) p x').isSome = true := by
    intro p x' hs; rw [aget2_aset2]; split
    · rfl
    · exact hs
  have hold0 : QA ((T x).getD (newTree w b)) (fun p τ => (aget2 Lnew p x).isSome = true ∨ OldT w Lold x p τ) := by
    cases hT : T x with
    | some t => exact h.allow x t hT
    | none =>
      intro p n hn
      simp only [Option.getD_none] at hn
      rw [aget_newTree] at hn
      by_cases e : rootPath = p
      · simp only [e, if_true, Option.some.injEq] at hn; subst hn; subst e
        right
        rcases newNode_triple w b rootPath with h1 | h1
        · exact Or.inl h1
        · exact Or.inr (Or.inl h1)
      · simp [e] at hn
  have hnd0 : KeysNodup ((T x).getD (newTree w b)) := by
    cases hT : T x with
    | some t => exact h.nd x t hT
    | none => exact keysNodup_newTree w b
  have hne0 : ahas ((T x).getD (newTree w b)) [] = false := by
    cases hT : T x with
    | some t => exact h.ne x t hT
    | none => simp only [Option.getD_none]; rw [ahas_eq, aget_newTree]; simp [rootPath]
  refine ⟨?_, ?_, ?_, ?_, ?_⟩
  · intro x' t ht
    by_cases e : x = x'
    · subst e; simp only [if_true, Option.some.injEq] at ht; subst ht; exact keysNodup_setLimit hnd0 _ _ _ _ _ _ _
    · simp only [e, if_false] at ht; exact h.nd x' t ht
  · intro x' t ht
    by_cases e : x = x'
    · subst e
      simp only [if_true, Option.some.injEq] at ht; subst ht
      apply QA_setLimit (QA_mono hold0 (fun p τ hs => hs.elim (fun a => Or.inl (hmono p x a)) Or.inr))
      · intro p _
        right
        rcases newNode_triple w b p with h1 | h1
        · exact Or.inl h1
        · exact Or.inr (Or.inl h1)
      · left; rw [aget2_aset2]; simp
    · simp only [e, if_false] at ht
      exact QA_mono (h.allow x' t ht) (fun p τ hs => hs.elim (fun a => Or.inl (hmono p x' a)) Or.inr)
  · intro x' p lc' hl
    rw [aget2_aset2] at hl
    by_cases e : q = p ∧ x = x'
    · obtain ⟨e1, e2⟩ := e
      subst e1; subst e2
      simp only [and_self, if_true, Option.some.injEq] at hl
      subst hl
      obtain ⟨n, hn, ht⟩ := aget_setLimit_self ((T x).getD (newTree w b)) w b hq lc.maxRes lc.maxApps false
      refine ⟨_, n, by simp, hn, ht, ?_⟩
      intro p' hp'
      rw [setLimit_ahas]
      obtain ⟨n', hn'⟩ := ensurePath_has w b ((T x).getD (newTree w b)) q p' hp'
      rw [ahas_eq, hn']; rfl
    · rw [if_neg e] at hl
      obtain ⟨t, n, h1, h2, h3, h4⟩ := h.exact x' p lc' hl
      by_cases ex : x = x'
      · subst ex
        have hqp : q ≠ p := fun x => e ⟨x, rfl⟩
        refine ⟨setLimit w b ((T x).getD (newTree w b)) q lc.maxRes lc.maxApps false false, n, by simp, ?_, h3, ?_⟩
        · rw [h1]; simp only [Option.getD_some]; exact aget_setLimit_other w b _ _ _ _ hqp h2
        · intro p' hp'; rw [h1]; simp only [Option.getD_some]; exact ahas_setLimit_mono w b q _ _ _ _ (h4 p' hp')
      · exact ⟨t, n, by simp [ex, h1], h2, h3, h4⟩
  · intro x' t p ht hs ha p' hp'
    by_cases e : x = x'
    · subst e
      simp only [if_true, Option.some.injEq] at ht; subst ht
      rw [setLimit_ahas] at ha ⊢
      rw [ahas_eq, aget_ensurePath] at ha
      cases hh : aget ((T x).getD (newTree w b)) p with
      | some n0 =>
        apply ensurePath_ahas_mono
        cases hT : T x with
        | some t0 =>
          rw [hT] at hh; simp only [Option.getD_some] at hh ⊢
          exact h.pre x t0 p hT hs (by rw [ahas_eq, hh]; rfl) p' hp'
        | none =>
          rw [hT] at hh; simp only [Option.getD_none] at hh ⊢
          rw [aget_newTree] at hh
          by_cases er : rootPath = p
          · subst er
            rw [prefixes_rootPath] at hp'; simp at hp'; subst hp'
            rw [ahas_eq, aget_newTree]; simp
          · simp [er] at hh
      | none =>
        rw [hh] at ha
        by_cases hm : p ∈ prefixes q
        · obtain ⟨n', hn'⟩ := ensurePath_has w b ((T x).getD (newTree w b)) q p' (mem_prefixes_trans hm hp')
          rw [ahas_eq, hn']; rfl
        · simp [hm] at ha
    · simp only [e, if_false] at ht; exact h.pre x' t p ht hs ha p' hp'
  · intro x' t ht
    by_cases e : x = x'
    · subst e
      simp only [if_true, Option.some.injEq] at ht; subst ht
      rw [setLimit_ahas, ahas_eq, aget_ensurePath]
      rw [ahas_eq] at hne0
      cases hh : aget ((T x).getD (newTree w b)) [] with
      | some n => rw [hh] at hne0; cases hne0
      | none =>
        have : ([] : Path) ∉ prefixes q := by rw [mem_prefixes_iff]; exact fun x => x.1 rfl
        simp [this]
    · simp only [e, if_false] at ht; exact h.ne x' t ht

end Yk.Ugm
