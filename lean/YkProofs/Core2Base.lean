/-
  Foundations for the proofs about the second part of the stepped Core model (YkModel/CoreOps2.lean):
  sums over mapped / filtered item lists, the per-object form of `CoreWF` and how it is carried through
  `updApp` / `updQueues` / `updNode`, and what the queue primitives (qDecAlloc, qDecPend, qIncPend, qLeave) do to a
  queue's totals, pointwise.
-/
import YkModel.CoreOps2
import YkProofs.Core
import YkProofs.ResArith
namespace Yk
open Res Core

/-! ### sums over mapped and filtered lists -/

section ListSums2
variable {α : Type}

/-- dropping elements that do not count leaves a conditional sum as it is -/
theorem sumIf_filter_irrel (l : List α) (d c : α → Bool) (w : α → Int)
    (h : ∀ x ∈ l, d x = false → c x = false) : sumIf (l.filter d) c w = sumIf l c w := by
  induction l with
  | nil => rfl
  | cons a t ih =>
    have iht := ih (fun x hx => h x (List.mem_cons_of_mem _ hx))
    rw [List.filter_cons]
    cases hd : d a with
    | true => simp only [if_true]; rw [sumIf_cons, sumIf_cons, iht]
    | false =>
      simp only [Bool.false_eq_true, if_false]
      rw [sumIf_cons, iht, h a List.mem_cons_self hd]; simp

theorem sumIf_map {β : Type} (l : List β) (g : β → α) (c : α → Bool) (w : α → Int) :
    sumIf (l.map g) c w = sumIf l (fun x => c (g x)) (fun x => w (g x)) := by
  induction l with
  | nil => rfl
  | cons a t ih => rw [List.map_cons, sumIf_cons, sumIf_cons, ih]

/-- a sum over a list all of whose elements fail the condition -/
theorem sumIf_none (l : List α) (c : α → Bool) (w : α → Int) (h : ∀ x ∈ l, c x = false) : sumIf l c w = 0 :=
  sumIf_zero l c w (fun x hx hc => by rw [h x hx] at hc; cases hc)

end ListSums2

/-! ### item lists -/

theorem updItem_eq (key : String) (g : CItem → CItem) (l : List CItem) :
    updItem key g l = l.map (fun x => if (x.key == key) = true then g x else x) := rfl

/-- an update that neither changes the size of an item nor whether it counts leaves the sum as it is -/
theorem itemSum_map_irrel (l : List CItem) (g : CItem → CItem) (c : CItem → Bool) (k : String)
    (h : ∀ x ∈ l, c (g x) = c x ∧ (g x).res = x.res) : itemSum (l.map g) c k = itemSum l c k := by
  unfold itemSum
  rw [sumIf_map]
  apply sumIf_congr
  intro x hx
  obtain ⟨h1, h2⟩ := h x hx
  rw [h1, h2]

theorem itemSum_updItem_irrel (l : List CItem) (key : String) (g : CItem → CItem) (c : CItem → Bool) (k : String)
    (h : ∀ x ∈ l, c (g x) = c x ∧ (g x).res = x.res) : itemSum (updItem key g l) c k = itemSum l c k := by
  rw [updItem_eq]
  apply itemSum_map_irrel
  intro x hx
  by_cases hk : (x.key == key) = true
  · rw [if_pos hk]; exact h x hx
  · rw [if_neg hk]; exact ⟨rfl, rfl⟩

/-- the (unique) item with key `key` is replaced by `g i` -/
theorem itemSum_updItem (l : List CItem) (hk : l.Pairwise (fun i j => i.key ≠ j.key)) (key : String) (g : CItem → CItem)
    (i : CItem) (hi : i ∈ l) (hkey : i.key = key) (c : CItem → Bool) (k : String) :
    itemSum (updItem key g l) c k =
      itemSum l c k - (if c i = true then i.res.getD k else 0) + (if c (g i) = true then (g i).res.getD k else 0) :=
  itemSum_upd l hk key g i hi hkey c k

/-- no item has the key: nothing changes -/
theorem updItem_none (l : List CItem) (key : String) (g : CItem → CItem) (h : ∀ x ∈ l, x.key ≠ key) : updItem key g l = l := by
  rw [updItem_eq]
  exact map_upd_none l (fun x => x.key == key) g (fun x hx => by simpa using h x hx)

theorem itemSum_filter_irrel (l : List CItem) (d c : CItem → Bool) (k : String)
    (h : ∀ x ∈ l, d x = false → c x = false) : itemSum (l.filter d) c k = itemSum l c k :=
  sumIf_filter_irrel l d c _ h

theorem updItem_key (key : String) (g : CItem → CItem) (hg : ∀ x, (g x).key = x.key) (x : CItem) :
    (if (x.key == key) = true then g x else x).key = x.key := by
  split
  · exact hg x
  · rfl

theorem pairwise_updItem (l : List CItem) (key : String) (g : CItem → CItem) (hg : ∀ x, (g x).key = x.key)
    (h : l.Pairwise (fun i j => i.key ≠ j.key)) : (updItem key g l).Pairwise (fun i j => i.key ≠ j.key) := by
  rw [updItem_eq, List.pairwise_map]
  refine List.Pairwise.imp ?_ h
  intro u v huv
  rw [updItem_key key g hg, updItem_key key g hg]; exact huv

/-- the members of an updated item list -/
theorem mem_updItem {l : List CItem} {key : String} {g : CItem → CItem} {y : CItem} (hy : y ∈ updItem key g l) :
    ∃ x ∈ l, (x.key = key ∧ y = g x) ∨ (x.key ≠ key ∧ y = x) := by
  rw [updItem_eq] at hy
  obtain ⟨x, hx, rfl⟩ := List.mem_map.mp hy
  refine ⟨x, hx, ?_⟩
  by_cases hk : (x.key == key) = true
  · rw [if_pos hk]; exact Or.inl ⟨by simpa using hk, rfl⟩
  · rw [if_neg hk]; exact Or.inr ⟨by simpa using hk, rfl⟩

theorem mem_updItem_of_ne {l : List CItem} {key : String} {g : CItem → CItem} {x : CItem} (hx : x ∈ l) (hk : x.key ≠ key) :
    x ∈ updItem key g l := by
  rw [updItem_eq]
  refine List.mem_map.mpr ⟨x, hx, ?_⟩
  have : ¬ (x.key == key) = true := by simpa using hk
  rw [if_neg this]

theorem mem_updItem_of_eq {l : List CItem} {key : String} {g : CItem → CItem} {x : CItem} (hx : x ∈ l) (hk : x.key = key) :
    g x ∈ updItem key g l := by
  rw [updItem_eq]
  refine List.mem_map.mpr ⟨x, hx, ?_⟩
  have : (x.key == key) = true := by simpa using hk
  rw [if_pos this]

theorem itemKeys_eq {l : List CItem} (hk : l.Pairwise (fun i j => i.key ≠ j.key)) {x y : CItem}
    (hx : x ∈ l) (hy : y ∈ l) (h : x.key = y.key) : x = y :=
  (itemKeys_atMostOne hk y.key).eq hx hy (by simp [h]) (by simp)

/-! ### `CoreWF`, object by object -/

/-- the part of `CoreWF` that speaks about one live application -/
structure AppWF (a : CApp) : Prop where
  itemKeys : a.items.Pairwise (fun i j => i.key ≠ j.key)
  appRes : wf a.pending = true ∧ wf a.allocated = true ∧ wf a.allocatedPh = true
  itemRes : ∀ i ∈ a.items, wf i.res = true ∧ NonNeg i.res
  boundAllocated : ∀ i ∈ a.items, i.bound = true → i.allocated = true

/-- … about one queue -/
structure QWF (q : CQueue) : Prop where
  allocated : wf q.allocated = true
  pending : wf q.pending = true
  inR : allInR q.pending

/-- … about one node -/
structure NWF (n : CNode) : Prop where
  allocKeys : n.allocs.Pairwise (fun x y => x.key ≠ y.key)
  nodeRes : wf n.total = true ∧ wf n.occupied = true ∧ wf n.allocated = true ∧ wf n.available = true
  allocRes : ∀ x ∈ n.allocs, wf x.res = true

theorem CoreWF.app {s : Core} (hw : CoreWF s) {a : CApp} (ha : a ∈ s.apps) (hl : a.live = true) : AppWF a :=
  ⟨hw.itemKeys a ha hl, hw.appRes a ha hl, hw.itemRes a ha hl, hw.boundAllocated a ha hl⟩

theorem CoreWF.queue {s : Core} (hw : CoreWF s) {q : CQueue} (hq : q ∈ s.queues) : QWF q :=
  let ⟨h1, h2, h3⟩ := hw.queueRes q hq; ⟨h1, h2, h3⟩

theorem CoreWF.node {s : Core} (hw : CoreWF s) {n : CNode} (hn : n ∈ s.nodes) : NWF n :=
  ⟨hw.allocKeys n hn, hw.nodeRes n hn, hw.allocRes n hn⟩

theorem CoreWF.of_parts {s : Core}
    (h1 : s.apps.Pairwise (fun a b => a.live = true → b.live = true → a.id ≠ b.id))
    (h2 : s.nodes.Pairwise (fun a b => a.id ≠ b.id))
    (h3 : ∀ a ∈ s.apps, a.live = true → AppWF a) (h4 : ∀ q ∈ s.queues, QWF q) (h5 : ∀ n ∈ s.nodes, NWF n) : CoreWF s :=
  ⟨h1, h2, fun a ha hl => (h3 a ha hl).itemKeys, fun n hn => (h5 n hn).allocKeys, fun a ha hl => (h3 a ha hl).appRes,
   fun a ha hl => (h3 a ha hl).itemRes, fun a ha hl => (h3 a ha hl).boundAllocated,
   fun q hq => ⟨(h4 q hq).allocated, (h4 q hq).pending, (h4 q hq).inR⟩, fun n hn => (h5 n hn).nodeRes, fun n hn => (h5 n hn).allocRes⟩

/-- `CoreWF` only looks at the three lists -/
theorem CoreWF.of_lists {s t : Core} (ha : t.apps = s.apps) (hq : t.queues = s.queues) (hn : t.nodes = s.nodes)
    (h : CoreWF s) : CoreWF t :=
  CoreWF.of_parts (by rw [ha]; exact h.appIds) (by rw [hn]; exact h.nodeIds)
    (by rw [ha]; exact fun a ha hl => h.app ha hl) (by rw [hq]; exact fun q hq => h.queue hq) (by rw [hn]; exact fun n hn => h.node hn)

/-- one live application is updated (it may leave the partition) -/
theorem wf_updApps (apps : List CApp) (id : String) (f : CApp → CApp) (a : CApp)
    (hu : apps.Pairwise (fun a b => a.live = true → b.live = true → a.id ≠ b.id))
    (ha : a ∈ apps) (hl : a.live = true) (hid : a.id = id)
    (hW : ∀ x ∈ apps, x.live = true → AppWF x)
    (hfid : ∀ x, (x.live && x.id == id) = true → (f x).id = x.id) (hfa : (f a).live = true → AppWF (f a)) :
    (updApps apps id f).Pairwise (fun a b => a.live = true → b.live = true → a.id ≠ b.id) ∧
    (∀ x ∈ updApps apps id f, x.live = true → AppWF x) := by
  constructor
  · exact pairwise_updApps apps id f hfid hu
  · intro x hx hxl
    rcases mem_updApps hu ha hl hid hx with rfl | ⟨hxs, _⟩
    · exact hfa hxl
    · exact hW x hxs hxl

/-- a constant update keeps the id when the new record has it -/
theorem const_id {id : String} {a' : CApp} (h : a'.id = id) :
    ∀ x : CApp, (x.live && x.id == id) = true → ((fun _ => a') x).id = x.id := by
  intro x hx
  simp only [Bool.and_eq_true, beq_iff_eq] at hx
  rw [hx.2]; exact h

theorem wf_updQs (queues : List CQueue) (chain : List String) (fq : CQueue → CQueue)
    (hW : ∀ q ∈ queues, QWF q) (h : ∀ q ∈ queues, chain.contains q.path = true → QWF (fq q)) :
    ∀ q ∈ updQs queues chain fq, QWF q := by
  intro q' hq'
  obtain ⟨q, hq, rfl⟩ := List.mem_map.mp hq'
  by_cases hc : chain.contains q.path = true
  · rw [if_pos hc]; exact h q hq hc
  · rw [if_neg hc]; exact hW q hq

theorem wf_updNs (nodes : List CNode) (id : String) (fn : CNode → CNode)
    (hu : nodes.Pairwise (fun a b => a.id ≠ b.id)) (hW : ∀ n ∈ nodes, NWF n)
    (hid : ∀ n, (fn n).id = n.id) (h : ∀ n ∈ nodes, n.id = id → NWF (fn n)) :
    (updNs nodes id fn).Pairwise (fun a b => a.id ≠ b.id) ∧ (∀ n ∈ updNs nodes id fn, NWF n) := by
  constructor
  · unfold updNs
    rw [List.pairwise_map]
    refine List.Pairwise.imp ?_ hu
    intro x y hxy
    have hids : ∀ z : CNode, (if (z.id == id) = true then fn z else z).id = z.id := by
      intro z; split
      · exact hid z
      · rfl
    rw [hids x, hids y]; exact hxy
  · intro n' hn'
    obtain ⟨n, hn, rfl⟩ := List.mem_map.mp hn'
    by_cases hd : (n.id == id) = true
    · rw [if_pos hd]; exact h n hn (by simpa using hd)
    · rw [if_neg hd]; exact hW n hn

/-! ### the queue primitives, pointwise -/

theorem goSubVal_inR' (a b : Int) : inR (goSubVal a b) := by
  unfold goSubVal
  simp only
  split
  · split
    · unfold inR minI maxI; omega
    · unfold inR minI maxI; omega
  · exact wrap64_inR _

theorem set_allInR (r : Res) (k : String) (v : Int) (hr : allInR r) (hv : inR v) : allInR (Res.set r k v) := by
  induction r with
  | nil => intro p hp; simp only [Res.set, List.mem_singleton] at hp; rw [hp]; exact hv
  | cons q t ih =>
    obtain ⟨a, b⟩ := q
    unfold Res.set
    split
    · intro p hp
      rcases List.mem_cons.mp hp with h | h
      · rw [h]; exact hv
      · exact hr p (List.mem_cons_of_mem _ h)
    · intro p hp
      rcases List.mem_cons.mp hp with h | h
      · rw [h]; exact hr (a, b) List.mem_cons_self
      · exact ih (fun q hq => hr q (List.mem_cons_of_mem _ hq)) p h

theorem prune_allInR (r : Res) (hr : allInR r) : allInR (prune r) :=
  fun p hp => hr p (List.mem_filter.mp hp).1

theorem decPendingRes_allInR (pending delta : Res) (hr : allInR pending) : allInR (decPendingRes pending delta) := by
  have key : ∀ (d : Res) (acc : Res × List String), allInR acc.1 →
      allInR ((d.foldl (fun (acc : Res × List String) p =>
        let v := goSubVal (acc.1.getD p.1) p.2
        if v < 0 then (acc.1.set p.1 0, acc.2 ++ [p.1]) else (acc.1.set p.1 v, acc.2)) acc).1) := by
    intro d
    induction d with
    | nil => intro acc h; simpa using h
    | cons p t ih =>
      intro acc h
      rw [List.foldl_cons]
      apply ih
      dsimp only
      split
      · exact set_allInR _ _ _ h (by unfold inR minI maxI; omega)
      · exact set_allInR _ _ _ h (goSubVal_inR' _ _)
  unfold decPendingRes subEliminateNegative subNonNegative orZero
  simp only [Option.getD_some]
  split
  · exact prune_allInR _ (key delta (pending, []) hr)
  · exact key delta (pending, []) hr

/-- what an operation needs of a queue to take `r` off its pending total exactly: `r` is non-negative and counted -/
theorem qDecPend_pending (r : Res) (q : CQueue) (hq : QWF q) (hr : wf r = true)
    (h : ∀ k, 0 ≤ r.getD k ∧ r.getD k ≤ q.pending.getD k) (k : String) :
    (qDecPend r q).pending.getD k = q.pending.getD k - r.getD k :=
  decPendingRes_getD _ _ hq.pending hr hq.inR h k

theorem qDecPend_wf (r : Res) (q : CQueue) (hq : QWF q) : QWF (qDecPend r q) :=
  ⟨hq.allocated, decPendingRes_wf _ _ hq.pending, decPendingRes_allInR _ _ hq.inR⟩

theorem qDecAlloc_allocated (r : Res) (q : CQueue) (hq : QWF q) (hr : wf r = true) (k : String) :
    (qDecAlloc r q).allocated.getD k = q.allocated.getD k - r.getD k :=
  prune_subX_getD _ _ hq.allocated hr k

theorem qDecAlloc_wf (r : Res) (q : CQueue) (hq : QWF q) : QWF (qDecAlloc r q) :=
  ⟨prune_wf _ (subX_wf _ _ hq.allocated), hq.pending, hq.inR⟩

theorem qDecPreempting_wf (r : Res) (q : CQueue) (hq : QWF q) : QWF (qDecPreempting r q) :=
  ⟨hq.allocated, hq.pending, hq.inR⟩

theorem qLeave_allocated (a' : CApp) (q : CQueue) (hq : QWF q) (ha : wf a'.allocated = true) (hh : wf a'.allocatedPh = true)
    (k : String) : (qLeave a' q).allocated.getD k = q.allocated.getD k - a'.allocated.getD k - a'.allocatedPh.getD k := by
  show (prune (subX (subX q.allocated a'.allocated) a'.allocatedPh)).getD k = _
  rw [prune_getD _ (subX_wf _ _ (subX_wf _ _ hq.allocated)), subX_getD _ _ hh, subX_getD _ _ ha]

theorem qLeave_pending (a' : CApp) (q : CQueue) (hq : QWF q) (hp : wf a'.pending = true)
    (h : ∀ k, 0 ≤ a'.pending.getD k ∧ a'.pending.getD k ≤ q.pending.getD k) (k : String) :
    (qLeave a' q).pending.getD k = q.pending.getD k - a'.pending.getD k :=
  decPendingRes_getD _ _ hq.pending hp hq.inR h k

theorem qLeave_wf (a' : CApp) (q : CQueue) (hq : QWF q) : QWF (qLeave a' q) :=
  ⟨prune_wf _ (subX_wf _ _ (subX_wf _ _ hq.allocated)), decPendingRes_wf _ _ hq.pending, decPendingRes_allInR _ _ hq.inR⟩

theorem qIncPend_pending (r : Res) (q : CQueue) (hr : wf r = true) (k : String) :
    (qIncPend r q).pending.getD k = q.pending.getD k + r.getD k := addX_getD _ _ hr k

/-! ### strictly greater than zero / has a negative value, pointwise -/

theorem sgtz_false_of_nonNeg {r : Res} (h : NonNeg r) (hz : strictlyGreaterThanZero (some r) = false) (k : String) :
    r.getD k = 0 := zero_of_not_sgtz h hz k

theorem getD_nonneg_of_sgtz {r : Res} (hz : strictlyGreaterThanZero (some r) = true) (k : String) : 0 ≤ r.getD k := by
  unfold strictlyGreaterThanZero at hz
  simp only at hz
  split at hz
  · cases hz
  · rename_i hneg
    rw [getD_eq_get?]
    cases hg : get? r k with
    | none => simp
    | some v =>
      have hm := mem_of_get? hg
      have hneg' : ∀ (x : String) (y : Int), (x, y) ∈ r → 0 ≤ y := by simpa using hneg
      have := hneg' k v hm
      simp only [Option.getD_some]; omega

theorem hasNeg_false_getD {r : Res} (h : hasNegativeValue (some r) = false) (k : String) : 0 ≤ r.getD k := by
  unfold hasNegativeValue at h
  simp only at h
  rw [getD_eq_get?]
  cases hg : get? r k with
  | none => simp
  | some v =>
    have hm := mem_of_get? hg
    have := (List.any_eq_false.mp h) (k, v) hm
    simp only [decide_eq_true_eq] at this
    simp only [Option.getD_some]; omega

/-! ### `setState` only touches state, log and timer -/

@[simp] theorem setState_items (a : CApp) (st : String) : (setState a st).items = a.items := by unfold setState; split <;> rfl
@[simp] theorem setState_pending (a : CApp) (st : String) : (setState a st).pending = a.pending := by unfold setState; split <;> rfl
@[simp] theorem setState_allocated (a : CApp) (st : String) : (setState a st).allocated = a.allocated := by unfold setState; split <;> rfl
@[simp] theorem setState_allocatedPh (a : CApp) (st : String) : (setState a st).allocatedPh = a.allocatedPh := by unfold setState; split <;> rfl
@[simp] theorem setState_queue (a : CApp) (st : String) : (setState a st).queue = a.queue := by unfold setState; split <;> rfl
@[simp] theorem setState_id (a : CApp) (st : String) : (setState a st).id = a.id := by unfold setState; split <;> rfl
@[simp] theorem setState_live (a : CApp) (st : String) : (setState a st).live = a.live := by unfold setState; split <;> rfl
@[simp] theorem setState_reservations (a : CApp) (st : String) : (setState a st).reservations = a.reservations := by unfold setState; split <;> rfl

/-- the books and the well-formedness of an application only read these fields -/
theorem AppBooks.congr {a b : CApp} (hi : b.items = a.items) (h1 : b.allocated = a.allocated) (h2 : b.allocatedPh = a.allocatedPh)
    (h3 : b.pending = a.pending) (h : AppBooks a) : AppBooks b :=
  ⟨by rw [hi, h1]; exact h.allocated, by rw [hi, h2]; exact h.allocatedPh, by rw [hi, h3]; exact h.pending⟩

theorem AppWF.congr {a b : CApp} (hi : b.items = a.items) (h1 : b.allocated = a.allocated) (h2 : b.allocatedPh = a.allocatedPh)
    (h3 : b.pending = a.pending) (h : AppWF a) : AppWF b :=
  ⟨by rw [hi]; exact h.itemKeys, by rw [h1, h2, h3]; exact h.appRes, by rw [hi]; exact h.itemRes, by rw [hi]; exact h.boundAllocated⟩

/-! ### changes the books do not read (flags, reservations, lists of names) -/

/-- an item update that keeps everything the books and `CoreWF` read -/
def ItemIrrel (g : CItem → CItem) : Prop :=
  ∀ x, (g x).key = x.key ∧ (g x).res = x.res ∧ (g x).ph = x.ph ∧ (g x).allocated = x.allocated ∧ (g x).bound = x.bound ∧
    (g x).inReq = x.inReq

theorem itemSum_irrel (l : List CItem) (g : CItem → CItem) (hg : ItemIrrel g) (k : String) :
    itemSum (l.map g) (fun i => i.bound && !i.ph) k = itemSum l (fun i => i.bound && !i.ph) k ∧
    itemSum (l.map g) (fun i => i.bound && i.ph) k = itemSum l (fun i => i.bound && i.ph) k ∧
    itemSum (l.map g) (fun i => i.inReq && !i.allocated) k = itemSum l (fun i => i.inReq && !i.allocated) k := by
  refine ⟨?_, ?_, ?_⟩ <;>
  · apply itemSum_map_irrel
    intro x _
    obtain ⟨_, h2, h3, h4, h5, h6⟩ := hg x
    simp only [h2, h3, h4, h5, h6, and_self]

theorem appBooks_items_irrel {a b : CApp} (g : CItem → CItem) (hg : ItemIrrel g) (hi : b.items = a.items.map g)
    (h1 : b.allocated = a.allocated) (h2 : b.allocatedPh = a.allocatedPh) (h3 : b.pending = a.pending) (h : AppBooks a) :
    AppBooks b := by
  refine ⟨?_, ?_, ?_⟩ <;> intro k
  · rw [hi, h1, (itemSum_irrel a.items g hg k).1]; exact h.allocated k
  · rw [hi, h2, (itemSum_irrel a.items g hg k).2.1]; exact h.allocatedPh k
  · rw [hi, h3, (itemSum_irrel a.items g hg k).2.2]; exact h.pending k

theorem appWF_items_irrel {a b : CApp} (g : CItem → CItem) (hg : ItemIrrel g) (hi : b.items = a.items.map g)
    (h1 : b.allocated = a.allocated) (h2 : b.allocatedPh = a.allocatedPh) (h3 : b.pending = a.pending) (h : AppWF a) :
    AppWF b := by
  refine ⟨?_, by rw [h1, h2, h3]; exact h.appRes, ?_, ?_⟩
  · rw [hi, List.pairwise_map]
    refine List.Pairwise.imp ?_ h.itemKeys
    intro u v huv; rw [(hg u).1, (hg v).1]; exact huv
  · intro i hi'
    rw [hi] at hi'
    obtain ⟨x, hx, rfl⟩ := List.mem_map.mp hi'
    rw [(hg x).2.1]; exact h.itemRes x hx
  · intro i hi' hb
    rw [hi] at hi'
    obtain ⟨x, hx, rfl⟩ := List.mem_map.mp hi'
    rw [(hg x).2.2.2.2.1] at hb
    rw [(hg x).2.2.2.1]; exact h.boundAllocated x hx hb

/-- queues mapped by a function that keeps path and totals -/
theorem queueBooks_map_irrel (apps : List CApp) (queues : List CQueue) (g : CQueue → CQueue)
    (hg : ∀ q, (g q).path = q.path ∧ (g q).allocated = q.allocated ∧ (g q).pending = q.pending)
    (h : ∀ q ∈ queues, QueueBooks apps q) : ∀ q ∈ queues.map g, QueueBooks apps q := by
  intro q' hq'
  obtain ⟨q, hq, rfl⟩ := List.mem_map.mp hq'
  obtain ⟨h1, h2, h3⟩ := hg q
  exact ⟨by rw [h1, h2]; exact (h q hq).allocated, by rw [h1, h3]; exact (h q hq).pending⟩

theorem qwf_map_irrel (queues : List CQueue) (g : CQueue → CQueue)
    (hg : ∀ q, (g q).path = q.path ∧ (g q).allocated = q.allocated ∧ (g q).pending = q.pending)
    (h : ∀ q ∈ queues, QWF q) : ∀ q ∈ queues.map g, QWF q := by
  intro q' hq'
  obtain ⟨q, hq, rfl⟩ := List.mem_map.mp hq'
  obtain ⟨_, h2, h3⟩ := hg q
  exact ⟨by rw [h2]; exact (h q hq).allocated, by rw [h3]; exact (h q hq).pending, by rw [h3]; exact (h q hq).inR⟩

/-- nodes mapped by a function that keeps id, allocations and totals -/
def NodeIrrel (g : CNode → CNode) : Prop :=
  ∀ n, (g n).id = n.id ∧ (g n).allocs = n.allocs ∧ (g n).total = n.total ∧ (g n).occupied = n.occupied ∧
    (g n).allocated = n.allocated ∧ (g n).available = n.available

theorem nodeBooks_irrel {n : CNode} (g : CNode → CNode) (hg : NodeIrrel g) (h : NodeBooks n) : NodeBooks (g n) := by
  obtain ⟨_, h2, h3, h4, h5, h6⟩ := hg n
  exact ⟨by rw [h5, h2]; exact h.allocated, by rw [h6, h3, h5, h4]; exact h.available⟩

theorem nwf_irrel {n : CNode} (g : CNode → CNode) (hg : NodeIrrel g) (h : NWF n) : NWF (g n) := by
  obtain ⟨_, h2, h3, h4, h5, h6⟩ := hg n
  exact ⟨by rw [h2]; exact h.allocKeys, by rw [h3, h4, h5, h6]; exact h.nodeRes, by rw [h2]; exact h.allocRes⟩

theorem nodeBooks_map_irrel (nodes : List CNode) (g : CNode → CNode) (hg : NodeIrrel g)
    (h : ∀ n ∈ nodes, NodeBooks n) : ∀ n ∈ nodes.map g, NodeBooks n := by
  intro n' hn'
  obtain ⟨n, hn, rfl⟩ := List.mem_map.mp hn'
  exact nodeBooks_irrel g hg (h n hn)

theorem nwf_map_irrel (nodes : List CNode) (g : CNode → CNode) (hg : NodeIrrel g)
    (hu : nodes.Pairwise (fun a b => a.id ≠ b.id)) (h : ∀ n ∈ nodes, NWF n) :
    (nodes.map g).Pairwise (fun a b => a.id ≠ b.id) ∧ ∀ n ∈ nodes.map g, NWF n := by
  constructor
  · rw [List.pairwise_map]
    refine List.Pairwise.imp ?_ hu
    intro x y hxy; rw [(hg x).1, (hg y).1]; exact hxy
  · intro n' hn'
    obtain ⟨n, hn, rfl⟩ := List.mem_map.mp hn'
    exact nwf_irrel g hg (h n hn)

/-- `updNs` with an irrelevant function -/
theorem nodeIrrel_upd (id : String) (f : CNode → CNode) (hf : NodeIrrel f) :
    NodeIrrel (fun n => if (n.id == id) = true then f n else n) := by
  intro n
  by_cases hd : (n.id == id) = true
  · dsimp only; rw [if_pos hd]; exact hf n
  · dsimp only; rw [if_neg hd]; exact ⟨rfl, rfl, rfl, rfl, rfl, rfl⟩

/-- applications mapped by a function that keeps what the books read -/
def AppIrrel (g : CApp → CApp) : Prop :=
  ∀ a, (g a).live = a.live ∧ (g a).id = a.id ∧ (g a).queue = a.queue ∧ (g a).allocated = a.allocated ∧
    (g a).allocatedPh = a.allocatedPh ∧ (g a).pending = a.pending ∧ ∃ gi, ItemIrrel gi ∧ (g a).items = a.items.map gi

theorem qsum_map_irrel (apps : List CApp) (g : CApp → CApp) (hg : AppIrrel g) (p : String) (w : CApp → Int)
    (hw : ∀ a, w (g a) = w a) : qsum (apps.map g) p w = qsum apps p w := by
  unfold qsum
  rw [sumIf_map]
  apply sumIf_congr
  intro x _
  obtain ⟨h1, _, h3, _⟩ := hg x
  rw [h1, h3, hw x]

theorem books_apps_irrel (apps : List CApp) (queues : List CQueue) (g : CApp → CApp) (hg : AppIrrel g)
    (hA : ∀ a ∈ apps, a.live = true → AppBooks a) (hQ : ∀ q ∈ queues, QueueBooks apps q) :
    (∀ a ∈ apps.map g, a.live = true → AppBooks a) ∧ (∀ q ∈ queues, QueueBooks (apps.map g) q) := by
  constructor
  · intro b hb hbl
    obtain ⟨a, ha, rfl⟩ := List.mem_map.mp hb
    obtain ⟨h1, _, _, h4, h5, h6, gi, hgi, hit⟩ := hg a
    rw [h1] at hbl
    exact appBooks_items_irrel gi hgi hit h4 h5 h6 (hA a ha hbl)
  · intro q hq
    constructor
    · intro k
      rw [qsum_map_irrel apps g hg _ _ (fun a => by rw [(hg a).2.2.2.1, (hg a).2.2.2.2.1])]
      exact (hQ q hq).allocated k
    · intro k
      rw [qsum_map_irrel apps g hg _ _ (fun a => by rw [(hg a).2.2.2.2.2.1])]
      exact (hQ q hq).pending k

theorem wf_apps_irrel (apps : List CApp) (g : CApp → CApp) (hg : AppIrrel g)
    (hu : apps.Pairwise (fun a b => a.live = true → b.live = true → a.id ≠ b.id))
    (hW : ∀ a ∈ apps, a.live = true → AppWF a) :
    (apps.map g).Pairwise (fun a b => a.live = true → b.live = true → a.id ≠ b.id) ∧
    (∀ a ∈ apps.map g, a.live = true → AppWF a) := by
  constructor
  · rw [List.pairwise_map]
    refine List.Pairwise.imp ?_ hu
    intro x y hxy hx hy
    rw [(hg x).1] at hx; rw [(hg y).1] at hy
    rw [(hg x).2.1, (hg y).2.1]; exact hxy hx hy
  · intro b hb hbl
    obtain ⟨a, ha, rfl⟩ := List.mem_map.mp hb
    obtain ⟨h1, _, _, h4, h5, h6, gi, hgi, hit⟩ := hg a
    rw [h1] at hbl
    exact appWF_items_irrel gi hgi hit h4 h5 h6 (hW a ha hbl)

theorem appIrrel_upd (id : String) (f : CApp → CApp) (hf : AppIrrel f) :
    AppIrrel (fun a => if (a.live && a.id == id) = true then f a else a) := by
  intro a
  by_cases hd : (a.live && a.id == id) = true
  · dsimp only; rw [if_pos hd]; exact hf a
  · dsimp only; rw [if_neg hd]
    exact ⟨rfl, rfl, rfl, rfl, rfl, rfl, fun x => x, fun x => ⟨rfl, rfl, rfl, rfl, rfl, rfl⟩, by simp⟩

/-- a state whose lists are irrelevant images of the lists of `s` -/
theorem books_irrel {s t : Core} (ga : CApp → CApp) (gq : CQueue → CQueue) (gn : CNode → CNode)
    (hga : AppIrrel ga) (hgq : ∀ q, (gq q).path = q.path ∧ (gq q).allocated = q.allocated ∧ (gq q).pending = q.pending)
    (hgn : NodeIrrel gn)
    (ha : t.apps = s.apps.map ga) (hq : t.queues = s.queues.map gq) (hn : t.nodes = s.nodes.map gn)
    (hb : Books s) : Books t := by
  obtain ⟨h1, h2⟩ := books_apps_irrel s.apps s.queues ga hga hb.apps hb.queues
  refine ⟨by rw [ha]; exact h1, ?_, by rw [hn]; exact nodeBooks_map_irrel _ gn hgn hb.nodes⟩
  rw [ha, hq]
  exact queueBooks_map_irrel _ _ gq hgq h2

theorem wf_irrel {s t : Core} (ga : CApp → CApp) (gq : CQueue → CQueue) (gn : CNode → CNode)
    (hga : AppIrrel ga) (hgq : ∀ q, (gq q).path = q.path ∧ (gq q).allocated = q.allocated ∧ (gq q).pending = q.pending)
    (hgn : NodeIrrel gn)
    (ha : t.apps = s.apps.map ga) (hq : t.queues = s.queues.map gq) (hn : t.nodes = s.nodes.map gn)
    (hw : CoreWF s) : CoreWF t := by
  obtain ⟨h1, h2⟩ := wf_apps_irrel s.apps ga hga hw.appIds (fun a ha hl => hw.app ha hl)
  obtain ⟨h3, h4⟩ := nwf_map_irrel s.nodes gn hgn hw.nodeIds (fun n hn => hw.node hn)
  exact CoreWF.of_parts (by rw [ha]; exact h1) (by rw [hn]; exact h3) (by rw [ha]; exact h2)
    (by rw [hq]; exact qwf_map_irrel _ gq hgq (fun q hq => hw.queue hq)) (by rw [hn]; exact h4)

end Yk
