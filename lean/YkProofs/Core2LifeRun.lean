/-
  The life-cycle invariants along histories of the stepped Core model: `LifeInv` (C06 "no placeholder outlives its
  application"; C10 "terminated applications leave the partition", "a Completed application holds no real allocation") is
  preserved by every operation; so is `NoPendInv` (C10 "an application with outstanding asks is not Completing /
  Completed") — also by a node removal that rolls back an in-flight swap, since `Application.DeallocateAsk` moves a
  Completing application back to Running (repair 20ee082; before it that step was the exception, `NoRollback` excluded it).
-/
import YkProofs.Core2LifeA
import YkProofs.Core2LifeB
import YkProofs.Core2LifeC
import YkProofs.Core2LifeD
namespace Yk
open Res Core

theorem life_nodeRemove (s : Core) (id : String) (order : List (String × String)) (hw : CoreWF s) (hb : Books s)
    (hl : LifeInv s) (hok : NodeRemoveOK s id order) : LifeInv (s.nodeRemove id order) := by
  unfold nodeRemove
  split
  · exact hl
  · rename_i n hn
    have hL := lifeCore_nodeRemove_loop s id order hw hb hl hok hn
    obtain ⟨hb0, hw0, _⟩ := unreserveFold_props id n.reservations s hw hb
    obtain ⟨hb1, hw1, _⟩ := nodeLoop_props id _ _ hw0 hb0 (hok n hn)
    exact lifeInv_dropNode _ id _ _ (life_sweepTerminated _ hw1 hb1 hL)

/-- partition.removeNode keeps the clause about asks — also when it rolls a swap back: the loop keeps `NoPendMid`, the
    sweep of the terminated applications restores `NoPendInv` -/
theorem nopend_nodeRemove (s : Core) (id : String) (order : List (String × String)) (hw : CoreWF s) (hb : Books s)
    (hl : LifeInv s) (hp : NoPendInv s) (hok : NodeRemoveOK s id order) :
    NoPendInv (s.nodeRemove id order) := by
  unfold nodeRemove
  split
  · exact hp
  · rename_i n hn
    have hP := nopendMid_nodeRemove_loop s id order hw hb hl hp hok hn
    have hL := lifeCore_nodeRemove_loop s id order hw hb hl hok hn
    obtain ⟨hb0, hw0, _⟩ := unreserveFold_props id n.reservations s hw hb
    obtain ⟨hb1, hw1, _⟩ := nodeLoop_props id _ _ hw0 hb0 (hok n hn)
    exact nopend_dropNode _ id _ _ (nopend_sweepTerminated_mid _ hw1 hb1 hL hP)

/-- what a step needs for the life-cycle invariant beyond `Op.ok2`: a new application is not submitted as terminated, the
    placeholder timer announces Failing (Hard) or Resuming (Soft) or nothing -/
def Op.okLife : Op → Prop
  | .appAdd a _ => ∀ x, a = some x → terminated x.state = false
  | .phTimeout _ ev => ev = none ∨ ev = some "Failing" ∨ ev = some "Resuming"
  | _ => True

/-- a node removal does not roll back an in-flight swap (no longer needed for the clause about asks; kept for the
    `_partial` form of the C10 theorem) -/
def Op.okNoPend (s : Core) : Op → Prop
  | .nodeRemove id order => NoRollback s id order
  | _ => True

/-- one step keeps the life-cycle invariant -/
theorem step_life (s : Core) (op : Op) (hw : CoreWF s) (hb : Books s) (hk : Linked s) (hl : LifeInv s)
    (hok : op.ok2 s) (hol : op.okLife) : LifeInv (op.apply s) := by
  have hfull := ok_of_ok2 s op hk hok
  cases op with
  | nodeCreate id cap b => exact life_nodeCreate s id cap b hl
  | nodeUpdate id cap => exact life_nodeUpdate s id cap hl
  | nodeSchedulable id b => exact life_nodeSchedulable s id b hl
  | nodeRemove id order => exact life_nodeRemove s id order hw hb hl hfull
  | foreignAdd key node res => exact life_foreignAdd s key node res hl
  | foreignRemove key => exact life_foreignRemove s key hl
  | appAdd a nq => exact life_appAdd s a nq hl hol
  | appRemove app => exact life_appRemove s app hw hb hl
  | ask app key res ph tg reqNode => exact life_ask s app key res ph tg reqNode hw hl hok.resWf
  | schedAlloc app key node =>
    show LifeInv ((s.schedAlloc app key node).getD s)
    cases h : s.schedAlloc app key node with
    | none => exact hl
    | some s' => exact life_schedAlloc s s' app key node hw hl h
  | swapStart app realKey phKey node =>
    show LifeInv ((s.swapStart app realKey phKey node).getD s)
    cases h : s.swapStart app realKey phKey node with
    | none => exact hl
    | some s' => exact life_swapStart s s' app realKey phKey node hw hb hl h
  | swapConfirm app phKey => exact life_swapConfirm s app phKey hw hb hl hfull
  | releaseKey app key => exact life_releaseKey s app key hw hb hl
  | release tt app key => exact life_releaseKeyT s tt app key hw hb hl
  | releaseApp tt app => exact life_releaseApp s tt app hw hb hl
  | markReleased app key p => exact life_markReleased s app key p hl
  | phTimeout app ev => exact life_phTimeout s app ev hw hb hl hol
  | stateTimeout app => exact life_stateTimeout s app hw hb hl
  | cleanup => exact life_cleanup s hl
  | reserve app key node => exact life_reserve s app key node hl
  | unreserve app key node => exact life_unreserve s app key node hl

/-- one step keeps the clause about asks -/
theorem step_nopend (s : Core) (op : Op) (hw : CoreWF s) (hb : Books s) (hk : Linked s) (hl : LifeInv s) (hp : NoPendInv s)
    (hok : op.ok2 s) (hol : op.okLife) : NoPendInv (op.apply s) := by
  have hfull := ok_of_ok2 s op hk hok
  cases op with
  | nodeCreate id cap b => exact nopend_nodeCreate s id cap b hp
  | nodeUpdate id cap => exact nopend_nodeUpdate s id cap hp
  | nodeSchedulable id b => exact nopend_nodeSchedulable s id b hp
  | nodeRemove id order => exact nopend_nodeRemove s id order hw hb hl hp hfull
  | foreignAdd key node res => exact nopend_foreignAdd s key node res hp
  | foreignRemove key => exact nopend_foreignRemove s key hp
  | appAdd a nq => exact nopend_appAdd s a nq hp hol
  | appRemove app => exact nopend_appRemove s app hw hb hl hp
  | ask app key res ph tg reqNode => exact nopend_ask s app key res ph tg reqNode hw hl hp
  | schedAlloc app key node =>
    show NoPendInv ((s.schedAlloc app key node).getD s)
    cases h : s.schedAlloc app key node with
    | none => exact hp
    | some s' => exact nopend_schedAlloc s s' app key node hw hl hp h
  | swapStart app realKey phKey node =>
    show NoPendInv ((s.swapStart app realKey phKey node).getD s)
    cases h : s.swapStart app realKey phKey node with
    | none => exact hp
    | some s' => exact nopend_swapStart s s' app realKey phKey node hw hb hl hp h
  | swapConfirm app phKey => exact nopend_swapConfirm s app phKey hw hb hl hp hfull
  | releaseKey app key => exact nopend_releaseKey s app key hw hb hl hp
  | release tt app key => exact nopend_releaseKeyT s tt app key hw hb hl hp
  | releaseApp tt app => exact nopend_releaseApp s tt app hw hb hl hp
  | markReleased app key p => exact nopend_markReleased s app key p hp
  | phTimeout app ev => exact nopend_phTimeout s app ev hw hb hl hp hol
  | stateTimeout app => exact nopend_stateTimeout s app hw hb hl hp
  | cleanup => exact nopend_cleanup s hp
  | reserve app key node => exact nopend_reserve s app key node hp
  | unreserve app key node => exact nopend_unreserve s app key node hp

/-- every step meets `Op.ok2` and `Op.okLife` in the state it is applied to -/
def RunLifeOK : Core → List Op → Prop
  | _, [] => True
  | s, op :: t => (op.ok2 s ∧ op.okLife) ∧ RunLifeOK (op.apply s) t

/-- … and no node removal rolls back an in-flight swap -/
def RunNoRollback : Core → List Op → Prop
  | _, [] => True
  | s, op :: t => op.okNoPend s ∧ RunNoRollback (op.apply s) t

/-- the full invariant of the stepped model -/
structure CoreInv (s : Core) : Prop where
  wf : CoreWF s
  books : Books s
  linked : Linked s
  life : LifeInv s

theorem reachable_life (s : Core) (ops : List Op) (h : CoreInv s) (hok : RunLifeOK s ops) : CoreInv (run s ops) := by
  induction ops generalizing s with
  | nil => exact h
  | cons op t ih =>
    obtain ⟨⟨h1, h1'⟩, h2⟩ := hok
    obtain ⟨hb', hw'⟩ := step_props s op h.wf h.books (ok_of_ok2 s op h.linked h1)
    exact ih (op.apply s) ⟨hw', hb', step_linked s op h.wf h.books h.linked h1, step_life s op h.wf h.books h.linked h.life h1 h1'⟩ h2

theorem reachable_nopend (s : Core) (ops : List Op) (h : CoreInv s) (hp : NoPendInv s) (hok : RunLifeOK s ops) :
    NoPendInv (run s ops) := by
  induction ops generalizing s with
  | nil => exact hp
  | cons op t ih =>
    obtain ⟨⟨h1, h1'⟩, h2⟩ := hok
    obtain ⟨hb', hw'⟩ := step_props s op h.wf h.books (ok_of_ok2 s op h.linked h1)
    exact ih (op.apply s) ⟨hw', hb', step_linked s op h.wf h.books h.linked h1, step_life s op h.wf h.books h.linked h.life h1 h1'⟩
      (step_nopend s op h.wf h.books h.linked h.life hp h1 h1') h2

end Yk
