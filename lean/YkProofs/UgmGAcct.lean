/- Manager level accounting for GROUP trackers, histories without configuration reloads: the usage a group tracker holds
   is the sum of the live allocations of the applications linked to the group (YkProps/C05 group_usage_is_sum_partial). -/
import YkProofs.UgmMAcct
namespace Yk.Ugm
open Yk Yk.Res Yk.QTree

/-! ### a tracker tree with a limit somewhere is never emptied by releases -/

/-- the tracker carries a limit (it fails the removal test whatever it counts) -/
def limited (n : Node) : Bool := !(n.maxApps == 0 && isZero n.maxRes)

/-- queue `p0` has a tracker with a limit and every queue on the way down to it has a tracker -/
structure Prot (t : Tree) (p0 : Path) : Prop where
  node : ∃ n, aget t p0 = some n ∧ limited n = true
  pre : ∀ p ∈ prefixes p0, ahas t p = true

def Anchored (t : Tree) : Prop := ∃ p0, p0.take 1 = rootPath ∧ Prot t p0

theorem prefixesFrom_child : ∀ (rest : List String) (pre p : Path), p ∈ prefixesFrom pre rest →
    p = pre ++ rest ∨ ∃ c, p ++ [c] ∈ prefixesFrom pre rest := by
  intro rest
  induction rest with
  | nil => intro pre p h; simp [prefixesFrom] at h
  | cons c0 rest ih =>
    intro pre p h
    simp only [prefixesFrom, List.mem_cons] at h
    rcases h with h | h
    · subst h
      cases rest with
      | nil => left; rfl
      | cons c1 r2 => right; exact ⟨c1, by simp [prefixesFrom]⟩
    · rcases ih _ _ h with e | ⟨c, hc⟩
      · left; rw [e, List.append_assoc]; rfl
      · right; exact ⟨c, by simp only [prefixesFrom, List.mem_cons]; exact Or.inr hc⟩

theorem prefixes_child {p0 p : Path} (h : p ∈ prefixes p0) : p = p0 ∨ ∃ c, p ++ [c] ∈ prefixes p0 := by
  have := prefixesFrom_child p0 [] p h
  simpa [prefixes] using this

theorem hasChild_of {t : Tree} {p : Path} {c : String} (h : ahas t (p ++ [c]) = true) : hasChild t p = true := by
  rw [ahas_eq] at h
  cases hn : aget t (p ++ [c]) with
  | none => rw [hn] at h; cases h
  | some n =>
    unfold hasChild
    rw [List.any_eq_true]
    exact ⟨(p ++ [c], n), aget_mem hn, by simp⟩

theorem not_removable_of_prot {t : Tree} {p0 p : Path} (h : Prot t p0) (hp : p ∈ prefixes p0) {n : Node}
    (hn : aget t p = some n) : removable t p n = false := by
  rcases prefixes_child hp with e | ⟨c, hc⟩
  · subst e
    obtain ⟨n0, hn0, hl⟩ := h.node
    rw [hn] at hn0; cases hn0
    unfold limited at hl
    unfold removable
    cases h1 : (n.maxApps == 0) <;> cases h2 : isZero n.maxRes <;> simp_all
  · unfold removable
    rw [hasChild_of (h.pre _ hc)]; simp

theorem prot_amod {t : Tree} {p0 : Path} (h : Prot t p0) (k : Path) (f : Node → Node) (hf : ∀ n, limited (f n) = limited n) :
    Prot (amod t k f) p0 := by
  constructor
  · obtain ⟨n, hn, hl⟩ := h.node
    rw [aget_amod]
    by_cases e : k = p0
    · subst e; exact ⟨f n, by simp [hn], by rw [hf]; exact hl⟩
    · exact ⟨n, by simp [e, hn], hl⟩
  · intro p hp
    have := h.pre p hp
    rw [ahas_eq] at this ⊢
    rw [aget_amod]
    by_cases e : k = p
    · subst e; cases hh : aget t k with
      | none => rw [hh] at this; cases this
      | some x => simp
    · simp [e, this]

theorem prot_adel {t : Tree} {p0 : Path} (h : Prot t p0) (h0 : p0 ≠ []) {k : Path} (hk : k ∉ prefixes p0) : Prot (adel t k) p0 := by
  constructor
  · obtain ⟨n, hn, hl⟩ := h.node
    have : k ≠ p0 := by intro e; subst e; exact hk (mem_prefixes_self h0)
    exact ⟨n, by rw [aget_adel]; simp [this, hn], hl⟩
  · intro p hp
    have hne : k ≠ p := by intro e; subst e; exact hk hp
    rw [ahas_eq, aget_adel]; simp only [hne, if_false]
    exact h.pre p hp

theorem decNode_limited (app : String) (r : Res) (rm : Bool) (n : Node) : limited (decNode app r rm n) = limited n := rfl
theorem incNode_limited (app : String) (r : Res) (n : Node) : limited (incNode app r n) = limited n := rfl

theorem decFinish_prot (app : String) (r : Res) (rm : Bool) (cur : Path) {t : Tree} {p0 : Path} (h : Prot t p0) :
    Prot (decFinish app r rm cur t).1 p0 ∧ (cur ∈ prefixes p0 → (decFinish app r rm cur t).2 = false) := by
  have hp := prot_amod h cur (decNode app r rm) (decNode_limited app r rm)
  refine ⟨hp, ?_⟩
  intro hc
  simp only [decFinish]
  cases hn : aget (amod t cur (decNode app r rm)) cur with
  | none => rfl
  | some n => exact not_removable_of_prot hp hc hn

theorem decGo_prot (app : String) (r : Res) (rm : Bool) {p0 : Path} (h0 : p0 ≠ []) : ∀ (rest : List String) (cur : Path) (t : Tree),
    Prot t p0 → Prot (decGo app r rm cur rest t).1 p0 ∧ (cur ∈ prefixes p0 → (decGo app r rm cur rest t).2 = false) := by
  intro rest
  induction rest with
  | nil => intro cur t h; exact decFinish_prot app r rm cur h
  | cons c rest ih =>
    intro cur t h
    simp only [decGo]
    split
    · obtain ⟨i1, i2⟩ := ih (cur ++ [c]) t h
      apply decFinish_prot
      split
      · rename_i hflag
        apply prot_adel i1 h0
        intro hm
        rw [i2 hm] at hflag; cases hflag
      · exact i1
    · exact ⟨h, fun _ => rfl⟩

theorem decrease_anchored {t : Tree} (h : Anchored t) (q : Path) (hq : q.take 1 = rootPath) (app : String) (r : Res) (rm : Bool) :
    Anchored (decrease t q app r rm).1 ∧ (decrease t q app r rm).2 = false := by
  obtain ⟨p0, hp0, hprot⟩ := h
  have h0 : p0 ≠ [] := by intro e; subst e; cases hp0
  cases q with
  | nil => cases hq
  | cons r0 rest =>
    have hr0 : [r0] = rootPath := by simpa using hq
    simp only [decrease]
    obtain ⟨i1, i2⟩ := decGo_prot app r rm h0 rest [r0] t hprot
    refine ⟨⟨p0, hp0, i1⟩, i2 ?_⟩
    rw [hr0]; exact rootPath_mem_prefixes hp0

theorem ensurePath_anchored {t : Tree} (h : Anchored t) (w : List (Path × Limit)) (isUser : Bool) (q : Path) :
    Anchored (ensurePath w isUser t q) := by
  obtain ⟨p0, hp0, hprot⟩ := h
  refine ⟨p0, hp0, ?_, ?_⟩
  · obtain ⟨n, hn, hl⟩ := hprot.node
    exact ⟨n, by rw [aget_ensurePath, hn], hl⟩
  · intro p hp
    have := hprot.pre p hp
    rw [ahas_eq] at this ⊢
    rw [aget_ensurePath]
    cases hh : aget t p with
    | none => rw [hh] at this; cases this
    | some x => rfl

theorem foldl_amod_prot (f : Node → Node) (hf : ∀ n, limited (f n) = limited n) {p0 : Path} : ∀ (ps : List Path) (t : Tree),
    Prot t p0 → Prot (ps.foldl (fun t p => amod t p f) t) p0 := by
  intro ps
  induction ps with
  | nil => intro t h; exact h
  | cons a ps ih => intro t h; rw [List.foldl_cons]; exact ih _ (prot_amod h a f hf)

theorem increase_anchored {t : Tree} (h : Anchored t) (w : List (Path × Limit)) (isUser : Bool) (q : Path) (app : String) (r : Res) :
    Anchored (increase w isUser t q app r) := by
  obtain ⟨p0, hp0, hprot⟩ := ensurePath_anchored h w isUser q
  exact ⟨p0, hp0, foldl_amod_prot _ (incNode_limited app r) _ _ hprot⟩

/-! ### the ledger up to permutation -/

theorem sumLive_perm {L L' : List Alloc} (h : L.Perm L') (p : Path) (k : String) : sumLive L p k = sumLive L' p k := by
  induction h with
  | nil => rfl
  | cons x _ ih => rw [sumLive_cons, sumLive_cons, ih]
  | swap x y l => rw [sumLive_cons, sumLive_cons, sumLive_cons, sumLive_cons]; omega
  | trans _ _ ih1 ih2 => rw [ih1, ih2]

theorem inv_perm {t : Tree} {L L' : List Alloc} (h : Inv t L) (hp : L.Perm L') : Inv t L' :=
  ⟨fun p k => by rw [h.sum, sumLive_perm hp], fun a ha => h.live a (hp.mem_iff.mpr ha), h.uwf,
   fun a ha => h.rwf a (hp.mem_iff.mpr ha), h.nodup⟩

/-! ### links, resolution and configuration maps -/

theorem groupForApp_linkOf (m : Mgr) (u app : String) :
    groupForApp m u app = match linkOf m u app with | some (some g) => g | _ => "" := by
  unfold groupForApp linkOf
  cases aget m.users u with
  | none => rfl
  | some ut => rfl

theorem groupForApp_congr {m m' : Mgr} {u app : String} (h : linkOf m' u app = linkOf m u app) :
    groupForApp m' u app = groupForApp m u app := by
  rw [groupForApp_linkOf, groupForApp_linkOf, h]

theorem groupAllocs_congr {m m' : Mgr} {L : List (String × Alloc)} (h : ∀ e ∈ L, linkOf m' e.1 e.2.app = linkOf m e.1 e.2.app)
    (g : String) : groupAllocs m' L g = groupAllocs m L g := by
  unfold groupAllocs
  congr 1
  apply List.filter_congr
  intro e he
  rw [groupForApp_congr (h e he)]

theorem ensureGroupAux_congr {m m' : Mgr} (h1 : m'.confGroups = m.confGroups) (h2 : m'.groupWild = m.groupWild) (ugs : List String) :
    ∀ (n : Nat) (p : Path), ensureGroupAux m' ugs n p = ensureGroupAux m ugs n p := by
  intro n
  induction n with
  | zero => intro p; rfl
  | succ n ih => intro p; simp only [ensureGroupAux, h1, h2, ih]

theorem ensureGroup_congr {m m' : Mgr} (h1 : m'.confGroups = m.confGroups) (h2 : m'.groupWild = m.groupWild) (ugs : List String)
    (q : Path) : ensureGroup m' ugs q = ensureGroup m ugs q := by
  unfold ensureGroup; rw [ensureGroupAux_congr h1 h2]

theorem hasGroup_linkOf (m : Mgr) (u app : String) : hasGroupForApp m u app = (linkOf m u app).isSome := by
  unfold hasGroupForApp linkOf
  cases aget m.users u with
  | none => rfl
  | some ut => rfl

theorem linkOf_ensureUser_eq (m : Mgr) (u0 u app : String) : linkOf (ensureUser m u0) u app = linkOf m u app := by
  unfold linkOf
  rw [aget_ensureUser]
  cases hu : aget m.users u with
  | some ut => rfl
  | none =>
    by_cases e : u0 = u
    · simp [e, newUT, aget_nil]
    · simp [e]

/-! ### the invariant -/

structure GInv (m : Mgr) (L : List (String × Alloc)) : Prop where
  u : UInv m.users L
  uniq : ∀ e1 ∈ L, ∀ e2 ∈ L, e1.2.app = e2.2.app → e1.1 = e2.1
  haslink : ∀ e ∈ L, (linkOf m e.1 e.2.app).isSome = true
  linked : ∀ u app g, linkOf m u app = some (some g) → ahas m.groups g = true
  resolv : ∀ ugs q, ensureGroup m ugs q ≠ "" → ahas m.groups (ensureGroup m ugs q) = true
  anch : ∀ g gt, aget m.groups g = some gt → Anchored gt.qt
  trees : ∀ g gt, g ≠ "" → aget m.groups g = some gt → Inv gt.qt (groupAllocs m L g)

/-- a step that changes no link and no configuration map and touches group trackers only neutrally -/
theorem ginv_same_links {m m' : Mgr} {L : List (String × Alloc)} (h : GInv m L)
    (hl : ∀ u app, linkOf m' u app = linkOf m u app)
    (hc1 : m'.confGroups = m.confGroups) (hc2 : m'.groupWild = m.groupWild) (hu : UInv m'.users L)
    (hg : ∀ g, aget m'.groups g = aget m.groups g ∨
      ∃ gt gt', aget m.groups g = some gt ∧ aget m'.groups g = some gt' ∧ Neutral gt.qt gt'.qt ∧ (Anchored gt.qt → Anchored gt'.qt)) :
    GInv m' L := by
  have hhas : ∀ g, ahas m.groups g = true → ahas m'.groups g = true := by
    intro g hh
    rcases hg g with e | ⟨gt, gt', _, e', _, _⟩
    · rw [ahas_eq, e, ← ahas_eq]; exact hh
    · rw [ahas_eq, e']; rfl
  refine ⟨hu, h.uniq, ?_, ?_, ?_, ?_, ?_⟩
  · intro e he; rw [hl]; exact h.haslink e he
  · intro u app g hlk; rw [hl] at hlk; exact hhas g (h.linked u app g hlk)
  · intro ugs q hne
    rw [ensureGroup_congr hc1 hc2] at hne ⊢
    exact hhas _ (h.resolv ugs q hne)
  · intro g gt' hgt'
    rcases hg g with e | ⟨gt, gt2, e1, e2, _, ha⟩
    · rw [e] at hgt'; exact h.anch g gt' hgt'
    · rw [e2] at hgt'; cases hgt'; exact ha (h.anch g gt e1)
  · intro g gt' hne hgt'
    rw [groupAllocs_congr (fun e _ => hl e.1 e.2.app)]
    rcases hg g with e | ⟨gt, gt2, e1, e2, hn, _⟩
    · rw [e] at hgt'; exact h.trees g gt' hne hgt'
    · rw [e2] at hgt'; cases hgt'; exact hn _ (h.trees g gt hne e1)

theorem ginv_ensureUser {m : Mgr} {L : List (String × Alloc)} (h : GInv m L) (u : String) : GInv (ensureUser m u) L := by
  have hf : (ensureUser m u).groups = m.groups ∧ (ensureUser m u).confGroups = m.confGroups ∧ (ensureUser m u).groupWild = m.groupWild := by
    unfold ensureUser; split <;> exact ⟨rfl, rfl, rfl⟩
  exact ginv_same_links h (linkOf_ensureUser_eq m u) hf.2.1 hf.2.2 (uinv_ensureUser h.u u) (fun g => Or.inl (by rw [hf.1]))

theorem ginv_updUser {m : Mgr} {L : List (String × Alloc)} (h : GInv m L) (u : String) (f : UT → UT)
    (hf : ∀ ut, (f ut).appGroups = ut.appGroups) (hn : ∀ ut, aget m.users u = some ut → Neutral ut.qt (f ut).qt) :
    GInv (updUser m u f) L :=
  ginv_same_links h (fun u' app => linkOf_updUser_qt m u f hf u' app) rfl rfl
    (by unfold updUser; exact uinv_amod h.u u f hn) (fun g => Or.inl rfl)

theorem ginv_updGroup {m : Mgr} {L : List (String × Alloc)} (h : GInv m L) (g : String) (f : GT → GT)
    (hn : ∀ gt, aget m.groups g = some gt → Neutral gt.qt (f gt).qt ∧ (Anchored gt.qt → Anchored (f gt).qt)) :
    GInv (updGroup m g f) L := by
  apply ginv_same_links (m' := updGroup m g f) h (fun _ _ => rfl) rfl rfl h.u
  intro g'
  rw [aget_updGroup]
  by_cases e : g = g'
  · subst e
    cases hgt : aget m.groups g with
    | none => left; simp
    | some gt => right; exact ⟨gt, f gt, rfl, by simp, (hn gt hgt).1, (hn gt hgt).2⟩
  · left; simp [e]

/-- ensureGroupTrackerForApp: the group the application resolves to has its tracker already -/
theorem ginv_eGTFA {m : Mgr} {L : List (String × Alloc)} (h : GInv m L) (q : Path) (app u : String) (ugs : List String) :
    GInv (ensureGroupTrackerForApp m q app u ugs) L := by
  unfold ensureGroupTrackerForApp
  by_cases hh : hasGroupForApp m u app = true
  · rw [if_pos hh]; exact h
  · rw [if_neg hh]
    simp only
    -- no tracker is created: the resolved group is configured and has one
    have hdead : (ensureGroup m ugs q != "" && !ahas m.groups (ensureGroup m ugs q)) = false := by
      by_cases e : ensureGroup m ugs q = ""
      · simp [e]
      · rw [h.resolv ugs q e]; simp
    rw [hdead]
    simp only [Bool.false_eq_true, if_false]
    have hnone : linkOf m u app = none := by
      rw [hasGroup_linkOf] at hh
      cases hl : linkOf m u app with
      | none => rfl
      | some x => rw [hl] at hh; exact absurd rfl hh
    generalize hv : (if ensureGroup m ugs q == "" then none else some (ensureGroup m ugs q)) = v
    -- the links afterwards
    have hlink : ∀ u' app', linkOf (updUser m u (fun ut => { ut with appGroups := aset ut.appGroups app v })) u' app' =
        if u = u' ∧ app = app' ∧ ahas m.users u = true then some v else linkOf m u' app' := by
      intro u' app'
      unfold linkOf updUser
      simp only
      rw [aget_amod]
      by_cases e : u = u'
      · subst e
        cases hut : aget m.users u with
        | none => simp [ahas_eq, hut]
        | some ut =>
          simp only [if_true, Option.map_some, ahas_eq, hut, Option.isSome_some, and_true]
          rw [aget_aset]
          by_cases ea : app = app'
          · simp [ea]
          · simp [ea]
      · simp [e]
    refine ⟨?_, h.uniq, ?_, ?_, ?_, h.anch, ?_⟩
    · exact (by unfold updUser; exact uinv_amod h.u u _ (fun ut _ => Neutral.refl _))
    · intro e he
      rw [hlink]
      split
      · rfl
      · exact h.haslink e he
    · intro u' app' g hlk
      rw [hlink] at hlk
      split at hlk
      · by_cases eg : ensureGroup m ugs q = ""
        · simp [eg] at hv; subst hv; cases hlk
        · have : (ensureGroup m ugs q == "") = false := by simpa using eg
          simp only [this, Bool.false_eq_true, if_false] at hv
          subst hv
          simp only [Option.some.injEq] at hlk
          subst hlk
          exact h.resolv ugs q eg
      · exact h.linked u' app' g hlk
    · intro ugs' q' hne
      have he : ensureGroup (updUser m u (fun ut => { ut with appGroups := aset ut.appGroups app v })) ugs' q' = ensureGroup m ugs' q' :=
        ensureGroup_congr (m := m) (m' := updUser m u (fun ut => { ut with appGroups := aset ut.appGroups app v })) rfl rfl ugs' q'
      rw [he] at hne ⊢
      exact h.resolv ugs' q' hne
    · intro g gt hne hgt
      have : groupAllocs (updUser m u (fun ut => { ut with appGroups := aset ut.appGroups app v })) L g = groupAllocs m L g := by
        apply groupAllocs_congr
        intro e he
        rw [hlink]
        split
        · rename_i hc
          have := h.haslink e he
          rw [← hc.1, ← hc.2.1, hnone] at this; cases this
        · rfl
      rw [this]; exact h.trees g gt hne hgt

/-! ### Headroom, CanRunApp -/

theorem ginv_headroomM {m : Mgr} {L : List (String × Alloc)} (h : GInv m L) (q : Path) (app u : String) (ugs : List String) :
    GInv (headroomM m q app u ugs).1 L := by
  have h1 := ginv_ensureUser h u
  have h2 : GInv (updUser (ensureUser m u) u (fun ut => { ut with qt := (headroom (ensureUser m u).userWild true ut.qt q).1 })) L :=
    ginv_updUser h1 u _ (fun _ => rfl) (fun ut _ => neutral_ensurePath _ _ _ _)
  unfold headroomM
  simp only
  generalize updUser (ensureUser m u) u (fun ut => { ut with qt := (headroom (ensureUser m u).userWild true ut.qt q).1 }) = m2 at h2
  have h3 : GInv (if hasGroupForApp m2 u app then m2 else ensureGroupTrackerForApp m2 q app u ugs) L := by
    split
    · exact h2
    · exact ginv_eGTFA h2 _ _ _ _
  generalize (if hasGroupForApp m2 u app then m2 else ensureGroupTrackerForApp m2 q app u ugs) = m3 at h3
  split
  · exact h3
  · split
    · exact h3
    · exact ginv_updGroup h3 _ _ (fun gt _ => ⟨neutral_ensurePath _ _ _ _, fun ha => ensurePath_anchored ha _ _ _⟩)

theorem ginv_canRunM {m : Mgr} {L : List (String × Alloc)} (h : GInv m L) (q : Path) (app u : String) (ugs : List String) :
    GInv (canRunM m q app u ugs).1 L := by
  have h1 := ginv_ensureUser h u
  have h2 : GInv (updUser (ensureUser m u) u (fun ut => { ut with qt := (canRunApp (ensureUser m u).userWild true ut.qt q app).1 })) L :=
    ginv_updUser h1 u _ (fun _ => rfl) (fun ut _ => neutral_ensurePath _ _ _ _)
  unfold canRunM
  simp only
  generalize updUser (ensureUser m u) u (fun ut => { ut with qt := (canRunApp (ensureUser m u).userWild true ut.qt q app).1 }) = m2 at h2
  have h3 : GInv (if hasGroupForApp m2 u app then m2 else ensureGroupTrackerForApp m2 q app u ugs) L := by
    split
    · exact h2
    · exact ginv_eGTFA h2 _ _ _ _
  generalize (if hasGroupForApp m2 u app then m2 else ensureGroupTrackerForApp m2 q app u ugs) = m3 at h3
  split
  · exact h3
  · split
    · exact h3
    · exact ginv_updGroup h3 _ _ (fun gt _ => ⟨neutral_ensurePath _ _ _ _, fun ha => ensurePath_anchored ha _ _ _⟩)

/-! ### IncreaseTrackedResource -/

theorem groupAllocs_append (m : Mgr) (L : List (String × Alloc)) (e : String × Alloc) (g : String) :
    groupAllocs m (L ++ [e]) g = groupAllocs m L g ++ (if groupForApp m e.1 e.2.app == g then [e.2] else []) := by
  unfold groupAllocs
  rw [List.filter_append, List.map_append]
  congr 1
  by_cases c : (groupForApp m e.1 e.2.app == g) = true
  · simp [List.filter, c]
  · simp [List.filter, c]

theorem linkOf_of_groupForApp {m : Mgr} {u app g : String} (h : groupForApp m u app = g) (hne : g ≠ "") :
    linkOf m u app = some (some g) := by
  rw [groupForApp_linkOf] at h
  cases hl : linkOf m u app with
  | none => rw [hl] at h; exact absurd h.symm hne
  | some x =>
    cases x with
    | none => rw [hl] at h; exact absurd h.symm hne
    | some g' => rw [hl] at h; simp only at h; rw [h]

/-- the booking itself, once the user tracker exists and the application is linked -/
theorem ginv_inc_final {m2 : Mgr} {L : List (String × Alloc)} (h : GInv m2 L) (q : Path) (app : String) (r : Res) (u : String)
    (hhas : hasGroupForApp m2 u app = true) (hr : wf r = true) (huniq : ∀ e ∈ L, e.2.app = app → e.1 = u)
    (hU : UInv (if (groupForApp (updUser m2 u (fun ut => { ut with qt := increase m2.userWild true ut.qt q app r })) u app == "") = true
              then updUser m2 u (fun ut => { ut with qt := increase m2.userWild true ut.qt q app r })
              else updGroup (updUser m2 u (fun ut => { ut with qt := increase m2.userWild true ut.qt q app r }))
                (groupForApp (updUser m2 u (fun ut => { ut with qt := increase m2.userWild true ut.qt q app r })) u app)
                (fun gt => { qt := increase [] false gt.qt q app r, apps := aset gt.apps app u })).users (L ++ [(u, ⟨app, q, r⟩)])) :
    GInv (if (groupForApp (updUser m2 u (fun ut => { ut with qt := increase m2.userWild true ut.qt q app r })) u app == "") = true
              then updUser m2 u (fun ut => { ut with qt := increase m2.userWild true ut.qt q app r })
              else updGroup (updUser m2 u (fun ut => { ut with qt := increase m2.userWild true ut.qt q app r }))
                (groupForApp (updUser m2 u (fun ut => { ut with qt := increase m2.userWild true ut.qt q app r })) u app)
                (fun gt => { qt := increase [] false gt.qt q app r, apps := aset gt.apps app u })) (L ++ [(u, ⟨app, q, r⟩)]) := by
  have hG : groupForApp (updUser m2 u (fun ut => { ut with qt := increase m2.userWild true ut.qt q app r })) u app = groupForApp m2 u app := by
    refine groupForApp_updUser_qt _ _ _ ?_ _ _; intro ut; rfl
  rw [hG] at hU ⊢
  generalize hm3 : updUser m2 u (fun ut => { ut with qt := increase m2.userWild true ut.qt q app r }) = m3 at hU ⊢
  have hl3 : ∀ u' app', linkOf m3 u' app' = linkOf m2 u' app' := by
    intro u' app'; rw [← hm3]; refine linkOf_updUser_qt _ _ _ ?_ _ _; intro ut; rfl
  have hgr3 : m3.groups = m2.groups := by rw [← hm3]; rfl
  have hc3 : m3.confGroups = m2.confGroups ∧ m3.groupWild = m2.groupWild := by rw [← hm3]; exact ⟨rfl, rfl⟩
  have hnewlink : (linkOf m2 u app).isSome = true := by rw [← hasGroup_linkOf]; exact hhas
  have huniq' : ∀ e1 ∈ L ++ [(u, (⟨app, q, r⟩ : Alloc))], ∀ e2 ∈ L ++ [(u, (⟨app, q, r⟩ : Alloc))], e1.2.app = e2.2.app → e1.1 = e2.1 := by
    intro e1 h1 e2 h2 he
    rcases List.mem_append.mp h1 with h1 | h1 <;> rcases List.mem_append.mp h2 with h2 | h2
    · exact h.uniq e1 h1 e2 h2 he
    · simp at h2; subst h2; exact huniq e1 h1 he
    · simp at h1; subst h1; exact (huniq e2 h2 he.symm).symm
    · simp at h1 h2; subst h1; subst h2; rfl
  by_cases hE : (groupForApp m2 u app == "") = true
  · rw [if_pos hE] at hU ⊢
    have hG0 : groupForApp m2 u app = "" := by simpa using hE
    refine ⟨hU, huniq', ?_, ?_, ?_, ?_, ?_⟩
    · intro e he
      rw [hl3]
      rcases List.mem_append.mp he with he | he
      · exact h.haslink e he
      · simp at he; subst he; exact hnewlink
    · intro u' app' g hlk; rw [hl3] at hlk; rw [hgr3]; exact h.linked u' app' g hlk
    · intro ugs' q' hne
      rw [ensureGroup_congr hc3.1 hc3.2] at hne ⊢
      rw [hgr3]; exact h.resolv ugs' q' hne
    · intro g gt hgt; rw [hgr3] at hgt; exact h.anch g gt hgt
    · intro g gt hne hgt
      rw [hgr3] at hgt
      rw [groupAllocs_congr (fun e _ => hl3 e.1 e.2.app), groupAllocs_append]
      have : (groupForApp m2 u app == g) = false := by rw [hG0]; simpa using fun e : "" = g => hne e.symm
      simp only [this, Bool.false_eq_true, if_false, List.append_nil]
      exact h.trees g gt hne hgt
  · rw [if_neg hE] at hU ⊢
    have hGne : groupForApp m2 u app ≠ "" := by simpa using hE
    generalize hGdef : groupForApp m2 u app = G at hU hGne ⊢
    have hlinkG := linkOf_of_groupForApp hGdef hGne
    have hget : ∀ g', aget (updGroup m3 G (fun gt => { qt := increase [] false gt.qt q app r, apps := aset gt.apps app u })).groups g' =
        if G = g' then (aget m2.groups g').map (fun gt => { qt := increase [] false gt.qt q app r, apps := aset gt.apps app u })
        else aget m2.groups g' := by
      intro g'; rw [aget_updGroup, hgr3]
    have hhas' : ∀ g', ahas m2.groups g' = true →
        ahas (updGroup m3 G (fun gt => { qt := increase [] false gt.qt q app r, apps := aset gt.apps app u })).groups g' = true := by
      intro g' hh
      rw [ahas_eq] at hh ⊢
      rw [hget]
      by_cases e : G = g'
      · subst e; cases hx : aget m2.groups G with
        | none => rw [hx] at hh; cases hh
        | some x => simp
      · simp [e]; exact hh
    refine ⟨hU, huniq', ?_, ?_, ?_, ?_, ?_⟩
    · intro e he
      show (linkOf m3 e.1 e.2.app).isSome = true
      rw [hl3]
      rcases List.mem_append.mp he with he | he
      · exact h.haslink e he
      · simp at he; subst he; exact hnewlink
    · intro u' app' g hlk
      have : linkOf m2 u' app' = some (some g) := by rw [← hl3]; exact hlk
      exact hhas' g (h.linked u' app' g this)
    · intro ugs' q' hne
      have he : ensureGroup (updGroup m3 G (fun gt => { qt := increase [] false gt.qt q app r, apps := aset gt.apps app u })) ugs' q' = ensureGroup m2 ugs' q' :=
        ensureGroup_congr (m := m2) (m' := updGroup m3 G _) hc3.1 hc3.2 ugs' q'
      rw [he] at hne ⊢
      exact hhas' _ (h.resolv ugs' q' hne)
    · intro g gt hgt
      rw [hget] at hgt
      by_cases e : G = g
      · subst e
        cases hx : aget m2.groups G with
        | none => rw [hx] at hgt; simp at hgt
        | some x =>
          rw [hx] at hgt; simp only [if_true, Option.map_some, Option.some.injEq] at hgt; subst hgt
          exact increase_anchored (h.anch G x hx) _ _ _ _ _
      · simp only [e, if_false] at hgt; exact h.anch g gt hgt
    · intro g gt hne hgt
      rw [hget] at hgt
      have hga : groupAllocs (updGroup m3 G (fun gt => { qt := increase [] false gt.qt q app r, apps := aset gt.apps app u }))
          (L ++ [(u, ⟨app, q, r⟩)]) g = groupAllocs m2 L g ++ (if (G == g) = true then [(⟨app, q, r⟩ : Alloc)] else []) := by
        have hlg : ∀ e ∈ L ++ [(u, (⟨app, q, r⟩ : Alloc))],
            linkOf (updGroup m3 G (fun gt => { qt := increase [] false gt.qt q app r, apps := aset gt.apps app u })) e.1 e.2.app = linkOf m2 e.1 e.2.app :=
          fun e _ => hl3 e.1 e.2.app
        rw [groupAllocs_congr hlg, groupAllocs_append]
        simp only [hGdef]
      rw [hga]
      by_cases e : G = g
      · subst e
        cases hx : aget m2.groups G with
        | none => rw [hx] at hgt; simp at hgt
        | some x =>
          rw [hx] at hgt; simp only [if_true, Option.map_some, Option.some.injEq] at hgt; subst hgt
          simp only [beq_self_eq_true, if_true]
          exact inv_inc (h.trees G x hne hx) [] false ⟨app, q, r⟩ hr
      · simp only [e, if_false] at hgt
        have : (G == g) = false := by simpa using e
        simp only [this, Bool.false_eq_true, if_false, List.append_nil]
        exact h.trees g gt hne hgt

theorem ginv_increaseM {m : Mgr} {L : List (String × Alloc)} (h : GInv m L) (q : Path) (app : String) (r : Res) (u : String)
    (ugs : List String) (hq : q.take 1 = rootPath) (happ : app ≠ "") (hu : u ≠ "") (hr : wf r = true)
    (huniq : ∀ e ∈ L, e.2.app = app → e.1 = u) :
    GInv (increaseM m q app r u ugs) (L ++ [(u, ⟨app, q, r⟩)]) := by
  have hU := uinv_increaseM h.u q app r u ugs hq happ hu hr
  have hguard : (q.isEmpty || app == "" || u == "") = false := by
    have h1 : q.isEmpty = false := by cases q with | nil => cases hq | cons a b => rfl
    have h2 : (app == "") = false := by simpa using happ
    have h3 : (u == "") = false := by simpa using hu
    simp [h1, h2, h3]
  unfold increaseM at hU ⊢
  rw [hguard] at hU ⊢
  simp only [Bool.false_eq_true, if_false] at hU ⊢
  have h1 := ginv_ensureUser h u
  have hex : ahas (ensureUser m u).users u = true := by
    rw [ahas_eq, aget_ensureUser]; cases aget m.users u <;> simp
  have h2 : GInv (if hasGroupForApp (ensureUser m u) u app then ensureUser m u
      else ensureGroupTrackerForApp (ensureUser m u) q app u ugs) L ∧
      hasGroupForApp (if hasGroupForApp (ensureUser m u) u app then ensureUser m u
      else ensureGroupTrackerForApp (ensureUser m u) q app u ugs) u app = true := by
    by_cases hh : hasGroupForApp (ensureUser m u) u app = true
    · rw [if_pos hh]; exact ⟨h1, hh⟩
    · rw [if_neg hh]
      refine ⟨ginv_eGTFA h1 _ _ _ _, ?_⟩
      rw [ahas_eq] at hex
      cases hut : aget (ensureUser m u).users u with
      | none => rw [hut] at hex; cases hex
      | some ut =>
        obtain ⟨_, _, _, h', _⟩ := eGTFA_user (ensureUser m u) q app u ugs hut
        exact h'
  generalize (if hasGroupForApp (ensureUser m u) u app then ensureUser m u
      else ensureGroupTrackerForApp (ensureUser m u) q app u ugs) = m2 at h2 hU ⊢
  exact ginv_inc_final h2.1 q app r u h2.2 hr huniq hU

/-! ### DecreaseTrackedResource -/

theorem tracked_of_live {m : Mgr} {L : List (String × Alloc)} (h : UInv m.users L) {e : String × Alloc} (he : e ∈ L) :
    trackedApp m e.1 e.2.app = true := by
  obtain ⟨e1, e2⟩ := e
  have hmem : e2 ∈ userAllocs L e1 := mem_userAllocs.mpr he
  unfold trackedApp
  cases hut : aget m.users e1 with
  | none => rw [h.missing e1 hut] at hmem; cases hmem
  | some ut =>
    simp only
    obtain ⟨n, hn, _, hm⟩ := (h.trees e1 ut hut).live e2 hmem rootPath (rootPath_mem_prefixes (h.entries _ he).1)
    rw [hn]; simp only; exact List.contains_iff_mem.mpr hm

/-- a release creates no link -/
theorem linkOf_back_decreaseM (m : Mgr) (q : Path) (app0 : String) (r : Res) (u0 : String) (rm : Bool) (u app : String)
    (y : Option String) (h : linkOf (decreaseM m q app0 r u0 rm) u app = some y) : linkOf m u app = some y := by
  unfold decreaseM at h
  split at h
  · exact h
  · cases hut0 : aget m.users u0 with
    | none => rw [hut0] at h; exact h
    | some ut0 =>
      rw [hut0] at h
      simp only at h
      have hM1 : linkOf (if (decrease ut0.qt q app0 r rm).2 = true then ({ m with users := adel m.users u0 } : Mgr)
          else { m with users := aset m.users u0 { qt := (decrease ut0.qt q app0 r rm).1,
                                                    appGroups := if rm = true then adel ut0.appGroups app0 else ut0.appGroups } }) u app = some y →
          linkOf m u app = some y := by
        intro h1
        by_cases hd : (decrease ut0.qt q app0 r rm).2 = true
        · rw [if_pos hd] at h1
          unfold linkOf at h1 ⊢
          simp only [aget_adel] at h1
          by_cases e : u0 = u
          · simp [e] at h1
          · simp only [e, if_false] at h1; exact h1
        · rw [if_neg hd] at h1
          unfold linkOf at h1 ⊢
          simp only [aget_aset] at h1
          by_cases e : u0 = u
          · subst e
            rw [hut0]
            simp only [if_true] at h1 ⊢
            cases hrm : rm with
            | false => rw [hrm] at h1; simpa using h1
            | true =>
              rw [hrm] at h1
              simp only [if_true, aget_adel] at h1
              by_cases ea : app0 = app
              · simp [ea] at h1
              · simpa [ea] using h1
          · simp only [e, if_false] at h1; exact h1
      generalize (if (decrease ut0.qt q app0 r rm).2 = true then ({ m with users := adel m.users u0 } : Mgr)
          else { m with users := aset m.users u0 { qt := (decrease ut0.qt q app0 r rm).1,
                                                    appGroups := if rm = true then adel ut0.appGroups app0 else ut0.appGroups } }) = m1 at h hM1
      split at h
      · exact hM1 h
      · split at h
        · exact hM1 h
        · split at h
          · exact hM1 h
          · exact hM1 h

/-- taking one booked allocation out of the ledger, seen from a group -/
theorem groupAllocs_erase_perm (m : Mgr) {L : List (String × Alloc)} {u : String} {a : Alloc} (hin : (u, a) ∈ L) (g : String) :
    (groupAllocs m L g).Perm ((if groupForApp m u a.app == g then [a] else []) ++ groupAllocs m (L.erase (u, a)) g) := by
  have hp : L.Perm ((u, a) :: L.erase (u, a)) := List.perm_cons_erase hin
  have h1 := (hp.filter (fun e => groupForApp m e.1 e.2.app == g)).map (·.2)
  unfold groupAllocs
  refine h1.trans ?_
  rw [List.filter_cons]
  by_cases c : (groupForApp m u a.app == g) = true
  · simp [c]
  · simp [c]

theorem ginv_decreaseM {m : Mgr} {L : List (String × Alloc)} (h : GInv m L) (q : Path) (app : String) (r : Res) (u : String)
    (rm : Bool) (hin : (u, (⟨app, q, r⟩ : Alloc)) ∈ L)
    (hrm : rm = true → ∀ b ∈ userAllocs (L.erase (u, ⟨app, q, r⟩)) u, b.app ≠ app) :
    GInv (decreaseM m q app r u rm) (L.erase (u, ⟨app, q, r⟩)) := by
  have hU := uinv_decreaseM h.u q app r u rm hin hrm
  obtain ⟨hq, happ, hu⟩ := h.u.entries _ hin
  simp only at hq happ hu
  -- links: none created; those of the remaining live allocations kept
  have hbw := linkOf_back_decreaseM m q app r u rm
  have hkeep : ∀ e ∈ L.erase (u, (⟨app, q, r⟩ : Alloc)), linkOf (decreaseM m q app r u rm) e.1 e.2.app = linkOf m e.1 e.2.app := by
    intro e he
    have heL := List.mem_of_mem_erase he
    have hs := h.haslink e heL
    cases hl : linkOf m e.1 e.2.app with
    | none => rw [hl] at hs; cases hs
    | some x =>
      apply linkOf_decreaseM m q app r u rm e.1 e.2.app x hl (tracked_of_live h.u heL) (by rw [hq]; simp)
      cases hrmv : rm with
      | false => rfl
      | true =>
        by_cases e1 : u = e.1
        · by_cases e2 : app = e.2.app
          · exfalso
            obtain ⟨ea, eb⟩ := e
            simp only at e1 e2
            subst e1
            exact hrm hrmv eb (mem_userAllocs.mpr he) e2.symm
          · simp [e2]
        · simp [e1]
  -- the shape of the state
  have hguard : (q.isEmpty || app == "" || u == "") = false := by
    have h1 : q.isEmpty = false := by cases q with | nil => cases hq | cons a b => rfl
    have h2 : (app == "") = false := by simpa using happ
    have h3 : (u == "") = false := by simpa using hu
    simp [h1, h2, h3]
  have hmemU : (⟨app, q, r⟩ : Alloc) ∈ userAllocs L u := mem_userAllocs.mpr hin
  cases hut : aget m.users u with
  | none => rw [h.u.missing u hut] at hmemU; cases hmemU
  | some ut =>
  have hform : ∃ m1 : Mgr, m1.groups = m.groups ∧ m1.confGroups = m.confGroups ∧ m1.groupWild = m.groupWild ∧
      decreaseM m q app r u rm =
        (if (groupForApp m u app == "") = true then m1 else
          match aget m1.groups (groupForApp m u app) with
          | none => m1
          | some gt =>
            if (decrease gt.qt q app r rm).2 = true then { m1 with groups := adel m1.groups (groupForApp m u app) }
            else { m1 with groups := aset m1.groups (groupForApp m u app) ({ qt := (decrease gt.qt q app r rm).1, apps := if rm = true then adel gt.apps app else gt.apps } : GT) }) := by
    refine ⟨if (decrease ut.qt q app r rm).2 = true then ({ m with users := adel m.users u } : Mgr)
        else { m with users := aset m.users u { qt := (decrease ut.qt q app r rm).1,
                                                  appGroups := if rm = true then adel ut.appGroups app else ut.appGroups } }, ?_, ?_, ?_, ?_⟩
    · split <;> rfl
    · split <;> rfl
    · split <;> rfl
    · unfold decreaseM
      rw [hguard]
      simp only [Bool.false_eq_true, if_false]
      rw [hut]
      rfl
  obtain ⟨m1, hg1, hc1, hc2, hE⟩ := hform
  generalize hGdef : groupForApp m u app = G at hE
  have hcfg : (decreaseM m q app r u rm).confGroups = m.confGroups ∧ (decreaseM m q app r u rm).groupWild = m.groupWild := by
    rw [hE]
    split
    · exact ⟨hc1, hc2⟩
    · split
      · exact ⟨hc1, hc2⟩
      · split <;> exact ⟨hc1, hc2⟩
  -- the group trackers afterwards
  have hgroups : ∀ g', (g' ≠ G ∨ G = "" → aget (decreaseM m q app r u rm).groups g' = aget m.groups g') ∧
      (g' = G → G ≠ "" → ∀ gt, aget m.groups G = some gt → ∃ gt', aget (decreaseM m q app r u rm).groups G = some gt' ∧
        gt'.qt = (decrease gt.qt q app r rm).1) := by
    intro g'
    rw [hE]
    by_cases hG0 : (G == "") = true
    · rw [if_pos hG0]
      have : G = "" := by simpa using hG0
      exact ⟨fun _ => by rw [hg1], fun _ hne => absurd this hne⟩
    · rw [if_neg hG0]
      have hGne : G ≠ "" := by simpa using hG0
      rw [hg1]
      cases hgt : aget m.groups G with
      | none =>
        simp only
        exact ⟨fun _ => by rw [hg1], fun _ _ gt hx => by cases hx⟩
      | some gt =>
        simp only
        have hflag := (decrease_anchored (h.anch G gt hgt) q hq app r rm).2
        rw [hflag]
        simp only [Bool.false_eq_true, if_false]
        constructor
        · intro hc
          rcases hc with hc | hc
          · rw [aget_aset]; simp [Ne.symm hc]
          · exact absurd hc hGne
        · intro _ _ gt2 hx
          cases hx
          exact ⟨{ qt := (decrease gt.qt q app r rm).1, apps := if rm = true then adel gt.apps app else gt.apps },
            by rw [aget_aset]; simp, rfl⟩
  have hhas : ∀ g', ahas m.groups g' = true → ahas (decreaseM m q app r u rm).groups g' = true := by
    intro g' hh
    by_cases e : g' ≠ G ∨ G = ""
    · rw [ahas_eq, (hgroups g').1 e, ← ahas_eq]; exact hh
    · have e1 : g' = G := by
        cases Classical.em (g' = G) with
        | inl x => exact x
        | inr x => exact absurd (Or.inl x) e
      have e2 : G ≠ "" := fun x => e (Or.inr x)
      subst e1
      rw [ahas_eq] at hh
      cases hgt : aget m.groups g' with
      | none => rw [hgt] at hh; cases hh
      | some gt =>
        obtain ⟨gt', hgt', _⟩ := (hgroups g').2 rfl e2 gt hgt
        rw [ahas_eq, hgt']; rfl
  refine ⟨hU, ?_, ?_, ?_, ?_, ?_, ?_⟩
  · intro e1 h1 e2 h2; exact h.uniq e1 (List.mem_of_mem_erase h1) e2 (List.mem_of_mem_erase h2)
  · intro e he; rw [hkeep e he]; exact h.haslink e (List.mem_of_mem_erase he)
  · intro u' app' g hlk; exact hhas g (h.linked u' app' g (hbw u' app' _ hlk))
  · intro ugs' q' hne
    rw [ensureGroup_congr hcfg.1 hcfg.2] at hne ⊢
    exact hhas _ (h.resolv ugs' q' hne)
  · intro g gt' hgt'
    by_cases e : g ≠ G ∨ G = ""
    · rw [(hgroups g).1 e] at hgt'; exact h.anch g gt' hgt'
    · have e1 : g = G := by
        cases Classical.em (g = G) with
        | inl x => exact x
        | inr x => exact absurd (Or.inl x) e
      have e2 : G ≠ "" := fun x => e (Or.inr x)
      subst e1
      cases hgt : aget m.groups g with
      | none =>
        have := (hgroups g).1
        exfalso
        have hl := linkOf_of_groupForApp hGdef e2
        have := h.linked u app g hl
        rw [ahas_eq, hgt] at this; cases this
      | some gt =>
        obtain ⟨gt2, hgt2, hq2⟩ := (hgroups g).2 rfl e2 gt hgt
        rw [hgt2] at hgt'; cases hgt'
        rw [hq2]; exact (decrease_anchored (h.anch g gt hgt) q hq app r rm).1
  · intro g gt' hne hgt'
    -- the ledger of the group: links of the remaining allocations are unchanged
    rw [groupAllocs_congr hkeep]
    have hperm := groupAllocs_erase_perm m hin g
    simp only at hperm
    rw [hGdef] at hperm
    by_cases e : g ≠ G ∨ G = ""
    · rw [(hgroups g).1 e] at hgt'
      have hng : (G == g) = false := by
        rcases e with e | e
        · simpa using fun x : G = g => e x.symm
        · subst e; simpa using fun x : "" = g => hne x.symm
      rw [hng] at hperm
      simp only [Bool.false_eq_true, if_false, List.nil_append] at hperm
      exact inv_perm (h.trees g gt' hne hgt') hperm
    · have e1 : g = G := by
        cases Classical.em (g = G) with
        | inl x => exact x
        | inr x => exact absurd (Or.inl x) e
      subst e1
      simp only [beq_self_eq_true, if_true, List.singleton_append] at hperm
      cases hgt : aget m.groups g with
      | none =>
        exfalso
        have := h.linked u app g (linkOf_of_groupForApp hGdef hne)
        rw [ahas_eq, hgt] at this; cases this
      | some gt =>
        obtain ⟨gt2, hgt2, hq2⟩ := (hgroups g).2 rfl hne gt hgt
        rw [hgt2] at hgt'; cases hgt'
        rw [hq2]
        have hmemG : (⟨app, q, r⟩ : Alloc) ∈ groupAllocs m L g := hperm.mem_iff.mpr List.mem_cons_self
        have hperm2 : ((groupAllocs m L g).erase ⟨app, q, r⟩).Perm (groupAllocs m (L.erase (u, ⟨app, q, r⟩)) g) := by
          have := hperm.erase (⟨app, q, r⟩ : Alloc)
          rwa [List.erase_cons_head] at this
        apply inv_perm _ hperm2
        apply inv_dec (h.trees g gt hne hgt) ⟨app, q, r⟩ rm hmemG
        intro hrmv b hb
        have hb' : b ∈ groupAllocs m (L.erase (u, ⟨app, q, r⟩)) g := hperm2.mem_iff.mp hb
        unfold groupAllocs at hb'
        obtain ⟨e, he, heb⟩ := List.mem_map.mp hb'
        rw [List.mem_filter] at he
        intro happeq
        obtain ⟨e1, e2⟩ := e
        simp only at heb
        have hu' : e1 = u := h.uniq (e1, e2) (List.mem_of_mem_erase he.1) (u, ⟨app, q, r⟩) hin (by simp only; rw [heb]; exact happeq)
        subst hu'
        exact hrm hrmv b (mem_userAllocs.mpr (heb ▸ he.1)) happeq

/-! ### ensureGroupTrackerForApp gets-or-creates the user tracker (repo fix 0e885b2): a no-op at every call site

  The model's `ensureGroupTrackerForApp` looks the user tracker up (`updUser` on a missing user changes nothing); the code
  now calls `getUserTracker` (get or create).  Every caller — Headroom, CanRunApp, IncreaseTrackedResource — has run
  `ensureUser` for the same user just before, so in a single-threaded history the tracker exists and the two agree. -/

theorem ensureUser_of_has {m : Mgr} {u : String} (h : ahas m.users u = true) : ensureUser m u = m := by
  unfold ensureUser; rw [if_pos h]

theorem has_user_after_ensureUser (m : Mgr) (u : String) : ahas (ensureUser m u).users u = true := by
  rw [ahas_eq, aget_ensureUser]; cases aget m.users u <;> simp

theorem has_user_after_updUser (m : Mgr) (u : String) (f : UT → UT) : ahas (updUser (ensureUser m u) u f).users u = true := by
  rw [ahas_eq, aget_updUser]
  have := has_user_after_ensureUser m u
  rw [ahas_eq] at this
  cases h : aget (ensureUser m u).users u with
  | none => rw [h] at this; cases this
  | some ut => simp

/-- get-or-create in front of ensureGroupTrackerForApp changes nothing where Headroom / CanRunApp call it ... -/
theorem eGTFA_getOrCreate_noop_touch (m : Mgr) (u : String) (f : UT → UT) (q : Path) (app : String) (ugs : List String) :
    ensureGroupTrackerForApp (ensureUser (updUser (ensureUser m u) u f) u) q app u ugs
      = ensureGroupTrackerForApp (updUser (ensureUser m u) u f) q app u ugs := by
  rw [ensureUser_of_has (has_user_after_updUser m u f)]

/-- ... and where IncreaseTrackedResource calls it -/
theorem eGTFA_getOrCreate_noop_inc (m : Mgr) (u : String) (q : Path) (app : String) (ugs : List String) :
    ensureGroupTrackerForApp (ensureUser (ensureUser m u) u) q app u ugs = ensureGroupTrackerForApp (ensureUser m u) q app u ugs := by
  rw [ensureUser_of_has (has_user_after_ensureUser m u)]

/-! ### histories without reloads -/

theorem ginv_mStep {s : Mgr × List (String × Alloc)} (h : GInv s.1 s.2) (op : Op) (hok : gOpOk s.2 op) :
    GInv (mStep s op).1 (mStep s op).2 := by
  cases op with
  | conf c => exact absurd hok (by simp [gOpOk])
  | headroom q app u ugs => exact ginv_headroomM h q app u ugs
  | canRun q app u ugs => exact ginv_canRunM h q app u ugs
  | inc q app r u ugs => exact ginv_increaseM h q app r u ugs hok.1.1 hok.1.2.1 hok.1.2.2.1 hok.1.2.2.2 hok.2
  | dec q app r u rm => exact ginv_decreaseM h q app r u rm hok.1 hok.2

theorem ginv_run : ∀ (ops : List Op) (s : Mgr × List (String × Alloc)), GInv s.1 s.2 → gHistOk s ops →
    GInv (ops.foldl mStep s).1 (ops.foldl mStep s).2 := by
  intro ops
  induction ops with
  | nil => intro s h _; exact h
  | cons op ops ih =>
    intro s h hok
    rw [List.foldl_cons]
    exact ih _ (ginv_mStep h op hok.1) hok.2

end Yk.Ugm
