/-
  Life-cycle invariants (`LifeInv`, `NoPendInv` of Core2Life.lean), part A: the operations of the first part of the
  stepped model (`nodeCreate`, `nodeUpdate`, `nodeSchedulable`, `foreignAdd`, `foreignRemove`, `ask`, `schedAlloc`, the
  old `releaseKey`) and the bookkeeping-only ones (`reserve`, `unreserve`, `cleanup`, `markReleased`, `queuesAdd`,
  `appAdd`).
-/
import YkProofs.Core2Life
namespace Yk
open Res Core

namespace LifeA

/-! ### states that differ in nothing the life-cycle invariants look at -/

/-- item `j` is item `i` as far as the life-cycle invariants are concerned -/
def ItemSame (i j : CItem) : Prop :=
  j.res = i.res ∧ j.ph = i.ph ∧ j.bound = i.bound ∧ j.inReq = i.inReq ∧ j.allocated = i.allocated

theorem ItemSame.refl (i : CItem) : ItemSame i i := ⟨rfl, rfl, rfl, rfl, rfl⟩

theorem ItemSame.outstanding {i j : CItem} (h : ItemSame i j) : j.outstanding = i.outstanding := by
  obtain ⟨_, _, _, h4, h5⟩ := h
  unfold CItem.outstanding; rw [h4, h5]

/-- application `b` is application `a` with some items dropped, the others changed in irrelevant fields only -/
def AppSame (a b : CApp) : Prop :=
  b.live = a.live ∧ b.state = a.state ∧ ∀ j ∈ b.items, ∃ i ∈ a.items, ItemSame i j

theorem AppSame.refl (a : CApp) : AppSame a a := ⟨rfl, rfl, fun j hj => ⟨j, hj, ItemSame.refl j⟩⟩

/-- every application of `t` is an application of `s` (same life-cycle data) or a new one without items -/
def AppsSame (s t : Core) : Prop :=
  ∀ b ∈ t.apps, (∃ a ∈ s.apps, AppSame a b) ∨ (b.items = [] ∧ (b.live = true → terminated b.state = false))

/-- every non-foreign node entry of `t` has the size of one of `s` -/
def NodesSame (s t : Core) : Prop :=
  ∀ n ∈ t.nodes, ∀ x ∈ n.allocs, x.foreign = false → ∃ m ∈ s.nodes, ∃ y ∈ m.allocs, y.foreign = false ∧ y.res = x.res

theorem AppsSame.of_eq {s t : Core} (h : t.apps = s.apps) : AppsSame s t := by
  intro b hb; rw [h] at hb; exact Or.inl ⟨b, hb, AppSame.refl b⟩

theorem AppsSame.of_map {s t : Core} (g : CApp → CApp) (h : t.apps = s.apps.map g) (hg : ∀ a, AppSame a (g a)) :
    AppsSame s t := by
  intro b hb; rw [h] at hb
  obtain ⟨a, ha, rfl⟩ := List.mem_map.mp hb
  exact Or.inl ⟨a, ha, hg a⟩

theorem NodesSame.of_eq {s t : Core} (h : t.nodes = s.nodes) : NodesSame s t := by
  intro n hn x hx hf; rw [h] at hn; exact ⟨n, hn, x, hx, hf, rfl⟩

theorem NodesSame.of_map {s t : Core} (g : CNode → CNode) (h : t.nodes = s.nodes.map g)
    (hg : ∀ n, ∀ x ∈ (g n).allocs, x.foreign = false → x ∈ n.allocs) : NodesSame s t := by
  intro n hn x hx hf; rw [h] at hn
  obtain ⟨m, hm, rfl⟩ := List.mem_map.mp hn
  exact ⟨m, hm, x, hg m x hx hf, hf, rfl⟩

/-- the generic lemma: `LifeInv` only looks at `live`, `state` and the items' `res`, `ph`, `bound`, and at the sizes
    of the non-foreign node entries -/
theorem life_of_same {s t : Core} (ha : AppsSame s t) (hn : NodesSame s t) (h : LifeInv s) : LifeInv t := by
  refine { pos := ?_, posNode := ?_, completingNoReal := ?_, noPhOrphan := ?_, completedNoReal := ?_, termGone := ?_ }
  · intro b hb hl j hj
    rcases ha b hb with ⟨a, ham, h1, _, h3⟩ | ⟨he, _⟩
    · obtain ⟨i, hi, hr, _⟩ := h3 j hj
      rw [hr]; exact h.pos a ham (h1 ▸ hl) i hi
    · rw [he] at hj; cases hj
  · intro n hnm x hx hf
    obtain ⟨m, hm, y, hy, hyf, hyr⟩ := hn n hnm x hx hf
    rw [← hyr]; exact h.posNode m hm y hy hyf
  · intro b hb hl hst j hj hbd
    rcases ha b hb with ⟨a, ham, h1, h2, h3⟩ | ⟨he, _⟩
    · obtain ⟨i, hi, _, hp, hbo, _⟩ := h3 j hj
      rw [hp]; exact h.completingNoReal a ham (h1 ▸ hl) (h2 ▸ hst) i hi (hbo ▸ hbd)
    · rw [he] at hj; cases hj
  · intro b hb hd j hj hbd
    rcases ha b hb with ⟨a, ham, h1, h2, h3⟩ | ⟨he, _⟩
    · obtain ⟨i, hi, _, hp, hbo, _⟩ := h3 j hj
      rw [hp]; exact h.noPhOrphan a ham (by rw [← h1, ← h2]; exact hd) i hi (hbo ▸ hbd)
    · rw [he] at hj; cases hj
  · intro b hb hst j hj hbd
    rcases ha b hb with ⟨a, ham, _, h2, h3⟩ | ⟨he, _⟩
    · obtain ⟨i, hi, _, hp, hbo, _⟩ := h3 j hj
      rw [hp]; exact h.completedNoReal a ham (h2 ▸ hst) i hi (hbo ▸ hbd)
    · rw [he] at hj; cases hj
  · intro b hb hl
    rcases ha b hb with ⟨a, ham, h1, h2, _⟩ | ⟨_, ht⟩
    · rw [h2]; exact h.termGone a ham (h1 ▸ hl)
    · exact ht hl

/-- … and `NoPendInv` at `live`, `state` and the items' `inReq`, `allocated` -/
theorem nopend_of_same {s t : Core} (ha : AppsSame s t) (h : NoPendInv s) : NoPendInv t := by
  refine ⟨?_, ?_⟩
  · intro b hb hl hst j hj
    rcases ha b hb with ⟨a, ham, h1, h2, h3⟩ | ⟨he, _⟩
    · obtain ⟨i, hi, hs⟩ := h3 j hj
      rw [hs.outstanding]; exact h.completingNoPending a ham (h1 ▸ hl) (h2 ▸ hst) i hi
    · rw [he] at hj; cases hj
  · intro b hb hst j hj
    rcases ha b hb with ⟨a, ham, _, h2, h3⟩ | ⟨he, _⟩
    · obtain ⟨i, hi, hs⟩ := h3 j hj
      rw [hs.outstanding]; exact h.completedNoAsk a ham (h2 ▸ hst) i hi
    · rw [he] at hj; cases hj

/-- the sub-list version -/
theorem AppsSame.of_sub {s t : Core} (h : ∀ b ∈ t.apps, b ∈ s.apps) : AppsSame s t :=
  fun b hb => Or.inl ⟨b, h b hb, AppSame.refl b⟩

/-- one application is updated in irrelevant fields -/
theorem AppsSame.of_upd {s t : Core} (id : String) (f : CApp → CApp) (h : t.apps = updApps s.apps id f)
    (hf : ∀ a, AppSame a (f a)) : AppsSame s t := by
  refine AppsSame.of_map _ h ?_
  intro a; split
  · exact hf a
  · exact AppSame.refl a

/-- one node is updated, no new non-foreign entry -/
theorem NodesSame.of_upd {s t : Core} (id : String) (f : CNode → CNode) (h : t.nodes = updNs s.nodes id f)
    (hf : ∀ n, ∀ x ∈ (f n).allocs, x.foreign = false → x ∈ n.allocs) : NodesSame s t := by
  refine NodesSame.of_map _ h ?_
  intro n x hx hfo
  by_cases hd : (n.id == id) = true
  · rw [if_pos hd] at hx; exact hf n x hx hfo
  · rw [if_neg hd] at hx; exact hx

end LifeA

open LifeA

/-! ### node requests, foreign allocations -/

theorem LifeA.nodeCreate_same (s : Core) (id : String) (cap : Res) (b : Bool) :
    AppsSame s (s.nodeCreate id cap b) ∧ NodesSame s (s.nodeCreate id cap b) := by
  unfold nodeCreate
  split
  · exact ⟨AppsSame.of_eq rfl, NodesSame.of_eq rfl⟩
  · refine ⟨AppsSame.of_eq rfl, ?_⟩
    intro n hn x hx hf
    have hn' : n ∈ s.nodes ++ [_] := hn
    rcases List.mem_append.mp hn' with h | h
    · exact ⟨n, h, x, hx, hf, rfl⟩
    · rw [List.mem_singleton] at h; subst h; cases hx

theorem life_nodeCreate (s : Core) (id : String) (cap : Res) (b : Bool) (h : LifeInv s) : LifeInv (s.nodeCreate id cap b) :=
  life_of_same (nodeCreate_same s id cap b).1 (nodeCreate_same s id cap b).2 h

theorem nopend_nodeCreate (s : Core) (id : String) (cap : Res) (b : Bool) (h : NoPendInv s) :
    NoPendInv (s.nodeCreate id cap b) :=
  nopend_of_same (nodeCreate_same s id cap b).1 h

theorem LifeA.nodeUpdate_same (s : Core) (id : String) (cap : Res) :
    AppsSame s (s.nodeUpdate id cap) ∧ NodesSame s (s.nodeUpdate id cap) := by
  unfold nodeUpdate
  split
  · exact ⟨AppsSame.of_eq rfl, NodesSame.of_eq rfl⟩
  · split
    · exact ⟨AppsSame.of_eq rfl, NodesSame.of_eq rfl⟩
    · exact ⟨AppsSame.of_eq rfl, NodesSame.of_upd id _ rfl (fun n x hx _ => hx)⟩

theorem life_nodeUpdate (s : Core) (id : String) (cap : Res) (h : LifeInv s) : LifeInv (s.nodeUpdate id cap) :=
  life_of_same (nodeUpdate_same s id cap).1 (nodeUpdate_same s id cap).2 h

theorem nopend_nodeUpdate (s : Core) (id : String) (cap : Res) (h : NoPendInv s) : NoPendInv (s.nodeUpdate id cap) :=
  nopend_of_same (nodeUpdate_same s id cap).1 h

theorem LifeA.nodeSchedulable_same (s : Core) (id : String) (b : Bool) :
    AppsSame s (s.nodeSchedulable id b) ∧ NodesSame s (s.nodeSchedulable id b) :=
  ⟨AppsSame.of_eq rfl, NodesSame.of_upd id _ rfl (fun _ _ hx _ => hx)⟩

theorem life_nodeSchedulable (s : Core) (id : String) (b : Bool) (h : LifeInv s) : LifeInv (s.nodeSchedulable id b) :=
  life_of_same (nodeSchedulable_same s id b).1 (nodeSchedulable_same s id b).2 h

theorem nopend_nodeSchedulable (s : Core) (id : String) (b : Bool) (h : NoPendInv s) : NoPendInv (s.nodeSchedulable id b) :=
  nopend_of_same (nodeSchedulable_same s id b).1 h

theorem LifeA.foreignAdd_same (s : Core) (key node : String) (res : Res) :
    AppsSame s (s.foreignAdd key node res) ∧ NodesSame s (s.foreignAdd key node res) := by
  unfold foreignAdd
  split
  · exact ⟨AppsSame.of_eq rfl, NodesSame.of_eq rfl⟩
  · split
    · exact ⟨AppsSame.of_eq rfl, NodesSame.of_eq rfl⟩
    · refine ⟨AppsSame.of_eq rfl, NodesSame.of_upd node _ rfl ?_⟩
      intro n x hx hf
      rcases List.mem_append.mp hx with h | h
      · exact h
      · rw [List.mem_singleton] at h; rw [h] at hf; cases hf

theorem life_foreignAdd (s : Core) (key node : String) (res : Res) (h : LifeInv s) : LifeInv (s.foreignAdd key node res) :=
  life_of_same (foreignAdd_same s key node res).1 (foreignAdd_same s key node res).2 h

theorem nopend_foreignAdd (s : Core) (key node : String) (res : Res) (h : NoPendInv s) :
    NoPendInv (s.foreignAdd key node res) :=
  nopend_of_same (foreignAdd_same s key node res).1 h

theorem LifeA.foreignRemove_same (s : Core) (key : String) :
    AppsSame s (s.foreignRemove key) ∧ NodesSame s (s.foreignRemove key) := by
  unfold foreignRemove
  split
  · exact ⟨AppsSame.of_eq rfl, NodesSame.of_eq rfl⟩
  · split
    · exact ⟨AppsSame.of_eq rfl, NodesSame.of_eq rfl⟩
    · split
      · exact ⟨AppsSame.of_eq rfl, NodesSame.of_eq rfl⟩
      · exact ⟨AppsSame.of_eq rfl, NodesSame.of_upd _ _ rfl (fun n x hx _ => (List.mem_filter.mp hx).1)⟩

theorem life_foreignRemove (s : Core) (key : String) (h : LifeInv s) : LifeInv (s.foreignRemove key) :=
  life_of_same (foreignRemove_same s key).1 (foreignRemove_same s key).2 h

theorem nopend_foreignRemove (s : Core) (key : String) (h : NoPendInv s) : NoPendInv (s.foreignRemove key) :=
  nopend_of_same (foreignRemove_same s key).1 h

/-! ### reservations -/

theorem LifeA.reserve_same (s : Core) (app key node : String) :
    AppsSame s (s.reserve app key node) ∧ NodesSame s (s.reserve app key node) := by
  unfold reserve
  split
  · exact ⟨AppsSame.of_eq rfl, NodesSame.of_eq rfl⟩
  · split
    · exact ⟨AppsSame.of_eq rfl, NodesSame.of_eq rfl⟩
    · refine ⟨AppsSame.of_map _ rfl ?_, NodesSame.of_map _ rfl ?_⟩
      · intro a; split
        · exact ⟨rfl, rfl, fun j hj => ⟨j, hj, ItemSame.refl j⟩⟩
        · exact AppSame.refl a
      · intro n x hx _
        split at hx <;> exact hx

theorem life_reserve (s : Core) (app key node : String) (h : LifeInv s) : LifeInv (s.reserve app key node) :=
  life_of_same (reserve_same s app key node).1 (reserve_same s app key node).2 h

theorem nopend_reserve (s : Core) (app key node : String) (h : NoPendInv s) : NoPendInv (s.reserve app key node) :=
  nopend_of_same (reserve_same s app key node).1 h

theorem LifeA.unreserve_same (s : Core) (app key node : String) :
    AppsSame s (s.unreserve app key node) ∧ NodesSame s (s.unreserve app key node) := by
  unfold unreserve
  split
  · exact ⟨AppsSame.of_eq rfl, NodesSame.of_eq rfl⟩
  · split
    · exact ⟨AppsSame.of_eq rfl, NodesSame.of_eq rfl⟩
    · refine ⟨AppsSame.of_map _ rfl ?_, NodesSame.of_map _ rfl ?_⟩
      · intro a; split
        · exact ⟨rfl, rfl, fun j hj => ⟨j, hj, ItemSame.refl j⟩⟩
        · exact AppSame.refl a
      · intro n x hx _
        split at hx <;> exact hx

theorem life_unreserve (s : Core) (app key node : String) (h : LifeInv s) : LifeInv (s.unreserve app key node) :=
  life_of_same (unreserve_same s app key node).1 (unreserve_same s app key node).2 h

theorem nopend_unreserve (s : Core) (app key node : String) (h : NoPendInv s) : NoPendInv (s.unreserve app key node) :=
  nopend_of_same (unreserve_same s app key node).1 h

/-! ### `cleanup`, `markReleased` -/

theorem LifeA.cleanup_same (s : Core) : AppsSame s s.cleanup ∧ NodesSame s s.cleanup :=
  ⟨AppsSame.of_sub (fun _ hb => (List.mem_filter.mp hb).1), NodesSame.of_eq rfl⟩

theorem life_cleanup (s : Core) (h : LifeInv s) : LifeInv s.cleanup :=
  life_of_same (cleanup_same s).1 (cleanup_same s).2 h

theorem nopend_cleanup (s : Core) (h : NoPendInv s) : NoPendInv s.cleanup :=
  nopend_of_same (cleanup_same s).1 h

theorem LifeA.markReleased_same (c : Core) (app key : String) (preempted : Bool) :
    AppsSame c (c.markReleased app key preempted) ∧ NodesSame c (c.markReleased app key preempted) := by
  have hf : ∀ a : CApp, AppSame a { a with items := a.items.map (fun x =>
      if x.key == key then (if preempted then { x with preempted := true } else { x with released := true }) else x) } := by
    intro a
    refine ⟨rfl, rfl, ?_⟩
    intro j hj
    obtain ⟨i, hi, rfl⟩ := List.mem_map.mp hj
    refine ⟨i, hi, ?_⟩
    split
    · split <;> exact ⟨rfl, rfl, rfl, rfl, rfl⟩
    · exact ItemSame.refl i
  unfold markReleased
  split
  · exact ⟨AppsSame.of_eq rfl, NodesSame.of_eq rfl⟩
  · split
    · exact ⟨AppsSame.of_eq rfl, NodesSame.of_eq rfl⟩
    · dsimp only
      split
      · exact ⟨AppsSame.of_upd app _ rfl hf, NodesSame.of_eq rfl⟩
      · exact ⟨AppsSame.of_upd app _ rfl hf, NodesSame.of_eq rfl⟩

theorem life_markReleased (c : Core) (app key : String) (preempted : Bool) (h : LifeInv c) :
    LifeInv (c.markReleased app key preempted) :=
  life_of_same (markReleased_same c app key preempted).1 (markReleased_same c app key preempted).2 h

theorem nopend_markReleased (c : Core) (app key : String) (preempted : Bool) (h : NoPendInv c) :
    NoPendInv (c.markReleased app key preempted) :=
  nopend_of_same (markReleased_same c app key preempted).1 h

/-! ### `queuesAdd`, `appAdd` -/

theorem life_queuesAdd (s : Core) (nq : List CQueue) (h : LifeInv s) : LifeInv (s.queuesAdd nq) :=
  life_of_same (s := s) (t := s.queuesAdd nq) (AppsSame.of_eq rfl) (NodesSame.of_eq rfl) h

theorem nopend_queuesAdd (s : Core) (nq : List CQueue) (h : NoPendInv s) : NoPendInv (s.queuesAdd nq) :=
  nopend_of_same (s := s) (t := s.queuesAdd nq) (AppsSame.of_eq rfl) h

/-- side condition of `appAdd`: the new application is not submitted in a terminated state -/
theorem LifeA.appAdd_same (s : Core) (a : Option CApp) (nq : List CQueue) (hst : ∀ x, a = some x → terminated x.state = false) :
    AppsSame s (s.appAdd a nq) ∧ NodesSame s (s.appAdd a nq) := by
  unfold appAdd
  dsimp only
  split
  · exact ⟨AppsSame.of_eq rfl, NodesSame.of_eq rfl⟩
  · rename_i x
    split
    · exact ⟨AppsSame.of_eq rfl, NodesSame.of_eq rfl⟩
    · refine ⟨?_, NodesSame.of_eq rfl⟩
      intro b hb
      have hb' : b ∈ s.apps ++ [_] := hb
      rcases List.mem_append.mp hb' with h | h
      · exact Or.inl ⟨b, h, AppSame.refl b⟩
      · rw [List.mem_singleton] at h; subst h
        exact Or.inr ⟨rfl, fun _ => hst x rfl⟩

theorem life_appAdd (s : Core) (a : Option CApp) (nq : List CQueue) (h : LifeInv s)
    (hst : ∀ x, a = some x → terminated x.state = false) : LifeInv (s.appAdd a nq) :=
  life_of_same (appAdd_same s a nq hst).1 (appAdd_same s a nq hst).2 h

theorem nopend_appAdd (s : Core) (a : Option CApp) (nq : List CQueue) (h : NoPendInv s)
    (hst : ∀ x, a = some x → terminated x.state = false) : NoPendInv (s.appAdd a nq) :=
  nopend_of_same (appAdd_same s a nq hst).1 h

/-! ### facts about the state machine -/

namespace LifeA

theorem ofName_name {st : String} {a : AppState} (h : AppState.ofName st = some a) : a.name = st := by
  unfold AppState.ofName at h
  simpa using List.find?_some h

/-- RunApplication keeps the state or moves it to Accepted / Running -/
theorem fire_run_cases (st : String) :
    fireState st .run = st ∨ fireState st .run = "Accepted" ∨ fireState st .run = "Running" := by
  unfold fireState
  cases h : AppState.ofName st with
  | none => exact Or.inl rfl
  | some a =>
    have hn := ofName_name h
    subst hn
    cases a <;> decide

theorem fire_run_ne_completing (st : String) : fireState st .run ≠ "Completing" := by
  intro h
  rcases fire_run_cases st with h1 | h1 | h1
  · rw [h1] at h; subst h; revert h1; decide
  · rw [h1] at h; revert h; decide
  · rw [h1] at h; revert h; decide

theorem fire_run_completed {st : String} (h : fireState st .run = "Completed") : st = "Completed" := by
  rcases fire_run_cases st with h1 | h1 | h1
  · rw [← h1]; exact h
  · rw [h1] at h; exact absurd h (by decide)
  · rw [h1] at h; exact absurd h (by decide)

theorem fire_run_terminated {st : String} (h : terminated (fireState st .run) = true) : terminated st = true := by
  rcases fire_run_cases st with h1 | h1 | h1
  · rw [← h1]; exact h
  · rw [h1] at h; exact absurd h (by decide)
  · rw [h1] at h; exact absurd h (by decide)

end LifeA

/-! ### a new ask -/

namespace LifeA

/-- the state of the application after a new ask: RunApplication for a New / Completing one -/
def askState (st : String) : String := if st == "New" || st == "Completing" then fireState st .run else st

theorem askState_props (st : String) :
    askState st ≠ "Completing" ∧ (terminated (askState st) = true → terminated st = true) := by
  unfold askState
  by_cases h : (st == "New" || st == "Completing") = true
  · rw [if_pos h]; exact ⟨fire_run_ne_completing st, fire_run_terminated⟩
  · rw [if_neg h]
    refine ⟨?_, id⟩
    intro hc; subst hc; exact h (by decide)

/-- `ask_lists` of Core2Old.lean with the state of the updated record -/
theorem ask_lists' (s : Core) (app key : String) (res : Res) (ph : Bool) (tg reqNode : String) :
    (s.ask app key res ph tg reqNode).1 = s ∨
    ∃ a, s.findApp app = some a ∧ strictlyGreaterThanZero (some res) = true ∧
      ∃ f : CApp → CApp,
        (s.ask app key res ph tg reqNode).1.apps = updApps s.apps app f ∧
        (s.ask app key res ph tg reqNode).1.nodes = s.nodes ∧
        (∀ x, (f x).live = x.live ∧ (f x).state = askState a.state ∧
          (f x).items = x.items ++ [askItem key res ph tg reqNode]) := by
  unfold ask
  split
  · exact Or.inl rfl
  · rename_i a hfind
    split
    · exact Or.inl rfl
    · rename_i hz
      split
      · exact Or.inl rfl
      · right
        have hz' : strictlyGreaterThanZero (some res) = true := by
          cases hs : strictlyGreaterThanZero (some res) with
          | true => rfl
          | false => rw [hs] at hz; simp at hz
        exact ⟨a, hfind, hz', _, rfl, rfl, fun x => ⟨rfl, rfl, rfl⟩⟩

theorem terminated_completed : terminated "Completed" = true := by decide

end LifeA

/-- `ask` keeps the life-cycle invariant.  Side condition: the requested resource is a Go map (unique keys). -/
theorem life_ask (s : Core) (app key : String) (res : Res) (ph : Bool) (tg reqNode : String) (hw : CoreWF s)
    (h : LifeInv s) (hr : wf res = true) : LifeInv (s.ask app key res ph tg reqNode).1 := by
  rcases ask_lists' s app key res ph tg reqNode with he | ⟨a, hfind, hz, f, hta, htn, hf⟩
  · rw [he]; exact h
  · obtain ⟨ham, hl, hid⟩ := findApp_some hfind
    obtain ⟨f1, f2, f3⟩ := hf a
    obtain ⟨hs1, hs2⟩ := askState_props a.state
    have hnt : terminated (f a).state = false := by
      cases ht : terminated (f a).state with
      | false => rfl
      | true => rw [f2] at ht; have := hs2 ht; rw [h.termGone a ham hl] at this; cases this
    have hmem : ∀ b ∈ (s.ask app key res ph tg reqNode).1.apps, b = f a ∨ b ∈ s.apps := by
      intro b hb; rw [hta] at hb
      rcases mem_updApps hw.appIds ham hl hid hb with h1 | ⟨h1, _⟩
      · exact Or.inl h1
      · exact Or.inr h1
    refine { pos := ?_, posNode := ?_, completingNoReal := ?_, noPhOrphan := ?_, completedNoReal := ?_, termGone := ?_ }
    · intro b hb hbl j hj
      rcases hmem b hb with rfl | hbs
      · rw [f3] at hj
        rcases List.mem_append.mp hj with hj | hj
        · exact h.pos a ham hl j hj
        · rw [List.mem_singleton] at hj; rw [hj]; exact posRes_of_sgtz hr hz
      · exact h.pos b hbs hbl j hj
    · rw [htn]; exact h.posNode
    · intro b hb hbl hst
      rcases hmem b hb with rfl | hbs
      · exact absurd (f2 ▸ hst) hs1
      · exact h.completingNoReal b hbs hbl hst
    · intro b hb hd
      rcases hmem b hb with rfl | hbs
      · rcases hd with hd | hd
        · rw [f1, hl] at hd; cases hd
        · rw [hnt] at hd; cases hd
      · exact h.noPhOrphan b hbs hd
    · intro b hb hst
      rcases hmem b hb with rfl | hbs
      · rw [hst, terminated_completed] at hnt; cases hnt
      · exact h.completedNoReal b hbs hst
    · intro b hb hbl
      rcases hmem b hb with rfl | hbs
      · exact hnt
      · exact h.termGone b hbs hbl

theorem nopend_ask (s : Core) (app key : String) (res : Res) (ph : Bool) (tg reqNode : String) (hw : CoreWF s)
    (h : LifeInv s) (hp : NoPendInv s) : NoPendInv (s.ask app key res ph tg reqNode).1 := by
  rcases ask_lists' s app key res ph tg reqNode with he | ⟨a, hfind, _, f, hta, _, hf⟩
  · rw [he]; exact hp
  · obtain ⟨ham, hl, hid⟩ := findApp_some hfind
    obtain ⟨_, f2, _⟩ := hf a
    obtain ⟨hs1, hs2⟩ := askState_props a.state
    have hmem : ∀ b ∈ (s.ask app key res ph tg reqNode).1.apps, b = f a ∨ b ∈ s.apps := by
      intro b hb; rw [hta] at hb
      rcases mem_updApps hw.appIds ham hl hid hb with h1 | ⟨h1, _⟩
      · exact Or.inl h1
      · exact Or.inr h1
    refine ⟨?_, ?_⟩
    · intro b hb hbl hst
      rcases hmem b hb with rfl | hbs
      · exact absurd (f2 ▸ hst) hs1
      · exact hp.completingNoPending b hbs hbl hst
    · intro b hb hst
      rcases hmem b hb with rfl | hbs
      · have ht : terminated (askState a.state) = true := by rw [← f2, hst]; exact terminated_completed
        have := hs2 ht
        rw [h.termGone a ham hl] at this; cases this
      · exact hp.completedNoAsk b hbs hst

/-! ### the scheduler binds an ask -/

namespace LifeA

/-- the state after `schedAlloc`: unchanged (only possible for a placeholder) or RunApplication fired -/
theorem schedApp_state (key node : String) (i : CItem) (a : CApp) :
    ((schedApp key node i a).state = a.state ∧ i.ph = true) ∨ (schedApp key node i a).state = fireState a.state .run := by
  unfold schedApp
  cases i.ph
  · exact Or.inr rfl
  · show ((if equals (some (addX a.allocatedPh i.res)) (some a.phAsk) false = true then fireState a.state .run else a.state)
        = a.state ∧ true = true) ∨
      (if equals (some (addX a.allocatedPh i.res)) (some a.phAsk) false = true then fireState a.state .run else a.state)
        = fireState a.state .run
    split
    · exact Or.inr rfl
    · exact Or.inl ⟨rfl, rfl⟩

theorem schedApp_terminated {key node : String} {i : CItem} {a : CApp}
    (h : terminated (schedApp key node i a).state = true) : terminated a.state = true := by
  rcases schedApp_state key node i a with ⟨h1, _⟩ | h1
  · rw [← h1]; exact h
  · rw [h1] at h; exact fire_run_terminated h

theorem schedApp_completing {key node : String} {i : CItem} {a : CApp}
    (h : (schedApp key node i a).state = "Completing") : a.state = "Completing" ∧ i.ph = true := by
  rcases schedApp_state key node i a with ⟨h1, h2⟩ | h1
  · exact ⟨h1 ▸ h, h2⟩
  · rw [h1] at h; exact absurd h (fire_run_ne_completing _)

end LifeA

theorem life_schedAlloc (s s' : Core) (app key node : String) (hw : CoreWF s) (h : LifeInv s)
    (hs : s.schedAlloc app key node = some s') : LifeInv s' := by
  obtain ⟨a, n, i, hfind, _, hitem, hta, _, htn⟩ := schedAlloc_lists s s' app key node hs
  obtain ⟨ham, hl, hid⟩ := findApp_some hfind
  have him : i ∈ a.items := List.mem_of_find?_eq_some hitem
  have hik : i.key = key := by
    have := List.find?_some hitem
    simp only [Bool.and_eq_true, beq_iff_eq] at this
    exact this.1.1
  have hnt : terminated (schedApp key node i a).state = false := by
    cases ht : terminated (schedApp key node i a).state with
    | false => rfl
    | true => have := schedApp_terminated ht; rw [h.termGone a ham hl] at this; cases this
  have hmem : ∀ b ∈ s'.apps, b = schedApp key node i a ∨ b ∈ s.apps := by
    intro b hb; rw [hta] at hb
    rcases mem_updApps hw.appIds ham hl hid hb with h1 | ⟨h1, _⟩
    · exact Or.inl h1
    · exact Or.inr h1
  refine { pos := ?_, posNode := ?_, completingNoReal := ?_, noPhOrphan := ?_, completedNoReal := ?_, termGone := ?_ }
  · intro b hb hbl j hj
    rcases hmem b hb with rfl | hbs
    · rw [schedApp_items] at hj
      obtain ⟨x, hx, hc | hc⟩ := mem_updItem hj
      · rw [hc.2]; exact h.pos a ham hl x hx
      · rw [hc.2]; exact h.pos a ham hl x hx
    · exact h.pos b hbs hbl j hj
  · intro m hm x hx hf
    rw [htn] at hm
    obtain ⟨m0, hm0, rfl⟩ := List.mem_map.mp hm
    by_cases hd : (m0.id == node) = true
    · rw [if_pos hd] at hx
      rcases List.mem_append.mp hx with hx | hx
      · exact h.posNode m0 hm0 x hx hf
      · rw [List.mem_singleton] at hx; rw [hx]; exact h.pos a ham hl i him
    · rw [if_neg hd] at hx; exact h.posNode m0 hm0 x hx hf
  · intro b hb hbl hst j hj hbd
    rcases hmem b hb with rfl | hbs
    · obtain ⟨hst0, hph⟩ := schedApp_completing hst
      rw [schedApp_items] at hj
      obtain ⟨x, hx, hc | hc⟩ := mem_updItem hj
      · have : x = i := itemKeys_eq (hw.itemKeys a ham hl) hx him (hc.1.trans hik.symm)
        rw [hc.2, this]; exact hph
      · rw [hc.2] at hbd ⊢; exact h.completingNoReal a ham hl hst0 x hx hbd
    · exact h.completingNoReal b hbs hbl hst j hj hbd
  · intro b hb hd
    rcases hmem b hb with rfl | hbs
    · rcases hd with hd | hd
      · rw [schedApp_live, hl] at hd; cases hd
      · rw [hnt] at hd; cases hd
    · exact h.noPhOrphan b hbs hd
  · intro b hb hst
    rcases hmem b hb with rfl | hbs
    · rw [hst, terminated_completed] at hnt; cases hnt
    · exact h.completedNoReal b hbs hst
  · intro b hb hbl
    rcases hmem b hb with rfl | hbs
    · exact hnt
    · exact h.termGone b hbs hbl

theorem nopend_schedAlloc (s s' : Core) (app key node : String) (hw : CoreWF s) (h : LifeInv s) (hp : NoPendInv s)
    (hs : s.schedAlloc app key node = some s') : NoPendInv s' := by
  obtain ⟨a, n, i, hfind, _, _, hta, _, _⟩ := schedAlloc_lists s s' app key node hs
  obtain ⟨ham, hl, hid⟩ := findApp_some hfind
  have hmem : ∀ b ∈ s'.apps, b = schedApp key node i a ∨ b ∈ s.apps := by
    intro b hb; rw [hta] at hb
    rcases mem_updApps hw.appIds ham hl hid hb with h1 | ⟨h1, _⟩
    · exact Or.inl h1
    · exact Or.inr h1
  refine ⟨?_, ?_⟩
  · intro b hb hbl hst j hj
    rcases hmem b hb with rfl | hbs
    · obtain ⟨hst0, _⟩ := schedApp_completing hst
      rw [schedApp_items] at hj
      obtain ⟨x, hx, hc | hc⟩ := mem_updItem hj
      · rw [hc.2]; unfold CItem.outstanding schedItem; simp
      · rw [hc.2]; exact hp.completingNoPending a ham hl hst0 x hx
    · exact hp.completingNoPending b hbs hbl hst j hj
  · intro b hb hst
    rcases hmem b hb with rfl | hbs
    · have ht : terminated (schedApp key node i a).state = true := by rw [hst]; exact terminated_completed
      have := schedApp_terminated ht
      rw [h.termGone a ham hl] at this; cases this
    · exact hp.completedNoAsk b hbs hst

/-! ### releases: the old `releaseKey` (`rel1` then `rel2`) -/

namespace LifeA

/-- CompleteApplication keeps the state, or Accepted / Running → Completing, or Completing → Completed -/
theorem fire_complete_cases (st : String) :
    fireState st .complete = st ∨ fireState st .complete = "Completing" ∨
      (st = "Completing" ∧ fireState st .complete = "Completed") := by
  unfold fireState
  cases h : AppState.ofName st with
  | none => exact Or.inl rfl
  | some a =>
    have hn := ofName_name h
    subst hn
    cases a <;> decide

theorem not_terminated_completing : terminated "Completing" = false := by decide

/-- CompleteApplication on a state that is not terminated terminates only from Completing -/
theorem fire_complete_terminated {st : String} (hnt : terminated st = false)
    (h : terminated (fireState st .complete) = true) : st = "Completing" := by
  rcases fire_complete_cases st with h1 | h1 | ⟨h1, _⟩
  · rw [h1, hnt] at h; cases h
  · rw [h1, not_terminated_completing] at h; cases h
  · exact h1

theorem posNode_of_same {s t : Core} (hn : NodesSame s t)
    (h : ∀ n ∈ s.nodes, ∀ x ∈ n.allocs, x.foreign = false → PosRes x.res) :
    ∀ n ∈ t.nodes, ∀ x ∈ n.allocs, x.foreign = false → PosRes x.res := by
  intro n hnm x hx hf
  obtain ⟨m, hm, y, hy, hyf, hyr⟩ := hn n hnm x hx hf
  rw [← hyr]; exact h m hm y hy hyf

/-- the state of the application after one of its placeholder allocations is removed (old `relApp`): a Failing
    application progresses only when it holds no real allocation either -/
def phSt (a : CApp) (aph : Res) : String :=
  if isZero (some aph) &&
     ((a.state == "Completing" && !a.stateTimer) || (a.state == "Failing" && isZero (some a.allocated)) ||
      a.state == "Resuming" ||
      (isZero (some a.pending) && isZero (some a.allocated) && a.state != "Failing")) then
    (if a.state == "Failing" then fireState a.state .fail
     else if a.state == "Resuming" then fireState a.state .run
     else fireState a.state .complete)
  else a.state

/-- the state of the application after one of its real allocations is removed (old `relApp`), `alloc` the new total:
    a Failing application has failed once the placeholders are gone as well -/
def realSt (a : CApp) (alloc : Res) : String :=
  if isZero (some a.pending) && isZero (some alloc) then
    (if a.state == "Failing" then (if isZero (some a.allocatedPh) then fireState a.state .fail else a.state)
     else fireState a.state .complete)
  else a.state

theorem relApp_ph (key : String) (i : CItem) (a : CApp) (hph : i.ph = true) :
    (relApp key i a).state = phSt a (relApp key i a).allocatedPh ∧
    (relApp key i a).live = !(terminated (relApp key i a).state) := by
  unfold relApp; rw [hph]; exact ⟨rfl, rfl⟩

/-- the real branch: it, too, takes a terminated application out of the partition -/
theorem relApp_real (key : String) (i : CItem) (a : CApp) (hph : i.ph = false) :
    (relApp key i a).state = realSt a (relApp key i a).allocated ∧
    (relApp key i a).live = !(terminated (relApp key i a).state) := by
  unfold relApp; rw [hph]; exact ⟨rfl, rfl⟩

theorem failing_fail : fireState "Failing" .fail = "Failed" := by decide

theorem phSt_props (a : CApp) (aph : Res) (hnt : terminated a.state = false) :
    (phSt a aph = "Completing" →
      a.state = "Completing" ∨ (isZero (some a.pending) = true ∧ isZero (some a.allocated) = true)) ∧
    (phSt a aph = "Completed" → a.state = "Completing") ∧
    (terminated (phSt a aph) = true → isZero (some aph) = true) := by
  unfold phSt
  split
  · rename_i hc
    simp only [Bool.and_eq_true, Bool.or_eq_true, beq_iff_eq, Bool.not_eq_true', bne_iff_ne, ne_eq] at hc
    obtain ⟨hz, hd⟩ := hc
    by_cases hF : a.state = "Failing"
    · have e : (a.state == "Failing") = true := by rw [hF]; rfl
      rw [if_pos e, hF]
      refine ⟨fun h => absurd h (by decide), fun h => absurd h (by decide), fun _ => hz⟩
    · have e : ¬ (a.state == "Failing") = true := by simpa using hF
      rw [if_neg e]
      by_cases hR : a.state = "Resuming"
      · have e2 : (a.state == "Resuming") = true := by rw [hR]; rfl
        rw [if_pos e2, hR]
        refine ⟨fun h => absurd h (by decide), fun h => absurd h (by decide), fun _ => hz⟩
      · have e2 : ¬ (a.state == "Resuming") = true := by simpa using hR
        rw [if_neg e2]
        refine ⟨?_, ?_, fun _ => hz⟩
        · intro _
          rcases hd with ((hd | hd) | hd) | hd
          · exact Or.inl hd.1
          · exact absurd hd.1 hF
          · exact absurd hd hR
          · exact Or.inr hd.1
        · intro h
          exact fire_complete_terminated hnt (by rw [h]; exact terminated_completed)
  · refine ⟨fun h => Or.inl h, ?_, ?_⟩
    · intro h; rw [h, terminated_completed] at hnt; cases hnt
    · intro h; rw [hnt] at h; cases h

/-- the real branch on an application that is not Completing: it never completes; it terminates only as a Failing
    application without placeholders whose last real allocation goes -/
theorem realSt_props (a : CApp) (alloc : Res) (hnt : terminated a.state = false) (hne : a.state ≠ "Completing") :
    (realSt a alloc = "Completing" → isZero (some a.pending) = true ∧ isZero (some alloc) = true) ∧
    realSt a alloc ≠ "Completed" ∧
    (terminated (realSt a alloc) = true → a.state = "Failing" ∧ isZero (some a.allocatedPh) = true ∧
      isZero (some a.pending) = true ∧ isZero (some alloc) = true) := by
  unfold realSt
  split
  · rename_i hc
    simp only [Bool.and_eq_true] at hc
    by_cases hF : a.state = "Failing"
    · have e : (a.state == "Failing") = true := by rw [hF]; rfl
      rw [if_pos e]
      split
      · rename_i hz
        have hf : fireState a.state .fail = "Failed" := by rw [hF]; exact failing_fail
        rw [hf]
        exact ⟨fun _ => hc, by decide, fun _ => ⟨hF, hz, hc⟩⟩
      · refine ⟨fun _ => hc, ?_, ?_⟩
        · intro h; rw [h, terminated_completed] at hnt; cases hnt
        · intro h; rw [hnt] at h; cases h
    · have e : ¬ (a.state == "Failing") = true := by simpa using hF
      rw [if_neg e]
      have hnt' : terminated (fireState a.state .complete) = false := by
        cases ht : terminated (fireState a.state .complete) with
        | false => rfl
        | true => exact absurd (fire_complete_terminated hnt ht) hne
      refine ⟨fun _ => hc, ?_, ?_⟩
      · intro h; rw [h, terminated_completed] at hnt'; cases hnt'
      · intro h; rw [hnt'] at h; cases h
  · refine ⟨fun h => absurd h hne, ?_, ?_⟩
    · intro h; rw [h, terminated_completed] at hnt; cases hnt
    · intro h; rw [hnt] at h; cases h

/-- A Failing application whose last placeholder goes is Failed (and leaves the partition) when it holds no real
    allocation; with a real allocation left it stays Failing and live. -/
theorem relApp_failing_ph (key : String) (i : CItem) (a : CApp) (hph : i.ph = true) (hst : a.state = "Failing")
    (hz : isZero (some (relApp key i a).allocatedPh) = true) :
    (isZero (some a.allocated) = true → (relApp key i a).state = "Failed" ∧ (relApp key i a).live = false) ∧
    (isZero (some a.allocated) = false → (relApp key i a).state = "Failing" ∧ (relApp key i a).live = true) := by
  obtain ⟨e1, e2⟩ := relApp_ph key i a hph
  refine ⟨?_, ?_⟩ <;> intro hal
  · have hs : (relApp key i a).state = "Failed" := by
      rw [e1]; unfold phSt; simp [hz, hst, hal, failing_fail]
    refine ⟨hs, ?_⟩
    rw [e2, hs]; decide
  · have hs : (relApp key i a).state = "Failing" := by
      rw [e1]; unfold phSt; simp [hst, hal]
    refine ⟨hs, ?_⟩
    rw [e2, hs]; decide

/-- … and while placeholders are left nothing happens to it -/
theorem relApp_failing_ph_left (key : String) (i : CItem) (a : CApp) (hph : i.ph = true) (hst : a.state = "Failing")
    (hz : isZero (some (relApp key i a).allocatedPh) = false) :
    (relApp key i a).state = "Failing" ∧ (relApp key i a).live = true := by
  obtain ⟨e1, e2⟩ := relApp_ph key i a hph
  have hs : (relApp key i a).state = "Failing" := by
    rw [e1]; unfold phSt; simp [hz, hst]
  refine ⟨hs, ?_⟩
  rw [e2, hs]; decide

/-- The last real allocation of a Failing application (nothing pending) makes it Failed, and not live, when it holds no
    placeholder; with a placeholder left it stays Failing and live. -/
theorem relApp_failing_real (key : String) (i : CItem) (a : CApp) (hph : i.ph = false) (hst : a.state = "Failing")
    (hp : isZero (some a.pending) = true) (hz : isZero (some (relApp key i a).allocated) = true) :
    (isZero (some a.allocatedPh) = true → (relApp key i a).state = "Failed" ∧ (relApp key i a).live = false) ∧
    (isZero (some a.allocatedPh) = false → (relApp key i a).state = "Failing" ∧ (relApp key i a).live = true) := by
  obtain ⟨e1, e2⟩ := relApp_real key i a hph
  refine ⟨?_, ?_⟩ <;> intro hal
  · have hs : (relApp key i a).state = "Failed" := by
      rw [e1]; unfold realSt; simp [hp, hz, hst, hal, failing_fail]
    refine ⟨hs, ?_⟩
    rw [e2, hs]; decide
  · have hs : (relApp key i a).state = "Failing" := by
      rw [e1]; unfold realSt; simp [hp, hz, hst, hal]
    refine ⟨hs, ?_⟩
    rw [e2, hs]; decide

/-- what the life-cycle invariants need to know about the application after `relApp` -/
theorem relApp_facts (key : String) (i : CItem) (a : CApp) (hnt : terminated a.state = false)
    (hreal : i.ph = false → a.state ≠ "Completing") :
    ((relApp key i a).state = "Completing" → a.state = "Completing" ∨
      (isZero (some (relApp key i a).pending) = true ∧ isZero (some (relApp key i a).allocated) = true)) ∧
    ((relApp key i a).state = "Completed" → a.state = "Completing") ∧
    (((relApp key i a).live = false ∨ terminated (relApp key i a).state = true) →
      isZero (some (relApp key i a).allocatedPh) = true) ∧
    ((relApp key i a).live = true → terminated (relApp key i a).state = false) := by
  cases hph : i.ph with
  | true =>
    obtain ⟨e1, e2⟩ := relApp_ph key i a hph
    obtain ⟨p1, p2, p3⟩ := phSt_props a (relApp key i a).allocatedPh hnt
    rw [relApp_pending, relApp_allocated, if_pos hph]
    refine ⟨fun h => p1 (e1 ▸ h), fun h => p2 (e1 ▸ h), ?_, ?_⟩
    · intro h
      apply p3
      rw [← e1]
      rcases h with h | h
      · rw [e2] at h; simpa using h
      · exact h
    · intro h
      rw [e2] at h; simpa using h
  | false =>
    obtain ⟨e1, e2⟩ := relApp_real key i a hph
    obtain ⟨q1, q2, q3⟩ := realSt_props a (relApp key i a).allocated hnt (hreal hph)
    refine ⟨?_, ?_, ?_, ?_⟩
    · intro h
      rw [relApp_pending]
      exact Or.inr (q1 (e1 ▸ h))
    · intro h
      exact absurd (e1 ▸ h) q2
    · intro h
      have ht : terminated (relApp key i a).state = true := by
        rcases h with h | h
        · rw [e2] at h; simpa using h
        · exact h
      rw [relApp_allocatedPh, if_neg (by rw [hph]; exact Bool.false_ne_true)]
      exact (q3 (e1 ▸ ht)).2.1
    · intro h
      rw [e2] at h; simpa using h

/-- the items after `relApp`: the old ones, one of them unbound -/
theorem relApp_mem {key : String} {i : CItem} {a : CApp} {y : CItem} (hy : y ∈ (relApp key i a).items) :
    ∃ x ∈ a.items, y.res = x.res ∧ y.ph = x.ph ∧ y.outstanding = x.outstanding ∧ (y.bound = true → x.bound = true) := by
  rw [relApp_items] at hy
  obtain ⟨x, hx, rfl⟩ := List.mem_map.mp hy
  refine ⟨x, hx, ?_⟩
  split
  · exact ⟨rfl, rfl, rfl, fun h => by cases h⟩
  · exact ⟨rfl, rfl, rfl, id⟩

/-- the application and node lists after step (1) for a bound allocation (the node may be unknown) -/
theorem rel1_lists' (s : Core) (app key : String) (a : CApp) (i : CItem) (hbd : i.bound = true) :
    (rel1 s app key a i).apps = updApps s.apps app (fun _ => relApp key i a) ∧
    ((rel1 s app key a i).nodes = s.nodes ∨ (rel1 s app key a i).nodes = updNs s.nodes i.node (relNode key i)) := by
  unfold rel1
  simp only [hbd, if_true]
  cases s.findNode i.node <;> cases (relApp key i a).live <;> cases strictlyGreaterThanZero (some i.res) <;>
    exact ⟨rfl, by first | exact Or.inl rfl | exact Or.inr rfl⟩

theorem rel1_nodesSame (s : Core) (app key : String) (a : CApp) (i : CItem) : NodesSame s (rel1 s app key a i) := by
  cases hbd : i.bound with
  | false =>
    have : rel1 s app key a i = s := by unfold rel1; simp only [hbd, Bool.false_eq_true, if_false]
    rw [this]; exact NodesSame.of_eq rfl
  | true =>
    rcases (rel1_lists' s app key a i hbd).2 with h | h
    · exact NodesSame.of_eq h
    · exact NodesSame.of_upd _ _ h (fun n x hx _ => (List.mem_filter.mp hx).1)

/-- everything the two invariants need about step (1) of `releaseKey`, for a bound allocation -/
theorem rel1_setup (s : Core) (app key : String) (a : CApp) (i : CItem) (hw : CoreWF s) (hb : Books s) (h : LifeInv s)
    (hfind : s.findApp app = some a) (hitem : a.items.find? (·.key == key) = some i) (hbd : i.bound = true) :
    (∀ b ∈ (rel1 s app key a i).apps, b = relApp key i a ∨ b ∈ s.apps) ∧
    AppBooks (relApp key i a) ∧ AppWF (relApp key i a) ∧ (∀ j ∈ (relApp key i a).items, PosRes j.res) ∧
    (i.ph = false → a.state ≠ "Completing") := by
  obtain ⟨ham, hl, hid⟩ := findApp_some hfind
  obtain ⟨him, hkey⟩ := find_key_some hitem
  obtain ⟨_, hwa, hwh⟩ := hw.appRes a ham hl
  obtain ⟨hwr, _⟩ := hw.itemRes a ham hl i him
  refine ⟨?_, appBooks_relApp key i a (hb.apps a ham hl) (hw.itemKeys a ham hl) him hkey hbd hwa hwh hwr,
    appWF_relApp key i a (hw.app ham hl), ?_, ?_⟩
  · intro b hbm
    rw [(rel1_lists' s app key a i hbd).1] at hbm
    rcases mem_updApps (f := fun _ => relApp key i a) hw.appIds ham hl hid hbm with h1 | ⟨h1, _⟩
    · exact Or.inl h1
    · exact Or.inr h1
  · intro j hj
    obtain ⟨x, hx, hr, _⟩ := relApp_mem hj
    rw [hr]; exact h.pos a ham hl x hx
  · intro hph hst
    have := h.completingNoReal a ham hl hst i him hbd
    rw [hph] at this; cases this

theorem rel1_life (s : Core) (app key : String) (a : CApp) (i : CItem) (hw : CoreWF s) (hb : Books s) (h : LifeInv s)
    (hfind : s.findApp app = some a) (hitem : a.items.find? (·.key == key) = some i) :
    LifeInv (rel1 s app key a i) := by
  cases hbd : i.bound with
  | false =>
    have : rel1 s app key a i = s := by unfold rel1; simp only [hbd, Bool.false_eq_true, if_false]
    rw [this]; exact h
  | true =>
    obtain ⟨ham, hl, _⟩ := findApp_some hfind
    obtain ⟨hmem, hba', hwa', hpos', hreal⟩ := rel1_setup s app key a i hw hb h hfind hitem hbd
    obtain ⟨f1, f2, f3, f4⟩ := relApp_facts key i a (h.termGone a ham hl) hreal
    obtain ⟨z1, z2, _⟩ := AppBooks.none_of_zero hba' hwa' hpos'
    refine { pos := ?_, posNode := posNode_of_same (rel1_nodesSame s app key a i) h.posNode, completingNoReal := ?_,
             noPhOrphan := ?_, completedNoReal := ?_, termGone := ?_ }
    · intro b hbm hbl j hj
      rcases hmem b hbm with rfl | hbs
      · exact hpos' j hj
      · exact h.pos b hbs hbl j hj
    · intro b hbm hbl hst j hj hjb
      rcases hmem b hbm with rfl | hbs
      · rcases f1 hst with hc | ⟨_, hz⟩
        · obtain ⟨x, hx, _, hp, _, hxb⟩ := relApp_mem hj
          rw [hp]; exact h.completingNoReal a ham hl hc x hx (hxb hjb)
        · exact z1 hz j hj hjb
      · exact h.completingNoReal b hbs hbl hst j hj hjb
    · intro b hbm hd j hj hjb
      rcases hmem b hbm with rfl | hbs
      · exact z2 (f3 hd) j hj hjb
      · exact h.noPhOrphan b hbs hd j hj hjb
    · intro b hbm hst j hj hjb
      rcases hmem b hbm with rfl | hbs
      · obtain ⟨x, hx, _, hp, _, hxb⟩ := relApp_mem hj
        rw [hp]; exact h.completingNoReal a ham hl (f2 hst) x hx (hxb hjb)
      · exact h.completedNoReal b hbs hst j hj hjb
    · intro b hbm hbl
      rcases hmem b hbm with rfl | hbs
      · exact f4 hbl
      · exact h.termGone b hbs hbl

theorem rel1_nopend (s : Core) (app key : String) (a : CApp) (i : CItem) (hw : CoreWF s) (hb : Books s) (h : LifeInv s)
    (hp : NoPendInv s) (hfind : s.findApp app = some a) (hitem : a.items.find? (·.key == key) = some i) :
    NoPendInv (rel1 s app key a i) := by
  cases hbd : i.bound with
  | false =>
    have : rel1 s app key a i = s := by unfold rel1; simp only [hbd, Bool.false_eq_true, if_false]
    rw [this]; exact hp
  | true =>
    obtain ⟨ham, hl, _⟩ := findApp_some hfind
    obtain ⟨hmem, hba', hwa', hpos', hreal⟩ := rel1_setup s app key a i hw hb h hfind hitem hbd
    obtain ⟨f1, f2, _, _⟩ := relApp_facts key i a (h.termGone a ham hl) hreal
    obtain ⟨_, _, z3⟩ := AppBooks.none_of_zero hba' hwa' hpos'
    refine ⟨?_, ?_⟩
    · intro b hbm hbl hst j hj
      rcases hmem b hbm with rfl | hbs
      · rcases f1 hst with hc | ⟨hz, _⟩
        · obtain ⟨x, hx, _, _, ho, _⟩ := relApp_mem hj
          rw [ho]; exact hp.completingNoPending a ham hl hc x hx
        · exact z3 hz j hj
      · exact hp.completingNoPending b hbs hbl hst j hj
    · intro b hbm hst j hj
      rcases hmem b hbm with rfl | hbs
      · obtain ⟨x, hx, _, _, ho, _⟩ := relApp_mem hj
        rw [ho]; exact hp.completingNoPending a ham hl (f2 hst) x hx
      · exact hp.completedNoAsk b hbs hst j hj

/-- the live applications after step (1) still have their books -/
theorem rel1_appBooks (s : Core) (app key : String) (a : CApp) (i : CItem) (hw : CoreWF s) (hb : Books s) (h : LifeInv s)
    (hfind : s.findApp app = some a) (hitem : a.items.find? (·.key == key) = some i) :
    ∀ b ∈ (rel1 s app key a i).apps, b.live = true → AppBooks b := by
  cases hbd : i.bound with
  | false =>
    have : rel1 s app key a i = s := by unfold rel1; simp only [hbd, Bool.false_eq_true, if_false]
    rw [this]; exact hb.apps
  | true =>
    obtain ⟨hmem, hba', _⟩ := rel1_setup s app key a i hw hb h hfind hitem hbd
    intro b hbm hbl
    rcases hmem b hbm with rfl | hbs
    · exact hba'
    · exact hb.apps b hbs hbl

/-! step (2) -/

theorem rel2_lists (s1 : Core) (app key : String) (chain : List String) :
    rel2 s1 app key chain = s1 ∨
    ∃ a1 x, s1.findApp app = some a1 ∧ a1.items.find? (fun x => x.key == key && x.inReq) = some x ∧
      (rel2 s1 app key chain).apps = updApps s1.apps app (askApp key x) ∧ (rel2 s1 app key chain).nodes = s1.nodes := by
  unfold rel2
  split
  · exact Or.inl rfl
  · rename_i a1 hfind
    split
    · exact Or.inl rfl
    · rename_i x hitem
      right
      refine ⟨a1, x, hfind, hitem, ?_⟩
      split <;> exact ⟨rfl, rfl⟩

/-- the state after `askApp` -/
def askSt (a : CApp) (pending : Res) (hasPh : Bool) : String :=
  if isZero (some pending) && isZero (some a.allocated) && a.state != "Failing" && a.state != "Completing" && !hasPh
  then fireState a.state .complete else a.state

theorem askSt_props (a : CApp) (pending : Res) (hasPh : Bool) (hnt : terminated a.state = false) :
    (askSt a pending hasPh = "Completing" → a.state = "Completing" ∨
      (isZero (some pending) = true ∧ isZero (some a.allocated) = true)) ∧
    terminated (askSt a pending hasPh) = false := by
  unfold askSt
  split
  · rename_i hc
    simp only [Bool.and_eq_true, bne_iff_ne, ne_eq] at hc
    refine ⟨fun _ => Or.inr ⟨hc.1.1.1.1, hc.1.1.1.2⟩, ?_⟩
    cases ht : terminated (fireState a.state .complete) with
    | false => rfl
    | true => exact absurd (fire_complete_terminated hnt ht) hc.1.2
  · exact ⟨fun h => Or.inl h, hnt⟩

theorem askApp_facts (key : String) (x : CItem) (a : CApp) (hnt : terminated a.state = false) :
    (askApp key x a).live = a.live ∧ (askApp key x a).allocated = a.allocated ∧
    (askApp key x a).items = a.items.filter (·.key != key) ∧
    ((askApp key x a).state = "Completing" → a.state = "Completing" ∨
      (isZero (some (askApp key x a).pending) = true ∧ isZero (some a.allocated) = true)) ∧
    terminated (askApp key x a).state = false := by
  have e : (askApp key x a).state =
      askSt a (askApp key x a).pending ((askApp key x a).items.any (fun y => y.bound && y.ph)) := rfl
  obtain ⟨p1, p2⟩ := askSt_props a (askApp key x a).pending ((askApp key x a).items.any (fun y => y.bound && y.ph)) hnt
  exact ⟨rfl, rfl, rfl, fun h => p1 (e ▸ h), e ▸ p2⟩

/-- the pending total of the application after `askApp` is the sum over its outstanding items -/
theorem askApp_pending (key : String) (x : CItem) (a : CApp) (hwa : AppWF a) (hba : AppBooks a)
    (hitem : a.items.find? (fun x => x.key == key && x.inReq) = some x) (k : String) :
    (askApp key x a).pending.getD k = itemSum (askApp key x a).items (fun i => i.inReq && !i.allocated) k := by
  have hxm : x ∈ a.items := List.mem_of_find?_eq_some hitem
  have hxp := List.find?_some hitem
  simp only [Bool.and_eq_true, beq_iff_eq] at hxp
  obtain ⟨hxk, hxreq⟩ := hxp
  obtain ⟨hwr, _⟩ := hwa.itemRes x hxm
  show (if x.allocated = true then a.pending else prune (subX a.pending x.res)).getD k =
    itemSum (a.items.filter (fun y => y.key != key)) _ k
  rw [itemSum_rm _ hwa.itemKeys key x hxm hxk, ← hba.pending k]
  cases hal : x.allocated
  · simp [hxreq, prune_subX_getD _ _ hwa.appRes.1 hwr]
  · simp

theorem rel2_life (s1 : Core) (app key : String) (chain : List String) (hw : CoreWF s1)
    (hb : ∀ b ∈ s1.apps, b.live = true → AppBooks b) (h : LifeInv s1) : LifeInv (rel2 s1 app key chain) := by
  rcases rel2_lists s1 app key chain with he | ⟨a1, x, hfind, _, hta, htn⟩
  · rw [he]; exact h
  · obtain ⟨ham, hl, hid⟩ := findApp_some hfind
    obtain ⟨g1, g2, g3, g4, g5⟩ := askApp_facts key x a1 (h.termGone a1 ham hl)
    have hsub : ∀ j ∈ (askApp key x a1).items, j ∈ a1.items := fun j hj => by
      rw [g3] at hj; exact (List.mem_filter.mp hj).1
    obtain ⟨z1, _, _⟩ := AppBooks.none_of_zero (hb a1 ham hl) (hw.app ham hl) (h.pos a1 ham hl)
    have hmem : ∀ b ∈ (rel2 s1 app key chain).apps, b = askApp key x a1 ∨ b ∈ s1.apps := by
      intro b hbm; rw [hta] at hbm
      rcases mem_updApps hw.appIds ham hl hid hbm with h1 | ⟨h1, _⟩
      · exact Or.inl h1
      · exact Or.inr h1
    refine { pos := ?_, posNode := by rw [htn]; exact h.posNode, completingNoReal := ?_,
             noPhOrphan := ?_, completedNoReal := ?_, termGone := ?_ }
    · intro b hbm hbl j hj
      rcases hmem b hbm with rfl | hbs
      · exact h.pos a1 ham hl j (hsub j hj)
      · exact h.pos b hbs hbl j hj
    · intro b hbm hbl hst j hj hjb
      rcases hmem b hbm with rfl | hbs
      · rcases g4 hst with hc | ⟨_, hz⟩
        · exact h.completingNoReal a1 ham hl hc j (hsub j hj) hjb
        · exact z1 hz j (hsub j hj) hjb
      · exact h.completingNoReal b hbs hbl hst j hj hjb
    · intro b hbm hd j hj hjb
      rcases hmem b hbm with rfl | hbs
      · rcases hd with hd | hd
        · rw [g1, hl] at hd; cases hd
        · rw [g5] at hd; cases hd
      · exact h.noPhOrphan b hbs hd j hj hjb
    · intro b hbm hst j hj hjb
      rcases hmem b hbm with rfl | hbs
      · rw [hst, terminated_completed] at g5; cases g5
      · exact h.completedNoReal b hbs hst j hj hjb
    · intro b hbm hbl
      rcases hmem b hbm with rfl | hbs
      · exact g5
      · exact h.termGone b hbs hbl

theorem rel2_nopend (s1 : Core) (app key : String) (chain : List String) (hw : CoreWF s1)
    (hb : ∀ b ∈ s1.apps, b.live = true → AppBooks b) (h : LifeInv s1) (hp : NoPendInv s1) :
    NoPendInv (rel2 s1 app key chain) := by
  rcases rel2_lists s1 app key chain with he | ⟨a1, x, hfind, hitem, hta, _⟩
  · rw [he]; exact hp
  · obtain ⟨ham, hl, hid⟩ := findApp_some hfind
    obtain ⟨_, _, g3, g4, g5⟩ := askApp_facts key x a1 (h.termGone a1 ham hl)
    have hsub : ∀ j ∈ (askApp key x a1).items, j ∈ a1.items := fun j hj => by
      rw [g3] at hj; exact (List.mem_filter.mp hj).1
    have hwa := hw.app ham hl
    have hmem : ∀ b ∈ (rel2 s1 app key chain).apps, b = askApp key x a1 ∨ b ∈ s1.apps := by
      intro b hbm; rw [hta] at hbm
      rcases mem_updApps hw.appIds ham hl hid hbm with h1 | ⟨h1, _⟩
      · exact Or.inl h1
      · exact Or.inr h1
    refine ⟨?_, ?_⟩
    · intro b hbm hbl hst j hj
      rcases hmem b hbm with rfl | hbs
      · rcases g4 hst with hc | ⟨hz, _⟩
        · exact hp.completingNoPending a1 ham hl hc j (hsub j hj)
        · exact no_item_of_sum_zero (askApp key x a1).items (fun i => i.inReq && !i.allocated)
            (fun y hy => (hwa.itemRes y (hsub y hy)).2) (fun y hy => h.pos a1 ham hl y (hsub y hy))
            (fun k => by rw [← askApp_pending key x a1 hwa (hb a1 ham hl) hitem k]; exact getD_zero_of_isZero hz k) j hj
      · exact hp.completingNoPending b hbs hbl hst j hj
    · intro b hbm hst j hj
      rcases hmem b hbm with rfl | hbs
      · rw [hst, terminated_completed] at g5; cases g5
      · exact hp.completedNoAsk b hbs hst j hj

end LifeA

/-- The old `releaseKey` keeps the life-cycle invariant: no side condition.  (Its real branch cannot complete an
    application: a Completing application holds no real allocation.  It can fail one: a Failing application without
    placeholders whose last real allocation goes is Failed and leaves the partition; it then has no bound placeholder.) -/
theorem life_releaseKey (s : Core) (app key : String) (hw : CoreWF s) (hb : Books s) (h : LifeInv s) :
    LifeInv (s.releaseKey app key) := by
  cases hfind : s.findApp app with
  | none => unfold releaseKey; simp only [hfind]; exact h
  | some a =>
    cases hitem : a.items.find? (·.key == key) with
    | none => unfold releaseKey; simp only [hfind, hitem]; exact h
    | some i =>
      rw [releaseKey_eq s app key a i hfind hitem]
      exact rel2_life _ app key _ (wf_rel1 s app key a i hw hfind) (rel1_appBooks s app key a i hw hb h hfind hitem)
        (rel1_life s app key a i hw hb h hfind hitem)

theorem nopend_releaseKey (s : Core) (app key : String) (hw : CoreWF s) (hb : Books s) (h : LifeInv s) (hp : NoPendInv s) :
    NoPendInv (s.releaseKey app key) := by
  cases hfind : s.findApp app with
  | none => unfold releaseKey; simp only [hfind]; exact hp
  | some a =>
    cases hitem : a.items.find? (·.key == key) with
    | none => unfold releaseKey; simp only [hfind, hitem]; exact hp
    | some i =>
      rw [releaseKey_eq s app key a i hfind hitem]
      exact rel2_nopend _ app key _ (wf_rel1 s app key a i hw hfind) (rel1_appBooks s app key a i hw hb h hfind hitem)
        (rel1_life s app key a i hw hb h hfind hitem) (rel1_nopend s app key a i hw hb h hp hfind hitem)

end Yk
