/-
  Proofs for C19, op `children`: the candidates a parent queue offers (Queue.sortQueues) and the fair max chain
  (GetFairMaxResource / internalGetFairMaxResource).
-/
import YkProofs.Sort
import YkProofs.Res
namespace Yk
open Res

/-! ### the fair max chain -/

theorem foldl_set_get? (own : Res) (hw : wf own = true) (acc : Res) (k : String) :
    get? (own.foldl (fun out p => out.set p.1 p.2) acc) k = (get? own k).or (get? acc k) := by
  induction own generalizing acc with
  | nil => simp
  | cons p t ih =>
    obtain ⟨a, b⟩ := p
    rw [wf_cons] at hw
    simp only [Bool.and_eq_true, Bool.not_eq_true'] at hw
    rw [List.foldl_cons, ih hw.2, get?_cons, get?_set]
    by_cases h : k = a
    · subst h
      have : get? t k = none := by
        have h1 := hw.1
        rw [has_eq_get?] at h1
        cases hg : get? t k with
        | none => rfl
        | some v => rw [hg] at h1; cases h1
      simp [this]
    · simp [h]

/-- The merge per resource type: the queue's own value where it names the type, else the value handed down. -/
theorem fairMaxMerge_get? (limit own : Res) (hw : wf own = true) (ho : own ≠ []) (hl : limit ≠ []) (k : String) :
    (fairMaxMerge (some limit) (some own)).map (fun r => get? r k) = some ((get? own k).or (get? limit k)) := by
  unfold fairMaxMerge isEmpty
  have h1 : own.isEmpty = false := by cases own <;> simp_all
  have h2 : limit.isEmpty = false := by cases limit <;> simp_all
  simp only [h1, h2, Bool.or_self, Bool.false_eq_true, if_false, Option.map_some, orZero, Option.getD_some]
  rw [foldl_set_get? own hw limit k]

/-- Without an own max, or below an empty/absent limit, the value handed down is passed on unchanged (the own max
    of a queue is ignored when nothing is handed down). -/
theorem fairMaxMerge_passes (limit own : ORes) (h : isEmpty own = true ∨ isEmpty limit = true) :
    fairMaxMerge limit own = limit := by
  unfold fairMaxMerge
  rcases h with h | h <;> simp [h]

/-! ### the slice built by sortQueues and the lookup by queue -/

theorem lookup_zip_map {β} (f : Child → β) (cands : List Child) (hnd : (cands.map (·.name)).Nodup) (c : Child) (hc : c ∈ cands) :
    ((cands.map (·.name)).zip (cands.map f)).lookup c.name = some (f c) := by
  induction cands with
  | nil => cases hc
  | cons d t ih =>
    simp only [List.map_cons, List.zip_cons_cons, List.nodup_cons] at hnd ⊢
    rw [List.lookup_cons]
    by_cases hn : c.name = d.name
    · have hcd : c = d := by
        rcases List.mem_cons.mp hc with h | h
        · exact h
        · exact absurd (hn ▸ List.mem_map_of_mem (f := (·.name)) h) hnd.1
      subst hcd; simp
    · have : (c.name == d.name) = false := by simp [hn]
      rw [this]
      rcases List.mem_cons.mp hc with h | h
      · exact absurd (congrArg Child.name h) hn
      · exact ih hnd.2 h

/-- The fair max the comparator reads for a candidate is the candidate's own: the parent's chain merged with the
    candidate's own max — whatever the other candidates are and wherever the candidate stands in the slice. -/
theorem fairMaxByQueue_slice (pf : ORes) (cands : List Child) (hnd : (cands.map (·.name)).Nodup) (c : Child) (hc : c ∈ cands) :
    fairMaxByQueue cands (fairMaxSlice pf cands) c = fairMaxMerge pf c.max := by
  unfold fairMaxByQueue fairMaxSlice
  rw [lookup_zip_map (fun c => fairMaxMerge pf c.max) cands hnd c hc]; rfl

theorem offeredCands_names_nodup (cs : List Child) (hnd : (cs.map (·.name)).Nodup) : ((offeredCands cs).map (·.name)).Nodup :=
  hnd.sublist ((List.filter_sublist (l := cs)).map _)

/-! ### a stable sort only looks at the comparator on the elements it sorts -/

theorem insertStable_congr {α} (lt lt' : α → α → Bool) (x : α) (l : List α) (h : ∀ y ∈ l, lt x y = lt' x y) :
    insertStable lt x l = insertStable lt' x l := by
  induction l with
  | nil => rfl
  | cons y t ih =>
    simp only [insertStable]
    rw [h y List.mem_cons_self, ih (fun z hz => h z (List.mem_cons_of_mem _ hz))]

theorem foldl_insertStable_congr {α} (lt lt' : α → α → Bool) (L l acc : List α)
    (h : ∀ x ∈ L, ∀ y ∈ L, lt x y = lt' x y) (hl : ∀ x ∈ l, x ∈ L) (ha : ∀ x ∈ acc, x ∈ L) :
    l.foldl (fun acc x => insertStable lt x acc) acc = l.foldl (fun acc x => insertStable lt' x acc) acc := by
  induction l generalizing acc with
  | nil => rfl
  | cons x t ih =>
    simp only [List.foldl_cons]
    have hx := hl x List.mem_cons_self
    rw [insertStable_congr lt lt' x acc (fun y hy => h x hx y (ha y hy))]
    apply ih _ (fun z hz => hl z (List.mem_cons_of_mem _ hz))
    intro z hz
    rcases List.mem_cons.mp ((insertStable_perm lt' x acc).mem_iff.mp hz) with rfl | hz'
    · exact hx
    · exact ha z hz'

theorem stableSort_congr {α} (lt lt' : α → α → Bool) (l : List α) (h : ∀ x ∈ l, ∀ y ∈ l, lt x y = lt' x y) :
    stableSort lt l = stableSort lt' l :=
  foldl_insertStable_congr lt lt' l l [] h (fun _ hx => hx) (fun _ hx => by cases hx)

theorem stableSort_perm {α} (lt : α → α → Bool) (l : List α) : (stableSort lt l).Perm l := by
  have : ∀ (l acc : List α), (l.foldl (fun acc x => insertStable lt x acc) acc).Perm (l ++ acc) := by
    intro l
    induction l with
    | nil => intro acc; exact List.Perm.refl _
    | cons x t ih =>
      intro acc
      simp only [List.foldl_cons]
      exact (ih _).trans (((insertStable_perm lt x acc).append_left t).trans List.perm_middle)
  simpa [stableSort] using this l []

/-- `stableSort_perm_sorted` with the order axioms required only of the elements being sorted. -/
theorem stableSort_sorted_on {α} [DecidableEq α] (lt : α → α → Bool) (l : List α)
    (hirr : ∀ a ∈ l, lt a a = false)
    (htr : ∀ a ∈ l, ∀ b ∈ l, ∀ c ∈ l, lt a b = true → lt b c = true → lt a c = true) :
    sortedBy lt (stableSort lt l) = true := by
  let lt' : α → α → Bool := fun a b => lt a b && decide (a ∈ l) && decide (b ∈ l)
  have hagree : ∀ x ∈ l, ∀ y ∈ l, lt x y = lt' x y := by
    intro x hx y hy; simp [lt', hx, hy]
  have hirr' : ∀ a, lt' a a = false := by
    intro a
    by_cases ha : a ∈ l
    · simp [lt', ha, hirr a ha]
    · simp [lt', ha]
  have htr' : ∀ a b c, lt' a b = true → lt' b c = true → lt' a c = true := by
    intro a b c hab hbc
    simp only [lt', Bool.and_eq_true, decide_eq_true_eq] at hab hbc ⊢
    exact ⟨⟨htr a hab.1.2 b hab.2 c hbc.2 hab.1.1 hbc.1.1, hab.1.2⟩, hbc.2⟩
  have hs := (stableSort_perm_sorted lt' hirr' htr' l).2
  rw [← stableSort_congr lt lt' l hagree] at hs
  rw [sortedBy_iff] at hs ⊢
  have hmem : ∀ a ∈ stableSort lt l, a ∈ l := fun a ha => (stableSort_perm lt l).mem_iff.mp ha
  exact hs.imp_of_mem (fun {a b} ha hb hab => by rw [hagree b (hmem b hb) a (hmem a ha)]; exact hab)

theorem stableSort_false {α} (l : List α) : stableSort (fun _ _ => false) l = l := by
  have hins : ∀ (x : α) (acc : List α), insertStable (fun _ _ => false) x acc = acc ++ [x] := by
    intro x acc
    induction acc with
    | nil => rfl
    | cons y t ih => simp [insertStable, ih]
  have : ∀ (l acc : List α), l.foldl (fun acc x => insertStable (fun _ _ => false) x acc) acc = acc ++ l := by
    intro l
    induction l with
    | nil => intro acc; simp
    | cons x t ih => intro acc; simp only [List.foldl_cons]; rw [hins, ih]; simp
  simpa [stableSort] using this l []

/-- positions: in an inversion-free permutation of the candidates a distinguished pair stands in comparator order -/
theorem before_of_sorted {α} (lt : α → α → Bool) (out : List α) (hs : sortedBy lt out = true)
    (x y : α) (hx : x ∈ out) (hy : y ∈ out) (hxy : lt x y = true) (hirr : lt x x = false) :
    ∃ i j : Nat, i < j ∧ out[i]? = some x ∧ out[j]? = some y := by
  obtain ⟨i, hi⟩ := List.getElem?_of_mem hx
  obtain ⟨j, hj⟩ := List.getElem?_of_mem hy
  have hp := pairwise_getElem? ((sortedBy_iff lt out).mp hs)
  rcases Nat.lt_trichotomy i j with h | h | h
  · exact ⟨i, j, h, hi, hj⟩
  · subst h
    rw [hi] at hj; cases hj
    rw [hirr] at hxy; cases hxy
  · have := hp j i y x h hj hi
    rw [this] at hxy; cases hxy

/-! ### sortQueues compares children on their own keys -/

theorem childLess_congr (fair prio : Bool) (fm fm' : Child → ORes) (l r : Child) (hl : fm l = fm' l) (hr : fm r = fm' r) :
    childLess fair prio fm l r = childLess fair prio fm' l r := by
  unfold childLess; rw [hl, hr]

theorem offeredSorted_eq_own (rootMax : ORes) (anc : List ORes) (fair prio : Bool) (cs : List Child)
    (hnd : (cs.map (·.name)).Nodup) :
    offeredSorted rootMax anc fair prio cs = stableSort (ownLess rootMax anc fair prio) (offeredCands cs) := by
  unfold offeredSorted
  apply stableSort_congr
  intro x hx y hy
  have hn := offeredCands_names_nodup cs hnd
  unfold ownLess
  apply childLess_congr
  · rw [fairMaxByQueue_slice _ _ hn x hx]; rfl
  · rw [fairMaxByQueue_slice _ _ hn y hy]; rfl

/-! ### shares: exact fractions with a positive denominator -/

theorem shareForDen_den_pos (k : String) (a : Int) (d : ORes) (s : Share) (h : shareForDen k a d = some s) : 0 < s.den := by
  unfold shareForDen at h
  split at h
  · cases h
  · split at h
    · split at h
      · split at h <;> (cases h; decide)
      · cases h; simp only; omega
    · cases h

theorem fairShare_den_pos (a g f : ORes) : 0 < (fairShare a g f).den := by
  unfold fairShare
  have : ∀ (l : List (String × Int)) (mx : Share), 0 < mx.den →
      0 < (l.foldl (fun (mx : Share) (p : String × Int) =>
        if p.2 < 0 then mx else
          match (shareForDen p.1 p.2 g).orElse (fun _ => shareForDen p.1 p.2 f) with
          | some s => if shareLt mx s then s else mx
          | none => mx) mx).den := by
    intro l
    induction l with
    | nil => intro mx h; exact h
    | cons p t ih =>
      intro mx h
      simp only [List.foldl_cons]
      apply ih
      split
      · exact h
      · split
        next s hs =>
          have hpos : 0 < s.den := by
            cases h1 : shareForDen p.1 p.2 g with
            | some s1 =>
              rw [h1] at hs; simp at hs; subst hs
              exact shareForDen_den_pos _ _ _ _ h1
            | none =>
              rw [h1] at hs; simp at hs
              exact shareForDen_den_pos _ _ _ _ hs
          split
          · exact hpos
          · exact h
        · exact h
  exact this _ _ (by decide)

theorem mul_chain_lt {a b c d e f : Int} (hb : 0 < b) (hd : 0 < d) (hf : 0 < f)
    (h1 : a * d ≤ c * b) (h2 : c * f ≤ e * d) (hs : a * d < c * b ∨ c * f < e * d) : a * f < e * b := by
  -- (a f) d = (a d) f ≤ (c b) f = (c f) b ≤ (e d) b = (e b) d, one step strict
  have e1 : a * f * d = a * d * f := by rw [Int.mul_assoc, Int.mul_comm f d, ← Int.mul_assoc]
  have e2 : c * b * f = c * f * b := by rw [Int.mul_assoc, Int.mul_comm b f, ← Int.mul_assoc]
  have e3 : e * d * b = e * b * d := by rw [Int.mul_assoc, Int.mul_comm d b, ← Int.mul_assoc]
  have s1 : a * d * f ≤ c * b * f := Int.mul_le_mul_of_nonneg_right h1 (Int.le_of_lt hf)
  have s2 : c * f * b ≤ e * d * b := Int.mul_le_mul_of_nonneg_right h2 (Int.le_of_lt hb)
  have : a * f * d < e * b * d := by
    rcases hs with hs | hs
    · have : a * d * f < c * b * f := Int.mul_lt_mul_of_pos_right hs hf
      omega
    · have : c * f * b < e * d * b := Int.mul_lt_mul_of_pos_right hs hb
      omega
  exact Int.lt_of_mul_lt_mul_right this (Int.le_of_lt hd)

theorem mul_chain_le {a b c d e f : Int} (hb : 0 < b) (hd : 0 < d) (hf : 0 < f)
    (h1 : a * d ≤ c * b) (h2 : c * f ≤ e * d) : a * f ≤ e * b := by
  have e1 : a * f * d = a * d * f := by rw [Int.mul_assoc, Int.mul_comm f d, ← Int.mul_assoc]
  have e2 : c * b * f = c * f * b := by rw [Int.mul_assoc, Int.mul_comm b f, ← Int.mul_assoc]
  have e3 : e * d * b = e * b * d := by rw [Int.mul_assoc, Int.mul_comm d b, ← Int.mul_assoc]
  have s1 : a * d * f ≤ c * b * f := Int.mul_le_mul_of_nonneg_right h1 (Int.le_of_lt hf)
  have s2 : c * f * b ≤ e * d * b := Int.mul_le_mul_of_nonneg_right h2 (Int.le_of_lt hb)
  have : a * f * d ≤ e * b * d := by omega
  exact Int.le_of_mul_le_mul_right this hd

theorem shareLt_iff (a b : Share) : shareLt a b = true ↔ a.num * b.den < b.num * a.den := by simp [shareLt]

theorem shareEq_iff (a b : Share) : shareEq a b = true ↔ a.num * b.den = b.num * a.den := by
  simp only [shareEq, shareLt, Bool.and_eq_true, Bool.not_eq_true', decide_eq_false_iff_not]; omega

theorem shareLt_trans {a b c : Share} (ha : 0 < a.den) (hb : 0 < b.den) (hc : 0 < c.den)
    (h1 : shareLt a b = true) (h2 : shareLt b c = true) : shareLt a c = true := by
  rw [shareLt_iff] at *
  exact mul_chain_lt ha hb hc (Int.le_of_lt h1) (Int.le_of_lt h2) (Or.inl h1)

theorem shareLt_of_lt_eq {a b c : Share} (ha : 0 < a.den) (hb : 0 < b.den) (hc : 0 < c.den)
    (h1 : shareLt a b = true) (h2 : shareEq b c = true) : shareLt a c = true := by
  rw [shareLt_iff] at *; rw [shareEq_iff] at h2
  exact mul_chain_lt ha hb hc (Int.le_of_lt h1) (Int.le_of_eq h2) (Or.inl h1)

theorem shareLt_of_eq_lt {a b c : Share} (ha : 0 < a.den) (hb : 0 < b.den) (hc : 0 < c.den)
    (h1 : shareEq a b = true) (h2 : shareLt b c = true) : shareLt a c = true := by
  rw [shareLt_iff] at *; rw [shareEq_iff] at h1
  exact mul_chain_lt ha hb hc (Int.le_of_eq h1) (Int.le_of_lt h2) (Or.inr h2)

theorem shareEq_trans {a b c : Share} (ha : 0 < a.den) (hb : 0 < b.den) (hc : 0 < c.den)
    (h1 : shareEq a b = true) (h2 : shareEq b c = true) : shareEq a c = true := by
  rw [shareEq_iff] at *
  have l1 := mul_chain_le ha hb hc (Int.le_of_eq h1) (Int.le_of_eq h2)
  have l2 := mul_chain_le hc hb ha (Int.le_of_eq h2.symm) (Int.le_of_eq h1.symm)
  omega

theorem shareLt_irrefl (a : Share) : shareLt a a = false := by simp [shareLt]

theorem shareEq_not_lt {a b : Share} (h : shareEq a b = true) : shareLt a b = false := by
  simp only [shareEq, Bool.and_eq_true, Bool.not_eq_true'] at h; exact h.1

/-! ### the fair comparators on own keys: a lexicographic order whose last key is the pending tie-break -/

theorem lex_trans_at {α} (A E B : α → α → Prop) (x y z : α)
    (hA : A x y → A y z → A x z) (hAE : A x y → E y z → A x z) (hEA : E x y → A y z → A x z)
    (hE : E x y → E y z → E x z) (hB : E x y → E y z → B x y → B y z → B x z) :
    (A x y ∨ (E x y ∧ B x y)) → (A y z ∨ (E y z ∧ B y z)) → (A x z ∨ (E x z ∧ B x z)) := by
  intro h1 h2
  rcases h1 with h1 | ⟨e1, b1⟩ <;> rcases h2 with h2 | ⟨e2, b2⟩
  · exact Or.inl (hA h1 h2)
  · exact Or.inl (hAE h1 e2)
  · exact Or.inl (hEA e1 h2)
  · exact Or.inr ⟨hE e1 e2, hB e1 e2 b1 b2⟩

theorem ownLess_fifo_iff (rootMax : ORes) (anc : List ORes) (l r : Child) :
    ownLess rootMax anc false true l r = true ↔ l.prio > r.prio := by
  simp [ownLess, childLess]

theorem ownLess_prioFair_iff (rootMax : ORes) (anc : List ORes) (l r : Child) :
    ownLess rootMax anc true true l r = true ↔
      (l.prio > r.prio ∨ (l.prio = r.prio ∧
        (shareLt (ownShare rootMax anc l) (ownShare rootMax anc r) = true ∨
         (shareEq (ownShare rootMax anc l) (ownShare rootMax anc r) = true ∧ cPendingGt l r = true)))) := by
  unfold ownLess childLess ownShare
  simp only [if_true]
  split
  next h => simp; omega
  next h =>
    split
    next h' => simp; omega
    next h' =>
      have he : l.prio = r.prio := by omega
      split
      next hs => simp [he, hs, shareEq_not_lt hs]
      next hs => simp [he, hs]

theorem ownLess_fairPrio_iff (rootMax : ORes) (anc : List ORes) (l r : Child) :
    ownLess rootMax anc true false l r = true ↔
      (shareLt (ownShare rootMax anc l) (ownShare rootMax anc r) = true ∨
       (shareEq (ownShare rootMax anc l) (ownShare rootMax anc r) = true ∧
         (l.prio > r.prio ∨ (l.prio = r.prio ∧ cPendingGt l r = true)))) := by
  unfold ownLess childLess ownShare
  simp only [if_true, Bool.false_eq_true, if_false]
  split
  next hs =>
    simp only [hs, shareEq_not_lt hs, Bool.false_eq_true, false_or, true_and]
    split
    next h => simp; omega
    next h =>
      split
      next h' => simp; omega
      next h' =>
        have he : l.prio = r.prio := by omega
        simp [he]
  next hs => simp [hs]

theorem ownShare_den_pos (rootMax : ORes) (anc : List ORes) (c : Child) : 0 < (ownShare rootMax anc c).den :=
  fairShare_den_pos _ _ _

/-- what the fair policies need of the pending tie-break on a set of candidates: irreflexive, and transitive inside a
    group of equal priority and equal share (the only place it is consulted) -/
def PendingTieOrder (rootMax : ORes) (anc : List ORes) (L : List Child) : Prop :=
  (∀ x ∈ L, cPendingGt x x = false) ∧
  (∀ x ∈ L, ∀ y ∈ L, ∀ z ∈ L, x.prio = y.prio → y.prio = z.prio →
     shareEq (ownShare rootMax anc x) (ownShare rootMax anc y) = true →
     shareEq (ownShare rootMax anc y) (ownShare rootMax anc z) = true →
     cPendingGt x y = true → cPendingGt y z = true → cPendingGt x z = true)

theorem ownLess_fair_irrefl (rootMax : ORes) (anc : List ORes) (prio : Bool) (x : Child) (hp : cPendingGt x x = false) :
    ownLess rootMax anc true prio x x = false := by
  rw [← Bool.not_eq_true]
  cases prio
  · rw [ownLess_fairPrio_iff]; simp [shareLt_irrefl, hp]
  · rw [ownLess_prioFair_iff]; simp [shareLt_irrefl, hp]

theorem ownLess_fair_trans (rootMax : ORes) (anc : List ORes) (prio : Bool) (x y z : Child)
    (hP : x.prio = y.prio → y.prio = z.prio →
      shareEq (ownShare rootMax anc x) (ownShare rootMax anc y) = true →
      shareEq (ownShare rootMax anc y) (ownShare rootMax anc z) = true →
      cPendingGt x y = true → cPendingGt y z = true → cPendingGt x z = true)
    (h1 : ownLess rootMax anc true prio x y = true) (h2 : ownLess rootMax anc true prio y z = true) :
    ownLess rootMax anc true prio x z = true := by
  have dx := ownShare_den_pos rootMax anc x
  have dy := ownShare_den_pos rootMax anc y
  have dz := ownShare_den_pos rootMax anc z
  cases prio
  · rw [ownLess_fairPrio_iff] at *
    refine lex_trans_at
      (fun a b => shareLt (ownShare rootMax anc a) (ownShare rootMax anc b) = true)
      (fun a b => shareEq (ownShare rootMax anc a) (ownShare rootMax anc b) = true)
      (fun a b => a.prio > b.prio ∨ (a.prio = b.prio ∧ cPendingGt a b = true)) x y z
      (shareLt_trans dx dy dz) (shareLt_of_lt_eq dx dy dz) (shareLt_of_eq_lt dx dy dz) (shareEq_trans dx dy dz) ?_ h1 h2
    intro e1 e2
    exact lex_trans_at (fun a b => a.prio > b.prio) (fun a b => a.prio = b.prio) (fun a b => cPendingGt a b = true) x y z
      (by intros; omega) (by intros; omega) (by intros; omega) (by intros; omega) (fun p1 p2 => hP p1 p2 e1 e2)
  · rw [ownLess_prioFair_iff] at *
    refine lex_trans_at (fun a b => a.prio > b.prio) (fun a b => a.prio = b.prio)
      (fun a b => shareLt (ownShare rootMax anc a) (ownShare rootMax anc b) = true ∨
        (shareEq (ownShare rootMax anc a) (ownShare rootMax anc b) = true ∧ cPendingGt a b = true)) x y z
      (by intros; omega) (by intros; omega) (by intros; omega) (by intros; omega) ?_ h1 h2
    intro p1 p2
    exact lex_trans_at
      (fun a b => shareLt (ownShare rootMax anc a) (ownShare rootMax anc b) = true)
      (fun a b => shareEq (ownShare rootMax anc a) (ownShare rootMax anc b) = true)
      (fun a b => cPendingGt a b = true) x y z
      (shareLt_trans dx dy dz) (shareLt_of_lt_eq dx dy dz) (shareLt_of_eq_lt dx dy dz) (shareEq_trans dx dy dz)
      (fun e1 e2 => hP p1 p2 e1 e2)

/-- no two candidates agree on both priority and share: the tie-break is never consulted between different candidates -/
theorem pendingTieOrder_of_no_tie (rootMax : ORes) (anc : List ORes) (L : List Child)
    (hirr : ∀ x ∈ L, cPendingGt x x = false)
    (h : ∀ x ∈ L, ∀ y ∈ L, x.prio = y.prio → shareEq (ownShare rootMax anc x) (ownShare rootMax anc y) = true → x = y) :
    PendingTieOrder rootMax anc L := by
  refine ⟨hirr, ?_⟩
  intro x hx y hy z hz p1 p2 e1 e2 g1 g2
  have := h x hx y hy p1 e1
  subst this
  rw [hirr x hx] at g1; cases g1

/-- the comparator of every policy is irreflexive and transitive on the candidates -/
theorem ownLess_order_on (rootMax : ORes) (anc : List ORes) (fair prio : Bool) (L : List Child)
    (hp : fair = true → PendingTieOrder rootMax anc L) :
    (∀ a ∈ L, ownLess rootMax anc fair prio a a = false) ∧
    (∀ a ∈ L, ∀ b ∈ L, ∀ c ∈ L, ownLess rootMax anc fair prio a b = true → ownLess rootMax anc fair prio b c = true →
      ownLess rootMax anc fair prio a c = true) := by
  cases fair
  · cases prio
    · exact ⟨fun a _ => by simp [ownLess, childLess], fun a _ b _ c _ h => by simp [ownLess, childLess] at h⟩
    · refine ⟨fun a _ => ?_, fun a _ b _ c _ h1 h2 => ?_⟩
      · rw [← Bool.not_eq_true, ownLess_fifo_iff]; omega
      · rw [ownLess_fifo_iff] at *; omega
  · obtain ⟨hi, ht⟩ := hp rfl
    exact ⟨fun a ha => ownLess_fair_irrefl rootMax anc prio a (hi a ha),
      fun a ha b hb c hc h1 h2 => ownLess_fair_trans rootMax anc prio a b c (ht a ha b hb c hc) h1 h2⟩

/-- sortQueues, all policies: exactly the candidates, no inversion with respect to the comparator on OWN keys -/
theorem offeredSorted_spec (rootMax : ORes) (anc : List ORes) (fair prio : Bool) (cs : List Child)
    (hnd : (cs.map (·.name)).Nodup) (hp : fair = true → PendingTieOrder rootMax anc (offeredCands cs)) :
    (offeredSorted rootMax anc fair prio cs).Perm (offeredCands cs) ∧
    sortedBy (ownLess rootMax anc fair prio) (offeredSorted rootMax anc fair prio cs) = true := by
  rw [offeredSorted_eq_own rootMax anc fair prio cs hnd]
  obtain ⟨hi, ht⟩ := ownLess_order_on rootMax anc fair prio (offeredCands cs) hp
  exact ⟨stableSort_perm _ _, stableSort_sorted_on _ _ hi ht⟩

theorem pendingTieOrder_perm (rootMax : ORes) (anc : List ORes) (L₁ L₂ : List Child) (h : L₁.Perm L₂)
    (hp : PendingTieOrder rootMax anc L₁) : PendingTieOrder rootMax anc L₂ :=
  ⟨fun x hx => hp.1 x (h.mem_iff.mpr hx),
   fun x hx y hy z hz => hp.2 x (h.mem_iff.mpr hx) y (h.mem_iff.mpr hy) z (h.mem_iff.mpr hz)⟩

/-! ### the own-key comparator is the comparator of the `queues` model on (child, rank of its own share) -/

theorem qLessPrioFair_iff' (x y : QKey) :
    qLessPrioFair x y = true ↔
      (x.prio > y.prio ∨ (x.prio = y.prio ∧ (x.share < y.share ∨ (x.share = y.share ∧ pendingGt x y = true)))) := by
  unfold qLessPrioFair
  split
  next h => simp; omega
  next h =>
    split
    next h' => simp; omega
    next h' =>
      have he : x.prio = y.prio := by omega
      split
      next hs => have hs' : x.share = y.share := by simpa using hs
                 simp [he, hs']
      next hs => have hs' : x.share ≠ y.share := by simpa using hs
                 simp [he, hs']

theorem qLessFairPrio_iff' (x y : QKey) :
    qLessFairPrio x y = true ↔
      (x.share < y.share ∨ (x.share = y.share ∧ (x.prio > y.prio ∨ (x.prio = y.prio ∧ pendingGt x y = true)))) := by
  unfold qLessFairPrio
  split
  next hs =>
    have hs' : x.share = y.share := by simpa using hs
    split
    next h => simp; omega
    next h =>
      split
      next h' => simp; omega
      next h' => have he : x.prio = y.prio := by omega
                 simp [he, hs']
  next hs => have hs' : x.share ≠ y.share := by simpa using hs
             simp [hs']

theorem cPendingGt_eq (rank : Child → Int) (l r : Child) : cPendingGt l r = pendingGt (toQKey rank l) (toQKey rank r) := by
  unfold cPendingGt pendingGt toQKey
  cases hr : r.pending with
  | none => simp [sub, orZero, zipFold]
  | some rp => simp [sub, orZero]

theorem ownLess_eq_queue_model (rootMax : ORes) (anc : List ORes) (rank : Child → Int) (l r : Child)
    (hlt : rank l < rank r ↔ shareLt (ownShare rootMax anc l) (ownShare rootMax anc r) = true)
    (heq : rank l = rank r ↔ shareEq (ownShare rootMax anc l) (ownShare rootMax anc r) = true) :
    ownLess rootMax anc true true l r = qLessPrioFair (toQKey rank l) (toQKey rank r) ∧
    ownLess rootMax anc true false l r = qLessFairPrio (toQKey rank l) (toQKey rank r) ∧
    ownLess rootMax anc false true l r = qLessPrio (toQKey rank l) (toQKey rank r) := by
  refine ⟨?_, ?_, ?_⟩
  · rw [Bool.eq_iff_iff, ownLess_prioFair_iff, qLessPrioFair_iff', ← cPendingGt_eq rank l r, ← hlt, ← heq]; rfl
  · rw [Bool.eq_iff_iff, ownLess_fairPrio_iff, qLessFairPrio_iff', ← cPendingGt_eq rank l r, ← hlt, ← heq]; rfl
  · rw [Bool.eq_iff_iff, ownLess_fifo_iff, qLessPrio_iff]; rfl

/-! ### the priority key of a queue -/

theorem clampPrio_bounds (x : Int) : minPrio ≤ clampPrio x ∧ clampPrio x ≤ maxPrio := by
  unfold clampPrio minPrio maxPrio; split <;> (try split) <;> omega

theorem clampPrio_mono {x y : Int} (h : x ≤ y) : clampPrio x ≤ clampPrio y := by
  unfold clampPrio minPrio maxPrio
  split <;> split <;> (try split) <;> (try split) <;> omega

theorem clampPrio_cases (x : Int) :
    (x > maxPrio → clampPrio x = maxPrio) ∧ (x < minPrio → clampPrio x = minPrio) ∧
    (minPrio ≤ x → x ≤ maxPrio → clampPrio x = x) := by
  unfold clampPrio minPrio maxPrio
  refine ⟨fun h => ?_, fun h => ?_, fun h1 h2 => ?_⟩ <;> split <;> (try split) <;> omega

theorem priorityValue_default (offset prio : Int) (hp : prio ≠ minPrio) :
    priorityValue false offset prio = clampPrio (offset + prio) := by
  unfold priorityValue; simp [hp]

theorem priorityValue_mono (o₁ p₁ o₂ p₂ : Int) (h2 : p₂ ≠ minPrio) (h : o₁ + p₁ ≤ o₂ + p₂) :
    priorityValue false o₁ p₁ ≤ priorityValue false o₂ p₂ := by
  rw [priorityValue_default o₂ p₂ h2]
  by_cases h1 : p₁ = minPrio
  · have : priorityValue false o₁ p₁ = minPrio := by unfold priorityValue; simp [h1]
    rw [this]; exact (clampPrio_bounds _).1
  · rw [priorityValue_default o₁ p₁ h1]; exact clampPrio_mono h

theorem maxPriority_foldl (items : List Int) (acc : Int) :
    acc ≤ items.foldl (fun curr v => max v curr) acc ∧ (∀ v ∈ items, v ≤ items.foldl (fun curr v => max v curr) acc) ∧
    (items.foldl (fun curr v => max v curr) acc = acc ∨ items.foldl (fun curr v => max v curr) acc ∈ items) := by
  induction items generalizing acc with
  | nil => simp
  | cons x t ih =>
    simp only [List.foldl_cons, List.mem_cons]
    obtain ⟨h1, h2, h3⟩ := ih (max x acc)
    refine ⟨by omega, ?_, ?_⟩
    · intro v hv
      rcases hv with rfl | hv
      · omega
      · exact h2 v hv
    · rcases h3 with h3 | h3
      · rw [h3]
        by_cases hx : x ≤ acc
        · left; omega
        · right; left; omega
      · right; right; exact h3

/-! ### allocated entries do not count for the priority of an application -/

theorem outstanding_append (a b : List (Int × Bool)) : outstanding (a ++ b) = outstanding a ++ outstanding b := by
  simp [outstanding]

theorem outstanding_allocated (p : Int) : outstanding [(p, true)] = [] := by
  simp [outstanding]

theorem askMaxPriority_ignores_allocated (e₁ e₂ : List (Int × Bool)) (p : Int) :
    askMaxPriority (e₁ ++ [(p, true)] ++ e₂) = askMaxPriority (e₁ ++ e₂) := by
  unfold askMaxPriority
  rw [outstanding_append, outstanding_append, outstanding_allocated, outstanding_append]; simp

end Yk
