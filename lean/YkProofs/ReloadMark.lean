/-
  The recursive MarkQueueForRemoval walk (`markDown` / `markRec`, YkModel/Reload.lean) against its characterisation
  (`markMissing`): equal on every well-formed tree; well-formedness (parents first and present, distinct non-empty paths,
  W0 = nothing managed below an unmanaged queue, parents named by path) is an invariant of every modelled operation.
-/
import YkProofs.Reload
namespace Yk.Reload
open Yk Yk.Res

/-! ### marking a set of paths -/

/-- the Remove event on every queue whose path is in `S` -/
def markSet (S : List String) (t : Tree) : Tree := t.map (fun q => if q.path ∈ S then q.mark else q)

theorem remove_idem (s : QState) : s.remove.remove = s.remove := by cases s <;> rfl

theorem mark_mark (q : RQ) : q.mark.mark = q.mark := by
  unfold RQ.mark; simp [remove_idem]

theorem mark_path (q : RQ) : q.mark.path = q.path := rfl
theorem mark_parent (q : RQ) : q.mark.parent = q.parent := rfl
theorem mark_managed (q : RQ) : q.mark.managed = q.managed := rfl

theorem markSet_nil (t : Tree) : markSet [] t = t := by
  unfold markSet
  simp

theorem markSet_length (S : List String) (t : Tree) : (markSet S t).length = t.length := by
  unfold markSet; simp

theorem markSet_markSet (S1 S2 : List String) (t : Tree) : markSet S2 (markSet S1 t) = markSet (S1 ++ S2) t := by
  unfold markSet
  rw [List.map_map]
  apply List.map_congr_left
  intro q _
  simp only [Function.comp]
  by_cases h1 : q.path ∈ S1 <;> by_cases h2 : q.path ∈ S2 <;> simp [h1, h2, mark_path, mark_mark]

theorem upd_mark_eq (t : Tree) (p : String) : t.upd p RQ.mark = markSet [p] t := by
  unfold Tree.upd markSet
  apply List.map_congr_left
  intro q _
  by_cases h : q.path = p <;> simp [h]

theorem markSet_find (S : List String) (t : Tree) (p : String) :
    (markSet S t).find p = (t.find p).map (fun q => if q.path ∈ S then q.mark else q) := by
  unfold markSet
  apply find_map_pres
  intro q; split <;> rfl

theorem markSet_filter_paths (S : List String) (t : Tree) (pred : RQ → Bool)
    (hpred : ∀ q, pred q.mark = pred q) :
    ((markSet S t).filter pred).map (·.path) = (t.filter pred).map (·.path) := by
  unfold markSet
  rw [List.filter_map, List.map_map]
  have h1 : (pred ∘ fun q => if q.path ∈ S then q.mark else q) = pred := by
    funext q; simp only [Function.comp]; split <;> simp [hpred]
  have h2 : ((fun x : RQ => x.path) ∘ fun q => if q.path ∈ S then q.mark else q) = (fun x : RQ => x.path) := by
    funext q; simp only [Function.comp]; split <;> rfl
  rw [h1, h2]

/-! ### the set of paths the walk reaches -/

/-- the paths MarkQueueForRemoval marks when called on `p`: mirrors `markDown` on the shape of the tree -/
def reach : Nat → Tree → String → List String
  | 0, _, _ => []
  | fuel + 1, t, p =>
    match t.find p with
    | none => []
    | some q =>
      if !q.managed then []
      else p :: ((t.filter (fun c => decide (c.parent = p))).map (·.path)).flatMap (fun cp => reach fuel t cp)

theorem reach_markSet (S : List String) : ∀ (f : Nat) (t : Tree) (p : String), reach f (markSet S t) p = reach f t p := by
  intro f
  induction f with
  | zero => intro t p; rfl
  | succ f ih =>
    intro t p
    unfold reach
    rw [markSet_find]
    cases h : t.find p with
    | none => rfl
    | some q =>
      simp only [Option.map_some]
      have hm : (if q.path ∈ S then q.mark else q).managed = q.managed := by split <;> rfl
      rw [hm]
      rw [markSet_filter_paths S t (fun c => decide (c.parent = p)) (fun q => rfl)]
      simp only [ih]

/-- a fold of `markDown` calls over a list of paths marks the union of what each call reaches -/
theorem markDown_fold (f : Nat) (a : Tree)
    (ih : ∀ (t : Tree) (p : String), markDown f t p = markSet (reach f t p) t) :
    ∀ (ps : List String) (S : List String),
      ps.foldl (fun acc cp => markDown f acc cp) (markSet S a) = markSet (S ++ ps.flatMap (fun cp => reach f a cp)) a := by
  intro ps
  induction ps with
  | nil => intro S; simp
  | cons p r ihr =>
    intro S
    simp only [List.foldl_cons, List.flatMap_cons]
    rw [ih (markSet S a) p, reach_markSet, markSet_markSet, ihr (S ++ reach f a p), List.append_assoc]

theorem markDown_eq : ∀ (f : Nat) (t : Tree) (p : String), markDown f t p = markSet (reach f t p) t := by
  intro f
  induction f with
  | zero => intro t p; unfold markDown reach; exact (markSet_nil t).symm
  | succ f ih =>
    intro t p
    unfold markDown reach
    cases h : t.find p with
    | none => exact (markSet_nil t).symm
    | some q =>
      simp only
      by_cases hm : q.managed = true
      · simp only [hm, Bool.not_true, Bool.false_eq_true, if_false]
        rw [upd_mark_eq, markDown_fold f t ih]
        rfl
      · simp only [hm, Bool.not_false, if_true]
        exact (markSet_nil t).symm

/-- the paths `markRec` marks: every unvisited child of a visited queue and what the walk reaches below it -/
def markedPaths (t : Tree) (conf : List QC) : List String :=
  conf.flatMap (fun c => ((t.filter (fun ch => decide (ch.parent = c.path) && !(configured conf ch.path))).map (·.path)).flatMap
    (fun r => reach t.length t r))

theorem markRec_eq_markSet (t : Tree) (conf : List QC) : markRec t conf = markSet (markedPaths t conf) t := by
  unfold markRec markedPaths
  -- generalise the configuration that is folded over (the predicate keeps referring to the whole configuration)
  have key : ∀ (cs : List QC) (S : List String),
      cs.foldl (fun acc c =>
        ((acc.filter (fun ch => decide (ch.parent = c.path) && !(configured conf ch.path))).map (·.path)).foldl
          (fun a r => markDown t.length a r) acc) (markSet S t) =
      markSet (S ++ cs.flatMap (fun c => ((t.filter (fun ch => decide (ch.parent = c.path) && !(configured conf ch.path))).map (·.path)).flatMap
        (fun r => reach t.length t r))) t := by
    intro cs
    induction cs with
    | nil => intro S; simp
    | cons c r ih =>
      intro S
      simp only [List.foldl_cons, List.flatMap_cons]
      rw [markSet_filter_paths S t (fun ch => decide (ch.parent = c.path) && !(configured conf ch.path)) (fun q => rfl)]
      rw [markDown_fold t.length t (markDown_eq t.length), ih, List.append_assoc]
  have := key conf []
  rw [markSet_nil] at this
  simpa using this

/-! ### well-formed trees -/

theorem pf_notin : ∀ (t : Tree) (seen : List String), pfAux seen t = true → ∀ x ∈ t, seen.contains x.path = false := by
  intro t
  induction t with
  | nil => intro _ _ x hx; cases hx
  | cons a r ih =>
    intro seen h x hx
    unfold pfAux at h
    simp only [Bool.and_eq_true, Bool.not_eq_true'] at h
    cases hx with
    | head => exact h.1.1.2
    | tail _ hm =>
      have := ih (a.path :: seen) h.2 x hm
      simp only [List.contains_cons, Bool.or_eq_false_iff] at this
      exact this.2

theorem pf_find : ∀ (t : Tree) (seen : List String), pfAux seen t = true → ∀ x ∈ t, t.find x.path = some x := by
  intro t
  induction t with
  | nil => intro _ _ x hx; cases hx
  | cons a r ih =>
    intro seen h x hx
    have h0 := h
    unfold pfAux at h
    simp only [Bool.and_eq_true] at h
    unfold Tree.find
    cases hx with
    | head => rw [List.find?_cons_of_pos (by simp)]
    | tail _ hm =>
      have hne : ¬ a.path = x.path := by
        intro he
        have := pf_notin r (a.path :: seen) h.2 x hm
        simp [he] at this
      rw [List.find?_cons_of_neg (by simp [hne])]
      exact ih (a.path :: seen) h.2 x hm

theorem pf_nonempty : ∀ (t : Tree) (seen : List String), pfAux seen t = true → ∀ x ∈ t, ¬ x.path = "" := by
  intro t
  induction t with
  | nil => intro _ _ x hx; cases hx
  | cons a r ih =>
    intro seen h x hx
    unfold pfAux at h
    simp only [Bool.and_eq_true, Bool.not_eq_true', decide_eq_false_iff_not] at h
    cases hx with
    | head => exact h.1.2
    | tail _ hm => exact ih (a.path :: seen) h.2 x hm

/-- the parent of a queue is the top marker, was seen before the list started, or sits earlier in the list -/
theorem pf_split : ∀ (pre : Tree) (seen : List String) (q : RQ) (suf : Tree), pfAux seen (pre ++ q :: suf) = true →
    q.parent = "" ∨ seen.contains q.parent = true ∨ ∃ y ∈ pre, y.path = q.parent := by
  intro pre
  induction pre with
  | nil =>
    intro seen q suf h
    simp only [List.nil_append] at h
    unfold pfAux at h
    simp only [Bool.and_eq_true, Bool.or_eq_true, decide_eq_true_eq] at h
    rcases h.1.1.1 with h1 | h1
    · exact Or.inl h1
    · exact Or.inr (Or.inl h1)
  | cons a pre' ih =>
    intro seen q suf h
    simp only [List.cons_append] at h
    unfold pfAux at h
    simp only [Bool.and_eq_true] at h
    rcases ih (a.path :: seen) q suf h.2 with h1 | h1 | ⟨y, hy, hyp⟩
    · exact Or.inl h1
    · simp only [List.contains_cons, Bool.or_eq_true, beq_iff_eq] at h1
      rcases h1 with h1 | h1
      · exact Or.inr (Or.inr ⟨a, List.mem_cons_self .., h1.symm⟩)
      · exact Or.inr (Or.inl h1)
    · exact Or.inr (Or.inr ⟨y, List.mem_cons_of_mem _ hy, hyp⟩)

/-- W0 as a proposition: the parent of a managed queue is managed -/
def W0 (t : Tree) : Prop := ∀ x ∈ t, x.managed = true → ∀ y ∈ t, y.path = x.parent → y.managed = true

theorem w0_spec (t : Tree) (h : w0 t = true) : W0 t := by
  intro x hx hm y hy hp
  unfold w0 at h
  have h1 := List.all_eq_true.mp h x hx
  simp only [hm, Bool.not_true, Bool.false_or] at h1
  have h2 := List.all_eq_true.mp h1 y hy
  simpa [hp] using h2

/-! ### the walk reaches exactly the managed queues the configuration does not name -/

theorem configured_iff (conf : List QC) (p : String) : configured conf p = true ↔ ∃ c ∈ conf, c.path = p := by
  unfold configured
  simp [List.any_eq_true]

/-- everything the walk reaches from an unconfigured queue is a managed queue of the tree that is not configured either -/
theorem reach_sound (t : Tree) (conf : List QC) (hpf : parentsFirst t = true)
    (hclosed : ∀ q ∈ t, configured conf q.path = true → q.parent = "" ∨ configured conf q.parent = true) :
    ∀ (f : Nat) (p : String), configured conf p = false → ∀ y ∈ reach f t p,
      configured conf y = false ∧ ∃ q, t.find y = some q ∧ q.managed = true := by
  intro f
  induction f with
  | zero => intro p _ y hy; simp [reach] at hy
  | succ f ih =>
    intro p hp y hy
    unfold reach at hy
    cases hf : t.find p with
    | none => rw [hf] at hy; simp at hy
    | some q =>
      rw [hf] at hy
      simp only at hy
      by_cases hm : q.managed = true
      · simp only [hm, Bool.not_true, Bool.false_eq_true, if_false, List.mem_cons, List.mem_flatMap, List.mem_map, List.mem_filter,
          decide_eq_true_eq] at hy
        rcases hy with hy | ⟨cp, ⟨c, ⟨hc, hcp⟩, hcpath⟩, hyr⟩
        · rw [hy]; exact ⟨hp, q, hf, hm⟩
        · have hpne : ¬ p = "" := by
            have := pf_nonempty t [] hpf q (find_mem hf)
            rw [find_some_path hf] at this; exact this
          have hcu : configured conf c.path = false := by
            cases hcc : configured conf c.path with
            | false => rfl
            | true =>
              rcases hclosed c hc hcc with h0 | h0
              · rw [hcp] at h0; exact absurd h0 hpne
              · rw [hcp, hp] at h0; cases h0
          rw [← hcpath] at hyr
          exact ih c.path hcu y hyr
      · simp [hm] at hy

/-- a managed child of a reached queue is reached with one more unit of fuel -/
theorem reach_child (t : Tree) (hpf : parentsFirst t = true) (x : RQ) (hx : x ∈ t) (hxm : x.managed = true) :
    ∀ (g : Nat) (rp : String) (yp : String), x.parent = yp → yp ∈ reach g t rp → x.path ∈ reach (g + 1) t rp := by
  have hfx : t.find x.path = some x := pf_find t [] hpf x hx
  have hself : ∀ g, x.path ∈ reach (g + 1) t x.path := by
    intro g; unfold reach; rw [hfx]; simp [hxm]
  intro g
  induction g with
  | zero => intro rp yp _ h; simp [reach] at h
  | succ g ih =>
    intro rp yp hpar h
    unfold reach at h
    cases hf : t.find rp with
    | none => rw [hf] at h; simp at h
    | some q =>
      rw [hf] at h
      simp only at h
      by_cases hm : q.managed = true
      · simp only [hm, Bool.not_true, Bool.false_eq_true, if_false, List.mem_cons, List.mem_flatMap] at h
        unfold reach
        rw [hf]
        simp only [hm, Bool.not_true, Bool.false_eq_true, if_false, List.mem_cons, List.mem_flatMap]
        right
        rcases h with h | ⟨cp, hcp, hr⟩
        · refine ⟨x.path, ?_, hself g⟩
          exact List.mem_map.mpr ⟨x, List.mem_filter.mpr ⟨hx, by simp [hpar, h]⟩, rfl⟩
        · exact ⟨cp, hcp, ih cp yp hpar hr⟩
      · simp [hm] at h

/-- every managed queue the configuration does not name is reached from one of the marking calls of updateQueues -/
theorem marked_complete (t : Tree) (conf : List QC) (hpf : parentsFirst t = true) (hw0 : W0 t)
    (hroot : ∀ q ∈ t, q.parent = "" → configured conf q.path = true) :
    ∀ x ∈ t, x.managed = true → configured conf x.path = false → x.path ∈ markedPaths t conf := by
  -- S x n: some marking call reaches x with any fuel from n on
  let S : RQ → Nat → Prop := fun x n => ∃ r ∈ t, (∃ c ∈ conf, r.parent = c.path) ∧ configured conf r.path = false ∧
      ∀ f, n ≤ f → x.path ∈ reach f t r.path
  have main : ∀ (suf pre : Tree), t = pre ++ suf →
      (∀ x ∈ pre, x.managed = true → configured conf x.path = false → S x pre.length) →
      ∀ x ∈ t, x.managed = true → configured conf x.path = false → S x t.length := by
    intro suf
    induction suf with
    | nil => intro pre ht h; simp only [List.append_nil] at ht; rw [ht]; exact h
    | cons q suf' ih =>
      intro pre ht h
      apply ih (pre ++ [q]) (by rw [ht]; simp)
      intro x hx hxm hxu
      rw [List.length_append, List.length_singleton]
      rcases List.mem_append.mp hx with hxp | hxq
      · obtain ⟨r, hr, hc, hu, hf⟩ := h x hxp hxm hxu
        exact ⟨r, hr, hc, hu, fun f hle => hf f (by omega)⟩
      · have hxeq : x = q := by simpa using hxq
        subst hxeq
        have hxt : x ∈ t := by rw [ht]; simp
        have hfx : t.find x.path = some x := pf_find t [] hpf x hxt
        have hsp := pf_split pre [] x suf' (by rw [← ht]; exact hpf)
        rcases hsp with h0 | h0 | ⟨y, hy, hyp⟩
        · have := hroot x hxt h0; rw [hxu] at this; cases this
        · simp at h0
        · have hyt : y ∈ t := by rw [ht]; exact List.mem_append_left _ hy
          have hym : y.managed = true := hw0 x hxt hxm y hyt hyp
          cases hyc : configured conf y.path with
          | true =>
            obtain ⟨c, hc, hcp⟩ := (configured_iff conf y.path).mp hyc
            refine ⟨x, hxt, ⟨c, hc, by rw [hcp, hyp]⟩, hxu, ?_⟩
            intro f hle
            cases f with
            | zero => omega
            | succ f' => unfold reach; rw [hfx]; simp [hxm]
          | false =>
            obtain ⟨r, hr, hc, hu, hf⟩ := h y hy hym hyc
            refine ⟨r, hr, hc, hu, ?_⟩
            intro f hle
            cases f with
            | zero => omega
            | succ f' => exact reach_child t hpf x hxt hxm f' r.path y.path hyp.symm (hf f' (by omega))
  intro x hx hxm hxu
  obtain ⟨r, hr, ⟨c, hc, hrc⟩, hu, hf⟩ := main t [] rfl (fun x hx => by cases hx) x hx hxm hxu
  unfold markedPaths
  refine List.mem_flatMap.mpr ⟨c, hc, List.mem_flatMap.mpr ⟨r.path, ?_, hf t.length (Nat.le_refl _)⟩⟩
  exact List.mem_map.mpr ⟨r, List.mem_filter.mpr ⟨hr, by simp [hrc, hu]⟩, rfl⟩

theorem marked_sound (t : Tree) (conf : List QC) (hpf : parentsFirst t = true)
    (hclosed : ∀ q ∈ t, configured conf q.path = true → q.parent = "" ∨ configured conf q.parent = true) :
    ∀ x ∈ t, x.path ∈ markedPaths t conf → x.managed = true ∧ configured conf x.path = false := by
  intro x hx h
  unfold markedPaths at h
  obtain ⟨c, _, h⟩ := List.mem_flatMap.mp h
  obtain ⟨rp, hrp, h⟩ := List.mem_flatMap.mp h
  obtain ⟨r, hr, hrpath⟩ := List.mem_map.mp hrp
  have hr' := (List.mem_filter.mp hr).2
  simp only [Bool.and_eq_true, decide_eq_true_eq, Bool.not_eq_true'] at hr'
  rw [← hrpath] at h
  obtain ⟨hu, q, hq, hm⟩ := reach_sound t conf hpf hclosed t.length r.path hr'.2 x.path h
  rw [pf_find t [] hpf x hx] at hq
  injection hq with hq
  subst hq
  exact ⟨hm, hu⟩

/-- **the recursive walk equals its characterisation** on every well-formed tree: parents first and present with distinct
    non-empty paths, nothing managed below an unmanaged queue (W0), the configuration closed under parents as the tree
    names them and naming the top queue -/
theorem markRec_eq_markMissing (t : Tree) (conf : List QC) (hpf : parentsFirst t = true) (hw0 : W0 t)
    (hclosed : ∀ q ∈ t, configured conf q.path = true → q.parent = "" ∨ configured conf q.parent = true)
    (hroot : ∀ q ∈ t, q.parent = "" → configured conf q.path = true) :
    markRec t conf = markMissing t conf := by
  rw [markRec_eq_markSet]
  unfold markSet markMissing
  apply List.map_congr_left
  intro q hq
  by_cases h : q.path ∈ markedPaths t conf
  · obtain ⟨hm, hu⟩ := marked_sound t conf hpf hclosed q hq h
    simp [h, hm, hu, RQ.mark]
  · have : ¬ (q.managed = true ∧ configured conf q.path = false) := fun ⟨hm, hu⟩ => h (marked_complete t conf hpf hw0 hroot q hq hm hu)
    by_cases hm : q.managed = true
    · have hc : configured conf q.path = true := by
        cases hcc : configured conf q.path with
        | true => rfl
        | false => exact absurd ⟨hm, hcc⟩ this
      simp [h, hm, hc]
    · simp [h, hm]

/-! ### well-formedness is an invariant -/

/-- parents first and present with distinct non-empty paths; nothing managed below an unmanaged queue; parents named by path -/
structure TreeOK (t : Tree) : Prop where
  pf : parentsFirst t = true
  w0 : W0 t
  pp : ∀ q ∈ t, q.parent = parentPath q.path

theorem pf_map_shape (f : RQ → RQ) (hp : ∀ q, (f q).path = q.path) (hpar : ∀ q, (f q).parent = q.parent) :
    ∀ (t : Tree) (seen : List String), pfAux seen (t.map f) = pfAux seen t := by
  intro t
  induction t with
  | nil => intro _; rfl
  | cons a r ih => intro seen; simp only [List.map_cons, pfAux, hp, hpar, ih]

theorem pf_append : ∀ (t : Tree) (seen : List String) (n : RQ), pfAux seen t = true →
    (n.parent = "" ∨ seen.contains n.parent = true ∨ ∃ y ∈ t, y.path = n.parent) →
    seen.contains n.path = false → (∀ y ∈ t, ¬ y.path = n.path) → ¬ n.path = "" → pfAux seen (t ++ [n]) = true := by
  intro t
  induction t with
  | nil =>
    intro seen n _ hpar hs _ hne
    simp only [List.nil_append, pfAux, Bool.and_true, Bool.and_eq_true, Bool.or_eq_true, decide_eq_true_eq, Bool.not_eq_true',
      decide_eq_false_iff_not]
    refine ⟨⟨?_, hs⟩, hne⟩
    rcases hpar with h | h | ⟨y, hy, _⟩
    · exact Or.inl h
    · exact Or.inr h
    · cases hy
  | cons a r ih =>
    intro seen n h hpar hs hdist hne
    unfold pfAux at h
    simp only [Bool.and_eq_true] at h
    simp only [List.cons_append, pfAux, Bool.and_eq_true]
    refine ⟨h.1, ih (a.path :: seen) n h.2 ?_ ?_ (fun y hy => hdist y (List.mem_cons_of_mem _ hy)) hne⟩
    · rcases hpar with h0 | h0 | ⟨y, hy, hyp⟩
      · exact Or.inl h0
      · refine Or.inr (Or.inl ?_)
        simp only [List.contains_cons, Bool.or_eq_true]
        exact Or.inr h0
      · cases hy with
        | head =>
          refine Or.inr (Or.inl ?_)
          simp only [List.contains_cons, Bool.or_eq_true, beq_iff_eq]
          exact Or.inl hyp.symm
        | tail _ hm => exact Or.inr (Or.inr ⟨y, hm, hyp⟩)
    · have : ¬ a.path = n.path := hdist a (List.mem_cons_self ..)
      simp only [List.contains_cons, Bool.or_eq_false_iff, beq_eq_false_iff_ne, ne_eq]
      exact ⟨fun h' => this h'.symm, hs⟩

/-- dropping the queues with path `p` keeps the order property when no queue names `p` as its parent -/
theorem pf_filter (p : String) : ∀ (t : Tree) (seen : List String), pfAux seen t = true → (∀ x ∈ t, ¬ x.parent = p) →
    pfAux (seen.filter (fun s => !(decide (s = p)))) (t.filter (fun x => !(decide (x.path = p)))) = true := by
  intro t
  induction t with
  | nil => intro _ _ _; rfl
  | cons a r ih =>
    intro seen h hnp
    unfold pfAux at h
    simp only [Bool.and_eq_true, Bool.or_eq_true, decide_eq_true_eq, Bool.not_eq_true', decide_eq_false_iff_not] at h
    obtain ⟨⟨⟨hpar, hnot⟩, hne⟩, hrest⟩ := h
    have ih' := ih (a.path :: seen) hrest (fun x hx => hnp x (List.mem_cons_of_mem _ hx))
    by_cases hap : a.path = p
    · rw [List.filter_cons_of_neg (by simp [hap])]
      rw [List.filter_cons_of_neg (by simp [hap])] at ih'
      exact ih'
    · rw [List.filter_cons_of_pos (by simp [hap])]
      rw [List.filter_cons_of_pos (by simp [hap])] at ih'
      unfold pfAux
      simp only [Bool.and_eq_true, Bool.or_eq_true, decide_eq_true_eq, Bool.not_eq_true', decide_eq_false_iff_not]
      refine ⟨⟨⟨?_, ?_⟩, hne⟩, ih'⟩
      · rcases hpar with h0 | h0
        · exact Or.inl h0
        · right
          have hne' : ¬ a.parent = p := hnp a (List.mem_cons_self ..)
          simp only [List.contains_eq_mem, List.mem_filter, decide_eq_true_eq, Bool.not_eq_true', decide_eq_false_iff_not] at h0 ⊢
          exact ⟨h0, hne'⟩
      · cases hc : (seen.filter (fun s => !(decide (s = p)))).contains a.path with
        | false => rfl
        | true =>
          simp only [List.contains_eq_mem, List.mem_filter, decide_eq_true_eq] at hc
          have : seen.contains a.path = true := by simp [hc.1]
          rw [hnot] at this; cases this

theorem find_none_forall {t : Tree} {p : String} (h : t.find p = none) : ∀ y ∈ t, ¬ y.path = p := by
  intro y hy
  unfold Tree.find at h
  have := List.find?_eq_none.mp h y hy
  simpa using this

theorem find_isSome_mem {t : Tree} {p : String} (h : (t.find p).isSome) : ∃ y ∈ t, y.path = p := by
  cases hf : t.find p with
  | none => rw [hf] at h; cases h
  | some y => exact ⟨y, find_mem hf, find_some_path hf⟩

/-- a change of anything but path, parent and managed keeps a tree well-formed (allocations, applications, states, limits) -/
theorem TreeOK.map {t : Tree} (h : TreeOK t) (f : RQ → RQ) (hp : ∀ q, (f q).path = q.path) (hpar : ∀ q, (f q).parent = q.parent)
    (hm : ∀ q, (f q).managed = q.managed) : TreeOK (t.map f) := by
  refine ⟨?_, ?_, ?_⟩
  · unfold parentsFirst; rw [pf_map_shape f hp hpar]; exact h.pf
  · intro x hx hxm y hy hyp
    obtain ⟨x0, hx0, rfl⟩ := List.mem_map.mp hx
    obtain ⟨y0, hy0, rfl⟩ := List.mem_map.mp hy
    rw [hm] at hxm ⊢
    rw [hp, hpar] at hyp
    exact h.w0 x0 hx0 hxm y0 hy0 hyp
  · intro q hq
    obtain ⟨q0, hq0, rfl⟩ := List.mem_map.mp hq
    rw [hp, hpar]; exact h.pp q0 hq0

theorem applyConf_parent (q : RQ) (c : QC) : (applyConf q c).parent = q.parent := by
  unfold applyConf
  repeat' split
  all_goals rfl

theorem updExisting_parent (q : RQ) (c : QC) (pq : Option RQ) : (updExisting q c pq).parent = q.parent := by
  have h := applyConf_parent q c
  unfold updExisting
  split
  · exact h
  · cases pq with
    | none => simpa using h
    | some p => simp only []; split <;> simpa using h

theorem applyConf_managed_mono (q : RQ) (c : QC) (h : q.managed = true) : (applyConf q c).managed = true := by
  unfold applyConf
  repeat' split
  all_goals first | exact h | rfl

theorem updExisting_managed_mono (q : RQ) (c : QC) (pq : Option RQ) (h : q.managed = true) : (updExisting q c pq).managed = true := by
  have h' := applyConf_managed_mono q c h
  unfold updExisting
  split
  · exact h'
  · cases pq with
    | none => simpa using h'
    | some p => simp only []; split <;> simpa using h'

/-- one entry of the walk keeps the tree well-formed when the entry names its parent by path and the queue of its parent
    entry is managed (it was walked before) -/
theorem applyEntry_ok_tree (t : Tree) (c : QC) (h : TreeOK t) (hcp : c.parent = parentPath c.path) (hne : ¬ c.path = "")
    (hparent : c.parent = "" ∨ ∃ qy, t.find c.parent = some qy ∧ qy.managed = true) : TreeOK (applyEntry t c).1 := by
  unfold applyEntry
  cases hf : t.find c.path with
  | some q0 =>
    simp only
    refine ⟨?_, ?_, ?_⟩
    · unfold parentsFirst Tree.upd
      rw [pf_map_shape _ (by intro q; split <;> simp [updExisting_path]) (by intro q; split <;> simp [updExisting_parent])]
      exact h.pf
    · intro x hx hxm y hy hyp
      unfold Tree.upd at hx hy
      obtain ⟨x0, hx0, rfl⟩ := List.mem_map.mp hx
      obtain ⟨y0, hy0, rfl⟩ := List.mem_map.mp hy
      have hypath : y0.path = x0.parent := by
        have e1 : (if y0.path = c.path then updExisting y0 c (if c.parent = "" then none else t.find c.parent) else y0).path = y0.path := by
          split <;> simp [updExisting_path]
        have e2 : (if x0.path = c.path then updExisting x0 c (if c.parent = "" then none else t.find c.parent) else x0).parent = x0.parent := by
          split <;> simp [updExisting_parent]
        rw [e1, e2] at hyp; exact hyp
      -- the parent is managed before the step, and the step never un-manages
      have hy0m : y0.managed = true := by
        by_cases hx0m : x0.managed = true
        · exact h.w0 x0 hx0 hx0m y0 hy0 hypath
        · -- x0 became managed now: it is the queue of the entry, its parent is the queue of the parent entry
          have hxc : x0.path = c.path := by
            by_cases hxc : x0.path = c.path
            · exact hxc
            · simp [hxc] at hxm; exact absurd hxm hx0m
          have hpar : x0.parent = c.parent := by rw [h.pp x0 hx0, hxc, ← hcp]
          rcases hparent with h0 | ⟨qy, hqy, hqm⟩
          · have := pf_nonempty t [] h.pf y0 hy0
            rw [hypath, hpar, h0] at this; exact absurd rfl this
          · have := pf_find t [] h.pf y0 hy0
            rw [hypath, hpar, hqy] at this
            injection this with this
            rw [← this]; exact hqm
      by_cases hyc : y0.path = c.path
      · simp only [hyc, if_true]; exact updExisting_managed_mono y0 c _ hy0m
      · simp only [hyc, if_false]; exact hy0m
    · intro q hq
      unfold Tree.upd at hq
      obtain ⟨q0', hq0', rfl⟩ := List.mem_map.mp hq
      by_cases hqc : q0'.path = c.path
      · simp only [hqc, if_true, updExisting_path, updExisting_parent]; rw [← hqc]; exact h.pp q0' hq0'
      · simp only [hqc, if_false]; exact h.pp q0' hq0'
  | none =>
    -- appending the new queue
    have happ : ∀ (p : Option RQ), entryErr c = none → (c.parent = "" ∨ (t.find c.parent).isSome) → TreeOK (t ++ [newConfigured c p]) := by
      intro p he hpres
      obtain ⟨n1, n2, n3, n4, _⟩ := newConfigured_fields c p he
      have npath := newConfigured_path c p
      refine ⟨?_, ?_, ?_⟩
      · apply pf_append t [] _ h.pf
        · rw [n4]
          rcases hpres with h0 | h0
          · exact Or.inl h0
          · exact Or.inr (Or.inr (find_isSome_mem h0))
        · rfl
        · rw [npath]; exact find_none_forall hf
        · rw [npath]; exact hne
      · intro x hx hxm y hy hyp
        rcases List.mem_append.mp hy with hyt | hyn
        · rcases List.mem_append.mp hx with hxt | hxn
          · exact h.w0 x hxt hxm y hyt hyp
          · have hxe : x = newConfigured c p := by simpa using hxn
            rw [hxe, n4] at hyp
            rcases hparent with h0 | ⟨qy, hqy, hqm⟩
            · have := pf_nonempty t [] h.pf y hyt
              rw [hyp, h0] at this; exact absurd rfl this
            · have := pf_find t [] h.pf y hyt
              rw [hyp, hqy] at this
              injection this with this
              rw [← this]; exact hqm
        · have hye : y = newConfigured c p := by simpa using hyn
          rw [hye]; exact n2
      · intro q hq
        rcases List.mem_append.mp hq with hqt | hqn
        · exact h.pp q hqt
        · have hqe : q = newConfigured c p := by simpa using hqn
          rw [hqe, n4, npath]; exact hcp
    simp only
    cases he : entryErr c with
    | some e => exact h
    | none =>
      simp only
      by_cases hroot : c.parent = ""
      · simp only [hroot, if_true]
        exact happ none he (Or.inl hroot)
      · simp only [hroot, if_false]
        cases hp : t.find c.parent with
        | none => exact h
        | some p =>
          simp only
          split
          · exact h
          · split
            · exact h
            · exact happ (some p) he (Or.inr (by rw [hp]; rfl))

theorem confPaths_spec (conf : List QC) (h : confPaths conf = true) : ∀ c ∈ conf, c.parent = parentPath c.path ∧ ¬ c.path = "" := by
  intro c hc
  unfold confPaths at h
  have := List.all_eq_true.mp h c hc
  simpa using this

/-- the walk of updateQueues (complete or stopped by an error) keeps the tree well-formed -/
theorem applyAll_ok_tree (conf : List QC) : ∀ (seen : List QC) (t : Tree), TreeOK t → Processed seen t → confWFAux seen conf = true →
    (∀ c ∈ conf, c.parent = parentPath c.path ∧ ¬ c.path = "") → TreeOK (applyAll t conf).1 := by
  induction conf with
  | nil => intro _ t h _ _ _; exact h
  | cons a r ih =>
    intro seen t h hp hwf hcp
    have hwf0 := hwf
    unfold confWFAux at hwf
    simp only [Bool.and_eq_true, Bool.not_eq_true', List.any_eq_false, Bool.or_eq_true, decide_eq_true_eq, List.any_eq_true] at hwf
    obtain ⟨⟨hnew, hpar⟩, hrest⟩ := hwf
    have hparent : a.parent = "" ∨ ∃ qy, t.find a.parent = some qy ∧ qy.managed = true := by
      rcases hpar with h0 | ⟨p, hp1, hp2, _⟩
      · exact Or.inl h0
      · obtain ⟨q, hq, _, _, hm⟩ := hp p hp1
        rw [hp2] at hq
        exact Or.inr ⟨q, hq, hm⟩
    have hstep := applyEntry_ok_tree t a h (hcp a (List.mem_cons_self ..)).1 (hcp a (List.mem_cons_self ..)).2 hparent
    unfold applyAll
    cases he : applyEntry t a with
    | mk t1 e1 =>
      rw [he] at hstep
      cases e1 with
      | some e => exact hstep
      | none =>
        simp only
        have hpar' : a.parent = "" ∨ ∃ p ∈ seen, p.path = a.parent ∧ p.isParent = true := by
          rcases hpar with h0 | ⟨p, hp1, hp2⟩
          · exact Or.inl h0
          · exact Or.inr ⟨p, hp1, hp2⟩
        obtain ⟨t', ht', hp'⟩ := applyEntry_ok seen t a hp (applyEntry_noerr_entryErr t a t1 he) hnew hpar'
        rw [he] at ht'
        simp only [Prod.mk.injEq, and_true] at ht'
        subst ht'
        exact ih (seen ++ [a]) t1 hstep hp' hrest (fun c hc => hcp c (List.mem_cons_of_mem _ hc))

theorem markMissing_ok_tree (t : Tree) (conf : List QC) (h : TreeOK t) : TreeOK (markMissing t conf) := by
  unfold markMissing
  apply h.map
  · intro q; split <;> rfl
  · intro q; split <;> rfl
  · intro q; split <;> rfl

theorem markRec_ok_tree (t : Tree) (conf : List QC) (h : TreeOK t) : TreeOK (markRec t conf) := by
  rw [markRec_eq_markSet]
  unfold markSet
  apply h.map
  · intro q; split <;> rfl
  · intro q; split <;> rfl
  · intro q; split <;> rfl

theorem updateTree_ok_tree (t : Tree) (conf : List QC) (h : TreeOK t) (hwf : confWF conf = true) (hcp : confPaths conf = true) :
    TreeOK (updateTree t conf).1 := by
  have ha := applyAll_ok_tree conf [] t h (fun _ hh => by cases hh) hwf (confPaths_spec conf hcp)
  unfold updateTree
  cases he : applyAll t conf with
  | mk t1 e1 =>
    rw [he] at ha
    cases e1 with
    | some e => exact ha
    | none => exact markMissing_ok_tree t1 conf ha

theorem cleanStep_ok_tree (t : Tree) (q : RQ) (h : TreeOK t) : TreeOK (cleanStep t q) := by
  unfold cleanStep
  split
  · rename_i hrem
    have hnc : t.hasChild q.path = false := by
      unfold removable at hrem
      simp only [Bool.and_eq_true, Bool.not_eq_true'] at hrem
      exact hrem.1.2
    have hnp : ∀ x ∈ t, ¬ x.parent = q.path := by
      unfold Tree.hasChild at hnc
      rw [List.any_eq_false] at hnc
      intro x hx; simpa using hnc x hx
    refine ⟨?_, ?_, ?_⟩
    · have := pf_filter q.path t [] h.pf hnp
      simpa [parentsFirst] using this
    · intro x hx hxm y hy hyp
      exact h.w0 x (List.mem_filter.mp hx).1 hxm y (List.mem_filter.mp hy).1 hyp
    · intro x hx; exact h.pp x (List.mem_filter.mp hx).1
  · exact h

theorem clean_ok_tree (t : Tree) (h : TreeOK t) : TreeOK (clean t) := by
  unfold clean
  have : ∀ (l : List RQ) (acc : Tree), TreeOK acc → TreeOK (l.foldl cleanStep acc) := by
    intro l
    induction l with
    | nil => intro acc ha; exact ha
    | cons a r ih => intro acc ha; exact ih _ (cleanStep_ok_tree acc a ha)
  exact this _ t h

/-- NewDynamicQueue: an unmanaged queue with a new, non-empty path below a queue that is there -/
theorem dynamic_ok_tree (t : Tree) (q : RQ) (h : TreeOK t) (hm : q.managed = false) (hne : ¬ q.path = "")
    (hnew : t.find q.path = none) (hpp : q.parent = parentPath q.path) (hpar : (t.find q.parent).isSome) : TreeOK (t ++ [q]) := by
  refine ⟨?_, ?_, ?_⟩
  · exact pf_append t [] q h.pf (Or.inr (Or.inr (find_isSome_mem hpar))) rfl (find_none_forall hnew) hne
  · intro x hx hxm y hy hyp
    rcases List.mem_append.mp hx with hxt | hxn
    · rcases List.mem_append.mp hy with hyt | hyn
      · exact h.w0 x hxt hxm y hyt hyp
      · -- the new queue cannot be the parent of an old one: its path was not there, and parents are present
        have hye : y = q := by simpa using hyn
        rw [hye] at hyp
        exfalso
        have hxne : ¬ x.parent = "" := by rw [← hyp]; exact hne
        obtain ⟨pre, suf, hsplit⟩ := List.append_of_mem hxt
        have := pf_split pre [] x suf (by rw [← hsplit]; exact h.pf)
        rcases this with h0 | h0 | ⟨z, hz, hzp⟩
        · exact hxne h0
        · simp at h0
        · have hzt : z ∈ t := by rw [hsplit]; exact List.mem_append_left _ hz
          exact find_none_forall hnew z hzt (by rw [hzp, hyp])
    · have hxe : x = q := by simpa using hxn
      rw [hxe, hm] at hxm; cases hxm
  · intro x hx
    rcases List.mem_append.mp hx with hxt | hxn
    · exact h.pp x hxt
    · have hxe : x = q := by simpa using hxn
      rw [hxe]; exact hpp

/-- the trees the modelled operations can produce: a fresh load, configuration updates (accepted or stopped by an error),
    the queue cleaner, creation of a dynamic queue by a submission, and anything that leaves path, parent and the
    managed flag of every queue alone (allocations, applications, scheduling) -/
inductive Reachable : Tree → Prop
  | fresh (conf : List QC) : confWF conf = true → confPaths conf = true → Reachable (applyAll [] conf).1
  | update (t : Tree) (conf : List QC) : Reachable t → confWF conf = true → confPaths conf = true → Reachable (updateTree t conf).1
  | updateRec (t : Tree) (conf : List QC) : Reachable t → confWF conf = true → confPaths conf = true → Reachable (updateTreeRec t conf).1
  | clean (t : Tree) : Reachable t → Reachable (clean t)
  | dynamic (t : Tree) (q : RQ) : Reachable t → q.managed = false → ¬ q.path = "" → t.find q.path = none →
      q.parent = parentPath q.path → (t.find q.parent).isSome → Reachable (t ++ [q])
  | other (t : Tree) (f : RQ → RQ) : Reachable t → (∀ q, (f q).path = q.path) → (∀ q, (f q).parent = q.parent) →
      (∀ q, (f q).managed = q.managed) → Reachable (t.map f)

theorem treeOK_nil : TreeOK [] := by
  refine ⟨rfl, ?_, ?_⟩
  · intro x hx; cases hx
  · intro x hx; cases hx

/-- **W0 is an invariant**: every reachable tree is well-formed — in particular nothing managed sits below an unmanaged queue -/
theorem reachable_ok : ∀ t, Reachable t → TreeOK t := by
  intro t h
  induction h with
  | fresh conf hwf hcp => exact applyAll_ok_tree conf [] [] treeOK_nil (fun _ hh => by cases hh) hwf (confPaths_spec conf hcp)
  | update t conf _ hwf hcp ih => exact updateTree_ok_tree t conf ih hwf hcp
  | updateRec t conf _ hwf hcp ih =>
    have ha := applyAll_ok_tree conf [] t ih (fun _ hh => by cases hh) hwf (confPaths_spec conf hcp)
    unfold updateTreeRec
    cases he : applyAll t conf with
    | mk t1 e1 =>
      rw [he] at ha
      cases e1 with
      | some e => exact ha
      | none => exact markRec_ok_tree t1 conf ha
  | clean t _ ih => exact clean_ok_tree t ih
  | dynamic t q _ hm hne hnew hpp hpar ih => exact dynamic_ok_tree t q ih hm hne hnew hpp hpar
  | other t f _ hp hpar hm ih => exact ih.map f hp hpar hm

/-! ### the update with the recursive walk equals the update with the characterisation -/

theorem confWFAux_parent (conf : List QC) : ∀ seen : List QC, confWFAux seen conf = true →
    ∀ c ∈ conf, c.parent = "" ∨ ∃ p ∈ seen ++ conf, p.path = c.parent := by
  induction conf with
  | nil => intro _ _ c hc; cases hc
  | cons a r ih =>
    intro seen hwf c hc
    unfold confWFAux at hwf
    simp only [Bool.and_eq_true, Bool.or_eq_true, decide_eq_true_eq, List.any_eq_true] at hwf
    cases hc with
    | head =>
      rcases hwf.1.2 with h0 | ⟨p, hp, hpp, _⟩
      · exact Or.inl h0
      · exact Or.inr ⟨p, List.mem_append_left _ hp, hpp⟩
    | tail _ hm =>
      rcases ih (seen ++ [a]) hwf.2 c hm with h0 | ⟨p, hp, hpp⟩
      · exact Or.inl h0
      · exact Or.inr ⟨p, by simpa [List.append_assoc] using hp, hpp⟩

theorem applyEntry_origin (t : Tree) (c : QC) : ∀ q ∈ (applyEntry t c).1, q.path = c.path ∨ ∃ q0 ∈ t, q0.path = q.path ∧ q0.parent = q.parent := by
  intro q hq
  unfold applyEntry at hq
  have happ : ∀ n : RQ, n.path = c.path → q ∈ t ++ [n] → q.path = c.path ∨ ∃ q0 ∈ t, q0.path = q.path ∧ q0.parent = q.parent := by
    intro n hn h
    rcases List.mem_append.mp h with h1 | h1
    · exact Or.inr ⟨q, h1, rfl, rfl⟩
    · have : q = n := by simpa using h1
      rw [this]; exact Or.inl hn
  cases hf : t.find c.path with
  | some q0 =>
    rw [hf] at hq
    simp only [Tree.upd] at hq
    obtain ⟨x, hx, rfl⟩ := List.mem_map.mp hq
    refine Or.inr ⟨x, hx, ?_, ?_⟩
    · split <;> simp [updExisting_path]
    · split <;> simp [updExisting_parent]
  | none =>
    rw [hf] at hq
    simp only at hq
    split at hq
    · exact Or.inr ⟨q, hq, rfl, rfl⟩
    · split at hq
      · exact happ _ (newConfigured_path c none) hq
      · split at hq
        · exact Or.inr ⟨q, hq, rfl, rfl⟩
        · split at hq
          · exact Or.inr ⟨q, hq, rfl, rfl⟩
          · split at hq
            · exact Or.inr ⟨q, hq, rfl, rfl⟩
            · exact happ _ (newConfigured_path c _) hq

theorem applyAll_origin (cs : List QC) : ∀ (t : Tree), ∀ q ∈ (applyAll t cs).1,
    (∃ c ∈ cs, c.path = q.path) ∨ ∃ q0 ∈ t, q0.path = q.path ∧ q0.parent = q.parent := by
  induction cs with
  | nil => intro t q hq; exact Or.inr ⟨q, hq, rfl, rfl⟩
  | cons a r ih =>
    intro t q hq
    unfold applyAll at hq
    cases he : applyEntry t a with
    | mk t1 e1 =>
      rw [he] at hq
      have horig := applyEntry_origin t a
      rw [he] at horig
      have lift : ∀ x ∈ t1, (∃ c ∈ a :: r, c.path = x.path) ∨ ∃ q0 ∈ t, q0.path = x.path ∧ q0.parent = x.parent := by
        intro x hx
        rcases horig x hx with h1 | h1
        · exact Or.inl ⟨a, List.mem_cons_self .., h1.symm⟩
        · exact Or.inr h1
      cases e1 with
      | some e => exact lift q hq
      | none =>
        simp only at hq
        rcases ih t1 q hq with ⟨c, hc, hcp⟩ | ⟨q1, hq1, hp1, hpar1⟩
        · exact Or.inl ⟨c, List.mem_cons_of_mem _ hc, hcp⟩
        · rcases lift q1 hq1 with ⟨c, hc, hcp⟩ | ⟨q0, hq0, hp0, hpar0⟩
          · exact Or.inl ⟨c, hc, hcp.trans hp1⟩
          · exact Or.inr ⟨q0, hq0, hp0.trans hp1, hpar0.trans hpar1⟩

/-- on a well-formed tree the update with the walk as the code performs it is the update with the characterisation -/
theorem updateTreeRec_eq_updateTree (t : Tree) (conf : List QC) (h : TreeOK t) (hwf : confWF conf = true) (hcp : confPaths conf = true)
    (htop : ∀ q ∈ t, q.parent = "" → configured conf q.path = true) : updateTreeRec t conf = updateTree t conf := by
  have ha := applyAll_ok_tree conf [] t h (fun _ hh => by cases hh) hwf (confPaths_spec conf hcp)
  have horig := applyAll_origin conf t
  unfold updateTreeRec updateTree
  cases he : applyAll t conf with
  | mk t1 e1 =>
    rw [he] at ha horig
    cases e1 with
    | some e => rfl
    | none =>
      simp only
      rw [markRec_eq_markMissing t1 conf ha.pf ha.w0]
      · intro q hq hc
        obtain ⟨c, hcm, hcpath⟩ := (configured_iff conf q.path).mp hc
        have hqpar : q.parent = c.parent := by
          rw [ha.pp q hq, ← hcpath]; exact ((confPaths_spec conf hcp) c hcm).1.symm
        rcases confWFAux_parent conf [] hwf c hcm with h0 | ⟨p, hp, hpp⟩
        · exact Or.inl (hqpar.trans h0)
        · right
          rw [hqpar]
          exact (configured_iff conf c.parent).mpr ⟨p, by simpa using hp, hpp⟩
      · intro q hq hpar
        rcases horig q hq with ⟨c, hc, hcpath⟩ | ⟨q0, hq0, hp0, hpar0⟩
        · exact (configured_iff conf q.path).mpr ⟨c, hc, hcpath⟩
        · rw [← hp0]; exact htop q0 hq0 (hpar0.trans hpar)

/-- **depth clause**: every managed queue the configuration does not name — at whatever depth of a dropped hierarchy —
    has taken the Remove event after the update as the code performs it -/
theorem updateTreeRec_dropped (t t' : Tree) (conf : List QC) (h : TreeOK t) (hwf : confWF conf = true) (hcp : confPaths conf = true)
    (htop : ∀ q ∈ t, q.parent = "" → configured conf q.path = true) (hupd : updateTreeRec t conf = (t', none)) :
    ∀ x q, t.find x = some q → q.managed = true → configured conf x = false → t'.find x = some q.mark := by
  intro x q hq hm hc
  rw [updateTreeRec_eq_updateTree t conf h hwf hcp htop] at hupd
  have hne : ∀ c ∈ conf, ¬ x = c.path := by
    intro c hcm hx
    have := configured_mem hcm
    rw [← hx, hc] at this; cases this
  unfold updateTree at hupd
  cases he : applyAll t conf with
  | mk t1 e1 =>
    rw [he] at hupd
    cases e1 with
    | some e => simp at hupd
    | none =>
      simp only [Prod.mk.injEq, and_true] at hupd
      have h1 := applyAll_find_other conf t x hne
      rw [he] at h1
      simp only at h1
      rw [← hupd]
      unfold markMissing
      rw [find_map_pres _ _ _ (by intro q; split <;> rfl), h1, hq]
      have hx : q.path = x := find_some_path hq
      simp [hm, hx, hc, RQ.mark]

end Yk.Reload
