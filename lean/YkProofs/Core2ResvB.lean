/-
  `reserve` / `unreserve` (partition.reserve / unReserve: a scheduling cycle reserves a node for an ask or cancels a
  reservation): reservations are not in the books — the operations keep `Books` and `CoreWF`.
-/
import YkProofs.Core2Base
namespace Yk
open Res Core

theorem appIrrel_resv (f : List (String × String) → List (String × String)) :
    AppIrrel (fun x : CApp => { x with reservations := f x.reservations }) :=
  fun _ => ⟨rfl, rfl, rfl, rfl, rfl, rfl, fun x => x, fun _ => ⟨rfl, rfl, rfl, rfl, rfl, rfl⟩, by simp⟩

theorem nodeIrrel_resv (f : CNode → List String) : NodeIrrel (fun n : CNode => { n with reservations := f n }) :=
  fun _ => ⟨rfl, rfl, rfl, rfl, rfl, rfl⟩

/-- a state whose applications / nodes / queues differ from those of `s` in reservation bookkeeping only -/
theorem resv_bw {s t : Core} (app node : String) (fa : List (String × String) → List (String × String))
    (fn : CNode → List String) (gq : CQueue → CQueue)
    (hgq : ∀ q, (gq q).path = q.path ∧ (gq q).allocated = q.allocated ∧ (gq q).pending = q.pending)
    (ha : t.apps = s.apps.map (fun x => if (x.live && x.id == app) = true then { x with reservations := fa x.reservations } else x))
    (hn : t.nodes = s.nodes.map (fun n => if (n.id == node) = true then { n with reservations := fn n } else n))
    (hq : t.queues = s.queues.map gq) (hw : CoreWF s) (hb : Books s) : Books t ∧ CoreWF t := by
  have hga := appIrrel_upd app _ (appIrrel_resv fa)
  have hgn := nodeIrrel_upd node _ (nodeIrrel_resv fn)
  exact ⟨books_irrel _ gq _ hga hgq hgn ha hq hn hb, wf_irrel _ gq _ hga hgq hgn ha hq hn hw⟩

theorem reserve_bw (s : Core) (app key node : String) (hw : CoreWF s) (hb : Books s) :
    Books (s.reserve app key node) ∧ CoreWF (s.reserve app key node) := by
  unfold reserve
  split
  · exact ⟨hb, hw⟩
  · split
    · exact ⟨hb, hw⟩
    · refine resv_bw app node (fun r => r ++ [(key, node)]) (fun n => n.reservations ++ [key]) _ ?_ rfl rfl rfl hw hb
      intro q; split <;> exact ⟨rfl, rfl, rfl⟩

theorem unreserve_bw (s : Core) (app key node : String) (hw : CoreWF s) (hb : Books s) :
    Books (s.unreserve app key node) ∧ CoreWF (s.unreserve app key node) := by
  unfold unreserve
  split
  · exact ⟨hb, hw⟩
  · split
    · exact ⟨hb, hw⟩
    · refine resv_bw app node (fun r => r.filter (· != (key, node))) (fun n => n.reservations.filter (· != key)) _ ?_ rfl rfl rfl hw hb
      intro q; split <;> exact ⟨rfl, rfl, rfl⟩

end Yk
