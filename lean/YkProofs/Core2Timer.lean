/-
  Timers and bookkeeping-only operations of the stepped Core model (YkModel/CoreOps2.lean): `phTimeout`
  (timeoutPlaceholderProcessing), `stateTimeout` (timeoutStateTimer), `leaveApp` / `sweepTerminated` (moveTerminatedApp),
  `markReleased`, `cleanup`, `queuesAdd` / `appAdd`.  For each one: the books and the well-formedness of the state are
  preserved.
-/
import YkProofs.Core2Repl
namespace Yk
open Res Core

/- the helper lemmas of this file live in `Yk.Timer`, the results about the operations in `Yk` -/
namespace Timer

/-! ### generic: one application replaced, its queue chain updated, nodes untouched -/

theorem getD_nil (k : String) : Res.getD [] k = 0 := rfl

theorem qwf_nil_irrel : wf ([] : Res) = true ∧ allInR ([] : Res) := ⟨rfl, fun _ hp => by cases hp⟩

/-- `books_upd` and `CoreWF.of_parts` together, for a state whose node list is the old one -/
theorem upd_props (s t : Core) (id : String) (a : CApp) (f : CApp → CApp) (chain : List String) (fq : CQueue → CQueue)
    (hw : CoreWF s) (hb : Books s)
    (hta : t.apps = updApps s.apps id f) (htq : t.queues = updQs s.queues chain fq) (htn : t.nodes = s.nodes)
    (ha : a ∈ s.apps) (hl : a.live = true) (hid : a.id = id)
    (hq : (f a).queue = a.queue)
    (hfid : ∀ x, (x.live && x.id == id) = true → (f x).id = x.id)
    (hfb : (f a).live = true → AppBooks (f a)) (hfw : (f a).live = true → AppWF (f a))
    (hchain : ∀ q ∈ s.queues, (chain.contains q.path = true ↔ under a.queue q.path = true))
    (hpath : ∀ q, (fq q).path = q.path)
    (hqwf : ∀ q ∈ s.queues, chain.contains q.path = true → QWF (fq q))
    (hon : ∀ q ∈ s.queues, under a.queue q.path = true → ∀ k,
      (fq q).allocated.getD k = q.allocated.getD k - (a.allocated.getD k + a.allocatedPh.getD k)
          + (if (f a).live = true then (f a).allocated.getD k + (f a).allocatedPh.getD k else 0) ∧
      (fq q).pending.getD k = q.pending.getD k - a.pending.getD k
          + (if (f a).live = true then (f a).pending.getD k else 0)) : Books t ∧ CoreWF t := by
  constructor
  · exact books_upd s t id a f chain fq hta htq (by rw [htn]; exact hb.nodes) hw.appIds ha hl hid hb.apps hb.queues hq hfb
      hchain hpath hon
  · obtain ⟨h1, h2⟩ := wf_updApps s.apps id f a hw.appIds ha hl hid (fun x hx hxl => hw.app hx hxl) hfid hfw
    have h3 := wf_updQs s.queues chain fq (fun q hq => hw.queue hq) hqwf
    exact CoreWF.of_parts (by rw [hta]; exact h1) (by rw [htn]; exact hw.nodeIds) (by rw [hta]; exact h2)
      (by rw [htq]; exact h3) (by rw [htn]; exact fun n hn => hw.node hn)

/-- an application update the books do not read (flags, timers, logs) -/
theorem flag_props (s : Core) (id : String) (f : CApp → CApp) (hf : AppIrrel f) (hw : CoreWF s) (hb : Books s) :
    Books (updApp s id f) ∧ CoreWF (updApp s id f) := by
  have hga := appIrrel_upd id f hf
  have hgq : ∀ q : CQueue, ((fun q : CQueue => q) q).path = q.path ∧ ((fun q : CQueue => q) q).allocated = q.allocated ∧
      ((fun q : CQueue => q) q).pending = q.pending := fun _ => ⟨rfl, rfl, rfl⟩
  have hgn : NodeIrrel (fun n : CNode => n) := fun _ => ⟨rfl, rfl, rfl, rfl, rfl, rfl⟩
  exact ⟨books_irrel _ _ _ hga hgq hgn rfl (by simp) (by simp) hb, wf_irrel _ _ _ hga hgq hgn rfl (by simp) (by simp) hw⟩

/-! ### the item list after every ask was dropped: the bound items, without their requests -/

/-- removeAsksInternal("") / moveTerminatedApp on the item list -/
def boundOnly (l : List CItem) : List CItem := (l.filter (·.bound)).map (fun x => { x with inReq := false })

theorem mem_boundOnly {l : List CItem} {y : CItem} (hy : y ∈ boundOnly l) :
    ∃ x ∈ l, x.bound = true ∧ y = { x with inReq := false } := by
  unfold boundOnly at hy
  obtain ⟨x, hx, rfl⟩ := List.mem_map.mp hy
  obtain ⟨hxm, hxb⟩ := List.mem_filter.mp hx
  exact ⟨x, hxm, hxb, rfl⟩

theorem pairwise_boundOnly (l : List CItem) (h : l.Pairwise (fun i j => i.key ≠ j.key)) :
    (boundOnly l).Pairwise (fun i j => i.key ≠ j.key) := by
  unfold boundOnly
  rw [List.pairwise_map]
  exact (h.filter _)

/-- the three sums: the allocated ones are unchanged, nothing is pending -/
theorem itemSum_boundOnly (l : List CItem) (k : String) :
    itemSum (boundOnly l) (fun i => i.bound && !i.ph) k = itemSum l (fun i => i.bound && !i.ph) k ∧
    itemSum (boundOnly l) (fun i => i.bound && i.ph) k = itemSum l (fun i => i.bound && i.ph) k ∧
    itemSum (boundOnly l) (fun i => i.inReq && !i.allocated) k = 0 := by
  unfold boundOnly
  refine ⟨?_, ?_, ?_⟩
  · rw [itemSum_map_irrel, itemSum_filter_irrel _ _ _ _ (fun x _ hd => by simp [hd])]
    exact fun x _ => ⟨rfl, rfl⟩
  · rw [itemSum_map_irrel, itemSum_filter_irrel _ _ _ _ (fun x _ hd => by simp [hd])]
    exact fun x _ => ⟨rfl, rfl⟩
  · apply sumIf_none
    intro y hy
    obtain ⟨x, _, rfl⟩ := List.mem_map.mp hy
    rfl

theorem appWF_boundOnly {a b : CApp} (hi : b.items = boundOnly a.items)
    (h1 : wf b.pending = true) (h2 : b.allocated = a.allocated) (h3 : b.allocatedPh = a.allocatedPh) (h : AppWF a) : AppWF b := by
  refine ⟨by rw [hi]; exact pairwise_boundOnly _ h.itemKeys, ⟨h1, by rw [h2]; exact h.appRes.2.1, by rw [h3]; exact h.appRes.2.2⟩, ?_, ?_⟩
  · intro y hy
    rw [hi] at hy
    obtain ⟨x, hx, _, rfl⟩ := mem_boundOnly hy
    exact h.itemRes x hx
  · intro y hy hb
    rw [hi] at hy
    obtain ⟨x, hx, hxb, rfl⟩ := mem_boundOnly hy
    exact h.boundAllocated x hx hxb

/-- the application's books after every ask was dropped and the pending total reset -/
theorem appBooks_boundOnly {a b : CApp} (hi : b.items = boundOnly a.items)
    (h1 : b.pending = []) (h2 : b.allocated = a.allocated) (h3 : b.allocatedPh = a.allocatedPh) (h : AppBooks a) : AppBooks b := by
  refine ⟨?_, ?_, ?_⟩ <;> intro k
  · rw [hi, h2, (itemSum_boundOnly a.items k).1]; exact h.allocated k
  · rw [hi, h3, (itemSum_boundOnly a.items k).2.1]; exact h.allocatedPh k
  · rw [hi, h1, (itemSum_boundOnly a.items k).2.2]; rfl

/-! ### flag updates of items -/

theorem itemIrrel_ite (c : CItem → Bool) (g : CItem → CItem) (hg : ItemIrrel g) :
    ItemIrrel (fun x => if c x = true then g x else x) := by
  intro x
  by_cases h : c x = true
  · dsimp only; rw [if_pos h]; exact hg x
  · dsimp only; rw [if_neg h]; exact ⟨rfl, rfl, rfl, rfl, rfl, rfl⟩

theorem itemIrrel_released : ItemIrrel (fun x : CItem => { x with released := true }) :=
  fun _ => ⟨rfl, rfl, rfl, rfl, rfl, rfl⟩

theorem itemIrrel_preempted : ItemIrrel (fun x : CItem => { x with preempted := true }) :=
  fun _ => ⟨rfl, rfl, rfl, rfl, rfl, rfl⟩

theorem any_inReq_map (l : List CItem) (g : CItem → CItem) (hg : ItemIrrel g) :
    (l.map g).any (·.inReq) = l.any (·.inReq) := by
  induction l with
  | nil => rfl
  | cons x t ih => rw [List.map_cons, List.any_cons, List.any_cons, ih, (hg x).2.2.2.2.2]

/-! ### `dropAsksApp` (removeAsksInternal("")) on the application -/

theorem dropAsksApp_noreq (b : CApp) (h : b.items.any (·.inReq) = false) : dropAsksApp b = b := by
  unfold dropAsksApp; simp only [h, Bool.not_false, if_true]

theorem dropAsksApp_fields (b : CApp) (h : b.items.any (·.inReq) = true) :
    (dropAsksApp b).items = boundOnly b.items ∧ (dropAsksApp b).pending = [] ∧ (dropAsksApp b).allocated = b.allocated ∧
    (dropAsksApp b).allocatedPh = b.allocatedPh := by
  unfold dropAsksApp boundOnly
  simp only [h, Bool.not_true, Bool.false_eq_true, if_false, setState_items, setState_pending, setState_allocated,
    setState_allocatedPh, and_self]

theorem dropAsksApp_id (b : CApp) : (dropAsksApp b).id = b.id := by
  unfold dropAsksApp; split
  · rfl
  · simp only [setState_id]
theorem dropAsksApp_queue (b : CApp) : (dropAsksApp b).queue = b.queue := by
  unfold dropAsksApp; split
  · rfl
  · simp only [setState_queue]
theorem dropAsksApp_live (b : CApp) : (dropAsksApp b).live = b.live := by
  unfold dropAsksApp; split
  · rfl
  · simp only [setState_live]
theorem dropAsksApp_allocated (b : CApp) : (dropAsksApp b).allocated = b.allocated := by
  unfold dropAsksApp; split
  · rfl
  · simp only [setState_allocated]
theorem dropAsksApp_allocatedPh (b : CApp) : (dropAsksApp b).allocatedPh = b.allocatedPh := by
  unfold dropAsksApp; split
  · rfl
  · simp only [setState_allocatedPh]
theorem dropAsksApp_pending (b : CApp) :
    (dropAsksApp b).pending = if b.items.any (·.inReq) = true then [] else b.pending := by
  cases h : b.items.any (·.inReq) with
  | false => rw [dropAsksApp_noreq b h]; simp
  | true => rw [(dropAsksApp_fields b h).2.1]; simp

theorem appBooks_dropAsksApp (b : CApp) (h : AppBooks b) : AppBooks (dropAsksApp b) := by
  cases hr : b.items.any (·.inReq) with
  | false => rw [dropAsksApp_noreq b hr]; exact h
  | true =>
    obtain ⟨h1, h2, h3, h4⟩ := dropAsksApp_fields b hr
    exact appBooks_boundOnly h1 h2 h3 h4 h

theorem appWF_dropAsksApp (b : CApp) (h : AppWF b) : AppWF (dropAsksApp b) := by
  cases hr : b.items.any (·.inReq) with
  | false => rw [dropAsksApp_noreq b hr]; exact h
  | true =>
    obtain ⟨h1, h2, h3, h4⟩ := dropAsksApp_fields b hr
    exact appWF_boundOnly h1 (by rw [h2]; rfl) h3 h4 h

/-! ### `phTimeout` (timeoutPlaceholderProcessing) -/

/-- case 2, before the asks are dropped: the state the application announced, every allocation marked released, the
    outstanding asks counted as timed out -/
def phApp1 (a : CApp) (ev : Option String) : CApp :=
  let a0 := match ev with | some st => setState a st | none => a
  let timedOut := a.items.filter (fun x => x.inReq && !x.allocated && !x.preempted)
  { a0 with items := a0.items.map (fun x => if x.bound && !x.preempted then { x with released := true } else x),
            phData := timedOut.foldl (fun d x => bumpTimedOut x.tg d) a0.phData }

theorem phApp1_fields (a : CApp) (ev : Option String) :
    (phApp1 a ev).items = a.items.map (fun x => if (x.bound && !x.preempted) = true then { x with released := true } else x) ∧
    (phApp1 a ev).id = a.id ∧ (phApp1 a ev).queue = a.queue ∧ (phApp1 a ev).live = a.live ∧
    (phApp1 a ev).allocated = a.allocated ∧ (phApp1 a ev).allocatedPh = a.allocatedPh ∧ (phApp1 a ev).pending = a.pending := by
  unfold phApp1
  cases ev with
  | none => exact ⟨rfl, rfl, rfl, rfl, rfl, rfl, rfl⟩
  | some st =>
    simp only [setState_items, setState_id, setState_queue, setState_live, setState_allocated, setState_allocatedPh,
      setState_pending, and_self]

theorem appBooks_phApp1 (a : CApp) (ev : Option String) (h : AppBooks a) : AppBooks (phApp1 a ev) := by
  obtain ⟨h1, _, _, _, h5, h6, h7⟩ := phApp1_fields a ev
  exact appBooks_items_irrel _ (itemIrrel_ite _ _ itemIrrel_released) h1 h5 h6 h7 h

theorem appWF_phApp1 (a : CApp) (ev : Option String) (h : AppWF a) : AppWF (phApp1 a ev) := by
  obtain ⟨h1, _, _, _, h5, h6, h7⟩ := phApp1_fields a ev
  exact appWF_items_irrel _ (itemIrrel_ite _ _ itemIrrel_released) h1 h5 h6 h7 h

theorem phApp1_anyReq (a : CApp) (ev : Option String) : (phApp1 a ev).items.any (·.inReq) = a.items.any (·.inReq) := by
  rw [(phApp1_fields a ev).1]
  exact any_inReq_map _ _ (itemIrrel_ite _ _ itemIrrel_released)

/-- the application after case 2 -/
def phApp2 (a : CApp) (ev : Option String) : CApp := dropAsksApp (phApp1 a ev)

theorem phApp2_fields (a : CApp) (ev : Option String) :
    (phApp2 a ev).id = a.id ∧ (phApp2 a ev).queue = a.queue ∧ (phApp2 a ev).live = a.live ∧
    (phApp2 a ev).allocated = a.allocated ∧ (phApp2 a ev).allocatedPh = a.allocatedPh ∧
    (phApp2 a ev).pending = if a.items.any (·.inReq) = true then [] else a.pending := by
  obtain ⟨_, h2, h3, h4, h5, h6, h7⟩ := phApp1_fields a ev
  unfold phApp2
  rw [dropAsksApp_id, dropAsksApp_queue, dropAsksApp_live, dropAsksApp_allocated, dropAsksApp_allocatedPh,
    dropAsksApp_pending, phApp1_anyReq, h2, h3, h4, h5, h6, h7]
  exact ⟨rfl, rfl, rfl, rfl, rfl, rfl⟩

/-- the state after case 2, before the reservations are dropped -/
def phCore2 (s : Core) (app : String) (ev : Option String) (a : CApp) : Core :=
  let sA := updApp s app (fun _ => phApp2 a ev)
  if a.items.any (·.inReq) then updQueues sA (pathChain s a.queue) (qDecPend a.pending) else sA

theorem phCore2_props (s : Core) (app : String) (ev : Option String) (a : CApp) (hw : CoreWF s) (hb : Books s)
    (hfind : s.findApp app = some a) : Books (phCore2 s app ev a) ∧ CoreWF (phCore2 s app ev a) := by
  obtain ⟨ham, hl, hid⟩ := findApp_some hfind
  have hwa := hw.app ham hl
  have hba := hb.apps a ham hl
  obtain ⟨f1, f2, f3, f4, f5, f6⟩ := phApp2_fields a ev
  have hfb : AppBooks (phApp2 a ev) := appBooks_dropAsksApp _ (appBooks_phApp1 a ev hba)
  have hfw : AppWF (phApp2 a ev) := appWF_dropAsksApp _ (appWF_phApp1 a ev hwa)
  unfold phCore2
  cases hreq : a.items.any (·.inReq) with
  | false =>
    simp only [Bool.false_eq_true, if_false]
    refine upd_props s _ app a _ (pathChain s a.queue) (fun q => q) hw hb rfl (by rw [updApp_queues, updQs_id]) rfl ham hl hid
      f2 (const_id (by rw [f1, hid])) (fun _ => hfb) (fun _ => hfw) (chain_iff s a.queue) (fun _ => rfl)
      (fun q hq _ => hw.queue hq) ?_
    intro q hq _ k
    show q.allocated.getD k = _ ∧ q.pending.getD k = _
    rw [f3, f4, f5, f6, hreq]
    simp only [hl, if_true, Bool.false_eq_true, if_false]
    constructor <;> omega
  | true =>
    simp only [if_true]
    refine upd_props s _ app a _ (pathChain s a.queue) (qDecPend a.pending) hw hb rfl rfl rfl ham hl hid
      f2 (const_id (by rw [f1, hid])) (fun _ => hfb) (fun _ => hfw) (chain_iff s a.queue) (fun _ => rfl)
      (fun q hq _ => qDecPend_wf _ _ (hw.queue hq)) ?_
    intro q hq hun k
    have hge := fun k' => app_pending_ge s.apps (fun y hy hyl j hj => (hw.itemRes y hy hyl j hj).2) hb.apps a ham hl q
      (hb.queues q hq) hun k'
    show (qDecPend a.pending q).allocated.getD k = _ ∧ (qDecPend a.pending q).pending.getD k = _
    rw [qDecPend_pending _ _ (hw.queue hq) hwa.appRes.1 hge k]
    show q.allocated.getD k = _ ∧ _
    rw [f3, f4, f5, f6, hreq]
    simp only [hl, if_true, getD_nil]
    constructor <;> omega

theorem _root_.Yk.phTimeout_props (s : Core) (app : String) (ev : Option String) (hw : CoreWF s) (hb : Books s) :
    Books (s.phTimeout app ev) ∧ CoreWF (s.phTimeout app ev) := by
  cases hfind : s.findApp app with
  | none => unfold phTimeout; simp only [hfind]; exact ⟨hb, hw⟩
  | some a =>
    cases hc : ((a.state == "Running" || a.state == "Completing") && !(isZero (some a.allocatedPh))) with
    | true =>
      have e : s.phTimeout app ev = updApp s app (fun a => { a with items := a.items.map (fun x =>
          if (x.bound && x.ph && !x.released && !x.preempted) = true then { x with released := true } else x) }) := by
        unfold phTimeout; simp only [hfind, hc, if_true]
      rw [e]
      exact flag_props s app _ (fun a => ⟨rfl, rfl, rfl, rfl, rfl, rfl, _, itemIrrel_ite _ _ itemIrrel_released, rfl⟩) hw hb
    | false =>
      obtain ⟨hb2, hw2⟩ := phCore2_props s app ev a hw hb hfind
      have e : s.phTimeout app ev =
          if a.items.any (·.inReq) = true then unreserveApp (phCore2 s app ev a) a false else phCore2 s app ev a := by
        unfold phTimeout; simp only [hfind, hc, Bool.false_eq_true, if_false]; rfl
      rw [e]
      split
      · exact unreserveApp_props _ a false hw2 hb2
      · exact ⟨hb2, hw2⟩

/-! ### an application leaves the partition: `Queue.RemoveApplication` along its chain -/

/-- the live application `a` is replaced by the dead record `a'` with the same totals, `qLeave a'` along the chain -/
theorem leave_props (s : Core) (app : String) (a a' : CApp) (hw : CoreWF s) (hb : Books s)
    (ham : a ∈ s.apps) (hl : a.live = true) (hid : a.id = app)
    (h1 : a'.live = false) (h2 : a'.id = a.id) (h3 : a'.queue = a.queue) (h4 : a'.allocated = a.allocated)
    (h5 : a'.allocatedPh = a.allocatedPh) (h6 : a'.pending = a.pending) :
    Books (updQueues (updApp s app (fun _ => a')) (pathChain s a.queue) (qLeave a')) ∧
    CoreWF (updQueues (updApp s app (fun _ => a')) (pathChain s a.queue) (qLeave a')) := by
  have hwa := hw.app ham hl
  obtain ⟨hwp, hwal, hwh⟩ := hwa.appRes
  have hdead : ¬ (a'.live = true) := by rw [h1]; exact Bool.false_ne_true
  refine upd_props s _ app a _ (pathChain s a.queue) (qLeave a') hw hb rfl rfl rfl ham hl hid
    h3 (const_id (by rw [h2, hid])) (fun h => absurd h hdead) (fun h => absurd h hdead) (chain_iff s a.queue) (fun _ => rfl)
    (fun q hq _ => qLeave_wf _ _ (hw.queue hq)) ?_
  intro q hq hun k
  have hge := fun k' => app_pending_ge s.apps (fun y hy hyl j hj => (hw.itemRes y hy hyl j hj).2) hb.apps a ham hl q
    (hb.queues q hq) hun k'
  rw [qLeave_allocated _ _ (hw.queue hq) (by rw [h4]; exact hwal) (by rw [h5]; exact hwh) k,
    qLeave_pending _ _ (hw.queue hq) (by rw [h6]; exact hwp) (by rw [h6]; exact hge) k, h4, h5, h6]
  show _ = _ + (if a'.live = true then _ else 0) ∧ _ = _ + (if a'.live = true then _ else 0)
  rw [h1]
  simp only [Bool.false_eq_true, if_false]
  constructor <;> omega

/-! ### `stateTimeout` (timeoutStateTimer) -/

theorem fire_completing : fireState "Completing" .complete = "Completed" := by decide

theorem _root_.Yk.stateTimeout_props (s : Core) (app : String) (hw : CoreWF s) (hb : Books s) :
    Books (s.stateTimeout app) ∧ CoreWF (s.stateTimeout app) := by
  cases hfind : s.findApp app with
  | none => unfold stateTimeout; simp only [hfind]; exact ⟨hb, hw⟩
  | some a =>
    obtain ⟨ham, hl, hid⟩ := findApp_some hfind
    cases hst : (a.state != "Completing") with
    | true => unfold stateTimeout; simp only [hfind, hst, if_true]; exact ⟨hb, hw⟩
    | false =>
      have hstate : a.state = "Completing" := by simpa using hst
      cases hph : (!(isZero (some a.allocatedPh))) with
      | true =>
        have e : s.stateTimeout app = updApp s app (fun a => { a with stateTimer := false, items := a.items.map (fun x =>
            if (x.bound && x.ph && !x.released && !x.preempted) = true then { x with released := true } else x) }) := by
          unfold stateTimeout; simp only [hfind, hst, hph, Bool.false_eq_true, if_false, if_true]
        rw [e]
        exact flag_props s app _ (fun a => ⟨rfl, rfl, rfl, rfl, rfl, rfl, _, itemIrrel_ite _ _ itemIrrel_released, rfl⟩) hw hb
      | false =>
        have e : s.stateTimeout app =
            updQueues (updApp s app (fun _ => { setState a "Completed" with live := false, items := boundOnly a.items }))
              (pathChain s a.queue) (qLeave { setState a "Completed" with live := false, items := boundOnly a.items }) := by
          unfold stateTimeout
          simp only [hfind, hph, Bool.false_eq_true, if_false, hstate, fire_completing]
          rfl
        rw [e]
        exact leave_props s app a _ hw hb ham hl hid rfl (setState_id a _) (setState_queue a _) (setState_allocated a _)
          (setState_allocatedPh a _) (setState_pending a _)

/-! ### `leaveApp`, `sweepTerminated` (moveTerminatedApp) -/

theorem _root_.Yk.leaveApp_props (c : Core) (app : String) (hw : CoreWF c) (hb : Books c) :
    Books (c.leaveApp app) ∧ CoreWF (c.leaveApp app) := by
  cases hfind : c.findApp app with
  | none => unfold leaveApp; simp only [hfind]; exact ⟨hb, hw⟩
  | some a =>
    obtain ⟨ham, hl, hid⟩ := findApp_some hfind
    have e : c.leaveApp app =
        updQueues (updApp c app (fun _ => { a with live := false, items := boundOnly a.items }))
          (pathChain c a.queue) (qLeave { a with live := false, items := boundOnly a.items }) := by
      unfold leaveApp; simp only [hfind]; rfl
    rw [e]
    exact leave_props c app a _ hw hb ham hl hid rfl rfl rfl rfl rfl rfl

/-- the loop of `sweepTerminated` over any list of applications -/
theorem sweep_fold_props (l : List CApp) (c : Core) (hw : CoreWF c) (hb : Books c) :
    Books (l.foldl (fun c a => if a.live && terminated a.state then leaveApp c a.id else c) c) ∧
    CoreWF (l.foldl (fun c a => if a.live && terminated a.state then leaveApp c a.id else c) c) := by
  induction l generalizing c with
  | nil => exact ⟨hb, hw⟩
  | cons a t ih =>
    rw [List.foldl_cons]
    split
    · obtain ⟨hb1, hw1⟩ := leaveApp_props c a.id hw hb
      exact ih _ hw1 hb1
    · exact ih c hw hb

theorem _root_.Yk.sweepTerminated_props (c : Core) (hw : CoreWF c) (hb : Books c) :
    Books c.sweepTerminated ∧ CoreWF c.sweepTerminated := sweep_fold_props c.apps c hw hb

/-! ### `markReleased`: flags on the allocation, `preempting` along the chain -/

/-- a queue update that keeps what the books and `CoreWF` read -/
def QIrrel (g : CQueue → CQueue) : Prop := ∀ q, (g q).path = q.path ∧ (g q).allocated = q.allocated ∧ (g q).pending = q.pending

theorem qIrrel_upd (chain : List String) (f : CQueue → CQueue) (hf : QIrrel f) :
    QIrrel (fun q => if chain.contains q.path = true then f q else q) := by
  intro q
  by_cases hc : chain.contains q.path = true
  · dsimp only; rw [if_pos hc]; exact hf q
  · dsimp only; rw [if_neg hc]; exact ⟨rfl, rfl, rfl⟩

/-- flags of one application and fields of its queue chain the books do not read -/
theorem flag_queue_props (s : Core) (id : String) (f : CApp → CApp) (chain : List String) (fq : CQueue → CQueue)
    (hf : AppIrrel f) (hfq : QIrrel fq) (hw : CoreWF s) (hb : Books s) :
    Books (updQueues (updApp s id f) chain fq) ∧ CoreWF (updQueues (updApp s id f) chain fq) := by
  have hga := appIrrel_upd id f hf
  have hgq := qIrrel_upd chain fq hfq
  have hgn : NodeIrrel (fun n : CNode => n) := fun _ => ⟨rfl, rfl, rfl, rfl, rfl, rfl⟩
  exact ⟨books_irrel _ _ _ hga hgq hgn rfl rfl (by simp) hb, wf_irrel _ _ _ hga hgq hgn rfl rfl (by simp) hw⟩

theorem _root_.Yk.markReleased_props (c : Core) (app key : String) (preempted : Bool) (hw : CoreWF c) (hb : Books c) :
    Books (c.markReleased app key preempted) ∧ CoreWF (c.markReleased app key preempted) := by
  have hgi : ItemIrrel (fun x : CItem => if (x.key == key) = true then
      (if preempted = true then { x with preempted := true } else { x with released := true }) else x) := by
    apply itemIrrel_ite (fun x => x.key == key)
    cases preempted
    · exact itemIrrel_released
    · exact itemIrrel_preempted
  have hf : AppIrrel (fun a : CApp => { a with items := a.items.map (fun x => if (x.key == key) = true then
      (if preempted = true then { x with preempted := true } else { x with released := true }) else x) }) :=
    fun a => ⟨rfl, rfl, rfl, rfl, rfl, rfl, _, hgi, rfl⟩
  cases hfind : c.findApp app with
  | none => unfold markReleased; simp only [hfind]; exact ⟨hb, hw⟩
  | some a =>
    cases hitem : a.items.find? (·.key == key) with
    | none => unfold markReleased; simp only [hfind, hitem]; exact ⟨hb, hw⟩
    | some i =>
      cases hp : (preempted && !i.preempted) with
      | true =>
        have e : c.markReleased app key preempted = updQueues (updApp c app (fun a : CApp => { a with items := a.items.map (fun x =>
            if (x.key == key) = true then (if preempted = true then { x with preempted := true } else { x with released := true }) else x) }))
            (pathChain c a.queue) (fun q => { q with preempting := addX q.preempting i.res }) := by
          unfold markReleased; simp only [hfind, hitem, hp, if_true]
        rw [e]
        exact flag_queue_props c app _ (pathChain c a.queue) _ hf (fun _ => ⟨rfl, rfl, rfl⟩) hw hb
      | false =>
        have e : c.markReleased app key preempted = updApp c app (fun a : CApp => { a with items := a.items.map (fun x =>
            if (x.key == key) = true then (if preempted = true then { x with preempted := true } else { x with released := true }) else x) }) := by
          unfold markReleased; simp only [hfind, hitem, hp, Bool.false_eq_true, if_false]
        rw [e]
        exact flag_props c app _ hf hw hb

/-! ### `cleanup` (cleanupExpiredApps): dead applications are dropped -/

/-- `qsum` does not see applications that are not live -/
theorem qsum_filter_dead (apps : List CApp) (d : CApp → Bool) (hd : ∀ x ∈ apps, d x = false → x.live = false)
    (p : String) (g : CApp → Int) : qsum (apps.filter d) p g = qsum apps p g := by
  unfold qsum
  apply sumIf_filter_irrel
  intro x hx hdx
  rw [hd x hx hdx]; rfl

/-- dropping applications that are not live -/
theorem filter_dead_props (s t : Core) (d : CApp → Bool) (hd : ∀ x ∈ s.apps, d x = false → x.live = false)
    (hta : t.apps = s.apps.filter d) (htq : t.queues = s.queues) (htn : t.nodes = s.nodes)
    (hw : CoreWF s) (hb : Books s) : Books t ∧ CoreWF t := by
  have hsub : ∀ x ∈ t.apps, x ∈ s.apps := by rw [hta]; exact fun x hx => (List.mem_filter.mp hx).1
  constructor
  · refine ⟨fun a ha hl => hb.apps a (hsub a ha) hl, ?_, by rw [htn]; exact hb.nodes⟩
    rw [htq, hta]
    intro q hq
    have := hb.queues q hq
    exact ⟨fun k => by rw [qsum_filter_dead _ _ hd]; exact this.allocated k,
      fun k => by rw [qsum_filter_dead _ _ hd]; exact this.pending k⟩
  · exact CoreWF.of_parts (by rw [hta]; exact hw.appIds.filter _) (by rw [htn]; exact hw.nodeIds)
      (fun a ha hl => hw.app (hsub a ha) hl) (by rw [htq]; exact fun q hq => hw.queue hq)
      (by rw [htn]; exact fun n hn => hw.node hn)

theorem _root_.Yk.cleanup_props (s : Core) (hw : CoreWF s) (hb : Books s) : Books s.cleanup ∧ CoreWF s.cleanup := by
  refine filter_dead_props s s.cleanup (fun a => a.live || a.state != "Expired") ?_ rfl rfl rfl hw hb
  intro x _ hx
  simp only [Bool.or_eq_false_iff] at hx
  exact hx.1

/-! ### `queuesAdd`, `appAdd`: new queues and a new application, all with empty ledgers -/

/-- The side condition of `queuesAdd` / `appAdd`: a queue that is created now starts with empty ledgers, so no live
    application may already sit at or below its path (in the implementation a dynamic queue is created before the first
    application is placed in it, and a queue that still holds applications is never removed and created again). -/
structure _root_.Yk.FreshQueuesOK (s : Core) (newQueues : List CQueue) : Prop where
  noApps : ∀ q ∈ newQueues, (s.findQueue q.path).isNone = true →
    ∀ x ∈ s.apps, x.live = true → under x.queue q.path = false

theorem queuesAdd_apps (s : Core) (nq : List CQueue) : (s.queuesAdd nq).apps = s.apps := rfl
theorem queuesAdd_nodes (s : Core) (nq : List CQueue) : (s.queuesAdd nq).nodes = s.nodes := rfl

theorem mem_queuesAdd {s : Core} {nq : List CQueue} {q : CQueue} (hq : q ∈ (s.queuesAdd nq).queues) :
    q ∈ s.queues ∨ ∃ q0 ∈ nq, (s.findQueue q0.path).isNone = true ∧ q.path = q0.path ∧ q.allocated = [] ∧ q.pending = [] := by
  unfold queuesAdd at hq
  rcases List.mem_append.mp hq with h | h
  · exact Or.inl h
  · right
    obtain ⟨q0, hq0, rfl⟩ := List.mem_map.mp h
    obtain ⟨hm, hf⟩ := List.mem_filter.mp hq0
    exact ⟨q0, hm, hf, rfl, rfl, rfl⟩

theorem _root_.Yk.queuesAdd_props (s : Core) (nq : List CQueue) (hw : CoreWF s) (hb : Books s) (hok : FreshQueuesOK s nq) :
    Books (s.queuesAdd nq) ∧ CoreWF (s.queuesAdd nq) := by
  constructor
  · refine ⟨hb.apps, ?_, hb.nodes⟩
    intro q hq
    rw [queuesAdd_apps]
    rcases mem_queuesAdd hq with h | ⟨q0, hm, hf, hp, ha, hpd⟩
    · exact hb.queues q h
    · have hz : ∀ g, qsum s.apps q.path g = 0 := by
        intro g
        apply sumIf_none
        intro x hx
        cases hl : x.live with
        | false => rfl
        | true => rw [hp, hok.noApps q0 hm hf x hx hl]; rfl
      exact ⟨fun k => by rw [ha, hz]; rfl, fun k => by rw [hpd, hz]; rfl⟩
  · refine CoreWF.of_parts hw.appIds hw.nodeIds (fun a ha hl => hw.app ha hl) ?_ (fun n hn => hw.node hn)
    intro q hq
    rcases mem_queuesAdd hq with h | ⟨q0, _, _, _, ha, hpd⟩
    · exact hw.queue h
    · exact ⟨by rw [ha]; rfl, by rw [hpd]; rfl, by rw [hpd]; exact qwf_nil_irrel.2⟩

/-- a live application with no items and empty totals is appended; its id is not the id of a live application -/
theorem app_append_props (s t : Core) (n : CApp) (hw : CoreWF s) (hb : Books s)
    (hta : t.apps = s.apps ++ [n]) (htq : t.queues = s.queues) (htn : t.nodes = s.nodes)
    (hi : n.items = []) (hp : n.pending = []) (hal : n.allocated = []) (hph : n.allocatedPh = [])
    (hid : ∀ x ∈ s.apps, x.live = true → x.id ≠ n.id) : Books t ∧ CoreWF t := by
  have hmem : ∀ x ∈ t.apps, x ∈ s.apps ∨ x = n := by
    rw [hta]; intro x hx
    rcases List.mem_append.mp hx with h | h
    · exact Or.inl h
    · exact Or.inr (List.mem_singleton.mp h)
  have hnb : AppBooks n := by
    refine ⟨?_, ?_, ?_⟩ <;> intro k
    · rw [hi, hal]; rfl
    · rw [hi, hph]; rfl
    · rw [hi, hp]; rfl
  have hnw : AppWF n := by
    refine ⟨by rw [hi]; exact List.Pairwise.nil, by rw [hp, hal, hph]; exact ⟨rfl, rfl, rfl⟩, ?_, ?_⟩
    · rw [hi]; intro i h; cases h
    · rw [hi]; intro i h; cases h
  have hqs : ∀ (p : String) (g : CApp → Int), g n = 0 → qsum (s.apps ++ [n]) p g = qsum s.apps p g := by
    intro p g hg
    unfold qsum
    rw [sumIf_append, sumIf_single, hg]; simp
  constructor
  · refine ⟨?_, ?_, by rw [htn]; exact hb.nodes⟩
    · intro x hx hl
      rcases hmem x hx with h | rfl
      · exact hb.apps x h hl
      · exact hnb
    · rw [htq, hta]
      intro q hq
      have := hb.queues q hq
      exact ⟨fun k => by rw [hqs _ _ (by rw [hal, hph]; rfl)]; exact this.allocated k,
        fun k => by rw [hqs _ _ (by rw [hp]; rfl)]; exact this.pending k⟩
  · refine CoreWF.of_parts ?_ (by rw [htn]; exact hw.nodeIds) ?_ (by rw [htq]; exact fun q hq => hw.queue hq)
      (by rw [htn]; exact fun n hn => hw.node hn)
    · rw [hta, List.pairwise_append]
      refine ⟨hw.appIds, List.pairwise_singleton _ _, ?_⟩
      intro x hx y hy hxl _
      rw [List.mem_singleton.mp hy]
      exact hid x hx hxl
    · intro x hx hl
      rcases hmem x hx with h | rfl
      · exact hw.app h hl
      · exact hnw

theorem _root_.Yk.appAdd_props (s : Core) (a : Option CApp) (nq : List CQueue) (hw : CoreWF s) (hb : Books s)
    (hok : FreshQueuesOK s nq) : Books (s.appAdd a nq) ∧ CoreWF (s.appAdd a nq) := by
  obtain ⟨hb1, hw1⟩ := queuesAdd_props s nq hw hb hok
  cases a with
  | none => exact ⟨hb1, hw1⟩
  | some a =>
    cases hc : ((s.findApp a.id).isSome || !((s.queuesAdd nq).queues.any (·.path == a.queue))) with
    | true =>
      have e : s.appAdd (some a) nq = s.queuesAdd nq := by unfold appAdd; simp only [hc, if_true]
      rw [e]; exact ⟨hb1, hw1⟩
    | false =>
      have e : s.appAdd (some a) nq = { s.queuesAdd nq with apps := (s.queuesAdd nq).apps ++
          [{ a with live := true, items := [], pending := [], allocated := [], allocatedPh := [] }] } := by
        unfold appAdd; simp only [hc, Bool.false_eq_true, if_false]
      rw [e]
      simp only [Bool.or_eq_false_iff] at hc
      have hnone : s.findApp a.id = none := by
        cases h : s.findApp a.id with
        | none => rfl
        | some _ => rw [h] at hc; simp at hc
      exact app_append_props (s.queuesAdd nq) _ _ hw1 hb1 rfl rfl rfl rfl rfl rfl rfl
        (fun x hx hl => findApp_none hnone x hx hl)

end Timer
end Yk
