/- Reload, continued: clearEarlierSetUserWildCardLimits and applyWildCardUserLimits on the user trackers. -/
import YkProofs.UgmReload3
namespace Yk.Ugm
open Yk Yk.Res Yk.QTree

theorem aget_setLimit_check_keep {t : Tree} {q : Path} {n : Node} (w : List (Path × Limit)) (b : Bool) (mr : ORes) (ma : Nat) (uw : Bool)
    (h : aget t q = some n) (hw : n.wild = false) : aget (setLimit w b t q mr ma uw true) q = some n := by
  unfold setLimit
  rw [aget_amod, aget_ensurePath, h]
  simp [hw]

/-- what clearEarlierSetUserWildCardLimits does to the tree of user `u` for one queue of the old wildcard configuration -/
def wildTree (w : List (Path × Limit)) (L1 : List (Path × List (String × Limit))) (n : NewCfg) (e : Path × Limit) (u : String) (t : Tree) : Tree :=
  match aget n.userWild e.1 with
  | none =>
    if (!ahas L1 e.1 || !ahas n.userLimits e.1) = true then
      (if (!(aget2 n.userLimits e.1 u).isSome || !(aget2 L1 e.1 u).isSome) = true then setLimit w true t e.1 none 0 false true else t)
    else t
  | some nl =>
    if ((!ahas L1 e.1 || !ahas n.userLimits e.1) && (e.2.maxApps != nl.maxApps || !equals e.2.maxRes nl.maxRes false)) = true then
      (if (!(aget2 n.userLimits e.1 u).isSome || !(aget2 L1 e.1 u).isSome) = true then setLimit w true t e.1 nl.maxRes nl.maxApps true true else t)
    else t

theorem utree_mapUsers (m : Mgr) (f : String → UT → UT) (u : String) :
    utree (mapUsers m f) u = (aget m.users u).map (fun ut => (f u ut).qt) := by
  unfold utree; rw [aget_mapUsers]; cases aget m.users u <;> rfl

theorem utree_wildStep (n : NewCfg) (m : Mgr) (e : Path × Limit) (u : String) :
    utree (wildStep n m e) u = (utree m u).map (wildTree m.userWild m.userLimits n e u) := by
  unfold wildStep wildTree notNamedInBoth
  simp only
  cases aget n.userWild e.1 with
  | none =>
    simp only
    split
    · rw [utree_mapUsers]; unfold utree
      cases aget m.users u with
      | none => rfl
      | some ut => simp only [Option.map_some]; split <;> rfl
    · unfold utree; cases aget m.users u <;> rfl
  | some nl =>
    simp only
    split
    · rw [utree_mapUsers]; unfold utree
      cases aget m.users u with
      | none => rfl
      | some ut => simp only [Option.map_some]; split <;> rfl
    · unfold utree; cases aget m.users u <;> rfl

theorem cfg_wildStep (n : NewCfg) (m : Mgr) (e : Path × Limit) :
    (wildStep n m e).userWild = m.userWild ∧ (wildStep n m e).userLimits = m.userLimits ∧ (wildStep n m e).groups = m.groups := by
  unfold wildStep
  simp only
  cases aget n.userWild e.1 with
  | none => simp only; split <;> exact ⟨rfl, rfl, rfl⟩
  | some nl => simp only; split <;> exact ⟨rfl, rfl, rfl⟩

/-- the user trackers while the old wildcard configuration is walked: `done` = the queues handled so far -/
structure Side3 (w : List (Path × Limit)) (n : NewCfg) (T : String → Option Tree) (done : List Path) : Prop where
  nd : ∀ x t, T x = some t → KeysNodup t
  allow : ∀ x t, T x = some t →
    QA t (fun p τ => (aget2 n.userLimits p x).isSome = true ∨ τ = dflt ∨ WildT w p τ ∨ WildT n.userWild p τ)
  exact : ∀ x p lc, aget2 n.userLimits p x = some lc → ∃ t nd, T x = some t ∧ aget t p = some nd ∧ triple nd = t3 lc ∧ ∀ p' ∈ prefixes p, ahas t p' = true
  cleared : ∀ x t, T x = some t → ∀ p ∈ done, aget n.userWild p = none → aget2 n.userLimits p x = none → ∃ nd, aget t p = some nd ∧ nd.wild = false
  ne : ∀ x t, T x = some t → ahas t [] = false

theorem Side3_init {w : List (Path × Limit)} {L1 : List (Path × List (String × Limit))} {n : NewCfg} {T : String → Option Tree}
    (h : Side2 w true L1 n.userLimits T []) : Side3 w n T [] := by
  refine ⟨h.nd, ?_, h.exact, fun x t _ p hp => (by cases hp), h.ne⟩
  intro x t ht p nd hn
  rcases h.allow x t ht p nd hn with h1 | h1 | h1 | ⟨_, h2⟩
  · exact Or.inl h1
  · exact Or.inr (Or.inl h1)
  · exact Or.inr (Or.inr (Or.inl h1))
  · cases h2

theorem wild_false_of_t3 {nd : Node} {lc : Limit} (h : triple nd = t3 lc) : nd.wild = false := by
  simp only [triple, t3, Prod.mk.injEq] at h; exact h.2.2

/-- one queue of the old wildcard configuration -/
theorem Side3_step {w : List (Path × Limit)} {L1 : List (Path × List (String × Limit))} {n : NewCfg} {T : String → Option Tree}
    {done : List Path} (h : Side3 w n T done) (e : Path × Limit) (he : e.1 ≠ [])
    (h17 : (ahas n.userWild e.1 || !(ahas L1 e.1 && ahas n.userLimits e.1)) = true) :
    Side3 w n (fun x => (T x).map (wildTree w L1 n e x)) (e.1 :: done) := by
  -- the tree of a user after the step: unchanged, or a wildcard-only limit change on e.1
  have hform : ∀ x t, wildTree w L1 n e x t = t ∨ ∃ mr ma uw, wildTree w L1 n e x t = setLimit w true t e.1 mr ma uw true ∧
      (((mr, ma, uw) : Triple) = dflt ∨ WildT n.userWild e.1 (mr, ma, uw)) := by
    intro x t
    unfold wildTree
    cases hnw : aget n.userWild e.1 with
    | none =>
      simp only
      split
      · split
        · right; exact ⟨none, 0, false, rfl, Or.inl rfl⟩
        · left; rfl
      · left; rfl
    | some nl =>
      simp only
      split
      · split
        · right; exact ⟨nl.maxRes, nl.maxApps, true, rfl, Or.inr ⟨nl, hnw, rfl⟩⟩
        · left; rfl
      · left; rfl
  refine ⟨?_, ?_, ?_, ?_, ?_⟩
  rotate_left 4
  · intro x t' ht'
    cases hT : T x with
    | none => rw [hT] at ht'; cases ht'
    | some t =>
      rw [hT] at ht'; simp only [Option.map_some, Option.some.injEq] at ht'; subst ht'
      rcases hform x t with e1 | ⟨mr, ma, uw, e1, _⟩
      · rw [e1]; exact h.ne x t hT
      · rw [e1]; exact ahas_ne_setLimit w true e.1 mr ma uw true (h.ne x t hT)
  · intro x t' ht'
    cases hT : T x with
    | none => rw [hT] at ht'; cases ht'
    | some t =>
      rw [hT] at ht'; simp only [Option.map_some, Option.some.injEq] at ht'; subst ht'
      rcases hform x t with e1 | ⟨mr, ma, uw, e1, _⟩
      · rw [e1]; exact h.nd x t hT
      · rw [e1]; exact keysNodup_setLimit (h.nd x t hT) _ _ _ _ _ _ _
  · intro x t' ht'
    cases hT : T x with
    | none => rw [hT] at ht'; cases ht'
    | some t =>
      rw [hT] at ht'; simp only [Option.map_some, Option.some.injEq] at ht'; subst ht'
      rcases hform x t with e1 | ⟨mr, ma, uw, e1, hval⟩
      · rw [e1]; exact h.allow x t hT
      · rw [e1]
        apply QA_setLimit (h.allow x t hT)
        · intro p _
          rcases newNode_triple w true p with h1 | h1
          · exact Or.inr (Or.inl h1)
          · exact Or.inr (Or.inr (Or.inl h1))
        · rcases hval with hv | hv
          · exact Or.inr (Or.inl hv)
          · exact Or.inr (Or.inr (Or.inr hv))
  · intro x p lc hl
    obtain ⟨t, nd, hT, hn, htn, hpp⟩ := h.exact x p lc hl
    refine ⟨wildTree w L1 n e x t, nd, by simp [hT], ?_, htn, ?_⟩
    · rcases hform x t with e1 | ⟨mr, ma, uw, e1, _⟩
      · rw [e1]; exact hn
      · rw [e1]
        by_cases ep : e.1 = p
        · rw [← ep] at hn ⊢; exact aget_setLimit_check_keep w true mr ma uw hn (wild_false_of_t3 htn)
        · exact aget_setLimit_other w true mr ma uw true ep hn
    · intro p' hp'
      rcases hform x t with e1 | ⟨mr, ma, uw, e1, _⟩
      · rw [e1]; exact hpp p' hp'
      · rw [e1]; exact ahas_setLimit_mono w true e.1 mr ma uw true (hpp p' hp')
  · intro x t' ht' p hp hw2 hn2
    cases hT : T x with
    | none => rw [hT] at ht'; cases ht'
    | some t =>
      rw [hT] at ht'; simp only [Option.map_some, Option.some.injEq] at ht'; subst ht'
      by_cases ep : e.1 = p
      · -- the queue of this step: no new wildcard, the user is not named in the new configuration: the clear branch runs
        subst ep
        have hqm : (!ahas L1 e.1 || !ahas n.userLimits e.1) = true := by
          have hw2' : ahas n.userWild e.1 = false := by rw [ahas_eq, hw2]; rfl
          rw [hw2'] at h17
          cases h1 : ahas L1 e.1 <;> cases h2 : ahas n.userLimits e.1 <;> simp_all
        have hform2 : wildTree w L1 n e x t = setLimit w true t e.1 none 0 false true := by
          unfold wildTree
          rw [hw2]
          simp only [hqm, if_true, hn2, Option.isSome_none, Bool.not_false, Bool.true_or]
        rw [hform2]
        obtain ⟨nd, hnd, hcase⟩ := aget_setLimit_check t w true he none 0 false
        refine ⟨nd, hnd, ?_⟩
        rcases hcase with hc | ⟨hc, _⟩
        · simp only [triple, Prod.mk.injEq] at hc; exact hc.2.2
        · exact hc
      · have hp' : p ∈ done := by
          rcases List.mem_cons.mp hp with hp | hp
          · exact absurd hp.symm ep
          · exact hp
        obtain ⟨nd, hnd, hwf⟩ := h.cleared x t hT p hp' hw2 hn2
        refine ⟨nd, ?_, hwf⟩
        rcases hform x t with e1 | ⟨mr, ma, uw, e1, _⟩
        · rw [e1]; exact hnd
        · rw [e1]; exact aget_setLimit_other w true mr ma uw true ep hnd

theorem Side3_congr {w : List (Path × Limit)} {n : NewCfg} {T T' : String → Option Tree} {done : List Path}
    (h : Side3 w n T done) (e : ∀ x, T' x = T x) : Side3 w n T' done :=
  ⟨fun x t ht => h.nd x t (by rw [← e]; exact ht), fun x t ht => h.allow x t (by rw [← e]; exact ht),
   fun x p lc hl => by obtain ⟨t, nd, h1, h2⟩ := h.exact x p lc hl; exact ⟨t, nd, by rw [e]; exact h1, h2⟩,
   fun x t ht => h.cleared x t (by rw [← e]; exact ht), fun x t ht => h.ne x t (by rw [← e]; exact ht)⟩

/-- clearEarlierSetUserWildCardLimits on the manager -/
theorem phase3 (n : NewCfg) : ∀ (l : List (Path × Limit)) (m : Mgr) (done : List Path),
    Side3 m.userWild n (utree m) done → (∀ e ∈ l, e.1 ≠ []) →
    (∀ e ∈ l, (ahas n.userWild e.1 || !(ahas m.userLimits e.1 && ahas n.userLimits e.1)) = true) →
    (l.foldl (wildStep n) m).userWild = m.userWild ∧ (l.foldl (wildStep n) m).userLimits = m.userLimits ∧
    (l.foldl (wildStep n) m).groups = m.groups ∧
    Side3 m.userWild n (utree (l.foldl (wildStep n) m)) ((l.map (·.1)).reverse ++ done) := by
  intro l
  induction l with
  | nil => intro m done h _ _; exact ⟨rfl, rfl, rfl, h⟩
  | cons e l ih =>
    intro m done h hne h17
    rw [List.foldl_cons]
    obtain ⟨c1, c2, c3⟩ := cfg_wildStep n m e
    have hs := Side3_congr (Side3_step (L1 := m.userLimits) h e (hne e List.mem_cons_self) (h17 e List.mem_cons_self))
      (fun x => utree_wildStep n m e x)
    rw [← c1] at hs
    obtain ⟨i1, i2, i3, i4⟩ := ih (wildStep n m e) (e.1 :: done) hs (fun e' he' => hne e' (List.mem_cons_of_mem _ he'))
      (fun e' he' => by rw [c2]; exact h17 e' (List.mem_cons_of_mem _ he'))
    refine ⟨i1.trans c1, i2.trans c2, i3.trans c3, ?_⟩
    rw [c1] at i4
    simpa [List.map_cons, List.reverse_cons, List.append_assoc] using i4

/-! ### applyWildCardUserLimits -/

theorem utree_wildStepFn (n : NewCfg) (m : Mgr) (e : Path × Limit) (u : String) :
    utree (wildStepFn n m e) u = (utree m u).map (fun t =>
      if (aget2 n.userLimits e.1 u).isSome then t else setLimit m.userWild true t e.1 e.2.maxRes e.2.maxApps true false) := by
  unfold wildStepFn
  rw [utree_mapUsers]; unfold utree
  cases aget m.users u with
  | none => rfl
  | some ut => simp only [Option.map_some]; split <;> rfl

theorem cfg_wildStepFn (n : NewCfg) (m : Mgr) (e : Path × Limit) :
    (wildStepFn n m e).userWild = m.userWild ∧ (wildStepFn n m e).groups = m.groups := ⟨rfl, rfl⟩

/-- the user trackers while the NEW wildcard limits are applied: `done` = the entries handled so far -/
structure Side4 (w : List (Path × Limit)) (n : NewCfg) (T : String → Option Tree) (cl : List Path) (done : List (Path × Limit)) : Prop where
  s3 : Side3 w n T cl
  applied : ∀ x t, T x = some t → ∀ e ∈ done, aget2 n.userLimits e.1 x = none → ∃ nd, aget t e.1 = some nd ∧ triple nd = t3w e.2

theorem aget_of_mem_akeys_nodup {β : Type} {l : List (Path × β)} (h : (akeys l).Nodup) {e : Path × β} (he : e ∈ l) : aget l e.1 = some e.2 := by
  induction l with
  | nil => cases he
  | cons a l ih =>
    obtain ⟨a1, a2⟩ := a
    unfold akeys at h ih
    rw [List.map_cons, List.nodup_cons] at h
    rcases List.mem_cons.mp he with he | he
    · rw [he]; simp [aget]
    · have : a1 ≠ e.1 := by intro x; apply h.1; rw [x]; exact List.mem_map.mpr ⟨e, he, rfl⟩
      simp only [aget, this, if_false]; exact ih h.2 he

theorem phase4 (n : NewCfg) (hk : (akeys n.userWild).Nodup) : ∀ (l done : List (Path × Limit)) (m : Mgr) (cl : List Path),
    done ++ l = n.userWild → Side4 m.userWild n (utree m) cl done → (∀ e ∈ l, e.1 ≠ []) →
    (l.foldl (wildStepFn n) m).userWild = m.userWild ∧ (l.foldl (wildStepFn n) m).groups = m.groups ∧
    Side4 m.userWild n (utree (l.foldl (wildStepFn n) m)) cl n.userWild := by
  intro l
  induction l with
  | nil => intro done m cl hd h _; rw [List.append_nil] at hd; rw [← hd]; exact ⟨rfl, rfl, h⟩
  | cons e l ih =>
    intro done m cl hd h hne
    rw [List.foldl_cons]
    have hemem : e ∈ n.userWild := by rw [← hd]; simp
    have hew : aget n.userWild e.1 = some e.2 := aget_of_mem_akeys_nodup hk hemem
    have he0 : e.1 ≠ [] := hne e List.mem_cons_self
    have hstep : Side4 m.userWild n (utree (wildStepFn n m e)) cl (done ++ [e]) := by
      constructor
      · refine ⟨?_, ?_, ?_, ?_, ?_⟩
        rotate_left 4
        · intro x t' ht'
          rw [utree_wildStepFn] at ht'
          cases hT : utree m x with
          | none => rw [hT] at ht'; cases ht'
          | some t =>
            rw [hT] at ht'; simp only [Option.map_some, Option.some.injEq] at ht'; subst ht'
            split
            · exact h.s3.ne x t hT
            · exact ahas_ne_setLimit _ true _ _ _ _ _ (h.s3.ne x t hT)
        · intro x t' ht'
          rw [utree_wildStepFn] at ht'
          cases hT : utree m x with
          | none => rw [hT] at ht'; cases ht'
          | some t =>
            rw [hT] at ht'; simp only [Option.map_some, Option.some.injEq] at ht'; subst ht'
            split
            · exact h.s3.nd x t hT
            · exact keysNodup_setLimit (h.s3.nd x t hT) _ _ _ _ _ _ _
        · intro x t' ht'
          rw [utree_wildStepFn] at ht'
          cases hT : utree m x with
          | none => rw [hT] at ht'; cases ht'
          | some t =>
            rw [hT] at ht'; simp only [Option.map_some, Option.some.injEq] at ht'; subst ht'
            split
            · exact h.s3.allow x t hT
            · apply QA_setLimit (h.s3.allow x t hT)
              · intro p _
                rcases newNode_triple m.userWild true p with h1 | h1
                · exact Or.inr (Or.inl h1)
                · exact Or.inr (Or.inr (Or.inl h1))
              · exact Or.inr (Or.inr (Or.inr ⟨e.2, hew, rfl⟩))
        · intro x p lc hl
          obtain ⟨t, nd, hT, hn, htn, hpp⟩ := h.s3.exact x p lc hl
          rw [utree_wildStepFn, hT]
          simp only [Option.map_some]
          by_cases hs : (aget2 n.userLimits e.1 x).isSome = true
          · rw [if_pos hs]; exact ⟨t, nd, rfl, hn, htn, hpp⟩
          · rw [if_neg hs]
            have ep : e.1 ≠ p := by intro x'; rw [x', hl] at hs; exact hs rfl
            exact ⟨_, nd, rfl, aget_setLimit_other _ true _ _ _ _ ep hn, htn, fun p' hp' => ahas_setLimit_mono _ true _ _ _ _ _ (hpp p' hp')⟩
        · intro x t' ht' p hp hw2 hn2
          rw [utree_wildStepFn] at ht'
          cases hT : utree m x with
          | none => rw [hT] at ht'; cases ht'
          | some t =>
            rw [hT] at ht'; simp only [Option.map_some, Option.some.injEq] at ht'; subst ht'
            obtain ⟨nd, hnd, hwf⟩ := h.s3.cleared x t hT p hp hw2 hn2
            have ep : e.1 ≠ p := by intro x'; rw [x', hw2] at hew; cases hew
            split
            · exact ⟨nd, hnd, hwf⟩
            · exact ⟨nd, aget_setLimit_other _ true _ _ _ _ ep hnd, hwf⟩
      · intro x t' ht' e' he' hn2
        rw [utree_wildStepFn] at ht'
        cases hT : utree m x with
        | none => rw [hT] at ht'; cases ht'
        | some t =>
          rw [hT] at ht'; simp only [Option.map_some, Option.some.injEq] at ht'; subst ht'
          rcases List.mem_append.mp he' with he' | he'
          · obtain ⟨nd, hnd, htn⟩ := h.applied x t hT e' he' hn2
            have ep : e.1 ≠ e'.1 := by
              intro x'
              have hm' : e' ∈ n.userWild := by rw [← hd]; exact List.mem_append_left _ he'
              have h1 := aget_of_mem_akeys_nodup hk hm'
              -- same key, entries at different positions of a duplicate-free list: the same entry
              unfold akeys at hk
              rw [← hd, List.map_append, List.map_cons] at hk
              have hdis := (List.nodup_append.mp hk).2.2 e'.1 (List.mem_map_of_mem (f := Prod.fst) he') e.1 (by simp)
              exact hdis x'.symm
            split
            · exact ⟨nd, hnd, htn⟩
            · exact ⟨nd, aget_setLimit_other _ true _ _ _ _ ep hnd, htn⟩
          · simp at he'; subst he'
            rw [hn2]
            simp only [Option.isSome_none, Bool.false_eq_true, if_false]
            exact aget_setLimit_self t m.userWild true he0 e'.2.maxRes e'.2.maxApps true
    obtain ⟨c1, c2⟩ := cfg_wildStepFn n m e
    rw [← c1] at hstep
    obtain ⟨i1, i2, i3⟩ := ih (done ++ [e]) (wildStepFn n m e) cl (by rw [List.append_assoc]; exact hd) hstep
      (fun e' he' => hne e' (List.mem_cons_of_mem _ he'))
    rw [c1] at i3
    exact ⟨i1.trans c1, i2.trans c2, i3⟩

end Yk.Ugm
