/-
  `Linked` (I8 of C03: every bound allocation of a live application is listed by its node) is preserved by the operations
  of the first part of the stepped model (`nodeCreate`, `nodeUpdate`, `nodeSchedulable`, `foreignAdd`, `foreignRemove`,
  `ask`, `schedAlloc`, the old `releaseKey`) and by the bookkeeping / timer operations that leave the allocation lists of
  the nodes alone (`appAdd`, `cleanup`, `markReleased`, `phTimeout`, `stateTimeout`).
  The per-operation theorems `Yk.linked_<op>` need no side condition beyond `CoreWF s` and `Linked s`; the generic helpers
  (`NodesKeep`, `linked_of_sub`, `linked_of_sub'`, `linked_upd`, `linked_flag`, `linked_rel1`, `linked_rel2`, …) live in namespace
  `Yk.LinkA`.
-/
import YkProofs.Core2Link
namespace Yk
open Res Core

namespace LinkA

/-! ### generic transport lemmas -/

/-- `OnNode` only looks at the key, the node and the size of the item -/
theorem onNode_congr {s : Core} {app : String} {i j : CItem} (h : OnNode s app i)
    (hk : i.key = j.key) (hn : i.node = j.node) (hr : i.res = j.res) : OnNode s app j := by
  obtain ⟨n, hfn, x, hx, hxk, hxa, hxf, hxr⟩ := h
  exact ⟨n, by rw [← hn]; exact hfn, x, hx, by rw [← hk]; exact hxk, hxa, hxf, by rw [← hr]; exact hxr⟩

/-- every registered node of `s` is a registered node of `t` (same id) that lists at least the same entries -/
def NodesKeep (s t : Core) : Prop :=
  ∀ id n, s.findNode id = some n → ∃ m, t.findNode id = some m ∧ ∀ x ∈ n.allocs, x ∈ m.allocs

theorem NodesKeep.of_eq {s t : Core} (h : t.nodes = s.nodes) : NodesKeep s t := by
  intro id n hn
  exact ⟨n, by unfold findNode at hn ⊢; rw [h]; exact hn, fun _ hx => hx⟩

theorem NodesKeep.refl (s : Core) : NodesKeep s s := NodesKeep.of_eq rfl

theorem NodesKeep.trans {s t u : Core} (h1 : NodesKeep s t) (h2 : NodesKeep t u) : NodesKeep s u := by
  intro id n hn
  obtain ⟨m, hm, hsub⟩ := h1 id n hn
  obtain ⟨m', hm', hsub'⟩ := h2 id m hm
  exact ⟨m', hm', fun x hx => hsub' x (hsub x hx)⟩

theorem onNode_keep {s t : Core} {app : String} {i : CItem} (hk : NodesKeep s t) (h : OnNode s app i) : OnNode t app i := by
  obtain ⟨n, hn, x, hx, rest⟩ := h
  obtain ⟨m, hm, hsub⟩ := hk i.node n hn
  exact ⟨m, hm, x, hsub x hx, rest⟩

/-- `find?` by id after a map that keeps the ids -/
theorem find_map_id (l : List CNode) (g : CNode → CNode) (hg : ∀ n, (g n).id = n.id) (id : String) :
    (l.map g).find? (·.id == id) = (l.find? (·.id == id)).map g := by
  induction l with
  | nil => rfl
  | cons n t ih =>
    simp only [List.map_cons, List.find?_cons, hg n]
    cases hd : (n.id == id) with
    | true => rfl
    | false => exact ih

/-- every node is rewritten by a function that keeps its id and its entries -/
theorem NodesKeep.of_map {s t : Core} (g : CNode → CNode) (hg : ∀ n, (g n).id = n.id) (hga : ∀ n, ∀ x ∈ n.allocs, x ∈ (g n).allocs)
    (h : t.nodes = s.nodes.map g) : NodesKeep s t := by
  intro id n hn
  refine ⟨g n, ?_, hga n⟩
  unfold findNode at hn ⊢
  rw [h, find_map_id _ g hg, hn]; rfl

/-- one node is rewritten by a function that keeps its id and its entries -/
theorem NodesKeep.of_updNs {s t : Core} (id : String) (f : CNode → CNode) (h : t.nodes = updNs s.nodes id f)
    (hf : ∀ n, (f n).id = n.id) (hfa : ∀ n, ∀ x ∈ n.allocs, x ∈ (f n).allocs) : NodesKeep s t := by
  refine NodesKeep.of_map (fun n => if (n.id == id) = true then f n else n) ?_ ?_ h
  · intro n; split
    · exact hf n
    · rfl
  · intro n x hx; split
    · exact hfa n x hx
    · exact hx

/-- The generic lemma: the nodes keep their entries, and every bound item of a live application of the new state is a
    bound item (same key, node, size) of the live application with the same id of the old state. -/
theorem linked_of_sub' {s t : Core} (hk : NodesKeep s t)
    (hsub : ∀ b ∈ t.apps, b.live = true → ∃ a ∈ s.apps, a.live = true ∧ a.id = b.id ∧
      ∀ j ∈ b.items, j.bound = true → ∃ i ∈ a.items, i.bound = true ∧ i.key = j.key ∧ i.node = j.node ∧ i.res = j.res)
    (h : Linked s) : Linked t := by
  intro b hb hbl j hj hjb
  obtain ⟨a, ha, hal, haid, hitems⟩ := hsub b hb hbl
  obtain ⟨i, hi, hib, hkey, hnode, hres⟩ := hitems j hj hjb
  rw [← haid]
  exact onNode_congr (onNode_keep hk (h a ha hal i hi hib)) hkey hnode hres

theorem linked_of_sub {s t : Core} (hn : t.nodes = s.nodes)
    (hsub : ∀ b ∈ t.apps, b.live = true → ∃ a ∈ s.apps, a.live = true ∧ a.id = b.id ∧
      ∀ j ∈ b.items, j.bound = true → ∃ i ∈ a.items, i.bound = true ∧ i.key = j.key ∧ i.node = j.node ∧ i.res = j.res)
    (h : Linked s) : Linked t :=
  linked_of_sub' (NodesKeep.of_eq hn) hsub h

/-- only the nodes change, and they keep their entries -/
theorem linked_of_nodesKeep {s t : Core} (ha : t.apps = s.apps) (hk : NodesKeep s t) (h : Linked s) : Linked t := by
  refine linked_of_sub' hk ?_ h
  intro b hb hbl
  rw [ha] at hb
  exact ⟨b, hb, hbl, rfl, fun j hj hjb => ⟨j, hj, hjb, rfl, rfl, rfl⟩⟩

/-- one live application is rewritten (`updApps`): the bound items of the new record are bound items of the old one -/
theorem linked_upd {s t : Core} (hw : CoreWF s) (id : String) (f : CApp → CApp) (a : CApp)
    (ham : a ∈ s.apps) (hl : a.live = true) (hid : a.id = id) (hk : NodesKeep s t) (hta : t.apps = updApps s.apps id f)
    (hf : (f a).live = true → (f a).id = a.id ∧
      ∀ j ∈ (f a).items, j.bound = true → ∃ i ∈ a.items, i.bound = true ∧ i.key = j.key ∧ i.node = j.node ∧ i.res = j.res)
    (h : Linked s) : Linked t := by
  refine linked_of_sub' hk ?_ h
  intro b hb hbl
  rw [hta] at hb
  rcases mem_updApps hw.appIds ham hl hid hb with hfa | ⟨hbm, _⟩
  · subst hfa
    obtain ⟨h1, h2⟩ := hf hbl
    exact ⟨a, ham, hl, h1.symm, h2⟩
  · exact ⟨b, hbm, hbl, rfl, fun j hj hjb => ⟨j, hj, hjb, rfl, rfl, rfl⟩⟩

/-- a flag-only rewrite of the items: key, node, size and `bound` are kept -/
theorem bound_of_map {l : List CItem} {g : CItem → CItem}
    (hg : ∀ x, (g x).key = x.key ∧ (g x).node = x.node ∧ (g x).res = x.res ∧ (g x).bound = x.bound)
    {j : CItem} (hj : j ∈ l.map g) (hjb : j.bound = true) :
    ∃ i ∈ l, i.bound = true ∧ i.key = j.key ∧ i.node = j.node ∧ i.res = j.res := by
  obtain ⟨x, hx, rfl⟩ := List.mem_map.mp hj
  obtain ⟨h1, h2, h3, h4⟩ := hg x
  exact ⟨x, hx, by rw [← h4]; exact hjb, h1.symm, h2.symm, h3.symm⟩

/-! ### bookkeeping and timer operations: the nodes keep their allocation lists -/

theorem _root_.Yk.linked_cleanup {s : Core} (_hw : CoreWF s) (h : Linked s) : Linked s.cleanup := by
  refine linked_of_sub (s := s) rfl ?_ h
  intro b hb hbl
  have hb' : b ∈ s.apps := (List.mem_filter.mp hb).1
  exact ⟨b, hb', hbl, rfl, fun j hj hjb => ⟨j, hj, hjb, rfl, rfl, rfl⟩⟩

theorem _root_.Yk.linked_appAdd {s : Core} (_hw : CoreWF s) (h : Linked s) (a : Option CApp) (nq : List CQueue) : Linked (s.appAdd a nq) := by
  have h1 : Linked (s.queuesAdd nq) := Linked.of_lists rfl rfl h
  cases a with
  | none => exact h1
  | some a =>
    cases hc : ((s.findApp a.id).isSome || !((s.queuesAdd nq).queues.any (·.path == a.queue))) with
    | true =>
      have e : s.appAdd (some a) nq = s.queuesAdd nq := by unfold appAdd; simp only [hc, if_true]
      rw [e]; exact h1
    | false =>
      have e : s.appAdd (some a) nq = { s.queuesAdd nq with apps := (s.queuesAdd nq).apps ++
          [{ a with live := true, items := [], pending := [], allocated := [], allocatedPh := [] }] } := by
        unfold appAdd; simp only [hc, Bool.false_eq_true, if_false]
      rw [e]
      intro b hb hbl j hj hjb
      rcases List.mem_append.mp hb with hb' | hb'
      · exact (h b hb' hbl j hj hjb).of_nodes rfl
      · rw [List.mem_singleton] at hb'
        subst hb'
        cases hj

/-- the rewrite of an item that only sets `released` / `preempted` -/
theorem flagItem_keep (c : CItem → Bool) (g : CItem → CItem)
    (hg : ∀ x, (g x).key = x.key ∧ (g x).node = x.node ∧ (g x).res = x.res ∧ (g x).bound = x.bound) :
    ∀ x, (if c x = true then g x else x).key = x.key ∧ (if c x = true then g x else x).node = x.node ∧
      (if c x = true then g x else x).res = x.res ∧ (if c x = true then g x else x).bound = x.bound := by
  intro x
  split
  · exact hg x
  · exact ⟨rfl, rfl, rfl, rfl⟩

/-- a flag-only rewrite of one live application (items mapped by a function that keeps key, node, size, `bound`) -/
theorem linked_flag {s t : Core} (id : String) (f : CApp → CApp) (g : CItem → CItem)
    (hk : NodesKeep s t) (hta : t.apps = updApps s.apps id f)
    (hg : ∀ x, (g x).key = x.key ∧ (g x).node = x.node ∧ (g x).res = x.res ∧ (g x).bound = x.bound)
    (hf : ∀ a, (f a).id = a.id ∧ (f a).items = a.items.map g) (h : Linked s) : Linked t := by
  refine linked_of_sub' hk ?_ h
  intro b hb hbl
  rw [hta] at hb
  obtain ⟨z, hz, rfl⟩ := List.mem_map.mp hb
  by_cases hd : (z.live && z.id == id) = true
  · rw [if_pos hd] at hbl ⊢
    have hzl : z.live = true := by simp only [Bool.and_eq_true] at hd; exact hd.1
    refine ⟨z, hz, hzl, (hf z).1.symm, ?_⟩
    intro j hj hjb
    rw [(hf z).2] at hj
    exact bound_of_map hg hj hjb
  · rw [if_neg hd] at hbl ⊢
    exact ⟨z, hz, hbl, rfl, fun j hj hjb => ⟨j, hj, hjb, rfl, rfl, rfl⟩⟩

theorem _root_.Yk.linked_markReleased {c : Core} (_hw : CoreWF c) (h : Linked c) (app key : String) (preempted : Bool) :
    Linked (c.markReleased app key preempted) := by
  have hg : ∀ x : CItem, (if (x.key == key) = true then
      (if preempted = true then { x with preempted := true } else { x with released := true }) else x).key = x.key ∧ _ :=
    flagItem_keep (fun x => x.key == key) (fun x => if preempted = true then { x with preempted := true } else { x with released := true })
      (fun x => by cases preempted <;> exact ⟨rfl, rfl, rfl, rfl⟩)
  cases hfind : c.findApp app with
  | none => unfold markReleased; simp only [hfind]; exact h
  | some a =>
    cases hitem : a.items.find? (·.key == key) with
    | none => unfold markReleased; simp only [hfind, hitem]; exact h
    | some i =>
      cases hp : (preempted && !i.preempted) with
      | true =>
        have e : c.markReleased app key preempted = updQueues (updApp c app (fun a : CApp => { a with items := a.items.map (fun x =>
            if (x.key == key) = true then (if preempted = true then { x with preempted := true } else { x with released := true }) else x) }))
            (pathChain c a.queue) (fun q => { q with preempting := addX q.preempting i.res }) := by
          unfold markReleased; simp only [hfind, hitem, hp, if_true]
        rw [e]
        exact linked_flag (s := c) app _ _ (NodesKeep.of_eq rfl) rfl hg (fun _ => ⟨rfl, rfl⟩) h
      | false =>
        have e : c.markReleased app key preempted = updApp c app (fun a : CApp => { a with items := a.items.map (fun x =>
            if (x.key == key) = true then (if preempted = true then { x with preempted := true } else { x with released := true }) else x) }) := by
          unfold markReleased; simp only [hfind, hitem, hp, Bool.false_eq_true, if_false]
        rw [e]
        exact linked_flag (s := c) app _ _ (NodesKeep.of_eq rfl) rfl hg (fun _ => ⟨rfl, rfl⟩) h

/-- the bound items that survive `boundOnly` (removeAsksInternal) -/
theorem bound_of_boundOnly {l : List CItem} {j : CItem} (hj : j ∈ Timer.boundOnly l) :
    ∃ i ∈ l, i.bound = true ∧ i.key = j.key ∧ i.node = j.node ∧ i.res = j.res := by
  unfold Timer.boundOnly at hj
  obtain ⟨x, hx, rfl⟩ := List.mem_map.mp hj
  obtain ⟨hxm, hxb⟩ := List.mem_filter.mp hx
  exact ⟨x, hxm, hxb, rfl, rfl, rfl⟩

/-- `unreserveApp` only touches the reservation lists of the nodes -/
theorem nodesKeep_unreserveApp (c : Core) (a : CApp) (counter : Bool) : NodesKeep c (unreserveApp c a counter) := by
  unfold unreserveApp
  split
  · exact NodesKeep.refl c
  · exact NodesKeep.of_map (fun n => { n with reservations := n.reservations.filter (fun k => !(a.reservations.contains (k, n.id))) })
      (fun _ => rfl) (fun _ _ hx => hx) rfl

theorem unreserveApp_apps (c : Core) (a : CApp) (counter : Bool) : (unreserveApp c a counter).apps = c.apps := by
  unfold unreserveApp; split <;> rfl

theorem linked_unreserveApp {c : Core} (h : Linked c) (a : CApp) (counter : Bool) : Linked (unreserveApp c a counter) :=
  linked_of_nodesKeep (unreserveApp_apps c a counter) (nodesKeep_unreserveApp c a counter) h

theorem phCore2_lists (s : Core) (app : String) (ev : Option String) (a : CApp) :
    (Timer.phCore2 s app ev a).apps = updApps s.apps app (fun _ => Timer.phApp2 a ev) ∧ (Timer.phCore2 s app ev a).nodes = s.nodes := by
  unfold Timer.phCore2
  split <;> exact ⟨rfl, rfl⟩

theorem _root_.Yk.linked_phTimeout {s : Core} (hw : CoreWF s) (h : Linked s) (app : String) (ev : Option String) :
    Linked (s.phTimeout app ev) := by
  cases hfind : s.findApp app with
  | none => unfold phTimeout; simp only [hfind]; exact h
  | some a =>
    obtain ⟨ham, hl, hid⟩ := findApp_some hfind
    cases hc : ((a.state == "Running" || a.state == "Completing") && !(isZero (some a.allocatedPh))) with
    | true =>
      have e : s.phTimeout app ev = updApp s app (fun a => { a with items := a.items.map (fun x =>
          if (x.bound && x.ph && !x.released && !x.preempted) = true then { x with released := true } else x) }) := by
        unfold phTimeout; simp only [hfind, hc, if_true]
      rw [e]
      exact linked_flag (s := s) app _ _ (NodesKeep.of_eq rfl) rfl
        (flagItem_keep (fun x => x.bound && x.ph && !x.released && !x.preempted) (fun x => { x with released := true })
          (fun _ => ⟨rfl, rfl, rfl, rfl⟩))
        (fun _ => ⟨rfl, rfl⟩) h
    | false =>
      have e : s.phTimeout app ev =
          if a.items.any (·.inReq) = true then unreserveApp (Timer.phCore2 s app ev a) a false else Timer.phCore2 s app ev a := by
        unfold phTimeout; simp only [hfind, hc, Bool.false_eq_true, if_false]; rfl
      obtain ⟨l1, l2⟩ := phCore2_lists s app ev a
      have h2 : Linked (Timer.phCore2 s app ev a) := by
        refine linked_upd hw app _ a ham hl hid (NodesKeep.of_eq l2) l1 ?_ h
        intro _
        refine ⟨(Timer.phApp2_fields a ev).1, ?_⟩
        intro j hj hjb
        have h1items := (Timer.phApp1_fields a ev).1
        have hsub1 : ∀ j ∈ (Timer.phApp1 a ev).items, j.bound = true →
            ∃ i ∈ a.items, i.bound = true ∧ i.key = j.key ∧ i.node = j.node ∧ i.res = j.res := by
          intro j hj hjb
          rw [h1items] at hj
          exact bound_of_map (flagItem_keep (fun x => x.bound && !x.preempted) (fun x => { x with released := true })
            (fun _ => ⟨rfl, rfl, rfl, rfl⟩)) hj hjb
        unfold Timer.phApp2 at hj
        cases hr : (Timer.phApp1 a ev).items.any (·.inReq) with
        | false => rw [Timer.dropAsksApp_noreq _ hr] at hj; exact hsub1 j hj hjb
        | true =>
          rw [(Timer.dropAsksApp_fields _ hr).1] at hj
          obtain ⟨i, hi, hib, k1, k2, k3⟩ := bound_of_boundOnly hj
          obtain ⟨i', hi', hib', k1', k2', k3'⟩ := hsub1 i hi hib
          exact ⟨i', hi', hib', k1'.trans k1, k2'.trans k2, k3'.trans k3⟩
      rw [e]
      split
      · exact linked_unreserveApp h2 a false
      · exact h2

theorem _root_.Yk.linked_stateTimeout {s : Core} (hw : CoreWF s) (h : Linked s) (app : String) : Linked (s.stateTimeout app) := by
  cases hfind : s.findApp app with
  | none => unfold stateTimeout; simp only [hfind]; exact h
  | some a =>
    obtain ⟨ham, hl, hid⟩ := findApp_some hfind
    cases hst : (a.state != "Completing") with
    | true => unfold stateTimeout; simp only [hfind, hst, if_true]; exact h
    | false =>
      have hstate : a.state = "Completing" := by simpa using hst
      cases hph : (!(isZero (some a.allocatedPh))) with
      | true =>
        have e : s.stateTimeout app = updApp s app (fun a => { a with stateTimer := false, items := a.items.map (fun x =>
            if (x.bound && x.ph && !x.released && !x.preempted) = true then { x with released := true } else x) }) := by
          unfold stateTimeout; simp only [hfind, hst, hph, Bool.false_eq_true, if_false, if_true]
        rw [e]
        exact linked_flag (s := s) app _ _ (NodesKeep.of_eq rfl) rfl
          (flagItem_keep (fun x => x.bound && x.ph && !x.released && !x.preempted) (fun x => { x with released := true })
            (fun _ => ⟨rfl, rfl, rfl, rfl⟩))
          (fun _ => ⟨rfl, rfl⟩) h
      | false =>
        have e : s.stateTimeout app =
            updQueues (updApp s app (fun _ => { setState a "Completed" with live := false, items := Timer.boundOnly a.items }))
              (pathChain s a.queue) (Core.qLeave { setState a "Completed" with live := false, items := Timer.boundOnly a.items }) := by
          unfold stateTimeout
          simp only [hfind, hph, Bool.false_eq_true, if_false, hstate, Timer.fire_completing]
          rfl
        rw [e]
        refine linked_upd hw app _ a ham hl hid (NodesKeep.of_eq rfl) rfl ?_ h
        intro hlive
        cases hlive

/-! ### `ask`, `schedAlloc` -/

theorem _root_.Yk.linked_ask {s : Core} (hw : CoreWF s) (h : Linked s) (app key : String) (res : Res) (ph : Bool) (tg reqNode : String) :
    Linked (s.ask app key res ph tg reqNode).1 := by
  rcases ask_lists s app key res ph tg reqNode with e | ⟨a, hfind, _, f, hta, _, htn, hf⟩
  · rw [e]; exact h
  · obtain ⟨ham, hl, hid⟩ := findApp_some hfind
    refine linked_upd hw app f a ham hl hid (NodesKeep.of_eq htn) hta ?_ h
    intro _
    refine ⟨(hf a).1, ?_⟩
    intro j hj hjb
    rw [(hf a).2.2.2.2.2.2] at hj
    rcases List.mem_append.mp hj with hj' | hj'
    · exact ⟨j, hj', hjb, rfl, rfl, rfl⟩
    · rw [List.mem_singleton] at hj'
      rw [hj'] at hjb
      cases hjb

/-- the scheduler binds an ask: the node gains the entry of the new allocation, every other entry stays -/
theorem _root_.Yk.linked_schedAlloc {s s' : Core} (hw : CoreWF s) (h : Linked s) (app key node : String)
    (hs : s.schedAlloc app key node = some s') : Linked s' := by
  obtain ⟨a, n, i, hfind, hnode, hitem, hta, _, htn⟩ := schedAlloc_lists s s' app key node hs
  obtain ⟨ham, hl, hid⟩ := findApp_some hfind
  have him : i ∈ a.items := List.mem_of_find?_eq_some hitem
  have hikey : i.key = key := by
    have := List.find?_some hitem
    simp only [Bool.and_eq_true, beq_iff_eq] at this
    exact this.1.1
  have hk : NodesKeep s s' := NodesKeep.of_updNs node (schedNode app key i) htn (fun _ => rfl)
    (fun _ x hx => List.mem_append.mpr (Or.inl hx))
  intro b hb hbl j hj hjb
  rw [hta] at hb
  rcases mem_updApps hw.appIds ham hl hid hb with hfa | ⟨hbm, _⟩
  · subst hfa
    rw [schedApp_id]
    rw [schedApp_items] at hj
    obtain ⟨x, hx, ⟨hxk, hjx⟩ | ⟨_, hjx⟩⟩ := mem_updItem hj
    · -- the allocation that has just been bound
      have hxi : x = i := itemKeys_eq (hw.itemKeys a ham hl) hx him (hxk.trans hikey.symm)
      subst hxi
      subst hjx
      refine ⟨schedNode app key x n, ?_, { key := key, app := app, res := x.res, foreign := false, ph := x.ph }, ?_, hxk.symm, hid.symm, rfl,
        fun _ => rfl⟩
      · show s'.findNode node = _
        have : s'.findNode node = (updNode s node (schedNode app key x)).findNode node := by
          unfold findNode; rw [htn]; rfl
        rw [this, findNode_updNode_eq s node (schedNode app key x) (fun _ => rfl), hnode]; rfl
      · exact List.mem_append.mpr (Or.inr (List.mem_singleton.mpr rfl))
    · subst hjx
      exact onNode_keep hk (h a ham hl j hx hjb)
  · exact onNode_keep hk (h b hbm hbl j hj hjb)

/-! ### node requests -/

theorem setRootMax_nodes (s : Core) (t : Res) : (setRootMax s t).nodes = s.nodes := rfl
theorem setRootMax_apps (s : Core) (t : Res) : (setRootMax s t).apps = s.apps := rfl

theorem find_append_new (l : List CNode) (m : CNode) (id : String) {n : CNode} (h : l.find? (·.id == id) = some n) :
    (l ++ [m]).find? (·.id == id) = some n := by
  rw [List.find?_append, h]; rfl

theorem _root_.Yk.linked_nodeCreate {s : Core} (_hw : CoreWF s) (h : Linked s) (id : String) (cap : Res) (b : Bool) :
    Linked (s.nodeCreate id cap b) := by
  unfold nodeCreate
  split
  · exact h
  · refine linked_of_nodesKeep (s := s) rfl ?_ h
    intro id' n hn
    exact ⟨n, by unfold findNode at hn ⊢; exact find_append_new _ _ _ hn, fun _ hx => hx⟩

theorem _root_.Yk.linked_nodeUpdate {s : Core} (_hw : CoreWF s) (h : Linked s) (id : String) (cap : Res) : Linked (s.nodeUpdate id cap) := by
  unfold nodeUpdate
  split
  · exact h
  · split
    · exact h
    · exact linked_of_nodesKeep (s := s) rfl (NodesKeep.of_updNs (s := s) id _ rfl (fun _ => rfl) (fun _ _ hx => hx)) h

theorem _root_.Yk.linked_nodeSchedulable {s : Core} (_hw : CoreWF s) (h : Linked s) (id : String) (b : Bool) :
    Linked (s.nodeSchedulable id b) :=
  linked_of_nodesKeep (s := s) rfl (NodesKeep.of_updNs (s := s) id _ rfl (fun _ => rfl) (fun _ _ hx => hx)) h

/-! ### foreign allocations -/

theorem _root_.Yk.linked_foreignAdd {s : Core} (_hw : CoreWF s) (h : Linked s) (key node : String) (res : Res) :
    Linked (s.foreignAdd key node res) := by
  unfold foreignAdd
  split
  · exact h
  · split
    · exact h
    · exact linked_of_nodesKeep (s := s) rfl
        (NodesKeep.of_updNs (s := s) node _ rfl (fun _ => rfl) (fun _ x hx => List.mem_append.mpr (Or.inl hx))) h

/-- a foreign entry leaves its node: a bound allocation with the same key on the same node would be a second entry with
    that key (`CoreWF.allocKeys`) -/
theorem _root_.Yk.linked_foreignRemove {s : Core} (hw : CoreWF s) (h : Linked s) (key : String) : Linked (s.foreignRemove key) := by
  unfold foreignRemove
  split
  · exact h
  · have h0 : Linked { s with foreign := s.foreign.filter (· != key) } := Linked.of_lists rfl rfl h
    split
    · exact h0
    · rename_i n hn
      split
      · exact h0
      · have hnm : n ∈ s.nodes := List.mem_of_find?_eq_some hn
        have hany := List.find?_some hn
        obtain ⟨y, hy, hyk⟩ := List.any_eq_true.mp hany
        simp only [Bool.and_eq_true, beq_iff_eq] at hyk
        intro b hb hbl j hj hjb
        have hon : OnNode s b.id j := h b hb hbl j hj hjb
        have hon0 : OnNode { s with foreign := s.foreign.filter (· != key) } b.id j := hon.of_nodes rfl
        refine hon0.updNode n.id _ (fun _ => rfl) ?_
        intro m hm hjn x hx hxk
        have hm' : s.findNode j.node = some m := hm
        have hmn : m = n := nodeIds_eq hw hnm (findNode_some hm').1 ((findNode_some hm').2.trans hjn)
        subst hmn
        refine List.mem_filter.mpr ⟨hx, ?_⟩
        have hne : x.key ≠ key := by
          intro hxkey
          obtain ⟨m', hfm', x', hx', hxk', _, hxf', _⟩ := hon
          rw [hm'] at hfm'
          have hmm : m = m' := Option.some.inj hfm'
          subst hmm
          have hak := hw.allocKeys m hnm
          have e1 : x' = x := allocKeys_eq hak hx' hx (hxk'.trans hxk.symm)
          have e2 : x = y := allocKeys_eq hak hx hy (hxkey.trans hyk.1.symm)
          rw [e1, e2, hyk.2] at hxf'
          cases hxf'
        simpa using hne

/-! ### the old `releaseKey` (`rel1` then `rel2`) -/

/-- step (1): the released allocation is unbound and leaves its node; every other bound allocation keeps its entry (same
    application: another key; other application: `linked_same_app`) -/
theorem linked_rel1 {s : Core} (hw : CoreWF s) (h : Linked s) (app key : String) (a : CApp) (i : CItem)
    (hfind : s.findApp app = some a) (hitem : a.items.find? (·.key == key) = some i) : Linked (rel1 s app key a i) := by
  obtain ⟨ham, hl, hid⟩ := findApp_some hfind
  obtain ⟨him, hikey⟩ := find_key_some hitem
  cases hbd : i.bound with
  | false => unfold rel1; simp only [hbd, Bool.false_eq_true, if_false]; exact h
  | true =>
    have honi : OnNode s a.id i := h a ham hl i him hbd
    obtain ⟨n, hn, _⟩ := honi
    obtain ⟨hta, htn, _⟩ := rel1_lists s app key a i hbd n hn
    have htn' : (rel1 s app key a i).nodes = (updNode s i.node (relNode key i)).nodes := htn
    -- an allocation with another key keeps its entry
    have keep : ∀ (id : String) (j : CItem), OnNode s id j → j.key ≠ key → OnNode (rel1 s app key a i) id j := by
      intro id j hon hne
      refine OnNode.of_nodes htn' (hon.updNode i.node (relNode key i) (fun _ => rfl) ?_)
      intro m _ _ x hx hxk
      refine List.mem_filter.mpr ⟨hx, ?_⟩
      have : x.key ≠ key := by rw [hxk]; exact hne
      simpa using this
    intro b hb hbl j hj hjb
    rw [hta] at hb
    rcases mem_updApps hw.appIds ham hl hid hb with hfa | ⟨hbm, hnd⟩
    · subst hfa
      rw [relApp_id]
      rw [relApp_items] at hj
      obtain ⟨x, hx, hjx⟩ := List.mem_map.mp hj
      by_cases hxk : (x.key == key) = true
      · rw [if_pos hxk] at hjx
        rw [← hjx] at hjb
        cases hjb
      · rw [if_neg hxk] at hjx
        subst hjx
        exact keep a.id x (h a ham hl x hx hjb) (by simpa using hxk)
    · have hon : OnNode s b.id j := h b hbm hbl j hj hjb
      by_cases hjk : j.key = key
      · by_cases hjn : j.node = i.node
        · exfalso
          have hsame : b.id = a.id := linked_same_app hw hon (h a ham hl i him hbd) hjn (hjk.trans hikey.symm)
          apply hnd
          simp only [Bool.and_eq_true, beq_iff_eq]
          exact ⟨hbl, hsame.trans hid⟩
        · obtain ⟨m, hm, rest⟩ := hon
          refine ⟨m, ?_, rest⟩
          have : (rel1 s app key a i).findNode j.node = (updNode s i.node (relNode key i)).findNode j.node := by
            unfold findNode; rw [htn']
          rw [this, findNode_updNode_ne s i.node j.node (relNode key i) (fun _ => rfl) hjn]
          exact hm
      · exact keep b.id j hon hjk

/-- step (2): the ask leaves the application; the nodes are untouched -/
theorem linked_rel2 {s1 : Core} (hw : CoreWF s1) (h : Linked s1) (app key : String) (chain : List String) :
    Linked (rel2 s1 app key chain) := by
  unfold rel2
  split
  · exact h
  · rename_i a hfind
    obtain ⟨ham, hl, hid⟩ := findApp_some hfind
    split
    · exact h
    · rename_i x _
      have h2 : Linked (updApp s1 app (askApp key x)) := by
        refine linked_upd hw app (askApp key x) a ham hl hid (NodesKeep.of_eq rfl) rfl ?_ h
        intro _
        refine ⟨rfl, ?_⟩
        intro j hj hjb
        have hj' : j ∈ a.items.filter (·.key != key) := hj
        exact ⟨j, (List.mem_filter.mp hj').1, hjb, rfl, rfl, rfl⟩
      split
      · exact h2
      · exact Linked.of_lists rfl rfl h2

theorem _root_.Yk.linked_releaseKey {s : Core} (hw : CoreWF s) (h : Linked s) (app key : String) : Linked (s.releaseKey app key) := by
  cases hfind : s.findApp app with
  | none => unfold releaseKey; simp only [hfind]; exact h
  | some a =>
    cases hitem : a.items.find? (·.key == key) with
    | none => unfold releaseKey; simp only [hfind, hitem]; exact h
    | some i =>
      rw [releaseKey_eq s app key a i hfind hitem]
      exact linked_rel2 (wf_rel1 s app key a i hw hfind) (linked_rel1 hw h app key a i hfind hitem) app key _

end LinkA
end Yk
