/- Lemmas about the placement model (YkModel/Place.lean, YkModel/PlaceSpec.lean) behind YkProps/C17. -/
import YkModel.Place
import YkModel.PlaceSpec
namespace Yk.Place

/-! ### queue lookup -/

theorem findQ_some {t : Tree} {p : QName} {q : Queue} (h : findQ t p = some q) : q ∈ t ∧ q.path = p := by
  unfold findQ at h
  have h1 := List.mem_of_find?_eq_some h
  have h2 := List.find?_some h
  exact ⟨h1, by simpa using h2⟩

theorem getQueue_some {t : Tree} {n : QName} {q : Queue} (h : getQueue t n = some q) :
    q ∈ t ∧ q.path = lowerName n ∧ findQ t (lowerName n) = some q ∧ (lowerName n).head? = some sRoot := by
  unfold getQueue at h
  split at h
  · rename_i hr
    exact ⟨(findQ_some h).1, (findQ_some h).2, h, hr⟩
  · cases h

theorem lowerName_append (a b : QName) : lowerName (a ++ b) = lowerName a ++ lowerName b := by
  simp [lowerName]

theorem lowerName_take (a : QName) (k : Nat) : lowerName (a.take k) = (lowerName a).take k := by
  simp [lowerName, List.map_take]

theorem lowerName_drop (a : QName) (k : Nat) : lowerName (a.drop k) = (lowerName a).drop k := by
  simp [lowerName, List.map_drop]

theorem lowerName_length (a : QName) : (lowerName a).length = a.length := by simp [lowerName]

/-! ### CheckSubmitAccess: somebody on the path lets the user in -/

theorem checkSubmitR_path (t : Tree) (u : User) : ∀ (r : List Str), checkSubmitR t u r = true →
    ∃ k, 0 < k ∧ k ≤ r.length ∧ ownAllows t u (r.reverse.take k) = true := by
  intro r
  induction r with
  | nil => intro h; simp [checkSubmitR] at h
  | cons x rest ih =>
    intro h
    unfold checkSubmitR at h
    split at h
    · cases h
    · simp only [Bool.or_eq_true] at h
      rcases h with h | h
      · refine ⟨(x :: rest).length, by simp, Nat.le_refl _, ?_⟩
        have : (x :: rest).reverse.take (x :: rest).length = (x :: rest).reverse := by
          apply List.take_of_length_le; simp
        rw [this]; exact h
      · obtain ⟨k, hk0, hkl, hk⟩ := ih h
        refine ⟨k, hk0, by simp; omega, ?_⟩
        have : (x :: rest).reverse.take k = rest.reverse.take k := by
          simp only [List.reverse_cons]
          apply List.take_append_of_le_length
          simp; exact hkl
        rw [this]; exact hk

theorem checkSubmit_path {t : Tree} {u : User} {p : QName} (h : checkSubmit t u p = true) :
    ∃ k, 0 < k ∧ k ≤ p.length ∧ ownAllows t u (p.take k) = true := by
  obtain ⟨k, h0, hl, hk⟩ := checkSubmitR_path t u p.reverse h
  refine ⟨k, h0, by simpa using hl, by simpa using hk⟩

/-- the recovery queue never passes the ACL check -/
theorem checkSubmit_recovery (t : Tree) (u : User) : checkSubmit t u recoveryQ = false := by
  simp [checkSubmit, recoveryQ, checkSubmitR, isRecoveryName, lowerName, lower, sRoot, sRecovery]

/-! ### the walk-up loop -/

theorem walkUpR_some (t : Tree) : ∀ (r : List Str) (q : Queue), walkUpR t r = some q →
    ∃ k, 0 < k ∧ k < r.length ∧ getQueue t (r.reverse.take k) = some q := by
  intro r
  induction r with
  | nil => intro q h; simp [walkUpR] at h
  | cons x rest ih =>
    intro q h
    cases rest with
    | nil => simp [walkUpR] at h
    | cons y rest' =>
      unfold walkUpR at h
      split at h
      · rename_i q' hq'
        cases h
        refine ⟨(y :: rest').length, by simp, by simp, ?_⟩
        have : (x :: y :: rest').reverse.take (y :: rest').length = (y :: rest').reverse := by
          rw [List.reverse_cons (a := x)]
          rw [List.take_append_of_le_length (by simp)]
          apply List.take_of_length_le; simp
        rw [this]; exact hq'
      · obtain ⟨k, h0, hl, hk⟩ := ih q h
        refine ⟨k, h0, by simp at hl ⊢; omega, ?_⟩
        have : (x :: y :: rest').reverse.take k = (y :: rest').reverse.take k := by
          rw [List.reverse_cons (a := x)]
          apply List.take_append_of_le_length
          simp at hl ⊢; omega
        rw [this]; exact hk

theorem walkUp_some {t : Tree} {n : QName} {q : Queue} (h : walkUp t n = some q) :
    ∃ k, 0 < k ∧ k < n.length ∧ getQueue t (n.take k) = some q := by
  obtain ⟨k, h0, hl, hk⟩ := walkUpR_some t n.reverse q h
  exact ⟨k, h0, by simpa using hl, by simpa using hk⟩

/-- the deepest existing queue above a name is on the (lower-cased) path of the name -/
theorem walkUp_path {t : Tree} {n : QName} {q : Queue} (h : walkUp t n = some q) :
    ∃ k, 0 < k ∧ k < n.length ∧ q.path = (lowerName n).take k ∧ q ∈ t ∧ (lowerName n).head? = some sRoot := by
  obtain ⟨k, h0, hl, hk⟩ := walkUp_some h
  obtain ⟨hm, hp, _, hr⟩ := getQueue_some hk
  refine ⟨k, h0, hl, by rw [hp, lowerName_take], hm, ?_⟩
  rw [lowerName_take] at hr
  cases hn : lowerName n with
  | nil => rw [hn] at hr; simp at hr
  | cons a b =>
    rw [hn] at hr
    cases k with
    | zero => omega
    | succ k' => simpa using hr

/-! ### PlaceApplication = the first rule whose result passes the checks -/

theorem place_placed_iff (rx : Str → Str → Bool) (t : Tree) (a : App) : ∀ (rs : List Rule) (n : QName),
    place rx t a rs = .placed n ↔ ∃ r, choose rx t a rs = some (r, n) := by
  intro rs
  induction rs with
  | nil => intro n; simp [place, choose]
  | cons r rest ih =>
    intro n
    unfold place choose
    cases hr : runRule rx t a r with
    | err e => simp
    | noMatch =>
      simp only
      cases hy : yields t RuleRes.noMatch rest.isEmpty with
      | none => simpa using ih n
      | some m =>
        simp only
        cases he : eligible t a m with
        | none => simp
        | some b =>
          cases b with
          | true => simp
          | false => simpa using ih n
    | queue q =>
      simp only
      cases hy : yields t (RuleRes.queue q) rest.isEmpty with
      | none => simpa using ih n
      | some m =>
        simp only
        cases he : eligible t a m with
        | none => simp
        | some b =>
          cases b with
          | true => simp
          | false => simpa using ih n

/-- what the loop body of PlaceApplication works with for the rule `r` (`last`: it is the last rule) -/
def offer (rx : Str → Str → Bool) (t : Tree) (a : App) (r : Rule) (last : Bool) : Option QName :=
  match runRule rx t a r with
  | .err _ => none
  | res => yields t res last

theorem choose_ne_nil {rx : Str → Str → Bool} {t : Tree} {a : App} {rs : List Rule} {x : Rule × QName}
    (h : choose rx t a rs = some x) : rs ≠ [] := by
  intro e; subst e; simp [choose] at h

/-- `r` is the first rule of `rs`, in configured order, whose result passes the checks, and the result is `n`: every
    rule before it runs without error and yields nothing or a queue name that fails the checks (without panic) -/
def FirstPassing (rx : Str → Str → Bool) (t : Tree) (a : App) (rs : List Rule) (r : Rule) (n : QName) : Prop :=
  ∃ pre post, rs = pre ++ r :: post ∧
    (∀ e, runRule rx t a r ≠ .err e) ∧ offer rx t a r post.isEmpty = some n ∧ eligible t a n = some true ∧
    ∀ r' ∈ pre, (∀ e, runRule rx t a r' ≠ .err e) ∧
      ∀ n', offer rx t a r' false = some n' → eligible t a n' = some false

theorem choose_first (rx : Str → Str → Bool) (t : Tree) (a : App) : ∀ (rs : List Rule) (r : Rule) (n : QName),
    choose rx t a rs = some (r, n) → FirstPassing rx t a rs r n := by
  intro rs
  induction rs with
  | nil => intro r n h; simp [choose] at h
  | cons r0 rest ih =>
    intro r n h
    unfold choose at h
    -- the step taken when the first rule does not place the application
    have step : choose rx t a rest = some (r, n) → (∀ e, runRule rx t a r0 ≠ .err e) →
        (∀ n', offer rx t a r0 false = some n' → eligible t a n' = some false) → FirstPassing rx t a (r0 :: rest) r n := by
      intro hc hne hoff
      obtain ⟨pre, post, hrs, h1, h2, h3, h4⟩ := ih r n hc
      refine ⟨r0 :: pre, post, by rw [hrs]; rfl, h1, h2, h3, ?_⟩
      intro r' hr'
      rcases List.mem_cons.mp hr' with e | hm
      · subst e; exact ⟨hne, hoff⟩
      · exact h4 r' hm
    cases hr : runRule rx t a r0 with
    | err e => rw [hr] at h; simp at h
    | noMatch =>
      rw [hr] at h
      simp only at h
      cases hy : yields t RuleRes.noMatch rest.isEmpty with
      | none =>
        rw [hy] at h
        have hne := choose_ne_nil h
        have hf : rest.isEmpty = false := by cases rest <;> simp_all
        refine step h (by rw [hr]; intro e; simp) ?_
        intro n' hn'
        simp [offer, hr] at hn'
        rw [hf] at hy; rw [hy] at hn'; cases hn'
      | some m =>
        rw [hy] at h
        simp only at h
        cases he : eligible t a m with
        | none => rw [he] at h; simp at h
        | some b =>
          rw [he] at h
          cases b with
          | true =>
            simp at h
            obtain ⟨e1, e2⟩ := h
            subst e1; subst e2
            refine ⟨[], rest, rfl, by rw [hr]; intro e; simp, by simp [offer, hr, hy], he, by simp⟩
          | false =>
            simp only at h
            have hne := choose_ne_nil h
            have hf : rest.isEmpty = false := by cases rest <;> simp_all
            refine step h (by rw [hr]; intro e; simp) ?_
            intro n' hn'
            simp [offer, hr] at hn'
            rw [hf] at hy; rw [hy] at hn'; cases hn'; exact he
    | queue q =>
      rw [hr] at h
      simp only at h
      cases hy : yields t (RuleRes.queue q) rest.isEmpty with
      | none => simp [yields] at hy
      | some m =>
        rw [hy] at h
        simp only at h
        have hm : m = q := by simp [yields] at hy; exact hy.symm
        cases he : eligible t a m with
        | none => rw [he] at h; simp at h
        | some b =>
          rw [he] at h
          cases b with
          | true =>
            simp at h
            obtain ⟨e1, e2⟩ := h
            subst e1; subst e2
            refine ⟨[], rest, rfl, by rw [hr]; intro e; simp, by simp [offer, hr, hy], he, by simp⟩
          | false =>
            simp only at h
            refine step h (by rw [hr]; intro e; simp) ?_
            intro n' hn'
            simp [offer, hr, yields] at hn'
            subst hn'; subst hm; exact he

/-! ### queue creation -/

/-- what is true of a queue made by the creation loop below `parent` for the name parts `names` -/
def CreatedUnder (parent : Queue) (names : List Str) (x : Queue) : Prop :=
  parent.path <+: x.path ∧ x.path <+: parent.path ++ lowerName names ∧ x.managed = false ∧ x.draining = false ∧
    (x.leaf = true → x.cfg = parent.tpl ∧ x.tpl = [] ∧ x.tplProps = [] ∧ x.set = dynSettings x.path true parent.tplProps) ∧
    (x.leaf = false → x.tpl = parent.tpl ∧ x.cfg = [] ∧ x.tplProps = parent.tplProps ∧ x.set = dynSettings x.path false [])

theorem createChain_spec : ∀ (names : List Str) (t : Tree) (parent : Queue) (t' : Tree) (res : Except Reason Queue),
    createChain t parent names = (t', res) →
    ∃ news, t' = t ++ news ∧ (∀ x ∈ news, CreatedUnder parent names x) ∧
      (∀ q, res = .ok q → q.path = parent.path ++ lowerName names ∧ (names ≠ [] → q ∈ news ∧ q.leaf = true) ∧
        (names = [] → q = parent)) ∧
      (news ≠ [] → parent.leaf = false) := by
  intro names
  induction names with
  | nil =>
    intro t parent t' res h
    simp [createChain] at h
    obtain ⟨h1, h2⟩ := h
    subst h1; subst h2
    exact ⟨[], by simp, by simp, by intro q hq; cases hq; simp [lowerName], by simp⟩
  | cons name rest ih =>
    intro t parent t' res h
    unfold createChain at h
    split at h
    · cases h; exact ⟨[], by simp, by simp, (by intro q hq; cases hq), by simp⟩
    · split at h
      · cases h; exact ⟨[], by simp, by simp, (by intro q hq; cases hq), by simp⟩
      · split at h
        · cases h; exact ⟨[], by simp, by simp, (by intro q hq; cases hq), by simp⟩
        · split at h
          · cases h; exact ⟨[], by simp, by simp, (by intro q hq; cases hq), by simp⟩
          · rename_i hv hrec hleaf hdr
            obtain ⟨news, hn1, hn2, hn3, _⟩ := ih _ _ _ _ h
            have hpl : parent.leaf = false := by simpa using hleaf
            refine ⟨newDynamic parent name rest.isEmpty :: news, by rw [hn1]; simp, ?_, ?_, fun _ => hpl⟩
            · intro x hx
              rcases List.mem_cons.mp hx with e | hm
              · subst e
                refine ⟨⟨[lower name], rfl⟩, ⟨lowerName rest, by simp [newDynamic, lowerName]⟩, rfl, rfl, ?_, ?_⟩
                · intro hl; simp [newDynamic] at hl ⊢; simp [hl]
                · intro hl
                  have he : rest.isEmpty = false := by simpa [newDynamic] using hl
                  simp [newDynamic, he]
              · obtain ⟨p1, p2, p3, p4, p5, p6⟩ := hn2 x hm
                have hpp : (newDynamic parent name rest.isEmpty).path = parent.path ++ [lower name] := rfl
                refine ⟨?_, ?_, p3, p4, ?_, ?_⟩
                · obtain ⟨w, hw⟩ := p1
                  exact ⟨[lower name] ++ w, by rw [← hw, hpp]; simp⟩
                · rw [hpp] at p2
                  simpa [lowerName] using p2
                · intro hl
                  -- a queue below the new one exists only when the new one is a parent
                  cases rest with
                  | nil =>
                    simp [createChain] at h
                    have : news = [] := by
                      have := h.1; rw [hn1] at this
                      exact (List.append_right_eq_self.mp this.symm)
                    subst this; cases hm
                  | cons y r' =>
                    have := p5 hl
                    simpa [newDynamic] using this
                · intro hl
                  cases rest with
                  | nil =>
                    simp [createChain] at h
                    have : news = [] := by
                      have := h.1; rw [hn1] at this
                      exact (List.append_right_eq_self.mp this.symm)
                    subst this; cases hm
                  | cons y r' =>
                    have := p6 hl
                    simpa [newDynamic] using this
            · intro q hq
              obtain ⟨q1, q2, q3⟩ := hn3 q hq
              refine ⟨by rw [q1]; simp [newDynamic, lowerName], ?_, by simp⟩
              intro _
              cases rest with
              | nil =>
                have := q3 rfl
                subst this
                exact ⟨by simp, by simp [newDynamic]⟩
              | cons y r' =>
                obtain ⟨m1, m2⟩ := q2 (by simp)
                exact ⟨List.mem_cons_of_mem _ m1, m2⟩

/-- createQueue: everything new hangs below the deepest existing queue on the name's path, which is not a leaf and
    admits the user -/
theorem createQueue_spec {t : Tree} {u : User} {n : QName} {t' : Tree} {res : Except Reason Queue}
    (h : createQueue t u n = (t', res)) :
    ∃ news, t' = t ++ news ∧
      (news ≠ [] ∨ (∃ q, res = .ok q) → ∃ anc k, walkUp t n = some anc ∧ anc.leaf = false ∧ checkSubmit t u anc.path = true ∧
        anc.path = (lowerName n).take k ∧ k < n.length ∧
        (∀ x ∈ news, CreatedUnder anc (n.drop k) x ∧ x.path <+: lowerName n) ∧
        (∀ q, res = .ok q → q.path = lowerName n ∧ q ∈ news ∧ q.leaf = true)) := by
  unfold createQueue at h
  split at h
  · cases h; exact ⟨[], by simp, by simp⟩
  · split at h
    · cases h; exact ⟨[], by simp, by simp⟩
    · rename_i anc hw
      split at h
      · cases h; exact ⟨[], by simp, by simp⟩
      · split at h
        · cases h; exact ⟨[], by simp, by simp⟩
        · rename_i hcs hleaf
          obtain ⟨k, hk0, hkl, hp, hmem, hroot⟩ := walkUp_path hw
          have hlen : anc.path.length = k := by
            rw [hp, List.length_take, lowerName_length]; omega
          rw [hlen] at h
          obtain ⟨news, hn1, hn2, hn3, hn4⟩ := createChain_spec _ _ _ _ _ h
          have hfull : anc.path ++ lowerName (n.drop k) = lowerName n := by
            rw [hp, lowerName_drop, List.take_append_drop]
          refine ⟨news, hn1, fun _ => ⟨anc, k, hw, by simpa using hleaf, by simpa using hcs, hp, hkl, ?_, ?_⟩⟩
          · intro x hx
            have hc := hn2 x hx
            refine ⟨hc, ?_⟩
            have := hc.2.1
            rwa [hfull] at this
          · intro q hq
            obtain ⟨q1, q2, _⟩ := hn3 q hq
            have hne : n.drop k ≠ [] := by
              intro e
              have := congrArg List.length e
              simp at this; omega
            exact ⟨by rw [q1, hfull], (q2 hne).1, (q2 hne).2⟩

theorem lower_sRecovery : lower sRecovery = sRecovery := by decide
theorem lowerName_rootQ : lowerName rootQ = rootQ := by decide
theorem lowerName_recoveryQ : lowerName recoveryQ = recoveryQ := by decide

theorem createRecovery_spec {t : Tree} {t' : Tree} {res : Except Reason Queue} (h : createRecovery t = (t', res)) :
    ∃ news, t' = t ++ news ∧
      (news ≠ [] ∨ (∃ q, res = .ok q) → ∃ root, findQ t rootQ = some root ∧ root.path = rootQ ∧ root.leaf = false ∧
        news = [newRecovery root] ∧ res = .ok (newRecovery root)) := by
  unfold createRecovery at h
  split at h
  · cases h; exact ⟨[], by simp, by simp⟩
  · rename_i root hr
    split at h
    · cases h; exact ⟨[], by simp, by simp⟩
    · rename_i hleaf
      split at h
      · cases h; exact ⟨[], by simp, by simp⟩
      · cases h
        exact ⟨[newRecovery root], rfl, fun _ => ⟨root, hr, (findQ_some hr).2, by simpa using hleaf, rfl, rfl⟩⟩

theorem walkUp_recovery {t : Tree} {n : QName} {root : Queue} (hn : isRecoveryName n = true)
    (hr : findQ t rootQ = some root) : walkUp t n = some root := by
  have hl : lowerName n = recoveryQ := by simpa [isRecoveryName] using hn
  cases n with
  | nil => simp [lowerName, recoveryQ] at hl
  | cons x n1 =>
    cases n1 with
    | nil => simp [lowerName, recoveryQ] at hl
    | cons y n2 =>
      cases n2 with
      | cons z n3 => simp [lowerName, recoveryQ] at hl
      | nil =>
        have hx : lower x = sRoot := by
          simp [lowerName, recoveryQ] at hl; exact hl.1
        have hg : getQueue t [x] = some root := by
          simp [getQueue, lowerName, hx]
          exact hr
        simp [walkUp, walkUpR, hg]

/-! ### AddApplication -/

/-- what is true of the queues that an AddApplication call adds: they hang on the path of the placed name below the
    deepest queue that existed, which is not a leaf; leaves get its child template — the template-controlled settings
    AND the effective settings derived from the template's properties (`dynSettings`: on the recovery queue path nothing
    is derived, UpdateQueueProperties returns early) —, parents carry the template on and have blank settings -/
def NewBelow (t : Tree) (n : QName) (news : List Queue) : Prop :=
  ∃ anc, walkUp t n = some anc ∧ anc.leaf = false ∧
    ∀ x ∈ news, anc.path <+: x.path ∧ x.path <+: lowerName n ∧ x.managed = false ∧ x.draining = false ∧
      (x.leaf = true → x.cfg = anc.tpl ∧ x.tpl = [] ∧ x.tplProps = [] ∧ x.set = dynSettings x.path true anc.tplProps) ∧
      (x.leaf = false → x.tpl = anc.tpl ∧ x.cfg = [] ∧ x.tplProps = anc.tplProps ∧ x.set = dynSettings x.path false [])

theorem addApp_spec {rx : Str → Str → Bool} {t : Tree} {rules : List Rule} {a : App} {t' : Tree} {out : Outcome}
    (h : addApp rx t rules a = (t', out)) :
    ∃ news, t' = t ++ news ∧
      (∀ q, out = .accepted q → ∃ r n, choose rx t a rules = some (r, n) ∧ q = lowerName n ∧
        ((∃ x, getQueue t n = some x ∧ x.leaf = true ∧ x.path = q ∧ news = []) ∨
         (getQueue t n = none ∧ ∃ x ∈ news, x.path = q ∧ x.leaf = true))) ∧
      (news ≠ [] → ∃ r n, choose rx t a rules = some (r, n) ∧ getQueue t n = none ∧ NewBelow t n news) := by
  unfold addApp at h
  cases hp : place rx t a rules with
  | panic => rw [hp] at h; cases h; exact ⟨[], by simp, (by intro q hq; cases hq), by simp⟩
  | rejected => rw [hp] at h; cases h; exact ⟨[], by simp, (by intro q hq; cases hq), by simp⟩
  | ruleErr e => rw [hp] at h; cases h; exact ⟨[], by simp, (by intro q hq; cases hq), by simp⟩
  | placed n =>
    rw [hp] at h
    obtain ⟨r, hc⟩ := (place_placed_iff rx t a rules n).mp hp
    simp only at h
    cases hg : getQueue t n with
    | some x =>
      rw [hg] at h
      simp only at h
      split at h
      · rename_i hl
        cases h
        refine ⟨[], by simp, ?_, by simp⟩
        intro q hq; cases hq
        exact ⟨r, n, hc, (getQueue_some hg).2.1, Or.inl ⟨x, hg, hl, rfl, rfl⟩⟩
      · cases h; exact ⟨[], by simp, (by intro q hq; cases hq), by simp⟩
    | none =>
      rw [hg] at h
      simp only at h
      by_cases hrec : isRecoveryName n = true
      · rw [if_pos hrec] at h
        cases hcr : createRecovery t with
        | mk t1 res =>
          rw [hcr] at h
          obtain ⟨news, hn1, hn2⟩ := createRecovery_spec hcr
          have hl : lowerName n = recoveryQ := by simpa [isRecoveryName] using hrec
          -- the facts about the new recovery queue
          have facts : news ≠ [] ∨ (∃ q, res = .ok q) →
              ∃ root, news = [newRecovery root] ∧ res = .ok (newRecovery root) ∧ NewBelow t n news := by
            intro hh
            obtain ⟨root, hr1, hr2, hrl, hr3, hr4⟩ := hn2 hh
            refine ⟨root, hr3, hr4, root, walkUp_recovery hrec hr1, hrl, ?_⟩
            · intro x hx
              rw [hr3] at hx
              simp at hx; subst hx
              refine ⟨⟨[lower sRecovery], by simp [newRecovery, newDynamic]⟩, ?_, rfl, rfl, ?_, ?_⟩
              · rw [hl]; simp [newRecovery, newDynamic, hr2, lower_sRecovery, recoveryQ, rootQ]
              · intro _; simp [newRecovery, newDynamic, hrec]
              · intro hh; simp [newRecovery, newDynamic] at hh
          cases res with
          | error e =>
            simp only at h; cases h
            refine ⟨news, hn1, (by intro q hq; cases hq), ?_⟩
            intro hne
            obtain ⟨root, _, _, hb⟩ := facts (Or.inl hne)
            exact ⟨r, n, hc, hg, hb⟩
          | ok q =>
            simp only at h
            obtain ⟨root, hr3, hr4, hb⟩ := facts (Or.inr ⟨q, rfl⟩)
            cases hr4
            simp [newRecovery, newDynamic] at h
            obtain ⟨h1, h2⟩ := h
            subst h1; subst h2
            refine ⟨news, hn1, ?_, fun _ => ⟨r, n, hc, hg, hb⟩⟩
            intro q' hq'; cases hq'
            refine ⟨r, n, hc, ?_, Or.inr ⟨hg, newRecovery root, by rw [hr3]; simp, rfl, rfl⟩⟩
            obtain ⟨root', hr1', hr2', _, hr3', _⟩ := hn2 (Or.inr ⟨_, rfl⟩)
            rw [hr3] at hr3'
            simp at hr3'
            rw [hl]
            have : root.path = rootQ := by
              have := congrArg Queue.path hr3'
              simp [newRecovery, newDynamic] at this
              rw [this]; exact hr2'
            simp [this, lower_sRecovery, recoveryQ, rootQ]
      · rw [if_neg hrec] at h
        cases hcq : createQueue t a.user n with
        | mk t1 res =>
          rw [hcq] at h
          obtain ⟨news, hn1, hn2⟩ := createQueue_spec hcq
          have facts : news ≠ [] ∨ (∃ q, res = .ok q) → NewBelow t n news ∧
              (∀ q, res = .ok q → q.path = lowerName n ∧ q ∈ news ∧ q.leaf = true) := by
            intro hh
            obtain ⟨anc, k, w1, w2, w3, w4, w5, w6, w7⟩ := hn2 hh
            refine ⟨⟨anc, w1, w2, ?_⟩, w7⟩
            intro x hx
            obtain ⟨⟨c1, c2, c3, c4, c5, c6⟩, c7⟩ := w6 x hx
            exact ⟨c1, c7, c3, c4, c5, c6⟩
          cases res with
          | error e =>
            simp only at h; cases h
            refine ⟨news, hn1, (by intro q hq; cases hq), ?_⟩
            intro hne
            exact ⟨r, n, hc, hg, (facts (Or.inl hne)).1⟩
          | ok q =>
            simp only at h
            obtain ⟨hb, hq⟩ := facts (Or.inr ⟨q, rfl⟩)
            obtain ⟨q1, q2, q3⟩ := hq q rfl
            rw [if_pos q3] at h
            cases h
            refine ⟨news, hn1, ?_, fun _ => ⟨r, n, hc, hg, hb⟩⟩
            intro q' hq'; cases hq'
            exact ⟨r, n, hc, q1, Or.inr ⟨hg, q, q2, rfl, q3⟩⟩

/-! ### what a rule returns -/

theorem finish_queue {t : Tree} {c : Bool} {n m : QName} (h : finish t c n = .queue m) :
    m = n ∧ (c = true ∨ ∃ q, getQueue t n = some q) := by
  unfold finish at h
  split at h
  · cases h
  · rename_i hc
    cases h
    refine ⟨rfl, ?_⟩
    cases c with
    | true => exact Or.inl rfl
    | false =>
      right
      cases hg : getQueue t n with
      | none => simp [hg] at hc
      | some q => exact ⟨q, rfl⟩

theorem underParent_queue {t : Tree} {c : Bool} {parent : RuleRes} {child m : QName}
    (h : underParent t c parent child = .queue m) :
    ∃ pn, parent = .queue pn ∧ m = pn ++ child ∧ (c = true ∨ ∃ q, getQueue t m = some q) := by
  unfold underParent at h
  split at h
  · rename_i pn
    obtain ⟨h1, h2⟩ := finish_queue h
    exact ⟨pn, rfl, h1, by rw [h1]; exact h2⟩
  · rename_i r hr
    cases r <;> simp_all

theorem resolveParent_queue {t : Tree} {res : RuleRes} {m : QName} (h : resolveParent t res = .queue m) :
    ∃ p, res = .queue p ∧ m = (if isQualified p then p else sRoot :: p) := by
  unfold resolveParent at h
  split at h
  · rename_i p
    simp only at h
    split at h
    · split at h
      · cases h
      · cases h; exact ⟨p, rfl, rfl⟩
    · cases h; exact ⟨p, rfl, rfl⟩
  · rename_i r hr
    cases r <;> simp_all

/-- a rule returns the name of a queue that does not exist only with its create flag set; the recovery rule only
    returns the recovery queue, for forced applications -/
theorem runRule_create {rx : Str → Str → Bool} {t : Tree} {a : App} {r : Rule} {n : QName}
    (h : runRule rx t a r = .queue n) (hg : getQueue t n = none) :
    ∃ nd rest, r = nd :: rest ∧ (nd.create = true ∨ (nd.kind = .recovery ∧ a.forced = true ∧ n = recoveryQ)) := by
  cases r with
  | nil => simp [runRule] at h
  | cons nd rest =>
    refine ⟨nd, rest, rfl, ?_⟩
    have fin : ∀ m, finish t nd.create m = .queue n → nd.create = true := by
      intro m hm
      obtain ⟨e, hc⟩ := finish_queue hm
      subst e
      rcases hc with hc | ⟨q, hq⟩
      · exact hc
      · rw [hg] at hq; cases hq
    have und : ∀ par child, underParent t nd.create par child = .queue n → nd.create = true := by
      intro par child hm
      obtain ⟨pn, _, _, hc⟩ := underParent_queue hm
      rcases hc with hc | ⟨q, hq⟩
      · exact hc
      · rw [hg] at hq; cases hq
    unfold runRule at h
    simp only at h
    split at h
    · -- provided
      split at h
      · cases h
      · split at h
        · cases h
        · split at h
          · split at h
            · exact Or.inl (fin _ h)
            · cases h
          · split at h
            · cases h
            · exact Or.inl (und _ _ h)
    · -- user
      split at h
      · cases h
      · split at h
        · cases h
        · exact Or.inl (und _ _ h)
    · -- tag
      split at h
      · cases h
      · split at h
        · cases h
        · split at h
          · split at h
            · exact Or.inl (fin _ h)
            · cases h
          · split at h
            · cases h
            · exact Or.inl (und _ _ h)
    · -- fixed
      split at h
      · cases h
      · split at h
        · exact Or.inl (fin _ h)
        · exact Or.inl (und _ _ h)
    · -- recovery
      rename_i hk
      split at h
      · rename_i hf
        cases h
        exact Or.inr ⟨hk, hf, rfl⟩
      · cases h

theorem valid_sRoot : validQueueName sRoot = true := by decide
theorem valid_sRecovery : validQueueName sRecovery = true := by decide

/-- every part of a name returned by a rule the constructors accept is a valid queue name -/
theorem runRule_valid (rx : Str → Str → Bool) (t : Tree) (a : App) : ∀ (r : Rule) (n : QName),
    Rule.wf r = true → runRule rx t a r = .queue n → n.all validQueueName = true := by
  intro r
  induction r with
  | nil => intro n _ h; simp [runRule] at h
  | cons nd rest ih =>
    intro n hwf h
    simp only [Rule.wf, Bool.and_eq_true] at hwf
    obtain ⟨hnd, hrest⟩ := hwf
    -- the parent part of the name is valid
    have par : ∀ pn, (if rest.isEmpty then RuleRes.queue rootQ else resolveParent t (runRule rx t a rest)) = .queue pn →
        pn.all validQueueName = true := by
      intro pn hp
      split at hp
      · cases hp; simp [rootQ, valid_sRoot]
      · obtain ⟨p, hp1, hp2⟩ := resolveParent_queue hp
        have := ih p hrest hp1
        subst hp2
        split
        · exact this
        · simp [valid_sRoot]; simpa using this
    have und : ∀ child, child.all validQueueName = true →
        underParent t nd.create (if rest.isEmpty then RuleRes.queue rootQ else resolveParent t (runRule rx t a rest)) child = .queue n →
        n.all validQueueName = true := by
      intro child hchild hm
      obtain ⟨pn, h1, h2, _⟩ := underParent_queue hm
      subst h2
      rw [List.all_append, par pn h1, hchild]; rfl
    unfold runRule at h
    simp only at h
    split at h
    · split at h
      · cases h
      · split at h
        · cases h
        · split at h
          · split at h
            · rename_i hv
              obtain ⟨e, _⟩ := finish_queue h
              subst e; exact hv
            · cases h
          · split at h
            · cases h
            · rename_i hv
              exact und _ (by simpa using hv) h
    · split at h
      · cases h
      · split at h
        · cases h
        · rename_i hv
          exact und _ (by simpa using hv) h
    · split at h
      · cases h
      · split at h
        · cases h
        · split at h
          · split at h
            · rename_i hv
              obtain ⟨e, _⟩ := finish_queue h
              subst e; exact hv
            · cases h
          · split at h
            · cases h
            · rename_i hv
              exact und _ (by simpa using hv) h
    · rename_i value hk
      have hval : (splitDot value).all validQueueName = true := by
        simp only [Node.wf, hk, Bool.and_eq_true] at hnd
        exact hnd.1.2
      split at h
      · cases h
      · split at h
        · obtain ⟨e, _⟩ := finish_queue h
          subst e; exact hval
        · exact und _ hval h
    · split at h
      · cases h; simp [recoveryQ, valid_sRoot, valid_sRecovery]
      · cases h

theorem offer_some {rx : Str → Str → Bool} {t : Tree} {a : App} {r : Rule} {last : Bool} {n : QName}
    (h : offer rx t a r last = some n) :
    runRule rx t a r = .queue n ∨ (last = true ∧ n = defaultQ ∧ ∃ q, getQueue t defaultQ = some q) := by
  unfold offer at h
  cases hr : runRule rx t a r with
  | err e => rw [hr] at h; simp at h
  | queue m => rw [hr] at h; simp [yields] at h; subst h; exact Or.inl rfl
  | noMatch =>
    rw [hr] at h
    simp only [yields] at h
    split at h
    · rename_i hc
      cases h
      simp only [Bool.and_eq_true] at hc
      right
      refine ⟨hc.1, rfl, ?_⟩
      cases hg : getQueue t defaultQ with
      | none => rw [hg] at hc; simp at hc
      | some q => exact ⟨q, rfl⟩
    · cases h

/-! ### no panic: every name a rule returns starts with root -/

theorem head_append_of_head {α : Type} {a : α} {l m : List α} (h : l.head? = some a) : (l ++ m).head? = some a := by
  cases l with
  | nil => simp at h
  | cons x xs => simpa using h

theorem splitDot_sRoot : splitDot sRoot = [sRoot] := by decide

/-- every name a rule returns starts with the part `root` -/
theorem runRule_root {rx : Str → Str → Bool} {t : Tree} {a : App} {r : Rule} {n : QName}
    (h : runRule rx t a r = .queue n) : n.head? = some sRoot := by
  cases r with
  | nil => simp [runRule] at h
  | cons nd rest =>
    have und : ∀ child, underParent t nd.create (if rest.isEmpty then RuleRes.queue rootQ else resolveParent t (runRule rx t a rest)) child = .queue n →
        n.head? = some sRoot := by
      intro child hm
      obtain ⟨pn, h1, h2, _⟩ := underParent_queue hm
      subst h2
      apply head_append_of_head
      split at h1
      · cases h1; rfl
      · obtain ⟨p, _, hp2⟩ := resolveParent_queue h1
        subst hp2
        split
        · rename_i hq
          simp [isQualified] at hq
          exact hq.1
        · rfl
    have qual : ∀ m : QName, isQualified m = true → finish t nd.create m = .queue n → n.head? = some sRoot := by
      intro m hq hm
      obtain ⟨e, _⟩ := finish_queue hm
      subst e
      simp [isQualified] at hq
      exact hq.1
    unfold runRule at h
    simp only at h
    split at h
    · split at h
      · cases h
      · split at h
        · cases h
        · split at h
          · rename_i hq
            split at h
            · exact qual _ hq h
            · cases h
          · split at h
            · cases h
            · exact und _ h
    · split at h
      · cases h
      · split at h
        · cases h
        · exact und _ h
    · split at h
      · cases h
      · split at h
        · cases h
        · split at h
          · rename_i hq
            split at h
            · exact qual _ hq h
            · cases h
          · split at h
            · cases h
            · exact und _ h
    · rename_i value hk
      split at h
      · cases h
      · split at h
        · rename_i hpre
          obtain ⟨e, _⟩ := finish_queue h
          subst e
          simp only [fixedQualified, Bool.or_eq_true, decide_eq_true_eq] at hpre
          rcases hpre with hv | hq
          · subst hv; rw [splitDot_sRoot]; rfl
          · simp [isQualified] at hq
            exact hq.1
        · exact und _ h
    · split at h
      · cases h; rfl
      · cases h

theorem walkUpR_root (t : Tree) (root : Queue) (hr : getQueue t [sRoot] = some root) :
    ∀ (r : List Str), r ≠ [] → walkUpR t (r ++ [sRoot]) ≠ none := by
  intro r
  induction r with
  | nil => intro h; exact absurd rfl h
  | cons x rest ih =>
    intro _
    cases rest with
    | nil => simp [walkUpR, hr]
    | cons y r' =>
      have := ih (by simp)
      simp only [List.cons_append] at this ⊢
      unfold walkUpR
      split
      · simp
      · exact this

theorem getQueue_root {t : Tree} {root : Queue} (h : findQ t rootQ = some root) : getQueue t [sRoot] = some root := by
  have : lowerName [sRoot] = rootQ := by decide
  simp only [getQueue, this]
  simpa [rootQ] using h

theorem eligible_walk {t : Tree} {a : App} {n : QName} {root : Queue} (hroot : findQ t rootQ = some root)
    (hn : n.head? = some sRoot) (hg : getQueue t n = none) :
    (match walkUp t n with
      | none => none
      | some q => some (checkSubmit t a.user q.path)) ≠ none := by
  have hgr := getQueue_root hroot
  cases n with
  | nil => simp at hn
  | cons x rest =>
    simp at hn; subst hn
    cases rest with
    | nil => rw [hgr] at hg; cases hg
    | cons y r' =>
      have := walkUpR_root t root hgr (y :: r').reverse (by simp)
      have e : walkUp t (sRoot :: y :: r') = walkUpR t ((y :: r').reverse ++ [sRoot]) := by
        simp [walkUp]
      cases hw : walkUp t (sRoot :: y :: r') with
      | none => rw [e] at hw; exact absurd hw this
      | some q => simp

theorem eligible_ne_none {t : Tree} {a : App} {n : QName} {root : Queue} (hroot : findQ t rootQ = some root)
    (hn : n.head? = some sRoot) : eligible t a n ≠ none := by
  unfold eligible
  split
  · simp
  · split
    · simp
    · split
      · simp
      · cases hg : getQueue t n with
        | some q => simp
        | none =>
         simp only
         exact eligible_walk hroot hn hg

theorem place_no_panic (rx : Str → Str → Bool) (t : Tree) (a : App) (root : Queue) (hroot : findQ t rootQ = some root) :
    ∀ rules : List Rule, place rx t a rules ≠ .panic := by
  intro rules
  induction rules with
  | nil => simp [place]
  | cons r rest ih =>
    have ih' := ih
    unfold place
    cases hr : runRule rx t a r with
    | err e => simp
    | noMatch =>
      simp only
      cases hy : yields t RuleRes.noMatch rest.isEmpty with
      | none => exact ih'
      | some m =>
        simp only
        have hm : m.head? = some sRoot := by
          simp only [yields] at hy
          split at hy
          · cases hy; rfl
          · cases hy
        cases he : eligible t a m with
        | none => exact absurd he (eligible_ne_none hroot hm)
        | some b => cases b <;> simp [ih']
    | queue q =>
      simp only
      have hy : yields t (RuleRes.queue q) rest.isEmpty = some q := rfl
      rw [hy]
      simp only
      cases he : eligible t a q with
      | none => exact absurd he (eligible_ne_none hroot (runRule_root hr))
      | some b => cases b <;> simp [ih']

/-! ### the property theorems (stated in YkProps/C17.lean) -/

theorem accepted_first_rule {rx : Str → Str → Bool} {t : Tree} {rules : List Rule} {a : App} {t' : Tree} {q : QName}
    (h : addApp rx t rules a = (t', .accepted q)) :
    ∃ r n, FirstPassing rx t a rules r n ∧ q = lowerName n := by
  obtain ⟨news, _, h2, _⟩ := addApp_spec h
  obtain ⟨r, n, hc, hq, _⟩ := h2 q rfl
  exact ⟨r, n, choose_first rx t a rules r n hc, hq⟩

theorem accepted_leaf_active {rx : Str → Str → Bool} {t : Tree} {rules : List Rule} {a : App} {t' : Tree} {q : QName}
    (h : addApp rx t rules a = (t', .accepted q)) :
    (∃ x ∈ t', x.path = q ∧ x.leaf = true) ∧
    (∀ x, findQ t q = some x → x.leaf = true ∧ (x.draining = false ∨ (a.forced = true ∧ q = recoveryQ))) := by
  obtain ⟨news, h1, h2, h3⟩ := addApp_spec h
  obtain ⟨r, n, hc, hq, hcase⟩ := h2 q rfl
  obtain ⟨_, _, _, _, _, hel, _⟩ := choose_first rx t a rules r n hc
  rcases hcase with ⟨x, hg, hl, hp, hn⟩ | ⟨hg, x, hx, hp, hl⟩
  · have hf : findQ t q = some x := by rw [hq]; exact (getQueue_some hg).2.2.1
    refine ⟨⟨x, by rw [h1]; exact List.mem_append_left _ (getQueue_some hg).1, hp, hl⟩, ?_⟩
    intro y hy
    rw [hf] at hy; cases hy
    refine ⟨hl, ?_⟩
    unfold eligible at hel
    split at hel
    · rename_i hfr
      simp only [Bool.and_eq_true, decide_eq_true_eq] at hfr
      right
      refine ⟨hfr.2, ?_⟩
      rw [hq, hfr.1]; exact lowerName_recoveryQ
    · split at hel
      · cases hel
      · split at hel
        · cases hel
        · rw [hg] at hel
          simp only [Option.some.injEq, Bool.and_eq_true, Bool.not_eq_true'] at hel
          exact Or.inl hel.2
  · refine ⟨⟨x, by rw [h1]; exact List.mem_append_right _ hx, hp, hl⟩, ?_⟩
    intro y hy
    -- the queue did not exist
    exfalso
    have hne : news ≠ [] := by intro e; rw [e] at hx; cases hx
    obtain ⟨_, n', hc', _, anc, hw, _⟩ := h3 hne
    rw [hc] at hc'; cases hc'
    obtain ⟨_, _, _, _, _, hroot⟩ := walkUp_path hw
    unfold getQueue at hg
    rw [if_pos hroot, ← hq] at hg
    rw [hg] at hy; cases hy

theorem take_take_le {α : Type} (l : List α) (k k' : Nat) (h : k ≤ k') : (l.take k').take k = l.take k := by
  rw [List.take_take]; congr 1; omega

theorem accepted_acl_aux {t : Tree} {a : App} {n q : QName} (hq : q = lowerName n)
    (hel : (match getQueue t n with
      | none =>
        match walkUp t n with
        | none => none
        | some q => some (checkSubmit t a.user q.path)
      | some q => some (q.leaf && checkSubmit t a.user q.path && !q.draining)) = some true) :
    ∃ k, 0 < k ∧ k ≤ q.length ∧ ownAllows t a.user (q.take k) = true := by
  cases hg : getQueue t n with
    | some x =>
      rw [hg] at hel
      simp only [Option.some.injEq, Bool.and_eq_true] at hel
      obtain ⟨k, hk0, hkl, hk⟩ := checkSubmit_path hel.1.2
      have hp : x.path = q := by rw [hq]; exact (getQueue_some hg).2.1
      rw [hp] at hk hkl
      exact ⟨k, hk0, hkl, hk⟩
    | none =>
      rw [hg] at hel
      simp only at hel
      cases hw : walkUp t n with
      | none => rw [hw] at hel; cases hel
      | some anc =>
        rw [hw] at hel
        simp only [Option.some.injEq] at hel
        obtain ⟨k, hk0, hkl, hk⟩ := checkSubmit_path hel
        obtain ⟨k', _, hk'l, hp, _, _⟩ := walkUp_path hw
        have hlen : anc.path.length = k' := by rw [hp, List.length_take, lowerName_length]; omega
        rw [hp, take_take_le _ _ _ (by omega), ← hq] at hk
        refine ⟨k, hk0, ?_, hk⟩
        rw [hq, lowerName_length]; omega

theorem accepted_acl {rx : Str → Str → Bool} {t : Tree} {rules : List Rule} {a : App} {t' : Tree} {q : QName}
    (h : addApp rx t rules a = (t', .accepted q)) (hnf : ¬(a.forced = true ∧ q = recoveryQ)) :
    ∃ k, 0 < k ∧ k ≤ q.length ∧ ownAllows t a.user (q.take k) = true := by
  obtain ⟨news, h1, h2, h3⟩ := addApp_spec h
  obtain ⟨r, n, hc, hq, hcase⟩ := h2 q rfl
  obtain ⟨_, _, _, _, _, hel, _⟩ := choose_first rx t a rules r n hc
  unfold eligible at hel
  split at hel
  · rename_i hfr
    simp only [Bool.and_eq_true, decide_eq_true_eq] at hfr
    exfalso; apply hnf
    refine ⟨hfr.2, ?_⟩
    rw [hq, hfr.1]; exact lowerName_recoveryQ
  · split at hel
    · cases hel
    · split at hel
      · cases hel
      · exact accepted_acl_aux hq hel

theorem created_only_with_create {rx : Str → Str → Bool} {t : Tree} {rules : List Rule} {a : App} {t' : Tree} {out : Outcome}
    (hwf : ∀ r ∈ rules, Rule.wf r = true) (h : addApp rx t rules a = (t', out)) :
    ∃ news, t' = t ++ news ∧
      (news ≠ [] → ∃ nd rest n, FirstPassing rx t a rules (nd :: rest) n ∧ getQueue t n = none ∧
        (nd.create = true ∨ (nd.kind = .recovery ∧ a.forced = true ∧ n = recoveryQ)) ∧
        n.all validQueueName = true ∧ NewBelow t n news) := by
  obtain ⟨news, h1, _, h3⟩ := addApp_spec h
  refine ⟨news, h1, ?_⟩
  intro hne
  obtain ⟨r, n, hc, hg, hb⟩ := h3 hne
  have hfp := choose_first rx t a rules r n hc
  obtain ⟨pre, post, hrs, _, hoff, _, _⟩ := hfp
  have hrun : runRule rx t a r = .queue n := by
    rcases offer_some hoff with hr | ⟨_, hd, q, hq⟩
    · exact hr
    · subst hd; rw [hg] at hq; cases hq
  obtain ⟨nd, rest, hr, hcreate⟩ := runRule_create hrun hg
  have hmem : r ∈ rules := by rw [hrs]; simp
  subst hr
  exact ⟨nd, rest, n, choose_first rx t a rules _ n hc, hg, hcreate, runRule_valid rx t a _ n (hwf _ hmem) hrun, hb⟩

theorem place_rejected_of_noMatch (rx : Str → Str → Bool) (t : Tree) (a : App) (hd : getQueue t defaultQ = none) :
    ∀ rules : List Rule, (∀ r ∈ rules, runRule rx t a r = .noMatch) → place rx t a rules = .rejected := by
  intro rules
  induction rules with
  | nil => intro _; rfl
  | cons r rest ih =>
    intro hall
    unfold place
    rw [hall r (List.mem_cons_self ..)]
    simp [yields, hd]
    exact ih (fun r' hr' => hall r' (List.mem_cons_of_mem _ hr'))

theorem no_rule_rejected {rx : Str → Str → Bool} {t : Tree} {rules : List Rule} {a : App}
    (hd : getQueue t defaultQ = none) (hall : ∀ r ∈ rules, runRule rx t a r = .noMatch) :
    addApp rx t rules a = (t, .rejected .noRule) := by
  unfold addApp
  rw [place_rejected_of_noMatch rx t a hd rules hall]

theorem lowerName_defaultQ_ne : lowerName defaultQ ≠ recoveryQ := by decide

/-- only a forced application can end in the recovery queue -/
theorem recovery_only_forced {rx : Str → Str → Bool} {t : Tree} {rules : List Rule} {a : App} {t' : Tree}
    (h : addApp rx t rules a = (t', .accepted recoveryQ)) : a.forced = true := by
  obtain ⟨r, n, hfp, hq⟩ := accepted_first_rule h
  obtain ⟨_, _, _, _, _, hel, _⟩ := hfp
  have hrec : isRecoveryName n = true := by simp [isRecoveryName, ← hq]
  unfold eligible at hel
  split at hel
  · rename_i hfr
    simp only [Bool.and_eq_true] at hfr
    exact hfr.2
  · split at hel
    · cases hel
    · rename_i hnf
      rw [hrec] at hnf
      cases hf : a.forced with
      | true => rfl
      | false => rw [hf] at hnf; simp at hnf

theorem addApp_no_panic {rx : Str → Str → Bool} {t : Tree} {rules : List Rule} {a : App} {root : Queue}
    (hroot : findQ t rootQ = some root) :
    (addApp rx t rules a).2 ≠ .panic := by
  have hp := place_no_panic rx t a root hroot rules
  unfold addApp
  cases hpl : place rx t a rules with
  | panic => exact absurd hpl hp
  | rejected => simp
  | ruleErr e => simp
  | placed n =>
    simp only
    cases getQueue t n with
    | some x => simp only; split <;> simp
    | none =>
      simp only
      split
      · simp
      · split <;> simp

/-- the filter as the code reads it is the filter as configured: `deny` in any capitalisation denies -/
theorem filter_spec_agree (compiles : Str → Bool) (rx : Str → Str → Bool) (ty : Str) (us gs : List Str) (u : User) :
    (newFilter compiles ty us gs).specAllow rx u = (newFilter compiles ty us gs).allowUser rx u := by
  unfold Filter.specAllow Filter.allowUser
  have ht : (newFilter compiles ty us gs).cfgType = ty := by simp [newFilter]
  have ha : (newFilter compiles ty us gs).allow = decide (lower ty ≠ sDeny) := by simp [newFilter]
  rw [ht, ha]

theorem newFilter_allow (compiles : Str → Bool) (ty : Str) (us gs : List Str) :
    (newFilter compiles ty us gs).allow = decide (lower (newFilter compiles ty us gs).cfgType ≠ sDeny) := by
  simp [newFilter]

theorem acl_check_iff (a : Acl) (u : User) :
    a.check u = true ↔ a.all = true ∨ u.name ∈ a.users ∨ ∃ g ∈ u.groups, g ∈ a.groups := by
  simp [Acl.check, or_assoc]

/-! ### the executable clauses (YkModel/PlaceSpec.lean, evaluated by the driver on the implementation's answers) hold
    for the model's own answer -/

theorem model_clauseR1 {rx : Str → Str → Bool} {t : Tree} {rules : List Rule} {a : App} {t' : Tree} {out : Outcome}
    (h : addApp rx t rules a = (t', out)) : clauseR1 rx t rules a ⟨out, t'⟩ = true := by
  unfold clauseR1
  cases out with
  | accepted q =>
    obtain ⟨_, _, h2, _⟩ := addApp_spec h
    obtain ⟨r, n, hc, hq, _⟩ := h2 q rfl
    simp [hc, hq]
  | rejected r => rfl
  | panic => rfl

theorem model_clauseN1 {rx : Str → Str → Bool} {t : Tree} {rules : List Rule} {a : App} {t' : Tree} {out : Outcome}
    (h : addApp rx t rules a = (t', out)) : clauseN1 rx t rules a ⟨out, t'⟩ = true := by
  unfold clauseN1
  cases hp : place rx t a rules with
  | rejected =>
    unfold addApp at h
    rw [hp] at h
    cases h; simp
  | _ => rfl

theorem model_clauseA1 {rx : Str → Str → Bool} {t : Tree} {rules : List Rule} {a : App} {t' : Tree} {out : Outcome}
    (h : addApp rx t rules a = (t', out)) : clauseA1 t a ⟨out, t'⟩ = true := by
  unfold clauseA1
  cases out with
  | accepted q =>
    simp only
    by_cases hf : a.forced = true ∧ q = recoveryQ
    · simp [hf.1, hf.2]
    · obtain ⟨k, hk0, hkl, hk⟩ := accepted_acl h hf
      simp only [Bool.or_eq_true]
      right
      unfold aclOnPath
      rw [List.any_eq_true]
      exact ⟨k, by simp; omega, by simp [hk0, hk]⟩
  | rejected r => rfl
  | panic => rfl

theorem model_clauseL2 {rx : Str → Str → Bool} {t : Tree} {rules : List Rule} {a : App} {t' : Tree} {out : Outcome}
    (h : addApp rx t rules a = (t', out)) : clauseL2 t a ⟨out, t'⟩ = true := by
  unfold clauseL2
  cases out with
  | accepted q =>
    simp only
    cases hf : findQ t q with
    | none => rfl
    | some x =>
      obtain ⟨hl, hd⟩ := (accepted_leaf_active h).2 x hf
      rcases hd with hd | ⟨h1, h2⟩
      · simp [hl, hd]
      · simp [hl, h1, h2]
  | rejected r => rfl
  | panic => rfl

/-- reading the filter types as configured changes nothing when every `deny` is written in lower case -/
theorem normRules_id (rules : List Rule)
    (h : ∀ r ∈ rules, ∀ nd ∈ r, nd.filter.allow = decide (lower nd.filter.cfgType ≠ sDeny)) : normRules rules = rules := by
  unfold normRules
  conv => rhs; rw [← List.map_id rules]
  apply List.map_congr_left
  intro r hr
  conv => rhs; rw [id, ← List.map_id r]
  apply List.map_congr_left
  intro nd hnd
  rw [← h r hr nd hnd]
  rfl

theorem model_clauseV1 {rx : Str → Str → Bool} {t : Tree} {rules : List Rule} {a : App} {t' : Tree} {out : Outcome}
    (h : addApp rx t rules a = (t', out)) : clauseV1 a ⟨out, t'⟩ = true := by
  unfold clauseV1
  cases out with
  | accepted q =>
    simp only
    by_cases hq : q = recoveryQ
    · subst hq; simp [recovery_only_forced h]
    · simp [hq]
  | rejected r => rfl
  | panic => rfl

theorem model_clauseP1 {rx : Str → Str → Bool} {t : Tree} {rules : List Rule} {a : App} {t' : Tree} {out : Outcome} {root : Queue}
    (hroot : findQ t rootQ = some root) (h : addApp rx t rules a = (t', out)) : clauseP1 ⟨out, t'⟩ = true := by
  have := addApp_no_panic (rx := rx) (rules := rules) (a := a) hroot
  rw [h] at this
  simpa [clauseP1] using this

/-- the effective settings of the queues a call creates are derived from the child template of the deepest queue that
    existed -/
theorem created_settings {rx : Str → Str → Bool} {t : Tree} {rules : List Rule} {a : App} {t' : Tree} {out : Outcome}
    (h : addApp rx t rules a = (t', out)) :
    ∃ news, t' = t ++ news ∧
      (news ≠ [] → ∃ r n anc, FirstPassing rx t a rules r n ∧ walkUp t n = some anc ∧
        ∀ x ∈ news,
          (x.leaf = true → x.tplProps = [] ∧ x.set = dynSettings x.path true anc.tplProps) ∧
          (x.leaf = false → x.tplProps = anc.tplProps ∧ x.set = dynSettings x.path false [])) := by
  obtain ⟨news, h1, _, h3⟩ := addApp_spec h
  refine ⟨news, h1, ?_⟩
  intro hne
  obtain ⟨r, n, hc, _, anc, hw, _, hall⟩ := h3 hne
  refine ⟨r, n, anc, choose_first rx t a rules r n hc, hw, ?_⟩
  intro x hx
  obtain ⟨_, _, _, _, c5, c6⟩ := hall x hx
  exact ⟨fun hl => ⟨(c5 hl).2.2.1, (c5 hl).2.2.2⟩, fun hl => ⟨(c6 hl).2.2.1, (c6 hl).2.2.2⟩⟩

/-! ### the recovery queue path -/

/-- a name that passes the checks without being the forced recovery name: it is not below the recovery queue, and it
    spells the recovery queue only for a forced application -/
theorem eligible_recovery {t : Tree} {a : App} {n : QName} (h : eligible t a n = some true) :
    belowRecovery n = false ∧ (isRecoveryName n = true → a.forced = true) := by
  unfold eligible at h
  split at h
  · rename_i hfr
    simp only [Bool.and_eq_true, decide_eq_true_eq] at hfr
    obtain ⟨h1, h2⟩ := hfr
    subst h1
    exact ⟨by decide, fun _ => h2⟩
  · split at h
    · cases h
    · rename_i hnf
      split at h
      · cases h
      · rename_i hb
        refine ⟨by simpa using hb, ?_⟩
        intro hr
        rw [hr] at hnf
        cases hf : a.forced with
        | true => rfl
        | false => rw [hf] at hnf; simp at hnf

theorem addApp_recovery_news {rx : Str → Str → Bool} {t : Tree} {rules : List Rule} {a : App} {t' : Tree} {out : Outcome}
    {n : QName} (h : addApp rx t rules a = (t', out)) (hp : place rx t a rules = .placed n)
    (hg : getQueue t n = none) (hrec : isRecoveryName n = true) :
    ∃ news, t' = t ++ news ∧ ∀ x ∈ news, x.leaf = true ∧ x.path = recoveryQ := by
  unfold addApp at h
  rw [hp] at h
  simp only [hg, hrec, if_true] at h
  cases hcr : createRecovery t with
  | mk t1 res =>
    rw [hcr] at h
    obtain ⟨news, hn1, hn2⟩ := createRecovery_spec hcr
    have ht : t' = t1 := by
      cases res with
      | error e => simp only at h; cases h; rfl
      | ok q => simp only at h; split at h <;> (cases h; rfl)
    refine ⟨news, by rw [ht, hn1], ?_⟩
    intro x hx
    have hne : news ≠ [] := by intro e; rw [e] at hx; cases hx
    obtain ⟨root, _, hr2, _, hr3, _⟩ := hn2 (Or.inl hne)
    rw [hr3] at hx
    simp at hx; subst hx
    exact ⟨by simp [newRecovery, newDynamic], by simp [newRecovery, newDynamic, hr2, lower_sRecovery, recoveryQ, rootQ]⟩

/-- no call creates a queue at or below the recovery queue path, except the recovery leaf itself for a forced
    application -/
theorem recovery_path_protected {rx : Str → Str → Bool} {t : Tree} {rules : List Rule} {a : App} {t' : Tree} {out : Outcome}
    (h : addApp rx t rules a = (t', out)) :
    ∃ news, t' = t ++ news ∧
      ∀ x ∈ news, recoveryQ <+: x.path → x.path = recoveryQ ∧ x.leaf = true ∧ a.forced = true := by
  obtain ⟨news, h1, _, h3⟩ := addApp_spec h
  refine ⟨news, h1, ?_⟩
  intro x hx hpre
  have hne : news ≠ [] := by intro e; rw [e] at hx; cases hx
  obtain ⟨r, n, hc, hg, anc, _, _, hall⟩ := h3 hne
  obtain ⟨_, hxn, _⟩ := hall x hx
  obtain ⟨_, _, _, _, _, hel, _⟩ := choose_first rx t a rules r n hc
  obtain ⟨hbelow, hforced⟩ := eligible_recovery hel
  have hpn : recoveryQ <+: lowerName n := hpre.trans hxn
  have hlen2 : 2 ≤ n.length := by
    have := hpn.length_le
    rw [lowerName_length] at this
    simpa [recoveryQ] using this
  -- the name has exactly two parts: it spells the recovery queue
  have hlen : n.length = 2 := by
    cases Nat.lt_or_ge n.length 3 with
    | inl hlt => omega
    | inr hge =>
      exfalso
      have : belowRecovery n = true := by
        simp only [belowRecovery, Bool.and_eq_true, decide_eq_true_eq]
        exact ⟨List.isPrefixOf_iff_prefix.mpr hpn, hge⟩
      rw [this] at hbelow; cases hbelow
  have hrn : lowerName n = recoveryQ := by
    have := hpn.eq_of_length (by rw [lowerName_length, hlen]; rfl)
    exact this.symm
  have hrec : isRecoveryName n = true := by simp [isRecoveryName, hrn]
  have hp : place rx t a rules = .placed n := (place_placed_iff rx t a rules n).mpr ⟨r, hc⟩
  obtain ⟨news', h1', hall'⟩ := addApp_recovery_news h hp hg hrec
  have : news' = news := List.append_cancel_left (by rw [← h1', ← h1])
  subst this
  obtain ⟨hl, hpth⟩ := hall' x hx
  exact ⟨hpth, hl, hforced hrec⟩

theorem model_clauseV2 {rx : Str → Str → Bool} {t : Tree} {rules : List Rule} {a : App} {t' : Tree} {out : Outcome}
    (h : addApp rx t rules a = (t', out)) :
    ∀ x ∈ t', x ∉ t → recoveryQ <+: x.path → x.path = recoveryQ ∧ x.leaf = true := by
  obtain ⟨news, h1, hall⟩ := recovery_path_protected h
  intro x hx hnt hpre
  rw [h1] at hx
  rcases List.mem_append.mp hx with hm | hm
  · exact absurd hm hnt
  · exact ⟨(hall x hm hpre).1, (hall x hm hpre).2.1⟩

/-- no application is accepted into a queue below the recovery queue -/
theorem accepted_not_below_recovery {rx : Str → Str → Bool} {t : Tree} {rules : List Rule} {a : App} {t' : Tree} {q : QName}
    (h : addApp rx t rules a = (t', .accepted q)) : ¬(recoveryQ <+: q ∧ 3 ≤ q.length) := by
  obtain ⟨r, n, hfp, hq⟩ := accepted_first_rule h
  obtain ⟨_, _, _, _, _, hel, _⟩ := hfp
  obtain ⟨hb, _⟩ := eligible_recovery hel
  intro ⟨hpre, hlen⟩
  have : belowRecovery n = true := by
    simp only [belowRecovery, Bool.and_eq_true, decide_eq_true_eq]
    refine ⟨List.isPrefixOf_iff_prefix.mpr (by rw [← hq]; exact hpre), ?_⟩
    rw [hq, lowerName_length] at hlen; exact hlen
  rw [this] at hb; cases hb

/-! ### filter lists without a usable entry -/

/-- a configured list (users or groups) none of whose entries newFilter can use: it is not empty, no entry is a valid
    name, and a single entry is not a regular expression either -/
def NoUsable (valid : Str → Bool) (l : List Str) : Prop :=
  l ≠ [] ∧ (∀ x ∈ l, valid x = false) ∧ (∀ x, l = [x] → hasSpecial x = false)

theorem filterList_nil (valid compiles : Str → Bool) : filterList valid compiles [] = ([], none, true) := rfl

/-- such a list keeps no name and no expression, and still clears `empty` -/
theorem filterList_noUsable {valid compiles : Str → Bool} {l : List Str} (h : NoUsable valid l) :
    filterList valid compiles l = ([], none, false) := by
  obtain ⟨hne, hall, hsp⟩ := h
  match l, hne, hall, hsp with
  | [u], _, hall, hsp =>
    have h1 := hsp u rfl
    have h2 := hall u (by simp)
    simp [filterList, h1, h2]
  | u1 :: u2 :: rest, _, hall, _ =>
    have : (u1 :: u2 :: rest).filter valid = [] := by
      rw [List.filter_eq_nil_iff]
      intro x hx
      simp [hall x hx]
    simp [filterList, this]

/-- a filter whose configured lists have no usable entry (at least one list is configured) matches nobody: an allow
    filter admits nobody, a deny filter denies nobody -/
theorem filter_noUsable (compiles : Str → Bool) (rx : Str → Str → Bool) (ty : Str) (us gs : List Str) (u : User)
    (hu : us = [] ∨ NoUsable cfgUserValid us) (hg : gs = [] ∨ NoUsable cfgGroupValid gs) (hne : us ≠ [] ∨ gs ≠ []) :
    (newFilter compiles ty us gs).empty = false ∧
    (newFilter compiles ty us gs).allowUser rx u = !(newFilter compiles ty us gs).allow := by
  have hul : (filterList cfgUserValid compiles us).1 = [] ∧ (filterList cfgUserValid compiles us).2.1 = none := by
    rcases hu with e | h
    · subst e; exact ⟨rfl, rfl⟩
    · rw [filterList_noUsable h]; exact ⟨rfl, rfl⟩
  have hgl : (filterList cfgGroupValid compiles gs).1 = [] ∧ (filterList cfgGroupValid compiles gs).2.1 = none := by
    rcases hg with e | h
    · subst e; exact ⟨rfl, rfl⟩
    · rw [filterList_noUsable h]; exact ⟨rfl, rfl⟩
  have hempty : ((filterList cfgUserValid compiles us).2.2 && (filterList cfgGroupValid compiles gs).2.2) = false := by
    rcases hne with h | h
    · rcases hu with e | h'
      · exact absurd e h
      · rw [filterList_noUsable h']; rfl
    · rcases hg with e | h'
      · exact absurd e h
      · rw [filterList_noUsable h']; simp
  have he : (newFilter compiles ty us gs).empty = false := by simp only [newFilter]; exact hempty
  refine ⟨he, ?_⟩
  have hfu : (newFilter compiles ty us gs).filterUser rx u.name = false := by
    simp [Filter.filterUser, newFilter, hul.1, hul.2]
  have hfg : ∀ g, (newFilter compiles ty us gs).filterGroup rx g = false := by
    intro g; simp [Filter.filterGroup, newFilter, hgl.1, hgl.2]
  have hany : u.groups.any ((newFilter compiles ty us gs).filterGroup rx) = false := by
    rw [List.any_eq_false]; intro g _; simp [hfg g]
  unfold Filter.allowUser
  rw [he, hfu, hany]
  simp

end Yk.Place
