/-
  Non-vacuity of `books_reachable`: a concrete history from the empty partition — a node registers, a gang application is
  added, asks for a placeholder (cpu 4) which is bound, asks for the real allocation (cpu 2), the scheduler starts the swap
  on the same node, the shim confirms it, the real allocation is released, the node is removed — meets every side
  condition (`RunOK`), and the states it passes through are not trivial.
-/
import YkProofs.Core2Run
import YkProofs.Core2Check
namespace Yk.Example
open Yk Yk.Res Yk.Core

def exRoot : CQueue :=
  { path := "root", parent := none, leaf := false, managed := true, max := none, guaranteed := none, allocated := [],
    pending := [], preempting := [], maxApps := 0, running := 0, allocating := [], apps := [], reserved := [] }
def exLeaf : CQueue := { exRoot with path := "root.a", parent := some "root", leaf := true }
def ex0 : Core :=
  { nodes := [], queues := [exRoot, exLeaf], apps := [], total := [], allocations := 0, phAllocations := 0,
    reservations := 0, foreign := [], users := [], groups := [] }
def exApp : CApp :=
  { id := "app", live := true, queue := "root.a", state := "New", user := "u", pending := [], allocated := [],
    allocatedPh := [], phAsk := [("cpu", 4)], items := [], reservations := [], phData := [], log := [] }

def op1 : Op := .nodeCreate "n1" [("cpu", 10)] true
def op2 : Op := .appAdd (some exApp) []
def op3 : Op := .ask "app" "p1" [("cpu", 4)] true "tg" ""
def op4 : Op := .schedAlloc "app" "p1" "n1"
def op5 : Op := .ask "app" "r1" [("cpu", 2)] false "tg" ""
def op6 : Op := .swapStart "app" "r1" "p1" "n1"
def op7 : Op := .swapConfirm "app" "p1"
def op8 : Op := .release .stopped "app" "r1"
def op9 : Op := .nodeRemove "n1" []

def s1 := op1.apply ex0
def s2 := op2.apply s1
def s3 := op3.apply s2
def s4 := op4.apply s3
def s5 := op5.apply s4
def s6 := op6.apply s5
def s7 := op7.apply s6
def s8 := op8.apply s7
def s9 := op9.apply s8

def exOps : List Op := [op1, op2, op3, op4, op5, op6, op7, op8, op9]

theorem wf_ex0 : CoreWF ex0 := by
  refine CoreWF.of_parts List.Pairwise.nil List.Pairwise.nil (fun a ha => by cases ha) ?_ (fun n hn => by cases hn)
  intro q hq
  have : q.allocated = [] ∧ q.pending = [] := by
    simp only [ex0, List.mem_cons, List.not_mem_nil, or_false] at hq
    rcases hq with rfl | rfl <;> exact ⟨rfl, rfl⟩
  exact ⟨by rw [this.1]; rfl, by rw [this.2]; rfl, by rw [this.2]; intro p hp; cases hp⟩

theorem books_ex0 : Books ex0 := by
  refine ⟨fun a ha => (by cases ha), ?_, fun n hn => (by cases hn)⟩
  intro q hq
  have : q.allocated = [] ∧ q.pending = [] := by
    simp only [ex0, List.mem_cons, List.not_mem_nil, or_false] at hq
    rcases hq with rfl | rfl <;> exact ⟨rfl, rfl⟩
  exact ⟨fun k => by rw [this.1]; rfl, fun k => by rw [this.2]; rfl⟩

theorem getD_single (n : String) (v : Int) (k : String) : Res.getD [(n, v)] k = if k = n then v else 0 := by
  unfold Res.getD
  simp only [List.lookup]
  by_cases h : k = n
  · subst h; simp
  · have : (k == n) = false := by simpa using h
    simp [this, h]

/-- the placeholder / real allocation of the example as the application and the node list them -/
theorem onNode_of (s : Core) (node key : String) (n : CNode) (x : CNodeAlloc) (r : Res) (hn : s.findNode node = some n)
    (hx : x ∈ n.allocs) (hk : x.key = key) (hf : x.foreign = false) (hr : x.res = r) :
    ∃ n, s.findNode node = some n ∧ ∃ x ∈ n.allocs, x.key = key ∧ x.foreign = false ∧ ∀ k, x.res.getD k = r.getD k :=
  ⟨n, hn, x, hx, hk, hf, fun _ => by rw [hr]⟩


/-! ### the history meets every side condition (evaluated by the checkers of YkProofs/Core2Check.lean)

  `decide +kernel`: the kernel evaluates the checker (`under` uses `String.startsWith`, which the elaborator's `decide`
  does not unfold); the proof term is `of_decide_eq_true rfl`, nothing is assumed. -/

theorem exOps_ok : RunOK ex0 exOps := runOKb_sound _ _ (by decide +kernel)

/-- `books_reachable` applies to the example history -/
theorem example_reachable : Books (run ex0 exOps) ∧ CoreWF (run ex0 exOps) :=
  books_reachable ex0 exOps wf_ex0 books_ex0 exOps_ok

theorem run_exOps : run ex0 exOps = s9 := rfl

/-! ### the states on the way are not trivial -/

/-- after the 4th step the node carries the placeholder -/
theorem s4_node : (s4.nodes.map (·.allocated)) = [[("cpu", 4)]] ∧ s4.allocations = 1 := by decide +kernel
theorem s4_queues : (s4.queues.map (·.allocated)) = [[("cpu", 4)], [("cpu", 4)]] := by decide +kernel
/-- the real ask is outstanding in both queues -/
theorem s5_pending : (s5.queues.map (·.pending)) = [[("cpu", 2)], [("cpu", 2)]] := by decide +kernel
/-- after the swap is started placeholder and real allocation are linked, the real one allocated but not bound -/
theorem s6_items : s6.apps.map (fun a => a.items.map (·.key)) = [["p1", "r1"]] ∧
    s6.apps.map (fun a => a.items.map (·.release)) = [[some "r1", some "p1"]] ∧
    s6.apps.map (fun a => a.items.map (·.allocated)) = [[true, true]] ∧
    s6.apps.map (fun a => a.items.map (·.bound)) = [[true, false]] := by decide +kernel
/-- after the confirmed swap node and queues carry the (smaller) real allocation -/
theorem s7_node : (s7.nodes.map (·.allocated)) = [[("cpu", 2)]] := by decide +kernel
theorem s7_queues : (s7.queues.map (·.allocated)) = [[("cpu", 2)], [("cpu", 2)]] := by decide +kernel
theorem s7_counters : s7.allocations = 1 ∧ s7.phAllocations = 0 := by decide +kernel
/-- at the end the node is gone and all queue totals are empty -/
theorem s9_nodes : s9.nodes = [] := by decide +kernel
theorem s9_queues : (s9.queues.map (·.allocated)) = [[], []] ∧ (s9.queues.map (·.pending)) = [[], []] := by
  decide +kernel
theorem s9_total : s9.total = [] ∧ s9.allocations = 0 := by decide +kernel

/-! ### a second history: the node is removed while the swap is in flight (placeholder bound, real allocation parked on
  the same node) — the loop of `nodeRemove` runs the `sameNode` branch of `NodeRmOK` -/

def exOps2 : List Op := [op1, op2, op3, op4, op5, op6, .nodeRemove "n1" []]

theorem exOps2_ok : RunOK ex0 exOps2 := runOKb_sound _ _ (by decide +kernel)

theorem example2_reachable : Books (run ex0 exOps2) ∧ CoreWF (run ex0 exOps2) :=
  books_reachable ex0 exOps2 wf_ex0 books_ex0 exOps2_ok

/-- the placeholder is gone with its node, the real ask is outstanding again -/
theorem ex2_end : (run ex0 exOps2).nodes = [] ∧ ((run ex0 exOps2).queues.map (·.allocated)) = [[], []] ∧
    ((run ex0 exOps2).queues.map (·.pending)) = [[("cpu", 2)], [("cpu", 2)]] := by decide +kernel

end Yk.Example
