/- Manager level accounting: for every history of manager operations under the callers' contract — including
   configuration reloads — the usage a USER tracker holds is the sum of the user's live allocations. -/
import YkProofs.UgmMgr
namespace Yk.Ugm
open Yk Yk.Res Yk.QTree

/-- a change of a tracker tree that keeps the accounting invariant whatever the ledger -/
def Neutral (t t' : Tree) : Prop := ∀ L, Inv t L → Inv t' L

theorem Neutral.refl (t : Tree) : Neutral t t := fun _ h => h
theorem Neutral.trans {a b c : Tree} (h1 : Neutral a b) (h2 : Neutral b c) : Neutral a c := fun L h => h2 L (h1 L h)
theorem neutral_ensurePath (w : List (Path × Limit)) (isUser : Bool) (t : Tree) (q : Path) : Neutral t (ensurePath w isUser t q) :=
  fun _ h => inv_touch h w isUser q
theorem neutral_setLimit (w : List (Path × Limit)) (isUser : Bool) (t : Tree) (q : Path) (mr : ORes) (ma : Nat) (uw ck : Bool) :
    Neutral t (setLimit w isUser t q mr ma uw ck) := fun _ h => inv_setLimit h w isUser q mr ma uw ck
theorem neutral_unlink (t : Tree) (q : Path) : Neutral t (unlink t q) := fun _ h => inv_unlink h q

structure UInv (us : List (String × UT)) (L : List (String × Alloc)) : Prop where
  trees : ∀ u ut, aget us u = some ut → Inv ut.qt (userAllocs L u)
  missing : ∀ u, aget us u = none → userAllocs L u = []
  entries : ∀ e ∈ L, e.2.q.take 1 = rootPath ∧ e.2.app ≠ "" ∧ e.1 ≠ ""

theorem rootPath_mem_prefixes {q : Path} (h : q.take 1 = rootPath) : rootPath ∈ prefixes q := by
  cases q with
  | nil => cases h
  | cons r0 rest =>
    have : [r0] = rootPath := by simpa using h
    rw [← this]
    exact List.mem_cons_self

theorem mem_userAllocs {L : List (String × Alloc)} {u : String} {a : Alloc} : a ∈ userAllocs L u ↔ (u, a) ∈ L := by
  unfold userAllocs
  constructor
  · intro h
    obtain ⟨e, he, hea⟩ := List.mem_map.mp h
    rw [List.mem_filter] at he
    have : e.1 = u := by simpa using he.2
    obtain ⟨e1, e2⟩ := e
    simp only at this hea
    subst this; subst hea; exact he.1
  · intro h
    exact List.mem_map.mpr ⟨(u, a), List.mem_filter.mpr ⟨h, by simp⟩, rfl⟩

/-- a tracker whose root lists no application has no live allocation -/
theorem no_allocs_of_rootless {us : List (String × UT)} {L : List (String × Alloc)} (h : UInv us L) {u : String} {t : Tree}
    (hinv : Inv t (userAllocs L u)) (hroot : ∀ n, aget t rootPath = some n → n.apps = []) : userAllocs L u = [] := by
  cases hl : userAllocs L u with
  | nil => rfl
  | cons a rest =>
    exfalso
    have ha : a ∈ userAllocs L u := by rw [hl]; exact List.mem_cons_self
    have he := h.entries (u, a) (mem_userAllocs.mp ha)
    obtain ⟨n, hn, _, hm⟩ := hinv.live a ha rootPath (rootPath_mem_prefixes he.1)
    rw [hroot n hn] at hm; cases hm

theorem uinv_ensureUser {m : Mgr} {L : List (String × Alloc)} (h : UInv m.users L) (u : String) : UInv (ensureUser m u).users L := by
  refine ⟨?_, ?_, h.entries⟩
  · intro u' ut hut
    rw [aget_ensureUser] at hut
    cases hh : aget m.users u' with
    | some ut0 => rw [hh] at hut; cases hut; exact h.trees u' _ hh
    | none =>
      rw [hh] at hut
      by_cases e : u = u'
      · simp only [e, if_true, Option.some.injEq] at hut; subst hut
        rw [h.missing u' hh]; exact inv_new _ _
      · simp [e] at hut
  · intro u' hn
    rw [aget_ensureUser] at hn
    cases hh : aget m.users u' with
    | some ut0 => rw [hh] at hn; cases hn
    | none => exact h.missing u' hh

theorem uinv_amod {us : List (String × UT)} {L : List (String × Alloc)} (h : UInv us L) (u : String) (f : UT → UT)
    (hf : ∀ ut, aget us u = some ut → Neutral ut.qt (f ut).qt) : UInv (amod us u f) L := by
  refine ⟨?_, ?_, h.entries⟩
  · intro u' ut hut
    rw [aget_amod] at hut
    by_cases e : u = u'
    · subst e
      cases hh : aget us u with
      | none => rw [hh] at hut; simp at hut
      | some ut0 =>
        rw [hh] at hut; simp only [if_true, Option.map_some, Option.some.injEq] at hut; subst hut
        exact hf ut0 hh _ (h.trees u ut0 hh)
    · simp only [e, if_false] at hut; exact h.trees u' ut hut
  · intro u' hn
    rw [aget_amod] at hn
    by_cases e : u = u'
    · subst e
      cases hh : aget us u with
      | none => exact h.missing u hh
      | some ut0 => rw [hh] at hn; simp at hn
    · simp only [e, if_false] at hn; exact h.missing u' hn

theorem uinv_mapUsers {m : Mgr} {L : List (String × Alloc)} (h : UInv m.users L) (f : String → UT → UT)
    (hf : ∀ u ut, aget m.users u = some ut → Neutral ut.qt (f u ut).qt) : UInv (mapUsers m f).users L := by
  refine ⟨?_, ?_, h.entries⟩
  · intro u ut hut
    rw [aget_mapUsers] at hut
    cases hh : aget m.users u with
    | none => rw [hh] at hut; cases hut
    | some ut0 =>
      rw [hh] at hut; simp only [Option.map_some, Option.some.injEq] at hut; subst hut
      exact hf u ut0 hh _ (h.trees u ut0 hh)
  · intro u hn
    rw [aget_mapUsers] at hn
    cases hh : aget m.users u with
    | none => exact h.missing u hh
    | some ut0 => rw [hh] at hn; cases hn

/-- removing a tracker whose (neutrally changed) tree lists no application at the root -/
theorem uinv_adel {us : List (String × UT)} {L : List (String × Alloc)} (h : UInv us L) {u : String} {ut : UT} (hut : aget us u = some ut)
    {t2 : Tree} (hn : Neutral ut.qt t2) (hroot : ∀ n, aget t2 rootPath = some n → n.apps = []) : UInv (adel us u) L := by
  have hempty := no_allocs_of_rootless h (hn _ (h.trees u ut hut)) hroot
  refine ⟨?_, ?_, h.entries⟩
  · intro u' ut' hut'
    rw [aget_adel] at hut'
    by_cases e : u = u'
    · simp [e] at hut'
    · simp only [e, if_false] at hut'; exact h.trees u' ut' hut'
  · intro u' hn'
    rw [aget_adel] at hn'
    by_cases e : u = u'
    · subst e; exact hempty
    · simp only [e, if_false] at hn'; exact h.missing u' hn'

theorem uinv_aset {us : List (String × UT)} {L : List (String × Alloc)} (h : UInv us L) {u : String} {ut : UT} (hut : aget us u = some ut)
    (ut' : UT) (hn : Neutral ut.qt ut'.qt) : UInv (aset us u ut') L := by
  refine ⟨?_, ?_, h.entries⟩
  · intro u' x hx
    rw [aget_aset] at hx
    by_cases e : u = u'
    · subst e; simp only [if_true, Option.some.injEq] at hx; subst hx; exact hn _ (h.trees u ut hut)
    · simp only [e, if_false] at hx; exact h.trees u' x hx
  · intro u' hn'
    rw [aget_aset] at hn'
    by_cases e : u = u'
    · simp [e] at hn'
    · simp only [e, if_false] at hn'; exact h.missing u' hn'

/-! ### manager operations that do not touch the ledger -/

theorem uinv_eGTFA {m : Mgr} {L : List (String × Alloc)} (h : UInv m.users L) (q : Path) (app u : String) (ugs : List String) :
    UInv (ensureGroupTrackerForApp m q app u ugs).users L := by
  unfold ensureGroupTrackerForApp
  split
  · exact h
  · simp only
    have key : ∀ (m1 : Mgr) (v : Option String), m1.users = m.users →
        UInv (updUser m1 u (fun ut => { ut with appGroups := aset ut.appGroups app v })).users L := by
      intro m1 v hu
      unfold updUser; simp only; rw [hu]
      exact uinv_amod h u _ (fun ut _ => Neutral.refl _)
    split
    · exact key _ _ rfl
    · exact key _ _ rfl

theorem uinv_headroomM {m : Mgr} {L : List (String × Alloc)} (h : UInv m.users L) (q : Path) (app u : String) (ugs : List String) :
    UInv (headroomM m q app u ugs).1.users L := by
  have h1 := uinv_ensureUser h u
  have h2 : UInv (updUser (ensureUser m u) u (fun ut => { ut with qt := (headroom (ensureUser m u).userWild true ut.qt q).1 })).users L := by
    unfold updUser; simp only
    exact uinv_amod h1 u _ (fun ut _ => neutral_ensurePath _ _ _ _)
  unfold headroomM
  simp only
  generalize updUser (ensureUser m u) u (fun ut => { ut with qt := (headroom (ensureUser m u).userWild true ut.qt q).1 }) = m2 at h2
  have h3 : UInv (if hasGroupForApp m2 u app then m2 else ensureGroupTrackerForApp m2 q app u ugs).users L := by
    split
    · exact h2
    · exact uinv_eGTFA h2 _ _ _ _
  generalize (if hasGroupForApp m2 u app then m2 else ensureGroupTrackerForApp m2 q app u ugs) = m3 at h3
  split
  · exact h3
  · split
    · exact h3
    · exact h3

theorem uinv_canRunM {m : Mgr} {L : List (String × Alloc)} (h : UInv m.users L) (q : Path) (app u : String) (ugs : List String) :
    UInv (canRunM m q app u ugs).1.users L := by
  have h1 := uinv_ensureUser h u
  have h2 : UInv (updUser (ensureUser m u) u (fun ut => { ut with qt := (canRunApp (ensureUser m u).userWild true ut.qt q app).1 })).users L := by
    unfold updUser; simp only
    exact uinv_amod h1 u _ (fun ut _ => neutral_ensurePath _ _ _ _)
  unfold canRunM
  simp only
  generalize updUser (ensureUser m u) u (fun ut => { ut with qt := (canRunApp (ensureUser m u).userWild true ut.qt q app).1 }) = m2 at h2
  have h3 : UInv (if hasGroupForApp m2 u app then m2 else ensureGroupTrackerForApp m2 q app u ugs).users L := by
    split
    · exact h2
    · exact uinv_eGTFA h2 _ _ _ _
  generalize (if hasGroupForApp m2 u app then m2 else ensureGroupTrackerForApp m2 q app u ugs) = m3 at h3
  split
  · exact h3
  · split
    · exact h3
    · exact h3

/-! ### Manager.UpdateConfig -/

theorem uinv_setUserLimits {m : Mgr} {L : List (String × Alloc)} (h : UInv m.users L) (u : String) (lc : Limit) (p : Path) :
    UInv (setUserLimits m u lc p).users L := by
  unfold setUserLimits updUser; simp only
  exact uinv_amod (uinv_ensureUser h u) u _ (fun ut _ => neutral_setLimit _ _ _ _ _ _ _ _)

theorem users_setGroupLimits (m : Mgr) (g : String) (lc : Limit) (p : Path) : (setGroupLimits m g lc p).users = m.users := by
  unfold setGroupLimits updGroup ensureGroupT; split <;> rfl

theorem uinv_processConfig {m : Mgr} {L : List (String × Alloc)} (h : UInv m.users L) (c : Cfg) :
    UInv (processConfig m c).1.users L := by
  unfold processConfig
  apply foldl_preserves _ (fun s : Mgr × NewCfg => UInv s.1.users L) c _ _ h
  intro s q _ hs
  apply foldl_preserves _ (fun s : Mgr × NewCfg => UInv s.1.users L) _ _ _ hs
  intro s l _ hs
  unfold procEntry
  apply foldl_preserves _ (fun s : Mgr × NewCfg => UInv s.1.users L)
  · intro s g _ hs
    unfold procGroup
    split
    · exact hs
    · show UInv (setGroupLimits s.1 g _ q.1).users L
      rw [users_setGroupLimits]; exact hs
  · apply foldl_preserves _ (fun s : Mgr × NewCfg => UInv s.1.users L) _ _ _ hs
    intro s u _ hs
    unfold procUser
    split
    · exact hs
    · split
      · exact hs
      · exact uinv_setUserLimits hs _ _ _

theorem uinv_resetGroup {m : Mgr} {L : List (String × Alloc)} (h : UInv m.users L) (g : String) (p : Path) :
    UInv (resetGroupEarlierUsage m g p).users L := by
  unfold resetGroupEarlierUsage
  cases hg : aget m.groups g with
  | none => exact h
  | some gt =>
    simp only
    split
    · exact h
    · have hus : UInv ((decreaseDownwards gt.qt p).2.foldl (fun us app =>
          match aget gt.apps app with
          | some u => amod us u (fun ut => { ut with appGroups := adel ut.appGroups app })
          | none => us) m.users) L := by
        apply foldl_preserves _ (fun us => UInv us L) _ _ _ h
        intro us app _ hus
        split
        · exact uinv_amod hus _ _ (fun ut _ => Neutral.refl _)
        · exact hus
      split
      · split <;> exact hus
      · split <;> exact hus

theorem canBeRemoved_root {t : Tree} (h : canBeRemoved t = true) : ∀ n, aget t rootPath = some n → n.apps = [] := by
  intro n hn
  unfold canBeRemoved at h
  rw [hn] at h
  simp only [removable, Bool.and_eq_true, List.isEmpty_iff] at h
  exact h.1.1.1.2

theorem uinv_resetUser {m : Mgr} {L : List (String × Alloc)} (h : UInv m.users L) (u : String) (p : Path) :
    UInv (resetUserEarlierUsage m u p).users L := by
  unfold resetUserEarlierUsage
  cases hu : aget m.users u with
  | none => exact h
  | some ut =>
    simp only
    split
    · exact h
    · have hneutral : Neutral ut.qt
          (if unlinkRequired (setLimit m.userWild true ut.qt p none 0 false false) p = true
           then unlink (setLimit m.userWild true ut.qt p none 0 false false) p
           else setLimit m.userWild true ut.qt p none 0 false false) := by
        split
        · exact Neutral.trans (neutral_setLimit _ _ _ _ _ _ _ _) (neutral_unlink _ _)
        · exact neutral_setLimit _ _ _ _ _ _ _ _
      generalize (if unlinkRequired (setLimit m.userWild true ut.qt p none 0 false false) p = true
           then unlink (setLimit m.userWild true ut.qt p none 0 false false) p
           else setLimit m.userWild true ut.qt p none 0 false false) = t2 at hneutral ⊢
      by_cases hc : canBeRemoved t2 = true
      · rw [if_pos hc]
        exact uinv_adel h hu hneutral (canBeRemoved_root hc)
      · rw [if_neg hc]
        exact uinv_aset h hu { ut with qt := t2 } hneutral

theorem uinv_finishConfig {s : Mgr × NewCfg} {L : List (String × Alloc)} (h : UInv s.1.users L) (gl ul : List (Path × String)) :
    UInv (finishConfig s gl ul).users L := by
  unfold finishConfig
  simp only
  have h2 : UInv (clearEarlierSetLimitsL s.1 gl ul).users L := by
    unfold clearEarlierSetLimitsL
    apply foldl_preserves _ (fun m : Mgr => UInv m.users L) _ (fun m e _ hm => uinv_resetUser hm _ _)
    exact foldl_preserves _ (fun m : Mgr => UInv m.users L) _ (fun m e _ hm => uinv_resetGroup hm _ _) _ h
  generalize clearEarlierSetLimitsL s.1 gl ul = m2 at h2
  have h3 : UInv (clearEarlierSetUserWildCardLimits m2 s.2).users L := by
    unfold clearEarlierSetUserWildCardLimits
    apply foldl_preserves _ (fun m : Mgr => UInv m.users L) _ _ _ h2
    intro m e _ hm
    unfold wildStep
    simp only
    split
    · split
      · apply uinv_mapUsers hm
        intro u ut _
        split
        · exact neutral_setLimit _ _ _ _ _ _ _ _
        · exact Neutral.refl _
      · exact hm
    · split
      · apply uinv_mapUsers hm
        intro u ut _
        split
        · exact neutral_setLimit _ _ _ _ _ _ _ _
        · exact Neutral.refl _
      · exact hm
  generalize clearEarlierSetUserWildCardLimits m2 s.2 = m3 at h3
  have h4 : UInv (applyWildCardUserLimits m3 s.2).users L := by
    unfold applyWildCardUserLimits
    apply foldl_preserves _ (fun m : Mgr => UInv m.users L) _ _ _ h3
    intro m e _ hm
    apply uinv_mapUsers hm
    intro u ut _
    split
    · exact Neutral.refl _
    · exact neutral_setLimit _ _ _ _ _ _ _ _
  exact h4

theorem uinv_updateConfig {m : Mgr} {L : List (String × Alloc)} (h : UInv m.users L) (c : Cfg) : UInv (updateConfig m c).users L := by
  unfold updateConfig
  exact uinv_finishConfig (uinv_processConfig h c) _ _

/-! ### IncreaseTrackedResource / DecreaseTrackedResource -/

theorem userAllocs_append (L : List (String × Alloc)) (u : String) (a : Alloc) (u' : String) :
    userAllocs (L ++ [(u, a)]) u' = if u = u' then userAllocs L u' ++ [a] else userAllocs L u' := by
  unfold userAllocs
  rw [List.filter_append, List.map_append]
  by_cases e : u = u'
  · subst e; simp
  · have : ((u == u') = false) := by simpa using e
    simp [e, List.filter, this]

theorem userAllocs_erase (L : List (String × Alloc)) (u : String) (a : Alloc) (u' : String) :
    userAllocs (L.erase (u, a)) u' = if u = u' then (userAllocs L u').erase a else userAllocs L u' := by
  induction L with
  | nil => unfold userAllocs; split <;> rfl
  | cons e L ih =>
    obtain ⟨e1, e2⟩ := e
    by_cases he : (e1, e2) = (u, a)
    · obtain ⟨h1, h2⟩ := Prod.mk.inj he
      subst h1; subst h2
      rw [List.erase_cons_head]
      by_cases e : e1 = u'
      · subst e; simp [userAllocs, List.filter]
      · have : (e1 == u') = false := by simpa using e
        simp [userAllocs, List.filter, this, e]
    · rw [List.erase_cons_tail (by simpa using he)]
      have hc : ∀ X : List (String × Alloc), userAllocs ((e1, e2) :: X) u' = if e1 = u' then e2 :: userAllocs X u' else userAllocs X u' := by
        intro X
        by_cases e : e1 = u'
        · subst e; simp [userAllocs, List.filter]
        · have : (e1 == u') = false := by simpa using e
          simp [userAllocs, List.filter, this, e]
      rw [hc, hc, ih]
      by_cases e : e1 = u'
      · subst e
        by_cases eu : u = e1
        · subst eu
          have : e2 ≠ a := fun x => he (by rw [x])
          simp only [if_true]
          rw [List.erase_cons_tail (by simpa using this)]
        · simp [eu]
      · simp only [e, if_false]

theorem uinv_increaseM {m : Mgr} {L : List (String × Alloc)} (h : UInv m.users L) (q : Path) (app : String) (r : Res) (u : String)
    (ugs : List String) (hq : q.take 1 = rootPath) (happ : app ≠ "") (hu : u ≠ "") (hr : wf r = true) :
    UInv (increaseM m q app r u ugs).users (L ++ [(u, ⟨app, q, r⟩)]) := by
  have hguard : (q.isEmpty || app == "" || u == "") = false := by
    have h1 : q.isEmpty = false := by cases q with | nil => cases hq | cons a b => rfl
    have h2 : (app == "") = false := by simpa using happ
    have h3 : (u == "") = false := by simpa using hu
    simp [h1, h2, h3]
  unfold increaseM
  rw [hguard]
  simp only [Bool.false_eq_true, if_false]
  have h1 := uinv_ensureUser h u
  have hex : ahas (ensureUser m u).users u = true := by
    rw [ahas_eq, aget_ensureUser]; cases aget m.users u <;> simp
  have h2 : UInv (if hasGroupForApp (ensureUser m u) u app then ensureUser m u
      else ensureGroupTrackerForApp (ensureUser m u) q app u ugs).users L ∧
      ahas (if hasGroupForApp (ensureUser m u) u app then ensureUser m u
      else ensureGroupTrackerForApp (ensureUser m u) q app u ugs).users u = true := by
    split
    · exact ⟨h1, hex⟩
    · refine ⟨uinv_eGTFA h1 _ _ _ _, ?_⟩
      rw [ahas_eq] at hex
      cases hut : aget (ensureUser m u).users u with
      | none => rw [hut] at hex; cases hex
      | some ut =>
        obtain ⟨ut', h', _⟩ := eGTFA_user (ensureUser m u) q app u ugs hut
        rw [ahas_eq, h']; rfl
  generalize (if hasGroupForApp (ensureUser m u) u app then ensureUser m u
      else ensureGroupTrackerForApp (ensureUser m u) q app u ugs) = m2 at h2
  obtain ⟨h2, hex2⟩ := h2
  -- the user's tree takes the increase, the ledger the allocation
  have h3 : UInv (updUser m2 u (fun ut => { ut with qt := increase m2.userWild true ut.qt q app r })).users (L ++ [(u, ⟨app, q, r⟩)]) := by
    refine ⟨?_, ?_, ?_⟩
    · intro u' ut hut
      rw [aget_updUser] at hut
      rw [userAllocs_append]
      by_cases e : u = u'
      · subst e
        cases hh : aget m2.users u with
        | none => rw [hh] at hut; simp at hut
        | some ut0 =>
          rw [hh] at hut; simp only [if_true, Option.map_some, Option.some.injEq] at hut; subst hut
          simp only [if_true]
          exact inv_inc (h2.trees u ut0 hh) m2.userWild true ⟨app, q, r⟩ hr
      · simp only [e, if_false] at hut ⊢; exact h2.trees u' ut hut
    · intro u' hn
      rw [aget_updUser] at hn
      rw [userAllocs_append]
      by_cases e : u = u'
      · subst e
        rw [ahas_eq] at hex2
        cases hh : aget m2.users u with
        | none => rw [hh] at hex2; cases hex2
        | some ut0 => rw [hh] at hn; simp at hn
      · simp only [e, if_false] at hn ⊢; exact h2.missing u' hn
    · intro e he
      rcases List.mem_append.mp he with he | he
      · exact h2.entries e he
      · simp at he; subst he; exact ⟨hq, happ, hu⟩
  generalize updUser m2 u (fun ut => { ut with qt := increase m2.userWild true ut.qt q app r }) = m3 at h3
  split
  · exact h3
  · exact h3

theorem uinv_decreaseM {m : Mgr} {L : List (String × Alloc)} (h : UInv m.users L) (q : Path) (app : String) (r : Res) (u : String)
    (rm : Bool) (hin : (u, (⟨app, q, r⟩ : Alloc)) ∈ L)
    (hrm : rm = true → ∀ b ∈ userAllocs (L.erase (u, ⟨app, q, r⟩)) u, b.app ≠ app) :
    UInv (decreaseM m q app r u rm).users (L.erase (u, ⟨app, q, r⟩)) := by
  obtain ⟨hq, happ, hu⟩ := h.entries _ hin
  simp only at hq happ hu
  have hguard : (q.isEmpty || app == "" || u == "") = false := by
    have h1 : q.isEmpty = false := by cases q with | nil => cases hq | cons a b => rfl
    have h2 : (app == "") = false := by simpa using happ
    have h3 : (u == "") = false := by simpa using hu
    simp [h1, h2, h3]
  have hmem : (⟨app, q, r⟩ : Alloc) ∈ userAllocs L u := mem_userAllocs.mpr hin
  have hentries : ∀ e ∈ L.erase (u, (⟨app, q, r⟩ : Alloc)), e.2.q.take 1 = rootPath ∧ e.2.app ≠ "" ∧ e.1 ≠ "" :=
    fun e he => h.entries e (List.mem_of_mem_erase he)
  unfold decreaseM
  rw [hguard]
  simp only [Bool.false_eq_true, if_false]
  cases hut : aget m.users u with
  | none => rw [h.missing u hut] at hmem; cases hmem
  | some ut =>
    simp only
    have hinv := h.trees u ut hut
    have hdec : Inv (decrease ut.qt q app r rm).1 ((userAllocs L u).erase ⟨app, q, r⟩) :=
      inv_dec hinv ⟨app, q, r⟩ rm hmem (by
        intro hrmv b hb
        have := hrm hrmv b (by rw [userAllocs_erase]; simpa using hb)
        exact this)
    -- the users after the release
    have husers : UInv (if (decrease ut.qt q app r rm).2 = true then ({ m with users := adel m.users u } : Mgr)
        else { m with users := aset m.users u { qt := (decrease ut.qt q app r rm).1,
                                                  appGroups := if rm = true then adel ut.appGroups app else ut.appGroups } }).users
        (L.erase (u, ⟨app, q, r⟩)) := by
      by_cases hd : (decrease ut.qt q app r rm).2 = true
      · rw [if_pos hd]
        -- the root of the user's tree lists nothing any more: no allocation is left
        have hroot : ∀ n, aget (decrease ut.qt q app r rm).1 rootPath = some n → n.apps = [] := by
          intro n hn
          cases q with
          | nil => cases hq
          | cons r0 rest =>
            have hr0 : [r0] = rootPath := by simpa using hq
            simp only [decrease] at hd hn
            obtain ⟨n0, hn0, hna⟩ := decGo_flag _ _ _ _ _ _ hd
            have hpre : ∀ p ∈ walk [r0] rest, ∃ n, aget ut.qt p = some n ∧ n.usage.isSome = true := by
              intro p hp
              obtain ⟨n, hn, hs, _⟩ := hinv.live ⟨app, r0 :: rest, r⟩ hmem p hp
              exact ⟨n, hn, hs⟩
            obtain ⟨_, _, _, iC0, _, _, _⟩ := decGo_spec app r rm (hinv.rwf _ hmem) rest [r0] ut.qt hpre hinv.uwf
            rw [← hr0, iC0 n0 hn0] at hn
            cases hn; exact hna
        have hempty : (userAllocs L u).erase ⟨app, q, r⟩ = [] := by
          cases hl : (userAllocs L u).erase ⟨app, q, r⟩ with
          | nil => rfl
          | cons a rest =>
            exfalso
            have ha : a ∈ (userAllocs L u).erase ⟨app, q, r⟩ := by rw [hl]; exact List.mem_cons_self
            have he := h.entries (u, a) (mem_userAllocs.mp (List.mem_of_mem_erase ha))
            obtain ⟨n, hn, _, hm⟩ := hdec.live a ha rootPath (rootPath_mem_prefixes he.1)
            rw [hroot n hn] at hm; cases hm
        refine ⟨?_, ?_, hentries⟩
        · intro u' ut' hut'
          simp only at hut'
          rw [aget_adel] at hut'
          by_cases e : u = u'
          · simp [e] at hut'
          · simp only [e, if_false] at hut'
            rw [userAllocs_erase]; simp only [e, if_false]; exact h.trees u' ut' hut'
        · intro u' hn'
          simp only at hn'
          rw [aget_adel] at hn'
          rw [userAllocs_erase]
          by_cases e : u = u'
          · subst e; simp only [if_true]; exact hempty
          · simp only [e, if_false] at hn' ⊢; exact h.missing u' hn'
      · rw [if_neg hd]
        refine ⟨?_, ?_, hentries⟩
        · intro u' ut' hut'
          simp only at hut'
          rw [aget_aset] at hut'
          rw [userAllocs_erase]
          by_cases e : u = u'
          · subst e; simp only [if_true, Option.some.injEq] at hut' ⊢; subst hut'; exact hdec
          · simp only [e, if_false] at hut' ⊢; exact h.trees u' ut' hut'
        · intro u' hn'
          simp only at hn'
          rw [aget_aset] at hn'
          by_cases e : u = u'
          · simp [e] at hn'
          · simp only [e, if_false] at hn'
            rw [userAllocs_erase]; simp only [e, if_false]; exact h.missing u' hn'
    generalize (if (decrease ut.qt q app r rm).2 = true then ({ m with users := adel m.users u } : Mgr)
        else { m with users := aset m.users u { qt := (decrease ut.qt q app r rm).1,
                                                  appGroups := if rm = true then adel ut.appGroups app else ut.appGroups } }) = m1 at husers
    split
    · exact husers
    · split
      · exact husers
      · split
        · exact husers
        · exact husers

/-! ### histories -/

theorem uinv_mStep {s : Mgr × List (String × Alloc)} (h : UInv s.1.users s.2) (op : Op) (hok : mOpOk s.2 op) :
    UInv (mStep s op).1.users (mStep s op).2 := by
  cases op with
  | conf c => exact uinv_updateConfig h c
  | headroom q app u ugs => exact uinv_headroomM h q app u ugs
  | canRun q app u ugs => exact uinv_canRunM h q app u ugs
  | inc q app r u ugs => exact uinv_increaseM h q app r u ugs hok.1 hok.2.1 hok.2.2.1 hok.2.2.2
  | dec q app r u rm => exact uinv_decreaseM h q app r u rm hok.1 hok.2

theorem uinv_run : ∀ (ops : List Op) (s : Mgr × List (String × Alloc)), UInv s.1.users s.2 → mHistOk s ops →
    UInv (ops.foldl mStep s).1.users (ops.foldl mStep s).2 := by
  intro ops
  induction ops with
  | nil => intro s h _; exact h
  | cons op ops ih =>
    intro s h hok
    rw [List.foldl_cons]
    exact ih _ (uinv_mStep h op hok.1) hok.2

theorem uinv_empty : UInv ({} : Mgr).users [] :=
  ⟨fun u ut h => (by cases h), fun u _ => rfl, fun e he => (by cases he)⟩

end Yk.Ugm
