/-
  I8 of C03 as an invariant of the stepped model: every allocation an application lists as bound is listed by its
  (registered) node, for that application, non-foreign, with the size the application books (`Linked`).
  With it the node-side conditions of the release operations (`ReleaseOK`, `AppOnNodes`, `SwapOK.rel`) need not be
  assumed step by step: they follow from the invariant.  This file: the definition, how it gives those conditions, and the
  transport lemmas (what `findNode` / `findApp` see after `updNode` / `updApp` / `updQueues`).
-/
import YkProofs.Core2Old
import YkProofs.Core2Swap
import YkProofs.Core2Timer
import YkProofs.Core2App
import YkProofs.Core2NodeRm
namespace Yk
open Res Core

/-- the allocation `i` of application `app` is listed by its node -/
def OnNode (s : Core) (app : String) (i : CItem) : Prop :=
  ∃ n, s.findNode i.node = some n ∧ ∃ x ∈ n.allocs, x.key = i.key ∧ x.app = app ∧ x.foreign = false ∧
    ∀ k, x.res.getD k = i.res.getD k

/-- I8: every allocation a live application lists is on its node -/
def Linked (s : Core) : Prop :=
  ∀ a ∈ s.apps, a.live = true → ∀ i ∈ a.items, i.bound = true → OnNode s a.id i

theorem Linked.releaseOK {s : Core} (h : Linked s) (app key : String) : ReleaseOK s app key := by
  constructor
  intro a i hfind hitem hbd
  obtain ⟨ham, hl, hid⟩ := findApp_some hfind
  obtain ⟨him, hkey⟩ := find_key_some hitem
  obtain ⟨n, hn, x, hx, hxk, _, hxf, hxr⟩ := h a ham hl i him hbd
  exact ⟨n, hn, x, hx, hxk.trans hkey, hxf, hxr⟩

theorem Linked.appOnNodes {s : Core} (h : Linked s) (app : String) : AppOnNodes s app := by
  constructor
  intro a hfind i him hbd
  obtain ⟨ham, hl, _⟩ := findApp_some hfind
  obtain ⟨n, hn, x, hx, hxk, _, hxf, hxr⟩ := h a ham hl i him hbd
  exact ⟨n, hn, x, hx, hxk, hxf, hxr⟩

/-- `Linked` only looks at the applications and the nodes -/
theorem Linked.of_lists {s t : Core} (ha : t.apps = s.apps) (hn : t.nodes = s.nodes) (h : Linked s) : Linked t := by
  intro a ham hl i him hbd
  rw [ha] at ham
  obtain ⟨n, hfn, rest⟩ := h a ham hl i him hbd
  exact ⟨n, by unfold findNode at hfn ⊢; rw [hn]; exact hfn, rest⟩

/-! ### lookups after the update helpers -/

theorem findNode_updNode_ne (s : Core) (id id' : String) (f : CNode → CNode) (hf : ∀ n, (f n).id = n.id) (h : id' ≠ id) :
    (updNode s id f).findNode id' = s.findNode id' := by
  unfold findNode
  show (updNs s.nodes id f).find? _ = _
  induction s.nodes with
  | nil => rfl
  | cons n t ih =>
    simp only [updNs, List.map_cons, List.find?_cons]
    by_cases hd : (n.id == id) = true
    · have hne : (n.id == id') = false := by
        have : n.id = id := by simpa using hd
        rw [this]; simpa using h.symm
      rw [if_pos hd, hf n, hne]
      exact ih
    · rw [if_neg hd]
      cases hm : (n.id == id') with
      | true => rfl
      | false => exact ih

theorem findNode_updNode_eq (s : Core) (id : String) (f : CNode → CNode) (hf : ∀ n, (f n).id = n.id) :
    (updNode s id f).findNode id = (s.findNode id).map f := by
  unfold findNode
  show (updNs s.nodes id f).find? _ = _
  induction s.nodes with
  | nil => rfl
  | cons n t ih =>
    simp only [updNs, List.map_cons, List.find?_cons]
    by_cases hd : (n.id == id) = true
    · rw [if_pos hd, hf n, hd]; rfl
    · have hd' : (n.id == id) = false := by simpa using hd
      rw [if_neg hd, hd']
      exact ih

/-- a node update that keeps the entries of an allocation keeps it "on its node" -/
theorem OnNode.updNode {s : Core} {app : String} {i : CItem} (id : String) (f : CNode → CNode) (hf : ∀ n, (f n).id = n.id)
    (h : OnNode s app i)
    (hkeep : ∀ n, s.findNode i.node = some n → i.node = id → ∀ x ∈ n.allocs, x.key = i.key → x ∈ (f n).allocs) :
    OnNode (Core.updNode s id f) app i := by
  obtain ⟨n, hn, x, hx, hxk, rest⟩ := h
  by_cases hid : i.node = id
  · refine ⟨f n, ?_, x, hkeep n hn hid x hx hxk, hxk, rest⟩
    rw [hid, findNode_updNode_eq s id f hf, ← hid, hn]; rfl
  · exact ⟨n, by rw [findNode_updNode_ne s id i.node f hf hid]; exact hn, x, hx, hxk, rest⟩

theorem findNode_updApp (s : Core) (id id' : String) (f : CApp → CApp) : (updApp s id f).findNode id' = s.findNode id' := rfl
theorem findNode_updQueues (s : Core) (ps : List String) (f : CQueue → CQueue) (id' : String) :
    (updQueues s ps f).findNode id' = s.findNode id' := rfl

theorem OnNode.of_nodes {s t : Core} {app : String} {i : CItem} (hn : t.nodes = s.nodes) (h : OnNode s app i) : OnNode t app i := by
  obtain ⟨n, hfn, rest⟩ := h
  exact ⟨n, by unfold findNode at hfn ⊢; rw [hn]; exact hfn, rest⟩

/-- two live applications that both list a bound allocation with the same key on the same node are the same application
    (node.allocations is a map keyed by the allocation key) -/
theorem linked_same_app {s : Core} (hw : CoreWF s) {a b : CApp} {i j : CItem}
    (hi : OnNode s a.id i) (hj : OnNode s b.id j) (hnode : i.node = j.node) (hkey : i.key = j.key) : a.id = b.id := by
  obtain ⟨n, hn, x, hx, hxk, hxa, _⟩ := hi
  obtain ⟨m, hm, y, hy, hyk, hya, _⟩ := hj
  rw [hnode, hm] at hn
  have hmn : m = n := Option.some.inj hn
  subst hmn
  have : x = y := allocKeys_eq (hw.allocKeys m (findNode_some hm).1) hx hy (by rw [hxk, hyk, hkey])
  rw [← hxa, ← hya, this]

end Yk
