/- Reload, continued: the resets on the manager. -/
import YkProofs.UgmReload2
namespace Yk.Ugm
open Yk Yk.Res Yk.QTree

/-- the tree a reset leaves before the removal test -/
def resetT2 (w : List (Path × Limit)) (b : Bool) (t1 : Tree) (pd : Path) : Tree :=
  if unlinkRequired (setLimit w b t1 pd none 0 false false) pd then unlink (setLimit w b t1 pd none 0 false false) pd
  else setLimit w b t1 pd none 0 false false

theorem resetTree_eq (w : List (Path × Limit)) (b : Bool) (pre : Tree → Tree) (t : Tree) (pd : Path) :
    resetTree w b pre t pd =
      if tracked t pd = true then (if canBeRemoved (resetT2 w b (pre t) pd) = true then none else some (resetT2 w b (pre t) pd))
      else some t := by
  unfold resetTree resetT2
  by_cases h : tracked t pd = true
  · simp [h]
  · have : tracked t pd = false := by simpa using h
    simp [this]

theorem resetUser_eq (m : Mgr) (u : String) (pd : Path) :
    resetUserEarlierUsage m u pd =
      match aget m.users u with
      | none => m
      | some ut =>
        if tracked ut.qt pd = true then
          (if canBeRemoved (resetT2 m.userWild true ut.qt pd) = true then { m with users := adel m.users u }
           else { m with users := aset m.users u { ut with qt := resetT2 m.userWild true ut.qt pd } })
        else m := by
  unfold resetUserEarlierUsage resetT2
  cases aget m.users u with
  | none => rfl
  | some ut =>
    simp only
    by_cases h : tracked ut.qt pd = true
    · simp [h]
    · have : tracked ut.qt pd = false := by simpa using h
      simp [this]

/-- the users after resetGroupEarlierUsage broke the application → group links -/
def unlinkApps (gapps : List (String × String)) (apps : List String) (us : List (String × UT)) : List (String × UT) :=
  apps.foldl (fun us app =>
    match aget gapps app with
    | some u => amod us u (fun ut => { ut with appGroups := adel ut.appGroups app })
    | none => us) us

theorem resetGroup_eq (m : Mgr) (g : String) (pd : Path) :
    resetGroupEarlierUsage m g pd =
      match aget m.groups g with
      | none => m
      | some gt =>
        if tracked gt.qt pd = true then
          (if canBeRemoved (resetT2 [] false (decreaseDownwards gt.qt pd).1 pd) = true
           then { m with users := unlinkApps gt.apps (decreaseDownwards gt.qt pd).2 m.users, groups := adel m.groups g }
           else { m with users := unlinkApps gt.apps (decreaseDownwards gt.qt pd).2 m.users,
                         groups := aset m.groups g { gt with qt := resetT2 [] false (decreaseDownwards gt.qt pd).1 pd } })
        else m := by
  unfold resetGroupEarlierUsage resetT2 unlinkApps
  cases aget m.groups g with
  | none => rfl
  | some gt =>
    simp only
    by_cases h : tracked gt.qt pd = true
    · simp only [h, Bool.not_true, Bool.false_eq_true, if_false, if_true]
      split <;> rfl
    · have : tracked gt.qt pd = false := by simpa using h
      simp [this]

theorem utree_resetUser (m : Mgr) (u : String) (pd : Path) (u' : String) :
    utree (resetUserEarlierUsage m u pd) u' =
      if u = u' then (utree m u').bind (fun t => resetTree m.userWild true id t pd) else utree m u' := by
  rw [resetUser_eq]
  unfold utree
  cases hu : aget m.users u with
  | none =>
    by_cases e : u = u'
    · subst e; simp [hu]
    · simp [e]
  | some ut =>
    simp only
    by_cases e : u = u'
    · subst e
      rw [hu]
      simp only [if_true, Option.map_some, Option.bind_some, resetTree_eq, id]
      by_cases htr : tracked ut.qt pd = true
      · rw [if_pos htr, if_pos htr]
        by_cases hc : canBeRemoved (resetT2 m.userWild true ut.qt pd) = true
        · rw [if_pos hc, if_pos hc]; simp [aget_adel]
        · rw [if_neg hc, if_neg hc]; simp [aget_aset]
      · rw [if_neg htr, if_neg htr, hu]; rfl
    · simp only [e, if_false]
      by_cases htr : tracked ut.qt pd = true
      · rw [if_pos htr]
        by_cases hc : canBeRemoved (resetT2 m.userWild true ut.qt pd) = true
        · rw [if_pos hc]; simp [aget_adel, e]
        · rw [if_neg hc]; simp [aget_aset, e]
      · rw [if_neg htr]

theorem cfg_resetUser (m : Mgr) (u : String) (pd : Path) :
    (resetUserEarlierUsage m u pd).userWild = m.userWild ∧ (resetUserEarlierUsage m u pd).userLimits = m.userLimits ∧
    (resetUserEarlierUsage m u pd).groups = m.groups := by
  rw [resetUser_eq]
  cases aget m.users u with
  | none => exact ⟨rfl, rfl, rfl⟩
  | some ut =>
    simp only
    by_cases htr : tracked ut.qt pd = true
    · rw [if_pos htr]
      by_cases hc : canBeRemoved (resetT2 m.userWild true ut.qt pd) = true
      · rw [if_pos hc]; exact ⟨rfl, rfl, rfl⟩
      · rw [if_neg hc]; exact ⟨rfl, rfl, rfl⟩
    · rw [if_neg htr]; exact ⟨rfl, rfl, rfl⟩

theorem gtree_resetUser (m : Mgr) (u : String) (pd : Path) (g : String) : gtree (resetUserEarlierUsage m u pd) g = gtree m g := by
  unfold gtree; rw [(cfg_resetUser m u pd).2.2]

theorem utree_unlinkApps (gapps : List (String × String)) : ∀ (apps : List String) (us : List (String × UT)) (u : String),
    (aget (unlinkApps gapps apps us) u).map (·.qt) = (aget us u).map (·.qt) := by
  intro apps
  induction apps with
  | nil => intro us u; rfl
  | cons a apps ih =>
    intro us u
    unfold unlinkApps at ih ⊢
    rw [List.foldl_cons, ih]
    cases aget gapps a with
    | none => rfl
    | some ua =>
      simp only
      rw [aget_amod]
      by_cases e : ua = u
      · subst e; cases aget us ua <;> simp
      · simp [e]

theorem gtree_resetGroup (m : Mgr) (g : String) (pd : Path) (g' : String) :
    gtree (resetGroupEarlierUsage m g pd) g' =
      if g = g' then (gtree m g').bind (fun t => resetTree [] false (fun t => (decreaseDownwards t pd).1) t pd) else gtree m g' := by
  rw [resetGroup_eq]
  unfold gtree
  cases hg : aget m.groups g with
  | none =>
    by_cases e : g = g'
    · subst e; simp [hg]
    · simp [e]
  | some gt =>
    simp only
    by_cases e : g = g'
    · subst e
      rw [hg]
      simp only [if_true, Option.map_some, Option.bind_some, resetTree_eq]
      by_cases htr : tracked gt.qt pd = true
      · rw [if_pos htr, if_pos htr]
        by_cases hc : canBeRemoved (resetT2 [] false (decreaseDownwards gt.qt pd).1 pd) = true
        · rw [if_pos hc, if_pos hc]; simp [aget_adel]
        · rw [if_neg hc, if_neg hc]; simp [aget_aset]
      · rw [if_neg htr, if_neg htr, hg]; rfl
    · simp only [e, if_false]
      by_cases htr : tracked gt.qt pd = true
      · rw [if_pos htr]
        by_cases hc : canBeRemoved (resetT2 [] false (decreaseDownwards gt.qt pd).1 pd) = true
        · rw [if_pos hc]; simp [aget_adel, e]
        · rw [if_neg hc]; simp [aget_aset, e]
      · rw [if_neg htr]

theorem utree_resetGroup (m : Mgr) (g : String) (pd : Path) (u : String) : utree (resetGroupEarlierUsage m g pd) u = utree m u := by
  rw [resetGroup_eq]
  unfold utree
  cases hg : aget m.groups g with
  | none => rfl
  | some gt =>
    simp only
    by_cases htr : tracked gt.qt pd = true
    · rw [if_pos htr]
      by_cases hc : canBeRemoved (resetT2 [] false (decreaseDownwards gt.qt pd).1 pd) = true
      · rw [if_pos hc]; exact utree_unlinkApps gt.apps _ m.users u
      · rw [if_neg hc]; exact utree_unlinkApps gt.apps _ m.users u
    · rw [if_neg htr]

theorem cfg_resetGroup (m : Mgr) (g : String) (pd : Path) :
    (resetGroupEarlierUsage m g pd).userWild = m.userWild ∧ (resetGroupEarlierUsage m g pd).userLimits = m.userLimits := by
  rw [resetGroup_eq]
  cases aget m.groups g with
  | none => exact ⟨rfl, rfl⟩
  | some gt =>
    simp only
    by_cases htr : tracked gt.qt pd = true
    · rw [if_pos htr]
      by_cases hc : canBeRemoved (resetT2 [] false (decreaseDownwards gt.qt pd).1 pd) = true
      · rw [if_pos hc]; exact ⟨rfl, rfl⟩
      · rw [if_neg hc]; exact ⟨rfl, rfl⟩
    · rw [if_neg htr]; exact ⟨rfl, rfl⟩

/-! ### hypotheses in usable form -/

theorem nodupB_nodup : ∀ (l : List String), nodupB l = true → l.Nodup := by
  intro l
  induction l with
  | nil => intro _; exact List.nodup_nil
  | cons a l ih =>
    intro h
    simp only [nodupB, Bool.and_eq_true, Bool.not_eq_true'] at h
    rw [List.nodup_cons]
    refine ⟨?_, ih h.2⟩
    intro hm
    have := List.contains_iff_mem.mpr hm
    rw [this] at h; cases h.1

theorem noDropAboveKept_use {old new : List (Path × List (String × Limit))} (h : noDropAboveKept old new = true) :
    ∀ d ∈ dropped old new, ∀ p lc, aget2 new p d.2 = some lc → d.1.isPrefixOf p = false := by
  intro d hd p lc hl
  unfold noDropAboveKept at h
  have h1 := List.all_eq_true.mp h d hd
  unfold aget2 at hl
  cases hn : aget new p with
  | none => rw [hn] at hl; cases hl
  | some us =>
    rw [hn] at hl
    simp only at hl
    have h2 := List.all_eq_true.mp h1 (p, us) (aget_mem hn)
    simp only [Bool.not_eq_true', Bool.and_eq_false_iff] at h2
    rcases h2 with h2 | h2
    · exact h2
    · rw [ahas_eq, hl] at h2; cases h2

/-- the limits in the parsed maps come from proper entries on queues below the root -/
structure PN (n : NewCfg) : Prop where
  ul : ∀ p x lc, aget2 n.userLimits p x = some lc → p.take 1 = rootPath ∧ (lc.maxApps == 0 && isZero lc.maxRes) = false
  gl : ∀ p x lc, aget2 n.groupLimits p x = some lc → p.take 1 = rootPath ∧ (lc.maxApps == 0 && isZero lc.maxRes) = false
  uw : ∀ p lc, aget n.userWild p = some lc → p.take 1 = rootPath

theorem PN_processConfig (m : Mgr) (c : Cfg) (hc : properCfgB c = true) : PN (processConfig m c).2 := by
  unfold processConfig
  have hcq : ∀ q ∈ c, q.1.take 1 = rootPath ∧ ∀ l ∈ q.2, (l.maxApps == 0 && isZero l.maxRes) = false := by
    intro q hq
    unfold properCfgB at hc
    have := List.all_eq_true.mp hc q hq
    simp only [Bool.and_eq_true, beq_iff_eq, List.all_eq_true, Bool.not_eq_true'] at this
    exact ⟨this.1, this.2⟩
  apply foldl_preserves _ (fun s : Mgr × NewCfg => PN s.2) c _ _ ⟨fun p x lc h => (by cases h), fun p x lc h => (by cases h), fun p lc h => (by cases h)⟩
  intro s q hq hs
  apply foldl_preserves _ (fun s : Mgr × NewCfg => PN s.2) _ _ _ hs
  intro s l hl hs
  have hlp := (hcq q hq).2 l hl
  have hqr := (hcq q hq).1
  unfold procEntry
  apply foldl_preserves _ (fun s : Mgr × NewCfg => PN s.2)
  · intro s g _ hs
    unfold procGroup
    split
    · exact hs
    · simp only
      have hfields : ∀ b : Bool,
          (if b = true then ({ s.2 with groupLimits := aset2 s.2.groupLimits q.1 g ⟨l.maxRes, l.maxApps⟩, groupWild := aset s.2.groupWild q.1 ⟨l.maxRes, l.maxApps⟩ } : NewCfg)
            else { s.2 with groupLimits := aset2 s.2.groupLimits q.1 g ⟨l.maxRes, l.maxApps⟩,
                            confGroups := aset s.2.confGroups q.1 ((aget s.2.confGroups q.1).getD [] ++ [g]) }).groupLimits
            = aset2 s.2.groupLimits q.1 g ⟨l.maxRes, l.maxApps⟩ ∧
          (if b = true then ({ s.2 with groupLimits := aset2 s.2.groupLimits q.1 g ⟨l.maxRes, l.maxApps⟩, groupWild := aset s.2.groupWild q.1 ⟨l.maxRes, l.maxApps⟩ } : NewCfg)
            else { s.2 with groupLimits := aset2 s.2.groupLimits q.1 g ⟨l.maxRes, l.maxApps⟩,
                            confGroups := aset s.2.confGroups q.1 ((aget s.2.confGroups q.1).getD [] ++ [g]) }).userLimits
            = s.2.userLimits ∧
          (if b = true then ({ s.2 with groupLimits := aset2 s.2.groupLimits q.1 g ⟨l.maxRes, l.maxApps⟩, groupWild := aset s.2.groupWild q.1 ⟨l.maxRes, l.maxApps⟩ } : NewCfg)
            else { s.2 with groupLimits := aset2 s.2.groupLimits q.1 g ⟨l.maxRes, l.maxApps⟩,
                            confGroups := aset s.2.confGroups q.1 ((aget s.2.confGroups q.1).getD [] ++ [g]) }).userWild
            = s.2.userWild := by
        intro b; cases b <;> exact ⟨rfl, rfl, rfl⟩
      obtain ⟨f1, f2, f3⟩ := hfields (g == "*")
      refine ⟨?_, ?_, ?_⟩
      · intro p x lc h; rw [f2] at h; exact hs.ul p x lc h
      · intro p x lc h
        rw [f1, aget2_aset2] at h
        split at h
        · rename_i hc'; cases h; rw [← hc'.1]; exact ⟨hqr, hlp⟩
        · exact hs.gl p x lc h
      · intro p lc h; rw [f3] at h; exact hs.uw p lc h
  · apply foldl_preserves _ (fun s : Mgr × NewCfg => PN s.2) _ _ _ hs
    intro s u _ hs
    unfold procUser
    split
    · exact hs
    · split
      · refine ⟨hs.ul, hs.gl, ?_⟩
        intro p lc h
        simp only at h
        rw [aget_aset] at h
        split at h
        · rename_i hc'; rw [← hc']; exact hqr
        · exact hs.uw p lc h
      · refine ⟨?_, hs.gl, hs.uw⟩
        intro p x lc h
        simp only at h
        rw [aget2_aset2] at h
        split at h
        · rename_i hc'; cases h; rw [← hc'.1]; exact ⟨hqr, hlp⟩
        · exact hs.ul p x lc h

/-! ### clearEarlierSetLimits on the manager -/

theorem phase2 {m0 : Mgr} {s : Mgr × NewCfg} (h : P1 m0 s) (hpn : PN s.2)
    (h18u : noDropAboveKept m0.userLimits s.2.userLimits = true) (h18g : noDropAboveKept m0.groupLimits s.2.groupLimits = true)
    (h1u : singleDrop m0.userLimits s.2.userLimits = true) (h1g : singleDrop m0.groupLimits s.2.groupLimits = true) :
    (clearEarlierSetLimitsL s.1 (dropped m0.groupLimits s.2.groupLimits) (dropped m0.userLimits s.2.userLimits)).userWild = m0.userWild ∧
    (clearEarlierSetLimitsL s.1 (dropped m0.groupLimits s.2.groupLimits) (dropped m0.userLimits s.2.userLimits)).userLimits = m0.userLimits ∧
    Side2 m0.userWild true m0.userLimits s.2.userLimits
      (utree (clearEarlierSetLimitsL s.1 (dropped m0.groupLimits s.2.groupLimits) (dropped m0.userLimits s.2.userLimits))) [] ∧
    Side2 [] false m0.groupLimits s.2.groupLimits
      (gtree (clearEarlierSetLimitsL s.1 (dropped m0.groupLimits s.2.groupLimits) (dropped m0.userLimits s.2.userLimits))) [] := by
  unfold clearEarlierSetLimitsL
  -- the group resets
  have hg := Side2_fold gtree (fun m e => resetGroupEarlierUsage m e.2 e.1) (fun pd t => (decreaseDownwards t pd).1)
    (fun pd => PreOK_decreaseDownwards pd) (fun _ => True) (fun _ _ _ => trivial)
    (fun m pd x x' _ => gtree_resetGroup m x pd x') (fun x p lc => hpn.gl p x lc)
    (dropped m0.groupLimits s.2.groupLimits) s.1 trivial (Side2_init h.gs) (nodupB_nodup _ h1g) (noDropAboveKept_use h18g)
  have hgu : ∀ (l : List (Path × String)) (m : Mgr), (∀ u, utree (l.foldl (fun m e => resetGroupEarlierUsage m e.2 e.1) m) u = utree m u) ∧
      (l.foldl (fun m e => resetGroupEarlierUsage m e.2 e.1) m).userWild = m.userWild ∧
      (l.foldl (fun m e => resetGroupEarlierUsage m e.2 e.1) m).userLimits = m.userLimits := by
    intro l
    induction l with
    | nil => intro m; exact ⟨fun _ => rfl, rfl, rfl⟩
    | cons e l ih =>
      intro m
      rw [List.foldl_cons]
      obtain ⟨i1, i2, i3⟩ := ih (resetGroupEarlierUsage m e.2 e.1)
      obtain ⟨c1, c2⟩ := cfg_resetGroup m e.2 e.1
      exact ⟨fun u => (i1 u).trans (utree_resetGroup m e.2 e.1 u), i2.trans c1, i3.trans c2⟩
  obtain ⟨gu1, gu2, gu3⟩ := hgu (dropped m0.groupLimits s.2.groupLimits) s.1
  generalize (dropped m0.groupLimits s.2.groupLimits).foldl (fun m e => resetGroupEarlierUsage m e.2 e.1) s.1 = mg at hg gu1 gu2 gu3
  -- the user resets
  have hus : Side m0.userWild true m0.userLimits (utree mg) s.2.userLimits := Side_congr h.us gu1
  have hwg : mg.userWild = m0.userWild := gu2.trans h.w
  have hu := Side2_fold utree (fun m e => resetUserEarlierUsage m e.2 e.1) (fun _ => id)
    (fun _ => PreOK_id) (fun m => m.userWild = m0.userWild) (fun m d hm => (cfg_resetUser m d.2 d.1).1.trans hm)
    (fun m pd x x' hm => by rw [utree_resetUser, hm]) (fun x p lc => hpn.ul p x lc)
    (dropped m0.userLimits s.2.userLimits) mg hwg (Side2_init hus) (nodupB_nodup _ h1u) (noDropAboveKept_use h18u)
  have hug : ∀ (l : List (Path × String)) (m : Mgr), (∀ g, gtree (l.foldl (fun m e => resetUserEarlierUsage m e.2 e.1) m) g = gtree m g) ∧
      (l.foldl (fun m e => resetUserEarlierUsage m e.2 e.1) m).userWild = m.userWild ∧
      (l.foldl (fun m e => resetUserEarlierUsage m e.2 e.1) m).userLimits = m.userLimits := by
    intro l
    induction l with
    | nil => intro m; exact ⟨fun _ => rfl, rfl, rfl⟩
    | cons e l ih =>
      intro m
      rw [List.foldl_cons]
      obtain ⟨i1, i2, i3⟩ := ih (resetUserEarlierUsage m e.2 e.1)
      obtain ⟨c1, c2, _⟩ := cfg_resetUser m e.2 e.1
      exact ⟨fun g => (i1 g).trans (gtree_resetUser m e.2 e.1 g), i2.trans c1, i3.trans c2⟩
  obtain ⟨ug1, ug2, ug3⟩ := hug (dropped m0.userLimits s.2.userLimits) mg
  exact ⟨ug2.trans hwg, ug3.trans (gu3.trans h.ul), hu, Side2_congr hg ug1⟩

end Yk.Ugm
