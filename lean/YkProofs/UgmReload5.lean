/- Reload: the statement.  Under the hypotheses, the limits in force after UpdateConfig are those of the new configuration,
   and the trackers are in step with it again (so the statement chains over further reloads). -/
import YkProofs.UgmReload4
namespace Yk.Ugm
open Yk Yk.Res Yk.QTree

/-! ### the parsed maps: membership gives lookup; they do not depend on the trackers -/

theorem mem_aset' {α β : Type} [DecidableEq α] {l : List (α × β)} {k : α} {v : β} {e : α × β} (h : e ∈ aset l k v) : e ∈ l ∨ e = (k, v) := by
  induction l with
  | nil => simp [aset] at h; exact Or.inr h
  | cons a l ih =>
    obtain ⟨a1, a2⟩ := a
    by_cases hk : a1 = k
    · simp only [aset, hk, if_true, List.mem_cons] at h
      rcases h with h | h
      · exact Or.inr h
      · exact Or.inl (List.mem_cons_of_mem _ h)
    · simp only [aset, hk, if_false, List.mem_cons] at h
      rcases h with h | h
      · exact Or.inl (h ▸ List.mem_cons_self)
      · rcases ih h with h | h
        · exact Or.inl (List.mem_cons_of_mem _ h)
        · exact Or.inr h

/-- every (queue, name) the map mentions anywhere is found by lookup -/
def MemGet (L : List (Path × List (String × Limit))) : Prop :=
  ∀ p us x l, (p, us) ∈ L → (x, l) ∈ us → (aget2 L p x).isSome = true

theorem MemGet_aset2 {L : List (Path × List (String × Limit))} (h : MemGet L) (p : Path) (x : String) (v : Limit) : MemGet (aset2 L p x v) := by
  have hmono : ∀ p' x', (aget2 L p' x').isSome = true → (aget2 (aset2 L p x v) p' x').isSome = true := by
    intro p' x' hs; rw [aget2_aset2]; split
    · rfl
    · exact hs
  intro p' us' x' l' hm hx
  unfold aset2 at hm
  rcases mem_aset' hm with hm | hm
  · exact hmono p' x' (h p' us' x' l' hm hx)
  · obtain ⟨e1, e2⟩ := Prod.mk.inj hm
    subst e1; subst e2
    rcases mem_aset' hx with hx | hx
    · apply hmono
      cases hg : aget L p' with
      | none => rw [hg] at hx; simp at hx
      | some us0 => rw [hg] at hx; exact h p' us0 x' l' (aget_mem hg) hx
    · obtain ⟨e1, e2⟩ := Prod.mk.inj hx
      subst e1; subst e2
      rw [aget2_aset2]; simp

theorem MemGet_processConfig (m : Mgr) (c : Cfg) : MemGet (processConfig m c).2.userLimits ∧ MemGet (processConfig m c).2.groupLimits := by
  unfold processConfig
  apply foldl_preserves _ (fun s : Mgr × NewCfg => MemGet s.2.userLimits ∧ MemGet s.2.groupLimits) c _ _
    ⟨fun p us x l h => (by cases h), fun p us x l h => (by cases h)⟩
  intro s q _ hs
  apply foldl_preserves _ (fun s : Mgr × NewCfg => MemGet s.2.userLimits ∧ MemGet s.2.groupLimits) _ _ _ hs
  intro s l _ hs
  unfold procEntry
  apply foldl_preserves _ (fun s : Mgr × NewCfg => MemGet s.2.userLimits ∧ MemGet s.2.groupLimits)
  · intro s g _ hs
    unfold procGroup
    split
    · exact hs
    · simp only
      split
      · exact ⟨hs.1, MemGet_aset2 hs.2 _ _ _⟩
      · exact ⟨hs.1, MemGet_aset2 hs.2 _ _ _⟩
  · apply foldl_preserves _ (fun s : Mgr × NewCfg => MemGet s.2.userLimits ∧ MemGet s.2.groupLimits) _ _ _ hs
    intro s u _ hs
    unfold procUser
    split
    · exact hs
    · split
      · exact hs
      · exact ⟨MemGet_aset2 hs.1 _ _ _, hs.2⟩

theorem foldl_snd_indep {σ τ α : Type} (f : σ × τ → α → σ × τ) (hf : ∀ s s' a, s.2 = s'.2 → (f s a).2 = (f s' a).2) :
    ∀ (l : List α) (s s' : σ × τ), s.2 = s'.2 → (l.foldl f s).2 = (l.foldl f s').2 := by
  intro l
  induction l with
  | nil => intro s s' h; exact h
  | cons a l ih => intro s s' h; rw [List.foldl_cons, List.foldl_cons]; exact ih _ _ (hf s s' a h)

theorem procUser_snd (p : Path) (lc : Limit) (s s' : Mgr × NewCfg) (u : String) (h : s.2 = s'.2) :
    (procUser p lc s u).2 = (procUser p lc s' u).2 := by
  unfold procUser
  split
  · exact h
  · split
    · simp only [h]
    · simp only [h]

theorem procGroup_snd (p : Path) (lc : Limit) (s s' : Mgr × NewCfg) (g : String) (h : s.2 = s'.2) :
    (procGroup p lc s g).2 = (procGroup p lc s' g).2 := by
  unfold procGroup
  split
  · exact h
  · simp only [h]

theorem processConfig_snd (m : Mgr) (c : Cfg) : (processConfig m c).2 = parseCfg c := by
  unfold parseCfg processConfig
  refine foldl_snd_indep (fun (s : Mgr × NewCfg) (q : Path × List LimitEntry) => q.2.foldl (procEntry q.1) s) ?_ c
    (m, ({} : NewCfg)) (({} : Mgr), ({} : NewCfg)) rfl
  intro s s' q h
  refine foldl_snd_indep (procEntry q.1) ?_ q.2 s s' h
  intro s s' l h
  unfold procEntry
  refine foldl_snd_indep _ (fun s s' g h => procGroup_snd _ _ s s' g h) _ _ _ ?_
  exact foldl_snd_indep _ (fun s s' u h => procUser_snd _ _ s s' u h) _ _ _ h

/-! ### the limits after the walk -/

theorem wild_true_of_t3w {nd : Node} {lw : Limit} (h : triple nd = t3w lw) : nd.wild = true := by
  simp only [triple, t3w, Prod.mk.injEq] at h; exact h.2.2

theorem user_final {w : List (Path × Limit)} {n : NewCfg} {T : String → Option Tree} {cl : List Path}
    (h : Side4 w n T cl n.userWild) (hcl : ∀ p, ahas w p = true → p ∈ cl) (x : String) (p : Path) :
    (∀ t nd, T x = some t → aget t p = some nd →
      triple nd = match aget2 n.userLimits p x with
                  | some lc => t3 lc
                  | none => (match aget n.userWild p with | some lw => t3w lw | none => dflt)) ∧
    ((aget2 n.userLimits p x).isSome = true → ∃ t nd, T x = some t ∧ aget t p = some nd) := by
  constructor
  · intro t nd hT hn
    cases hN : aget2 n.userLimits p x with
    | some lc =>
      obtain ⟨t', nd', hT', hn', htn, _⟩ := h.s3.exact x p lc hN
      rw [hT] at hT'; cases hT'
      rw [hn] at hn'; cases hn'
      exact htn
    | none =>
      simp only
      cases hW : aget n.userWild p with
      | some lw =>
        obtain ⟨nd', hn', htn⟩ := h.applied x t hT (p, lw) (aget_mem hW) hN
        rw [hn] at hn'; cases hn'
        exact htn
      | none =>
        simp only
        rcases h.s3.allow x t hT p nd hn with h1 | h1 | ⟨lw1, hw1, ht1⟩ | ⟨lw2, hw2, _⟩
        · rw [hN] at h1; cases h1
        · exact h1
        · exfalso
          obtain ⟨nd', hn', hwf⟩ := h.s3.cleared x t hT p (hcl p (by rw [ahas_eq, hw1]; rfl)) hW hN
          rw [hn] at hn'; cases hn'
          rw [wild_true_of_t3w ht1] at hwf; cases hwf
        · rw [hW] at hw2; cases hw2
  · intro hs
    cases hN : aget2 n.userLimits p x with
    | none => rw [hN] at hs; cases hs
    | some lc =>
      obtain ⟨t', nd', hT', hn', _, _⟩ := h.s3.exact x p lc hN
      exact ⟨t', nd', hT', hn'⟩

theorem effLimit_t3 (nd : Node) (lc : Limit) (h : triple nd = t3 lc) : effLimit nd.maxRes nd.maxApps = effLimit lc.maxRes lc.maxApps := by
  simp only [triple, t3, Prod.mk.injEq] at h; rw [h.1, h.2.1]
theorem effLimit_t3w (nd : Node) (lc : Limit) (h : triple nd = t3w lc) : effLimit nd.maxRes nd.maxApps = effLimit lc.maxRes lc.maxApps := by
  simp only [triple, t3w, Prod.mk.injEq] at h; rw [h.1, h.2.1]
theorem effLimit_dflt (nd : Node) (h : triple nd = dflt) : effLimit nd.maxRes nd.maxApps = (none, 0) := by
  simp only [triple, dflt, Prod.mk.injEq] at h; rw [h.1, h.2.1]; rfl

/-- THE RELOAD: the limits in force are those of the new configuration; the trackers are in step with it -/
theorem reload_partial (m0 : Mgr) (c2 : Cfg) (hs : Synced m0) (hc : properCfgB c2 = true)
    (h17 : noWildcardDropBesideNamed m0 (parseCfg c2) = true)
    (h18u : noDropAboveKept m0.userLimits (parseCfg c2).userLimits = true)
    (h18g : noDropAboveKept m0.groupLimits (parseCfg c2).groupLimits = true)
    (h1u : singleDrop m0.userLimits (parseCfg c2).userLimits = true)
    (h1g : singleDrop m0.groupLimits (parseCfg c2).groupLimits = true) :
    (∀ u p, u ≠ "" → u ≠ "*" → inForceUser (updateConfig m0 c2) u p = configuredUser c2 u p) ∧
    (∀ g p, g ≠ "" → inForceGroup (updateConfig m0 c2) g p = configuredGroup c2 g p) ∧
    Synced (updateConfig m0 c2) := by
  have hne : ∀ q ∈ c2, q.1 ≠ [] := by
    intro q hq e
    unfold properCfgB at hc
    have := List.all_eq_true.mp hc q hq
    rw [e] at this; simp [rootPath] at this
  have hsnd := processConfig_snd m0 c2
  have hp1 := P1_processConfig hs c2 hne
  have hpn := PN_processConfig m0 c2 hc
  have hw := W_processConfig_any m0 c2 hne
  have hmg := MemGet_processConfig m0 c2
  have hm1 := fun p u h1 h2 => maps_userLimits_any m0 c2 p u h1 h2
  have hm2 := fun p => maps_userWild_any m0 c2 p
  have hm3 := fun p g h1 => maps_groupLimits_any m0 c2 p g h1
  rw [← hsnd] at h17 h18u h18g h1u h1g
  unfold updateConfig
  simp only
  generalize processConfig m0 c2 = s at *
  rw [hp1.gl, hp1.ul]
  unfold finishConfig
  simp only
  obtain ⟨w2, l2, su2, sg2⟩ := phase2 hp1 hpn h18u h18g h1u h1g
  generalize clearEarlierSetLimitsL s.1 (dropped m0.groupLimits s.2.groupLimits) (dropped m0.userLimits s.2.userLimits) = m2 at w2 l2 su2 sg2 ⊢
  -- phase 3
  have h17' : ∀ e ∈ m2.userWild, (ahas s.2.userWild e.1 || !(ahas m2.userLimits e.1 && ahas s.2.userLimits e.1)) = true := by
    intro e he
    rw [w2] at he; rw [l2]
    unfold noWildcardDropBesideNamed at h17
    exact List.all_eq_true.mp h17 e he
  have h3 := phase3 s.2 m2.userWild m2 [] (by rw [w2]; exact Side3_init su2) (by rw [w2]; exact hs.wne) h17'
  unfold clearEarlierSetUserWildCardLimits
  obtain ⟨w3, _, g3, s3⟩ := h3
  rw [List.append_nil] at s3
  generalize m2.userWild.foldl (wildStep s.2) m2 = m3 at w3 g3 s3 ⊢
  -- phase 4
  have h4 := phase4 s.2 hw.1 s.2.userWild [] m3 ((m2.userWild.map (·.1)).reverse) rfl
    ⟨by rw [w3]; exact s3, fun x t _ e he => (by cases he)⟩ hw.2
  rw [applyWild_eq]
  obtain ⟨w4, g4, s4⟩ := h4
  generalize s.2.userWild.foldl (wildStepFn s.2) m3 = m4 at w4 g4 s4 ⊢
  rw [w3] at s4
  have hcl : ∀ p, ahas m2.userWild p = true → p ∈ (m2.userWild.map (·.1)).reverse := by
    intro p hp
    rw [ahas_eq] at hp
    cases hh : aget m2.userWild p with
    | none => rw [hh] at hp; cases hp
    | some lw => rw [List.mem_reverse]; exact List.mem_map.mpr ⟨(p, lw), aget_mem hh, rfl⟩
  have hgt : ∀ g, gtree (replaceLimitConfigs m4 s.2) g = gtree m2 g := by
    intro g; unfold gtree replaceLimitConfigs; simp only; rw [g4, g3]
  have hut : ∀ u, utree (replaceLimitConfigs m4 s.2) u = utree m4 u := fun _ => rfl
  refine ⟨?_, ?_, ?_⟩
  · -- users
    intro u p h1 h2
    obtain ⟨f1, f2⟩ := user_final s4 hcl u p
    have hbind : (aget (replaceLimitConfigs m4 s.2).users u).bind (fun ut => aget ut.qt p) = (utree m4 u).bind (fun t => aget t p) := by
      unfold utree replaceLimitConfigs; simp only; cases aget m4.users u <;> rfl
    unfold inForceUser configuredUser
    rw [hbind]
    show (match (utree m4 u).bind (fun t => aget t p) with
          | some n => effLimit n.maxRes n.maxApps
          | none => match aget s.2.userWild p with
            | some l => effLimit l.maxRes l.maxApps
            | none => (none, 0)) = _
    have hN := hm1 p u h1 h2
    have hW := hm2 p
    cases hT : utree m4 u with
    | none =>
      simp only [Option.bind_none]
      cases hl : lastUserEntry c2 p u with
      | some l =>
        exfalso
        obtain ⟨t, nd, hT', _⟩ := f2 (by rw [hN, hl]; rfl)
        rw [hT] at hT'; cases hT'
      | none => rw [hW]; cases lastUserEntry c2 p "*" <;> rfl
    | some t =>
      simp only [Option.bind_some]
      cases hn : aget t p with
      | none =>
        simp only
        cases hl : lastUserEntry c2 p u with
        | some l =>
          exfalso
          obtain ⟨t', nd, hT', hn'⟩ := f2 (by rw [hN, hl]; rfl)
          rw [hT] at hT'; cases hT'
          rw [hn] at hn'; cases hn'
        | none => rw [hW]; cases lastUserEntry c2 p "*" <;> rfl
      | some nd =>
        simp only
        have ht := f1 t nd hT hn
        rw [hN, hW] at ht
        cases hl : lastUserEntry c2 p u with
        | some l => rw [hl] at ht; exact effLimit_t3 nd (lcOf l) ht
        | none =>
          rw [hl] at ht
          simp only [Option.map_none] at ht
          cases hl2 : lastUserEntry c2 p "*" with
          | some l => rw [hl2] at ht; exact effLimit_t3w nd (lcOf l) ht
          | none => rw [hl2] at ht; exact effLimit_dflt nd ht
  · -- groups
    intro g p h1
    have hbind : (aget (replaceLimitConfigs m4 s.2).groups g).bind (fun gt => aget gt.qt p) = (gtree m2 g).bind (fun t => aget t p) := by
      rw [← hgt g]; unfold gtree; cases aget (replaceLimitConfigs m4 s.2).groups g <;> rfl
    unfold inForceGroup configuredGroup
    rw [hbind]
    have hN := hm3 p g h1
    cases hT : gtree m2 g with
    | none =>
      simp only [Option.bind_none]
      cases hl : lastGroupEntry c2 p g with
      | some l =>
        exfalso
        obtain ⟨t, nd, hT', _⟩ := sg2.exact g p (lcOf l) (by rw [hN, hl]; rfl)
        rw [hT] at hT'; cases hT'
      | none => rfl
    | some t =>
      simp only [Option.bind_some]
      cases hn : aget t p with
      | none =>
        simp only
        cases hl : lastGroupEntry c2 p g with
        | some l =>
          exfalso
          obtain ⟨t', nd, hT', hn', _⟩ := sg2.exact g p (lcOf l) (by rw [hN, hl]; rfl)
          rw [hT] at hT'; cases hT'
          rw [hn] at hn'; cases hn'
        | none => rfl
      | some nd =>
        simp only
        cases hl : lastGroupEntry c2 p g with
        | some l =>
          obtain ⟨t', nd', hT', hn', htn, _⟩ := sg2.exact g p (lcOf l) (by rw [hN, hl]; rfl)
          rw [hT] at hT'; cases hT'
          rw [hn] at hn'; cases hn'
          exact effLimit_t3 nd (lcOf l) htn
        | none =>
          rcases sg2.allow g t hT p nd hn with h2 | h2 | ⟨lw, hw', _⟩ | ⟨_, hx⟩
          · rw [hN, hl] at h2; cases h2
          · exact effLimit_dflt nd h2
          · cases hw'
          · cases hx
  · -- the trackers are in step with the new configuration
    refine ⟨?_, ?_, hw.2⟩
    · apply Side_congr _ hut
      refine ⟨s4.s3.nd, ?_, fun x p lc hl => (by cases hl), ?_, s4.s3.ne⟩
      · intro x t hT p nd hn
        right
        have ht := (user_final s4 hcl x p).1 t nd hT hn
        cases hN : aget2 s.2.userLimits p x with
        | some lc => rw [hN] at ht; exact Or.inr (Or.inr ⟨lc, hN, ht⟩)
        | none =>
          rw [hN] at ht; simp only at ht
          cases hW : aget s.2.userWild p with
          | some lw => rw [hW] at ht; exact Or.inr (Or.inl ⟨lw, hW, ht⟩)
          | none => rw [hW] at ht; exact Or.inl ht
      · intro x t p hT ⟨us, l, h1, h2⟩ _ p' hp'
        have hsome := hmg.1 p us x l h1 h2
        cases hN : aget2 s.2.userLimits p x with
        | none => rw [hN] at hsome; cases hsome
        | some lc =>
          obtain ⟨t', nd', hT', _, _, hpp⟩ := s4.s3.exact x p lc hN
          rw [hT] at hT'; cases hT'
          exact hpp p' hp'
    · apply Side_congr _ hgt
      refine ⟨sg2.nd, ?_, fun x p lc hl => (by cases hl), ?_, sg2.ne⟩
      · intro x t hT p nd hn
        right
        rcases sg2.allow x t hT p nd hn with h2 | h2 | ⟨lw, hw', _⟩ | ⟨_, hx⟩
        · cases hN : aget2 s.2.groupLimits p x with
          | none => rw [hN] at h2; cases h2
          | some lc =>
            obtain ⟨t', nd', hT', hn', htn, _⟩ := sg2.exact x p lc hN
            rw [hT] at hT'; cases hT'
            rw [hn] at hn'; cases hn'
            exact Or.inr (Or.inr ⟨lc, hN, htn⟩)
        · exact Or.inl h2
        · cases hw'
        · cases hx
      · intro x t p hT ⟨us, l, h1, h2⟩ _ p' hp'
        have hsome := hmg.2 p us x l h1 h2
        cases hN : aget2 s.2.groupLimits p x with
        | none => rw [hN] at hsome; cases hsome
        | some lc =>
          obtain ⟨t', nd', hT', _, _, hpp⟩ := sg2.exact x p lc hN
          rw [hT] at hT'; cases hT'
          exact hpp p' hp'

theorem synced_empty : Synced ({} : Mgr) := by
  have hu : ∀ x, utree ({} : Mgr) x = none := fun _ => rfl
  have hg : ∀ x, gtree ({} : Mgr) x = none := fun _ => rfl
  refine ⟨⟨?_, ?_, ?_, ?_, ?_⟩, ⟨?_, ?_, ?_, ?_, ?_⟩, fun e he => (by cases he)⟩
  · intro x t h; rw [hu] at h; cases h
  · intro x t h; rw [hu] at h; cases h
  · intro x p lc h; cases h
  · intro x t p h; rw [hu] at h; cases h
  · intro x t h; rw [hu] at h; cases h
  · intro x t h; rw [hg] at h; cases h
  · intro x t h; rw [hg] at h; cases h
  · intro x p lc h; cases h
  · intro x t p h; rw [hg] at h; cases h
  · intro x t h; rw [hg] at h; cases h

/-- the first load is the reload of the empty manager: its hypotheses hold trivially -/
theorem synced_first_load (c : Cfg) (hc : properCfgB c = true) : Synced (updateConfig {} c) :=
  (reload_partial {} c synced_empty hc rfl rfl rfl rfl rfl).2.2

end Yk.Ugm
