/-
  `reserve` / `unreserve` keep `Linked` (the bound items and the node entries are untouched).
-/
import YkProofs.Core2LinkA
import YkProofs.Core2ResvB
namespace Yk
open Res Core

theorem resv_linked {s t : Core} (app node : String) (fa : List (String × String) → List (String × String))
    (fn : CNode → List String)
    (ha : t.apps = s.apps.map (fun x => if (x.live && x.id == app) = true then { x with reservations := fa x.reservations } else x))
    (hn : t.nodes = s.nodes.map (fun n => if (n.id == node) = true then { n with reservations := fn n } else n))
    (hl : Linked s) : Linked t := by
  have hga := appIrrel_upd app _ (appIrrel_resv fa)
  have hgn := nodeIrrel_upd node _ (nodeIrrel_resv fn)
  refine LinkA.linked_of_sub' (LinkA.NodesKeep.of_map _ (fun n => (hgn n).1) (fun n x hx => by rw [(hgn n).2.1]; exact hx) hn) ?_ hl
  intro b hbm hbl
  rw [ha] at hbm
  obtain ⟨a, ham, rfl⟩ := List.mem_map.mp hbm
  obtain ⟨h1, h2, _⟩ := hga a
  refine ⟨a, ham, by rw [← h1]; exact hbl, h2.symm, ?_⟩
  intro j hj hjb
  by_cases hd : (a.live && a.id == app) = true
  · rw [if_pos hd] at hj; exact ⟨j, hj, hjb, rfl, rfl, rfl⟩
  · rw [if_neg hd] at hj; exact ⟨j, hj, hjb, rfl, rfl, rfl⟩

theorem linked_reserve {s : Core} (hl : Linked s) (app key node : String) : Linked (s.reserve app key node) := by
  unfold reserve
  split
  · exact hl
  · split
    · exact hl
    · exact resv_linked app node (fun r => r ++ [(key, node)]) (fun n => n.reservations ++ [key]) rfl rfl hl

theorem linked_unreserve {s : Core} (hl : Linked s) (app key node : String) : Linked (s.unreserve app key node) := by
  unfold unreserve
  split
  · exact hl
  · split
    · exact hl
    · exact resv_linked app node (fun r => r.filter (· != (key, node))) (fun n => n.reservations.filter (· != key)) rfl rfl hl

end Yk
