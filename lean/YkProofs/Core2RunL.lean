/-
  Histories with the linkage invariant: `Linked` (C03 clause I8: every allocation an application lists is listed by its
  registered node, for this application, with the size the application books) is preserved by every operation of the
  stepped model.  With it the node-side conditions of the release operations follow from the invariant: the side condition
  of a step shrinks to `Op.ok2` — well-formed requests, new keys in Go maps, the size guard and the parking of a
  replacement, no int64 saturation where a pending total grows.
-/
import YkProofs.Core2Run
import YkProofs.Core2LinkA
import YkProofs.Core2LinkB
import YkProofs.Core2LinkC
import YkProofs.Core2LinkD
import YkProofs.Core2Resv
namespace Yk
open Res Core

/-- the side condition of one step when the state is `Linked`: nothing about where allocations are listed is assumed,
    except that the real half of a cross-node replacement is parked on its node when the swap is confirmed
    (`SwapLinkOK.parked`, `NodeRemoveLinkOK`) -/
def Op.ok2 (s : Core) : Op → Prop
  | .nodeCreate _ cap _ => wf cap = true
  | .nodeUpdate _ cap => wf cap = true
  | .nodeSchedulable _ _ => True
  | .nodeRemove id order => NodeRemoveOK s id order ∧ NodeRemoveLinkOK s id order
  | .foreignAdd key node res => wf res = true ∧ FreshOnNode s node key
  | .foreignRemove _ => True
  | .appAdd _ nq => FreshQueuesOK s nq
  | .appRemove _ => True
  | .ask app key res _ _ _ => AskOK s app key res
  | .schedAlloc _ key node => FreshOnNode s node key
  | .swapStart _ realKey _ node => FreshOnNode s node realKey
  | .swapConfirm app phKey => SwapLinkOK s app phKey
  | .releaseKey _ _ => True
  | .release _ _ _ => True
  | .releaseApp _ _ => True
  | .markReleased _ _ _ => True
  | .phTimeout _ _ => True
  | .stateTimeout _ => True
  | .cleanup => True
  | .reserve _ _ _ => True
  | .unreserve _ _ _ => True

/-- in a linked state the reduced side condition gives the full one -/
theorem ok_of_ok2 (s : Core) (op : Op) (hl : Linked s) (h : op.ok2 s) : op.ok s := by
  cases op with
  | nodeRemove id order => exact h.1
  | appRemove app => exact hl.appOnNodes app
  | swapConfirm app phKey => exact SwapLinkOK.swapOK hl h
  | releaseKey app key => exact hl.releaseOK app key
  | release tt app key => exact hl.releaseOK app key
  | releaseApp tt app => exact hl.appOnNodes app
  | _ => exact h

/-- one step keeps the linkage -/
theorem step_linked (s : Core) (op : Op) (hw : CoreWF s) (hb : Books s) (hl : Linked s) (hok : op.ok2 s) :
    Linked (op.apply s) := by
  cases op with
  | nodeCreate id cap b => exact linked_nodeCreate hw hl id cap b
  | nodeUpdate id cap => exact linked_nodeUpdate hw hl id cap
  | nodeSchedulable id b => exact linked_nodeSchedulable hw hl id b
  | nodeRemove id order => exact linked_nodeRemove s id order hw hb hl hok.1 hok.2
  | foreignAdd key node res => exact linked_foreignAdd hw hl key node res
  | foreignRemove key => exact linked_foreignRemove hw hl key
  | appAdd a nq => exact linked_appAdd hw hl a nq
  | appRemove app => exact linked_appRemove app hw hb hl
  | ask app key res ph tg reqNode => exact linked_ask hw hl app key res ph tg reqNode
  | schedAlloc app key node =>
    show Linked ((s.schedAlloc app key node).getD s)
    cases h : s.schedAlloc app key node with
    | none => exact hl
    | some s' => exact linked_schedAlloc hw hl app key node h
  | swapStart app realKey phKey node =>
    show Linked ((s.swapStart app realKey phKey node).getD s)
    cases h : s.swapStart app realKey phKey node with
    | none => exact hl
    | some s' => exact linked_swapStart s s' app realKey phKey node hw hl h
  | swapConfirm app phKey => exact linked_swapConfirm s app phKey hw hb hl hok
  | releaseKey app key => exact linked_releaseKey hw hl app key
  | release tt app key => exact linked_releaseKeyT s tt app key hw hb hl
  | releaseApp tt app => exact linked_releaseApp tt app hw hb hl
  | markReleased app key p => exact linked_markReleased hw hl app key p
  | phTimeout app ev => exact linked_phTimeout hw hl app ev
  | stateTimeout app => exact linked_stateTimeout hw hl app
  | cleanup => exact linked_cleanup hw hl
  | reserve app key node => exact linked_reserve hl app key node
  | unreserve app key node => exact linked_unreserve hl app key node

/-- every step of the history meets the reduced side condition in the state it is applied to -/
def RunOK2 : Core → List Op → Prop
  | _, [] => True
  | s, op :: t => op.ok2 s ∧ RunOK2 (op.apply s) t

/-- Whole histories from a well-formed, balanced and linked state: the books stay balanced, the state well-formed and
    linked (C03: "an application's totals are the sums of its allocations …, every allocation an application lists is on
    its node"), for every list of operations of the stepped model whose steps meet `Op.ok2`. -/
theorem reachable_linked (s : Core) (ops : List Op) (hw : CoreWF s) (hb : Books s) (hl : Linked s) (hok : RunOK2 s ops) :
    Books (run s ops) ∧ CoreWF (run s ops) ∧ Linked (run s ops) := by
  induction ops generalizing s with
  | nil => exact ⟨hb, hw, hl⟩
  | cons op t ih =>
    obtain ⟨h1, h2⟩ := hok
    obtain ⟨hb', hw'⟩ := step_props s op hw hb (ok_of_ok2 s op hl h1)
    exact ih (op.apply s) hw' hb' (step_linked s op hw hb hl h1) h2

end Yk
