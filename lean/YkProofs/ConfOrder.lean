/-
  C15, map order: `resources.NewResourceFromConf` ranges over a Go map.  The model reads the map as a list of entries;
  here: for a map (unique keys) the result does not depend on the order of the entries — the same error, or resources
  that give the same quantity to every type — and the comparisons the validator makes (FitInMaxUndef, IsZero,
  StrictlyGreaterThanZero) only look at those quantities.
-/
import YkProofs.Conf
namespace Yk.Conf
open Yk Yk.Res

def entryParses (p : String × String) : Prop := ∃ v, parseQ p.2 (p.1 == "vcore") = .ok v

theorem lookup_iff_mem : ∀ {m : SMap}, (m.map Prod.fst).Nodup → ∀ k s, m.lookup k = some s ↔ (k, s) ∈ m
  | [], _, k, s => by simp
  | (k0, s0) :: t, hn, k, s => by
    simp only [List.map_cons, List.nodup_cons] at hn
    rw [List.lookup_cons]
    by_cases h : k = k0
    · subst h
      simp only [beq_self_eq_true, List.mem_cons, Prod.mk.injEq, true_and]
      constructor
      · intro h; injection h with h; exact Or.inl h.symm
      · intro h
        rcases h with h | h
        · rw [h]
        · exact absurd (List.mem_map.mpr ⟨(k, s), h, rfl⟩) hn.1
    · have : (k == k0) = false := by simp [h]
      simp only [this, List.mem_cons, Prod.mk.injEq, h, false_and, false_or]
      exact lookup_iff_mem hn.2 k s

/-- NewResourceFromConf on a map with unique keys: succeeds iff every entry parses, and then every type gets the
    parsed quantity of its entry -/
theorem parseConfL_spec : ∀ (m : SMap) (acc : Res), (m.map Prod.fst).Nodup →
    (match parseConfL m acc with
     | .ok r => (∀ p ∈ m, entryParses p) ∧
         ∀ k, r.get? k = match m.lookup k with
           | some s => (match parseQ s (k == "vcore") with | .ok v => some v | .error _ => none)
           | none => acc.get? k
     | .error e => e = .parse ∧ ∃ p ∈ m, ¬ entryParses p)
  | [], acc, _ => by simp [parseConfL]
  | (k0, s0) :: t, acc, hn => by
    simp only [List.map_cons, List.nodup_cons] at hn
    unfold parseConfL
    cases hp : parseQ s0 (k0 == "vcore") with
    | error e =>
      simp only
      exact ⟨trivial, (k0, s0), List.mem_cons_self, by intro ⟨v, hv⟩; simp only at hv; rw [hp] at hv; cases hv⟩
    | ok v =>
      simp only
      have ih := parseConfL_spec t (acc.set k0 v) hn.2
      cases hr : parseConfL t (acc.set k0 v) with
      | error e =>
        rw [hr] at ih
        obtain ⟨he, p, hp1, hp2⟩ := ih
        exact ⟨he, p, List.mem_cons_of_mem _ hp1, hp2⟩
      | ok r =>
        rw [hr] at ih
        obtain ⟨h1, h2⟩ := ih
        refine ⟨?_, ?_⟩
        · intro p hpm
          cases hpm with
          | head => exact ⟨v, hp⟩
          | tail _ hpm => exact h1 p hpm
        · intro k
          rw [h2 k, List.lookup_cons]
          by_cases hk : k = k0
          · subst hk
            have : t.lookup k = none := by
              cases hl : t.lookup k with
              | none => rfl
              | some s => exact absurd (List.mem_map.mpr ⟨(k, s), (lookup_iff_mem hn.2 k s).mp hl, rfl⟩) hn.1
            simp [this, get?_set, hp]
          · have : (k == k0) = false := by simp [hk]
            simp only [this]
            cases t.lookup k with
            | none => simp [get?_set, hk]
            | some s => rfl

/-- two orders of the same map: the same outcome of NewResourceFromConf -/
theorem parseConf_perm {m m' : SMap} (hp : m.Perm m') (hn : (m.map Prod.fst).Nodup) :
    match parseConf (some m), parseConf (some m') with
    | .ok r, .ok r' => ∀ k, r.get? k = r'.get? k
    | .error e, .error e' => e = e'
    | _, _ => False := by
  have hn' : (m'.map Prod.fst).Nodup := (hp.map Prod.fst).nodup_iff.mp hn
  have s1 := parseConfL_spec m [] hn
  have s2 := parseConfL_spec m' [] hn'
  have hlk : ∀ k, m.lookup k = m'.lookup k := by
    intro k
    cases h1 : m.lookup k with
    | some s => exact ((lookup_iff_mem hn' k s).mpr (hp.mem_iff.mp ((lookup_iff_mem hn k s).mp h1))).symm
    | none =>
      cases h2 : m'.lookup k with
      | none => rfl
      | some s =>
        have := (lookup_iff_mem hn k s).mpr (hp.mem_iff.mpr ((lookup_iff_mem hn' k s).mp h2))
        rw [h1] at this; cases this
  unfold parseConf
  simp only [Option.getD_some]
  cases h1 : parseConfL m [] with
  | ok r =>
    rw [h1] at s1
    cases h2 : parseConfL m' [] with
    | ok r' =>
      rw [h2] at s2
      intro k
      rw [s1.2 k, s2.2 k, hlk k]
    | error e =>
      rw [h2] at s2
      obtain ⟨_, p, hp1, hp2⟩ := s2
      exact hp2 (s1.1 p (hp.mem_iff.mpr hp1))
  | error e =>
    rw [h1] at s1
    cases h2 : parseConfL m' [] with
    | ok r' =>
      rw [h2] at s2
      obtain ⟨_, p, hp1, hp2⟩ := s1
      exact hp2 (s2.1 p (hp.mem_iff.mp hp1))
    | error e' =>
      rw [h2] at s2
      simp only
      rw [s1.1, s2.1]

/-- the comparison the validator makes between resources depends only on the quantities (not on the order of the entries) -/
theorem fitInMaxUndef_ext {p p' c c' : Res} (hc : wf c = true) (hc' : wf c' = true)
    (hp : ∀ k, p.get? k = p'.get? k) (hcc : ∀ k, c.get? k = c'.get? k) :
    fitInMaxUndef (some p) (some c) = fitInMaxUndef (some p') (some c') := by
  have key : ∀ (p p' c c' : Res), wf c' = true → (∀ k, p.get? k = p'.get? k) → (∀ k, c.get? k = c'.get? k) →
      fitInMaxUndef (some p) (some c) = true → fitInMaxUndef (some p') (some c') = true := by
    intro p p' c c' hw hp hcc h
    apply fit_of
    intro t x hm pv hpv
    have hx : c.get? t = some x := by rw [hcc t]; exact get?_of_mem hw hm
    have : oget (some p) t = some pv := by
      simp only [oget, orZero, Option.getD_some] at hpv ⊢; rw [hp t]; exact hpv
    exact fit_spec h hx this
  cases h : fitInMaxUndef (some p) (some c) with
  | true => exact (key p p' c c' hc' hp hcc h).symm
  | false =>
    cases h' : fitInMaxUndef (some p') (some c') with
    | false => rfl
    | true =>
      have := key p' p c' c hc (fun k => (hp k).symm) (fun k => (hcc k).symm) h'
      rw [h] at this; cases this

end Yk.Conf
