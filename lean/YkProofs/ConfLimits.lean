/-
  C15, user and group limits against the limits of the ancestors (checkLimitResource / checkLimitMaxApplications).
  One development for the generic loop `checkLim` of YkModel/Conf.lean, instantiated for resources and application counts.
-/
import YkProofs.Conf
namespace Yk.Conf
open Yk Yk.Res

theorem lookup_aset {α : Type} (m : LMap α) (k : String) (v : α) (k' : String) :
    (aset m k v).lookup k' = if k' = k then some v else m.lookup k' := by
  induction m with
  | nil =>
    simp only [aset, List.lookup_cons, List.lookup_nil]
    by_cases h : k' = k
    · subst h; simp
    · have : (k' == k) = false := by simp [h]
      simp [this, h]
  | cons p t ih =>
    obtain ⟨a, b⟩ := p
    unfold aset
    by_cases hak : a = k
    · subst hak
      simp only [beq_self_eq_true, if_true, List.lookup_cons]
      by_cases h : k' = a
      · subst h; simp
      · have : (k' == a) = false := by simp [h]
        simp [this, h]
    · have hf : (a == k) = false := by simp [hak]
      simp only [hf, Bool.false_eq_true, if_false, List.lookup_cons, ih]
      by_cases h : k' = a
      · subst h; simp [hak]
      · have : (k' == a) = false := by simp [h]
        simp [this]

/-- what the proofs need to know about a value domain -/
structure DomOK {α : Type} (D : LimDom α) where
  Good : α → Prop
  /-- `T a b`: the handed-down value `a` is at least as tight as `b` -/
  T : α → α → Prop
  /-- `W l x`: the limit value `l` is within the limit value `x` of an ancestor -/
  W : α → α → Prop
  val_good : ∀ l v, D.val l = .ok v → Good v
  T_refl : ∀ a, Good a → T a a
  T_trans : ∀ a b c, T a b → T b c → T a c
  comb_good : ∀ lim ex, Good lim → Good ex → Good (D.comb lim ex)
  comb_T_ex : ∀ lim ex, Good lim → Good ex → D.check ex lim = true → T (D.comb lim ex) ex
  comb_T_lim : ∀ lim ex, Good lim → Good ex → D.check ex lim = true → T (D.comb lim ex) lim
  check_W : ∀ lim ex x, Good lim → Good ex → Good x → D.check ex lim = true → T ex x → W lim x

section generic
variable {α : Type} (D : LimDom α)

/-- the value written for a name -/
def valFor (par : LMap α) (lim : α) (n : String) : α :=
  match par.lookup n with
  | some ex => D.comb lim ex
  | none => lim

/-- the comparison made for a name -/
def Checked (par : LMap α) (lim : α) (n : String) : Prop :=
  match par.lookup n with
  | some ex => D.check ex lim = true
  | none => n ≠ "*" → ∀ ex, par.lookup "*" = some ex → D.check ex lim = true

theorem limNames_spec (g : Bool) : ∀ (names : List String) (lim : α) (par cur cur' : LMap α),
    limNames D g names lim par cur = .ok cur' →
    (∀ n ∈ names, Checked D par lim n) ∧
    (∀ n', cur'.lookup n' = if n' ∈ names then some (valFor D par lim n') else cur.lookup n')
  | [], lim, par, cur, cur', h => by
    simp only [limNames] at h
    injection h with h; subst h
    exact ⟨(by intro n hn; cases hn), (by intro n'; simp)⟩
  | name :: t, lim, par, cur, cur', h => by
    unfold limNames at h
    cases hp : par.lookup name with
    | some ex =>
      simp only [hp] at h
      rw [ite_not_err_ok] at h
      obtain ⟨hc, h⟩ := h
      obtain ⟨h1, h2⟩ := limNames_spec g t lim par _ cur' h
      refine ⟨?_, ?_⟩
      · intro n hn
        cases hn with
        | head => simp only [Checked, hp]; exact hc
        | tail _ hn => exact h1 n hn
      · intro n'
        rw [h2 n', lookup_aset]
        by_cases hn : n' = name
        · subst hn; simp [valFor, hp]
        · simp [hn]
    | none =>
      simp only [hp] at h
      cases hw : (if name != "*" then par.lookup "*" else none) with
      | some ex =>
        simp only [hw] at h
        rw [ite_not_err_ok] at h
        obtain ⟨hc, h⟩ := h
        obtain ⟨h1, h2⟩ := limNames_spec g t lim par _ cur' h
        refine ⟨?_, ?_⟩
        · intro n hn
          cases hn with
          | head =>
            simp only [Checked, hp]
            intro hne ex' hex'
            have : (name != "*") = true := by simpa using hne
            rw [if_pos this, hex'] at hw
            injection hw with hw; subst hw; exact hc
          | tail _ hn => exact h1 n hn
        · intro n'
          rw [h2 n', lookup_aset]
          by_cases hn : n' = name
          · subst hn; simp [valFor, hp]
          · simp [hn]
      | none =>
        simp only [hw] at h
        obtain ⟨h1, h2⟩ := limNames_spec g t lim par _ cur' h
        refine ⟨?_, ?_⟩
        · intro n hn
          cases hn with
          | head =>
            simp only [Checked, hp]
            intro hne ex' hex'
            have : (name != "*") = true := by simpa using hne
            rw [if_pos this, hex'] at hw
            cases hw
          | tail _ hn => exact h1 n hn
        · intro n'
          rw [h2 n', lookup_aset]
          by_cases hn : n' = name
          · subst hn; simp [valFor, hp]
          · simp [hn]

/-- relation between a map before and after the loop over the limit entries (one kind of names) -/
def LookupRel (g : Bool) (ls : List Limit) (par cur cur' : LMap α) : Prop :=
  (∀ n', (∀ l ∈ ls, n' ∉ namesOf g l) → cur'.lookup n' = cur.lookup n') ∧
  (∀ l ∈ ls, ∀ n', n' ∈ namesOf g l → (∀ l2 ∈ ls, n' ∈ namesOf g l2 → l2 = l) →
    ∀ vl, D.val l = .ok vl → cur'.lookup n' = some (valFor D par vl n'))

theorem lookupRel_nil (g : Bool) (par cur : LMap α) : LookupRel D g [] par cur cur :=
  ⟨fun _ _ => rfl, fun l hl => by cases hl⟩

theorem lookupRel_cons (g : Bool) (l : Limit) (t : List Limit) (par cur cur1 cur' : LMap α) (vl : α)
    (hv : D.val l = .ok vl)
    (h1 : ∀ n', cur1.lookup n' = if n' ∈ namesOf g l then some (valFor D par vl n') else cur.lookup n')
    (ht : LookupRel D g t par cur1 cur') : LookupRel D g (l :: t) par cur cur' := by
  refine ⟨?_, ?_⟩
  · intro n' hn
    rw [ht.1 n' (fun l2 hl2 => hn l2 (List.mem_cons_of_mem _ hl2)), h1 n', if_neg (hn l List.mem_cons_self)]
  · intro l0 hl0 n' hn0 huniq v0 hv0
    by_cases hex : ∃ l2, l2 ∈ t ∧ n' ∈ namesOf g l2
    · obtain ⟨l2, hl2, hn2⟩ := hex
      have e := huniq l2 (List.mem_cons_of_mem _ hl2) hn2
      subst e
      exact ht.2 l2 hl2 n' hn2 (fun l3 hl3 hn3 => huniq l3 (List.mem_cons_of_mem _ hl3) hn3) v0 hv0
    · have hnone : ∀ l2 ∈ t, n' ∉ namesOf g l2 := fun l2 hl2 hn2 => hex ⟨l2, hl2, hn2⟩
      have e : l0 = l := by
        cases hl0 with
        | head => rfl
        | tail _ hl0 => exact absurd hn0 (hnone l0 hl0)
      subst e
      rw [hv] at hv0; injection hv0 with hv0; subst hv0
      rw [ht.1 n' hnone, h1 n', if_pos hn0]

theorem limLimits_spec : ∀ (ls : List Limit) (pu pg cu cg : LMap α) (r : LMap α × LMap α),
    limLimits D ls pu pg cu cg = .ok r →
    (∀ l ∈ ls, ∃ vl, D.val l = .ok vl ∧ (∀ n ∈ namesOf false l, Checked D pu vl n) ∧ (∀ n ∈ namesOf true l, Checked D pg vl n)) ∧
    LookupRel D false ls pu cu r.1 ∧ LookupRel D true ls pg cg r.2
  | [], pu, pg, cu, cg, r, h => by
    simp only [limLimits] at h
    injection h with h; subst h
    exact ⟨(by intro l hl; cases hl), lookupRel_nil D false pu cu, lookupRel_nil D true pg cg⟩
  | l :: t, pu, pg, cu, cg, r, h => by
    unfold limLimits at h
    simp only [bind_ok] at h
    obtain ⟨vl, hv, cu1, hu, cg1, hg, ht⟩ := h
    obtain ⟨hc, hru, hrg⟩ := limLimits_spec t pu pg cu1 cg1 r ht
    obtain ⟨u1, u2⟩ := limNames_spec D false _ vl pu cu cu1 hu
    obtain ⟨g1, g2⟩ := limNames_spec D true _ vl pg cg cg1 hg
    refine ⟨?_, ?_, ?_⟩
    · intro l0 hl0
      cases hl0 with
      | head => exact ⟨vl, hv, u1, g1⟩
      | tail _ hl0 => exact hc l0 hl0
    · exact lookupRel_cons D false l t pu cu cu1 r.1 vl hv u2 hru
    · exact lookupRel_cons D true l t pg cg cg1 r.2 vl hv g2 hrg

variable (ok : DomOK D)

/-- the inherited map of one kind of names, relative to the ancestors it was computed from -/
structure Inv (g : Bool) (m : LMap α) (anc : List QD) : Prop where
  good : ∀ n ex, m.lookup n = some ex → ok.Good ex ∧ namedAbove g anc n = true
  tight : ∀ a ∈ anc, ∀ n, ∀ x ∈ limitsFor g a n, ∀ vx, D.val x = .ok vx → ∃ ex, m.lookup n = some ex ∧ ok.T ex vx

/-- L3 / L4 for one entry and one kind of names -/
def LimAncOK (g : Bool) (e : Entry) : Prop :=
  ∀ l ∈ e.2.d.limits, ∀ vl, D.val l = .ok vl → ∀ n ∈ namesOf g l,
    (∀ a ∈ e.1, ∀ x ∈ limitsFor g a n, ∀ vx, D.val x = .ok vx → ok.W vl vx) ∧
    (n = "*" ∨ namedAbove g e.1 n = true ∨ ∀ a ∈ e.1, ∀ x ∈ limitsFor g a "*", ∀ vx, D.val x = .ok vx → ok.W vl vx)

theorem mem_limitsFor {g : Bool} {d : QD} {n : String} {x : Limit} :
    x ∈ limitsFor g d n ↔ x ∈ d.limits ∧ n ∈ namesOf g x := by
  unfold limitsFor namesOf
  simp [List.mem_filter]

theorem namedAbove_cons (g : Bool) (d : QD) (anc : List QD) (n : String) :
    namedAbove g (d :: anc) n = (!(limitsFor g d n).isEmpty || namedAbove g anc n) := by
  simp [namedAbove]

theorem inv_nil (g : Bool) : Inv D ok g [] [] :=
  ⟨fun n ex h => by simp at h, fun a ha => by cases ha⟩

/-- the clause of a queue follows from the invariant of the map it was checked against -/
theorem limAnc_of_inv (g : Bool) (d : QD) (qs : List QC) (anc : List QD) (par : LMap α)
    (hinv : Inv D ok g par anc)
    (hchk : ∀ l ∈ d.limits, ∃ vl, D.val l = .ok vl ∧ ∀ n ∈ namesOf g l, Checked D par vl n) :
    LimAncOK D ok g (anc, .mk d qs) := by
  intro l hl vl hvl n hn
  obtain ⟨vl', hvl', hck⟩ := hchk l hl
  simp only [QC.d] at hl
  rw [hvl] at hvl'; injection hvl' with e; subst e
  have hgl := ok.val_good l vl hvl
  have hcn := hck n hn
  refine ⟨?_, ?_⟩
  · intro a ha x hx vx hvx
    obtain ⟨ex, hex, hT⟩ := hinv.tight a ha n x hx vx hvx
    simp only [Checked, hex] at hcn
    exact ok.check_W vl ex vx hgl (hinv.good n ex hex).1 (ok.val_good x vx hvx) hcn hT
  · by_cases hs : n = "*"
    · exact Or.inl hs
    · by_cases hna : namedAbove g anc n = true
      · exact Or.inr (Or.inl hna)
      · refine Or.inr (Or.inr ?_)
        intro a ha x hx vx hvx
        have hnone : par.lookup n = none := by
          cases hp : par.lookup n with
          | none => rfl
          | some ex => exact absurd (hinv.good n ex hp).2 hna
        obtain ⟨ex, hex, hT⟩ := hinv.tight a ha "*" x hx vx hvx
        simp only [Checked, hnone] at hcn
        exact ok.check_W vl ex vx hgl (hinv.good "*" ex hex).1 (ok.val_good x vx hvx) (hcn hs ex hex) hT

/-- the invariant is handed down to the children -/
theorem inv_step (g : Bool) (d : QD) (anc : List QD) (par cur' : LMap α)
    (hinv : Inv D ok g par anc) (huniq : UniqueNames g d.limits)
    (hchk : ∀ l ∈ d.limits, ∃ vl, D.val l = .ok vl ∧ ∀ n ∈ namesOf g l, Checked D par vl n)
    (hrel : LookupRel D g d.limits par par cur') : Inv D ok g cur' (d :: anc) := by
  -- the entry of a name after the loop
  have hlook : ∀ n, (∀ l ∈ d.limits, n ∉ namesOf g l) → cur'.lookup n = par.lookup n := hrel.1
  have hnamed : ∀ l ∈ d.limits, ∀ n ∈ namesOf g l, ∀ vl, D.val l = .ok vl → cur'.lookup n = some (valFor D par vl n) := by
    intro l hl n hn vl hvl
    exact hrel.2 l hl n hn (fun l2 hl2 hn2 => huniq l2 hl2 l hl n hn2 hn) vl hvl
  refine ⟨?_, ?_⟩
  · intro n ex hex
    rw [namedAbove_cons]
    by_cases hnm : ∃ l, l ∈ d.limits ∧ n ∈ namesOf g l
    · obtain ⟨l, hl, hn⟩ := hnm
      obtain ⟨vl, hvl, hck⟩ := hchk l hl
      rw [hnamed l hl n hn vl hvl] at hex
      injection hex with hex
      have hne : (limitsFor g d n).isEmpty = false := by
        cases hem : (limitsFor g d n).isEmpty with
        | false => rfl
        | true =>
          have := List.isEmpty_iff.mp hem
          have hm : l ∈ limitsFor g d n := mem_limitsFor.mpr ⟨hl, hn⟩
          rw [this] at hm; cases hm
      refine ⟨?_, by simp [hne]⟩
      rw [← hex]
      unfold valFor
      cases hp : par.lookup n with
      | none => exact ok.val_good l vl hvl
      | some e0 => exact ok.comb_good vl e0 (ok.val_good l vl hvl) (hinv.good n e0 hp).1
    · have hno : ∀ l ∈ d.limits, n ∉ namesOf g l := fun l hl hn => hnm ⟨l, hl, hn⟩
      rw [hlook n hno] at hex
      obtain ⟨h1, h2⟩ := hinv.good n ex hex
      exact ⟨h1, by simp [h2]⟩
  · intro a ha n x hx vx hvx
    cases ha with
    | head =>
      obtain ⟨hxl, hxn⟩ := mem_limitsFor.mp hx
      obtain ⟨vl, hvl, hck⟩ := hchk x hxl
      rw [hvx] at hvl; injection hvl with e; subst e
      refine ⟨valFor D par vx n, hnamed x hxl n hxn vx hvx, ?_⟩
      have hcn := hck n hxn
      unfold valFor
      cases hp : par.lookup n with
      | none => exact ok.T_refl vx (ok.val_good x vx hvx)
      | some e0 =>
        simp only [Checked, hp] at hcn
        exact ok.comb_T_lim vx e0 (ok.val_good x vx hvx) (hinv.good n e0 hp).1 hcn
    | tail _ ha =>
      obtain ⟨ex, hex, hT⟩ := hinv.tight a ha n x hx vx hvx
      by_cases hnm : ∃ l, l ∈ d.limits ∧ n ∈ namesOf g l
      · obtain ⟨l, hl, hn⟩ := hnm
        obtain ⟨vl, hvl, hck⟩ := hchk l hl
        refine ⟨valFor D par vl n, hnamed l hl n hn vl hvl, ?_⟩
        have hcn := hck n hn
        simp only [Checked, hex] at hcn
        simp only [valFor, hex]
        exact ok.T_trans _ _ _ (ok.comb_T_ex vl ex (ok.val_good l vl hvl) (hinv.good n ex hex).1 hcn) hT
      · have hno : ∀ l ∈ d.limits, n ∉ namesOf g l := fun l hl hn => hnm ⟨l, hl, hn⟩
        exact ⟨ex, by rw [hlook n hno]; exact hex, hT⟩

mutual
theorem checkLim_spec : ∀ (q : QC) (pu pg : LMap α) (anc : List QD), checkLim D q pu pg = .ok () →
    Inv D ok false pu anc → Inv D ok true pg anc → (∀ e ∈ walk anc q, LocalOK e) →
    ∀ e ∈ walk anc q, LimAncOK D ok false e ∧ LimAncOK D ok true e
  | .mk d qs, pu, pg, anc, h, hu, hg, hloc => by
    unfold checkLim at h
    simp only [bind_ok] at h
    obtain ⟨⟨cu, cg⟩, hl, hch⟩ := h
    obtain ⟨hc, hru, hrg⟩ := limLimits_spec D d.limits pu pg pu pg (cu, cg) hl
    have hself := hloc (anc, .mk d qs) (by unfold walk; exact List.mem_cons_self)
    have hcu : ∀ l ∈ d.limits, ∃ vl, D.val l = .ok vl ∧ ∀ n ∈ namesOf false l, Checked D pu vl n := by
      intro l hl; obtain ⟨vl, h1, h2, _⟩ := hc l hl; exact ⟨vl, h1, h2⟩
    have hcg : ∀ l ∈ d.limits, ∃ vl, D.val l = .ok vl ∧ ∀ n ∈ namesOf true l, Checked D pg vl n := by
      intro l hl; obtain ⟨vl, h1, _, h3⟩ := hc l hl; exact ⟨vl, h1, h3⟩
    intro e he
    unfold walk at he
    cases he with
    | head => exact ⟨limAnc_of_inv D ok false d qs anc pu hu hcu, limAnc_of_inv D ok true d qs anc pg hg hcg⟩
    | tail _ he =>
      refine checkLimL_spec qs cu cg (d :: anc) hch
        (inv_step D ok false d anc pu cu hu hself.uniqU hcu hru)
        (inv_step D ok true d anc pg cg hg hself.uniqG hcg hrg) ?_ e he
      intro e' he'
      exact hloc e' (by unfold walk; exact List.mem_cons_of_mem _ he')
theorem checkLimL_spec : ∀ (qs : List QC) (cu cg : LMap α) (anc : List QD), checkLimL D qs cu cg = .ok () →
    Inv D ok false cu anc → Inv D ok true cg anc → (∀ e ∈ walkL anc qs, LocalOK e) →
    ∀ e ∈ walkL anc qs, LimAncOK D ok false e ∧ LimAncOK D ok true e
  | [], _, _, _, _, _, _, _ => by intro e he; simp [walkL] at he
  | c :: t, cu, cg, anc, h, hu, hg, hloc => by
    unfold checkLimL at h
    simp only [bind_ok] at h
    obtain ⟨_, hc, ht⟩ := h
    intro e he
    unfold walkL at he
    rcases List.mem_append.mp he with he | he
    · exact checkLim_spec c cu cg anc hc hu hg
        (fun e' he' => hloc e' (by unfold walkL; exact List.mem_append_left _ he')) e he
    · exact checkLimL_spec t cu cg anc ht hu hg
        (fun e' he' => hloc e' (by unfold walkL; exact List.mem_append_right _ he')) e he
end

end generic

/-! ### the two instances -/

theorem cwMin_nonNeg (l r : Res) (hl : wf l = true) (hr : wf r = true) (nl : NonNeg l) (nr : NonNeg r) :
    NonNeg ((componentWiseMin (some l) (some r)).getD []) := by
  intro k v h
  have hk := cwMin_get? l r hl hr k
  have hs : componentWiseMin (some l) (some r) = some ((componentWiseMin (some l) (some r)).getD []) := by
    unfold componentWiseMin; rfl
  rw [hs] at hk
  simp only [oget, orZero, Option.getD_some] at hk
  rw [h] at hk
  cases hlk : l.get? k with
  | none =>
    cases hrk : r.get? k with
    | none => rw [hlk, hrk] at hk; cases hk
    | some b => rw [hlk, hrk] at hk; injection hk with hk; subst hk; exact nr k _ hrk
  | some a =>
    cases hrk : r.get? k with
    | none => rw [hlk, hrk] at hk; injection hk with hk; subst hk; exact nl k _ hlk
    | some b =>
      rw [hlk, hrk] at hk; injection hk with hk; subst hk
      have := nl k a hlk; have := nr k b hrk
      omega

def resOK : DomOK resDom where
  Good r := wf r = true ∧ NonNeg r
  T a b := Tighter (some a) (some b)
  W l x := ∀ t lv xv, l.get? t = some lv → x.get? t = some xv → lv ≤ xv
  val_good := by intro l v h; exact ⟨parseConf_wf h, parseConf_nonNeg h⟩
  T_refl := fun a _ => Tighter.refl _
  T_trans := fun _ _ _ h1 h2 => Tighter.trans h1 h2
  comb_good := by
    intro lim ex ⟨wl, nl⟩ ⟨we, ne⟩
    refine ⟨?_, cwMin_nonNeg lim ex wl we nl ne⟩
    have := cwMin_wf lim (some ex) wl we
    simpa [resDom, orZero] using this
  comb_T_ex := by
    intro lim ex ⟨wl, _⟩ ⟨we, _⟩ _
    have := (cwMin_tighter lim (some ex) wl we).2
    have hs : componentWiseMin (some lim) (some ex) = some ((componentWiseMin (some lim) (some ex)).getD []) := by
      unfold componentWiseMin; rfl
    rw [hs] at this; exact this
  comb_T_lim := by
    intro lim ex ⟨wl, _⟩ ⟨we, _⟩ _
    have := (cwMin_tighter lim (some ex) wl we).1
    have hs : componentWiseMin (some lim) (some ex) = some ((componentWiseMin (some lim) (some ex)).getD []) := by
      unfold componentWiseMin; rfl
    rw [hs] at this; exact this
  check_W := by
    intro lim ex x _ _ ⟨_, nx⟩ hc hT t lv xv hl hx
    obtain ⟨ev, hev, hle⟩ := hT t xv (by simpa [oget, orZero] using hx)
    have := fit_spec (p := some ex) hc hl hev
    have := (nx t xv hx).1
    omega

def appsOK : DomOK appsDom where
  Good _ := True
  T a b := b = 0 ∨ (a ≠ 0 ∧ a ≤ b)
  W a b := b = 0 ∨ (a ≠ 0 ∧ a ≤ b)
  val_good := fun _ _ _ => trivial
  T_refl := by intro a _; by_cases h : a = 0 <;> simp [h]
  T_trans := by intro a b c h1 h2; omega
  comb_good := fun _ _ _ _ => trivial
  comb_T_ex := by
    intro lim ex _ _ hc
    simp only [appsDom, Bool.not_eq_true', Bool.and_eq_false_iff, bne_eq_false_iff_eq, Bool.or_eq_false_iff,
      decide_eq_false_iff_not, beq_eq_false_iff_ne] at hc
    show ex = 0 ∨ (lim ≠ 0 ∧ lim ≤ ex)
    omega
  comb_T_lim := by intro lim ex _ _ _; show lim = 0 ∨ (lim ≠ 0 ∧ lim ≤ lim); omega
  check_W := by
    intro lim ex x _ _ _ hc hT
    simp only [appsDom, Bool.not_eq_true', Bool.and_eq_false_iff, bne_eq_false_iff_eq, Bool.or_eq_false_iff,
      decide_eq_false_iff_not, beq_eq_false_iff_ne] at hc
    omega

/-- from the propositional form to the executable clause: resources -/
theorem okLimitAncestors_res (g : Bool) (e : Entry) (h : LimAncOK resDom resOK g e) :
    okLimitAncestors resWithin g e = true := by
  have hw : ∀ (l x : Limit), (∀ vl vx, resDom.val l = .ok vl → resDom.val x = .ok vx → resOK.W vl vx) → resWithin l x = true := by
    intro l x hW
    unfold resWithin
    simp only [List.all_eq_true]
    intro t _
    cases hl : qty l.maxRes t with
    | none => simp [leDef]
    | some lv =>
      cases hx : qty x.maxRes t with
      | none => simp [leDef]
      | some xv =>
        simp only [leDef, decide_eq_true_eq]
        unfold qty at hl hx
        split at hl
        · rename_i rl hrl
          split at hx
          · rename_i rx hrx
            exact hW rl rx hrl hrx t lv xv hl hx
          · cases hx
        · cases hl
  unfold okLimitAncestors
  simp only [List.all_eq_true, Bool.and_eq_true, Bool.or_eq_true, beq_iff_eq]
  intro l hl n hn
  refine ⟨?_, ?_⟩
  · intro a ha x hx
    apply hw
    intro vl vx hvl hvx
    exact ((h l hl vl hvl n hn).1) a ha x hx vx hvx
  · by_cases hs : n = "*"
    · exact Or.inl (Or.inl hs)
    · by_cases hna : namedAbove g e.1 n = true
      · exact Or.inl (Or.inr hna)
      · refine Or.inr ?_
        intro a ha x hx
        apply hw
        intro vl vx hvl hvx
        rcases (h l hl vl hvl n hn).2 with h1 | h1 | h1
        · exact absurd h1 hs
        · exact absurd h1 hna
        · exact h1 a ha x hx vx hvx

/-- … and application counts -/
theorem okLimitAncestors_apps (g : Bool) (e : Entry) (h : LimAncOK appsDom appsOK g e) :
    okLimitAncestors appsWithin g e = true := by
  have hw : ∀ (l x : Limit), appsOK.W l.maxApps x.maxApps → appsWithin l x = true := by
    intro l x hW
    unfold appsWithin
    simp only [Bool.or_eq_true, beq_iff_eq, Bool.and_eq_true, bne_iff_ne, ne_eq, decide_eq_true_eq]
    exact hW
  unfold okLimitAncestors
  simp only [List.all_eq_true, Bool.and_eq_true, Bool.or_eq_true, beq_iff_eq]
  intro l hl n hn
  refine ⟨?_, ?_⟩
  · intro a ha x hx
    exact hw l x (((h l hl l.maxApps rfl n hn).1) a ha x hx x.maxApps rfl)
  · by_cases hs : n = "*"
    · exact Or.inl (Or.inl hs)
    · by_cases hna : namedAbove g e.1 n = true
      · exact Or.inl (Or.inr hna)
      · refine Or.inr ?_
        intro a ha x hx
        rcases (h l hl l.maxApps rfl n hn).2 with h1 | h1 | h1
        · exact absurd h1 hs
        · exact absurd h1 hna
        · exact hw l x (h1 a ha x hx x.maxApps rfl)

/-! ### what is handed down to the children (resources) -/

/-- The limit checkLimitResource hands down for a name that has an inherited entry (`ComponentWiseMin(limit, existing)`):
    per resource type the smaller value where both name the type, and the value of the one that names it otherwise.  In
    particular the types that only the ANCESTORS name stay in the handed down limit, so the queues further down are still
    compared with them. -/
theorem resDom_comb_get? (lim ex : Res) (hl : wf lim = true) (he : wf ex = true) (t : String) :
    (resDom.comb lim ex).get? t =
      match lim.get? t, ex.get? t with
      | some a, some b => some (min a b)
      | some a, none => some a
      | none, some b => some b
      | none, none => none := by
  have hk := cwMin_get? lim ex hl he t
  have hs : componentWiseMin (some lim) (some ex) = some ((componentWiseMin (some lim) (some ex)).getD []) := by
    unfold componentWiseMin; rfl
  rw [hs] at hk
  simp only [oget, orZero, Option.getD_some] at hk
  exact hk

theorem resDom_comb_keeps_inherited_types (lim ex : Res) (hl : wf lim = true) (he : wf ex = true) (t : String)
    (h : lim.get? t = none) : (resDom.comb lim ex).get? t = ex.get? t := by
  rw [resDom_comb_get? lim ex hl he t, h]
  cases ex.get? t <;> rfl

end Yk.Conf
