/-
  Lemmas about the configuration reload model (YkModel/Reload.lean) for the C16 theorems.
-/
import YkModel.Reload
namespace Yk.Reload
open Yk Yk.Res

/-! ### lists keyed by path -/

theorem find_some_path {t : Tree} {x : String} {q : RQ} (h : t.find x = some q) : q.path = x := by
  have := List.find?_some h
  simpa using this

theorem find_mem {t : Tree} {x : String} {q : RQ} (h : t.find x = some q) : q ∈ t := List.mem_of_find?_eq_some h

theorem find_map_pres (t : Tree) (x : String) (f : RQ → RQ) (hf : ∀ q, (f q).path = q.path) :
    Tree.find (t.map f) x = (t.find x).map f := by
  induction t with
  | nil => rfl
  | cons a r ih =>
    unfold Tree.find at ih ⊢
    rw [List.map_cons]
    by_cases h : a.path = x
    · rw [List.find?_cons_of_pos (by simp [hf a, h]), List.find?_cons_of_pos (by simp [h])]; rfl
    · rw [List.find?_cons_of_neg (by simp [hf a, h]), List.find?_cons_of_neg (by simp [h])]; exact ih

theorem find_upd (t : Tree) (p x : String) (f : RQ → RQ) (hf : ∀ q, (f q).path = q.path) :
    (t.upd p f).find x = (t.find x).map (fun q => if q.path = p then f q else q) := by
  unfold Tree.upd
  apply find_map_pres
  intro q
  by_cases h : q.path = p <;> simp [h, hf]

theorem find_upd_ne (t : Tree) (p x : String) (f : RQ → RQ) (hf : ∀ q, (f q).path = q.path) (hne : ¬ x = p) :
    (t.upd p f).find x = t.find x := by
  rw [find_upd t p x f hf]
  cases h : t.find x with
  | none => rfl
  | some q =>
    have hp := find_some_path h
    simp [hp, hne]

theorem find_upd_eq (t : Tree) (p : String) (f : RQ → RQ) (hf : ∀ q, (f q).path = q.path) (q : RQ) (h : t.find p = some q) :
    (t.upd p f).find p = some (f q) := by
  rw [find_upd t p p f hf, h]
  simp [find_some_path h]

theorem find_append_some (t : Tree) (n : RQ) (x : String) (q : RQ) (h : t.find x = some q) : (t ++ [n]).find x = some q := by
  simp only [Tree.find] at h ⊢
  rw [List.find?_append, h]; rfl

theorem find_append_none (t : Tree) (n : RQ) (x : String) (h : t.find x = none) :
    (t ++ [n]).find x = if n.path = x then some n else none := by
  simp only [Tree.find] at h ⊢
  rw [List.find?_append, h]
  by_cases hx : n.path = x <;> simp [hx]

/-! ### applyConf -/

theorem applyConf_path (q : RQ) (c : QC) : (applyConf q c).path = q.path := by
  unfold applyConf
  repeat' split
  all_goals rfl

theorem applyConf_runtime (q : RQ) (c : QC) : (applyConf q c).runtime = q.runtime := by
  unfold applyConf
  repeat' split
  all_goals rfl

theorem updExisting_path (q : RQ) (c : QC) (pq : Option RQ) : (updExisting q c pq).path = q.path := by
  have h := applyConf_path q c
  unfold updExisting
  split
  · exact h
  · cases pq with
    | none => simpa using h
    | some p => simp only []; split <;> simpa using h

theorem updExisting_runtime (q : RQ) (c : QC) (pq : Option RQ) : (updExisting q c pq).runtime = q.runtime := by
  have h := applyConf_runtime q c
  unfold updExisting
  split
  · exact h
  · cases pq with
    | none => simpa [RQ.runtime] using h
    | some p => simp only []; split <;> simpa [RQ.runtime] using h

theorem newConfigured_path (c : QC) (p : Option RQ) : (newConfigured c p).path = c.path := by
  unfold newConfigured
  have h : (applyConf (blank c) c).path = c.path := by rw [applyConf_path]; rfl
  cases p with
  | none => simpa using h
  | some p => simp only []; split <;> simpa using h

theorem newConfigured_runtime (c : QC) (p : Option RQ) : (newConfigured c p).runtime = Runtime.zero := by
  unfold newConfigured
  have h : (applyConf (blank c) c).runtime = Runtime.zero := by rw [applyConf_runtime]; rfl
  cases p with
  | none => simpa [RQ.runtime] using h
  | some p => simp only []; split <;> simpa [RQ.runtime] using h

/-- what a successful applyConf leaves, whatever the queue was -/
theorem applyConf_ok (q : RQ) (c : QC) (h : entryErr c = none) :
    (applyConf q c).leaf = !c.isParent ∧ (applyConf q c).managed = true ∧ (applyConf q c).state = .active ∧
    (applyConf q c).props = c.props ∧
    (applyConf q c).tpl = (if c.isParent then c.tpl.build else q.tpl) ∧
    (applyConf q c).max = (if c.name = "root" then q.max else setRes c.max) ∧
    (applyConf q c).guaranteed = (if c.name = "root" then q.guaranteed else setRes c.guaranteed) ∧
    (applyConf q c).maxApps = c.maxApps ∧
    (applyConf q c).parent = q.parent := by
  unfold entryErr at h
  unfold applyConf
  by_cases h1 : c.aclBad = true
  · simp [h1] at h
  · by_cases h2 : (c.isParent && c.tplBad) = true
    · simp [h1, h2] at h
    · by_cases h3 : (!(decide (c.name = "root")) && c.resBad) = true
      · simp [h1, h2, h3] at h
      · simp only [h1, h2, h3, Bool.false_eq_true, if_false]
        by_cases hp : c.isParent = true <;> by_cases hr : c.name = "root" <;> simp [hp, hr]

/-! ### one entry of the walk -/

/-- the error of an entry that is walked without error is `none` -/
theorem applyEntry_noerr_entryErr (t : Tree) (c : QC) (t' : Tree) (h : applyEntry t c = (t', none)) : entryErr c = none := by
  unfold applyEntry at h
  split at h
  · simp only [Prod.mk.injEq] at h; exact h.2
  · split at h
    · simp at h
    · assumption

theorem applyAll_noerr_entryErr (conf : List QC) : ∀ (t t' : Tree), applyAll t conf = (t', none) → ∀ c ∈ conf, entryErr c = none := by
  induction conf with
  | nil => intro _ _ _ c hc; cases hc
  | cons a r ih =>
    intro t t' h c hc
    unfold applyAll at h
    cases he : applyEntry t a with
    | mk t1 e1 =>
      rw [he] at h
      cases e1 with
      | some e => simp at h
      | none =>
        simp only at h
        cases hc with
        | head => exact applyEntry_noerr_entryErr t a t1 he
        | tail _ hm => exact ih t1 t' h c hm

/-- the queues the entries walked so far have left: present, of the configured type, active and managed -/
def Processed (seen : List QC) (t : Tree) : Prop :=
  ∀ p ∈ seen, ∃ q, t.find p.path = some q ∧ q.leaf = (!p.isParent) ∧ q.state = .active ∧ q.managed = true

theorem updExisting_ok (q : RQ) (c : QC) (pq : Option RQ) (h : entryErr c = none) :
    (updExisting q c pq).leaf = (!c.isParent) ∧ (updExisting q c pq).state = .active ∧ (updExisting q c pq).managed = true := by
  have a := applyConf_ok q c h
  unfold updExisting
  rw [h]
  cases pq with
  | none => simp [a.1, a.2.1, a.2.2.1]
  | some p => simp only []; split <;> simp [a.1, a.2.1, a.2.2.1]

theorem newConfigured_ok (c : QC) (p : Option RQ) (h : entryErr c = none) :
    (newConfigured c p).leaf = (!c.isParent) ∧ (newConfigured c p).state = .active ∧ (newConfigured c p).managed = true := by
  have a := applyConf_ok (blank c) c h
  unfold newConfigured
  cases p with
  | none => simp [a.1, a.2.1, a.2.2.1]
  | some p => simp only []; split <;> simp [a.1, a.2.1, a.2.2.1]

/-- an entry whose own texts parse, that is new in the walk and whose parent entry (of parent type) was walked before,
    goes through: the structural error exits of updateQueues / NewConfiguredQueue cannot be taken -/
theorem applyEntry_ok (seen : List QC) (t : Tree) (c : QC) (hp : Processed seen t) (he : entryErr c = none)
    (hnew : ∀ p ∈ seen, ¬ p.path = c.path)
    (hpar : c.parent = "" ∨ ∃ p ∈ seen, p.path = c.parent ∧ p.isParent = true) :
    ∃ t', applyEntry t c = (t', none) ∧ Processed (seen ++ [c]) t' := by
  unfold applyEntry
  cases hf : t.find c.path with
  | some q0 =>
    refine ⟨t.upd c.path (fun q => updExisting q c (if c.parent = "" then none else t.find c.parent)), by simp only [he], ?_⟩
    intro p hpm
    rcases List.mem_append.mp hpm with hps | hpc
    · obtain ⟨q, hq, hrest⟩ := hp p hps
      refine ⟨q, ?_, hrest⟩
      rw [find_upd_ne _ _ _ _ (fun q => updExisting_path q c _) (hnew p hps)]
      exact hq
    · have : p = c := by simpa using hpc
      subst this
      refine ⟨_, find_upd_eq _ _ _ (fun q => updExisting_path q p _) q0 hf, ?_⟩
      have := updExisting_ok q0 p (if p.parent = "" then none else t.find p.parent) he
      exact ⟨this.1, this.2.1, this.2.2⟩
  | none =>
    simp only [he]
    -- the new queue, once appended, is found at its path; the earlier ones are still found
    have key : ∀ (n : RQ), n.path = c.path → n.leaf = (!c.isParent) ∧ n.state = .active ∧ n.managed = true →
        Processed (seen ++ [c]) (t ++ [n]) := by
      intro n hn hok p hpm
      rcases List.mem_append.mp hpm with hps | hpc
      · obtain ⟨q, hq, hrest⟩ := hp p hps
        exact ⟨q, find_append_some t n _ q hq, hrest⟩
      · have : p = c := by simpa using hpc
        subst this
        refine ⟨n, ?_, hok⟩
        rw [find_append_none t n _ hf]; simp [hn]
    by_cases hroot : c.parent = ""
    · simp only [hroot, if_true]
      exact ⟨_, rfl, key _ (newConfigured_path c none) (newConfigured_ok c none he)⟩
    · simp only [hroot, if_false]
      rcases hpar with h0 | ⟨p, hps, hpp, hpt⟩
      · exact absurd h0 hroot
      · obtain ⟨q, hq, hleaf, hst, _⟩ := hp p hps
        rw [hpp] at hq
        simp only [hq]
        have hl : q.leaf = false := by simpa [hpt] using hleaf
        simp only [hl, hst, Bool.false_eq_true, if_false]
        have : ¬ (QState.active = QState.draining) := by decide
        simp only [this, if_false]
        exact ⟨_, rfl, key _ (newConfigured_path c (some q)) (newConfigured_ok c (some q) he)⟩

/-- the whole walk goes through for a well-formed configuration list whose entries' own texts parse -/
theorem applyAll_ok (conf : List QC) : ∀ (seen : List QC) (t : Tree), Processed seen t → confWFAux seen conf = true →
    (∀ c ∈ conf, entryErr c = none) → ∃ t', applyAll t conf = (t', none) ∧ Processed (seen ++ conf) t' := by
  induction conf with
  | nil => intro seen t hp _ _; exact ⟨t, rfl, by simpa using hp⟩
  | cons a r ih =>
    intro seen t hp hwf herr
    unfold confWFAux at hwf
    simp only [Bool.and_eq_true, Bool.not_eq_true', List.any_eq_false, Bool.or_eq_true, decide_eq_true_eq, List.any_eq_true] at hwf
    obtain ⟨⟨hnew, hpar⟩, hrest⟩ := hwf
    have hpar' : a.parent = "" ∨ ∃ p ∈ seen, p.path = a.parent ∧ p.isParent = true := by
      rcases hpar with h | ⟨p, hp1, hp2⟩
      · exact Or.inl h
      · exact Or.inr ⟨p, hp1, hp2⟩
    obtain ⟨t1, h1, hp1⟩ := applyEntry_ok seen t a hp (herr a (List.mem_cons_self ..)) hnew hpar'
    obtain ⟨t2, h2, hp2⟩ := ih (seen ++ [a]) t1 hp1 hrest (fun c hc => herr c (List.mem_cons_of_mem _ hc))
    refine ⟨t2, ?_, by simpa using hp2⟩
    unfold applyAll
    rw [h1]
    exact h2

/-- **the dry run is a sufficient guard**: if the fresh load of a well-formed configuration list goes through, the
    update walk over ANY tree goes through as well -/
theorem dryRun_guards (conf : List QC) (hwf : confWF conf = true) (t0 : Tree) (hfresh : applyAll [] conf = (t0, none)) (t : Tree) :
    ∃ t', applyAll t conf = (t', none) := by
  have herr := applyAll_noerr_entryErr conf [] t0 hfresh
  obtain ⟨t', h, _⟩ := applyAll_ok conf [] t (fun _ h => by cases h) hwf herr
  exact ⟨t', h⟩


/-! ### what the walk does to the paths it does not name, and to the running state of every queue -/

theorem applyEntry_find_other (t : Tree) (c : QC) (x : String) (hx : ¬ x = c.path) : (applyEntry t c).1.find x = t.find x := by
  unfold applyEntry
  have happ : ∀ n : RQ, n.path = c.path → (t ++ [n]).find x = t.find x := by
    intro n hn
    cases h : t.find x with
    | some q => exact find_append_some t n x q h
    | none =>
      rw [find_append_none t n x h]
      have : ¬ c.path = x := fun h' => hx h'.symm
      simp [hn, this]
  split
  · exact find_upd_ne _ _ _ _ (fun q => updExisting_path q c _) hx
  · split
    · rfl
    · split
      · exact happ _ (newConfigured_path c none)
      · split
        · rfl
        · split
          · rfl
          · split
            · rfl
            · exact happ _ (newConfigured_path c _)

theorem applyAll_find_other (conf : List QC) : ∀ (t : Tree) (x : String), (∀ c ∈ conf, ¬ x = c.path) → (applyAll t conf).1.find x = t.find x := by
  induction conf with
  | nil => intro t x _; rfl
  | cons a r ih =>
    intro t x h
    unfold applyAll
    have h1 := applyEntry_find_other t a x (h a (List.mem_cons_self ..))
    cases he : applyEntry t a with
    | mk t1 e1 =>
      rw [he] at h1
      cases e1 with
      | some e => exact h1
      | none => simp only; rw [ih t1 x (fun c hc => h c (List.mem_cons_of_mem _ hc))]; exact h1

/-- `t'` has every queue of `t` with the same running state; what `t'` has beyond `t` starts empty -/
def Ext (t t' : Tree) : Prop :=
  (∀ x q, t.find x = some q → ∃ q', t'.find x = some q' ∧ q'.runtime = q.runtime) ∧
  (∀ x q', t'.find x = some q' → (∃ q, t.find x = some q ∧ q'.runtime = q.runtime) ∨ (t.find x = none ∧ q'.runtime = Runtime.zero))

theorem Ext.refl (t : Tree) : Ext t t := ⟨fun _ q h => ⟨q, h, rfl⟩, fun _ q' h => Or.inl ⟨q', h, rfl⟩⟩

theorem Ext.trans {a b c : Tree} (h1 : Ext a b) (h2 : Ext b c) : Ext a c := by
  refine ⟨?_, ?_⟩
  · intro x q hq
    obtain ⟨q', hq', hr'⟩ := h1.1 x q hq
    obtain ⟨q'', hq'', hr''⟩ := h2.1 x q' hq'
    exact ⟨q'', hq'', hr''.trans hr'⟩
  · intro x q'' hq''
    rcases h2.2 x q'' hq'' with ⟨q', hq', hr⟩ | ⟨hn, hz⟩
    · rcases h1.2 x q' hq' with ⟨q, hq, hr'⟩ | ⟨hn', hz'⟩
      · exact Or.inl ⟨q, hq, hr.trans hr'⟩
      · exact Or.inr ⟨hn', hr.trans hz'⟩
    · refine Or.inr ⟨?_, hz⟩
      cases ha : a.find x with
      | none => rfl
      | some q =>
        obtain ⟨q', hq', _⟩ := h1.1 x q ha
        rw [hn] at hq'; cases hq'

theorem Ext.map (t : Tree) (f : RQ → RQ) (hp : ∀ q, (f q).path = q.path) (hr : ∀ q, (f q).runtime = q.runtime) : Ext t (t.map f) := by
  refine ⟨?_, ?_⟩
  · intro x q hq
    exact ⟨f q, by rw [find_map_pres t x f hp, hq]; rfl, hr q⟩
  · intro x q' hq'
    rw [find_map_pres t x f hp] at hq'
    cases h : t.find x with
    | none => rw [h] at hq'; cases hq'
    | some q =>
      rw [h] at hq'
      simp only [Option.map_some, Option.some.injEq] at hq'
      exact Or.inl ⟨q, rfl, by rw [← hq']; exact hr q⟩

theorem Ext.append (t : Tree) (n : RQ) (_hn : t.find n.path = none) (hz : n.runtime = Runtime.zero) : Ext t (t ++ [n]) := by
  refine ⟨?_, ?_⟩
  · intro x q hq
    exact ⟨q, find_append_some t n x q hq, rfl⟩
  · intro x q' hq'
    cases h : t.find x with
    | some q =>
      rw [find_append_some t n x q h] at hq'
      simp only [Option.some.injEq] at hq'
      exact Or.inl ⟨q, rfl, by rw [hq']⟩
    | none =>
      rw [find_append_none t n x h] at hq'
      by_cases hx : n.path = x
      · simp only [hx, if_true, Option.some.injEq] at hq'
        exact Or.inr ⟨rfl, by rw [← hq']; exact hz⟩
      · simp [hx] at hq'

theorem applyEntry_ext (t : Tree) (c : QC) : Ext t (applyEntry t c).1 := by
  unfold applyEntry
  cases hf : t.find c.path with
  | some q0 =>
    simp only
    unfold Tree.upd
    apply Ext.map
    · intro q; by_cases h : q.path = c.path <;> simp [h, updExisting_path]
    · intro q; by_cases h : q.path = c.path <;> simp [h, updExisting_runtime]
  | none =>
    have happ : ∀ n : RQ, n.path = c.path → n.runtime = Runtime.zero → Ext t (t ++ [n]) :=
      fun n hn hz => Ext.append t n (by rw [hn]; exact hf) hz
    simp only
    split
    · exact Ext.refl t
    · split
      · exact happ _ (newConfigured_path c none) (newConfigured_runtime c none)
      · split
        · exact Ext.refl t
        · split
          · exact Ext.refl t
          · split
            · exact Ext.refl t
            · exact happ _ (newConfigured_path c _) (newConfigured_runtime c _)

theorem applyAll_ext (conf : List QC) : ∀ t : Tree, Ext t (applyAll t conf).1 := by
  induction conf with
  | nil => intro t; exact Ext.refl t
  | cons a r ih =>
    intro t
    unfold applyAll
    have h1 := applyEntry_ext t a
    cases he : applyEntry t a with
    | mk t1 e1 =>
      rw [he] at h1
      cases e1 with
      | some e => exact h1
      | none => exact Ext.trans h1 (ih t1)

theorem markMissing_ext (t : Tree) (conf : List QC) : Ext t (markMissing t conf) := by
  unfold markMissing
  apply Ext.map
  · intro q; split <;> rfl
  · intro q; split <;> rfl

theorem updateTree_ext (t : Tree) (conf : List QC) : Ext t (updateTree t conf).1 := by
  unfold updateTree
  have h := applyAll_ext conf t
  cases he : applyAll t conf with
  | mk t1 e1 =>
    rw [he] at h
    cases e1 with
    | some e => exact h
    | none => exact Ext.trans h (markMissing_ext t1 conf)

/-! ### configured queues are active, the managed rest drains, dynamic queues are left alone -/

theorem configured_mem {conf : List QC} {c : QC} (h : c ∈ conf) : configured conf c.path = true := by
  unfold configured
  exact List.any_eq_true.mpr ⟨c, h, by simp⟩

theorem remove_ne_active (s : QState) : ¬ s.remove = .active := by cases s <;> simp [QState.remove]

theorem updateTree_configured (t t' : Tree) (conf : List QC) (hwf : confWF conf = true) (h : updateTree t conf = (t', none)) :
    ∀ c ∈ conf, ∃ q, t'.find c.path = some q ∧ q.state = .active ∧ q.managed = true ∧ q.leaf = (!c.isParent) := by
  intro c hc
  unfold updateTree at h
  cases he : applyAll t conf with
  | mk t1 e1 =>
    rw [he] at h
    cases e1 with
    | some e => simp at h
    | none =>
      simp only [Prod.mk.injEq, and_true] at h
      have herr := applyAll_noerr_entryErr conf t t1 he
      obtain ⟨t1', h1', hp⟩ := applyAll_ok conf [] t (fun _ h => by cases h) hwf herr
      rw [he] at h1'
      simp only [Prod.mk.injEq, and_true] at h1'
      subst h1'
      obtain ⟨q, hq, hl, hs, hm⟩ := hp c (by simpa using hc)
      refine ⟨q, ?_, hs, hm, hl⟩
      rw [← h]
      unfold markMissing
      rw [find_map_pres _ _ _ (by intro q; split <;> rfl), hq]
      have hcq : configured conf q.path = true := by rw [find_some_path hq]; exact configured_mem hc
      simp [hcq]

theorem updateTree_missing (t t' : Tree) (conf : List QC) (h : updateTree t conf = (t', none)) :
    ∀ x q, t'.find x = some q → q.managed = true → configured conf x = false → ¬ q.state = .active := by
  intro x q hq hm hc
  unfold updateTree at h
  cases he : applyAll t conf with
  | mk t1 e1 =>
    rw [he] at h
    cases e1 with
    | some e => simp at h
    | none =>
      simp only [Prod.mk.injEq, and_true] at h
      rw [← h] at hq
      unfold markMissing at hq
      rw [find_map_pres _ _ _ (by intro q; split <;> rfl)] at hq
      cases h1 : t1.find x with
      | none => rw [h1] at hq; cases hq
      | some q1 =>
        rw [h1] at hq
        have hp := find_some_path h1
        simp only [Option.map_some, Option.some.injEq] at hq
        by_cases hm1 : q1.managed = true
        · simp only [hm1, hp, hc, Bool.not_false, Bool.and_self, if_true] at hq
          rw [← hq]; exact remove_ne_active _
        · simp only [hm1, Bool.false_and, Bool.false_eq_true, if_false] at hq
          rw [← hq] at hm; exact absurd hm hm1

theorem updateTree_dynamic (t t' : Tree) (conf : List QC) (h : updateTree t conf = (t', none)) :
    ∀ x q, t.find x = some q → q.managed = false → configured conf x = false → t'.find x = some q := by
  intro x q hq hm hc
  have hne : ∀ c ∈ conf, ¬ x = c.path := by
    intro c hcm hx
    have := configured_mem hcm
    rw [← hx, hc] at this; cases this
  unfold updateTree at h
  cases he : applyAll t conf with
  | mk t1 e1 =>
    rw [he] at h
    cases e1 with
    | some e => simp at h
    | none =>
      simp only [Prod.mk.injEq, and_true] at h
      have h1 := applyAll_find_other conf t x hne
      rw [he] at h1
      simp only at h1
      rw [← h]
      unfold markMissing
      rw [find_map_pres _ _ _ (by intro q; split <;> rfl), h1, hq]
      simp [hm]


/-! ### the queue cleaner -/

theorem find_filter_other (t : Tree) (p x : String) (hx : ¬ x = p) :
    Tree.find (t.filter (fun y => !(decide (y.path = p)))) x = t.find x := by
  induction t with
  | nil => rfl
  | cons a r ih =>
    unfold Tree.find at ih ⊢
    by_cases hp : a.path = p
    · have hax : ¬ a.path = x := fun h => hx (h ▸ hp)
      rw [List.filter_cons_of_neg (by simp [hp]), List.find?_cons_of_neg (by simp [hax])]
      exact ih
    · rw [List.filter_cons_of_pos (by simp [hp])]
      by_cases hax : a.path = x
      · rw [List.find?_cons_of_pos (by simp [hax]), List.find?_cons_of_pos (by simp [hax])]
      · rw [List.find?_cons_of_neg (by simp [hax]), List.find?_cons_of_neg (by simp [hax])]
        exact ih

theorem cleanStep_sub (acc : Tree) (a : RQ) : ∀ q ∈ cleanStep acc a, q ∈ acc := by
  intro q hq
  unfold cleanStep at hq
  split at hq
  · exact (List.mem_filter.mp hq).1
  · exact hq

theorem hasChild_mono {a b : Tree} (h : ∀ q ∈ a, q ∈ b) (x : String) (hb : b.hasChild x = false) : a.hasChild x = false := by
  unfold Tree.hasChild at hb ⊢
  rw [List.any_eq_false] at hb ⊢
  intro q hq
  exact hb q (h q hq)

/-- invariant of the cleaner's walk over `l` starting from `acc`: nothing is invented or altered; a path that was there
    and is gone belonged to a queue of `l` without applications, draining or dynamic, and no child of it is left -/
theorem cleanFold_inv (l : List RQ) : ∀ acc : Tree,
    (∀ q ∈ l.foldl cleanStep acc, q ∈ acc) ∧
    (∀ x, (acc.find x).isSome → (l.foldl cleanStep acc).find x = none →
      ∃ q ∈ l, q.path = x ∧ q.apps = [] ∧ (q.state = .draining ∨ q.managed = false) ∧ (l.foldl cleanStep acc).hasChild x = false) := by
  induction l with
  | nil =>
    intro acc
    refine ⟨fun q h => h, ?_⟩
    intro x h1 h2
    simp only [List.foldl_nil] at h2
    rw [h2] at h1; cases h1
  | cons a r ih =>
    intro acc
    simp only [List.foldl_cons]
    obtain ⟨ih1, ih2⟩ := ih (cleanStep acc a)
    refine ⟨fun q hq => cleanStep_sub acc a q (ih1 q hq), ?_⟩
    intro x hx hgone
    by_cases hrem : removable acc a = true
    · by_cases hxa : x = a.path
      · -- this is the queue removed now
        refine ⟨a, List.mem_cons_self .., hxa.symm, ?_, ?_, ?_⟩
        · unfold removable at hrem
          simp only [Bool.and_eq_true] at hrem
          simpa using hrem.2
        · unfold removable at hrem
          simp only [Bool.and_eq_true, Bool.or_eq_true, decide_eq_true_eq, Bool.not_eq_true'] at hrem
          rcases hrem.1.1.1.1 with h | h
          · exact Or.inl h
          · exact Or.inr h
        · have hnc : acc.hasChild a.path = false := by
            unfold removable at hrem
            simp only [Bool.and_eq_true, Bool.not_eq_true'] at hrem
            exact hrem.1.2
          rw [hxa]
          exact hasChild_mono (fun q hq => cleanStep_sub acc a q (ih1 q hq)) a.path hnc
      · have hfind : (cleanStep acc a).find x = acc.find x := by
          unfold cleanStep; rw [if_pos hrem]; exact find_filter_other acc a.path x hxa
        obtain ⟨q, hq, rest⟩ := ih2 x (by rw [hfind]; exact hx) hgone
        exact ⟨q, List.mem_cons_of_mem _ hq, rest⟩
    · have hsame : cleanStep acc a = acc := by unfold cleanStep; rw [if_neg hrem]
      obtain ⟨q, hq, rest⟩ := ih2 x (by rw [hsame]; exact hx) hgone
      exact ⟨q, List.mem_cons_of_mem _ hq, rest⟩

theorem clean_sub (t : Tree) : ∀ q ∈ clean t, q ∈ t := (cleanFold_inv t.reverse t).1

theorem clean_removed (t : Tree) (x : String) (h1 : (t.find x).isSome) (h2 : (clean t).find x = none) :
    ∃ q ∈ t, q.path = x ∧ q.apps = [] ∧ (q.state = .draining ∨ q.managed = false) ∧ (clean t).hasChild x = false := by
  obtain ⟨q, hq, rest⟩ := (cleanFold_inv t.reverse t).2 x h1 h2
  exact ⟨q, List.mem_reverse.mp hq, rest⟩

/-! ### partitions and the cluster -/

theorem put_get_same : ∀ (cl : Cluster) (n : String) (p : Part), cl.get n = some p → cl.put n p = cl := by
  intro cl
  induction cl with
  | nil => intro n p _; rfl
  | cons e r ih =>
    intro n p h
    unfold Cluster.put
    unfold Cluster.get at h
    by_cases he : e.1 = n
    · rw [if_pos he]
      rw [List.find?_cons_of_pos (by simp [he])] at h
      simp only [Option.map_some, Option.some.injEq] at h
      cases e with
      | mk a b => simp only at he h; rw [he, h]
    · rw [if_neg he]
      rw [List.find?_cons_of_neg (by simp [he])] at h
      rw [ih n p h]

theorem fresh_ok_inv (pc : PC) (p : Part) (h : pc.fresh = .ok p) :
    pc.rootName = "root" ∧ applyAll [] pc.queues = (p.tree, none) := by
  unfold PC.fresh at h
  by_cases hr : pc.rootName = "root"
  · simp only [hr, decide_true, Bool.not_true, Bool.false_eq_true, if_false] at h
    cases he : applyAll [] pc.queues with
    | mk t e =>
      rw [he] at h
      cases e with
      | none => simp only [Except.ok.injEq] at h; exact ⟨hr, by rw [← h]⟩
      | some e => simp at h
  · simp [hr] at h

/-- after a dry run that went through, the only way updatePartitionDetails can fail is the placement rule list, and
    then it has changed nothing -/
theorem updatePartition_after_dryRun (p : Part) (pc : PC) (p0 : Part) (hwf : confWF pc.queues = true) (hf : pc.fresh = .ok p0)
    (p' : Part) (e : CErr) (h : updatePartition p pc = (p', some e)) : p' = p ∧ e = .rules := by
  obtain ⟨hr, ha⟩ := fresh_ok_inv pc p0 hf
  unfold updatePartition at h
  simp only [hr, decide_true, Bool.not_true, Bool.false_eq_true, if_false] at h
  by_cases hb : pc.rulesBad = true
  · simp only [hb, if_true, Prod.mk.injEq, Option.some.injEq] at h
    exact ⟨h.1.symm, h.2.symm⟩
  · simp only [hb, Bool.false_eq_true, if_false] at h
    obtain ⟨t', ht'⟩ := dryRun_guards pc.queues hwf p0.tree ha p.tree
    unfold updateTree at h
    rw [ht'] at h
    simp at h


/-- a configuration update answered with an error has changed nothing — for a configuration with ONE partition -/
theorem configUpdate_rejected_single (s : CState) (ev valid : Bool) (text : String) (pc : PC) (hwf : confWF pc.queues = true)
    (s' : CState) (e : CErr) (h : configUpdate s ev valid text [pc] = (s', some e)) : s' = s := by
  unfold configUpdate at h
  by_cases hv : valid = true
  · simp only [hv, Bool.not_true, Bool.false_eq_true, if_false] at h
    by_cases hsame : (ev && decide (text = s.text)) = true
    · simp [hsame] at h
    · simp only [hsame, Bool.false_eq_true, if_false] at h
      have key0 : ∀ cl, (updateSchedulerConfig s.cluster [pc]) = (cl, some e) → (updateCluster s.cluster [pc]) = (cl, some e) := by
        intro cl hc
        unfold updateSchedulerConfig at hc
        cases hu : updateCluster s.cluster [pc] with
        | mk cl' e' =>
          rw [hu] at hc
          cases e' with
          | some e1 => exact hc
          | none => simp at hc
      have key : ∀ cl, (updateCluster s.cluster [pc]) = (cl, some e) → cl = s.cluster := by
        intro cl hc
        unfold updateCluster at hc
        cases hg : s.cluster.get pc.name with
        | some p =>
          cases hf : pc.fresh with
          | error e0 => simp only [hg, hf, Prod.mk.injEq] at hc; exact hc.1.symm
          | ok p0 =>
            cases hu : updatePartition p pc with
            | mk p' e' =>
              cases e' with
              | some e1 =>
                simp only [hg, hf, hu, Prod.mk.injEq] at hc
                have := (updatePartition_after_dryRun p pc p0 hwf hf p' e1 hu).1
                rw [← hc.1, this]
                exact put_get_same s.cluster pc.name p hg
              | none => simp [hg, hf, hu, updateCluster] at hc
        | none =>
          cases hf : pc.fresh with
          | error e0 => simp only [hg, hf, Prod.mk.injEq] at hc; exact hc.1.symm
          | ok p0 => simp [hg, hf, updateCluster] at hc
      cases hc : updateSchedulerConfig s.cluster [pc] with
      | mk cl e' =>
        rw [hc] at h
        cases e' with
        | some e1 =>
          simp only [Prod.mk.injEq, Option.some.injEq] at h
          have := key cl (key0 cl (by rw [hc, h.2]))
          rw [← h.1, this]
        | none => simp at h
  · simp only [hv, Bool.not_false, if_true, Prod.mk.injEq] at h
    exact h.1.symm

/-! ### refinement: the reloaded tree against the fresh load -/

/-- the queue a fresh load creates for entry `c` on top of the fresh tree `t2` built so far -/
def freshNew (t2 : Tree) (c : QC) : RQ := newConfigured c (if c.parent = "" then none else t2.find c.parent)

/-- every entry walked so far is present in both trees with the same configuration-derived fields (the reloaded one of
    the configured type and active), and the fresh tree has nothing else -/
def Agree (seen : List QC) (t1 t2 : Tree) : Prop :=
  (∀ p ∈ seen, ∃ q1 q2, t1.find p.path = some q1 ∧ t2.find p.path = some q2 ∧ q1.cfgView = q2.cfgView ∧
      q1.leaf = (!p.isParent) ∧ q1.state = .active ∧ (q1.leaf = false → q1.tpl = q2.tpl)) ∧
  (∀ x q, t2.find x = some q → ∃ p ∈ seen, p.path = x)

theorem newConfigured_congr (c : QC) (p1 p2 : RQ) (hp : p1.props = p2.props) (ht : p1.tpl = p2.tpl) :
    newConfigured c (some p1) = newConfigured c (some p2) := by
  unfold newConfigured
  simp only [hp, ht]

theorem cfgView_eq_of (a b : RQ) (h1 : a.leaf = b.leaf) (h2 : a.managed = b.managed) (h3 : a.state = b.state)
    (hpar : a.parent = b.parent) (h4 : ¬ a.parent = "" → a.max = b.max ∧ a.guaranteed = b.guaranteed) (h5 : a.maxApps = b.maxApps)
    (h6 : a.props = b.props) (h7 : a.set = b.set) (h8 : a.leaf = false → a.tpl = b.tpl) : a.cfgView = b.cfgView := by
  unfold RQ.cfgView
  rw [← hpar, ← h1, h2, h3, h5, h6, h7]
  by_cases hr : a.parent = ""
  · by_cases hl : a.leaf = true
    · simp [hr, hl]
    · simp [hr, hl, h8 (by simpa using hl)]
  · obtain ⟨hm, hg⟩ := h4 hr
    by_cases hl : a.leaf = true
    · simp [hr, hl, hm, hg]
    · simp [hr, hl, hm, hg, h8 (by simpa using hl)]

theorem cfgView_fields {a b : RQ} (h : a.cfgView = b.cfgView) : a.leaf = b.leaf ∧ a.state = b.state ∧ a.props = b.props := by
  unfold RQ.cfgView at h
  simp only [CfgView.mk.injEq] at h
  exact ⟨h.1, h.2.2.1, h.2.2.2.2.2.2.1⟩

/-- every field of the queue a successful NewConfiguredQueue leaves -/
theorem newConfigured_fields (c : QC) (p : Option RQ) (he : entryErr c = none) :
    (newConfigured c p).leaf = (!c.isParent) ∧ (newConfigured c p).managed = true ∧ (newConfigured c p).state = .active ∧
    (newConfigured c p).parent = c.parent ∧
    (newConfigured c p).max = (if c.name = "root" then none else setRes c.max) ∧
    (newConfigured c p).guaranteed = (if c.name = "root" then none else setRes c.guaranteed) ∧
    (newConfigured c p).maxApps = c.maxApps ∧
    (newConfigured c p).props = (match p with | none => c.props | some p => mergeProps c.props p.props) ∧
    (newConfigured c p).set = deriveSettings (!c.isParent) (match p with | none => c.props | some p => mergeProps c.props p.props) ∧
    (newConfigured c p).tpl = (if c.isParent = true then (match c.tpl.build with
        | some x => some x
        | none => (match p with | none => none | some p => p.tpl)) else none) := by
  obtain ⟨h1, h2, h3, h4, h5, h6, h7, h8, h9⟩ := applyConf_ok (blank c) c he
  have b1 : (blank c).tpl = none := rfl
  have b2 : (blank c).max = none := rfl
  have b3 : (blank c).guaranteed = none := rfl
  have b4 : (blank c).maxApps = c.maxApps := rfl
  have b5 : (blank c).parent = c.parent := rfl
  rw [b1] at h5; rw [b2] at h6; rw [b3] at h7; rw [b5] at h9
  have _ := b4
  have h8' : (applyConf (blank c) c).maxApps = c.maxApps := h8
  unfold newConfigured
  generalize applyConf (blank c) c = n at *
  cases p with
  | none =>
    simp only [h1, h2, h3, h4, h5, h6, h7, h8', h9]
    by_cases hp : c.isParent = true
    · cases hb : c.tpl.build <;> simp [hp]
    · simp [hp]
  | some p =>
    simp only []
    by_cases hp : c.isParent = true
    · simp only [h1, hp, Bool.not_true, Bool.false_eq_true, if_false, h2, h3, h4, h5, h6, h7, h8', h9, if_true]
      cases hb : c.tpl.build <;> simp
    · have hp' : c.isParent = false := by simpa using hp
      simp only [h1, hp', Bool.not_false, if_true, h2, h3, h4, h5, h6, h7, h8', h9, Bool.false_eq_true, if_false]
      simp

/-- every configuration-derived field of an existing queue after ApplyConf + MergeParentProperties +
    InheritParentTemplate + UpdateQueueProperties -/
theorem updExisting_fields (q : RQ) (c : QC) (pq : Option RQ) (he : entryErr c = none) :
    (updExisting q c pq).leaf = (!c.isParent) ∧ (updExisting q c pq).managed = true ∧ (updExisting q c pq).state = .active ∧
    (updExisting q c pq).parent = q.parent ∧
    (updExisting q c pq).max = (if c.name = "root" then q.max else setRes c.max) ∧
    (updExisting q c pq).guaranteed = (if c.name = "root" then q.guaranteed else setRes c.guaranteed) ∧
    (updExisting q c pq).maxApps = c.maxApps ∧
    (updExisting q c pq).props = (match pq with | none => c.props | some p => mergeProps c.props p.props) ∧
    (updExisting q c pq).set = deriveSettings (!c.isParent) (match pq with | none => c.props | some p => mergeProps c.props p.props) ∧
    (c.isParent = true → (updExisting q c pq).tpl = (match c.tpl.build with
        | some x => some x
        | none => (match pq with | none => none | some p => p.tpl))) := by
  obtain ⟨h1, h2, h3, h4, h5, h6, h7, h8, h9⟩ := applyConf_ok q c he
  unfold updExisting
  rw [he]
  generalize applyConf q c = n at *
  cases pq with
  | none =>
    simp only [h1, h2, h3, h4, h5, h6, h7, h8, h9]
    refine ⟨trivial, trivial, trivial, trivial, trivial, trivial, trivial, trivial, trivial, ?_⟩
    intro hp
    cases hb : c.tpl.build <;> simp [hp]
  | some p =>
    simp only []
    by_cases hp : c.isParent = true
    · simp only [h1, hp, Bool.not_true, Bool.false_eq_true, if_false, h2, h3, h4, h5, h6, h7, h8, h9, if_true]
      cases hb : c.tpl.build <;> simp
    · have hp' : c.isParent = false := by simpa using hp
      simp only [h1, hp', Bool.not_false, if_true, h2, h3, h4, h5, h6, h7, h8, h9, Bool.false_eq_true, if_false]
      simp

/-- an existing queue after the update against the queue a fresh load creates for the same entry: the same
    configuration-derived fields when the parents hand down the same properties and template — except for the
    resources of a queue NAMED root, which applyConf skips on both paths (the update keeps what the queue had) -/
theorem view_existing_vs_new (q0 : RQ) (c : QC) (p1 p2 : Option RQ) (he : entryErr c = none)
    (hpar0 : q0.parent = c.parent)
    (hparents : (p1 = none ∧ p2 = none) ∨ (∃ a b, p1 = some a ∧ p2 = some b ∧ a.props = b.props ∧ a.tpl = b.tpl))
    (hRoot : c.name = "root" → ¬ c.parent = "" → q0.max = none ∧ q0.guaranteed = none) :
    (updExisting q0 c p1).cfgView = (newConfigured c p2).cfgView ∧
    ((updExisting q0 c p1).leaf = false → (updExisting q0 c p1).tpl = (newConfigured c p2).tpl) := by
  have hprops : (match (generalizing := false) p1 with | none => c.props | some p => mergeProps c.props p.props) =
      (match (generalizing := false) p2 with | none => c.props | some p => mergeProps c.props p.props) := by
    rcases hparents with ⟨h1, h2⟩ | ⟨a, b, h1, h2, hp, _⟩
    · subst h1 h2; rfl
    · subst h1 h2; simp only [hp]
  have htplp : (match (generalizing := false) p1 with | none => none | some p => p.tpl) =
      (match (generalizing := false) p2 with | none => (none : Option Tpl) | some p => p.tpl) := by
    rcases hparents with ⟨h1, h2⟩ | ⟨a, b, h1, h2, _, ht⟩
    · subst h1 h2; rfl
    · subst h1 h2; simp only [ht]
  obtain ⟨u1, u2, u3, u4, u5, u6, u7, u8, u9, u10⟩ := updExisting_fields q0 c p1 he
  obtain ⟨n1, n2, n3, n4, n5, n6, n7, n8, n9, n10⟩ := newConfigured_fields c p2 he
  have htpl : (updExisting q0 c p1).leaf = false → (updExisting q0 c p1).tpl = (newConfigured c p2).tpl := by
    intro hl
    rw [u1] at hl
    have hp : c.isParent = true := by simpa using hl
    rw [u10 hp, n10, if_pos hp]
    cases hb : c.tpl.build with
    | some x => rfl
    | none => simp only [htplp]
  refine ⟨?_, htpl⟩
  apply cfgView_eq_of
  · rw [u1, n1]
  · rw [u2, n2]
  · rw [u3, n3]
  · rw [u4, n4, hpar0]
  · intro hne
    rw [u4, hpar0] at hne
    rw [u5, u6, n5, n6]
    by_cases hr : c.name = "root"
    · obtain ⟨hm, hg⟩ := hRoot hr hne
      simp [hr, hm, hg]
    · simp [hr]
  · rw [u7, n7]
  · rw [u8, n8, hprops]
  · rw [u9, n9, hprops]
  · exact htpl

/-- one entry: the update of the tree `t1` and the fresh load `t2` stay in agreement; the one place left where the code
    treats an existing queue differently from a new one is the resources of a queue NAMED root below the top -/
theorem applyEntry_agree (seen : List QC) (t1 t2 : Tree) (c : QC) (hag : Agree seen t1 t2) (he : entryErr c = none)
    (hnew : ∀ p ∈ seen, ¬ p.path = c.path)
    (hpar : c.parent = "" ∨ ∃ p ∈ seen, p.path = c.parent ∧ p.isParent = true)
    (hParent : ∀ q, t1.find c.path = some q → q.parent = c.parent)
    (hRoot : c.name = "root" → ¬ c.parent = "" → ∀ q, t1.find c.path = some q → q.max = none ∧ q.guaranteed = none) :
    ∃ t1', applyEntry t1 c = (t1', none) ∧ applyEntry t2 c = (t2 ++ [freshNew t2 c], none) ∧ Agree (seen ++ [c]) t1' (t2 ++ [freshNew t2 c]) := by
  obtain ⟨hag1, hag2⟩ := hag
  -- the fresh side: the path is new, the parent (if any) is there, of parent type and active
  have h2none : t2.find c.path = none := by
    cases h : t2.find c.path with
    | none => rfl
    | some q =>
      obtain ⟨p, hp, hpp⟩ := hag2 _ q h
      exact absurd hpp (hnew p hp)
  -- the parent is held by both sides with the same properties and template, of parent type and active
  have hparent : ¬ c.parent = "" → ∃ q1p q2p, t1.find c.parent = some q1p ∧ t2.find c.parent = some q2p ∧
      q1p.props = q2p.props ∧ q1p.tpl = q2p.tpl ∧ q1p.leaf = false ∧ q1p.state = .active ∧ q2p.leaf = false ∧ q2p.state = .active := by
    intro hroot
    rcases hpar with h0 | ⟨p, hps, hpp, hpt⟩
    · exact absurd h0 hroot
    · obtain ⟨q1, q2, hq1, hq2, hv, hl, hs, ht⟩ := hag1 p hps
      rw [hpp] at hq1 hq2
      obtain ⟨vl, vs, vp⟩ := cfgView_fields hv
      have hl1 : q1.leaf = false := by rw [hl, hpt]; rfl
      exact ⟨q1, q2, hq1, hq2, vp, ht hl1, hl1, hs, by rw [← vl, hl1], by rw [← vs, hs]⟩
  have hfresh : applyEntry t2 c = (t2 ++ [freshNew t2 c], none) := by
    unfold applyEntry freshNew
    simp only [h2none, he]
    by_cases hroot : c.parent = ""
    · simp only [hroot, if_true]
    · simp only [hroot, if_false]
      obtain ⟨_, q2p, _, hq2p, _, _, _, _, hl2, hs2⟩ := hparent hroot
      have : ¬ (QState.active = QState.draining) := by decide
      simp only [hq2p, hl2, hs2, Bool.false_eq_true, if_false, this]
  have hf2old : ∀ x q, t2.find x = some q → (t2 ++ [freshNew t2 c]).find x = some q :=
    fun x q h => find_append_some t2 _ x q h
  have hfnpath : (freshNew t2 c).path = c.path := by unfold freshNew; exact newConfigured_path c _
  have hf2new : (t2 ++ [freshNew t2 c]).find c.path = some (freshNew t2 c) := by
    rw [find_append_none t2 _ _ h2none]; simp [hfnpath]
  have hag2' : ∀ x q, (t2 ++ [freshNew t2 c]).find x = some q → ∃ p ∈ seen ++ [c], p.path = x := by
    intro x q hq
    cases h : t2.find x with
    | some q0 =>
      obtain ⟨p, hp, hpp⟩ := hag2 x q0 h
      exact ⟨p, List.mem_append_left _ hp, hpp⟩
    | none =>
      rw [find_append_none t2 _ x h] at hq
      by_cases hx : (freshNew t2 c).path = x
      · exact ⟨c, by simp, by rw [← hx, hfnpath]⟩
      · simp [hx] at hq
  -- assembling the agreement once the two queues at c.path are known to agree
  have finish : ∀ (t1' : Tree) (q1' : RQ), (∀ p ∈ seen, t1'.find p.path = t1.find p.path) → t1'.find c.path = some q1' →
      q1'.cfgView = (freshNew t2 c).cfgView → q1'.leaf = (!c.isParent) → q1'.state = .active →
      (q1'.leaf = false → q1'.tpl = (freshNew t2 c).tpl) →
      Agree (seen ++ [c]) t1' (t2 ++ [freshNew t2 c]) := by
    intro t1' q1' hold hnewq hv hl hs ht
    refine ⟨?_, hag2'⟩
    intro p hpm
    rcases List.mem_append.mp hpm with hps | hpc
    · obtain ⟨q1, q2, hq1, hq2, rest⟩ := hag1 p hps
      exact ⟨q1, q2, by rw [hold p hps]; exact hq1, hf2old _ _ hq2, rest⟩
    · have : p = c := by simpa using hpc
      subst this
      exact ⟨q1', freshNew t2 p, hnewq, hf2new, hv, hl, hs, ht⟩
  cases hf : t1.find c.path with
  | some q0 =>
    -- an existing queue is updated in place
    refine ⟨t1.upd c.path (fun q => updExisting q c (if c.parent = "" then none else t1.find c.parent)), ?_, hfresh, ?_⟩
    · unfold applyEntry; simp only [hf, he]
    · have hq1' := find_upd_eq t1 c.path (fun q => updExisting q c (if c.parent = "" then none else t1.find c.parent))
          (fun q => updExisting_path q c _) q0 hf
      have hview : (updExisting q0 c (if c.parent = "" then none else t1.find c.parent)).cfgView = (freshNew t2 c).cfgView ∧
          ((updExisting q0 c (if c.parent = "" then none else t1.find c.parent)).leaf = false →
            (updExisting q0 c (if c.parent = "" then none else t1.find c.parent)).tpl = (freshNew t2 c).tpl) := by
        unfold freshNew
        apply view_existing_vs_new q0 c _ _ he (hParent q0 hf)
        · by_cases hroot : c.parent = ""
          · left; simp only [hroot, if_true, and_self]
          · obtain ⟨q1p, q2p, hq1p, hq2p, hpp, hpt, _⟩ := hparent hroot
            right
            exact ⟨q1p, q2p, by simp only [hroot, if_false, hq1p], by simp only [hroot, if_false, hq2p], hpp, hpt⟩
        · exact fun hr hne => hRoot hr hne q0 hf
      exact finish _ _ (fun p hp => find_upd_ne _ _ _ _ (fun q => updExisting_path q c _) (hnew p hp)) hq1' hview.1
        (updExisting_ok q0 c _ he).1 (updExisting_ok q0 c _ he).2.1 hview.2
  | none =>
    -- a new queue on both sides: created from the same entry below parents that agree
    have hsame : ∀ p1 : Option RQ, (match p1, (if c.parent = "" then none else t2.find c.parent) with
          | none, none => True
          | some a, some b => a.props = b.props ∧ a.tpl = b.tpl
          | _, _ => False) → newConfigured c p1 = freshNew t2 c := by
      intro p1 h
      unfold freshNew
      cases p1 with
      | none => cases h2 : (if c.parent = "" then none else t2.find c.parent) with
        | none => rfl
        | some b => rw [h2] at h; exact absurd h id
      | some a => cases h2 : (if c.parent = "" then none else t2.find c.parent) with
        | none => rw [h2] at h; exact absurd h id
        | some b => rw [h2] at h; exact newConfigured_congr c a b h.1 h.2
    by_cases hroot : c.parent = ""
    · refine ⟨t1 ++ [newConfigured c none], ?_, hfresh, ?_⟩
      · unfold applyEntry; simp only [hf, he, hroot, if_true]
      · have heq : newConfigured c none = freshNew t2 c := hsame none (by simp [hroot])
        have hq : (t1 ++ [newConfigured c none]).find c.path = some (newConfigured c none) := by
          rw [find_append_none t1 _ _ hf]; simp [newConfigured_path]
        refine finish _ _ (fun p hp => ?_) hq (by rw [heq]) (newConfigured_ok c none he).1 (newConfigured_ok c none he).2.1 (fun _ => by rw [heq])
        obtain ⟨q1, _, hq1, _⟩ := hag1 p hp
        rw [hq1]; exact find_append_some t1 _ _ q1 hq1
    · obtain ⟨q1p, q2p, hq1p, hq2p, hpp, hpt, hl1, hs1, _, _⟩ := hparent hroot
      refine ⟨t1 ++ [newConfigured c (some q1p)], ?_, hfresh, ?_⟩
      · unfold applyEntry
        have : ¬ (QState.active = QState.draining) := by decide
        simp only [hf, he, hroot, if_false, hq1p, hl1, hs1, Bool.false_eq_true, this]
      · have heq : newConfigured c (some q1p) = freshNew t2 c := hsame (some q1p) (by simp [hroot, hq2p, hpp, hpt])
        have hq : (t1 ++ [newConfigured c (some q1p)]).find c.path = some (newConfigured c (some q1p)) := by
          rw [find_append_none t1 _ _ hf]; simp [newConfigured_path]
        refine finish _ _ (fun p hp => ?_) hq (by rw [heq]) (newConfigured_ok c _ he).1 (newConfigured_ok c _ he).2.1 (fun _ => by rw [heq])
        obtain ⟨q1, _, hq1, _⟩ := hag1 p hp
        rw [hq1]; exact find_append_some t1 _ _ q1 hq1

/-- the fresh side of a step alone: the path is new there, the parent is in place, the queue is appended -/
theorem applyEntry_fresh_side (seen : List QC) (t1 t2 : Tree) (c : QC) (hag : Agree seen t1 t2) (he : entryErr c = none)
    (hnew : ∀ p ∈ seen, ¬ p.path = c.path)
    (hpar : c.parent = "" ∨ ∃ p ∈ seen, p.path = c.parent ∧ p.isParent = true) :
    t2.find c.path = none ∧ applyEntry t2 c = (t2 ++ [freshNew t2 c], none) := by
  obtain ⟨hag1, hag2⟩ := hag
  have h2none : t2.find c.path = none := by
    cases h : t2.find c.path with
    | none => rfl
    | some q =>
      obtain ⟨p, hp, hpp⟩ := hag2 _ q h
      exact absurd hpp (hnew p hp)
  refine ⟨h2none, ?_⟩
  unfold applyEntry freshNew
  simp only [h2none, he]
  by_cases hroot : c.parent = ""
  · simp only [hroot, if_true]
  · simp only [hroot, if_false]
    rcases hpar with h0 | ⟨p, hps, hpp, hpt⟩
    · exact absurd h0 hroot
    · obtain ⟨q1, q2, hq1, hq2, hv, hl, hs, ht⟩ := hag1 p hps
      rw [hpp] at hq2
      obtain ⟨vl, vs, _⟩ := cfgView_fields hv
      have hl2 : q2.leaf = false := by rw [← vl, hl, hpt]; rfl
      have hs2 : q2.state = .active := by rw [← vs, hs]
      have : ¬ (QState.active = QState.draining) := by decide
      simp only [hq2, hl2, hs2, Bool.false_eq_true, if_false, this]

theorem confWFAux_distinct (conf : List QC) : ∀ seen : List QC, confWFAux seen conf = true → ∀ c ∈ conf, ∀ p ∈ seen, ¬ p.path = c.path := by
  induction conf with
  | nil => intro _ _ c hc; cases hc
  | cons a r ih =>
    intro seen hwf c hc p hp
    unfold confWFAux at hwf
    simp only [Bool.and_eq_true, Bool.not_eq_true', List.any_eq_false, decide_eq_true_eq] at hwf
    cases hc with
    | head => exact hwf.1.1 p hp
    | tail _ hm => exact ih (seen ++ [a]) hwf.2 c hm p (List.mem_append_left _ hp)

theorem confWFAux_tail_distinct (a : QC) (r seen : List QC) (hwf : confWFAux seen (a :: r) = true) : ∀ c ∈ r, ¬ a.path = c.path := by
  intro c hc
  unfold confWFAux at hwf
  simp only [Bool.and_eq_true] at hwf
  exact confWFAux_distinct r (seen ++ [a]) hwf.2 c hc a (by simp)

/-- the whole walk: update and fresh load stay in agreement on every entry -/
theorem applyAll_agree (conf : List QC) : ∀ (seen : List QC) (t1 t2 : Tree), Agree seen t1 t2 → confWFAux seen conf = true →
    (∀ c ∈ conf, entryErr c = none) →
    (∀ c ∈ conf, ∀ q, t1.find c.path = some q → q.parent = c.parent) →
    (∀ c ∈ conf, c.name = "root" → ¬ c.parent = "" → ∀ q, t1.find c.path = some q → q.max = none ∧ q.guaranteed = none) →
    ∃ t1' t2', applyAll t1 conf = (t1', none) ∧ applyAll t2 conf = (t2', none) ∧ Agree (seen ++ conf) t1' t2' := by
  induction conf with
  | nil => intro seen t1 t2 hag _ _ _ _; exact ⟨t1, t2, rfl, rfl, by simpa using hag⟩
  | cons a r ih =>
    intro seen t1 t2 hag hwf herr hPar hRoot
    have hdist := confWFAux_tail_distinct a r seen hwf
    have hwf0 := hwf
    unfold confWFAux at hwf
    simp only [Bool.and_eq_true, Bool.not_eq_true', List.any_eq_false, Bool.or_eq_true, decide_eq_true_eq, List.any_eq_true] at hwf
    obtain ⟨⟨hnew, hpar⟩, hrest⟩ := hwf
    have hpar' : a.parent = "" ∨ ∃ p ∈ seen, p.path = a.parent ∧ p.isParent = true := by
      rcases hpar with h | ⟨p, hp1, hp2⟩
      · exact Or.inl h
      · exact Or.inr ⟨p, hp1, hp2⟩
    have hea := herr a (List.mem_cons_self ..)
    obtain ⟨_, hfresh⟩ := applyEntry_fresh_side seen t1 t2 a hag hea hnew hpar'
    -- the fresh walk as a whole, unfolded one step
    have hall2 : applyAll t2 (a :: r) = applyAll (t2 ++ [freshNew t2 a]) r := by
      conv => lhs; unfold applyAll
      rw [hfresh]
    obtain ⟨t1a, h1a, _, haga⟩ := applyEntry_agree seen t1 t2 a hag hea hnew hpar'
      (hPar a (List.mem_cons_self ..)) (hRoot a (List.mem_cons_self ..))
    -- the hypotheses about the rest carry over: the step touched a.path only
    have hother : ∀ c ∈ r, t1a.find c.path = t1.find c.path := by
      intro c hc
      have := applyEntry_find_other t1 a c.path (fun h => hdist c hc h.symm)
      rw [h1a] at this; exact this
    obtain ⟨t1', t2', h1', h2', hag'⟩ := ih (seen ++ [a]) t1a (t2 ++ [freshNew t2 a]) haga hrest
      (fun c hc => herr c (List.mem_cons_of_mem _ hc))
      (fun c hc q hq => hPar c (List.mem_cons_of_mem _ hc) q (by rw [← hother c hc]; exact hq))
      (fun c hc hr hne q hq => hRoot c (List.mem_cons_of_mem _ hc) hr hne q (by rw [← hother c hc]; exact hq))
    refine ⟨t1', t2', ?_, ?_, by simpa using hag'⟩
    · unfold applyAll; rw [h1a]; exact h1'
    · rw [hall2]; exact h2'

/-- **refinement**: after an accepted update every configured queue carries the configuration-derived fields the
    fresh load of the same configuration gives it (inherited properties and inherited child templates included) — as
    long as a queue NAMED root below the top queue has no resources (applyConf skips the resources of such a queue on
    both paths, so the update keeps what the queue had: C16.L2), and the tree names parents the way the configuration does -/
theorem updateTree_refines_fresh (t t' tf : Tree) (conf : List QC) (hwf : confWF conf = true)
    (hupd : updateTree t conf = (t', none)) (hfresh : applyAll [] conf = (tf, none))
    (hPar : ∀ c ∈ conf, ∀ q, t.find c.path = some q → q.parent = c.parent)
    (hRoot : ∀ c ∈ conf, c.name = "root" → ¬ c.parent = "" → ∀ q, t.find c.path = some q → q.max = none ∧ q.guaranteed = none) :
    ∀ c ∈ conf, ∃ q qf, t'.find c.path = some q ∧ tf.find c.path = some qf ∧ q.cfgView = qf.cfgView := by
  intro c hc
  have herr := applyAll_noerr_entryErr conf [] tf hfresh
  have hag0 : Agree [] t [] := by
    refine ⟨?_, ?_⟩
    · intro p hp; cases hp
    · intro x q h; simp [Tree.find] at h
  obtain ⟨t1', t2', h1, h2, hag⟩ := applyAll_agree conf [] t [] hag0 hwf herr hPar hRoot
  rw [hfresh] at h2
  simp only [Prod.mk.injEq, and_true] at h2
  subst h2
  obtain ⟨q1, q2, hq1, hq2, hv, _, _, _⟩ := hag.1 c (by simpa using hc)
  refine ⟨q1, q2, ?_, hq2, hv⟩
  unfold updateTree at hupd
  rw [h1] at hupd
  simp only [Prod.mk.injEq, and_true] at hupd
  rw [← hupd]
  unfold markMissing
  rw [find_map_pres _ _ _ (by intro q; split <;> rfl), hq1]
  have hcq : configured conf q1.path = true := by rw [find_some_path hq1]; exact configured_mem hc
  simp [hcq]

theorem parentsAgree_spec (t : Tree) (conf : List QC) (h : parentsAgree t conf = true) :
    ∀ c ∈ conf, ∀ q, t.find c.path = some q → q.parent = c.parent := by
  intro c hc q hq
  unfold parentsAgree at h
  have := List.all_eq_true.mp h c hc
  rw [hq] at this
  simpa using this

theorem noNamedRoot_spec (conf : List QC) (h : noNamedRoot conf = true) : ∀ c ∈ conf, c.name = "root" → c.parent = "" := by
  intro c hc hr
  unfold noNamedRoot at h
  have := List.all_eq_true.mp h c hc
  simpa [hr] using this

/-! ### draining does not change what a parent offers to the scheduler -/

theorem remove_stopped_iff (s : QState) : s.remove = .stopped ↔ s = .stopped := by cases s <;> simp [QState.remove]

theorem offered_map (t : Tree) (f : RQ → RQ) (hp : ∀ q, (f q).path = q.path) (hpar : ∀ q, (f q).parent = q.parent)
    (hpend : ∀ q, (f q).pending = q.pending) (hleaf : ∀ q, (f q).leaf = q.leaf)
    (hst : ∀ q, ((f q).state = .stopped ↔ q.state = .stopped)) (p : String) :
    offered (t.map f) p = offered t p := by
  unfold offered
  rw [find_map_pres t p f hp]
  cases t.find p with
  | none => rfl
  | some q =>
    simp only [Option.map_some, hleaf]
    split
    · rfl
    · rw [List.filter_map, List.map_map]
      have hg : ((fun c : RQ => decide (c.parent = p) && !(decide (c.state = .stopped)) && strictlyGreaterThanZero (some c.pending)) ∘ f) =
          (fun c : RQ => decide (c.parent = p) && !(decide (c.state = .stopped)) && strictlyGreaterThanZero (some c.pending)) := by
        funext c
        simp only [Function.comp, hpar, hpend]
        have := hst c
        by_cases h1 : (f c).state = .stopped
        · simp [h1, this.mp h1]
        · have h2 : ¬ c.state = .stopped := fun h => h1 (this.mpr h)
          simp [h1, h2]
      have hm : ((fun x : RQ => x.path) ∘ f) = (fun x : RQ => x.path) := by funext c; simp [Function.comp, hp]
      rw [hg, hm]

theorem offered_markMissing (t : Tree) (conf : List QC) (p : String) : offered (markMissing t conf) p = offered t p := by
  unfold markMissing
  apply offered_map
  · intro q; split <;> rfl
  · intro q; split <;> rfl
  · intro q; split <;> rfl
  · intro q; split <;> rfl
  · intro q
    split
    · exact remove_stopped_iff q.state
    · exact Iff.rfl

theorem offered_mem (t : Tree) (p : String) (q c : RQ) (hq : t.find p = some q) (hl : q.leaf = false) (hc : c ∈ t)
    (hpar : c.parent = p) (hs : ¬ c.state = .stopped) (hpend : strictlyGreaterThanZero (some c.pending) = true) :
    c.path ∈ offered t p := by
  unfold offered
  rw [hq]
  simp only [hl, Bool.false_eq_true, if_false]
  exact List.mem_map.mpr ⟨c, List.mem_filter.mpr ⟨hc, by simp [hpar, hs, hpend]⟩, rfl⟩

/-! ### submission to a draining queue -/

theorem admits_draining (t : Tree) (p : String) (create : Bool) (q : RQ) (h : t.find p = some q) (hd : q.state = .draining) :
    admits t p create = false := by
  unfold admits; rw [h]; simp [hd]

theorem admits_below_draining (t : Tree) (p : String) (create : Bool) (a : RQ) (h : t.find p = none)
    (hn : nearest t (p.length + 1) (parentPath p) = some a) (hd : a.state = .draining) : admits t p create = false := by
  unfold admits; rw [h]; simp [hn, hd]

/-! ### inherited properties -/

theorem get?_append (a b : Props) (k : String) : Props.get? (a ++ b) k = (Props.get? a k).or (Props.get? b k) := by
  unfold Props.get?
  rw [List.find?_append]
  cases List.find? (fun e => decide (e.1 = k)) a <;> simp

theorem get?_none_iff (a : Props) (k : String) : Props.get? a k = none ↔ a.any (fun o => decide (o.1 = k)) = false := by
  unfold Props.get?
  simp [List.find?_eq_none, List.any_eq_false]

theorem get?_filter_map (parent own : Props) (k : String) (h : own.any (fun o => decide (o.1 = k)) = false) :
    Props.get? ((parent.filter (fun e => !(own.any (fun o => decide (o.1 = e.1))))).map (fun e => (e.1, filterParentProperty e.1 e.2))) k =
      (Props.get? parent k).map (filterParentProperty k) := by
  induction parent with
  | nil => rfl
  | cons a r ih =>
    rw [List.filter_cons]
    by_cases hk : a.1 = k
    · have hpass : (!(own.any (fun o => decide (o.1 = a.1)))) = true := by rw [hk, h]; rfl
      simp only [hpass, if_true, List.map_cons]
      unfold Props.get?
      rw [List.find?_cons_of_pos (by simp [hk]), List.find?_cons_of_pos (by simp [hk])]
      simp [hk]
    · by_cases hpass : (!(own.any (fun o => decide (o.1 = a.1)))) = true
      · simp only [hpass, if_true, List.map_cons]
        unfold Props.get? at ih ⊢
        rw [List.find?_cons_of_neg (by simp [hk]), List.find?_cons_of_neg (by simp [hk])]
        exact ih
      · simp only [hpass, Bool.false_eq_true, if_false]
        unfold Props.get? at ih ⊢
        rw [List.find?_cons_of_neg (by simp [hk])]
        exact ih

/-- the effective value of a property: the queue's own, otherwise the parent's effective value as filterParentProperty
    lets it through -/
theorem mergeProps_get? (own parent : Props) (k : String) :
    Props.get? (mergeProps own parent) k =
      (match Props.get? own k with
       | some v => some v
       | none => (Props.get? parent k).map (filterParentProperty k)) := by
  unfold mergeProps
  rw [get?_append]
  cases h : Props.get? own k with
  | some v => rfl
  | none =>
    rw [get?_filter_map parent own k ((get?_none_iff own k).mp h)]
    rfl

/-! ### what a fresh load gives a configured queue -/

/-- what its entry says, as a predicate on a queue (`pp` = effective properties of the parent queue) -/
def Carries (c : QC) (pp : Props) (q : RQ) : Prop :=
  q.leaf = (!c.isParent) ∧ q.managed = true ∧ q.state = .active ∧ q.parent = c.parent ∧
  q.max = (if c.name = "root" then none else setRes c.max) ∧ q.guaranteed = (if c.name = "root" then none else setRes c.guaranteed) ∧
  q.maxApps = c.maxApps ∧
  q.props = (if c.parent = "" then c.props else mergeProps c.props pp) ∧
  q.set = deriveSettings (!c.isParent) q.props

/-- the queues a fresh walk over the entries seen so far has left: each carries what its entry says, and nothing else is there -/
def FreshOK (seen : List QC) (t : Tree) : Prop :=
  (∀ c ∈ seen, ∃ q, t.find c.path = some q ∧ Carries c (t.parentProps c.parent) q ∧ (c.parent = "" ∨ (t.find c.parent).isSome)) ∧
  (∀ x q, t.find x = some q → ∃ p ∈ seen, p.path = x)

theorem parentProps_append (t : Tree) (n : RQ) (x : String) (h : (t.find x).isSome) : (t ++ [n]).parentProps x = t.parentProps x := by
  unfold Tree.parentProps
  cases hf : t.find x with
  | none => rw [hf] at h; cases h
  | some q => rw [find_append_some t n x q hf]

theorem fresh_step (seen : List QC) (t : Tree) (c : QC) (hok : FreshOK seen t) (he : entryErr c = none)
    (hnew : ∀ p ∈ seen, ¬ p.path = c.path)
    (hpar : c.parent = "" ∨ ∃ p ∈ seen, p.path = c.parent ∧ p.isParent = true) :
    ∃ t', applyEntry t c = (t', none) ∧ FreshOK (seen ++ [c]) t' := by
  obtain ⟨h1, h2⟩ := hok
  have hnone : t.find c.path = none := by
    cases h : t.find c.path with
    | none => rfl
    | some q => obtain ⟨p, hp, hpp⟩ := h2 _ q h; exact absurd hpp (hnew p hp)
  -- appending a queue for `c` keeps the invariant
  have key : ∀ (n : RQ), n.path = c.path → Carries c (t.parentProps c.parent) n → (c.parent = "" ∨ (t.find c.parent).isSome) →
      FreshOK (seen ++ [c]) (t ++ [n]) := by
    intro n hn hc hpp
    refine ⟨?_, ?_⟩
    · intro p hpm
      rcases List.mem_append.mp hpm with hps | hpc
      · obtain ⟨q, hq, hcar, hpa⟩ := h1 p hps
        refine ⟨q, find_append_some t n _ q hq, ?_, ?_⟩
        · rcases hpa with h0 | hs
          · unfold Carries at hcar ⊢; simpa [h0] using hcar
          · rw [parentProps_append t n _ hs]; exact hcar
        · rcases hpa with h0 | hs
          · exact Or.inl h0
          · right
            cases hf : t.find p.parent with
            | none => rw [hf] at hs; cases hs
            | some pq => rw [find_append_some t n _ pq hf]; rfl
      · have : p = c := by simpa using hpc
        subst this
        refine ⟨n, by rw [find_append_none t n _ hnone]; simp [hn], ?_, ?_⟩
        · rcases hpp with h0 | hs
          · unfold Carries at hc ⊢; simpa [h0] using hc
          · rw [parentProps_append t n _ hs]; exact hc
        · rcases hpp with h0 | hs
          · exact Or.inl h0
          · right
            cases hf : t.find p.parent with
            | none => rw [hf] at hs; cases hs
            | some pq => rw [find_append_some t n _ pq hf]; rfl
    · intro x q hq
      cases h : t.find x with
      | some q0 => obtain ⟨p, hp, hpp⟩ := h2 x q0 h; exact ⟨p, List.mem_append_left _ hp, hpp⟩
      | none =>
        rw [find_append_none t n x h] at hq
        by_cases hx : n.path = x
        · exact ⟨c, by simp, by rw [← hx, hn]⟩
        · simp [hx] at hq
  unfold applyEntry
  simp only [hnone, he]
  by_cases hroot : c.parent = ""
  · simp only [hroot, if_true]
    refine ⟨_, rfl, key _ (newConfigured_path c none) ?_ (Or.inl hroot)⟩
    obtain ⟨n1, n2, n3, n4, n5, n6, n7, n8, n9, _⟩ := newConfigured_fields c none he
    exact ⟨n1, n2, n3, n4, n5, n6, n7, by rw [n8]; simp [hroot], by rw [n9, n8]⟩
  · simp only [hroot, if_false]
    rcases hpar with h0 | ⟨p, hps, hpp, hpt⟩
    · exact absurd h0 hroot
    · obtain ⟨q, hq, hcar, _⟩ := h1 p hps
      rw [hpp] at hq
      obtain ⟨hl, _, hs, _⟩ := hcar
      have hl' : q.leaf = false := by rw [hl, hpt]; rfl
      have : ¬ (QState.active = QState.draining) := by decide
      simp only [hq, hl', hs, Bool.false_eq_true, if_false, this]
      refine ⟨_, rfl, key _ (newConfigured_path c (some q)) ?_ (Or.inr (by rw [hq]; rfl))⟩
      obtain ⟨n1, n2, n3, n4, n5, n6, n7, n8, n9, _⟩ := newConfigured_fields c (some q) he
      have hpp' : t.parentProps c.parent = q.props := by unfold Tree.parentProps; rw [hq]
      exact ⟨n1, n2, n3, n4, n5, n6, n7, by rw [n8]; simp [hroot, hpp'], by rw [n9, n8]⟩

theorem fresh_all (conf : List QC) : ∀ (seen : List QC) (t : Tree), FreshOK seen t → confWFAux seen conf = true →
    (∀ c ∈ conf, entryErr c = none) → ∃ t', applyAll t conf = (t', none) ∧ FreshOK (seen ++ conf) t' := by
  induction conf with
  | nil => intro seen t hp _ _; exact ⟨t, rfl, by simpa using hp⟩
  | cons a r ih =>
    intro seen t hp hwf herr
    unfold confWFAux at hwf
    simp only [Bool.and_eq_true, Bool.not_eq_true', List.any_eq_false, Bool.or_eq_true, decide_eq_true_eq, List.any_eq_true] at hwf
    obtain ⟨⟨hnew, hpar⟩, hrest⟩ := hwf
    have hpar' : a.parent = "" ∨ ∃ p ∈ seen, p.path = a.parent ∧ p.isParent = true := by
      rcases hpar with h | ⟨p, hp1, hp2⟩
      · exact Or.inl h
      · exact Or.inr ⟨p, hp1, hp2⟩
    obtain ⟨t1, h1, hp1⟩ := fresh_step seen t a hp (herr a (List.mem_cons_self ..)) hnew hpar'
    obtain ⟨t2, h2, hp2⟩ := ih (seen ++ [a]) t1 hp1 hrest (fun c hc => herr c (List.mem_cons_of_mem _ hc))
    refine ⟨t2, ?_, by simpa using hp2⟩
    unfold applyAll
    rw [h1]
    exact h2

/-- a fresh load gives every configured queue what its entry says: type, limits (resources unless the queue is NAMED
    root), maxapplications, its own properties over the filtered effective properties of its parent, and the settings
    derived from them -/
theorem fresh_carries (conf : List QC) (hwf : confWF conf = true) (tf : Tree) (hfresh : applyAll [] conf = (tf, none)) :
    ∀ c ∈ conf, ∃ q, tf.find c.path = some q ∧ Carries c (tf.parentProps c.parent) q := by
  have herr := applyAll_noerr_entryErr conf [] tf hfresh
  have h0 : FreshOK [] [] := by
    refine ⟨?_, ?_⟩
    · intro p hp; cases hp
    · intro x q h; simp [Tree.find] at h
  obtain ⟨t', h, hok⟩ := fresh_all conf [] [] h0 hwf herr
  rw [hfresh] at h
  simp only [Prod.mk.injEq, and_true] at h
  subst h
  intro c hc
  obtain ⟨q, hq, hcar, _⟩ := hok.1 c (by simpa using hc)
  exact ⟨q, hq, hcar⟩

/-- the configuration-derived fields an entry prescribes (effective parent properties `pp`), as a view -/
def QC.view (c : QC) (pp : Props) (tpl : Option Tpl) : CfgView :=
  let props := if c.parent = "" then c.props else mergeProps c.props pp
  { leaf := !c.isParent, managed := true, state := .active,
    max := if c.parent = "" then none else if c.name = "root" then none else setRes c.max,
    guaranteed := if c.parent = "" then none else if c.name = "root" then none else setRes c.guaranteed,
    maxApps := c.maxApps, props := props, set := deriveSettings (!c.isParent) props,
    tpl := if c.isParent then tpl else none }

theorem carries_view (c : QC) (pp : Props) (q : RQ) (h : Carries c pp q) : q.cfgView = c.view pp q.tpl := by
  obtain ⟨h1, h2, h3, h4, h5, h6, h7, h8, h9⟩ := h
  unfold RQ.cfgView QC.view
  rw [h9, h8, h1, h2, h3, h4, h5, h6, h7]
  cases c.isParent <;> simp

end Yk.Reload
