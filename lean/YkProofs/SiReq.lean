/- C13 — lemmas about the validation / decision layer (YkModel/SiReq.lean). -/
import YkModel.SiReq
namespace Yk.Si
open Res Core

/-! ### no item panics -/

theorem deref_of_isSome {α : Type} (site : String) (o : Option α) (h : o.isSome = true) : ∃ a, deref site o = .ok a := by
  cases o with
  | none => simp at h
  | some a => exact ⟨a, rfl⟩

theorem convertUGI_no_panic (env : Env) (ugi : Option Ugi) (force : Bool) : ∃ r, convertUGI env ugi force = .ok r := by
  unfold convertUGI
  cases ugi with
  | none =>
    cases force <;> simp [deref, bind, Except.bind, pure, Except.pure]
    all_goals (repeat' split)
    all_goals exact ⟨_, rfl⟩
  | some u =>
    by_cases hu : u.user = "" <;> cases force <;> simp [hu, deref, bind, Except.bind, pure, Except.pure]
    all_goals (repeat' split)
    all_goals exact ⟨_, rfl⟩

theorem releaseBound_no_panic (s : Core) (app : CApp) (i : CItem) (r : Release) : ∃ x, releaseBound s app i r = .ok x := by
  unfold releaseBound
  split
  · rename_i h
    have h2 : i.release.isSome = true := by simp at h; exact h.2
    obtain ⟨a, ha⟩ := deref_of_isSome "removeAllocation: alloc.GetRelease()" i.release h2
    exact ⟨_, by rw [ha]; rfl⟩
  · exact ⟨_, rfl⟩

theorem handleRelease_no_panic (env : Env) (s : Core) (r : Release) : ∃ x, handleRelease env s r = .ok x := by
  unfold handleRelease
  repeat' split
  all_goals first | exact ⟨_, rfl⟩ | exact releaseBound_no_panic _ _ _ _

theorem handleAppNew_no_panic (env : Env) (s : Core) (a : AppNew) : ∃ x, handleAppNew env s a = .ok x := by
  unfold handleAppNew
  split
  · exact ⟨_, rfl⟩
  · obtain ⟨u, hu⟩ := convertUGI_no_panic env a.ugi (isForced a.tags)
    rw [hu]
    simp only [bind, Except.bind]
    repeat' split
    all_goals exact ⟨_, rfl⟩

theorem handle_no_panic (env : Env) (s : Core) (i : Item) : ∃ r, handle env s i = .ok r := by
  cases i with
  | alloc a => exact ⟨_, rfl⟩
  | release r => exact handleRelease_no_panic env s r
  | appNew a => exact handleAppNew_no_panic env s a
  | appRemove r => exact ⟨_, rfl⟩
  | node n => exact ⟨_, rfl⟩

/-! ### the shape of an answer: a refusal changes nothing and carries exactly the protocol's message -/

def isRejection : Msg → Bool
  | .rejectedAlloc _ _ _ | .rejectedApp _ _ | .rejectedNode _ _ => true
  | _ => false

def Shaped (s : Core) (i : Item) (r : Result) : Prop :=
  match r.verdict with
  | .reject w => r.state = some s ∧ ∃ mk, rejection i = some mk ∧ r.msgs = [mk w]
  | .ignore _ => r.state = some s ∧ r.msgs = []
  | .accept _ => ∀ m ∈ r.msgs, isRejection m = false

theorem shaped_rej (s : Core) (i : Item) (w : Why) (mk : Why → Msg) (h : rejection i = some mk) : Shaped s i (rej s w (mk w)) := by
  simp [Shaped, rej, h]

theorem shaped_ign (s : Core) (i : Item) (w : Why) : Shaped s i (ign s w) := by simp [Shaped, ign]

theorem shaped_acc (s : Core) (i : Item) (h : How) (st : Option Core) (msgs : List Msg) (hm : ∀ m ∈ msgs, isRejection m = false) :
    Shaped s i (acc h st msgs) := by
  simpa [Shaped, acc] using hm

theorem handleAlloc_shaped (env : Env) (s : Core) (a : Alloc) : Shaped s (.alloc a) (handleAlloc env s a) := by
  unfold handleAlloc handleForeign
  simp only []
  repeat' split
  all_goals first
    | exact shaped_rej _ _ _ (Msg.rejectedAlloc a.key a.app) rfl
    | exact shaped_ign _ _ _
    | (apply shaped_acc; simp [isRejection])

/-! ### an invalid item outside the gap classes is refused -/

theorem neg_not_sgtz (r : ORes) (h : hasNegativeValue r = true) : strictlyGreaterThanZero (some (resOf r)) = false := by
  cases r with
  | none => simp [hasNegativeValue] at h
  | some l =>
    simp only [hasNegativeValue] at h
    simp [strictlyGreaterThanZero, resOf, h]

theorem alloc_invalid_rejected (env : Env) (s : Core) (a : Alloc) (w : Why)
    (hinv : invalid env s (.alloc a) = some w) (hgap : gapOf env s (.alloc a) = none) :
    ∃ w', (handleAlloc env s a).verdict = .reject w' := by
  unfold invalid at hinv
  unfold gapOf at hgap
  unfold handleAlloc handleForeign
  by_cases hp : env.isPart a.part = true
  · by_cases hq : (a.ph && a.tg == "") = true
    · simp [hp, hq, rej]
    · by_cases hk : (a.key == "") = true
      · simp [hp, hq, hk] at hgap
      · by_cases hf : isForeign a = true
        · by_cases hn : hasNegativeValue a.res = true
          · simp only [hp, hq, hf, Bool.not_true, Bool.false_eq_true, ↓reduceIte]
            by_cases hnode : a.node = ""
            · simp [hnode, rej]
            · cases hfn : s.findNode a.node with
              | none => simp [hnode, rej]
              | some n => simp [hnode, hn, rej]
          · simp [hp, hq, hk, hf, hn] at hgap hinv ⊢
            by_cases hnode : a.node = ""
            · simp [hnode, rej]
            · cases hfn : s.findNode a.node with
              | none => simp [hnode, rej]
              | some n =>
                by_cases hd : keyInUseElsewhere s a = true
                · simp [hd] at hgap
                · by_cases hm : foreignMoved s a = true
                  · simp [hd, hm] at hgap
                  · simp [hnode, hfn, hd, hm] at hinv
        · simp [hp, hq, hk, hf] at hgap hinv ⊢
          cases hfa : s.findApp a.app with
          | none => simp [rej]
          | some app =>
            simp only []
            by_cases hnd : ¬a.node = "" ∧ s.findNode a.node = none
            · simp [hnd, rej]
            · by_cases hz : isZero (some (resOf a.res)) = true
              · simp [hnd, hz, rej]
              · by_cases hng : hasNegativeValue a.res = true
                · simp [hnd, hz, neg_not_sgtz a.res hng, rej]
                · by_cases hd : keyInUseElsewhere s a = true
                  · simp [hd] at hgap
                  · by_cases hm : foreignMoved s a = true
                    · simp [hd, hm] at hgap
                    · have hst : staleAsk s a = true := by
                        simp [hng, hfa, hnd, hz, hd] at hinv
                        exact hinv.1
                      have hub : unboundAsk s a = true := by
                        unfold staleAsk at hst
                        unfold unboundAsk
                        simp [hfa] at hst ⊢
                        refine ⟨by simpa using hf, ?_⟩
                        cases hask : findAsk app a.key with
                        | none => simp [hask] at hst
                        | some ex => simp [hask] at hst ⊢; exact ⟨hst.1.1, hst.1.2⟩
                      simp [hd, hm, hub] at hgap
  · simp [hp, rej]

theorem find?_none_of_any_false {α : Type} (p : α → Bool) (l : List α) (h : l.any p = false) : l.find? p = none := by
  rw [List.find?_eq_none]
  intro x hx
  have := List.any_eq_false.mp h x hx
  simpa using this

theorem release_invalid_ignored (env : Env) (s : Core) (r : Release) (w : Why)
    (hinv : invalid env s (.release r) = some w) (hgap : gapOf env s (.release r) = none) :
    ∃ x w', handleRelease env s r = .ok x ∧ x.verdict = .ignore w' ∧ x.state = some s ∧ x.msgs = [] := by
  simp only [invalid] at hinv
  simp only [gapOf] at hgap
  unfold handleRelease
  by_cases hp : env.isPart r.part = true
  · by_cases ha : r.app = ""
    · by_cases hfk : r.key ∈ s.foreign
      · simp [hp, ha, hfk] at hinv
      · simp [hp, ha, hfk, ign]
    · cases hfa : s.findApp r.app with
      | none => simp [hp, ha, ign]
      | some app =>
        by_cases hk : r.key = ""
        · simp [hp, ha, hfa, hk] at hinv
        · by_cases hb : app.items.any (fun i => i.key == r.key && i.bound) = true
          · simp [hp, ha, hfa, hb] at hinv
          · have hb' : app.items.any (fun i => i.key == r.key && i.bound) = false := by simpa using hb
            have hfind := find?_none_of_any_false _ _ hb'
            simp only [hp, ha, hk, hfind, Bool.not_true, Bool.false_eq_true, ↓reduceIte, beq_iff_eq]
            unfold releaseUnbound
            cases hask : findAsk app r.key with
            | some i =>
              by_cases ht : r.ttype = 2
              · simp [ht, ign]
              · simp [hp, ha, hfa, hk, hb', hask, ht] at hinv
            | none =>
              by_cases hq : (r.ttype != 2 && idleButHoldingAsks app) = true
              · simp [hp, ha, hfa, hq] at hgap
              · simp [hq, ign]
  · simp [hp, ign]

/-- ConvertUGI without the error monad (it never panics) -/
def ugiResult (env : Env) (ugi : Option Ugi) (force : Bool) : Except Why Ugi :=
  if (match ugi with | none => true | some u => u.user == "") then
    (if force then (if env.userOK anonymous.user then .ok anonymous else .error .userInvalid) else .error .userEmpty)
  else match ugi with
    | none => .error .userEmpty
    | some u => if u.groups.isEmpty then .ok { u with groups := [u.user] }
                else if env.userOK u.user then .ok u else .error .userInvalid

theorem convertUGI_eq (env : Env) (ugi : Option Ugi) (force : Bool) :
    convertUGI env ugi force = .ok (ugiResult env ugi force) := by
  unfold convertUGI ugiResult
  cases ugi with
  | none =>
    cases force <;> simp [deref, bind, Except.bind, pure, Except.pure, anonymous]
    split <;> simp_all
  | some u =>
    by_cases hu : u.user = "" <;> cases force <;> simp [hu, deref, bind, Except.bind, pure, Except.pure, anonymous]
    all_goals (repeat' split)
    all_goals simp_all

/-- handleAppNew without the error monad -/
def appNewPure (env : Env) (s : Core) (a : AppNew) : Result :=
  if !(env.isPart a.part) then rej s .partition (.rejectedApp a.id .partition)
  else match ugiResult env a.ugi (isForced a.tags) with
    | .error w => rej s w (.rejectedApp a.id w)
    | .ok _ =>
      if (s.findApp a.id).isSome then rej s .duplicateApp (.rejectedApp a.id .duplicateApp)
      else if !(env.place a) then rej s .placement (.rejectedApp a.id .placement)
      else acc .app none [.acceptedApp a.id]

theorem handleAppNew_eq (env : Env) (s : Core) (a : AppNew) : handleAppNew env s a = .ok (appNewPure env s a) := by
  unfold handleAppNew appNewPure
  split
  · rfl
  · rw [convertUGI_eq]
    simp only [bind, Except.bind]
    cases ugiResult env a.ugi (isForced a.tags) with
    | error w => rfl
    | ok u =>
      simp only []
      repeat' split
      all_goals rfl

theorem appNew_invalid_rejected (env : Env) (s : Core) (a : AppNew) (w : Why)
    (hinv : invalid env s (.appNew a) = some w) (hgap : gapOf env s (.appNew a) = none) :
    ∃ w', (appNewPure env s a).verdict = .reject w' ∧ (appNewPure env s a).state = some s ∧
          (appNewPure env s a).msgs = [.rejectedApp a.id w'] := by
  simp only [invalid] at hinv
  simp only [gapOf] at hgap
  unfold appNewPure
  by_cases hp : env.isPart a.part = true
  · have hid : ¬ a.id = "" := by
      intro h; simp [hp, h] at hgap
    simp only [hp, Bool.not_true, Bool.false_eq_true, ↓reduceIte]
    cases hur : ugiResult env a.ugi (isForced a.tags) with
    | error e => exact ⟨e, by simp [rej]⟩
    | ok u =>
      simp only []
      by_cases hdup : (s.findApp a.id).isSome = true
      · exact ⟨.duplicateApp, by simp [hdup, rej]⟩
      · by_cases hpl : env.place a = true
        · -- everything the code checks passes: then the specification must call the item valid
          exfalso
          unfold ugiResult at hur
          cases hu : a.ugi with
          | none =>
            simp [hu] at hur
            by_cases hforce : isForced a.tags = true
            · simp [hp, hid, hu, hforce, hdup, hpl] at hinv
            · simp [hforce] at hur
          | some x =>
            by_cases hx : x.user = ""
            · simp [hu, hx] at hur
              by_cases hforce : isForced a.tags = true
              · simp [hp, hid, hu, hx, hforce, hdup, hpl] at hinv
              · simp [hforce] at hur
            · by_cases hg : x.groups.isEmpty = true
              · simp [hp, hid, hu, hx, hg, hdup, hpl] at hinv
              · by_cases hok : env.userOK x.user = true
                · simp [hp, hid, hu, hx, hg, hok, hdup, hpl] at hinv
                · simp [hu, hx, hg, hok] at hur
        · exact ⟨.placement, by simp [hdup, hpl, rej]⟩
  · exact ⟨.partition, by simp [hp, rej]⟩

theorem appRemove_invalid_ignored (env : Env) (s : Core) (r : AppRemove) (w : Why)
    (hinv : invalid env s (.appRemove r) = some w) :
    ∃ w', handleAppRemove env s r = ign s w' := by
  simp only [invalid] at hinv
  unfold handleAppRemove
  by_cases hp : env.isPart r.part = true
  · cases hfa : s.findApp r.id with
    | none => exact ⟨.application, by simp [hp]⟩
    | some app => simp [hp, hfa] at hinv
  · exact ⟨.partition, by simp [hp]⟩

theorem node_invalid_refused (env : Env) (s : Core) (n : NodeInfo) (w : Why)
    (hinv : invalid env s (.node n) = some w) (hgap : gapOf env s (.node n) = none) :
    (∃ w', (n.action = 1 ∨ n.action = 6) ∧ handleNode env s n = rej s w' (.rejectedNode n.id w')) ∨
    (∃ w', ¬ (n.action = 1 ∨ n.action = 6) ∧ handleNode env s n = ign s w') := by
  simp only [invalid] at hinv
  simp only [gapOf] at hgap
  unfold handleNode
  by_cases hc : n.action = 1 ∨ n.action = 6
  · left
    by_cases hp : nodeInPart env n = true
    · by_cases hid : n.id = ""
      · exact ⟨.emptyId, hc, by simp [hp, hc, hid]⟩
      · cases hfn : s.findNode n.id with
        | some x => exact ⟨.nodeDuplicate, hc, by simp [hp, hc, hid]⟩
        | none =>
          by_cases hneg : hasNegativeValue n.res = true
          · simp [hp, hc, hid, hneg] at hgap
          · simp [hp, hc, hid, hfn, hneg] at hinv
    · exact ⟨.nodePartition, hc, by simp [hp, hc]⟩
  · right
    by_cases hp : nodeInPart env n = true
    · cases hfn : s.findNode n.id with
      | none => exact ⟨.nodeUnknown, hc, by simp [hp, hc]⟩
      | some x =>
        by_cases h2 : n.action = 2
        · cases hres : n.res with
          | none => exact ⟨.noChange, hc, by simp [hp, h2]⟩
          | some r =>
            by_cases hneg : hasNegativeValue (some r) = true
            · simp [hp, h2, hres, hneg] at hgap
            · simp [hp, h2, hfn, hres, hneg] at hinv
        · by_cases h3 : n.action = 3
          · simp [hp, hfn, h3] at hinv
          · by_cases h5 : n.action = 5
            · simp [hp, hfn, h5] at hinv
            · by_cases h4 : n.action = 4
              · simp [hp, hfn, h4] at hinv
              · exact ⟨.unknownAction, hc, by simp [hp, hc, h2, h3, h4, h5]⟩
    · exact ⟨.nodePartition, hc, by simp [hp, hc]⟩

theorem releaseBound_shaped (s : Core) (app : CApp) (i : CItem) (r : Release) (x : Result)
    (h : releaseBound s app i r = .ok x) : Shaped s (.release r) x := by
  unfold releaseBound at h
  split at h
  · cases hrel : deref "removeAllocation: alloc.GetRelease()" i.release with
    | error e => simp [hrel, Except.map] at h
    | ok v =>
      simp [hrel, Except.map] at h
      subst h
      exact shaped_acc _ _ _ _ _ (by simp)
  · simp at h
    subst h
    exact shaped_acc _ _ _ _ _ (by simp)

theorem handleRelease_shaped (env : Env) (s : Core) (r : Release) (x : Result)
    (h : handleRelease env s r = .ok x) : Shaped s (.release r) x := by
  unfold handleRelease at h
  repeat' split at h
  all_goals first
    | exact releaseBound_shaped _ _ _ _ _ h
    | (simp only [Except.ok.injEq] at h
       subst h
       first
         | exact shaped_ign _ _ _
         | (apply shaped_acc; simp)
         | (unfold releaseUnbound
            repeat' split
            all_goals first
              | exact shaped_ign _ _ _
              | (apply shaped_acc; simp)))

theorem appNewPure_shaped (env : Env) (s : Core) (a : AppNew) : Shaped s (.appNew a) (appNewPure env s a) := by
  unfold appNewPure
  repeat' split
  all_goals first
    | exact shaped_rej _ _ _ (Msg.rejectedApp a.id) rfl
    | (apply shaped_acc; simp [isRejection])

theorem handleAppRemove_shaped (env : Env) (s : Core) (r : AppRemove) : Shaped s (.appRemove r) (handleAppRemove env s r) := by
  unfold handleAppRemove
  repeat' split
  all_goals first
    | exact shaped_ign _ _ _
    | (apply shaped_acc; simp)

theorem handleNode_shaped (env : Env) (s : Core) (n : NodeInfo) : Shaped s (.node n) (handleNode env s n) := by
  unfold handleNode
  repeat' split
  all_goals first
    | (apply shaped_rej _ _ _ (Msg.rejectedNode n.id); simp only [rejection]; simp_all)
    | exact shaped_ign _ _ _
    | (apply shaped_acc; simp [isRejection])

theorem handle_shaped (env : Env) (s : Core) (i : Item) (r : Result) (h : handle env s i = .ok r) : Shaped s i r := by
  cases i with
  | alloc a => simp only [handle, Except.ok.injEq] at h; subst h; exact handleAlloc_shaped env s a
  | release x => exact handleRelease_shaped env s x r h
  | appNew a => simp only [handle, handleAppNew_eq, Except.ok.injEq] at h; subst h; exact appNewPure_shaped env s a
  | appRemove x => simp only [handle, Except.ok.injEq] at h; subst h; exact handleAppRemove_shaped env s x
  | node n => simp only [handle, Except.ok.injEq] at h; subst h; exact handleNode_shaped env s n

/-- a whole request never panics -/
theorem handleAll_no_panic (env : Env) (rm : String) (s : Core) (items : List Item) : ∃ r, handleAll env rm s items = .ok r := by
  unfold handleAll
  split
  · exact ⟨_, rfl⟩
  · generalize (some s, ([] : List (Item × Result))) = acc0
    induction items generalizing acc0 with
    | nil => exact ⟨_, rfl⟩
    | cons it rest ih =>
      simp only [List.foldlM_cons, bind, Except.bind]
      have hstep : ∃ a, stepItem env acc0 it = .ok a := by
        unfold stepItem
        cases h1 : acc0.1 with
        | none => exact ⟨_, rfl⟩
        | some st =>
          obtain ⟨r, hr⟩ := handle_no_panic env st it
          simp only [hr]
          exact ⟨_, rfl⟩
      obtain ⟨a, ha⟩ := hstep
      rw [ha]
      exact ih _

/-! ### all kinds together -/

theorem invalid_refused (env : Env) (s : Core) (i : Item) (w : Why)
    (hinv : invalid env s i = some w) (hgap : gapOf env s i = none) : refusedAsDemanded env s i = true := by
  unfold refusedAsDemanded
  cases i with
  | alloc a =>
    obtain ⟨w', hv⟩ := alloc_invalid_rejected env s a w hinv hgap
    have hs := handleAlloc_shaped env s a
    simp only [Shaped, hv] at hs
    obtain ⟨hst, mk, hmk, hmsgs⟩ := hs
    simp only [rejection, Option.some.injEq] at hmk
    subst hmk
    simp [handle, rejection, hv, hst, hmsgs]
  | release r =>
    obtain ⟨x, w', hx, hv, hst, hm⟩ := release_invalid_ignored env s r w hinv hgap
    simp [handle, rejection, hx, hv, hst, hm]
  | appNew a =>
    obtain ⟨w', hv, hst, hm⟩ := appNew_invalid_rejected env s a w hinv hgap
    simp [handle, rejection, handleAppNew_eq, hv, hst, hm]
  | appRemove r =>
    obtain ⟨w', hx⟩ := appRemove_invalid_ignored env s r w hinv
    simp [handle, rejection, hx, ign]
  | node n =>
    rcases node_invalid_refused env s n w hinv hgap with ⟨w', hc, hx⟩ | ⟨w', hc, hx⟩
    · have hc' : (n.action == 1 || n.action == 6) = true := by simpa using hc
      simp [handle, rejection, hx, rej, hc']
    · have hc' : (n.action == 1 || n.action == 6) = false := by simpa using hc
      simp [handle, rejection, hx, ign, hc']

/-! ### a valid item is never refused -/

theorem sgtz_of_nonneg_nonzero (l : Res) (hn : hasNegativeValue (some l) = false) (hz : isZero (some l) = false) :
    strictlyGreaterThanZero (some l) = true := by
  simp only [hasNegativeValue] at hn
  simp only [isZero] at hz
  simp only [strictlyGreaterThanZero, hn, Bool.false_eq_true, ↓reduceIte]
  rw [List.any_eq_true]
  rw [List.all_eq_false] at hz
  obtain ⟨p, hp, hp0⟩ := hz
  refine ⟨p, hp, ?_⟩
  have hnn : ¬ p.2 < 0 := by
    have := List.any_eq_false.mp hn p hp
    simpa using this
  have : p.2 ≠ 0 := by simpa using hp0
  simp; omega

/-- every allocated request entry names a registered node (node removal releases what it carried) -/
def AllocatedOnKnownNodes (s : Core) : Prop :=
  ∀ id app key ex, s.findApp id = some app → findAsk app key = some ex → ex.allocated = true → (s.findNode ex.node).isSome = true

theorem valid_accepted (env : Env) (s : Core) (i : Item) (hwf : AllocatedOnKnownNodes s)
    (hanon : env.userOK anonymous.user = true) (hinv : invalid env s i = none) :
    ∃ r h, handle env s i = .ok r ∧ r.verdict = .accept h := by
  cases i with
  | alloc a =>
    simp only [invalid] at hinv
    refine ⟨handleAlloc env s a, ?_⟩
    simp only [handle, true_and]
    unfold handleAlloc handleForeign
    by_cases hp : env.isPart a.part = true
    · by_cases hk : (a.key == "") = true
      · simp [hp, hk] at hinv
      · by_cases hq : (a.ph && a.tg == "") = true
        · simp [hp, hk, hq] at hinv
        · by_cases hng : hasNegativeValue a.res = true
          · simp [hp, hk, hq, hng] at hinv
          · by_cases hf : isForeign a = true
            · by_cases hnode : a.node = ""
              · simp [hp, hk, hq, hng, hf, hnode] at hinv
              · cases hfn : s.findNode a.node with
                | none => simp [hp, hk, hq, hng, hf, hnode, hfn] at hinv
                | some n =>
                  simp only [hp, hq, hf, hnode, hng, Bool.not_true, Bool.false_eq_true, ↓reduceIte, beq_iff_eq]
                  split <;> exact ⟨_, rfl⟩
            · cases hfa : s.findApp a.app with
              | none => simp [hp, hk, hq, hng, hf, hfa] at hinv
              | some app =>
                by_cases hnd : ¬a.node = "" ∧ s.findNode a.node = none
                · simp [hp, hk, hq, hng, hf, hfa, hnd] at hinv
                · by_cases hz : isZero (some (resOf a.res)) = true
                  · simp [hp, hk, hq, hng, hf, hfa, hnd, hz] at hinv
                  · have hng' : hasNegativeValue (some (resOf a.res)) = false := by
                      cases hr : a.res with
                      | none => simp [resOf, hasNegativeValue]
                      | some l => simpa [resOf, hr] using hng
                    have hg := sgtz_of_nonneg_nonzero (resOf a.res) hng' (by simpa using hz)
                    simp [hp, hq, hf, hnd, hz, hg]
                    cases hask : findAsk app a.key with
                    | none =>
                      simp only []
                      split <;> exact ⟨_, rfl⟩
                    | some ex =>
                      simp only []
                      by_cases hex : ex.allocated = true ∧ s.findNode ex.node = none
                      · have := hwf a.app app a.key ex hfa hask hex.1
                        simp [hex.2] at this
                      · simp only [hex, ↓reduceIte]
                        repeat' split
                        all_goals exact ⟨_, rfl⟩
    · simp [hp] at hinv
  | release r =>
    simp only [invalid] at hinv
    simp only [handle]
    unfold handleRelease
    by_cases hp : env.isPart r.part = true
    · by_cases ha : r.app = ""
      · by_cases hfk : r.key ∈ s.foreign
        · simp only [hp, ha, Bool.not_true, Bool.false_eq_true, ↓reduceIte, beq_self_eq_true, List.contains_eq_mem, hfk, decide_true]
          exact ⟨_, _, rfl, rfl⟩
        · simp [hp, ha, hfk] at hinv
      · cases hfa : s.findApp r.app with
        | none => simp [hp, ha, hfa] at hinv
        | some app =>
          by_cases hk : r.key = ""
          · simp only [hp, ha, hk, Bool.not_true, Bool.false_eq_true, ↓reduceIte, beq_iff_eq, beq_self_eq_true]
            exact ⟨_, _, rfl, rfl⟩
          · cases hfb : app.items.find? (fun i => i.key == r.key && i.bound) with
            | some it =>
              simp only [hp, ha, hk, hfb, Bool.not_true, Bool.false_eq_true, ↓reduceIte, beq_iff_eq]
              unfold releaseBound
              split
              · rename_i h
                have h2 : it.release.isSome = true := by simp at h; exact h.2
                obtain ⟨x, hx⟩ := deref_of_isSome "removeAllocation: alloc.GetRelease()" it.release h2
                exact ⟨_, .release, by rw [hx]; rfl, rfl⟩
              · exact ⟨_, _, rfl, rfl⟩
            | none =>
              have hb : app.items.any (fun i => i.key == r.key && i.bound) = false := by
                rw [List.find?_eq_none] at hfb
                rw [List.any_eq_false]
                intro x hx
                simpa using hfb x hx
              simp only [hp, ha, hk, hfb, Bool.not_true, Bool.false_eq_true, ↓reduceIte, beq_iff_eq]
              unfold releaseUnbound
              cases hask : findAsk app r.key with
              | none => simp [hp, ha, hfa, hk, hb, hask] at hinv
              | some it =>
                by_cases ht : r.ttype = 2
                · simp [hp, ha, hfa, hk, hb, hask, ht] at hinv
                · simp only [beq_iff_eq, ht, ↓reduceIte]
                  exact ⟨_, _, rfl, rfl⟩
    · simp [hp] at hinv
  | appNew a =>
    simp only [invalid] at hinv
    refine ⟨appNewPure env s a, ?_⟩
    simp only [handle, handleAppNew_eq, true_and]
    unfold appNewPure ugiResult
    by_cases hp : env.isPart a.part = true
    · by_cases hid : a.id = ""
      · simp [hp, hid] at hinv
      · by_cases hdup : (s.findApp a.id).isSome = true
        · cases hu : a.ugi with
          | none => by_cases hforce : isForced a.tags = true <;> simp [hp, hid, hu, hforce, hdup] at hinv
          | some x =>
            by_cases hx : x.user = ""
            · by_cases hforce : isForced a.tags = true <;> simp [hp, hid, hu, hx, hforce, hdup] at hinv
            · by_cases hg : x.groups.isEmpty = true
              · simp [hp, hid, hu, hx, hg, hdup] at hinv
              · by_cases hok : env.userOK x.user = true <;> simp [hp, hid, hu, hx, hg, hok, hdup] at hinv
        · by_cases hpl : env.place a = true
          · cases hu : a.ugi with
            | none =>
              by_cases hforce : isForced a.tags = true
              · exact ⟨.app, by simp [hp, hforce, hanon, hdup, hpl, acc]⟩
              · simp [hp, hid, hu, hforce] at hinv
            | some x =>
              by_cases hx : x.user = ""
              · by_cases hforce : isForced a.tags = true
                · exact ⟨.app, by simp [hp, hx, hforce, hanon, hdup, hpl, acc]⟩
                · simp [hp, hid, hu, hx, hforce] at hinv
              · by_cases hg : x.groups.isEmpty = true
                · exact ⟨.app, by simp [hp, hx, hg, hdup, hpl, acc]⟩
                · by_cases hok : env.userOK x.user = true
                  · exact ⟨.app, by simp [hp, hx, hg, hok, hdup, hpl, acc]⟩
                  · simp [hp, hid, hu, hx, hg, hok] at hinv
          · cases hu : a.ugi with
            | none => by_cases hforce : isForced a.tags = true <;> simp [hp, hid, hu, hforce, hdup, hpl] at hinv
            | some x =>
              by_cases hx : x.user = ""
              · by_cases hforce : isForced a.tags = true <;> simp [hp, hid, hu, hx, hforce, hdup, hpl] at hinv
              · by_cases hg : x.groups.isEmpty = true
                · simp [hp, hid, hu, hx, hg, hdup, hpl] at hinv
                · by_cases hok : env.userOK x.user = true <;> simp [hp, hid, hu, hx, hg, hok, hdup, hpl] at hinv
    · simp [hp] at hinv
  | appRemove r =>
    simp only [invalid] at hinv
    refine ⟨handleAppRemove env s r, ?_⟩
    simp only [handle, true_and]
    unfold handleAppRemove
    by_cases hp : env.isPart r.part = true
    · cases hfa : s.findApp r.id with
      | none => simp [hp, hfa] at hinv
      | some app => exact ⟨.appRemove, by simp [hp, acc]⟩
    · simp [hp] at hinv
  | node n =>
    simp only [invalid] at hinv
    refine ⟨handleNode env s n, ?_⟩
    simp only [handle, true_and]
    unfold handleNode
    by_cases hp : nodeInPart env n = true
    · by_cases hc : n.action = 1 ∨ n.action = 6
      · by_cases hid : n.id = ""
        · simp [hp, hc, hid] at hinv
        · cases hfn : s.findNode n.id with
          | some x => simp [hp, hc, hid, hfn] at hinv
          | none => exact ⟨.nodeAdd, by simp [hp, hc, hid, acc]⟩
      · cases hfn : s.findNode n.id with
        | none => simp [hp, hc, hfn] at hinv
        | some x =>
          by_cases h2 : n.action = 2
          · cases hres : n.res with
            | none => simp [hp, hfn, h2, hres] at hinv
            | some r => exact ⟨.nodeUpdate, by simp [hp, h2, acc]⟩
          · by_cases h3 : n.action = 3
            · exact ⟨.nodeDrain, by simp [hp, h3, acc]⟩
            · by_cases h5 : n.action = 5
              · exact ⟨.nodeUndrain, by simp [hp, h5, acc]⟩
              · by_cases h4 : n.action = 4
                · exact ⟨.nodeDecommission, by simp [hp, h4, acc]⟩
                · simp [hp, hc, hfn, h2, h3, h4, h5] at hinv
    · simp [hp] at hinv

/-! ### a request made of invalid items only -/

def Verdict.refusal : Verdict → Bool
  | .accept _ => false
  | _ => true

theorem refused_of_demanded (env : Env) (s : Core) (i : Item) (h : refusedAsDemanded env s i = true) :
    ∃ r, handle env s i = .ok r ∧ r.state = some s ∧ r.verdict.refusal = true := by
  unfold refusedAsDemanded at h
  cases hh : handle env s i with
  | error e => simp [hh] at h
  | ok r =>
    refine ⟨r, rfl, ?_⟩
    simp only [hh] at h
    split at h
    · simp at h; exact ⟨h.2, by simp [Verdict.refusal, *]⟩
    · simp at h; exact ⟨h.2, by simp [Verdict.refusal, *]⟩
    · simp at h

theorem foldl_refused (env : Env) (s : Core) (items : List Item) (acc : List (Item × Result))
    (h : ∀ i ∈ items, refusedAsDemanded env s i = true) :
    ∃ rs, items.foldlM (stepItem env) (some s, acc) = .ok (some s, acc ++ rs) ∧
      rs.map (·.1) = items ∧ ∀ p ∈ rs, p.2.state = some s ∧ p.2.verdict.refusal = true := by
  induction items generalizing acc with
  | nil => exact ⟨[], by simp [pure, Except.pure], rfl, by simp⟩
  | cons it rest ih =>
    obtain ⟨r, hr, hst, hv⟩ := refused_of_demanded env s it (h it (by simp))
    obtain ⟨rs, hrs, hmap, hall⟩ := ih (acc ++ [(it, r)]) (fun i hi => h i (by simp [hi]))
    refine ⟨(it, r) :: rs, ?_, by simp [hmap], ?_⟩
    · have hstep : stepItem env (some s, acc) it = .ok (some s, acc ++ [(it, r)]) := by
        simp [stepItem, hr, hst]
      simp only [List.foldlM_cons, bind, Except.bind, hstep]
      simpa using hrs
    · intro p hp
      simp at hp
      rcases hp with rfl | hp
      · exact ⟨hst, hv⟩
      · exact hall p hp

end Yk.Si
