/-
  The reservation invariant `ResInv` (C09) along histories of the stepped Core model, and "reservations disappear when
  the node is removed".
-/
import YkProofs.Core2ResA
import YkProofs.Core2ResB
import YkProofs.Core2ResC
import YkProofs.Core2ResD
import YkProofs.Core2ResE
namespace Yk
open Res Core

/-- one step keeps the reservation invariant -/
theorem step_res (s : Core) (op : Op) (hi : CoreInv s) (hr : ResInv s) (hok : op.ok2 s) (hor : op.okRes s) :
    ResInv (op.apply s) := by
  have hfull := ok_of_ok2 s op hi.linked hok
  cases op with
  | nodeCreate id cap b => exact res_nodeCreate s id cap b hr
  | nodeUpdate id cap => exact res_nodeUpdate s id cap hr
  | nodeSchedulable id b => exact res_nodeSchedulable s id b hr
  | nodeRemove id order => exact res_nodeRemove s id order hi hr hfull
  | foreignAdd key node res => exact res_foreignAdd s key node res hr
  | foreignRemove key => exact res_foreignRemove s key hr
  | appAdd a nq => exact res_appAdd s a nq hr hor
  | appRemove app => exact res_appRemove s app hi hr
  | ask app key res ph tg reqNode => exact res_ask s app key res ph tg reqNode hi.wf hr
  | schedAlloc app key node =>
    show ResInv ((s.schedAlloc app key node).getD s)
    cases h : s.schedAlloc app key node with
    | none => exact hr
    | some s' => exact res_schedAlloc s s' app key node hi.wf hr hor h
  | swapStart app realKey phKey node =>
    show ResInv ((s.swapStart app realKey phKey node).getD s)
    cases h : s.swapStart app realKey phKey node with
    | none => exact hr
    | some s' => exact res_swapStart s s' app realKey phKey node hi hr hor h
  | swapConfirm app phKey => exact res_swapConfirm s app phKey hi hr hfull
  | releaseKey app key => exact res_releaseKey s app key hi hr hor
  | release tt app key => exact res_releaseKeyT s tt app key hi hr
  | releaseApp tt app => exact res_releaseApp s tt app hi hr
  | markReleased app key p => exact res_markReleased s app key p hi.wf hr
  | phTimeout app ev => exact res_phTimeout s app ev hi hr
  | stateTimeout app => exact res_stateTimeout s app hi hr
  | cleanup => exact res_cleanup s hr
  | reserve app key node => exact res_reserve s app key node hi.wf hi.life hr hor
  | unreserve app key node => exact res_unreserve s app key node hi.wf hr

/-- Whole histories: from a state satisfying `CoreInv` (well-formed, balanced, linked, life-cycle invariant) and `ResInv`,
    every step meeting `Op.ok2`, `Op.okLife` (`RunLifeOK`) and `Op.okRes` (`RunResOK`), the result satisfies `ResInv`
    (and `CoreInv`). -/
theorem reachable_resinv (s : Core) (ops : List Op) (hi : CoreInv s) (hr : ResInv s) (hok : RunLifeOK s ops)
    (hres : RunResOK s ops) : CoreInv (run s ops) ∧ ResInv (run s ops) := by
  induction ops generalizing s with
  | nil => exact ⟨hi, hr⟩
  | cons op t ih =>
    obtain ⟨⟨h1, h1'⟩, h2⟩ := hok
    obtain ⟨r1, r2⟩ := hres
    obtain ⟨hb', hw'⟩ := step_props s op hi.wf hi.books (ok_of_ok2 s op hi.linked h1)
    exact ih (op.apply s)
      ⟨hw', hb', step_linked s op hi.wf hi.books hi.linked h1, step_life s op hi.wf hi.books hi.linked hi.life h1 h1'⟩
      (step_res s op hi hr h1 r1) h2 r2

/-- the removed node is gone -/
theorem nodeRemove_findNode (s : Core) (id : String) (order : List (String × String)) :
    (s.nodeRemove id order).findNode id = none := by
  unfold nodeRemove
  split
  · rename_i h; exact h
  · unfold findNode
    show (List.filter (fun (n : CNode) => n.id != id) _).find? (fun (n : CNode) => n.id == id) = none
    rw [List.find?_eq_none]
    intro n hn
    have := (List.mem_filter.mp hn).2
    simpa using this

/-- Reservations disappear when the node is removed: afterwards no live application holds a reservation on it (and the
    node with its own reservation list is gone). -/
theorem nodeRemove_gone (s : Core) (id : String) (order : List (String × String)) (hi : CoreInv s) (hr : ResInv s)
    (hok : NodeRemoveOK s id order) :
    (s.nodeRemove id order).findNode id = none ∧
    ∀ a ∈ (s.nodeRemove id order).apps, a.live = true → ∀ r ∈ a.reservations, r.2 ≠ id := by
  refine ⟨nodeRemove_findNode s id order, ?_⟩
  intro a ha hl r hrm he
  obtain ⟨n, hn, _⟩ := (res_nodeRemove s id order hi hr hok).appNode a ha hl r hrm
  rw [he, nodeRemove_findNode] at hn
  cases hn

end Yk
