/- Lemmas about the preemption model (YkModel/Preempt.lean) behind YkProps/C07 and YkProps/C08. -/
import YkModel.Preempt
import YkProofs.Res
namespace Yk
namespace Pre
open Res

/-! ### sorting helpers are permutations (membership is all the property theorems need) -/

theorem mem_insStr (s x : String) : ∀ l : List String, x ∈ insStr s l ↔ x = s ∨ x ∈ l := by
  intro l
  induction l with
  | nil => simp [insStr]
  | cons a t ih =>
    unfold insStr
    by_cases h : s < a
    · simp [h]
    · simp only [h, if_false, List.mem_cons, ih]
      constructor
      · rintro (h1 | h1 | h1) <;> simp [h1]
      · rintro (h1 | h1 | h1) <;> simp [h1]

theorem mem_foldl_insStr (x : String) : ∀ (l acc : List String),
    x ∈ l.foldl (fun acc s => insStr s acc) acc ↔ x ∈ l ∨ x ∈ acc := by
  intro l
  induction l with
  | nil => intro acc; simp
  | cons a t ih =>
    intro acc
    rw [List.foldl_cons, ih, mem_insStr]
    simp only [List.mem_cons]
    constructor
    · rintro (h | h | h) <;> simp [h]
    · rintro ((h | h) | h) <;> simp [h]

theorem mem_sortStrs (x : String) (l : List String) : x ∈ sortStrs l ↔ x ∈ l := by
  unfold sortStrs; rw [mem_foldl_insStr]; simp

theorem mem_insBy (lt : PAlloc → PAlloc → Bool) (a x : PAlloc) : ∀ l : List PAlloc, x ∈ insBy lt a l ↔ x = a ∨ x ∈ l := by
  intro l
  induction l with
  | nil => simp [insBy]
  | cons b t ih =>
    unfold insBy
    by_cases h : lt a b = true
    · rw [if_pos h]; simp
    · rw [if_neg h]
      simp only [List.mem_cons, ih]
      constructor
      · rintro (h1 | h1 | h1) <;> simp [h1]
      · rintro (h1 | h1 | h1) <;> simp [h1]

theorem mem_sortBy (lt : PAlloc → PAlloc → Bool) (x : PAlloc) : ∀ l : List PAlloc, x ∈ sortBy lt l ↔ x ∈ l := by
  intro l
  induction l with
  | nil => simp [sortBy]
  | cons a t ih =>
    have : sortBy lt (a :: t) = insBy lt a (sortBy lt t) := rfl
    rw [this, mem_insBy, ih]; simp

/-! ### CheckPreconditions -/

theorem checkPreconditions_true {ask : PAsk} {delay freq : Int} {checked : Option Int}
    (h : checkPreconditions ask delay freq checked = true) :
    ask.other = true ∧ ask.triggered = false ∧ ask.req = none ∧ delay ≤ ask.age ∧ (∀ c, checked = some c → freq ≤ c) := by
  unfold checkPreconditions at h
  simp only [Bool.and_eq_true, Bool.not_eq_true', decide_eq_true_eq, Option.isNone_iff_eq_none] at h
  obtain ⟨⟨⟨⟨h1, h2⟩, h3⟩, h4⟩, h5⟩ := h
  refine ⟨h1, h2, h3, h4, ?_⟩
  intro c hc
  rw [hc] at h5
  simpa using h5

/-! ### required node preemption -/

/-- the selection loop of GetVictims only ever appends elements of its input -/
theorem reqVictims_subset (askRes avail : Res) (cands : List PAlloc) :
    ∀ v ∈ reqVictims askRes avail cands, v ∈ cands := by
  have key : ∀ (l : List PAlloc) (st : Res × List PAlloc × Bool), (∀ v ∈ st.2.1, v ∈ cands) → (∀ v ∈ l, v ∈ cands) →
      ∀ v ∈ (l.foldl (fun (st : Res × List PAlloc × Bool) a =>
        if st.2.2 then st else
        if !strictlyGreaterThanOrEquals (some st.1) (some askRes) then (addX st.1 a.res, st.2.1 ++ [a], false) else (st.1, st.2.1, true)) st).2.1,
        v ∈ cands := by
    intro l
    induction l with
    | nil => intro st h _; simpa using h
    | cons a t ih =>
      intro st h hl
      rw [List.foldl_cons]
      apply ih
      · by_cases h1 : st.2.2 = true
        · simpa [h1] using h
        · by_cases h2 : (!strictlyGreaterThanOrEquals (some st.1) (some askRes)) = true
          · simp only [h1, h2, if_true]
            intro v hv
            rcases List.mem_append.mp hv with hv | hv
            · exact h v hv
            · simp at hv; subst hv; exact hl _ List.mem_cons_self
          · simpa [h1, h2] using h
      · intro v hv; exact hl v (List.mem_cons_of_mem _ hv)
  intro v hv
  unfold reqVictims at hv
  simp only at hv
  split at hv
  · exact key cands ([], [], false) (by simp) (fun v h => h) v hv
  · cases hv

theorem reqFilter_true {askRes : Res} {askPrio : Int} {ni : Nat} {a : PAlloc} (h : reqFilter askRes askPrio ni a = true) :
    a.node = ni ∧ a.req = false ∧ a.prio ≤ askPrio ∧ a.preempted = false ∧
      matchAny (some askRes) (some a.res) false = true ∧ a.released = false := by
  unfold reqFilter at h
  simp only [Bool.and_eq_true, Bool.not_eq_true', decide_eq_true_eq, beq_iff_eq] at h
  obtain ⟨⟨⟨⟨⟨h1, h2⟩, h3⟩, h4⟩, h5⟩, h6⟩ := h
  exact ⟨h1, h2, h3, h4, h5, h6⟩

theorem reqCandidates_mem {w : World} {ni : Nat} {a : PAlloc} (h : a ∈ reqCandidates w ni) :
    a ∈ w.allocs ∧ reqFilter w.ask.res w.ask.prio ni a = true := by
  unfold reqCandidates at h
  rw [mem_sortBy] at h
  exact List.mem_filter.mp h

/-! ### quota change preemption: the selection loop -/

/-- the accepted total never exceeds the planned amount on a type of the plan; holds for EVERY order of the
    candidates (the order is float valued in the code) -/
def withinPlan (plan total : Res) : Prop := ∀ p ∈ plan, ∀ v, total.get? p.1 = some v → v ≤ p.2

theorem strictlyOnlyExisting_le {plan total : Res} (h : strictlyOnlyExisting (some plan) (some total) true = true) :
    withinPlan plan total := by
  intro p hp v hv
  unfold strictlyOnlyExisting at h
  simp only [orZero, Option.getD_some] at h
  split at h
  · cases h
  · rename_i hany
    have hn : ¬ (match total.get? p.1 with | some v => decide (v > p.2) | none => false) = true := by
      intro hc; exact hany (List.any_eq_true.mpr ⟨p, hp, hc⟩)
    rw [hv] at hn
    simp only [decide_eq_true_eq] at hn
    omega

theorem quotaSelect_inv (plan : Res) : ∀ (cands : List PAlloc) (st : List PAlloc × Res),
    (withinPlan plan st.2 ∧ st.2 = sumRes (st.1.map (·.res))) →
    let r := cands.foldl (fun (st : List PAlloc × Res) v =>
      if !fitInMaxUndef (some plan) (some v.res) then st else
      let total := addX st.2 v.res
      if strictlyOnlyExisting (some plan) (some total) true then (st.1 ++ [v], total) else st) st
    withinPlan plan r.2 ∧ r.2 = sumRes (r.1.map (·.res)) ∧ (∀ v ∈ r.1, v ∈ st.1 ∨ (v ∈ cands ∧ fitInMaxUndef (some plan) (some v.res) = true)) := by
  intro cands
  induction cands with
  | nil => intro st h; exact ⟨h.1, h.2, fun v hv => Or.inl hv⟩
  | cons a t ih =>
    intro st h
    simp only [List.foldl_cons]
    by_cases h1 : (!fitInMaxUndef (some plan) (some a.res)) = true
    · simp only [h1, if_true]
      obtain ⟨r1, r2, r3⟩ := ih st h
      refine ⟨r1, r2, ?_⟩
      intro v hv
      rcases r3 v hv with h' | h'
      · exact Or.inl h'
      · exact Or.inr ⟨List.mem_cons_of_mem _ h'.1, h'.2⟩
    · simp only [h1]
      by_cases h2 : strictlyOnlyExisting (some plan) (some (addX st.2 a.res)) true = true
      · simp only [h2, if_true, Bool.false_eq_true, if_false]
        have hst : withinPlan plan (addX st.2 a.res) ∧ addX st.2 a.res = sumRes ((st.1 ++ [a]).map (·.res)) := by
          refine ⟨strictlyOnlyExisting_le h2, ?_⟩
          rw [h.2]; unfold sumRes; simp [List.foldl_append]
        obtain ⟨r1, r2, r3⟩ := ih (st.1 ++ [a], addX st.2 a.res) hst
        refine ⟨r1, r2, ?_⟩
        intro v hv
        rcases r3 v hv with h' | h'
        · rcases List.mem_append.mp h' with h'' | h''
          · exact Or.inl h''
          · simp at h''; subst h''
            refine Or.inr ⟨List.mem_cons_self, ?_⟩
            simpa using h1
        · exact Or.inr ⟨List.mem_cons_of_mem _ h'.1, h'.2⟩
      · simp only [h2, Bool.false_eq_true, if_false]
        obtain ⟨r1, r2, r3⟩ := ih st h
        refine ⟨r1, r2, ?_⟩
        intro v hv
        rcases r3 v hv with h' | h'
        · exact Or.inl h'
        · exact Or.inr ⟨List.mem_cons_of_mem _ h'.1, h'.2⟩

theorem quotaSelect_spec (plan : Res) (cands : List PAlloc) :
    withinPlan plan (quotaSelect plan cands).2 ∧
    (quotaSelect plan cands).2 = sumRes ((quotaSelect plan cands).1.map (·.res)) ∧
    (∀ v ∈ (quotaSelect plan cands).1, v ∈ cands ∧ fitInMaxUndef (some plan) (some v.res) = true) := by
  have h := quotaSelect_inv plan cands ([], []) ⟨by intro p _ v hv; simp [get?] at hv, rfl⟩
  obtain ⟨h1, h2, h3⟩ := h
  refine ⟨h1, h2, ?_⟩
  intro v hv
  rcases h3 v hv with h' | h'
  · cases h'
  · exact h'

theorem quotaFilter_true {plan : Res} {leaf : Nat} {a : PAlloc} (h : quotaFilter plan leaf a = true) :
    a.q = leaf ∧ matchAny (some plan) (some a.res) false = true ∧ a.req = false ∧ a.released = false ∧ a.preempted = false := by
  unfold quotaFilter at h
  simp only [Bool.and_eq_true, Bool.not_eq_true', beq_iff_eq] at h
  obtain ⟨⟨⟨⟨h1, h2⟩, h3⟩, h4⟩, h5⟩ := h
  exact ⟨h1, h2, h3, h4, h5⟩

/-! ### TryPreemption: the final victim filter -/

/-- for a single-type ask `{k: A}` with `A > 0`, "ask strictly greater than total on the existing types" is `total[k] < A` -/
theorem soe_single (k : String) (A : Int) (hA : 0 < A) (total : Res) :
    strictlyOnlyExisting (some [(k, A)]) (some total) false = decide (total.getD k < A) := by
  unfold strictlyOnlyExisting
  simp only [orZero, Option.getD_some, getD_eq_get?, has_eq_get?, List.any_cons, List.any_nil, Bool.or_false,
    List.all_cons, List.all_nil, Bool.and_true, List.filter_cons, List.filter_nil]
  rcases Option.eq_none_or_eq_some (total.get? k) with hg | ⟨v, hg⟩
  · simp only [hg]
    cases total with
    | nil => simp [hA]
    | cons p t => simp [hA]
  · simp only [hg]
    have hne : total ≠ [] := by intro e; subst e; simp [get?] at hg
    cases total with
    | nil => exact absurd rfl hne
    | cons p t =>
      by_cases h1 : v > A
      · have : ¬ v < A := by omega
        simp [h1, this]
      · by_cases h2 : v = A
        · subst h2; simp [hg]
        · have : v < A := by omega
          simp [h1, h2, this, hg]

theorem sumRes_append_one (l : List Res) (r : Res) : sumRes (l ++ [r]) = addX (sumRes l) r := by
  unfold sumRes; simp [List.foldl_append]

theorem finalFilter_nil (askRes : Res) (fitIn : Bool) (ni : Nat) : finalFilter askRes fitIn ni [] = ([], []) := rfl

/-- the loop of the final filter, from an arbitrary state -/
def finalLoop (askRes : Res) (fitIn : Bool) (ni : Nat) (victims : List PAlloc) (st : List PAlloc × Res) : List PAlloc × Res :=
  victims.foldl (fun (st : List PAlloc × Res) v =>
    if !fitIn && v.node != ni then st else
    let fin := if strictlyOnlyExisting (some askRes) (some st.2) false then st.1 ++ [v] else st.1
    (fin, addX st.2 v.res)) st

theorem finalFilter_eq (askRes : Res) (fitIn : Bool) (ni : Nat) (victims : List PAlloc) :
    finalFilter askRes fitIn ni victims = finalLoop askRes fitIn ni victims ([], []) := rfl

theorem finalLoop_cons (askRes : Res) (fitIn : Bool) (ni : Nat) (v : PAlloc) (t : List PAlloc) (st : List PAlloc × Res) :
    finalLoop askRes fitIn ni (v :: t) st =
      finalLoop askRes fitIn ni t (if !fitIn && v.node != ni then st else
        ((if strictlyOnlyExisting (some askRes) (some st.2) false then st.1 ++ [v] else st.1), addX st.2 v.res)) := by
  unfold finalLoop; rw [List.foldl_cons]

/-- the final victims are a sub-list (same order, nothing twice that was not twice) of the collected victims, and when
    the ask does not fit the free space of the node every final victim is on the node -/
theorem finalLoop_sublist (askRes : Res) (fitIn : Bool) (ni : Nat) : ∀ (victims : List PAlloc) (st : List PAlloc × Res),
    ∃ l, (finalLoop askRes fitIn ni victims st).1 = st.1 ++ l ∧ l.Sublist victims ∧ (fitIn = false → ∀ v ∈ l, v.node = ni) := by
  intro victims
  induction victims with
  | nil => intro st; exact ⟨[], by simp [finalLoop], List.Sublist.refl _, by intro _ v hv; cases hv⟩
  | cons v t ih =>
    intro st
    rw [finalLoop_cons]
    by_cases h1 : (!fitIn && v.node != ni) = true
    · rw [if_pos h1]
      obtain ⟨l, e, hs, hn⟩ := ih st
      exact ⟨l, e, List.Sublist.cons _ hs, hn⟩
    · rw [if_neg h1]
      by_cases h2 : strictlyOnlyExisting (some askRes) (some st.2) false = true
      · rw [if_pos h2]
        obtain ⟨l, e, hs, hn⟩ := ih (st.1 ++ [v], addX st.2 v.res)
        refine ⟨v :: l, by rw [e]; simp, List.Sublist.cons_cons _ hs, ?_⟩
        intro hf x hx
        rcases List.mem_cons.mp hx with hx | hx
        · subst hx
          simp only [hf, Bool.not_false, Bool.true_and, bne_iff_ne, ne_eq, Decidable.not_not] at h1
          exact h1
        · exact hn hf x hx
      · rw [if_neg h2]
        obtain ⟨l, e, hs, hn⟩ := ih (st.1, addX st.2 v.res)
        exact ⟨l, e, List.Sublist.cons _ hs, hn⟩

theorem finalFilter_sublist (askRes : Res) (fitIn : Bool) (ni : Nat) (victims : List PAlloc) :
    (finalFilter askRes fitIn ni victims).1.Sublist victims ∧
    (fitIn = false → ∀ v ∈ (finalFilter askRes fitIn ni victims).1, v.node = ni) := by
  obtain ⟨l, e, hs, hn⟩ := finalLoop_sublist askRes fitIn ni victims ([], [])
  rw [finalFilter_eq, e]; simp only [List.nil_append]
  exact ⟨hs, hn⟩

/-- single-type ask: invariant of the final filter -/
theorem finalLoop_single (k : String) (A : Int) (hA : 0 < A) (fitIn : Bool) (ni : Nat) :
    ∀ (victims : List PAlloc) (st : List PAlloc × Res),
      (∀ v ∈ victims, wf v.res = true ∧ 0 ≤ v.res.getD k) →
      ((st.2.getD k < A → (sumRes (st.1.map (·.res))).getD k = st.2.getD k) ∧ (A ≤ st.2.getD k → A ≤ (sumRes (st.1.map (·.res))).getD k)) →
      let r := finalLoop [(k, A)] fitIn ni victims st
      (r.2.getD k < A → (sumRes (r.1.map (·.res))).getD k = r.2.getD k) ∧ (A ≤ r.2.getD k → A ≤ (sumRes (r.1.map (·.res))).getD k) := by
  intro victims
  induction victims with
  | nil => intro st _ h; simpa [finalLoop] using h
  | cons v t ih =>
    intro st hv h
    rw [finalLoop_cons]
    have hvt : ∀ x ∈ t, wf x.res = true ∧ 0 ≤ x.res.getD k := fun x hx => hv x (List.mem_cons_of_mem _ hx)
    obtain ⟨hw, hp⟩ := hv v List.mem_cons_self
    by_cases h1 : (!fitIn && v.node != ni) = true
    · rw [if_pos h1]; exact ih st hvt h
    · rw [if_neg h1]
      apply ih _ hvt
      rw [soe_single k A hA]
      simp only [addX_getD _ _ hw]
      by_cases hlt : st.2.getD k < A
      · simp only [hlt, decide_true, if_true, List.map_append, List.map_cons, List.map_nil, sumRes_append_one, addX_getD _ _ hw]
        have := h.1 hlt
        constructor <;> intro _ <;> omega
      · simp only [hlt, decide_false, Bool.false_eq_true, if_false]
        have := h.2 (by omega)
        constructor <;> intro _ <;> omega

/-- single-type ask: if the shortfall test lets the commit through, the FINAL victims alone free at least the ask -/
theorem finalFilter_single (k : String) (A : Int) (hA : 0 < A) (fitIn : Bool) (ni : Nat) (victims : List PAlloc)
    (hv : ∀ v ∈ victims, wf v.res = true ∧ 0 ≤ v.res.getD k)
    (hc : strictlyOnlyExisting (some [(k, A)]) (some (finalFilter [(k, A)] fitIn ni victims).2) false = false) :
    A ≤ (sumRes ((finalFilter [(k, A)] fitIn ni victims).1.map (·.res))).getD k := by
  have h := finalLoop_single k A hA fitIn ni victims ([], []) hv (by simp [sumRes])
  rw [← finalFilter_eq] at h
  rw [soe_single k A hA] at hc
  simp only [decide_eq_false_iff_not] at hc
  exact h.2 (by omega)

/-! ### queue tree: ancestor chains -/

/-- parents come before their children -/
def WF (w : World) : Prop := ∀ (i : Nat) (q : PQ), w.queues[i]? = some q → ∀ p, q.parent = some p → p < i

theorem chainAux_succ (qs : List PQ) (f i : Nat) :
    chainAux qs (f + 1) i =
      match qs[i]? with
      | none => []
      | some q => i :: (match q.parent with | none => [] | some p => chainAux qs f p) := rfl

theorem chainAux_fuel (w : World) (hw : WF w) :
    ∀ f1 f2 i, i < f1 → i < f2 → chainAux w.queues f1 i = chainAux w.queues f2 i := by
  intro f1
  induction f1 with
  | zero => intro f2 i h; omega
  | succ a ih =>
    intro f2 i h1 h2
    cases f2 with
    | zero => omega
    | succ b =>
      rw [chainAux_succ, chainAux_succ]
      cases hq : w.queues[i]? with
      | none => rfl
      | some q =>
        cases hpar : q.parent with
        | none => simp only [hpar]
        | some p =>
          have := hw i q hq p hpar
          simp only [hpar]
          rw [ih b p (by omega) (by omega)]

theorem lt_length_of_getElem? {qs : List PQ} {i : Nat} {q : PQ} (h : qs[i]? = some q) : i < qs.length := by
  obtain ⟨h', _⟩ := List.getElem?_eq_some_iff.mp h
  exact h'

theorem chain_root {w : World} {i : Nat} {q : PQ} (h : w.queues[i]? = some q) (hp : q.parent = none) :
    chain w i = [i] := by
  unfold chain
  have := lt_length_of_getElem? h
  cases hn : w.queues.length with
  | zero => omega
  | succ n => rw [chainAux_succ, h]; simp only [hp]

theorem chain_cons {w : World} (hw : WF w) {i p : Nat} {q : PQ} (h : w.queues[i]? = some q)
    (hp : q.parent = some p) : chain w i = i :: chain w p := by
  unfold chain
  have hl := lt_length_of_getElem? h
  have hpi := hw i q h p hp
  cases hn : w.queues.length with
  | zero => omega
  | succ n =>
    rw [chainAux_succ w.queues n i, h]; simp only [hp]
    rw [chainAux_fuel w hw n (n + 1) p (by omega) (by omega)]

theorem chain_head {w : World} (hw : WF w) {i : Nat} {q : PQ} (h : w.queues[i]? = some q) :
    ∃ rest, chain w i = i :: rest := by
  cases hp : q.parent with
  | none => exact ⟨[], chain_root h hp⟩
  | some p => exact ⟨chain w p, chain_cons hw h hp⟩

theorem mem_children {w : World} {i c : Nat} (h : c ∈ children w i) : ∃ cq, w.queues[c]? = some cq ∧ cq.parent = some i := by
  unfold children at h
  obtain ⟨_, h2⟩ := List.mem_filter.mp h
  cases hq : w.queues[c]? with
  | none => simp [hq] at h2
  | some cq =>
    refine ⟨cq, rfl, ?_⟩
    simp only [hq] at h2
    simpa using h2

/-! ### findEligiblePreemptionVictims visits a leaf along its tree path -/

/-- `Down w pm i st l st'`: walking down the tree from queue `i` (visited with relative ask priority / fenced flag `st`)
    along parent→child edges, applying the child rule at each step, reaches queue `l` with `st'` -/
inductive Down (w : World) (pm : List (Nat × Int)) : Nat → Int × Bool → Nat → Int × Bool → Prop
  | refl (i : Nat) (st : Int × Bool) : Down w pm i st i st
  | step {i c l : Nat} {st st' st'' : Int × Bool} (hc : c ∈ children w i) (hs : childStep w pm c st = some st')
      (hd : Down w pm c st' l st'') : Down w pm i st l st''

/-- what the leaf branch establishes -/
structure LeafFacts (w : World) (l : Nat) (st : Int × Bool) (vs : List String) : Prop where
  q : ∃ q, w.queues[l]? = some q ∧ q.leaf = true ∧ q.ppol ≠ 2 ∧
        ¬ ((remaining (askInfo w) (allSnaps w) q.path).isSome = true ∧
            strictlyGreaterThanOrEquals (remaining (askInfo w) (allSnaps w) q.path) (some []) = true)
  notAsk : l ≠ w.ask.q
  vs : vs = sortStrs ((w.allocs.filter (eligibleAlloc w l st.1 st.2)).map (·.key))

theorem eligAux_spec (w : World) (pm : List (Nat × Int)) :
    ∀ (f i : Nat) (p : Int) (fenced : Bool) (l : Nat) (vs : List String), (l, vs) ∈ eligAux w pm f i p fenced →
      ∃ st', Down w pm i (p, fenced) l st' ∧ LeafFacts w l st' vs := by
  intro f
  induction f with
  | zero => intro i p fenced l vs h; simp [eligAux] at h
  | succ f ih =>
    intro i p fenced l vs h
    unfold eligAux at h
    cases hq : w.queues[i]? with
    | none => simp [hq] at h
    | some q =>
      simp only [hq] at h
      by_cases hask : (i == w.ask.q) = true
      · simp [hask] at h
      · simp only [hask, Bool.false_eq_true, if_false] at h
        by_cases hleaf : q.leaf = true
        · simp only [hleaf, if_true] at h
          by_cases hpol : (q.ppol == 2) = true
          · simp [hpol] at h
          · simp only [hpol, Bool.false_eq_true, if_false] at h
            split at h
            · cases h
            · rename_i hrem
              split at h
              · cases h
              · simp only [List.mem_singleton, Prod.mk.injEq] at h
                obtain ⟨hl, hvs⟩ := h
                subst hl
                refine ⟨(p, fenced), Down.refl _ _, ⟨⟨q, hq, hleaf, ?_, ?_⟩, ?_, hvs⟩⟩
                · simpa using hpol
                · simpa [Bool.and_eq_true] using hrem
                · simpa using hask
        · simp only [hleaf, Bool.false_eq_true, if_false] at h
          obtain ⟨c, hc, hmem⟩ := List.mem_flatMap.mp h
          cases hst : childStep w pm c (p, fenced) with
          | none => simp [hst] at hmem
          | some st =>
            simp only [hst] at hmem
            obtain ⟨st', hd, hf⟩ := ih c st.1 st.2 l vs hmem
            exact ⟨st', Down.step hc hst hd, hf⟩

theorem takeWhile_append_stop {α} (p : α → Bool) (seg : List α) (a : α) (rest : List α)
    (h1 : ∀ x ∈ seg, p x = true) (h2 : p a = false) : (seg ++ a :: rest).takeWhile p = seg := by
  induction seg with
  | nil => simp [h2]
  | cons x t ih =>
    have hx := h1 x List.mem_cons_self
    simp only [List.cons_append, List.takeWhile_cons, hx, if_true]
    rw [ih (fun y hy => h1 y (List.mem_cons_of_mem _ hy))]

/-- a `Down` walk is the tree path: the chain of the target is the walked segment on top of the chain of the start,
    and folding the child rule over the segment (top-down) gives the final pair -/
theorem down_chain (w : World) (hw : WF w) (pm : List (Nat × Int)) {i l : Nat} {st st' : Int × Bool}
    (h : Down w pm i st l st') :
    ∃ seg, chain w l = seg ++ chain w i ∧ (∀ x ∈ seg, i < x) ∧
      seg.reverse.foldl (fun acc d => acc.bind (childStep w pm d)) (some st) = some st' := by
  induction h with
  | refl i st => exact ⟨[], by simp, (by intro x hx; cases hx), rfl⟩
  | @step i c l st st' st'' hc hs _ ih =>
    obtain ⟨seg, e, hlt, hf⟩ := ih
    obtain ⟨cq, hcq, hpar⟩ := mem_children hc
    have hic : i < c := hw c cq hcq i hpar
    refine ⟨seg ++ [c], ?_, ?_, ?_⟩
    · rw [e, chain_cons hw hcq hpar]; simp
    · intro x hx
      rcases List.mem_append.mp hx with hx | hx
      · have := hlt x hx; omega
      · simp at hx; omega
    · rw [List.reverse_append]
      simp only [List.reverse_cons, List.reverse_nil, List.nil_append, List.singleton_append, List.foldl_cons,
        Option.bind_some, hs]
      exact hf

theorem downPrio_of_down (w : World) (hw : WF w) (pm : List (Nat × Int)) {fr l : Nat} {p0 : Int} {st' : Int × Bool}
    (hfr : ∃ q, w.queues[fr]? = some q) (hp0 : pm.lookup fr = some p0) (h : Down w pm fr (p0, false) l st') :
    inSubtree w fr l = true ∧ downPrio w pm fr l = some st' := by
  obtain ⟨seg, e, hlt, hf⟩ := down_chain w hw pm h
  obtain ⟨q, hq⟩ := hfr
  obtain ⟨rest, hrest⟩ := chain_head hw hq
  have hcont : (chain w l).contains fr = true := by
    rw [e, hrest]; simp
  refine ⟨hcont, ?_⟩
  unfold downPrio
  simp only [hcont, Bool.not_true, Bool.false_eq_true, if_false, hp0]
  have htw : (chain w l).takeWhile (· != fr) = seg := by
    rw [e, hrest]
    apply takeWhile_append_stop
    · intro x hx; have := hlt x hx; simp; omega
    · simp
  rw [htw]; exact hf

theorem mem_of_lookup {α β} [BEq α] [LawfulBEq α] {l : List (α × β)} {a : α} {b : β} (h : l.lookup a = some b) : (a, b) ∈ l := by
  induction l with
  | nil => simp [List.lookup] at h
  | cons x t ih =>
    obtain ⟨x1, x2⟩ := x
    rw [List.lookup_cons] at h
    by_cases hx : a == x1
    · simp only [hx] at h
      have : a = x1 := by simpa using hx
      subst this; cases h; exact List.mem_cons_self
    · simp only [hx] at h
      exact List.mem_cons_of_mem _ (ih h)

theorem eligibleAlloc_true {w : World} {leaf : Nat} {askPrio : Int} {fenced : Bool} {a : PAlloc}
    (h : eligibleAlloc w leaf askPrio fenced a = true) :
    a.q = leaf ∧ matchAny (some w.ask.res) (some a.res) false = true ∧ a.req = false ∧ a.released = false ∧
      a.preempted = false ∧ (fenced = true ∨ a.prio ≤ askPrio) := by
  unfold eligibleAlloc at h
  simp only [Bool.and_eq_true, Bool.not_eq_true', Bool.or_eq_true, decide_eq_true_eq, beq_iff_eq] at h
  obtain ⟨⟨⟨⟨⟨h1, h2⟩, h3⟩, h4⟩, h5⟩, h6⟩ := h
  exact ⟨h1, h2, h3, h4, h5, h6⟩

/-- every potential victim the traversal returns satisfies every eligibility clause -/
theorem eligLeaves_eligible (w : World) (hw : WF w) (l : Nat) (vs : List String) (k : String)
    (h : (l, vs) ∈ eligLeaves w) (hk : k ∈ vs) :
    ∃ a, a ∈ w.allocs ∧ a.key = k ∧ a.q = l ∧ eligViolations w a = [] := by
  unfold eligLeaves at h
  cases hfr : fenceRoot w with
  | none => simp [hfr] at h
  | some frpm =>
    obtain ⟨fr, pm⟩ := frpm
    simp only [hfr] at h
    cases hp0 : pm.lookup fr with
    | none => simp [hp0] at h
    | some p0 =>
      simp only [hp0] at h
      obtain ⟨st', hd, hf⟩ := eligAux_spec w pm _ fr p0 false l vs h
      -- the fence root is a queue of the world
      have hfrq : ∃ q, w.queues[fr]? = some q := by
        cases hq : w.queues[fr]? with
        | some q => exact ⟨q, rfl⟩
        | none => exfalso; unfold eligAux at h; simp [hq] at h
      obtain ⟨hsub, hdp⟩ := downPrio_of_down w hw pm hfrq hp0 hd
      obtain ⟨q, hq, hleaf, hpol, _⟩ := hf.q
      rw [hf.vs, mem_sortStrs] at hk
      obtain ⟨a, ha, hak⟩ := List.mem_map.mp hk
      obtain ⟨hal, hel⟩ := List.mem_filter.mp ha
      obtain ⟨e1, e2, e3, e4, e5, e6⟩ := eligibleAlloc_true hel
      refine ⟨a, hal, hak, e1, ?_⟩
      have hnotask : (a.q != w.ask.q) = true := by rw [e1]; simpa using hf.notAsk
      have hprio : (st'.2 || decide (a.prio ≤ st'.1)) = true := by
        rcases e6 with h | h <;> simp [h]
      unfold eligViolations
      simp only [hal, decide_true, if_true, e4, e5, e3, Bool.not_false, e1, hq, hleaf, Bool.true_and, hfr, hsub, hdp, hprio,
        e2, List.append_nil, List.nil_append]
      rw [e1] at hnotask
      simp [hnotask, hpol]

theorem mem_insSnap (s x : Snap) : ∀ l : List Snap, x ∈ insSnap s l ↔ x = s ∨ x ∈ l := by
  intro l
  induction l with
  | nil => simp [insSnap]
  | cons a t ih =>
    unfold insSnap
    by_cases h : s.path < a.path
    · rw [if_pos h]; simp
    · rw [if_neg h]
      simp only [List.mem_cons, ih]
      constructor
      · rintro (h1 | h1 | h1) <;> simp [h1]
      · rintro (h1 | h1 | h1) <;> simp [h1]

theorem mem_foldl_insSnap (x : Snap) : ∀ (l acc : List Snap),
    x ∈ l.foldl (fun acc s => insSnap s acc) acc ↔ x ∈ l ∨ x ∈ acc := by
  intro l
  induction l with
  | nil => intro acc; simp
  | cons a t ih =>
    intro acc
    rw [List.foldl_cons, ih, mem_insSnap]
    simp only [List.mem_cons]
    constructor
    · rintro (h | h | h) <;> simp [h]
    · rintro ((h | h) | h) <;> simp [h]

theorem mem_sortSnaps (x : Snap) (l : List Snap) : x ∈ sortSnaps l ↔ x ∈ l := by
  unfold sortSnaps; rw [mem_foldl_insSnap]; simp

/-- the potential victims listed in a snapshot returned by FindEligiblePreemptionVictims are those of one leaf of the
    traversal, and the snapshot is that leaf's -/
theorem findEligible_victims (w : World) (s : Snap) (k : String) (hs : s ∈ findEligible w) (hk : k ∈ s.victims) :
    ∃ l vs, (l, vs) ∈ eligLeaves w ∧ k ∈ vs ∧ s.path = pathOf w l := by
  unfold findEligible at hs
  simp only at hs
  rw [mem_sortSnaps] at hs
  obtain ⟨i, _, hsn⟩ := List.mem_filterMap.mp hs
  unfold snapOf at hsn
  cases hq : w.queues[i]? with
  | none => simp [hq] at hsn
  | some q =>
    simp only [hq, Option.some.injEq] at hsn
    subst hsn
    simp only at hk
    cases hl : (eligLeaves w).lookup i with
    | none => simp [hl] at hk
    | some vs =>
      simp only [hl, Option.getD_some] at hk
      exact ⟨i, vs, mem_of_lookup hl, hk, by simp [pathOf, hq]⟩

/-- C07, queue preemption: every potential victim in a snapshot returned by the model of
    FindEligiblePreemptionVictims satisfies every eligibility clause -/
theorem findEligible_eligible (w : World) (hw : WF w) (s : Snap) (k : String) (hs : s ∈ findEligible w) (hk : k ∈ s.victims) :
    ∃ a, a ∈ w.allocs ∧ a.key = k ∧ s.path = pathOf w a.q ∧ eligViolations w a = [] := by
  obtain ⟨l, vs, hl, hkv, hp⟩ := findEligible_victims w s k hs hk
  obtain ⟨a, ha, hak, haq, hv⟩ := eligLeaves_eligible w hw l vs k hl hkv
  exact ⟨a, ha, hak, by rw [hp, haq], hv⟩

theorem ite_nil {c : Prop} [Decidable c] {s : String} (h : (if c then ([] : List String) else [s]) = []) : c := by
  by_cases hc : c
  · exact hc
  · simp [hc] at h

/-- the clause list is empty exactly when every clause of C07 holds for the allocation -/
theorem eligViolations_nil {w : World} {a : PAlloc} (h : eligViolations w a = []) :
    a ∈ w.allocs ∧ a.released = false ∧ a.preempted = false ∧ a.req = false ∧
    (∃ q, w.queues[a.q]? = some q ∧ q.leaf = true ∧ q.ppol ≠ 2) ∧ a.q ≠ w.ask.q ∧
    (∃ fr pm, fenceRoot w = some (fr, pm) ∧ inSubtree w fr a.q = true ∧
      ∃ p fenced, downPrio w pm fr a.q = some (p, fenced) ∧ (fenced = true ∨ a.prio ≤ p)) ∧
    matchAny (some w.ask.res) (some a.res) false = true := by
  unfold eligViolations at h
  simp only [List.append_eq_nil_iff] at h
  obtain ⟨⟨⟨⟨⟨⟨⟨h1, h2⟩, h3⟩, h4⟩, h5⟩, h6⟩, h7⟩, h8⟩ := h
  have c1 := ite_nil h1
  have c2 := ite_nil h2
  have c3 := ite_nil h3
  have c4 := ite_nil h4
  have c5 := ite_nil h5
  have c7 := ite_nil h7
  have c8 := ite_nil h8
  simp only [decide_eq_true_eq] at c1
  simp only [Bool.not_eq_true'] at c2 c3 c4
  simp only [Bool.and_eq_true, bne_iff_ne, ne_eq] at c5
  refine ⟨c1, c2, c3, c4, ?_, c5.2, ?_, c8⟩
  · cases hq : w.queues[a.q]? with
    | none => simp [hq] at c5
    | some q =>
      refine ⟨q, rfl, ?_, ?_⟩
      · simpa [hq] using c5.1
      · simp only [hq] at c7; simpa using c7
  · cases hfr : fenceRoot w with
    | none => simp [hfr] at h6
    | some frpm =>
      obtain ⟨fr, pm⟩ := frpm
      simp only [hfr, List.append_eq_nil_iff] at h6
      obtain ⟨h6a, h6b⟩ := h6
      refine ⟨fr, pm, rfl, ite_nil h6a, ?_⟩
      cases hdp : downPrio w pm fr a.q with
      | none => simp [hdp] at h6b
      | some pf =>
        obtain ⟨p, fenced⟩ := pf
        simp only [hdp] at h6b
        have := ite_nil h6b
        simp only [Bool.or_eq_true, decide_eq_true_eq] at this
        exact ⟨p, fenced, rfl, this⟩

/-! ### TryPreemption only commits potential victims -/

/-- a fold whose steps only ever add the current element to the projected list -/
theorem foldl_proj_subset {σ : Type} (proj : σ → List PAlloc) (step : σ → PAlloc → σ)
    (hstep : ∀ st v, ∀ x ∈ proj (step st v), x ∈ proj st ∨ x = v) :
    ∀ (l : List PAlloc) (st : σ), ∀ x ∈ proj (l.foldl step st), x ∈ proj st ∨ x ∈ l := by
  intro l
  induction l with
  | nil => intro st x hx; exact Or.inl hx
  | cons a t ih =>
    intro st x hx
    rw [List.foldl_cons] at hx
    rcases ih (step st a) x hx with h | h
    · rcases hstep st a x h with h' | h'
      · exact Or.inl h'
      · exact Or.inr (h' ▸ List.mem_cons_self)
    · exact Or.inr (List.mem_cons_of_mem _ h)

theorem pass1Step_proj (w : World) (ss0 : List Snap) (st : Pass1) (v : PAlloc) :
    ∀ x ∈ (pass1Step w ss0 st v).head ++ (pass1Step w ss0 st v).tail, x ∈ st.head ++ st.tail ∨ x = v := by
  intro x hx
  unfold pass1Step at hx
  simp only at hx
  split at hx
  · exact Or.inl hx
  · split at hx
    · exact Or.inl hx
    · split at hx
      · split at hx
        · split at hx
          · simp only [List.mem_append, List.mem_singleton] at hx ⊢
            rcases hx with h | h | h
            · exact Or.inl (Or.inl h)
            · exact Or.inl (Or.inr h)
            · exact Or.inr h
          · simp only [List.mem_append, List.mem_singleton] at hx ⊢
            rcases hx with (h | h) | h
            · exact Or.inl (Or.inl h)
            · exact Or.inr h
            · exact Or.inl (Or.inr h)
        · exact Or.inl hx
      · exact Or.inl hx

theorem pass2Step_proj (w : World) (ss0 : List Snap) (st : Pass2) (v : PAlloc) :
    ∀ x ∈ (pass2Step w ss0 st v).results, x ∈ st.results ∨ x = v := by
  intro x hx
  unfold pass2Step at hx
  simp only at hx
  split at hx
  · exact Or.inl hx
  · split at hx
    · simp only [List.mem_append, List.mem_singleton] at hx
      exact hx
    · exact Or.inl hx

theorem addStep_proj (w : World) (ss0 : List Snap) (st : AddSt) (v : PAlloc) :
    ∀ x ∈ (addStep w ss0 st v).victims, x ∈ st.victims ∨ x = v := by
  intro x hx
  unfold addStep at hx
  simp only at hx
  split at hx
  · exact Or.inl hx
  · split at hx
    · exact Or.inl hx
    · split at hx
      · split at hx
        · split at hx
          · simp only [List.mem_append, List.mem_singleton] at hx
            exact hx
          · exact Or.inl hx
        · exact Or.inl hx
      · exact Or.inl hx

/-- calculateVictimsByNode only returns potential victims it was given -/
theorem calcVictimsByNode_subset {w : World} {ss0 : List Snap} {avail : Res} {pv : List PAlloc} {idx : Int} {vs : List PAlloc}
    (h : calcVictimsByNode w ss0 avail pv = some (idx, vs)) : ∀ v ∈ vs, v ∈ pv := by
  unfold calcVictimsByNode at h
  split at h
  · simp only [Option.some.injEq, Prod.mk.injEq] at h; intro v hv; rw [← h.2] at hv; cases hv
  · split at h
    · cases h
    · simp only at h
      split at h
      · cases h
      · split at h
        · cases h
        · simp only [Option.some.injEq, Prod.mk.injEq] at h
          intro v hv
          rw [← h.2] at hv
          have h2 := foldl_proj_subset (fun st : Pass2 => st.results) (pass2Step w ss0) (pass2Step_proj w ss0) _ _ v hv
          rcases h2 with h2 | h2
          · cases h2
          · have h1 := foldl_proj_subset (fun st : Pass1 => st.head ++ st.tail) (pass1Step w ss0) (pass1Step_proj w ss0) pv _ v h2
            rcases h1 with h1 | h1
            · simp at h1
            · exact h1

theorem mem_insCheck (c x : Check) : ∀ l : List Check, x ∈ insCheck c l → x = c ∨ x ∈ l := by
  intro l
  induction l with
  | nil => intro h; simp [insCheck] at h; exact Or.inl h
  | cons d t ih =>
    intro h
    unfold insCheck at h
    split at h
    · rcases List.mem_cons.mp h with h | h
      · exact Or.inl h
      · exact Or.inr h
    · rcases List.mem_cons.mp h with h | h
      · exact Or.inr (h ▸ List.mem_cons_self)
      · rcases ih h with h | h
        · exact Or.inl h
        · exact Or.inr (List.mem_cons_of_mem _ h)

theorem mem_foldl_insCheck (x : Check) : ∀ (l acc : List Check),
    x ∈ l.foldl (fun acc c => insCheck c acc) acc → x ∈ l ∨ x ∈ acc := by
  intro l
  induction l with
  | nil => intro acc h; exact Or.inr h
  | cons a t ih =>
    intro acc h
    rw [List.foldl_cons] at h
    rcases ih _ h with h | h
    · exact Or.inl (List.mem_cons_of_mem _ h)
    · rcases mem_insCheck a x acc h with h | h
      · exact Or.inl (h ▸ List.mem_cons_self)
      · exact Or.inr h

theorem victimsOnNode_mem {w : World} {ss : List Snap} {ni : Nat} {v : PAlloc} (h : v ∈ victimsOnNode w ss ni) :
    v ∈ potentialVictims w ss ∧ v.node = ni := by
  unfold victimsOnNode at h
  rw [mem_sortBy] at h
  obtain ⟨h1, h2⟩ := List.mem_filter.mp h
  exact ⟨h1, by simpa using h2⟩

/-- every check sent to the predicates lists potential victims that sit on the node of the check -/
theorem nodeChecks_victims {w : World} {ss : List Snap} {nt : Bool} {c : Check} (hc : c ∈ nodeChecks w ss nt) :
    ∀ v ∈ c.victims, v ∈ potentialVictims w ss ∧ v.node = c.ni := by
  unfold nodeChecks at hc
  simp only at hc
  rcases mem_foldl_insCheck c _ [] hc with hc | hc
  · obtain ⟨ni, _, hni⟩ := List.mem_filterMap.mp hc
    cases hn : w.nodes[ni]? with
    | none => simp [hn] at hni
    | some n =>
      simp only [hn] at hni
      split at hni
      · cases hni
      · cases hcv : calcVictimsByNode w ss n.avail (victimsOnNode w ss ni) with
        | none => simp [hcv] at hni
        | some r =>
          obtain ⟨idx, vs⟩ := r
          simp only [hcv] at hni
          split at hni
          · simp only [Option.some.injEq] at hni
            subst hni
            intro v hv
            exact victimsOnNode_mem (calcVictimsByNode_subset hcv v hv)
          · cases hni
  · cases hc

theorem potentialVictims_mem {w : World} {ss : List Snap} {v : PAlloc} (h : v ∈ potentialVictims w ss) :
    v ∈ w.allocs ∧ ∃ s ∈ ss, v.key ∈ s.victims := by
  unfold potentialVictims at h
  obtain ⟨k, hk, hf⟩ := List.mem_filterMap.mp h
  unfold findAlloc at hf
  have hm := List.mem_of_find?_eq_some hf
  have hkey := List.find?_some hf
  simp only [beq_iff_eq] at hkey
  obtain ⟨s, hs, hks⟩ := List.mem_flatMap.mp hk
  exact ⟨hm, s, hs, hkey ▸ hks⟩

theorem calcAdditional_subset {w : World} {ss0 : List Snap} {nv extra : List PAlloc} {ok : Bool}
    (h : calcAdditional w ss0 nv = (some extra, ok)) : ∀ v ∈ extra, v ∈ potentialVictims w ss0 := by
  unfold calcAdditional at h
  simp only at h
  split at h
  · cases h
  · split at h
    · cases h
    · have hsub : ∀ x ∈ extra, x ∈ sortBy compareLess ((potentialVictims w ss0).filter (fun a => !(nv.map (·.key)).contains a.key)) := by
        intro x hx
        split at h
        all_goals
          simp only [Prod.mk.injEq, Option.some.injEq] at h
          rw [← h.1] at hx
          rcases foldl_proj_subset (fun st : AddSt => st.victims) (addStep w ss0) (addStep_proj w ss0) _ _ x hx with h' | h'
          · cases h'
          · exact h'
      intro v hv
      have := hsub v hv
      rw [mem_sortBy] at this
      exact (List.mem_filter.mp this).1

/-! ### what a negative remaining-guaranteed entry means -/

/-- usage of a snapshot as the guarantee arithmetic sees it: allocated minus what is already being preempted -/
def Snap.used (s : Snap) : Res := (subOE (some s.alloc) (some s.preempting)).getD []

theorem mem_set_cases (r : Res) (k : String) (v : Int) (x : String × Int) (h : x ∈ Res.set r k v) : x ∈ r ∨ x = (k, v) := by
  induction r with
  | nil => simp [Res.set] at h; exact Or.inr h
  | cons p t ih =>
    obtain ⟨a, b⟩ := p
    unfold Res.set at h
    split at h
    · rename_i hk
      have hk' : a = k := by simpa using hk
      rcases List.mem_cons.mp h with h | h
      · right; rw [h, hk']
      · exact Or.inl (List.mem_cons_of_mem _ h)
    · rcases List.mem_cons.mp h with h | h
      · exact Or.inl (h ▸ List.mem_cons_self)
      · rcases ih h with h | h
        · exact Or.inl (List.mem_cons_of_mem _ h)
        · exact Or.inr h

/-- elements of a fold of `set` steps: from the accumulator or written by a step -/
theorem mem_foldl_set (step : Res → String × Int → Res) (g : String × Int → Int)
    (hs : ∀ out p, step out p = Res.set out p.1 (g p)) (x : String × Int) :
    ∀ (l acc : Res), x ∈ l.foldl step acc → x ∈ acc ∨ ∃ p ∈ l, x = (p.1, g p) := by
  intro l
  induction l with
  | nil => intro acc h; exact Or.inl h
  | cons p t ih =>
    intro acc h
    rw [List.foldl_cons, hs] at h
    rcases ih _ h with h | ⟨q, hq, e⟩
    · rcases mem_set_cases _ _ _ _ h with h | h
      · exact Or.inl h
      · exact Or.inr ⟨p, List.mem_cons_self, h⟩
    · exact Or.inr ⟨q, List.mem_cons_of_mem _ hq, e⟩

/-- the value componentWiseMin writes for an entry is the entry's own value or the other operand's value for that type -/
theorem cwmWrite_cases (o : Res) (p : String × Int) :
    (match get? o p.1 with | some v => min p.2 v | none => p.2) = p.2 ∨
      (p.1, (match get? o p.1 with | some v => min p.2 v | none => p.2)) ∈ o := by
  cases hg : get? o p.1 with
  | none => exact Or.inl rfl
  | some v =>
    simp only
    by_cases hle : p.2 ≤ v
    · left; exact Int.min_eq_left hle
    · right
      have : min p.2 v = v := Int.min_eq_right (by omega)
      rw [this]; exact mem_of_get? hg

/-- every entry of ComponentWiseMin(l, r) is an entry of l or of r -/
theorem cwm_mem {a b : ORes} {r : Res} (h : componentWiseMin a b = some r) (x : String × Int) (hx : x ∈ r) :
    (∃ l, a = some l ∧ x ∈ l) ∨ (∃ l, b = some l ∧ x ∈ l) := by
  cases a with
  | none =>
    cases b with
    | none => simp [componentWiseMin] at h
    | some rb => simp only [componentWiseMin, Option.some.injEq] at h; subst h; exact Or.inr ⟨_, rfl, hx⟩
  | some la =>
    cases b with
    | none => simp only [componentWiseMin, Option.some.injEq] at h; subst h; exact Or.inl ⟨_, rfl, hx⟩
    | some rb =>
      simp only [componentWiseMin, Option.some.injEq] at h
      subst h
      rcases mem_foldl_set _ (fun p => match get? la p.1 with | some v => min p.2 v | none => p.2)
        (by intro out p; cases get? la p.1 <;> rfl) x rb _ hx with h1 | ⟨p, hp, e⟩
      · rcases mem_foldl_set _ (fun p => match get? rb p.1 with | some v => min p.2 v | none => p.2)
          (by intro out p; cases get? rb p.1 <;> rfl) x la _ h1 with h2 | ⟨p, hp, e⟩
        · cases h2
        · rcases cwmWrite_cases rb p with hc | hc
          · left; refine ⟨la, rfl, ?_⟩
            have : x = p := by rw [e]; exact Prod.ext rfl hc
            exact this ▸ hp
          · right; exact ⟨rb, rfl, e ▸ hc⟩
      · rcases cwmWrite_cases la p with hc | hc
        · right; refine ⟨rb, rfl, ?_⟩
          have : x = p := by rw [e]; exact Prod.ext rfl hc
          exact this ▸ hp
        · left; exact ⟨la, rfl, e ▸ hc⟩

/-- every entry of MergeIfNotPresent(l, r) is an entry of l or of r -/
theorem merge_mem {a b : ORes} {r : Res} (h : mergeIfNotPresent a b = some r) (x : String × Int) (hx : x ∈ r) :
    (∃ l, a = some l ∧ x ∈ l) ∨ (∃ l, b = some l ∧ x ∈ l) := by
  cases a with
  | none =>
    cases b with
    | none => simp [mergeIfNotPresent] at h
    | some rb => simp only [mergeIfNotPresent, Option.some.injEq] at h; subst h; exact Or.inr ⟨_, rfl, hx⟩
  | some la =>
    cases b with
    | none => simp only [mergeIfNotPresent, Option.some.injEq] at h; subst h; exact Or.inl ⟨_, rfl, hx⟩
    | some rb =>
      simp only [mergeIfNotPresent, Option.some.injEq] at h
      subst h
      have key : ∀ (l acc : Res), x ∈ l.foldl (fun (out : Res) p => if la.has p.1 then out else out.set p.1 p.2) acc →
          x ∈ acc ∨ x ∈ l := by
        intro l
        induction l with
        | nil => intro acc h; exact Or.inl h
        | cons p t ih =>
          intro acc h
          rw [List.foldl_cons] at h
          rcases ih _ h with h | h
          · split at h
            · exact Or.inl h
            · rcases mem_set_cases _ _ _ _ h with h | h
              · exact Or.inl h
              · exact Or.inr (h ▸ List.mem_cons_self)
          · exact Or.inr (List.mem_cons_of_mem _ h)
      rcases key rb la hx with h | h
      · exact Or.inl ⟨la, rfl, h⟩
      · exact Or.inr ⟨rb, rfl, h⟩

theorem findSnap_some {ss : List Snap} {p : String} {s : Snap} (h : findSnap ss p = some s) : s ∈ ss ∧ s.path = p := by
  unfold findSnap at h
  refine ⟨List.mem_of_find?_eq_some h, ?_⟩
  have := List.find?_some h
  simpa using this

/-- GetRemainingGuaranteedResource: a negative entry for type `k` is witnessed by a snapshot on the path (the queue
    itself or an ancestor) whose guaranteed amount of `k` is below its usage of `k` — the queue is above its share -/
theorem remaining_neg_witness (ai : AskInfo) (ss : List Snap) :
    ∀ (f : Nat) (p : Option String) (r : Res) (k : String) (v : Int), remainingAux ai ss f p = some r → (k, v) ∈ r → v < 0 →
      ∃ s ∈ ss, s.path ∈ snapChainAux ss f p ∧ ∃ g gv, s.guar = some g ∧ (k, gv) ∈ g ∧ gv < s.used.getD k := by
  intro f
  induction f with
  | zero => intro p r k v h; simp [remainingAux] at h
  | succ f ih =>
    intro p r k v h hkv hneg
    cases p with
    | none => simp [remainingAux] at h
    | some path =>
      unfold remainingAux at h
      cases hfs : findSnap ss path with
      | none => simp [hfs] at h
      | some s =>
        simp only [hfs] at h
        obtain ⟨hsmem, hspath⟩ := findSnap_some hfs
        have hchain : snapChainAux ss (f + 1) (some path) = path :: snapChainAux ss f s.parent := by
          simp [snapChainAux, hfs]
        -- in every branch the result's entries come from `rg` or from the parent's result
        have hsrc : (∃ l, subOE s.guar (subOE (some s.alloc) (some s.preempting)) = some l ∧ (k, v) ∈ l) ∨
            (∃ l, remainingAux ai ss f s.parent = some l ∧ (k, v) ∈ l) := by
          unfold remStep at h
          simp only at h
          split at h
          · cases h
          · split at h
            · split at h
              · exact merge_mem h _ hkv
              · split at h
                · cases h
                · exact cwm_mem h _ hkv
            · exact cwm_mem h _ hkv
        rcases hsrc with ⟨l, hl, hmem⟩ | ⟨l, hl, hmem⟩
        · -- the queue's own guaranteed minus usage is negative
          cases hg : s.guar with
          | none => simp [hg, subOE] at hl
          | some g =>
            have hused : subOE (some s.alloc) (some s.preempting) = some s.used := by simp [Snap.used, subOE]
            rw [hg, hused] at hl
            simp only [subOE, Option.some.injEq] at hl
            subst hl
            obtain ⟨e, he, heq⟩ := List.mem_map.mp hmem
            simp only [Prod.mk.injEq] at heq
            refine ⟨s, hsmem, ?_, g, e.2, hg, ?_, ?_⟩
            · rw [hchain, hspath]; exact List.mem_cons_self
            · rw [← heq.1]; exact he
            · rw [← heq.1]; omega
        · obtain ⟨s', hs', hc', w'⟩ := ih s.parent l k v hl hmem hneg
          exact ⟨s', hs', by rw [hchain]; exact List.mem_cons_of_mem _ hc', w'⟩

/-- a leaf queue that is within its guarantee (remaining guaranteed defined and nowhere negative) offers no victims -/
theorem leaf_within_guarantee_offers_nothing (w : World) (l : Nat) (q : PQ) (hq : w.queues[l]? = some q)
    (hrem : (remaining (askInfo w) (allSnaps w) q.path).isSome = true)
    (hge : strictlyGreaterThanOrEquals (remaining (askInfo w) (allSnaps w) q.path) (some []) = true) :
    ∀ vs, (l, vs) ∉ eligLeaves w := by
  intro vs hmem
  unfold eligLeaves at hmem
  cases hfr : fenceRoot w with
  | none => simp [hfr] at hmem
  | some frpm =>
    obtain ⟨fr, pm⟩ := frpm
    simp only [hfr] at hmem
    cases hp0 : pm.lookup fr with
    | none => simp [hp0] at hmem
    | some p0 =>
      simp only [hp0] at hmem
      obtain ⟨st', _, hf⟩ := eligAux_spec w pm _ fr p0 false l vs hmem
      obtain ⟨q', hq', _, _, hno⟩ := hf.q
      rw [hq] at hq'
      cases hq'
      exact hno ⟨hrem, hge⟩

/-! ### no guarantee on the ask path: no attempt -/

/-- `ss'` is `ss` with other allocated amounts (what Add/RemoveAllocation do) -/
def SameShape (ss' ss : List Snap) : Prop :=
  ∃ g : Snap → Snap, (∀ s, (g s).path = s.path ∧ (g s).parent = s.parent ∧ (g s).guar = s.guar) ∧ ss' = ss.map g

theorem SameShape.refl (ss : List Snap) : SameShape ss ss := ⟨id, fun _ => ⟨rfl, rfl, rfl⟩, by simp⟩

theorem SameShape.addAlloc {ss' ss : List Snap} (h : SameShape ss' ss) (p : String) (r : Res) : SameShape (addAlloc ss' p r) ss := by
  obtain ⟨g, hg, e⟩ := h
  refine ⟨fun s => (fun s' => if (snapChain ss' p).contains s'.path then { s' with alloc := addX s'.alloc r } else s') (g s), ?_, ?_⟩
  · intro s; simp only; split <;> exact hg s
  · unfold Pre.addAlloc; rw [e, List.map_map]; rfl

theorem SameShape.removeAlloc {ss' ss : List Snap} (h : SameShape ss' ss) (p : String) (r : Res) : SameShape (removeAlloc ss' p r) ss := by
  obtain ⟨g, hg, e⟩ := h
  refine ⟨fun s => (fun s' => if (snapChain ss' p).contains s'.path then { s' with alloc := subX s'.alloc r } else s') (g s), ?_, ?_⟩
  · intro s; simp only; split <;> exact hg s
  · unfold Pre.removeAlloc; rw [e, List.map_map]; rfl

theorem findSnap_map {ss : List Snap} {g : Snap → Snap} (hg : ∀ s, (g s).path = s.path) (p : String) :
    findSnap (ss.map g) p = (findSnap ss p).map g := by
  unfold findSnap
  rw [List.find?_map]
  have : ((fun s : Snap => s.path == p) ∘ g) = (fun s : Snap => s.path == p) := by
    funext s; simp [Function.comp, hg]
  rw [this]

theorem remainingAux_none_of_no_guarantee (ai : AskInfo) {ss' ss : List Snap} (hR : SameShape ss' ss) :
    ∀ (f : Nat) (p : Option String),
      (∀ q ∈ snapChainAux ss f p, ∀ s, findSnap ss q = some s → isEmpty s.guar = true) → remainingAux ai ss' f p = none := by
  obtain ⟨g, hg, e⟩ := hR
  intro f
  induction f with
  | zero => intro p _; rfl
  | succ f ih =>
    intro p hfree
    cases p with
    | none => rfl
    | some path =>
      unfold remainingAux
      rw [e, findSnap_map (fun s => (hg s).1)]
      cases hfs : findSnap ss path with
      | none => rfl
      | some s =>
        simp only [Option.map_some]
        have hchain : snapChainAux ss (f + 1) (some path) = path :: snapChainAux ss f s.parent := by
          simp [snapChainAux, hfs]
        have hpar : remainingAux ai ss' f (g s).parent = none := by
          rw [(hg s).2.1]
          apply ih
          intro q hq s' hs'
          exact hfree q (by rw [hchain]; exact List.mem_cons_of_mem _ hq) s' hs'
        rw [← e, hpar]
        have hguar : isEmpty (g s).guar = true := by
          rw [(hg s).2.2]
          exact hfree path (by rw [hchain]; exact List.mem_cons_self) s hfs
        unfold remStep
        rw [hguar]
        simp [isEmpty]

/-- checkPreemptionQueueGuarantees refuses when no queue on the path of the ask queue has guaranteed resources:
    queue preemption is only attempted for an ask whose queue path has a guarantee -/
theorem checkGuarantees_needs_guarantee (w : World) (ss : List Snap)
    (h : ∀ q ∈ snapChain ss (askInfo w).path, ∀ s, findSnap ss q = some s → isEmpty s.guar = true) :
    checkGuarantees w ss = false := by
  have hnone : ∀ ss', SameShape ss' ss → remaining (askInfo w) ss' (askInfo w).path = none := by
    intro ss' hR
    unfold remaining
    have hlen : ss'.length = ss.length := by obtain ⟨g, _, e⟩ := hR; rw [e, List.length_map]
    rw [hlen]
    exact remainingAux_none_of_no_guarantee _ hR _ _ h
  unfold checkGuarantees
  simp only
  rw [hnone ss (SameShape.refl ss)]
  split
  · rfl
  · simp only [Option.isSome_none, Bool.false_and, Bool.false_eq_true, if_false]
    have key : ∀ (vs : List (String × String)) (acc : List Snap × Bool), acc.2 = false → SameShape acc.1 ss →
        (vs.foldl (fun (acc : List Snap × Bool) pv =>
          if acc.2 then acc else
          let ss' := removeAlloc acc.1 pv.1 (resOfKey w pv.2)
          match remaining (askInfo w) ss' (askInfo w).path with
          | some r => (ss', isAskQueueUnderGuaranteed w.ask.res r)
          | none => (ss', false)) acc).2 = false := by
      intro vs
      induction vs with
      | nil => intro acc h _; exact h
      | cons pv t ih =>
        intro acc h2 hR
        rw [List.foldl_cons]
        apply ih
        · simp only [h2, Bool.false_eq_true, if_false]
          rw [hnone _ (hR.removeAlloc _ _)]
        · simp only [h2, Bool.false_eq_true, if_false]
          rw [hnone _ (hR.removeAlloc _ _)]
          exact hR.removeAlloc _ _
    exact key _ _ rfl ((SameShape.refl ss).addAlloc _ _)

/-! ### quota change preemption: the plan never exceeds the excess over the lowered maximum -/

/-- usage of queue i as setPreemptableResources sees it: allocated minus preempting -/
def quotaUsed (w : World) (i : Nat) : Res := (subOE (some (allocatedOf w i)) (some (preemptingOf w i))).getD []

theorem quotaPreemptable_le_excess (w : World) (i : Nat) (newMax : ORes) (pre : Res)
    (h : quotaPreemptable w i newMax = some pre) :
    ∀ k v, (k, v) ∈ pre → ∃ mx m, newMax = some mx ∧ (k, m) ∈ mx ∧ v ≤ (quotaUsed w i).getD k - m ∧ m < (quotaUsed w i).getD k := by
  intro k v hkv
  unfold quotaPreemptable at h
  simp only at h
  split at h
  · cases h
  · split at h
    · cases h
    · cases newMax with
      | none => rename_i h1 _; simp [isEmpty] at h1
      | some mx =>
        refine ⟨mx, ?_⟩
        have hused : subOE (some (allocatedOf w i)) (some (preemptingOf w i)) = some (quotaUsed w i) := by
          simp [quotaUsed, subOE]
        rw [hused] at h
        simp only [subOE, Option.getD_some, componentWiseMinOnlyExisting, Option.some.injEq] at h
        subst h
        obtain ⟨p, hp, e⟩ := List.mem_map.mp hkv
        obtain ⟨a, ha, ea⟩ := List.mem_map.mp hp
        obtain ⟨hact, hnegv⟩ := List.mem_filter.mp ha
        obtain ⟨mm, hmm, emm⟩ := List.mem_map.mp hact
        simp only [decide_eq_true_eq] at hnegv
        subst ea; subst emm
        simp only at e hnegv
        refine ⟨mm.2, ?_⟩
        cases hg : get? (List.map (fun p => (p.1, -p.2)) (List.filter (fun p => decide (p.2 < 0)) (queueGuarPreemptable w i))) mm.1 with
        | none =>
          simp only [hg, Prod.mk.injEq] at e
          refine ⟨rfl, ?_, ?_, ?_⟩
          · rw [← e.1]; exact hmm
          · rw [← e.1, ← e.2]; omega
          · rw [← e.1]; omega
        | some gv =>
          simp only [hg, Prod.mk.injEq] at e
          refine ⟨rfl, ?_, ?_, ?_⟩
          · rw [← e.1]; exact hmm
          · rw [← e.1, ← e.2]
            have := Int.min_le_left (-(mm.2 - (quotaUsed w i).getD mm.1)) gv
            omega
          · rw [← e.1]; omega

/-! ### victims are taken from queues above their guaranteed share, at the moment they are taken -/

/-- in some what-if state `ss'` of the snapshots (same queues, other allocated amounts) the victim's queue either has
    no guarantee anywhere on its path (remaining guaranteed nil) or some queue of its path is above its guaranteed
    share on a type `k` the ask needs -/
def AboveGuarantee (w : World) (ss0 : List Snap) (v : PAlloc) : Prop :=
  ∃ qp ss', queueOfVictim ss0 v.key = some qp ∧ SameShape ss' ss0 ∧
    (remaining (askInfo w) ss' qp = none ∨
     ∃ k, (∃ a, (k, a) ∈ w.ask.res) ∧ ∃ s ∈ ss', s.path ∈ snapChain ss' qp ∧
        ∃ g gv, s.guar = some g ∧ (k, gv) ∈ g ∧ gv < s.used.getD k)

theorem victimOk_meaning {w : World} {ss' : List Snap} {qp : String} {pre : ORes}
    (h : victimOk w.ask.res (remaining (askInfo w) ss' qp) pre = true) :
    remaining (askInfo w) ss' qp = none ∨
     ∃ k, (∃ a, (k, a) ∈ w.ask.res) ∧ ∃ s ∈ ss', s.path ∈ snapChain ss' qp ∧
        ∃ g gv, s.guar = some g ∧ (k, gv) ∈ g ∧ gv < s.used.getD k := by
  unfold victimOk at h
  simp only [Bool.and_eq_true] at h
  cases hr : remaining (askInfo w) ss' qp with
  | none => exact Or.inl rfl
  | some r =>
    right
    have h2 := h.2
    rw [hr] at h2
    simp only [isVictimQueueOverGuaranteed] at h2
    obtain ⟨p, hp, hpv⟩ := List.any_eq_true.mp h2
    cases hg : r.get? p.1 with
    | none => simp [hg] at hpv
    | some val =>
      simp only [hg, decide_eq_true_eq] at hpv
      obtain ⟨s, hs, hc, g, gv, e1, e2, e3⟩ := remaining_neg_witness (askInfo w) ss' _ _ r p.1 val hr (mem_of_get? hg) hpv
      exact ⟨p.1, ⟨p.2, hp⟩, s, hs, hc, g, gv, e1, e2, e3⟩

theorem pass2_results_taken (w : World) (ss0 : List Snap) : ∀ (l : List PAlloc) (st : Pass2),
    SameShape st.ss ss0 → (∀ x ∈ st.results, AboveGuarantee w ss0 x) →
    SameShape (l.foldl (pass2Step w ss0) st).ss ss0 ∧ ∀ x ∈ (l.foldl (pass2Step w ss0) st).results, AboveGuarantee w ss0 x := by
  intro l
  induction l with
  | nil => intro st h1 h2; exact ⟨h1, h2⟩
  | cons v t ih =>
    intro st h1 h2
    rw [List.foldl_cons]
    apply ih
    · unfold pass2Step
      simp only
      split
      · exact h1
      · split
        · exact h1.removeAlloc _ _
        · exact (h1.removeAlloc _ _).addAlloc _ _
    · intro x hx
      unfold pass2Step at hx
      simp only at hx
      split at hx
      · exact h2 x hx
      · rename_i qp hqp
        split at hx
        · rename_i hok
          rcases List.mem_append.mp hx with hx | hx
          · exact h2 x hx
          · simp at hx; subst hx
            exact ⟨qp, st.ss, hqp, h1, victimOk_meaning hok⟩
        · exact h2 x hx

theorem add_results_taken (w : World) (ss0 : List Snap) : ∀ (l : List PAlloc) (st : AddSt),
    SameShape st.ss ss0 → (∀ x ∈ st.victims, AboveGuarantee w ss0 x) →
    SameShape (l.foldl (addStep w ss0) st).ss ss0 ∧ ∀ x ∈ (l.foldl (addStep w ss0) st).victims, AboveGuarantee w ss0 x := by
  intro l
  induction l with
  | nil => intro st h1 h2; exact ⟨h1, h2⟩
  | cons v t ih =>
    intro st h1 h2
    rw [List.foldl_cons]
    apply ih
    · unfold addStep
      simp only
      split
      · exact h1
      · split
        · exact h1
        · split
          · split
            · split
              · exact (h1.removeAlloc _ _).addAlloc _ _
              · exact (((h1.removeAlloc _ _).addAlloc _ _).removeAlloc _ _).addAlloc _ _
            · exact (h1.removeAlloc _ _).addAlloc _ _
          · exact (h1.removeAlloc _ _).addAlloc _ _
    · intro x hx
      unfold addStep at hx
      simp only at hx
      split at hx
      · exact h2 x hx
      · split at hx
        · exact h2 x hx
        · rename_i qp hqp
          split at hx
          · rename_i hok
            split at hx
            · split at hx
              · rcases List.mem_append.mp hx with hx | hx
                · exact h2 x hx
                · simp at hx; subst hx
                  exact ⟨qp, st.ss, hqp, h1, victimOk_meaning hok⟩
              · exact h2 x hx
            · exact h2 x hx
          · exact h2 x hx

/-- every victim calculateVictimsByNode hands to the predicates was, when the second pass took it, in a queue above
    its guaranteed share for a type the ask needs (or in a queue without any guarantee on its path) -/
theorem calcVictimsByNode_above_guarantee {w : World} {ss0 : List Snap} {avail : Res} {pv : List PAlloc} {idx : Int}
    {vs : List PAlloc} (h : calcVictimsByNode w ss0 avail pv = some (idx, vs)) : ∀ v ∈ vs, AboveGuarantee w ss0 v := by
  unfold calcVictimsByNode at h
  split at h
  · simp only [Option.some.injEq, Prod.mk.injEq] at h; intro v hv; rw [← h.2] at hv; cases hv
  · split at h
    · cases h
    · simp only at h
      split at h
      · cases h
      · split at h
        · cases h
        · simp only [Option.some.injEq, Prod.mk.injEq] at h
          intro v hv
          rw [← h.2] at hv
          exact (pass2_results_taken w ss0 _ _ (SameShape.refl ss0) (by intro x hx; cases hx)).2 v hv

theorem nodeChecks_above {w : World} {ss : List Snap} {nt : Bool} {c : Check} (hc : c ∈ nodeChecks w ss nt) :
    ∀ v ∈ c.victims, AboveGuarantee w ss v := by
  unfold nodeChecks at hc
  simp only at hc
  rcases mem_foldl_insCheck c _ [] hc with hc | hc
  · obtain ⟨ni, _, hni⟩ := List.mem_filterMap.mp hc
    cases hn : w.nodes[ni]? with
    | none => simp [hn] at hni
    | some n =>
      simp only [hn] at hni
      split at hni
      · cases hni
      · cases hcv : calcVictimsByNode w ss n.avail (victimsOnNode w ss ni) with
        | none => simp [hcv] at hni
        | some r =>
          obtain ⟨idx, vs⟩ := r
          simp only [hcv] at hni
          split at hni
          · simp only [Option.some.injEq] at hni
            subst hni
            exact calcVictimsByNode_above_guarantee hcv
          · cases hni
  · cases hc

theorem foldl_removeAlloc_shape (ss0 : List Snap) : ∀ (l : List PAlloc) (ss : List Snap), SameShape ss ss0 →
    SameShape (l.foldl (fun ss v => match queueOfVictim ss0 v.key with
      | some qp => removeAlloc ss qp v.res
      | none => ss) ss) ss0 := by
  intro l
  induction l with
  | nil => intro ss h; exact h
  | cons v t ih =>
    intro ss h
    rw [List.foldl_cons]
    apply ih
    split
    · exact h.removeAlloc _ _
    · exact h

theorem calcAdditional_above {w : World} {ss0 : List Snap} {nv extra : List PAlloc} {ok : Bool}
    (h : calcAdditional w ss0 nv = (some extra, ok)) : ∀ v ∈ extra, AboveGuarantee w ss0 v := by
  unfold calcAdditional at h
  simp only at h
  split at h
  · cases h
  · split at h
    · cases h
    · intro x hx
      split at h
      all_goals
        simp only [Prod.mk.injEq, Option.some.injEq] at h
        rw [← h.1] at hx
        exact (add_results_taken w ss0 _ _ (foldl_removeAlloc_shape ss0 nv ss0 (SameShape.refl ss0)) (by intro y hy; cases hy)).2 x hx

/-- everything TryPreemption (no plugin) commits is a potential victim found by FindEligiblePreemptionVictims; the
    committed list is a sub-list of the collected one; if the ask does not fit the node's free space all of it sits on
    the chosen node -/
theorem tryPreemption_commits_potential {w : World} {nt : Bool} {r : TryResult} (h : tryPreemptionNoPlugin w nt = some r) :
    (∀ v ∈ r.collected, v ∈ potentialVictims w (findEligible w) ∧ AboveGuarantee w (findEligible w) v) ∧
    r.victims.Sublist r.collected ∧
    checkGuarantees w (findEligible w) = true ∧
    (∃ n, w.nodes[r.ni]? = some n ∧ r.node = n.id ∧ usableNode w n = true ∧
      (fitInStd (some n.avail) (some w.ask.res) = false → ∀ v ∈ r.victims, v.node = r.ni) ∧
      strictlyOnlyExisting (some w.ask.res) (some (finalFilter w.ask.res (fitInStd (some n.avail) (some w.ask.res)) r.ni r.collected).2) false = false ∧
      r.victims = (finalFilter w.ask.res (fitInStd (some n.avail) (some w.ask.res)) r.ni r.collected).1) ∧
    r.collected ≠ [] := by
  unfold tryPreemptionNoPlugin at h
  simp only at h
  split at h
  · cases h
  · rename_i hcg
    cases hpick : pickNoPlugin (nodeChecks w (findEligible w) nt) with
    | none => simp [hpick] at h
    | some cn =>
      obtain ⟨c, nv⟩ := cn
      simp only [hpick] at h
      -- the picked check is one of the checks, the node victims a prefix of its list
      have hcmem : c ∈ nodeChecks w (findEligible w) nt ∧ ∀ v ∈ nv, v ∈ c.victims := by
        unfold pickNoPlugin at hpick
        cases hl : nodeChecks w (findEligible w) nt with
        | nil => simp [hl] at hpick
        | cons c0 t =>
          simp only [hl] at hpick
          unfold populate at hpick
          split at hpick
          · cases hpick
          · simp only [Option.some.injEq, Prod.mk.injEq] at hpick
            obtain ⟨e1, e2⟩ := hpick
            subst e1
            refine ⟨List.mem_cons_self, ?_⟩
            intro v hv
            rw [← e2] at hv
            exact List.mem_of_mem_take hv
      have hnv : ∀ v ∈ nv, (v ∈ potentialVictims w (findEligible w) ∧ v.node = c.ni) ∧ AboveGuarantee w (findEligible w) v :=
        fun v hv => ⟨nodeChecks_victims hcmem.1 v (hcmem.2 v hv), nodeChecks_above hcmem.1 v (hcmem.2 v hv)⟩
      -- the node of the check
      have hnode : ∃ n, w.nodes[c.ni]? = some n ∧ c.node = n.id ∧ usableNode w n = true := by
        have hc := hcmem.1
        unfold nodeChecks at hc
        simp only at hc
        rcases mem_foldl_insCheck c _ [] hc with hc | hc
        · obtain ⟨ni, _, hni⟩ := List.mem_filterMap.mp hc
          cases hn : w.nodes[ni]? with
          | none => simp [hn] at hni
          | some n =>
            simp only [hn] at hni
            split at hni
            · cases hni
            · rename_i hus
              split at hni
              · cases hni
              · split at hni
                · simp only [Option.some.injEq] at hni
                  subst hni
                  exact ⟨n, hn, rfl, by simpa using hus⟩
                · cases hni
        · cases hc
      obtain ⟨n, hn, hid, hus⟩ := hnode
      unfold commitAfterPick at h
      cases hadd : calcAdditional w (findEligible w) nv with
      | mk extra ok =>
        simp only [hadd] at h
        cases ok with
        | false => simp at h
        | true =>
          simp only at h
          split at h
          · cases h
          · rename_i hne
            simp only [hn] at h
            split at h
            · cases h
            · rename_i hshort
              simp only [Option.some.injEq] at h
              subst h
              simp only
              have hextra : ∀ v ∈ extra.getD [], v ∈ potentialVictims w (findEligible w) ∧ AboveGuarantee w (findEligible w) v := by
                cases extra with
                | none => intro v hv; cases hv
                | some ex => exact fun v hv => ⟨calcAdditional_subset hadd v hv, calcAdditional_above hadd v hv⟩
              refine ⟨?_, ?_, by simpa using hcg, ⟨n, hn, hid, hus, ?_, ?_, rfl⟩, ?_⟩
              · intro v hv
                rcases List.mem_append.mp hv with hv | hv
                · exact ⟨(hnv v hv).1.1, (hnv v hv).2⟩
                · exact hextra v hv
              · exact (finalFilter_sublist _ _ _ _).1
              · intro hfit
                have := (finalFilter_sublist w.ask.res (fitInStd (some n.avail) (some w.ask.res)) c.ni (nv ++ extra.getD [])).2 hfit
                exact this
              · simpa using hshort
              · intro he; rw [he] at hne; simp at hne

/-! ### commit covers the ask: the single-type case, for the whole of TryPreemption -/

theorem foldl_addX_getD_ge (k : String) : ∀ (l : List Res) (acc : Res), (∀ r ∈ l, wf r = true ∧ 0 ≤ r.getD k) →
    acc.getD k ≤ (l.foldl addX acc).getD k := by
  intro l
  induction l with
  | nil => intro acc _; exact Int.le_refl _
  | cons a t ih =>
    intro acc h
    rw [List.foldl_cons]
    have h1 := h a List.mem_cons_self
    have := ih (addX acc a) (fun r hr => h r (List.mem_cons_of_mem _ hr))
    rw [addX_getD _ _ h1.1] at this
    omega

theorem sumRes_getD_nonneg (k : String) (l : List Res) (h : ∀ r ∈ l, wf r = true ∧ 0 ≤ r.getD k) : 0 ≤ (sumRes l).getD k := by
  have := foldl_addX_getD_ge k l [] h
  simpa [sumRes] using this

theorem foldl_addX_wf : ∀ (l : List Res) (acc : Res), wf acc = true → wf (l.foldl addX acc) = true := by
  intro l
  induction l with
  | nil => intro acc h; exact h
  | cons a t ih => intro acc h; rw [List.foldl_cons]; exact ih _ (zipFold_wf _ _ _ h)

theorem sumRes_wf (l : List Res) : wf (sumRes l) = true := foldl_addX_wf l [] rfl

/-- world hypotheses of the arithmetic theorems: resource vectors are Go maps (unique keys) with non-negative values -/
structure NonNeg (w : World) : Prop where
  allocs : ∀ a ∈ w.allocs, wf a.res = true ∧ ∀ k, 0 ≤ a.res.getD k
  nodes : ∀ (i : Nat) (n : PNode), w.nodes[i]? = some n → ∀ k, 0 ≤ n.avail.getD k

theorem commitCovers_single_type (w : World) (nt : Bool) (k : String) (A : Int) (hask : w.ask.res = [(k, A)]) (hA : 0 < A)
    (hn : NonNeg w) : commitCovers w nt = true := by
  unfold commitCovers
  cases htry : tryPreemptionNoPlugin w nt with
  | none => rfl
  | some r =>
    simp only
    obtain ⟨hcoll, _, _, ⟨n, hnode, _, _, honnode, hshort, hvict⟩, _⟩ := tryPreemption_commits_potential htry
    have hcollOk : ∀ v ∈ r.collected, wf v.res = true ∧ 0 ≤ v.res.getD k := by
      intro v hv
      have := hn.allocs v (potentialVictims_mem (hcoll v hv).1).1
      exact ⟨this.1, this.2 k⟩
    rw [hask] at hshort hvict
    have hsum := finalFilter_single k A hA _ r.ni r.collected hcollOk hshort
    rw [← hvict] at hsum
    have hvictOk : ∀ v ∈ r.victims, wf v.res = true ∧ 0 ≤ v.res.getD k := by
      intro v hv
      rw [hvict] at hv
      exact hcollOk v ((finalFilter_sublist _ _ _ _).1.subset hv)
    unfold freedOnNode coversAsk
    simp only [hnode, hask, List.all_cons, List.all_nil, Bool.and_true, decide_eq_true_eq]
    rw [addX_getD _ _ (sumRes_wf _)]
    have havail := hn.nodes r.ni n hnode k
    by_cases hfit : fitInStd (some n.avail) (some w.ask.res) = true
    · -- the free space alone covers the ask
      have hnn : 0 ≤ (sumRes ((r.victims.filter (fun a => a.node == r.ni)).map (·.res))).getD k := by
        apply sumRes_getD_nonneg
        intro x hx
        obtain ⟨v, hv, e⟩ := List.mem_map.mp hx
        subst e
        exact hvictOk v (List.mem_filter.mp hv).1
      rw [hask] at hfit
      unfold fitInStd fitIn at hfit
      simp only [orZero, Option.getD_some, List.all_cons, List.all_nil, Bool.and_true, Bool.false_eq_true, if_false] at hfit
      cases hg : n.avail.get? k with
      | none => simp [hg] at hfit; omega
      | some lv =>
        simp only [hg, decide_eq_true_eq] at hfit
        rw [getD_eq_get?, hg]
        simp only [Option.getD_some]
        omega
    · -- every final victim is on the node
      have hf : fitInStd (some n.avail) (some w.ask.res) = false := by simpa using hfit
      have hall := honnode hf
      have : r.victims.filter (fun a => a.node == r.ni) = r.victims := by
        apply List.filter_eq_self.mpr
        intro a ha
        simpa using hall a ha
      rw [this]
      omega


theorem sgte_zero_of_nonneg (r : Res) (h : ∀ p ∈ r, 0 ≤ p.2) : strictlyGreaterThanOrEquals (some r) (some []) = true := by
  unfold strictlyGreaterThanOrEquals
  simp [orZero]
  intro a b hab
  exact decide_eq_true (h (a, b) hab)

/-- a leaf that offers potential victims is not within its guarantee: its remaining guaranteed is nil (no guarantee
    in force for it) or has a negative entry, and a negative entry is witnessed by a queue of its path above its share -/
theorem offering_leaf_over_guarantee (w : World) (l : Nat) (vs : List String) (h : (l, vs) ∈ eligLeaves w) :
    ∃ q, w.queues[l]? = some q ∧
      (remaining (askInfo w) (allSnaps w) q.path = none ∨
       ∃ k, ∃ s ∈ allSnaps w, s.path ∈ snapChain (allSnaps w) q.path ∧ ∃ g gv, s.guar = some g ∧ (k, gv) ∈ g ∧ gv < s.used.getD k) := by
  unfold eligLeaves at h
  cases hfr : fenceRoot w with
  | none => simp [hfr] at h
  | some frpm =>
    obtain ⟨fr, pm⟩ := frpm
    simp only [hfr] at h
    cases hp0 : pm.lookup fr with
    | none => simp [hp0] at h
    | some p0 =>
      simp only [hp0] at h
      obtain ⟨st', _, hf⟩ := eligAux_spec w pm _ fr p0 false l vs h
      obtain ⟨q, hq, _, _, hno⟩ := hf.q
      refine ⟨q, hq, ?_⟩
      cases hr : remaining (askInfo w) (allSnaps w) q.path with
      | none => exact Or.inl rfl
      | some r =>
        right
        rw [hr] at hno
        have hneg : ∃ p ∈ r, p.2 < 0 := by
          apply Classical.byContradiction
          intro hcon
          apply hno
          refine ⟨rfl, ?_⟩
          apply sgte_zero_of_nonneg
          intro p hp
          have : ¬ p.2 < 0 := fun hlt => hcon ⟨p, hp, hlt⟩
          omega
        obtain ⟨p, hp, hlt⟩ := hneg
        obtain ⟨s, hs, hc, g, gv, e1, e2, e3⟩ := remaining_neg_witness (askInfo w) (allSnaps w) _ _ r p.1 p.2 hr hp hlt
        exact ⟨p.1, s, hs, hc, g, gv, e1, e2, e3⟩

/-- keys identify allocations -/
def KeysUnique (w : World) : Prop := ∀ a ∈ w.allocs, ∀ b ∈ w.allocs, a.key = b.key → a = b

/-- a potential victim of the snapshots returned by FindEligiblePreemptionVictims satisfies every eligibility clause -/
theorem potentialVictim_eligible (w : World) (hw : WF w) (hk : KeysUnique w) (v : PAlloc)
    (h : v ∈ potentialVictims w (findEligible w)) : eligViolations w v = [] := by
  obtain ⟨hv, s, hs, hks⟩ := potentialVictims_mem h
  obtain ⟨a, ha, hak, _, hel⟩ := findEligible_eligible w hw s v.key hs hks
  have : a = v := hk a ha v hv hak
  exact this ▸ hel

/-! ### the guarantee rule holds for every well-formed world -/

/-- what the real queue tree guarantees about a world -/
structure WellFormed (w : World) : Prop where
  wf : WF w
  ask : ∃ qa, w.queues[w.ask.q]? = some qa
  paths : ∀ (i j : Nat) (qi qj : PQ), w.queues[i]? = some qi → w.queues[j]? = some qj → qi.path = qj.path → i = j
  pre : ∀ (i : Nat) (qi : PQ), w.queues[i]? = some qi → hasPrefixDot (pathOf w w.ask.q) qi.path = true → i ∈ chain w w.ask.q

/-- the executable check the driver runs on every generated world implies `WellFormed` -/
theorem wellFormed_of_check (w : World) (h : wellFormedB w = true) : WellFormed w := by
  unfold wellFormedB at h
  simp only [Bool.and_eq_true, List.all_eq_true, List.mem_range, decide_eq_true_eq] at h
  obtain ⟨hall, hask⟩ := h
  have hlt : ∀ {i : Nat} {q : PQ}, w.queues[i]? = some q → i < w.queues.length := fun hq => lt_length_of_getElem? hq
  refine ⟨?_, ?_, ?_, ?_⟩
  · intro i q hq p hp
    have := hall i (hlt hq)
    simp only [hq, hp, Bool.and_eq_true, decide_eq_true_eq] at this
    exact this.1.1
  · cases hq : w.queues[w.ask.q]? with
    | some qa => exact ⟨qa, rfl⟩
    | none =>
      have := List.getElem?_eq_none_iff.mp hq
      omega
  · intro i j qi qj hi hj hp
    have := hall i (hlt hi)
    simp only [hi, Bool.and_eq_true, List.all_eq_true, List.mem_range] at this
    have h2 := this.1.2 j (hlt hj)
    simp only [hj, Bool.or_eq_true, bne_iff_ne, ne_eq, beq_iff_eq] at h2
    rcases h2 with h2 | h2
    · exact absurd hp.symm h2
    · exact h2.symm
  · intro i qi hi hp
    have := hall i (hlt hi)
    simp only [hi, Bool.and_eq_true, Bool.or_eq_true, Bool.not_eq_true'] at this
    rcases this.2 with h2 | h2
    · rw [hp] at h2; cases h2
    · simpa using h2

theorem chain_none {w : World} {i : Nat} (h : w.queues[i]? = none) : chain w i = [] := by
  unfold chain
  cases hn : w.queues.length with
  | zero => rfl
  | succ n => rw [chainAux_succ, h]

/-- the chain of an element of a chain is a suffix of it -/
theorem chain_trans {w : World} (hw : WF w) : ∀ (a p : Nat), p ∈ chain w a → ∀ x ∈ chain w p, x ∈ chain w a := by
  intro a
  induction a using Nat.strongRecOn with
  | ind a ih =>
    intro p hp x hx
    cases hq : w.queues[a]? with
    | none => rw [chain_none hq] at hp; cases hp
    | some q =>
      cases hpar : q.parent with
      | none =>
        rw [chain_root hq hpar] at hp
        simp at hp; subst hp; exact hx
      | some pa =>
        rw [chain_cons hw hq hpar] at hp ⊢
        rcases List.mem_cons.mp hp with hp | hp
        · subst hp; rw [chain_cons hw hq hpar] at hx; exact hx
        · exact List.mem_cons_of_mem _ (ih pa (hw a q hq pa hpar) p hp x hx)

/-- the snapshot createPreemptionSnapshot builds for queue `i` -/
def snapOfQ (w : World) (i : Nat) (q : PQ) : Snap where
  path := q.path
  parent := q.parent.map (pathOf w)
  leaf := q.leaf
  alloc := allocatedOf w i
  preempting := preemptingOf w i
  max := q.max
  guar := q.guar
  victims := []
  askq := q.parent.isSome

theorem snapOf_some {w : World} {i : Nat} {q : PQ} (hq : w.queues[i]? = some q) :
    snapOf w i [] = some (snapOfQ w i q) := by
  simp [snapOf, hq, snapOfQ]

theorem chain_le' {w : World} (hw : WF w) : ∀ (i j : Nat), j ∈ chain w i → j ≤ i := by
  intro i
  induction i using Nat.strongRecOn with
  | ind i ih =>
    intro j hj
    cases hq : w.queues[i]? with
    | none => rw [chain_none hq] at hj; cases hj
    | some q =>
      cases hpar : q.parent with
      | none => rw [chain_root hq hpar] at hj; simp at hj; omega
      | some p =>
        rw [chain_cons hw hq hpar] at hj
        have hpi := hw i q hq p hpar
        rcases List.mem_cons.mp hj with hj | hj
        · omega
        · have := ih p hpi j hj; omega

theorem mem_allSnaps {w : World} {s : Snap} (h : s ∈ allSnaps w) : ∃ i q, w.queues[i]? = some q ∧ snapOf w i [] = some s := by
  unfold allSnaps at h
  obtain ⟨i, _, hs⟩ := List.mem_filterMap.mp h
  cases hq : w.queues[i]? with
  | none => simp [snapOf, hq] at hs
  | some q => exact ⟨i, q, hq, hs⟩

theorem allSnaps_mem {w : World} {i : Nat} {q : PQ} (hq : w.queues[i]? = some q) {s : Snap} (hs : snapOf w i [] = some s) :
    s ∈ allSnaps w := by
  unfold allSnaps
  exact List.mem_filterMap.mpr ⟨i, List.mem_range.mpr (lt_length_of_getElem? hq), hs⟩

theorem find?_unique {α} (p : α → Bool) : ∀ (l : List α) (x : α), x ∈ l → p x = true → (∀ y ∈ l, p y = true → y = x) →
    l.find? p = some x := by
  intro l
  induction l with
  | nil => intro x hx; cases hx
  | cons a t ih =>
    intro x hx hp hu
    rw [List.find?_cons]
    by_cases ha : p a = true
    · rw [ha]; rw [hu a List.mem_cons_self ha]
    · have ha' : p a = false := by simpa using ha
      rw [ha']
      rcases List.mem_cons.mp hx with hx | hx
      · subst hx; rw [hp] at ha'; cases ha'
      · exact ih x hx hp (fun y hy hpy => hu y (List.mem_cons_of_mem _ hy) hpy)

theorem findSnap_allSnaps {w : World} (hW : WellFormed w) {i : Nat} {q : PQ} (hq : w.queues[i]? = some q) :
    findSnap (allSnaps w) q.path = snapOf w i [] := by
  rw [snapOf_some hq]
  unfold findSnap
  apply find?_unique
  · exact allSnaps_mem hq (snapOf_some hq)
  · simp [snapOfQ]
  · intro y hy hpy
    obtain ⟨j, qj, hqj, hsj⟩ := mem_allSnaps hy
    rw [snapOf_some hqj] at hsj
    simp only [Option.some.injEq] at hsj
    subst hsj
    simp only [beq_iff_eq] at hpy
    have := hW.paths j i qj q hqj hq hpy
    subst this
    rw [hqj] at hq; cases hq; rfl

theorem length_filterMap_some {α β} (f : α → Option β) : ∀ l : List α, (∀ x ∈ l, (f x).isSome = true) →
    (l.filterMap f).length = l.length := by
  intro l
  induction l with
  | nil => intro _; rfl
  | cons a t ih =>
    intro h
    have ha := h a List.mem_cons_self
    cases hfa : f a with
    | none => rw [hfa] at ha; cases ha
    | some b =>
      rw [List.filterMap_cons, hfa]
      simp only [List.length_cons]
      rw [ih (fun x hx => h x (List.mem_cons_of_mem _ hx))]

theorem allSnaps_length (w : World) : (allSnaps w).length = w.queues.length := by
  unfold allSnaps
  rw [length_filterMap_some, List.length_range]
  intro i hi
  have hi' := List.mem_range.mp hi
  have : ∃ q, w.queues[i]? = some q := ⟨w.queues[i], List.getElem?_eq_getElem hi'⟩
  obtain ⟨q, hq⟩ := this
  rw [snapOf_some hq]; rfl

theorem set_ne_nil (r : Res) (k : String) (v : Int) : Res.set r k v ≠ [] := by
  cases r with
  | nil => simp [Res.set]
  | cons p t =>
    obtain ⟨a, b⟩ := p
    unfold Res.set
    split <;> simp

theorem foldl_set_ne_nil (step : Res → String × Int → Res) (g : String × Int → Int)
    (hs : ∀ out p, step out p = Res.set out p.1 (g p)) : ∀ (l acc : Res), (acc ≠ [] ∨ l ≠ []) → l.foldl step acc ≠ [] := by
  intro l
  induction l with
  | nil => intro acc h; rcases h with h | h; exact h; exact absurd rfl h
  | cons p t ih =>
    intro acc _
    rw [List.foldl_cons]
    apply ih
    left; rw [hs]; exact set_ne_nil _ _ _

/-- ComponentWiseMin of two vectors one of which is not empty is defined and not empty -/
theorem cwm_nonempty {a b : ORes} (h : (∃ l, a = some l ∧ l ≠ []) ∨ (∃ l, b = some l ∧ l ≠ [])) :
    ∃ r, componentWiseMin a b = some r ∧ r ≠ [] := by
  cases a with
  | none =>
    cases b with
    | none => rcases h with ⟨_, h, _⟩ | ⟨_, h, _⟩ <;> cases h
    | some rb =>
      rcases h with ⟨_, h, _⟩ | ⟨l, h, hne⟩
      · cases h
      · cases h; exact ⟨_, rfl, hne⟩
  | some la =>
    cases b with
    | none =>
      rcases h with ⟨l, h, hne⟩ | ⟨_, h, _⟩
      · cases h; exact ⟨_, rfl, hne⟩
      · cases h
    | some rb =>
      refine ⟨_, rfl, ?_⟩
      apply foldl_set_ne_nil _ (fun p => match get? la p.1 with | some v => min p.2 v | none => p.2)
        (by intro out p; cases get? la p.1 <;> rfl)
      rcases h with ⟨l, h, hne⟩ | ⟨l, h, hne⟩
      · cases h
        left
        apply foldl_set_ne_nil _ (fun p => match get? rb p.1 with | some v => min p.2 v | none => p.2)
          (by intro out p; cases get? rb p.1 <;> rfl)
        exact Or.inr hne
      · cases h; exact Or.inr hne

theorem askInfo_path {w : World} {qa : PQ} (h : w.queues[w.ask.q]? = some qa) : (askInfo w).path = qa.path := by
  simp [askInfo, h]

/-- GetRemainingGuaranteedResource of a queue that is not an ancestor-or-self of the ask queue -/
theorem remStep_private (ai : AskInfo) (s : Snap) (parent : ORes) (hne : (ai.path == s.path) = false)
    (hnp : hasPrefixDot ai.path s.path = false) :
    remStep ai s parent = if isEmpty parent && isEmpty s.guar then none
      else componentWiseMin (subOE s.guar (subOE (some s.alloc) (some s.preempting))) parent := by
  unfold remStep
  simp only [hne, hnp, Bool.false_and, Bool.and_false, Bool.false_eq_true, if_false]
  split
  · rfl
  · split <;> rfl

/-- a queue off the asker's path with a guarantee somewhere on the private part of its path has a remaining
    guaranteed that is defined and not empty: its guarantee is never ignored -/
theorem remaining_some_of_private_guarantee (w : World) (hW : WellFormed w) :
    ∀ (f i : Nat) (q : PQ), i < f → w.queues[i]? = some q → i ∉ chain w w.ask.q →
      (∃ j ∈ chain w i, j ∉ chain w w.ask.q ∧ ∃ qj, w.queues[j]? = some qj ∧ isEmpty qj.guar = false) →
      ∃ r, remainingAux (askInfo w) (allSnaps w) f (some q.path) = some r ∧ r ≠ [] := by
  obtain ⟨qa, hqa⟩ := hW.ask
  intro f
  induction f with
  | zero => intro i q h; omega
  | succ f ih =>
    intro i q hif hq hpriv hex
    unfold remainingAux
    rw [findSnap_allSnaps hW hq, snapOf_some hq]
    simp only [snapOfQ]
    -- the two special cases of the ask-queue arithmetic do not apply to a queue off the asker's path
    have hne : ((askInfo w).path == q.path) = false := by
      rw [askInfo_path hqa]
      apply Bool.eq_false_iff.mpr
      intro he
      have : w.ask.q = i := hW.paths _ _ qa q hqa hq (by simpa using he)
      apply hpriv
      rw [← this]
      obtain ⟨rest, hr⟩ := chain_head hW.wf hqa
      rw [hr]; exact List.mem_cons_self
    have hnp : hasPrefixDot (askInfo w).path q.path = false := by
      apply Bool.eq_false_iff.mpr
      intro he
      apply hpriv
      apply hW.pre i q hq
      have : pathOf w w.ask.q = (askInfo w).path := by simp [pathOf, hqa, askInfo_path hqa]
      rw [this]; exact he
    rw [remStep_private _ _ _ hne hnp]
    simp only
    by_cases hg : isEmpty q.guar = false
    · -- the queue itself sets a guarantee
      simp only [hg, Bool.and_false, Bool.false_eq_true, if_false]
      apply cwm_nonempty
      left
      cases hgq : q.guar with
      | none => rw [hgq] at hg; simp [isEmpty] at hg
      | some g =>
        refine ⟨_, rfl, ?_⟩
        rw [hgq] at hg
        simp only [isEmpty] at hg
        intro he
        have := List.map_eq_nil_iff.mp he
        rw [this] at hg; simp at hg
    · -- the guarantee sits on a proper ancestor that is off the asker's path as well
      have hge : isEmpty q.guar = true := by simpa using hg
      obtain ⟨j, hj, hjp, qj, hqj, hgj⟩ := hex
      cases hpar : q.parent with
      | none =>
        rw [chain_root hq hpar] at hj
        simp at hj; subst hj
        rw [hq] at hqj; cases hqj
        rw [hge] at hgj; cases hgj
      | some p =>
        rw [chain_cons hW.wf hq hpar] at hj
        have hpi : p < i := hW.wf i q hq p hpar
        rcases List.mem_cons.mp hj with hj | hj
        · subst hj
          rw [hq] at hqj; cases hqj
          rw [hge] at hgj; cases hgj
        · have hpq : ∃ qp, w.queues[p]? = some qp := by
            cases hqp : w.queues[p]? with
            | some qp => exact ⟨qp, rfl⟩
            | none => rw [chain_none hqp] at hj; cases hj
          obtain ⟨qp, hqp⟩ := hpq
          have hppriv : p ∉ chain w w.ask.q := fun hc => hjp (chain_trans hW.wf _ p hc j hj)
          obtain ⟨r', hr', hne'⟩ := ih p qp (by omega) hqp hppriv ⟨j, hj, hjp, qj, hqj, hgj⟩
          have hparent : Option.map (pathOf w) (some p) = some qp.path := by simp [pathOf, hqp]
          simp only [hparent, hr']
          have : isEmpty (some r') = false := by
            simp only [isEmpty]
            cases r' with
            | nil => exact absurd rfl hne'
            | cons _ _ => rfl
          simp only [this, Bool.false_and, Bool.false_eq_true, if_false]
          exact cwm_nonempty (Or.inr ⟨r', rfl, hne'⟩)

/-- the paths on the snapshot chain of a queue are the paths of the queues on its chain -/
theorem snapChainAux_chain (w : World) (hW : WellFormed w) : ∀ (f i : Nat) (q : PQ), w.queues[i]? = some q →
    ∀ x ∈ snapChainAux (allSnaps w) f (some q.path), ∃ j ∈ chain w i, pathOf w j = x := by
  intro f
  induction f with
  | zero => intro i q _ x hx; simp [snapChainAux] at hx
  | succ f ih =>
    intro i q hq x hx
    unfold snapChainAux at hx
    rw [findSnap_allSnaps hW hq, snapOf_some hq] at hx
    simp only [snapOfQ] at hx
    obtain ⟨rest, hrest⟩ := chain_head hW.wf hq
    rcases List.mem_cons.mp hx with hx | hx
    · exact ⟨i, by rw [hrest]; exact List.mem_cons_self, by simp [pathOf, hq, hx]⟩
    · cases hpar : q.parent with
      | none => rw [hpar] at hx; cases f <;> simp [snapChainAux] at hx
      | some p =>
        rw [hpar] at hx
        have hpi : p < i := hW.wf i q hq p hpar
        have hpl := lt_length_of_getElem? hq
        have : ∃ qp, w.queues[p]? = some qp := ⟨w.queues[p], List.getElem?_eq_getElem (by omega)⟩
        obtain ⟨qp, hqp⟩ := this
        have hpp : Option.map (pathOf w) (some p) = some qp.path := by simp [pathOf, hqp]
        rw [hpp] at hx
        obtain ⟨j, hj, hjx⟩ := ih p qp hqp x hx
        exact ⟨j, by rw [chain_cons hW.wf hq hpar]; exact List.mem_cons_of_mem _ hj, hjx⟩

/-- C08, full strength: in every well-formed world a leaf offers victims only if — whenever a queue of its path that
    is not shared with the ask queue sets a guarantee — some queue of its path is above its guaranteed share -/
theorem offersRespectGuarantee_true (w : World) (hW : WellFormed w) : offersRespectGuarantee w = true := by
  unfold offersRespectGuarantee
  rw [List.all_eq_true]
  intro lv hlv
  obtain ⟨l, vs⟩ := lv
  unfold guaranteeRespected
  simp only [Bool.or_eq_true, Bool.not_eq_true']
  by_cases hpg : privateGuarantee w l = true
  · right
    obtain ⟨q, hq, hrem⟩ := offering_leaf_over_guarantee w l vs hlv
    -- a private guarantee keeps the remaining guaranteed defined
    have hnotnone : remaining (askInfo w) (allSnaps w) q.path ≠ none := by
      unfold privateGuarantee at hpg
      obtain ⟨j, hj, hjc⟩ := List.any_eq_true.mp hpg
      simp only [Bool.and_eq_true, Bool.not_eq_true'] at hjc
      have hjpriv : j ∉ chain w w.ask.q := by
        intro hc; have := hjc.1; rw [List.contains_iff_mem.mpr hc] at this; cases this
      cases hqj : w.queues[j]? with
      | none => simp [hqj] at hjc
      | some qj =>
        have hgj : isEmpty qj.guar = false := by simpa [hqj] using hjc.2
        have hlpriv : l ∉ chain w w.ask.q := fun hc => hjpriv (chain_trans hW.wf _ l hc j hj)
        obtain ⟨r, hr, _⟩ := remaining_some_of_private_guarantee w hW ((allSnaps w).length + 1) l q
          (by rw [allSnaps_length]; have := lt_length_of_getElem? hq; omega) hq hlpriv ⟨j, hj, hjpriv, qj, hqj, hgj⟩
        unfold remaining
        rw [hr]; simp
    rcases hrem with hnone | ⟨k, s, hs, hc, g, gv, e1, e2, e3⟩
    · exact absurd hnone hnotnone
    · -- map the witness snapshot back to a queue on the chain of the leaf
      obtain ⟨j, hj, hjp⟩ := snapChainAux_chain w hW _ l q hq s.path hc
      obtain ⟨j', qj', hqj', hsj'⟩ := mem_allSnaps hs
      rw [snapOf_some hqj'] at hsj'
      simp only [Option.some.injEq] at hsj'
      have hjl : j < w.queues.length := by
        have := chain_le' hW.wf l j hj
        have := lt_length_of_getElem? hq
        omega
      have : ∃ qj, w.queues[j]? = some qj := ⟨w.queues[j], List.getElem?_eq_getElem hjl⟩
      obtain ⟨qj, hqj⟩ := this
      have hpath : qj'.path = qj.path := by
        have h1 : s.path = qj'.path := by rw [← hsj']; rfl
        have h2 : pathOf w j = qj.path := by simp [pathOf, hqj]
        rw [← h1, ← hjp, h2]
      have hjj : j' = j := hW.paths j' j qj' qj hqj' hqj hpath
      subst hjj
      rw [hqj'] at hqj; cases hqj
      unfold overGuaranteeSomewhere
      apply List.any_eq_true.mpr
      refine ⟨j', hj, ?_⟩
      have hg : qj'.guar = some g := by rw [← e1, ← hsj']; rfl
      simp only [hqj', hg, Bool.not_false]
      apply List.any_eq_true.mpr
      refine ⟨(k, gv), e2, ?_⟩
      have hu : s.used = (subOE (some (allocatedOf w j')) (some (preemptingOf w j'))).getD [] := by
        rw [← hsj']; rfl
      rw [hu] at e3
      simpa using e3
  · left; simpa using hpg

/-! ### quota change preemption: a child at or below its guarantee on a type gets no share of that type -/

/-- with a guarantee set, every type of a child's preemptable usage (the only types its share of the parent's plan can
    list) is a type the guarantee defines and the child's allocation EXCEEDS, by exactly the amount listed -/
theorem childPreemptableUsage_guaranteed (w : World) (c : Nat) (q : PQ) (hq : w.queues[c]? = some q) (g u : Res)
    (hg : q.guar = some g) (hne : g ≠ []) (hu : childPreemptableUsage w c = some u) :
    ∀ k v, (k, v) ∈ u → ∃ gv, (k, gv) ∈ g ∧ gv < (allocatedOf w c).getD k ∧ v = (allocatedOf w c).getD k - gv := by
  intro k v hkv
  unfold childPreemptableUsage at hu
  simp only [hq, hg] at hu
  split at hu
  · cases hu
  · have hie : isEmpty (some g) = false := by
      cases g with
      | nil => exact absurd rfl hne
      | cons _ _ => rfl
    simp only [hie, Bool.false_eq_true, if_false, subOE, Option.getD_some, Option.some.injEq] at hu
    subst hu
    obtain ⟨p, hp, e⟩ := List.mem_map.mp hkv
    obtain ⟨hm, hneg⟩ := List.mem_filter.mp hp
    obtain ⟨e0, he0, ee⟩ := List.mem_map.mp hm
    simp only [decide_eq_true_eq] at hneg
    subst ee
    simp only [Prod.mk.injEq] at e hneg
    refine ⟨e0.2, ?_, ?_, ?_⟩
    · rw [← e.1]; exact he0
    · rw [← e.1]; omega
    · rw [← e.1, ← e.2]; omega

/-- contrapositive, the way the property says it: a type on which the child is at or below its guarantee is not in
    its preemptable usage -/
theorem childPreemptableUsage_respects_guarantee (w : World) (c : Nat) (q : PQ) (hq : w.queues[c]? = some q) (g u : Res)
    (hg : q.guar = some g) (hne : g ≠ []) (hgw : wf g = true) (hu : childPreemptableUsage w c = some u)
    (k : String) (gv : Int) (hk : (k, gv) ∈ g) (hle : (allocatedOf w c).getD k ≤ gv) : ∀ v, (k, v) ∉ u := by
  intro v hv
  obtain ⟨gv', hgv', hlt, _⟩ := childPreemptableUsage_guaranteed w c q hq g u hg hne hu k v hv
  have h1 := get?_of_mem hgw hk
  have h2 := get?_of_mem hgw hgv'
  rw [h1] at h2
  cases h2
  omega

/-! ### quota change preemption is never due before (first lowering still in force) + (delay in force) -/

theorem timingOK_iff (s : QuotaT) : timingOK s = true ↔
    (s.start = none ∧ s.base = none) ∨ (∃ t b, s.start = some t ∧ s.base = some b ∧ t = b + s.delay) := by
  unfold timingOK
  cases hs : s.start <;> cases hb : s.base <;> simp

theorem setPreemptionTime_keeps (alloc : Res) (s : QuotaT) (m : ORes) (d now : Int) (h : timingOK s = true)
    (hc : goodStep s (.conf m d) = true) : timingOK (setPreemptionTime alloc s m d now) = true := by
  rw [timingOK_iff] at h
  simp only [goodStep, Bool.or_eq_true, Option.isNone_iff_eq_none, beq_iff_eq] at hc
  unfold setPreemptionTime
  simp only
  split
  · simp [timingOK]
  · split
    · simp [timingOK]
    · split
      · simp [timingOK]
      · rcases h with ⟨h1, h2⟩ | ⟨t, b, h1, h2, h3⟩
        · -- nothing pending: a fresh start is now + delay, based now
          simp only [h1]
          split
          · split <;> simp [timingOK, h2]
          · split
            · simp [timingOK]
            · split <;> simp [timingOK, h1, h2]
        · simp only [h1]
          have hshift : timingOK (if (s.delay != d) = true then
              { max := m, delay := d, start := Option.map (fun x => x + (d - s.delay)) (some t), base := s.base }
              else { max := m, delay := d, start := some t, base := s.base }) = true := by
            split
            · simp only [timingOK, h2, Option.map_some, beq_iff_eq]; omega
            · rename_i hd
              have : s.delay = d := by simpa using hd
              simp only [timingOK, h2, beq_iff_eq]; omega
          split
          · exact hshift
          · split
            · exact hshift
            · split
              · exact hshift
              · -- incomparable change of the maximum: only allowed with an unchanged delay
                rename_i he hl hg
                rcases hc with (hc | hc) | hc
                · rw [h1] at hc; cases hc
                · exfalso
                  simp only [comparableMax, Bool.or_eq_true] at hc
                  rcases hc with (hc | hc) | hc
                  · exact he hc
                  · exact hl hc
                  · exact hg hc
                · simp only [timingOK, h2, beq_iff_eq]; omega

theorem tryAcquire_keeps (managed : Bool) (alloc : Res) (s : QuotaT) (now : Int) (h : timingOK s = true) :
    timingOK (tryAcquire managed alloc s now).1 = true := by
  unfold tryAcquire
  split
  · exact h
  · split
    · simp [timingOK]
    · split
      · exact h
      · split
        · exact h
        · simp [timingOK]

/-- quota preemption fires only when (time the pending lowering was scheduled) + (delay in force) has passed -/
theorem tryAcquire_fires_late (managed : Bool) (alloc : Res) (s : QuotaT) (now : Int) (h : timingOK s = true)
    (hf : (tryAcquire managed alloc s now).2 = true) : ∃ b, s.base = some b ∧ b + s.delay ≤ now := by
  rw [timingOK_iff] at h
  unfold tryAcquire at hf
  split at hf
  · cases hf
  · split at hf
    · cases hf
    · split at hf
      · cases hf
      · rename_i t ht
        split at hf
        · cases hf
        · rename_i hlt
          rcases h with ⟨h1, _⟩ | ⟨t', b, h1, h2, h3⟩
          · rw [h1] at ht; cases ht
          · rw [h1] at ht; cases ht
            exact ⟨b, h2, by omega⟩

theorem quotaStep_keeps (managed : Bool) (alloc : Res) (st : QuotaT × Int) (step : QuotaStep) (h : timingOK st.1 = true)
    (hg : goodStep st.1 step = true) : timingOK (quotaStep managed alloc st step).1.1 = true := by
  cases step with
  | conf m d => exact setPreemptionTime_keeps alloc st.1 m d st.2 h hg
  | advance d => exact h
  | «try» => exact tryAcquire_keeps managed alloc st.1 st.2 h

theorem runQuota_keeps (managed : Bool) (alloc : Res) : ∀ (steps : List QuotaStep) (st : QuotaT × Int),
    timingOK st.1 = true → goodHist managed alloc st steps = true → timingOK (runQuota managed alloc st steps).1 = true := by
  intro steps
  induction steps with
  | nil => intro st h _; exact h
  | cons s t ih =>
    intro st h hg
    simp only [goodHist, Bool.and_eq_true] at hg
    unfold runQuota
    rw [List.foldl_cons]
    exact ih _ (quotaStep_keeps managed alloc st s h hg.1) hg.2

/-! ### the effective preemption policy: `disabled` is inherited, in any spelling -/

theorem find?_filtered_parent (own parent : Reload.Props) (k : String) (hno : ∀ o ∈ own, ¬ o.1 = k) :
    ((((parent.filter (fun e => !(own.any (fun o => o.1 = e.1)))).map (fun e => (e.1, Reload.filterParentProperty e.1 e.2))).find?
        (fun e => decide (e.1 = k))).map (·.2)) =
      ((parent.find? (fun e => decide (e.1 = k))).map (·.2)).map (Reload.filterParentProperty k) := by
  induction parent with
  | nil => rfl
  | cons e t ih =>
    by_cases hk : e.1 = k
    · have hkeep : (!own.any (fun o => decide (o.1 = e.1))) = true := by
        simp only [Bool.not_eq_true', List.any_eq_false, decide_eq_true_eq]
        intro o ho; rw [hk]; exact hno o ho
      rw [List.filter_cons, if_pos hkeep, List.map_cons, List.find?_cons, List.find?_cons]
      simp [hk]
    · by_cases hkeep : (!own.any (fun o => decide (o.1 = e.1))) = true
      · rw [List.filter_cons, if_pos hkeep, List.map_cons, List.find?_cons, List.find?_cons]
        simp only [hk, decide_false]
        exact ih
      · rw [List.filter_cons, if_neg hkeep, List.find?_cons]
        simp only [hk, decide_false]
        exact ih

theorem get?_mergeProps (own parent : Reload.Props) (k : String) :
    (Reload.mergeProps own parent).get? k =
      match own.get? k with
      | some v => some v
      | none => (parent.get? k).map (Reload.filterParentProperty k) := by
  unfold Reload.mergeProps Reload.Props.get?
  rw [List.find?_append]
  cases ho : own.find? (fun e => decide (e.1 = k)) with
  | some e => simp
  | none =>
    simp only [Option.none_or, Option.map_none]
    have hno : ∀ o ∈ own, ¬ o.1 = k := by
      intro o hom he
      have := List.find?_eq_none.mp ho o hom
      simp [he] at this
    exact find?_filtered_parent own parent k hno

theorem readsDisabled_filter (o : Option String) :
    readsDisabled (o.map (Reload.filterParentProperty "preemption.policy")) = readsDisabled o := by
  cases o with
  | none => rfl
  | some v =>
    simp only [Option.map_some, readsDisabled, Reload.filterParentProperty]
    have h1 : ("preemption.policy" = "priority.policy") = False := by decide
    have h2 : ("preemption.policy" = "priority.offset") = False := by decide
    simp only [h1, h2, if_false, if_true]
    by_cases hv : Reload.lower v = "disabled"
    · simp [hv]
    · have hd : (Reload.lower "default" == "disabled") = false := by decide
      simp [hv, hd]

theorem merged_reads_disabled (qs : List QConf) : ∀ (f i : Nat),
    readsDisabled ((mergedPropsAux qs f i).get? "preemption.policy") = readsDisabled (nearestPolicyAux qs f i) := by
  intro f
  induction f with
  | zero => intro i; rfl
  | succ f ih =>
    intro i
    unfold mergedPropsAux nearestPolicyAux
    cases hq : qs[i]? with
    | none => rfl
    | some q =>
      simp only
      cases hp : q.parent with
      | none =>
        simp only
        cases q.own.get? "preemption.policy" <;> rfl
      | some p =>
        simp only
        rw [get?_mergeProps]
        cases ho : q.own.get? "preemption.policy" with
        | some v => rfl
        | none =>
          simp only
          rw [readsDisabled_filter, ih p]

/-- the policy UpdateQueueProperties derives is `disabled` exactly when the nearest configured preemption.policy on the
    queue's path reads disabled in any spelling -/
theorem derived_disabled_iff (qs : List QConf) (i : Nat) (q : QConf) (hq : qs[i]? = some q) :
    (effSettings qs i).preempt = "disabled" ↔ inheritedDisabled qs i = true := by
  unfold effSettings inheritedDisabled mergedProps
  simp only [hq]
  rw [← merged_reads_disabled qs (i + 1) i]
  simp only [Reload.deriveSettings]
  cases hg : (mergedPropsAux qs (i + 1) i).get? "preemption.policy" with
  | none =>
    have : ("default" = "disabled") = False := by decide
    simp [readsDisabled, this]
  | some v =>
    have e1 : ("fence" = "disabled") = False := by decide
    have e2 : ("default" = "disabled") = False := by decide
    simp only [readsDisabled, beq_iff_eq]
    by_cases hf : Reload.lower v = "fence"
    · have : ¬ Reload.lower v = "disabled" := by rw [hf]; decide
      simp [hf, e1, this]
    · by_cases hd : Reload.lower v = "disabled"
      · simp [hf, hd]
      · simp [hf, hd, e2]

theorem confOf_get {w : World} {i : Nat} {q : PQ} (hq : w.queues[i]? = some q) :
    (confOf w)[i]? = some { parent := q.parent, leaf := q.leaf, own := q.own } := by
  unfold confOf
  rw [List.getElem?_map, hq]; rfl

/-- in a world whose queues carry the settings their configuration derives, a queue whose nearest configured
    preemption.policy reads `disabled` has policy disabled -/
theorem inherited_disabled_policy (w : World) (hs : settingsDerived w = true) (i : Nat) (q : PQ) (hq : w.queues[i]? = some q)
    (hd : inheritedDisabled (confOf w) i = true) : q.ppol = 2 := by
  unfold settingsDerived at hs
  rw [List.all_eq_true] at hs
  have := hs i (List.mem_range.mpr (lt_length_of_getElem? hq))
  simp only [hq, beq_iff_eq] at this
  have hp : q.ppol = (derivedSettings w i).1 := congrArg Prod.fst this
  rw [hp]
  unfold derivedSettings
  simp only
  have := (derived_disabled_iff (confOf w) i _ (confOf_get hq)).mpr hd
  rw [this]; rfl

/-! ### the marking loop of TryPreemption: rollback when a final victim was released in the meantime -/

@[simp] theorem mark_key (a : PAlloc) (b : Bool) : (a.mark b).key = a.key := rfl
@[simp] theorem mark_mark (a : PAlloc) (b c : Bool) : (a.mark b).mark c = a.mark c := rfl
@[simp] theorem mark_released (a : PAlloc) (b : Bool) : (a.mark b).released = a.released := rfl
@[simp] theorem mark_preempted (a : PAlloc) (b : Bool) : (a.mark b).preempted = b := rfl

theorem contains_snoc (ks : List String) (k x : String) : (ks ++ [k]).contains x = (ks.contains x || x == k) := by
  induction ks with
  | nil => rw [List.nil_append, List.contains_cons, List.contains_nil, Bool.or_false, Bool.false_or]
  | cons d t ih => rw [List.cons_append, List.contains_cons, List.contains_cons, ih, Bool.or_assoc]

theorem setPreempted_markMap (k : String) (b : Bool) (ks : List String) (allocs : List PAlloc) :
    setPreempted k b (markMap ks b allocs) = markMap (ks ++ [k]) b allocs := by
  unfold setPreempted markMap
  rw [List.map_map]
  apply List.map_congr_left
  intro a _
  simp only [Function.comp, contains_snoc]
  cases h1 : ks.contains a.key <;> cases h2 : (a.key == k) <;>
    simp only [h2, mark_key, mark_mark, if_true, if_false, Bool.false_eq_true, Bool.or_true, Bool.or_false, Bool.or_self]

theorem markMap_nil (b : Bool) (allocs : List PAlloc) : markMap [] b allocs = allocs := by
  unfold markMap
  simp

theorem unmarkAll_eq (ds : List String) : ∀ allocs : List PAlloc, unmarkAll ds allocs = markMap ds false allocs := by
  induction ds with
  | nil => intro allocs; rw [markMap_nil]; rfl
  | cons d t ih =>
    intro allocs
    unfold unmarkAll
    rw [List.foldl_cons]
    have := ih (setPreempted d false allocs)
    unfold unmarkAll at this
    rw [this]
    unfold setPreempted markMap
    rw [List.map_map]
    apply List.map_congr_left
    intro a _
    simp only [Function.comp, List.contains_cons]
    cases h1 : (a.key == d) <;> cases h2 : t.contains a.key <;>
      simp only [h2, mark_key, mark_mark, if_true, if_false, Bool.false_eq_true, Bool.or_true, Bool.or_false, Bool.or_self]

theorem markMap_false_true (ks : List String) (allocs : List PAlloc) :
    markMap ks false (markMap ks true allocs) = markMap ks false allocs := by
  unfold markMap
  rw [List.map_map]
  apply List.map_congr_left
  intro a _
  simp only [Function.comp]
  cases h : ks.contains a.key <;> simp only [h, mark_key, mark_mark, if_true, if_false, Bool.false_eq_true]

theorem isReleased_markMap (ks : List String) (b : Bool) (allocs : List PAlloc) (k : String) :
    isReleased (markMap ks b allocs) k = isReleased allocs k := by
  unfold isReleased markMap
  rw [List.find?_map]
  have : ((fun a : PAlloc => a.key == k) ∘ fun a => if ks.contains a.key then a.mark b else a) =
      (fun a : PAlloc => a.key == k) := by
    funext a
    simp only [Function.comp]
    cases h : ks.contains a.key <;> simp only [mark_key, if_true, if_false, Bool.false_eq_true]
  rw [this]
  cases List.find? (fun a : PAlloc => a.key == k) allocs with
  | none => rfl
  | some a =>
    simp only [Option.map_some]
    cases h : ks.contains a.key <;> simp only [mark_released, if_true, if_false, Bool.false_eq_true]

/-- the marking loop, from a state in which exactly `done` was marked on top of `allocs0`:
    it succeeds iff no victim still to mark is released, then everything of `done ++ todo` is marked on top of
    `allocs0`; otherwise a prefix of `done ++ todo` has its flag cleared and nothing else differs from `allocs0` -/
theorem markLoop_spec (allocs0 : List PAlloc) : ∀ (todo done : List String),
    ((markLoop (markMap done true allocs0) done todo).2 = true →
      (∀ k ∈ todo, isReleased allocs0 k = false) ∧
      (markLoop (markMap done true allocs0) done todo).1 = markMap (done ++ todo) true allocs0) ∧
    ((markLoop (markMap done true allocs0) done todo).2 = false →
      (∃ k ∈ todo, isReleased allocs0 k = true) ∧
      ∃ un, un <+: done ++ todo ∧ (markLoop (markMap done true allocs0) done todo).1 = markMap un false allocs0) := by
  intro todo
  induction todo with
  | nil =>
    intro done
    unfold markLoop
    refine ⟨fun _ => ⟨fun k hk => (by cases hk), (by rw [List.append_nil])⟩, fun h => (by simp at h)⟩
  | cons k t ih =>
    intro done
    unfold markLoop
    rw [isReleased_markMap]
    by_cases hr : isReleased allocs0 k = true
    · rw [if_pos hr]
      refine ⟨fun h => by simp at h, fun _ => ⟨⟨k, List.mem_cons_self, hr⟩, done, List.prefix_append _ _, ?_⟩⟩
      show unmarkAll done (markMap done true allocs0) = markMap done false allocs0
      rw [unmarkAll_eq, markMap_false_true]
    · have hr' : isReleased allocs0 k = false := by cases h : isReleased allocs0 k <;> simp_all
      rw [if_neg hr, setPreempted_markMap]
      have := ih (done ++ [k])
      rw [List.append_assoc, List.singleton_append] at this
      refine ⟨fun h => ?_, fun h => ?_⟩
      · obtain ⟨h1, h2⟩ := this.1 h
        refine ⟨?_, h2⟩
        intro k' hk'
        rcases List.mem_cons.mp hk' with rfl | hk'
        · exact hr'
        · exact h1 k' hk'
      · obtain ⟨⟨k', hk', hrel⟩, un, hun, hres⟩ := this.2 h
        exact ⟨⟨k', List.mem_cons_of_mem _ hk', hrel⟩, un, hun, hres⟩

theorem releaseLate_preempted {late : List String} {allocs : List PAlloc} {a : PAlloc}
    (h : a ∈ releaseLate late allocs) (hp : a.preempted = true) : a ∈ allocs := by
  unfold releaseLate at h
  obtain ⟨b, hb, rfl⟩ := List.mem_map.mp h
  by_cases hc : (late.contains b.key && !b.preempted) = true
  · rw [if_pos hc] at hp
    simp only [Bool.and_eq_true, Bool.not_eq_true'] at hc
    rw [hc.2] at hp; cases hp
  · rw [if_neg hc]; exact hb

theorem markMap_false_preempted {ks : List String} {allocs : List PAlloc} {a : PAlloc}
    (h : a ∈ markMap ks false allocs) (hp : a.preempted = true) : a ∈ allocs := by
  unfold markMap at h
  obtain ⟨b, hb, rfl⟩ := List.mem_map.mp h
  by_cases hc : ks.contains b.key = true
  · rw [if_pos hc, mark_preempted] at hp; cases hp
  · rw [if_neg hc]; exact hb

/-- the end of TryPreemption for an outcome `r` of the steps before the marking loop -/
theorem finishTry_some (w : World) (late : List String) (r : TryResult) :
    ((∃ v ∈ r.victims, isReleased (releaseLate late w.allocs) v.key = true) →
      (finishTry w late (some r)).result = none ∧ (finishTry w late (some r)).released = true ∧
      (finishTry w late (some r)).triggered = w.ask.triggered ∧
      (∃ un, un <+: r.victims.map (·.key) ∧
        (finishTry w late (some r)).allocs = markMap un false (releaseLate late w.allocs)) ∧
      ∀ a ∈ (finishTry w late (some r)).allocs, a.preempted = true → a ∈ w.allocs) ∧
    ((∀ v ∈ r.victims, isReleased (releaseLate late w.allocs) v.key = false) →
      (finishTry w late (some r)).result = some r ∧ (finishTry w late (some r)).released = false ∧
      (finishTry w late (some r)).triggered = true ∧
      (finishTry w late (some r)).allocs = markMap (r.victims.map (·.key)) true (releaseLate late w.allocs)) := by
  have spec := markLoop_spec (releaseLate late w.allocs) (r.victims.map (·.key)) []
  rw [markMap_nil, List.nil_append] at spec
  unfold finishTry
  simp only
  cases hm : (markLoop (releaseLate late w.allocs) [] (r.victims.map (·.key))).2 with
  | true =>
    obtain ⟨h1, h2⟩ := spec.1 hm
    rw [if_pos rfl]
    refine ⟨?_, fun _ => ⟨rfl, rfl, rfl, h2⟩⟩
    rintro ⟨v, hv, hrel⟩
    rw [h1 v.key (List.mem_map.mpr ⟨v, hv, rfl⟩)] at hrel
    cases hrel
  | false =>
    obtain ⟨⟨k, hk, hrel⟩, un, hun, hres⟩ := spec.2 hm
    rw [if_neg Bool.false_ne_true]
    refine ⟨fun _ => ⟨rfl, rfl, rfl, ⟨un, hun, hres⟩, ?_⟩, ?_⟩
    · intro a ha hp
      have ha : a ∈ (markLoop (releaseLate late w.allocs) [] (r.victims.map (·.key))).1 := ha
      rw [hres] at ha
      exact releaseLate_preempted (markMap_false_preempted ha hp) hp
    · intro hall
      obtain ⟨v, hv, rfl⟩ := List.mem_map.mp hk
      rw [hall v hv] at hrel
      cases hrel

theorem finishTry_none (w : World) (late : List String) :
    finishTry w late none = { allocs := releaseLate late w.allocs, result := none, released := false, triggered := w.ask.triggered } := rfl


theorem mark_self (a : PAlloc) : a.mark a.preempted = a := by cases a; rfl

theorem markMap_false_id {ks : List String} {allocs : List PAlloc}
    (h : ∀ a ∈ allocs, ks.contains a.key = true → a.preempted = false) : markMap ks false allocs = allocs := by
  unfold markMap
  conv => rhs; rw [← List.map_id allocs]
  apply List.map_congr_left
  intro a ha
  cases hc : ks.contains a.key with
  | false => simp only [Bool.false_eq_true, if_false, id]
  | true =>
    simp only [if_true, id]
    have := mark_self a
    rw [h a ha hc] at this
    exact this

theorem releaseLate_mem {late : List String} {allocs : List PAlloc} {a : PAlloc} (h : a ∈ releaseLate late allocs) :
    ∃ b ∈ allocs, b.key = a.key ∧ b.preempted = a.preempted := by
  unfold releaseLate at h
  obtain ⟨b, hb, rfl⟩ := List.mem_map.mp h
  refine ⟨b, hb, ?_, ?_⟩ <;> cases (late.contains b.key && !b.preempted) <;> rfl

/-- the preempting resource of a queue does not depend on the released flags -/
theorem preemptingOf_releaseLate (w : World) (late : List String) (i : Nat) :
    preemptingOf { w with allocs := releaseLate late w.allocs } i = preemptingOf w i := by
  unfold preemptingOf
  show sumRes (((releaseLate late w.allocs).filter (fun a => a.preempted && inSubtree w i a.q)).map (·.res)) = _
  unfold releaseLate
  rw [List.filter_map, List.map_map]
  have h1 : ((fun a : PAlloc => a.preempted && inSubtree w i a.q) ∘
      fun a => if (late.contains a.key && !a.preempted) = true then { a with released := true } else a) =
      (fun a : PAlloc => a.preempted && inSubtree w i a.q) := by
    funext a
    simp only [Function.comp]
    cases (late.contains a.key && !a.preempted) <;> rfl
  have h2 : ((fun a : PAlloc => a.res) ∘
      fun a => if (late.contains a.key && !a.preempted) = true then { a with released := true } else a) =
      (fun a : PAlloc => a.res) := by
    funext a
    simp only [Function.comp]
    cases (late.contains a.key && !a.preempted) <;> rfl
  rw [h1, h2]

/-- the modelled TryPreemption (first-node rule) with allocations released between victim collection and marking -/
theorem tryPreemptionLate_spec (w : World) (nt : Bool) (late : List String) :
    (∀ r, tryPreemptionNoPlugin w nt = some r →
      (∃ v ∈ r.victims, isReleased (releaseLate late w.allocs) v.key = true) →
      (tryPreemptionLate w nt late).result = none ∧ (tryPreemptionLate w nt late).released = true ∧
      (tryPreemptionLate w nt late).triggered = w.ask.triggered) ∧
    ((tryPreemptionLate w nt late).result = none →
      (tryPreemptionLate w nt late).triggered = w.ask.triggered ∧
      ∀ a ∈ (tryPreemptionLate w nt late).allocs, a.preempted = true → a ∈ w.allocs) ∧
    (∀ r, (tryPreemptionLate w nt late).result = some r →
      tryPreemptionNoPlugin w nt = some r ∧
      (∀ v ∈ r.victims, isReleased (releaseLate late w.allocs) v.key = false) ∧
      (tryPreemptionLate w nt late).released = false ∧ (tryPreemptionLate w nt late).triggered = true ∧
      (tryPreemptionLate w nt late).allocs = markMap (r.victims.map (·.key)) true (releaseLate late w.allocs)) := by
  unfold tryPreemptionLate
  cases ht : tryPreemptionNoPlugin w nt with
  | none =>
    rw [finishTry_none]
    refine ⟨fun r h => (by cases h), fun _ => ⟨rfl, fun a ha hp => releaseLate_preempted ha hp⟩, fun r h => (by cases h)⟩
  | some r0 =>
    have spec := finishTry_some w late r0
    by_cases hex : ∃ v ∈ r0.victims, isReleased (releaseLate late w.allocs) v.key = true
    · obtain ⟨h1, h2, h3, _, h5⟩ := spec.1 hex
      refine ⟨fun r hr _ => ?_, fun _ => ⟨h3, h5⟩, fun r hr => ?_⟩
      · cases hr; exact ⟨h1, h2, h3⟩
      · rw [h1] at hr; cases hr
    · have hall : ∀ v ∈ r0.victims, isReleased (releaseLate late w.allocs) v.key = false := by
        intro v hv
        cases hc : isReleased (releaseLate late w.allocs) v.key with
        | false => rfl
        | true => exact absurd ⟨v, hv, hc⟩ hex
      obtain ⟨h1, h2, h3, h4⟩ := spec.2 hall
      refine ⟨fun r hr hx => ?_, fun hn => ?_, fun r hr => ?_⟩
      · cases hr; exact absurd hx hex
      · rw [h1] at hn; cases hn
      · rw [h1] at hr; cases hr
        exact ⟨rfl, hall, h2, h3, h4⟩

/-- with unique keys the final victims are unmarked allocations of the world, so an abandoned attempt restores every
    flag: the allocations are exactly what the late releases left, and no queue's preempting resource changed -/
theorem tryPreemptionLate_abandoned_restores (w : World) (hw : WF w) (hk : KeysUnique w) (nt : Bool) (late : List String)
    (h : (tryPreemptionLate w nt late).result = none) :
    (tryPreemptionLate w nt late).allocs = releaseLate late w.allocs ∧
    ∀ i, preemptingOf { w with allocs := (tryPreemptionLate w nt late).allocs } i = preemptingOf w i := by
  have key : (tryPreemptionLate w nt late).allocs = releaseLate late w.allocs := by
    unfold tryPreemptionLate at h ⊢
    cases ht : tryPreemptionNoPlugin w nt with
    | none => rfl
    | some r0 =>
      rw [ht] at h
      have spec := finishTry_some w late r0
      by_cases hex : ∃ v ∈ r0.victims, isReleased (releaseLate late w.allocs) v.key = true
      · obtain ⟨_, _, _, ⟨un, hun, hres⟩, _⟩ := spec.1 hex
        rw [hres]
        apply markMap_false_id
        intro a ha hc
        obtain ⟨b, hb, hbk, hbp⟩ := releaseLate_mem ha
        rw [← hbp]
        have hmem : a.key ∈ r0.victims.map (·.key) := by
          have : a.key ∈ un := by simpa using hc
          exact hun.subset this
        obtain ⟨v, hv, hvk⟩ := List.mem_map.mp hmem
        obtain ⟨hcoll, hsub, _⟩ := tryPreemption_commits_potential ht
        have hpot := (hcoll v (hsub.subset hv)).1
        obtain ⟨hvw, _, hvp, _⟩ := eligViolations_nil (potentialVictim_eligible w hw hk v hpot)
        have : v = b := hk v hvw b hb (by rw [hbk]; exact hvk)
        rw [← this]; exact hvp
      · have hall : ∀ v ∈ r0.victims, isReleased (releaseLate late w.allocs) v.key = false := by
          intro v hv
          cases hc : isReleased (releaseLate late w.allocs) v.key with
          | false => rfl
          | true => exact absurd ⟨v, hv, hc⟩ hex
        rw [(spec.2 hall).1] at h; cases h
  refine ⟨key, fun i => ?_⟩
  rw [key]
  exact preemptingOf_releaseLate w late i

/-! ### the marking loop of quota preemption: a victim released in the meantime is skipped, not booked -/

theorem quotaMarkLoop_spec (allocs0 : List PAlloc) : ∀ (todo done : List String),
    quotaMarkLoop (markMap done true allocs0) todo = markMap (done ++ quotaMarked allocs0 todo) true allocs0 := by
  intro todo
  induction todo with
  | nil => intro done; unfold quotaMarkLoop quotaMarked; rw [List.filter_nil, List.append_nil]
  | cons k t ih =>
    intro done
    unfold quotaMarkLoop
    rw [isReleased_markMap]
    cases hr : isReleased allocs0 k with
    | true =>
      rw [if_pos rfl, ih done]
      unfold quotaMarked
      rw [List.filter_cons]
      simp only [hr, Bool.not_true, Bool.false_eq_true, if_false]
    | false =>
      rw [if_neg Bool.false_ne_true, setPreempted_markMap, ih (done ++ [k])]
      unfold quotaMarked
      rw [List.filter_cons]
      simp only [hr, Bool.not_false, if_true, List.append_assoc, List.singleton_append]

/-- the allocations after the loop: exactly the selected victims that were not released are marked -/
theorem quotaPreemptLate_eq (w : World) (late sel : List String) :
    quotaPreemptLate w late sel = markMap (quotaMarked (releaseLate late w.allocs) sel) true (releaseLate late w.allocs) := by
  unfold quotaPreemptLate
  have := quotaMarkLoop_spec (releaseLate late w.allocs) sel []
  rw [markMap_nil, List.nil_append] at this
  exact this

theorem quotaMarked_mem {allocs : List PAlloc} {sel : List String} {k : String} (h : k ∈ quotaMarked allocs sel) :
    k ∈ sel ∧ isReleased allocs k = false := by
  unfold quotaMarked at h
  obtain ⟨h1, h2⟩ := List.mem_filter.mp h
  refine ⟨h1, ?_⟩
  cases hr : isReleased allocs k with
  | false => rfl
  | true => rw [hr] at h2; cases h2

theorem pre_foldl_addX_getD (l : List Res) (hr : ∀ r ∈ l, wf r = true) (acc : Res) (k : String) :
    (l.foldl addX acc).getD k = acc.getD k + (l.map (fun r => r.getD k)).sum := by
  induction l generalizing acc with
  | nil => simp
  | cons a t ih =>
    rw [List.foldl_cons, ih (fun x hx => hr x (List.mem_cons_of_mem _ hx)), addX_getD _ _ (hr a List.mem_cons_self),
      List.map_cons, List.sum_cons]
    omega

theorem pre_sumRes_map_getD (l : List PAlloc) (hr : ∀ a ∈ l, wf a.res = true) (k : String) :
    (sumRes (l.map (·.res))).getD k = (l.map (fun a => a.res.getD k)).sum := by
  unfold sumRes
  rw [pre_foldl_addX_getD _ (by intro r hr'; obtain ⟨x, hx, rfl⟩ := List.mem_map.mp hr'; exact hr x hx), List.map_map]
  have : Res.getD ([] : Res) k = 0 := rfl
  rw [this, Int.zero_add]; rfl

/-- sum over a filter by a disjunction of two conditions that exclude each other on the list -/
theorem sum_filter_or (f : PAlloc → Int) (p q : PAlloc → Bool) : ∀ (l : List PAlloc), (∀ a ∈ l, ¬ (p a = true ∧ q a = true)) →
    ((l.filter (fun a => p a || q a)).map f).sum = ((l.filter p).map f).sum + ((l.filter q).map f).sum := by
  intro l
  induction l with
  | nil => intro _; rfl
  | cons a t ih =>
    intro h
    have ht := ih (fun x hx => h x (List.mem_cons_of_mem _ hx))
    have ha := h a List.mem_cons_self
    simp only [List.filter_cons]
    cases hp : p a <;> cases hq : q a
    · simp only [Bool.or_self, Bool.false_eq_true, if_false]; exact ht
    · simp only [Bool.or_true, Bool.false_eq_true, if_true, if_false, List.map_cons, List.sum_cons, ht]; omega
    · simp only [Bool.or_false, Bool.false_eq_true, if_true, if_false, List.map_cons, List.sum_cons, ht]; omega
    · exact absurd ⟨hp, hq⟩ ha


theorem rl_fields (late : List String) (a : PAlloc) :
    (if (late.contains a.key && !a.preempted) = true then { a with released := true } else a).key = a.key ∧
    (if (late.contains a.key && !a.preempted) = true then { a with released := true } else a).preempted = a.preempted ∧
    (if (late.contains a.key && !a.preempted) = true then { a with released := true } else a).q = a.q ∧
    (if (late.contains a.key && !a.preempted) = true then { a with released := true } else a).res = a.res := by
  cases (late.contains a.key && !a.preempted) <;> exact ⟨rfl, rfl, rfl, rfl⟩

theorem mk_fields (marked : List String) (a : PAlloc) :
    (if marked.contains a.key then a.mark true else a).preempted = (a.preempted || marked.contains a.key) ∧
    (if marked.contains a.key then a.mark true else a).q = a.q ∧
    (if marked.contains a.key then a.mark true else a).res = a.res := by
  cases marked.contains a.key
  · exact ⟨(Bool.or_false _).symm, rfl, rfl⟩
  · exact ⟨(Bool.or_true _).symm, rfl, rfl⟩

/-- preempting resource of queue `i` after marking the allocations named by `marked` on top of late releases, per
    resource type: what it was before plus the sizes of the newly marked allocations of the queue's subtree -/
theorem preemptingOf_markMap_getD (w : World) (hres : ∀ a ∈ w.allocs, wf a.res = true) (late marked : List String)
    (i : Nat) (k : String) :
    (preemptingOf { w with allocs := markMap marked true (releaseLate late w.allocs) } i).getD k =
      (preemptingOf w i).getD k + (sumRes ((newlyMarked w marked i).map (·.res))).getD k := by
  unfold preemptingOf newlyMarked
  show (sumRes (((markMap marked true (releaseLate late w.allocs)).filter (fun a => a.preempted && inSubtree w i a.q)).map (·.res))).getD k = _
  unfold markMap releaseLate
  rw [List.map_map, List.filter_map, List.map_map]
  have h1 : ((fun a : PAlloc => a.preempted && inSubtree w i a.q) ∘ ((fun a : PAlloc => if marked.contains a.key then a.mark true else a) ∘
      fun a => if (late.contains a.key && !a.preempted) = true then { a with released := true } else a)) =
      (fun a : PAlloc => (a.preempted && inSubtree w i a.q) || ((marked.contains a.key && !a.preempted) && inSubtree w i a.q)) := by
    funext a
    simp only [Function.comp]
    obtain ⟨e1, e2, e3, _⟩ := rl_fields late a
    obtain ⟨f1, f2, _⟩ := mk_fields marked (if (late.contains a.key && !a.preempted) = true then { a with released := true } else a)
    rw [f1, f2, e1, e2, e3]
    cases a.preempted <;> cases marked.contains a.key <;> cases inSubtree w i a.q <;> rfl
  have h2 : ((fun a : PAlloc => a.res) ∘ ((fun a : PAlloc => if marked.contains a.key then a.mark true else a) ∘
      fun a => if (late.contains a.key && !a.preempted) = true then { a with released := true } else a)) =
      (fun a : PAlloc => a.res) := by
    funext a
    simp only [Function.comp]
    obtain ⟨_, _, _, e4⟩ := rl_fields late a
    obtain ⟨_, _, f3⟩ := mk_fields marked (if (late.contains a.key && !a.preempted) = true then { a with released := true } else a)
    rw [f3, e4]
  rw [h1, h2]
  rw [pre_sumRes_map_getD _ (fun a ha => hres a (List.mem_filter.mp ha).1),
    pre_sumRes_map_getD _ (fun a ha => hres a (List.mem_filter.mp ha).1),
    pre_sumRes_map_getD _ (fun a ha => hres a (List.mem_filter.mp ha).1)]
  apply sum_filter_or
  intro a _ ⟨hp, hq⟩
  simp only [Bool.and_eq_true, Bool.not_eq_true'] at hp hq
  rw [hp.1] at hq; exact absurd hq.1.2 (by decide)

/-- quota preemption with late releases: per queue and resource type the preempting resource grows by exactly the
    victims the operation marked; a marked victim was selected and not released when it was marked -/
theorem quotaPreemptLate_preempting (w : World) (hres : ∀ a ∈ w.allocs, wf a.res = true) (late sel : List String)
    (i : Nat) (k : String) :
    (preemptingOf { w with allocs := quotaPreemptLate w late sel } i).getD k =
      (preemptingOf w i).getD k +
      (sumRes ((newlyMarked w (quotaMarked (releaseLate late w.allocs) sel) i).map (·.res))).getD k := by
  rw [quotaPreemptLate_eq]
  exact preemptingOf_markMap_getD w hres late _ i k

end Pre
end Yk
