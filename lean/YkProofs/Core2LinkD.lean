/-
  `Linked` (clause I8 of C03, YkProofs/Core2Link.lean) is preserved by the removal of a node (`nodeRemove`).
  The rounds of the loop of removeNodeAllocations unbind items without touching the node list (the node is dropped at
  the end), so `Linked` is not the invariant of the loop.  Two invariants instead:
  * `LinkedOff id c`: every bound item of a live application that does NOT sit on the doomed node `id` is listed by its
    node;
  * `BoundIn id c l`: every bound item of a live application that sits on `id` is still waiting for its round, i.e. its
    `(application id, key)` is in the list `l` of rounds to come.  At `l = []`: nothing is bound on `id` (`NoBoundOn`).
  Both are transported along one relation between a state and its successor (`Step`): the live applications of the
  successor are live applications of the state, and their bound items are bound items of the state — or items that sit
  on another node, listed by that node (the real half of a replacement the removal confirms).
-/
import YkProofs.Core2Link
namespace Yk
open Res Core

/-! ### the invariants -/

/-- every bound item away from node `id` is listed by its node -/
def LinkedOff (id : String) (c : Core) : Prop :=
  ∀ b ∈ c.apps, b.live = true → ∀ j ∈ b.items, j.bound = true → j.node ≠ id → OnNode c b.id j

/-- no live application has a bound item on node `id` -/
def NoBoundOn (id : String) (c : Core) : Prop :=
  ∀ b ∈ c.apps, b.live = true → ∀ j ∈ b.items, j.bound = true → j.node ≠ id

/-- every bound item on node `id` is one of the allocations `l` the loop still has to process -/
def BoundIn (id : String) (c : Core) (l : List (String × String)) : Prop :=
  ∀ b ∈ c.apps, b.live = true → ∀ j ∈ b.items, j.bound = true → j.node = id → (b.id, j.key) ∈ l

/-- no live application `app` lists the key `key` as bound -/
def Cleared (c : Core) (app key : String) : Prop :=
  ∀ b ∈ c.apps, b.live = true → b.id = app → ∀ j ∈ b.items, j.key = key → j.bound = false

theorem Linked.linkedOff {s : Core} (h : Linked s) (id : String) : LinkedOff id s :=
  fun b hb hl j hj hbd _ => h b hb hl j hj hbd

theorem BoundIn.noBoundOn {id : String} {c : Core} (h : BoundIn id c []) : NoBoundOn id c := by
  intro b hb hl j hj hbd hn
  cases h b hb hl j hj hbd hn

/-- `OnNode` only reads key, node and size of the item -/
theorem OnNode.congr {s : Core} {app : String} {i j : CItem} (hk : j.key = i.key) (hn : j.node = i.node) (hr : j.res = i.res)
    (h : OnNode s app i) : OnNode s app j := by
  unfold OnNode at h ⊢
  rw [hk, hn, hr]; exact h

/-! ### one application before and after, one state before and after -/

/-- the application record `y` that replaces `x`: same id, and when it is live so was `x` and its bound items were bound
    items of `x` — or sit on another node than `id` and are listed there -/
def AppStep (id : String) (c : Core) (x y : CApp) : Prop :=
  y.id = x.id ∧ (y.live = true → x.live = true ∧ ∀ j' ∈ y.items, j'.bound = true →
    (∃ j ∈ x.items, j.bound = true ∧ j.key = j'.key ∧ j.node = j'.node ∧ j.res = j'.res) ∨
    (j'.node ≠ id ∧ OnNode c x.id j'))

theorem AppStep.refl (id : String) (c : Core) (x : CApp) : AppStep id c x x :=
  ⟨rfl, fun hl => ⟨hl, fun j hj hb => Or.inl ⟨j, hj, hb, rfl, rfl, rfl⟩⟩⟩

/-- same id, same liveness, same items -/
theorem AppStep.of_items (id : String) (c : Core) {x y : CApp} (h1 : y.id = x.id) (h2 : y.live = x.live) (h3 : y.items = x.items) :
    AppStep id c x y :=
  ⟨h1, fun hl => ⟨by rw [← h2]; exact hl, fun j hj hb => Or.inl ⟨j, by rw [← h3]; exact hj, hb, rfl, rfl, rfl⟩⟩⟩

/-- the state `c'` after the state `c`: node list untouched, every live application comes from a live one by `AppStep` -/
def Step (id : String) (c c' : Core) : Prop :=
  c'.nodes = c.nodes ∧ ∀ y ∈ c'.apps, ∃ x ∈ c.apps, AppStep id c x y

theorem Step.refl (id : String) (c : Core) : Step id c c := ⟨rfl, fun y hy => ⟨y, hy, AppStep.refl id c y⟩⟩

theorem Step.of_lists {id : String} {c c' t : Core} (ha : t.apps = c'.apps) (hn : t.nodes = c'.nodes) (h : Step id c c') :
    Step id c t := ⟨hn.trans h.1, fun y hy => h.2 y (by rw [← ha]; exact hy)⟩

theorem Step.trans {id : String} {c c1 c2 : Core} (h1 : Step id c c1) (h2 : Step id c1 c2) : Step id c c2 := by
  refine ⟨h2.1.trans h1.1, ?_⟩
  intro z hz
  obtain ⟨y, hy, hyz1, hyz2⟩ := h2.2 z hz
  obtain ⟨x, hx, hxy1, hxy2⟩ := h1.2 y hy
  refine ⟨x, hx, hyz1.trans hxy1, ?_⟩
  intro hl
  obtain ⟨hly, hz2⟩ := hyz2 hl
  obtain ⟨hlx, hy2⟩ := hxy2 hly
  refine ⟨hlx, ?_⟩
  intro j2 hj2 hb2
  rcases hz2 j2 hj2 hb2 with ⟨j1, hj1, hb1, hk1, hn1, hr1⟩ | ⟨hne, hon⟩
  · rcases hy2 j1 hj1 hb1 with ⟨j, hj, hb, hk, hn, hr⟩ | ⟨hne, hon⟩
    · exact Or.inl ⟨j, hj, hb, hk.trans hk1, hn.trans hn1, hr.trans hr1⟩
    · exact Or.inr ⟨by rw [← hn1]; exact hne, OnNode.congr hk1.symm hn1.symm hr1.symm hon⟩
  · right
    refine ⟨hne, ?_⟩
    rw [← hxy1]
    exact OnNode.of_nodes h1.1.symm hon

/-- the first invariant follows the steps -/
theorem Step.linkedOff {id : String} {c c' : Core} (h : Step id c c') (hl : LinkedOff id c) : LinkedOff id c' := by
  intro y hy hly j' hj' hb' hne
  obtain ⟨x, hx, hid, h2⟩ := h.2 y hy
  obtain ⟨hlx, h3⟩ := h2 hly
  rw [hid]
  apply OnNode.of_nodes h.1
  rcases h3 j' hj' hb' with ⟨j, hj, hb, hk, hn, hr⟩ | ⟨_, hon⟩
  · exact OnNode.congr hk.symm hn.symm hr.symm (hl x hx hlx j hj hb (by rw [hn]; exact hne))
  · exact hon

/-- where a bound item on `id` comes from -/
theorem Step.boundOn {id : String} {c c' : Core} (h : Step id c c') {y : CApp} (hy : y ∈ c'.apps) (hly : y.live = true)
    {j' : CItem} (hj' : j' ∈ y.items) (hb' : j'.bound = true) (hn' : j'.node = id) :
    ∃ x ∈ c.apps, x.live = true ∧ x.id = y.id ∧ ∃ j ∈ x.items, j.bound = true ∧ j.key = j'.key ∧ j.node = id := by
  obtain ⟨x, hx, hid, h2⟩ := h.2 y hy
  obtain ⟨hlx, h3⟩ := h2 hly
  rcases h3 j' hj' hb' with ⟨j, hj, hb, hk, hn, _⟩ | ⟨hne, _⟩
  · exact ⟨x, hx, hlx, hid.symm, j, hj, hb, hk, hn.trans hn'⟩
  · exact absurd hn' hne

/-- the second invariant follows the steps (nothing becomes bound on `id`) -/
theorem Step.boundIn {id : String} {c c' : Core} (h : Step id c c') {l : List (String × String)} (hl : BoundIn id c l) :
    BoundIn id c' l := by
  intro y hy hly j' hj' hb' hn'
  obtain ⟨x, hx, hlx, hid, j, hj, hb, hk, hn⟩ := h.boundOn hy hly hj' hb' hn'
  rw [← hid, ← hk]
  exact hl x hx hlx j hj hb hn

/-- …and loses the head of the list when the round has cleared it -/
theorem Step.boundIn_tail {id : String} {c c' : Core} (h : Step id c c') {p : String × String} {t : List (String × String)}
    (hl : BoundIn id c (p :: t)) (hc : Cleared c' p.1 p.2) : BoundIn id c' t := by
  intro y hy hly j' hj' hb' hn'
  rcases List.mem_cons.mp (h.boundIn hl y hy hly j' hj' hb' hn') with he | ht
  · have h1 : y.id = p.1 := congrArg Prod.fst he
    have h2 : j'.key = p.2 := congrArg Prod.snd he
    have := hc y hy hly h1 j' hj' h2
    rw [this] at hb'; cases hb'
  · exact ht

/-! ### how the operations of the model produce steps -/

/-- every application is replaced by `g` of it -/
theorem step_map {id : String} {c t : Core} (g : CApp → CApp) (hta : t.apps = c.apps.map g) (htn : t.nodes = c.nodes)
    (hg : ∀ x ∈ c.apps, AppStep id c x (g x)) : Step id c t := by
  refine ⟨htn, ?_⟩
  intro y hy
  rw [hta] at hy
  obtain ⟨x, hx, rfl⟩ := List.mem_map.mp hy
  exact ⟨x, hx, hg x hx⟩

/-- `updApp` -/
theorem step_updApps {id : String} {c t : Core} (app : String) (f : CApp → CApp) (hta : t.apps = updApps c.apps app f)
    (htn : t.nodes = c.nodes) (hf : ∀ x ∈ c.apps, (x.live && x.id == app) = true → AppStep id c x (f x)) : Step id c t := by
  refine step_map _ hta htn ?_
  intro x hx
  by_cases hd : (x.live && x.id == app) = true
  · rw [if_pos hd]; exact hf x hx hd
  · rw [if_neg hd]; exact AppStep.refl id c x

/-- `updApp` with a new record for the application `a` the lookup found -/
theorem step_setApp {id : String} {c t : Core} (hw : CoreWF c) {app : String} {a : CApp} (hfind : c.findApp app = some a)
    (f : CApp → CApp) (hta : t.apps = updApps c.apps app f) (htn : t.nodes = c.nodes) (hf : AppStep id c a (f a)) :
    Step id c t := by
  obtain ⟨ham, hl, hid⟩ := findApp_some hfind
  refine step_updApps app f hta htn ?_
  intro x hx hd
  have : x = a := (appIds_atMostOne app hw.appIds).eq hx ham hd (by simp [hl, hid])
  rw [this]; exact hf

/-- after `updApp` with a record that lists `key` unbound, `key` is cleared -/
theorem cleared_setApp {c t : Core} (hw : CoreWF c) {app key : String} {a : CApp} (hfind : c.findApp app = some a)
    (f : CApp → CApp) (hta : t.apps = updApps c.apps app f)
    (hf : ∀ j ∈ (f a).items, j.key = key → j.bound = false) : Cleared t app key := by
  obtain ⟨ham, hl, hid⟩ := findApp_some hfind
  intro b hb hlb hidb j hj hk
  rw [hta] at hb
  rcases mem_updApps hw.appIds ham hl hid hb with rfl | ⟨_, hnd⟩
  · exact hf j hj hk
  · exact absurd (by simp [hlb, hidb]) hnd

theorem cleared_noApp {c : Core} {app key : String} (hfind : c.findApp app = none) : Cleared c app key :=
  fun b hb hl hid _ _ _ => absurd hid (findApp_none hfind b hb hl)

theorem cleared_noItem {c : Core} (hw : CoreWF c) {app key : String} {a : CApp} (hfind : c.findApp app = some a)
    (hitem : a.items.find? (·.key == key) = none) : Cleared c app key := by
  obtain ⟨ham, hl, hid⟩ := findApp_some hfind
  intro b hb hlb hidb j hj hk
  have : b = a := (appIds_atMostOne app hw.appIds).eq hb ham (by simp [hlb, hidb]) (by simp [hl, hid])
  subst this
  have := List.find?_eq_none.mp hitem j hj
  simp [hk] at this

theorem cleared_unbound {c : Core} (hw : CoreWF c) {app key : String} {a : CApp} {i : CItem} (hfind : c.findApp app = some a)
    (hitem : a.items.find? (·.key == key) = some i) (hbd : i.bound = false) : Cleared c app key := by
  obtain ⟨ham, hl, hid⟩ := findApp_some hfind
  obtain ⟨him, hkey⟩ := find_key_some hitem
  intro b hb hlb hidb j hj hk
  have : b = a := (appIds_atMostOne app hw.appIds).eq hb ham (by simp [hlb, hidb]) (by simp [hl, hid])
  subst this
  have : j = i := itemKeys_eq (hw.itemKeys b ham hl) hj him (hk.trans hkey.symm)
  rw [this]; exact hbd

/-! ### the item lists of the rounds -/

/-- a bound item after `unbound key` is an item of the old list, and its key is not `key` -/
theorem bound_unbound {key : String} {l : List CItem} {y : CItem} (hy : y ∈ unbound key l) (hb : y.bound = true) :
    y ∈ l ∧ y.key ≠ key := by
  obtain ⟨x, hx, _, _, _, _, _, h | h⟩ := mem_unbound hy
  · rw [h.2] at hb; cases hb
  · rw [h.2]; exact ⟨hx, h.1⟩

/-- an item update that keeps key, node, size and the bound flag -/
theorem sig_updItem {k : String} {g : CItem → CItem} {l : List CItem} {y : CItem} (hy : y ∈ updItem k g l)
    (hg : ∀ x, (g x).key = x.key ∧ (g x).node = x.node ∧ (g x).res = x.res ∧ (g x).bound = x.bound) :
    ∃ x ∈ l, x.key = y.key ∧ x.node = y.node ∧ x.res = y.res ∧ x.bound = y.bound := by
  obtain ⟨x, hx, h | h⟩ := mem_updItem hy
  · obtain ⟨_, rfl⟩ := h
    obtain ⟨h1, h2, h3, h4⟩ := hg x
    exact ⟨x, hx, h1.symm, h2.symm, h3.symm, h4.symm⟩
  · obtain ⟨_, rfl⟩ := h
    exact ⟨y, hx, rfl, rfl, rfl, rfl⟩

theorem sig_deallocItems {key other : String} {l : List CItem} {y : CItem} (hy : y ∈ deallocItems key other l) :
    ∃ x ∈ l, x.key = y.key ∧ x.node = y.node ∧ x.res = y.res ∧ x.bound = y.bound := by
  unfold deallocItems at hy
  obtain ⟨z, hz, a1, a2, a3, a4⟩ := sig_updItem hy (fun _ => ⟨rfl, rfl, rfl, rfl⟩)
  obtain ⟨x, hx, b1, b2, b3, b4⟩ := sig_updItem hz (fun _ => ⟨rfl, rfl, rfl, rfl⟩)
  exact ⟨x, hx, b1.trans a1, b2.trans a2, b3.trans a3, b4.trans a4⟩

/-- a bound item after `replApp p r`: an old item, or the real allocation `r` that has just become bound -/
theorem bound_replItems {p r : CItem} {l : List CItem} {y : CItem} (hy : y ∈ replItems p r l) (hb : y.bound = true) :
    y ∈ l ∨ ∃ x, ((x ∈ l ∧ x.key = r.key) ∨ x = r) ∧ y = { x with bound := true, release := none } := by
  have h0 : ∀ y ∈ replItems0 p r l, y.bound = true →
      y ∈ l ∨ ∃ x, ((x ∈ l ∧ x.key = r.key) ∨ x = r) ∧ y = { x with bound := true, release := none } := by
    intro y hy hb
    unfold replItems0 at hy
    obtain ⟨hm, _⟩ := List.mem_filter.mp hy
    obtain ⟨z, hz, h | h⟩ := mem_updItem hm
    · obtain ⟨hzk, rfl⟩ := h
      obtain ⟨x, hx, h' | h'⟩ := mem_updItem hz
      · obtain ⟨_, rfl⟩ := h'; exact Or.inr ⟨x, Or.inl ⟨hx, hzk⟩, rfl⟩
      · obtain ⟨_, rfl⟩ := h'; exact Or.inr ⟨z, Or.inl ⟨hx, hzk⟩, rfl⟩
    · obtain ⟨_, rfl⟩ := h
      obtain ⟨x, hx, h' | h'⟩ := mem_updItem hz
      · obtain ⟨_, rfl⟩ := h'; cases hb
      · obtain ⟨_, rfl⟩ := h'; exact Or.inl hx
  unfold replItems at hy
  split at hy
  · exact h0 y hy hb
  · rcases List.mem_append.mp hy with h | h
    · exact h0 y h hb
    · rw [List.mem_singleton] at h
      exact Or.inr ⟨r, Or.inr rfl, h⟩

/-! ### `nodeRmBound` -/

theorem nodeRmApp_items (key : String) (i : CItem) (a : CApp) : (nodeRmApp key i a).items = unbound key a.items :=
  relAppT_items .unknown key i a

theorem nodeRmApp_id (key : String) (i : CItem) (a : CApp) : (nodeRmApp key i a).id = a.id := relAppT_id .unknown key i a

/-- the allocation `key` of `app` is unbound: a step, and `key` is cleared -/
theorem nodeRmBound_link (id : String) (c : Core) (app key : String) (hw : CoreWF c) :
    Step id c (nodeRmBound c app key) ∧ Cleared (nodeRmBound c app key) app key := by
  cases hfind : c.findApp app with
  | none =>
    have e : nodeRmBound c app key = c := by unfold nodeRmBound; simp only [hfind]
    rw [e]; exact ⟨Step.refl id c, cleared_noApp hfind⟩
  | some a =>
    cases hitem : a.items.find? (·.key == key) with
    | none =>
      have e : nodeRmBound c app key = c := by unfold nodeRmBound; simp only [hfind, hitem]
      rw [e]; exact ⟨Step.refl id c, cleared_noItem hw hfind hitem⟩
    | some i =>
      cases hbd : i.bound with
      | false =>
        have e : nodeRmBound c app key = c := by
          unfold nodeRmBound; simp only [hfind, hitem, hbd, Bool.not_false, if_true]
        rw [e]; exact ⟨Step.refl id c, cleared_unbound hw hfind hitem hbd⟩
      | true =>
        obtain ⟨hta, _, htn⟩ := nodeRmBound_lists c app key a i hfind hitem hbd
        constructor
        · refine step_setApp hw hfind _ hta htn ⟨nodeRmApp_id key i a, fun _ => ⟨(findApp_some hfind).2.1, ?_⟩⟩
          intro j' hj' hb'
          rw [nodeRmApp_items] at hj'
          exact Or.inl ⟨j', (bound_unbound hj' hb').1, hb', rfl, rfl, rfl⟩
        · refine cleared_setApp hw hfind _ hta ?_
          intro j hj hk
          rw [nodeRmApp_items] at hj
          cases hb : j.bound with
          | false => rfl
          | true => exact absurd hk (bound_unbound hj hb).2

/-- a reversal branch: some step to `c1`, then `nodeRmBound` -/
theorem rev_link {id : String} {c c1 : Core} (app key : String) (hw1 : CoreWF c1) (h : Step id c c1) :
    Step id c (nodeRmBound c1 app key) ∧ Cleared (nodeRmBound c1 app key) app key :=
  ⟨h.trans (nodeRmBound_link id c1 app key hw1).1, (nodeRmBound_link id c1 app key hw1).2⟩

/-! ### the updates of the reversal branches keep key, node, size and bound flag of every item -/

theorem AppStep.of_sig (id : String) (c : Core) {x y : CApp} (h1 : y.id = x.id) (h2 : y.live = x.live)
    (h3 : ∀ j' ∈ y.items, ∃ j ∈ x.items, j.key = j'.key ∧ j.node = j'.node ∧ j.res = j'.res ∧ j.bound = j'.bound) :
    AppStep id c x y := by
  refine ⟨h1, fun hl => ⟨by rw [← h2]; exact hl, ?_⟩⟩
  intro j' hj' hb'
  obtain ⟨j, hj, a1, a2, a3, a4⟩ := h3 j' hj'
  exact Or.inl ⟨j, hj, a4.trans hb', a1, a2, a3⟩

theorem step_unlink (id : String) (c : Core) (app k1 k2 : String) : Step id c (updApp c app (unlinkApp k1 k2)) := by
  refine step_updApps app (unlinkApp k1 k2) rfl rfl ?_
  intro x _ _
  refine AppStep.of_sig id c rfl rfl ?_
  intro j' hj'
  have hj' : j' ∈ updItem k2 (fun x => { x with release := none }) (updItem k1 (fun x => { x with release := none }) x.items) := hj'
  obtain ⟨z, hz, a1, a2, a3, a4⟩ := sig_updItem hj' (fun _ => ⟨rfl, rfl, rfl, rfl⟩)
  obtain ⟨j, hj, b1, b2, b3, b4⟩ := sig_updItem hz (fun _ => ⟨rfl, rfl, rfl, rfl⟩)
  exact ⟨j, hj, b1.trans a1, b2.trans a2, b3.trans a3, b4.trans a4⟩

theorem step_dealloc (id : String) (c : Core) (app key other : String) (r : CItem) (chain : List String) (fq : CQueue → CQueue) :
    Step id c (updQueues (updApp c app (deallocAppRun key other r)) chain fq) := by
  refine step_updApps app (deallocAppRun key other r) rfl rfl ?_
  intro x _ _
  refine AppStep.of_sig id c (runAgain_id _) (runAgain_live _) ?_
  intro j' hj'
  rw [deallocAppRun_items] at hj'
  exact sig_deallocItems hj'

/-! ### one round of the loop -/

/-- What a round needs for `Linked`, beyond `NodeRmOK`: when the removal of the node confirms a swap (bound placeholder
    `i` on the node, real half `r` waiting on ANOTHER node), the real allocation becomes a bound item of the application;
    it must be listed by the node it waits on.  Only asked of a real allocation that is an item of the application (the
    real half of an in-flight cross-node replacement, which `swapStart` added to its node); for one that `findReal`
    resurrects from a node's list it holds by construction (`findReal_parked`). -/
structure NodeLinkOK (c : Core) (nodeId app key : String) : Prop where
  parked : ∀ a i rk r, c.findApp app = some a → a.items.find? (·.key == key) = some i → i.release = some rk → i.ph = true →
    a.items.find? (·.key == rk) = some r → r.node ≠ nodeId → i.bound = true → OnNode c app r

theorem findReal_item {c : Core} {a : CApp} {rk : String} {r : CItem} (h : a.items.find? (·.key == rk) = some r) :
    findReal c a rk = some r := by
  unfold findReal; simp only [h]

/-- a real allocation that `findReal` resurrects from a node's list (its ask is gone) is listed by that node: for it the
    field of `NodeLinkOK` holds by construction -/
theorem findReal_parked {c : Core} (hw : CoreWF c) {a : CApp} {rk : String} {r : CItem}
    (hnone : a.items.find? (·.key == rk) = none) (h : findReal c a rk = some r) : OnNode c a.id r := by
  unfold findReal at h
  simp only [hnone] at h
  obtain ⟨n, hn, hx⟩ := List.exists_of_findSome?_eq_some h
  rw [Option.map_eq_some_iff] at hx
  obtain ⟨x, hfx, rfl⟩ := hx
  have hxm := List.mem_of_find?_eq_some hfx
  have hxp := List.find?_some hfx
  simp only [Bool.and_eq_true, beq_iff_eq, Bool.not_eq_true'] at hxp
  exact ⟨n, findNode_of_mem hw hn, x, hxm, hxp.1.1, hxp.1.2, hxp.2, fun _ => rfl⟩

/-- the swap confirmed by the removal of the placeholder's node -/
theorem confirm_link (id : String) (c : Core) (app key : String) (a : CApp) (i r : CItem) (chain : List String) (fq : CQueue → CQueue)
    (hw : CoreWF c) (hfind : c.findApp app = some a) (hitem : a.items.find? (·.key == key) = some i)
    (hrepl : ReplOK a i r) (hne : r.node ≠ id) (hon : OnNode c app r) :
    Step id c (updQueues (updApp c app (fun _ => { replApp i r a with live := true })) chain fq) ∧
    Cleared (updQueues (updApp c app (fun _ => { replApp i r a with live := true })) chain fq) app key := by
  obtain ⟨ham, hl, hid⟩ := findApp_some hfind
  obtain ⟨_, hkey⟩ := find_key_some hitem
  have hitems : ({ replApp i r a with live := true } : CApp).items = replItems i r a.items := replApp_items i r a
  constructor
  · refine step_setApp hw hfind (fun _ => { replApp i r a with live := true }) rfl rfl ⟨replApp_id i r a, fun _ => ⟨hl, ?_⟩⟩
    intro j' hj' hb'
    rw [hitems] at hj'
    rcases bound_replItems hj' hb' with h | ⟨x, hx, rfl⟩
    · exact Or.inl ⟨j', h, hb', rfl, rfl, rfl⟩
    · have hxr : x = r := by
        rcases hx with ⟨hxm, hxk⟩ | h
        · rcases hrepl.rIn with ⟨hrm, _⟩ | ⟨hnone, _⟩
          · exact itemKeys_eq (hw.itemKeys a ham hl) hxm hrm hxk
          · exact absurd hxk (hnone x hxm)
        · exact h
      subst hxr
      right
      refine ⟨hne, ?_⟩
      rw [hid]
      exact OnNode.congr (i := x) rfl rfl rfl hon
  · refine cleared_setApp hw hfind (fun _ => { replApp i r a with live := true }) rfl ?_
    intro j hj hk
    rw [hitems] at hj
    exact replItems_unbound hrepl.rKey hj (hk.trans hkey.symm)

/-- one round of the loop: a step, and the allocation of the round is not bound afterwards -/
theorem nodeRmAlloc_link (c : Core) (nodeId app key : String) (hw : CoreWF c) (hb : Books c)
    (hok : NodeRmOK c nodeId app key) (hlk : NodeLinkOK c nodeId app key) :
    Step nodeId c (nodeRmAlloc c nodeId app key) ∧ Cleared (nodeRmAlloc c nodeId app key) app key := by
  cases hfind : c.findApp app with
  | none =>
    have e : nodeRmAlloc c nodeId app key = c := by unfold nodeRmAlloc; simp only [hfind]
    rw [e]; exact ⟨Step.refl _ c, cleared_noApp hfind⟩
  | some a =>
    cases hitem : a.items.find? (·.key == key) with
    | none =>
      have e : nodeRmAlloc c nodeId app key = c := by unfold nodeRmAlloc; simp only [hfind, hitem]
      rw [e]; exact ⟨Step.refl _ c, cleared_noItem hw hfind hitem⟩
    | some i =>
      obtain ⟨him, hkey⟩ := find_key_some hitem
      cases hrel : i.release with
      | none => rw [nodeRmAlloc_plain c nodeId app key a i hfind hitem hrel]; exact nodeRmBound_link nodeId c app key hw
      | some rk =>
        cases hph : i.ph with
        | true =>
          cases hreal : findReal c a rk with
          | none =>
            rw [nodeRmAlloc_noReal c nodeId app key a i rk hfind hitem hrel hph hreal]
            exact rev_link app key (unlink_props c app rk key hw hb).2 (step_unlink nodeId c app rk key)
          | some r =>
            cases hnode : (r.node != nodeId) with
            | true =>
              rw [nodeRmAlloc_other c nodeId app key a i rk r hfind hitem hrel hph hreal hnode]
              cases hbd : i.bound with
              | false =>
                simp only [Bool.not_false, if_true]
                exact ⟨Step.refl _ c, cleared_unbound hw hfind hitem hbd⟩
              | true =>
                simp only [Bool.not_true, Bool.false_eq_true, if_false]
                have hne : r.node ≠ nodeId := by simpa using hnode
                obtain ⟨hrepl, _⟩ := hok.confirm a i rk r hfind hitem hrel hph hreal hne hbd
                have hon : OnNode c app r := by
                  cases hf : a.items.find? (·.key == rk) with
                  | none => rw [← (findApp_some hfind).2.2]; exact findReal_parked hw hf hreal
                  | some r' =>
                    have : r' = r := Option.some.inj ((findReal_item hf).symm.trans hreal)
                    subst this
                    exact hlk.parked a i rk r' hfind hitem hrel hph hf hne hbd
                exact confirm_link nodeId c app key a i r _ _ hw hfind hitem hrepl hne hon
            | false =>
              rw [nodeRmAlloc_same c nodeId app key a i rk r hfind hitem hrel hph hreal hnode]
              cases hc : (r.inReq && r.allocated) with
              | true =>
                simp only [if_true]
                simp only [Bool.and_eq_true] at hc
                obtain ⟨hrm, hrk⟩ := find_key_some (findReal_inReq hreal hc.1)
                obtain ⟨hnb, hsat⟩ := hok.sameNode a i rk r hfind hitem hrel hph hreal (by simpa using hnode) hc.1 hc.2
                exact rev_link app key (dealloc_props c app rk key a r hw hb hfind hrm hrk hc.1 hc.2 hnb hsat).2
                  (step_dealloc nodeId c app rk key r _ _)
              | false =>
                simp only [Bool.false_eq_true, if_false]
                exact rev_link app key (unlink_props c app rk key hw hb).2 (step_unlink nodeId c app rk key)
        | false =>
          rw [nodeRmAlloc_parked c nodeId app key a i rk hfind hitem hrel hph]
          cases hc : (i.inReq && i.allocated) with
          | true =>
            simp only [if_true]
            simp only [Bool.and_eq_true] at hc
            obtain ⟨hnb, hsat⟩ := hok.parked a i rk hfind hitem hrel hph hc.1 hc.2
            exact rev_link app key (dealloc_props c app key rk a i hw hb hfind him hkey hc.1 hc.2 hnb hsat).2
              (step_dealloc nodeId c app key rk i _ _)
          | false =>
            simp only [Bool.false_eq_true, if_false]
            exact rev_link app key (unlink_props c app rk key hw hb).2 (step_unlink nodeId c app rk key)

/-! ### the loop -/

/-- every round finds `NodeLinkOK` in the state the previous rounds left (like `NodeLoopOK`) -/
def NodeLinkLoopOK (nodeId : String) : Core → List (String × String) → Prop
  | _, [] => True
  | c, p :: t => NodeLinkOK c nodeId p.1 p.2 ∧ NodeLinkLoopOK nodeId (nodeRmAlloc c nodeId p.1 p.2) t

/-- the loop of removeNodeAllocations over the list `l` that covers everything bound on the node: afterwards nothing is
    bound on the node, and what is bound elsewhere is still listed there -/
theorem nodeLoop_link (nodeId : String) (l : List (String × String)) (c : Core) (hw : CoreWF c) (hb : Books c)
    (hok : NodeLoopOK nodeId c l) (hlk : NodeLinkLoopOK nodeId c l) (h1 : LinkedOff nodeId c) (h2 : BoundIn nodeId c l) :
    LinkedOff nodeId (l.foldl (fun c p => nodeRmAlloc c nodeId p.1 p.2) c) ∧
    NoBoundOn nodeId (l.foldl (fun c p => nodeRmAlloc c nodeId p.1 p.2) c) := by
  induction l generalizing c with
  | nil => exact ⟨h1, h2.noBoundOn⟩
  | cons p t ih =>
    obtain ⟨hok1, hok2⟩ := hok
    obtain ⟨hlk1, hlk2⟩ := hlk
    obtain ⟨hb1, hw1⟩ := nodeRmAlloc_props c nodeId p.1 p.2 hw hb hok1
    obtain ⟨hst, hcl⟩ := nodeRmAlloc_link c nodeId p.1 p.2 hw hb hok1 hlk1
    exact ih (nodeRmAlloc c nodeId p.1 p.2) hw1 hb1 hok2 hlk2 (hst.linkedOff h1) (hst.boundIn_tail h2 hcl)

/-! ### before and after the loop: reservations, terminated applications -/

theorem step_unreserveOn (nodeId : String) (c : Core) (id k : String) : Step nodeId c (unreserveOn c id k) := by
  unfold unreserveOn
  split
  · exact Step.refl _ c
  · refine step_map _ rfl rfl ?_
    intro x _
    split
    · exact AppStep.of_items _ _ rfl rfl rfl
    · exact AppStep.refl _ _ x

theorem step_unreserveFold (nodeId id : String) (l : List String) (c : Core) :
    Step nodeId c (l.foldl (fun c k => unreserveOn c id k) c) := by
  induction l generalizing c with
  | nil => exact Step.refl _ c
  | cons k t ih => exact (step_unreserveOn nodeId c id k).trans (ih (unreserveOn c id k))

theorem step_leaveApp (nodeId : String) (c : Core) (app : String) (hw : CoreWF c) : Step nodeId c (c.leaveApp app) := by
  cases hfind : c.findApp app with
  | none =>
    have e : c.leaveApp app = c := by unfold leaveApp; simp only [hfind]
    rw [e]; exact Step.refl _ c
  | some a =>
    have e : c.leaveApp app =
        updQueues (updApp c app (fun _ => { a with live := false, items := Timer.boundOnly a.items }))
          (pathChain c a.queue) (qLeave { a with live := false, items := Timer.boundOnly a.items }) := by
      unfold leaveApp; simp only [hfind]; rfl
    rw [e]
    refine step_setApp hw hfind (fun _ => { a with live := false, items := Timer.boundOnly a.items }) rfl rfl ⟨rfl, ?_⟩
    intro h; cases h

theorem step_sweepFold (nodeId : String) (l : List CApp) (c : Core) (hw : CoreWF c) (hb : Books c) :
    Step nodeId c (l.foldl (fun c a => if a.live && terminated a.state then leaveApp c a.id else c) c) := by
  induction l generalizing c with
  | nil => exact Step.refl _ c
  | cons a t ih =>
    rw [List.foldl_cons]
    split
    · obtain ⟨hb1, hw1⟩ := leaveApp_props c a.id hw hb
      exact (step_leaveApp nodeId c a.id hw).trans (ih _ hw1 hb1)
    · exact ih c hw hb

theorem step_sweepTerminated (nodeId : String) (c : Core) (hw : CoreWF c) (hb : Books c) : Step nodeId c c.sweepTerminated :=
  step_sweepFold nodeId c.apps c hw hb

/-- the steps keep "nothing bound on the node" -/
theorem Step.noBoundOn {id : String} {c c' : Core} (h : Step id c c') (hn : NoBoundOn id c) : NoBoundOn id c' := by
  intro y hy hly j' hj' hb' hn'
  obtain ⟨x, hx, hlx, _, j, hj, hbj, _, hnj⟩ := h.boundOn hy hly hj' hb' hn'
  exact hn x hx hlx j hj hbj hnj

/-! ### what `Linked` says about the node that is removed -/

/-- every bound item on the node is among the node's non-foreign allocations, i.e. gets its round -/
theorem Linked.boundIn {s : Core} (hl : Linked s) {id : String} {n : CNode} (hn : s.findNode id = some n)
    (order : List (String × String)) : BoundIn id s (order ++ nodeRest n order) := by
  intro b hb hlb j hj hbd hnode
  obtain ⟨n', hn', x, hx, hxk, hxa, hxf, _⟩ := hl b hb hlb j hj hbd
  rw [hnode, hn] at hn'
  have hnn : n = n' := Option.some.inj hn'
  subst hnn
  rw [List.mem_append]
  by_cases hc : order.contains (b.id, j.key) = true
  · exact Or.inl (List.contains_iff_mem.mp hc)
  · right
    unfold nodeRest
    rw [List.mem_filter]
    refine ⟨List.mem_map.mpr ⟨x, List.mem_filter.mpr ⟨hx, by rw [hxf]; rfl⟩, by rw [hxa, hxk]⟩, ?_⟩
    simpa using hc

/-! ### the node is dropped -/

theorem find_filter_ne (nodes : List CNode) (id id' : String) (h : id' ≠ id) :
    (nodes.filter (·.id != id)).find? (·.id == id') = nodes.find? (·.id == id') := by
  induction nodes with
  | nil => rfl
  | cons n t ih =>
    by_cases hd : n.id = id
    · have h1 : (n.id != id) = false := by simp [hd]
      have h2 : (n.id == id') = false := by rw [hd]; simpa using h.symm
      rw [List.filter_cons, h1, List.find?_cons, h2]
      exact ih
    · have h1 : (n.id != id) = true := by simpa using hd
      rw [List.filter_cons, h1, if_pos rfl, List.find?_cons, List.find?_cons, ih]

/-- dropping the node `id` does not change what the lookup of ANOTHER node finds -/
theorem findNode_filter_ne (c : Core) (id id' : String) (t : Res) (h : id' ≠ id) :
    ({ c with nodes := c.nodes.filter (·.id != id), total := t } : Core).findNode id' = c.findNode id' :=
  find_filter_ne c.nodes id id' h

theorem linked_dropNode (c : Core) (id : String) (t t' : Res) (h1 : LinkedOff id c) (h2 : NoBoundOn id c) :
    Linked (setRootMax { c with nodes := c.nodes.filter (·.id != id), total := t } t') := by
  intro b hb hlb j hj hbd
  have hne := h2 b hb hlb j hj hbd
  obtain ⟨n, hn, rest⟩ := h1 b hb hlb j hj hbd hne
  exact ⟨n, (findNode_filter_ne c id j.node t hne).trans hn, rest⟩

/-! ### `nodeRemove` -/

/-- The side condition of a node removal for `Linked`: every round of the loop meets `NodeLinkOK` in the state it is
    applied to (same shape as `NodeRemoveOK`). -/
def NodeRemoveLinkOK (s : Core) (id : String) (order : List (String × String)) : Prop :=
  ∀ n, s.findNode id = some n →
    NodeLinkLoopOK id (n.reservations.foldl (fun c k => unreserveOn c id k) s) (order ++ nodeRest n order)

theorem linked_nodeRemove (s : Core) (id : String) (order : List (String × String)) (hw : CoreWF s) (hb : Books s)
    (hl : Linked s) (hok : NodeRemoveOK s id order) (hlk : NodeRemoveLinkOK s id order) : Linked (s.nodeRemove id order) := by
  unfold nodeRemove
  split
  · exact hl
  · rename_i n hn
    obtain ⟨hb0, hw0, _⟩ := unreserveFold_props id n.reservations s hw hb
    have hs0 := step_unreserveFold id id n.reservations s
    obtain ⟨h1, h2⟩ := nodeLoop_link id _ _ hw0 hb0 (hok n hn) (hlk n hn) (hs0.linkedOff (hl.linkedOff id))
      (hs0.boundIn (hl.boundIn hn order))
    obtain ⟨hb1, hw1, _⟩ := nodeLoop_props id _ _ hw0 hb0 (hok n hn)
    have hs2 := step_sweepTerminated id _ hw1 hb1
    exact linked_dropNode _ id _ _ (hs2.linkedOff h1) (hs2.noBoundOn h2)

end Yk
