/- Lemmas about the queue-tree model (YkModel/Queue.lean) behind YkProps/C02 and YkProps/C11. -/
import YkModel.Queue
import YkProofs.Res
namespace Yk
open Res QTree

/-! ### well-formed trees -/

def oresWf (o : ORes) : Bool := match o with | none => true | some r => wf r

/-- the per-queue part of tree well-formedness, for the queue at index `i` -/
def qWf (i : Nat) (q : Q) : Bool :=
  (match q.parent with | none => true | some p => decide (p < i)) &&
    wf q.allocated && oresWf q.max && oresWf q.guaranteed

def treeWfAux : Nat → List Q → Bool
  | _, [] => true
  | i, q :: t => qWf i q && treeWfAux (i + 1) t

/-- parents come first, every resource vector of every queue has unique keys -/
def TreeWF (t : QTree) : Prop := treeWfAux 0 t = true

instance (t : QTree) : Decidable (TreeWF t) := inferInstanceAs (Decidable (treeWfAux 0 t = true))

theorem treeWfAux_get : ∀ (t : List Q) (n : Nat), treeWfAux n t = true →
    ∀ i q, t[i]? = some q → qWf (n + i) q = true := by
  intro t
  induction t with
  | nil => intro n _ i q h; simp at h
  | cons a t ih =>
    intro n h i q hq
    simp only [treeWfAux, Bool.and_eq_true] at h
    cases i with
    | zero => simp at hq; subst hq; exact h.1
    | succ j =>
      simp at hq
      have := ih (n + 1) h.2 j q hq
      have e : n + (j + 1) = n + 1 + j := by omega
      rw [e]; exact this

theorem TreeWF.get {t : QTree} (hw : TreeWF t) {i : Nat} {q : Q} (h : t[i]? = some q) :
    (∀ p, q.parent = some p → p < i) ∧ wf q.allocated = true ∧ oresWf q.max = true ∧ oresWf q.guaranteed = true := by
  have := treeWfAux_get t 0 hw i q h
  simp only [qWf, Bool.and_eq_true, Nat.zero_add] at this
  obtain ⟨⟨⟨h1, h2⟩, h3⟩, h4⟩ := this
  refine ⟨?_, h2, h3, h4⟩
  intro p hp
  rw [hp] at h1
  simpa using h1

theorem TreeWF.parent_lt {t : QTree} (hw : TreeWF t) {i p : Nat} {q : Q} (h : t[i]? = some q)
    (hp : q.parent = some p) : p < i := (hw.get h).1 p hp

theorem TreeWF.max_wf {t : QTree} (hw : TreeWF t) {i : Nat} {q : Q} {m : Res} (h : t[i]? = some q)
    (hm : q.max = some m) : wf m = true := by
  have := (hw.get h).2.2.1
  rw [hm] at this; exact this

/-! ### the ancestor chain -/

namespace QTree

theorem chainAux_succ (t : QTree) (f i : Nat) :
    chainAux t (f + 1) i =
      match t[i]? with
      | none => []
      | some q => i :: (match q.parent with | none => [] | some p => chainAux t f p) := rfl

theorem chainAux_fuel (t : QTree) (hw : TreeWF t) :
    ∀ f1 f2 i, i < f1 → i < f2 → chainAux t f1 i = chainAux t f2 i := by
  intro f1
  induction f1 with
  | zero => intro f2 i h; omega
  | succ a ih =>
    intro f2 i h1 h2
    cases f2 with
    | zero => omega
    | succ b =>
      rw [chainAux_succ, chainAux_succ]
      cases hq : t[i]? with
      | none => rfl
      | some q =>
        cases hpar : q.parent with
        | none => simp only [hpar]
        | some p =>
          have := hw.parent_lt hq hpar
          simp only [hpar]
          rw [ih b p (by omega) (by omega)]

theorem lt_length_of_getElem? {t : QTree} {i : Nat} {q : Q} (h : t[i]? = some q) : i < t.length := by
  obtain ⟨h', _⟩ := List.getElem?_eq_some_iff.mp h
  exact h'

theorem chain_none {t : QTree} {i : Nat} (h : t[i]? = none) : chain t i = [] := by
  unfold chain
  cases hn : t.length with
  | zero => rfl
  | succ n => rw [chainAux_succ, h]

theorem chain_root {t : QTree} {i : Nat} {q : Q} (h : t[i]? = some q) (hp : q.parent = none) :
    chain t i = [i] := by
  unfold chain
  have := lt_length_of_getElem? h
  cases hn : t.length with
  | zero => omega
  | succ n => rw [chainAux_succ, h]; simp only [hp]

theorem chain_cons {t : QTree} (hw : TreeWF t) {i p : Nat} {q : Q} (h : t[i]? = some q)
    (hp : q.parent = some p) : chain t i = i :: chain t p := by
  unfold chain
  have hl := lt_length_of_getElem? h
  have hpi := hw.parent_lt h hp
  cases hn : t.length with
  | zero => omega
  | succ n =>
    rw [chainAux_succ t n i, h]; simp only [hp]
    rw [chainAux_fuel t hw n (n + 1) p (by omega) (by omega)]

theorem chain_cases {t : QTree} (hw : TreeWF t) (i : Nat) :
    (t[i]? = none ∧ chain t i = []) ∨
    (∃ q, t[i]? = some q ∧ q.parent = none ∧ chain t i = [i]) ∨
    (∃ q p, t[i]? = some q ∧ q.parent = some p ∧ p < i ∧ chain t i = i :: chain t p) := by
  cases hq : t[i]? with
  | none => exact Or.inl ⟨rfl, chain_none hq⟩
  | some q =>
    cases hp : q.parent with
    | none => exact Or.inr (Or.inl ⟨q, rfl, hp, chain_root hq hp⟩)
    | some p => exact Or.inr (Or.inr ⟨q, p, rfl, hp, hw.parent_lt hq hp, chain_cons hw hq hp⟩)

theorem chain_le {t : QTree} (hw : TreeWF t) (i : Nat) : ∀ j ∈ chain t i, j ≤ i := by
  induction i using Nat.strongRecOn with
  | ind i ih =>
    rcases chain_cases hw i with ⟨_, hc⟩ | ⟨q, _, _, hc⟩ | ⟨q, p, _, _, hlt, hc⟩
    · rw [hc]; intro j hj; cases hj
    · rw [hc]; intro j hj; simp at hj; omega
    · rw [hc]; intro j hj
      rcases List.mem_cons.mp hj with h | h
      · omega
      · have := ih p hlt j h; omega

theorem chain_nodup {t : QTree} (hw : TreeWF t) (i : Nat) : (chain t i).Nodup := by
  induction i using Nat.strongRecOn with
  | ind i ih =>
    rcases chain_cases hw i with ⟨_, hc⟩ | ⟨q, _, _, hc⟩ | ⟨q, p, _, _, hlt, hc⟩
    · rw [hc]; exact List.nodup_nil
    · rw [hc]; simp
    · rw [hc, List.nodup_cons]
      refine ⟨?_, ih p hlt⟩
      intro hmem
      have := chain_le hw p i hmem
      omega

/-! ### applyChain -/

theorem updAt_getElem? (t : QTree) (a : Nat) (f : Q → Q) (j : Nat) :
    (updAt t a f)[j]? = if a = j then t[j]?.map f else t[j]? := by
  unfold updAt
  rw [List.getElem?_modify]
  by_cases h : a = j
  · simp [h]
  · simp [h]

theorem applyChain_nil (t : QTree) (f : Q → Q) : applyChain t [] f = t := rfl
theorem applyChain_cons (t : QTree) (a : Nat) (c : List Nat) (f : Q → Q) :
    applyChain t (a :: c) f = applyChain (updAt t a f) c f := rfl

theorem applyChain_length (f : Q → Q) : ∀ (c : List Nat) (t : QTree), (applyChain t c f).length = t.length := by
  intro c
  induction c with
  | nil => intro t; rfl
  | cons a c ih => intro t; rw [applyChain_cons, ih]; exact List.length_modify _ _ _

theorem applyChain_getElem? (f : Q → Q) : ∀ (c : List Nat) (t : QTree), c.Nodup → ∀ j,
    (applyChain t c f)[j]? = if j ∈ c then t[j]?.map f else t[j]? := by
  intro c
  induction c with
  | nil => intro t _ j; simp [applyChain_nil]
  | cons a c ih =>
    intro t hn j
    rw [List.nodup_cons] at hn
    rw [applyChain_cons, ih _ hn.2, updAt_getElem?]
    by_cases h : a = j
    · subst h; simp [hn.1]
    · have h' : ¬ j = a := fun e => h e.symm
      simp [h, h']

theorem applyChain_forall (f : Q → Q) (P : Q → Prop) (hf : ∀ q, P q → P (f q)) :
    ∀ (c : List Nat) (t : QTree), (∀ q ∈ t, P q) → ∀ q ∈ applyChain t c f, P q := by
  intro c
  induction c with
  | nil => intro t h; exact h
  | cons a c ih =>
    intro t h
    rw [applyChain_cons]
    apply ih
    intro q hq
    obtain ⟨j, hj⟩ := List.mem_iff_getElem?.mp hq
    rw [updAt_getElem?] at hj
    by_cases e : a = j
    · simp only [e, if_true] at hj
      cases hq' : t[j]? with
      | none => rw [hq'] at hj; cases hj
      | some q0 =>
        rw [hq'] at hj; simp at hj; subst hj
        exact hf _ (h q0 (List.mem_iff_getElem?.mpr ⟨j, hq'⟩))
    · simp only [e, if_false] at hj
      exact h q (List.mem_iff_getElem?.mpr ⟨j, hj⟩)

/-! ### C11: running-application counters -/

theorem canRun_gate (t : QTree) (i : Nat) (app : String) (h : canRunApp t i app = true) :
    ∀ j ∈ chain t i, ∀ q, t[j]? = some q → q.maxApps ≠ 0 →
      app ∈ q.allocating ∨ q.running + q.allocating.length + 1 ≤ q.maxApps := by
  intro j hj q hq hm
  unfold canRunApp at h
  have := List.all_eq_true.mp h j hj
  rw [hq] at this
  simp only [Bool.or_eq_true, beq_iff_eq, decide_eq_true_eq, List.contains_iff_mem] at this
  rcases this with (h1 | h1) | h1
  · exact absurd h1 hm
  · exact Or.inl h1
  · exact Or.inr (by omega)

end QTree

def RunningLeMax (t : QTree) : Prop := ∀ q ∈ t, q.maxApps ≠ 0 → q.running ≤ q.maxApps

namespace QTree

theorem running_le_max_step (t : QTree) (op : CounterOp) (h : RunningLeMax t) : RunningLeMax (cstep t op) := by
  cases op with
  | incRun i app =>
    apply applyChain_forall _ (fun q => q.maxApps ≠ 0 → q.running ≤ q.maxApps) _ _ t h
    intro q hq hm
    simp only at hm ⊢
    by_cases hc : q.running + 1 > q.maxApps
    · have : (decide (q.maxApps > 0) && decide (q.running + 1 > q.maxApps)) = true := by
        simp only [Bool.and_eq_true, decide_eq_true_eq]; omega
      simp only [this, if_true]; omega
    · have : (decide (q.maxApps > 0) && decide (q.running + 1 > q.maxApps)) = false := by
        simp only [Bool.and_eq_false_iff, decide_eq_false_iff_not]; omega
      simp only [this, Bool.false_eq_true, if_false]; omega
  | decRun i =>
    apply applyChain_forall _ (fun q => q.maxApps ≠ 0 → q.running ≤ q.maxApps) _ _ t h
    intro q hq hm
    have := hq hm
    simp only at hm ⊢; omega
  | setAllocating i app =>
    apply applyChain_forall _ (fun q => q.maxApps ≠ 0 → q.running ≤ q.maxApps) _ _ t h
    intro q hq hm
    by_cases hc : q.allocating.contains app = true
    · simp only [hc, if_true] at hm ⊢; exact hq hm
    · simp only [hc] at hm ⊢; exact hq hm

theorem running_le_max_run (t : QTree) (ops : List CounterOp) (h : RunningLeMax t) :
    RunningLeMax (ops.foldl cstep t) := by
  induction ops generalizing t with
  | nil => exact h
  | cons op ops ih => rw [List.foldl_cons]; exact ih _ (running_le_max_step t op h)

theorem incRun_clears_allocating (t : QTree) (i : Nat) (app : String) (hw : TreeWF t) :
    ∀ j ∈ chain t i, ∀ q', (incRunningApps t i app)[j]? = some q' → app ∉ q'.allocating := by
  intro j hj q' hq'
  unfold incRunningApps at hq'
  rw [applyChain_getElem? _ _ _ (chain_nodup hw i), if_pos hj] at hq'
  cases hq : t[j]? with
  | none => rw [hq] at hq'; cases hq'
  | some q =>
    rw [hq] at hq'
    simp only [Option.map_some, Option.some.injEq] at hq'
    subst hq'
    simp only [List.mem_filter]
    intro hc
    simp at hc

/-! ### C02: TryIncAllocatedResource -/

theorem fitIn_mem {r : ORes} {s : Res} {su a : Bool} (h : fitIn r (some s) su a = true)
    {e : String × Int} (he : e ∈ s) :
    (match (orZero r).get? e.1 with
      | none => if su then true else decide (e.2 ≤ 0)
      | some lv => decide (e.2 ≤ (if a then lv else max 0 lv))) = true := by
  unfold fitIn at h
  exact List.all_eq_true.mp h e he

theorem getD_of_mem {r : Res} (hw : wf r = true) {e : String × Int} (he : e ∈ r) : getD r e.1 = e.2 := by
  rw [getD_eq_get?, get?_of_mem hw (k := e.1) (v := e.2) he]; rfl

theorem overMax_congr {q q' : Q} {k : String} (hm : q'.max = q.max) (hp : q'.parent = q.parent)
    (ha : q'.allocated.getD k = q.allocated.getD k) : overMax q' k = overMax q k := by
  unfold overMax; rw [hm, hp, ha]

/-- a queue that accepted the allocation is not over its maximum afterwards on the allocation's types -/
theorem fits_not_overMax {q : Q} {alloc : Res} (ha : wf alloc = true) (hf : fits q alloc = true)
    {e : String × Int} (he : e ∈ alloc) :
    overMax { q with allocated := addX q.allocated alloc } e.1 = false := by
  have hsum : (e.1, e.2 + q.allocated.getD e.1) ∈ addOnlyExistingX alloc q.allocated :=
    List.mem_map_of_mem (f := fun p => (p.1, p.2 + q.allocated.getD p.1)) he
  have hnew : (addX q.allocated alloc).getD e.1 = q.allocated.getD e.1 + e.2 := by
    rw [addX_getD _ _ ha, getD_of_mem ha he]
  unfold fits at hf
  unfold overMax
  simp only [hnew]
  cases hp : q.parent with
  | none =>
    simp only [hp, Option.isNone_none, if_true] at hf
    have := fitIn_mem hf hsum
    simp only [Bool.false_eq_true, if_false] at this
    cases hm : q.max with
    | none =>
      rw [hm] at this
      simp only [orZero, Option.getD_none, get?_nil, decide_eq_true_eq] at this
      simp only [Option.isNone_none, Bool.true_and, decide_eq_false_iff_not]; omega
    | some m =>
      rw [hm] at this
      simp only [orZero, Option.getD_some] at this
      simp only [Option.isNone_none, Bool.true_or, Bool.true_and, decide_eq_false_iff_not]
      cases hg : get? m e.1 with
      | none =>
        have hD : getD m e.1 = 0 := by rw [getD_eq_get?, hg]; rfl
        rw [hg] at this; simp only [decide_eq_true_eq] at this; rw [hD]; omega
      | some lv =>
        have hD : getD m e.1 = lv := by rw [getD_eq_get?, hg]; rfl
        rw [hg] at this; simp only [decide_eq_true_eq] at this; rw [hD]; omega
  | some p =>
    simp only [hp, Option.isNone_some, Bool.false_eq_true, if_false] at hf
    have := fitIn_mem hf hsum
    simp only [if_true, Bool.false_eq_true, if_false] at this
    cases hm : q.max with
    | none => simp
    | some m =>
      rw [hm] at this
      simp only [orZero, Option.getD_some] at this
      simp only [Option.isNone_some, Bool.false_or]
      cases hg : get? m e.1 with
      | none =>
        have hH : has m e.1 = false := by rw [has_eq_get?, hg]; rfl
        rw [hH]; rfl
      | some lv =>
        have hD : getD m e.1 = lv := by rw [getD_eq_get?, hg]; rfl
        rw [hg] at this; simp only [decide_eq_true_eq] at this
        rw [hD, Bool.and_eq_false_iff]; right
        simp only [decide_eq_false_iff_not]; omega

theorem tryInc_some {t t' : QTree} {i : Nat} {alloc : Res} (h : tryInc t i alloc = some t') :
    (∀ j ∈ chain t i, ∃ q, t[j]? = some q ∧ fits q alloc = true) ∧
    t' = applyChain t (chain t i) (fun q => { q with allocated := addX q.allocated alloc }) := by
  unfold tryInc at h
  simp only at h
  split at h
  · rename_i hc
    refine ⟨?_, (Option.some.inj h).symm⟩
    intro j hj
    have := List.all_eq_true.mp hc j hj
    cases hq : t[j]? with
    | none => rw [hq] at this; cases this
    | some q => rw [hq] at this; exact ⟨q, rfl, this⟩
  · cases h

theorem tryInc_none_iff (t : QTree) (i : Nat) (alloc : Res) :
    tryInc t i alloc = none ↔
      ∃ j ∈ chain t i, (match t[j]? with | some q => fits q alloc | none => false) = false := by
  unfold tryInc
  simp only
  split
  · rename_i hc
    constructor
    · intro h; cases h
    · rintro ⟨j, hj, hf⟩
      have := List.all_eq_true.mp hc j hj
      have hb : true = false := this.symm.trans hf
      cases hb
  · rename_i hc
    constructor
    · intro _
      have hc' := (Bool.not_eq_true _).mp hc
      obtain ⟨j, hj, hf⟩ := List.all_eq_false.mp hc'
      exact ⟨j, hj, (Bool.not_eq_true _).mp hf⟩
    · intro _; rfl

/-- what a successful tryInc does to index `j` -/
theorem tryInc_getElem? {t t' : QTree} {i : Nat} {alloc : Res} (hw : TreeWF t)
    (h : tryInc t i alloc = some t') (j : Nat) :
    t'[j]? = if j ∈ chain t i then t[j]?.map (fun q => { q with allocated := addX q.allocated alloc }) else t[j]? := by
  rw [(tryInc_some h).2, applyChain_getElem? _ _ _ (chain_nodup hw i)]

theorem tryInc_within_max (t t' : QTree) (i : Nat) (alloc : Res) (hw : TreeWF t) (ha : wf alloc = true)
    (h : tryInc t i alloc = some t') :
    ∀ j ∈ chain t i, ∀ q', t'[j]? = some q' → ∀ p ∈ alloc, overMax q' p.1 = false := by
  intro j hj q' hq' p hp
  obtain ⟨q, hq, hf⟩ := (tryInc_some h).1 j hj
  rw [tryInc_getElem? hw h, if_pos hj, hq] at hq'
  simp only [Option.map_some, Option.some.injEq] at hq'
  subst hq'
  exact fits_not_overMax ha hf hp

theorem tryInc_frame_aux (t t' : QTree) (i : Nat) (alloc : Res) (hw : TreeWF t) (ha : wf alloc = true)
    (h : tryInc t i alloc = some t') :
    t'.length = t.length ∧
    (∀ j : Nat, j ∉ chain t i → t'[j]? = t[j]?) ∧
    (∀ (j : Nat) (q q' : Q), t[j]? = some q → t'[j]? = some q' →
        q'.max = q.max ∧ q'.parent = q.parent ∧
          ∀ k, alloc.has k = false → q'.allocated.getD k = q.allocated.getD k) := by
  refine ⟨?_, ?_, ?_⟩
  · rw [(tryInc_some h).2]; exact applyChain_length _ _ _
  · intro j hj; rw [tryInc_getElem? hw h, if_neg hj]
  · intro j q q' hq hq'
    rw [tryInc_getElem? hw h, hq] at hq'
    by_cases hj : j ∈ chain t i
    · rw [if_pos hj] at hq'
      simp only [Option.map_some, Option.some.injEq] at hq'
      subst hq'
      refine ⟨rfl, rfl, ?_⟩
      intro k hk
      simp only [addX_getD _ _ ha, getD_of_not_has hk]; omega
    · rw [if_neg hj] at hq'
      cases hq'
      exact ⟨rfl, rfl, fun _ _ => rfl⟩

theorem tryInc_no_new_overmax (t t' : QTree) (i : Nat) (alloc : Res) (hw : TreeWF t) (ha : wf alloc = true)
    (h : tryInc t i alloc = some t') :
    ∀ (j : Nat) (q q' : Q) (k : String), t[j]? = some q → t'[j]? = some q' → overMax q' k = true → overMax q k = true := by
  intro j q q' k hq hq' hover
  obtain ⟨_, _, hfr⟩ := tryInc_frame_aux t t' i alloc hw ha h
  obtain ⟨hm, hp, hal⟩ := hfr j q q' hq hq'
  by_cases hj : j ∈ chain t i
  · cases hk : alloc.has k with
    | false => rw [← overMax_congr hm hp (hal k hk)]; exact hover
    | true =>
      rw [has_iff_mem_keys] at hk
      simp only [keys, List.mem_map] at hk
      obtain ⟨e, he, hek⟩ := hk
      have := tryInc_within_max t t' i alloc hw ha h j hj q' hq' e he
      rw [hek, hover] at this; cases this
  · rw [tryInc_getElem? hw h, if_neg hj, hq] at hq'
    cases hq'; exact hover

/-! ### componentWiseMin, pointwise -/

/-- a fold of `set` steps keeps keys unique -/
theorem foldl_step_wf (step : Res → String × Int → Res) (g : String × Int → Int)
    (hs : ∀ out p, step out p = Res.set out p.1 (g p)) :
    ∀ (r acc : Res), wf acc = true → wf (r.foldl step acc) = true := by
  intro r
  induction r with
  | nil => intro acc h; exact h
  | cons p r ih => intro acc h; rw [List.foldl_cons]; apply ih; rw [hs]; exact set_wf _ h _ _

/-- a fold of `set` steps: if every step on key `k` writes a value satisfying `P`, and either the accumulator
    already holds such a value or some step writes `k`, then the result holds such a value on `k` -/
theorem foldl_step_inv (step : Res → String × Int → Res) (g : String × Int → Int)
    (hs : ∀ out p, step out p = Res.set out p.1 (g p)) (k : String) (P : Int → Prop) :
    ∀ (r acc : Res), (∀ p ∈ r, p.1 = k → P (g p)) →
      ((∃ v, get? acc k = some v ∧ P v) ∨ (∃ p ∈ r, p.1 = k)) →
      ∃ v, get? (r.foldl step acc) k = some v ∧ P v := by
  intro r
  induction r with
  | nil =>
    intro acc _ h
    rcases h with h | ⟨p, hp, _⟩
    · exact h
    · cases hp
  | cons p r ih =>
    intro acc hall h
    rw [List.foldl_cons]
    apply ih
    · intro p' hp'; exact hall p' (List.mem_cons_of_mem _ hp')
    · rw [hs]
      by_cases hk : p.1 = k
      · left
        refine ⟨g p, ?_, hall p List.mem_cons_self hk⟩
        rw [get?_set]; simp [hk]
      · have hk' : ¬ k = p.1 := fun e => hk e.symm
        rcases h with ⟨v, hv, hP⟩ | ⟨p', hp', hpk⟩
        · left; refine ⟨v, ?_, hP⟩; rw [get?_set]; simp [hk', hv]
        · rcases List.mem_cons.mp hp' with e | e
          · subst e; exact absurd hpk hk
          · right; exact ⟨p', e, hpk⟩

/-- the value componentWiseMin writes for an entry `p` of one operand, given the other operand `o` -/
def cwmVal (o : Res) (p : String × Int) : Int :=
  match get? o p.1 with | some v => min p.2 v | none => p.2

theorem cwmVal_le (o : Res) (p : String × Int) : cwmVal o p ≤ p.2 := by
  unfold cwmVal; cases get? o p.1 with
  | none => exact Int.le_refl _
  | some v => exact Int.min_le_left _ _

theorem cwmVal_le_of_get? {o : Res} {p : String × Int} {v : Int} (h : get? o p.1 = some v) : cwmVal o p ≤ v := by
  unfold cwmVal; rw [h]; exact Int.min_le_right _ _

theorem entry_unique {r : Res} (hw : wf r = true) {e p : String × Int} (he : e ∈ r) (hp : p ∈ r)
    (hk : p.1 = e.1) : p.2 = e.2 := by
  have h1 := get?_of_mem hw (k := e.1) (v := e.2) he
  have h2 := get?_of_mem hw (k := p.1) (v := p.2) hp
  rw [hk, h1] at h2
  exact (Option.some.inj h2).symm

/-- componentWiseMin of two defined vectors: keys unique; every entry of a well-formed operand is defined in
    the result with a value that is not larger -/
theorem cwm_spec (l r : Res) :
    ∃ m, componentWiseMin (some l) (some r) = some m ∧ wf m = true ∧
      (wf l = true → ∀ e ∈ l, ∃ v, get? m e.1 = some v ∧ v ≤ e.2) ∧
      (wf r = true → ∀ e ∈ r, ∃ v, get? m e.1 = some v ∧ v ≤ e.2) := by
  simp only [componentWiseMin]
  refine ⟨_, rfl, ?_, ?_, ?_⟩
  · apply foldl_step_wf _ (cwmVal l)
    · intro out p; unfold cwmVal; cases get? l p.1 <;> rfl
    · apply foldl_step_wf _ (cwmVal r)
      · intro out p; unfold cwmVal; cases get? r p.1 <;> rfl
      · rfl
  · intro hl e he
    apply foldl_step_inv _ (cwmVal l) _ e.1 (fun v => v ≤ e.2)
    · intro p hp hk
      exact cwmVal_le_of_get? (hk ▸ get?_of_mem hl he)
    · left
      apply foldl_step_inv _ (cwmVal r) _ e.1 (fun v => v ≤ e.2)
      · intro p hp hk
        have := entry_unique hl he hp hk
        have h2 := cwmVal_le r p
        omega
      · right; exact ⟨e, he, rfl⟩
      · intro out p; unfold cwmVal; cases get? r p.1 <;> rfl
    · intro out p; unfold cwmVal; cases get? l p.1 <;> rfl
  · intro hr e he
    apply foldl_step_inv _ (cwmVal l) _ e.1 (fun v => v ≤ e.2)
    · intro p hp hk
      have := entry_unique hr he hp hk
      have h2 := cwmVal_le l p
      omega
    · right; exact ⟨e, he, rfl⟩
    · intro out p; unfold cwmVal; cases get? l p.1 <;> rfl

theorem has_getD_of_get? {m : Res} {k : String} {b : Int} (h : ∃ v, get? m k = some v ∧ v ≤ b) :
    m.has k = true ∧ m.getD k ≤ b := by
  obtain ⟨v, hv, hle⟩ := h
  rw [has_eq_get?, getD_eq_get?, hv]
  exact ⟨rfl, hle⟩

theorem self_le {m : Res} (hw : wf m = true) : ∀ e ∈ m, m.has e.1 = true ∧ m.getD e.1 ≤ e.2 := by
  intro e he
  exact has_getD_of_get? ⟨e.2, get?_of_mem hw he, Int.le_refl _⟩

theorem has_map_val (g : String × Int → Int) (r : Res) (k : String) :
    has (r.map (fun p => (p.1, g p))) k = has r k := by
  induction r with
  | nil => rfl
  | cons p t ih => obtain ⟨a, b⟩ := p; rw [List.map_cons, has_cons, has_cons, ih]

theorem map_val_wf (g : String × Int → Int) (r : Res) (hw : wf r = true) :
    wf (r.map (fun p => (p.1, g p))) = true := by
  induction r with
  | nil => rfl
  | cons p t ih =>
    obtain ⟨a, b⟩ := p
    rw [wf_cons] at hw
    simp only [Bool.and_eq_true, Bool.not_eq_true'] at hw
    rw [List.map_cons, wf_cons, has_map_val, hw.1, ih hw.2]; rfl

/-! ### C02: effective maximum and headroom along the chain -/

theorem getMax_none {t : QTree} {i : Nat} (h : t[i]? = none) : getMax t i = none := by
  unfold getMax; rw [chain_none h]; rfl

theorem getMax_root {t : QTree} {i : Nat} {q : Q} (h : t[i]? = some q) (hp : q.parent = none) :
    getMax t i = q.max := by
  unfold getMax; rw [chain_root h hp]
  simp only [List.reverse_cons, List.reverse_nil, List.nil_append, List.foldl_cons, List.foldl_nil, h]
  rfl

theorem getMax_cons {t : QTree} (hw : TreeWF t) {i p : Nat} {q : Q} (h : t[i]? = some q)
    (hp : q.parent = some p) : getMax t i = internalGetMax q (getMax t p) := by
  unfold getMax; rw [chain_cons hw h hp, List.reverse_cons, List.foldl_append]
  simp only [List.foldl_cons, List.foldl_nil, h]

theorem getMax_wf {t : QTree} (hw : TreeWF t) (i : Nat) : ∀ m, getMax t i = some m → wf m = true := by
  induction i using Nat.strongRecOn with
  | ind i ih =>
    intro m hm
    rcases chain_cases hw i with ⟨hq, _⟩ | ⟨q, hq, hp, _⟩ | ⟨q, p, hq, hp, hlt, _⟩
    · rw [getMax_none hq] at hm; cases hm
    · rw [getMax_root hq hp] at hm; exact hw.max_wf hq hm
    · rw [getMax_cons hw hq hp] at hm
      unfold internalGetMax at hm
      cases hpm : getMax t p with
      | none => rw [hpm] at hm; exact hw.max_wf hq hm
      | some pm =>
        rw [hpm] at hm
        cases hqm : q.max with
        | none =>
          rw [hqm] at hm
          have e : pm = m := Option.some.inj hm
          rw [← e]; exact ih p hlt pm hpm
        | some mm =>
          rw [hqm] at hm
          obtain ⟨m', hm', hwf, _⟩ := cwm_spec pm mm
          simp only at hm
          rw [hm'] at hm; cases hm; exact hwf

theorem getMax_le_parent (t : QTree) (i p : Nat) (q : Q) (hw : TreeWF t)
    (hq : t[i]? = some q) (hp : q.parent = some p) :
    ∀ pm, getMax t p = some pm →
      ∃ cm, getMax t i = some cm ∧ ∀ e ∈ pm, cm.has e.1 = true ∧ cm.getD e.1 ≤ e.2 := by
  intro pm hpm
  have hwpm := getMax_wf hw p pm hpm
  rw [getMax_cons hw hq hp, hpm]
  unfold internalGetMax
  cases hqm : q.max with
  | none => exact ⟨pm, rfl, self_le hwpm⟩
  | some mm =>
    obtain ⟨m', hm', _, hl, _⟩ := cwm_spec pm mm
    refine ⟨m', hm', ?_⟩
    intro e he
    exact has_getD_of_get? (hl hwpm e he)

theorem headRoom_none {t : QTree} {i : Nat} (h : t[i]? = none) : headRoom t i = none := by
  unfold headRoom; rw [chain_none h]; rfl

theorem headRoom_root {t : QTree} {i : Nat} {q : Q} (h : t[i]? = some q) (hp : q.parent = none) :
    headRoom t i = internalHeadRoom q none := by
  unfold headRoom; rw [chain_root h hp]
  simp only [List.reverse_cons, List.reverse_nil, List.nil_append, List.foldl_cons, List.foldl_nil, h]

theorem headRoom_cons {t : QTree} (hw : TreeWF t) {i p : Nat} {q : Q} (h : t[i]? = some q)
    (hp : q.parent = some p) : headRoom t i = internalHeadRoom q (headRoom t p) := by
  unfold headRoom; rw [chain_cons hw h hp, List.reverse_cons, List.foldl_append]
  simp only [List.foldl_cons, List.foldl_nil, h]

theorem internalHeadRoom_wf {q : Q} (hq : oresWf q.max = true) {ph : ORes} (hph : oresWf ph = true) :
    oresWf (internalHeadRoom q ph) = true := by
  unfold internalHeadRoom
  cases hqm : q.max with
  | none => exact hph
  | some mm =>
    rw [hqm] at hq
    cases ph with
    | none => exact map_val_wf (fun p => p.2 - q.allocated.getD p.1) mm hq
    | some pr =>
      obtain ⟨m', hm', hwf, _⟩ := cwm_spec (subOnlyExistingX mm q.allocated) pr
      simp only
      rw [hm']; exact hwf

theorem headRoom_wf {t : QTree} (hw : TreeWF t) (i : Nat) : oresWf (headRoom t i) = true := by
  induction i using Nat.strongRecOn with
  | ind i ih =>
    rcases chain_cases hw i with ⟨hq, _⟩ | ⟨q, hq, hp, _⟩ | ⟨q, p, hq, hp, hlt, _⟩
    · rw [headRoom_none hq]; rfl
    · rw [headRoom_root hq hp]; exact internalHeadRoom_wf (hw.get hq).2.2.1 rfl
    · rw [headRoom_cons hw hq hp]; exact internalHeadRoom_wf (hw.get hq).2.2.1 (ih p hlt)

theorem headRoom_le_parent (t : QTree) (i p : Nat) (q : Q) (hw : TreeWF t)
    (hq : t[i]? = some q) (hp : q.parent = some p) :
    ∀ ph, headRoom t p = some ph →
      ∃ ch, headRoom t i = some ch ∧ ∀ e ∈ ph, ch.has e.1 = true ∧ ch.getD e.1 ≤ e.2 := by
  intro ph hph
  have hwph : wf ph = true := by
    have := headRoom_wf hw p
    rw [hph] at this; exact this
  rw [headRoom_cons hw hq hp, hph]
  unfold internalHeadRoom
  cases hqm : q.max with
  | none => exact ⟨ph, rfl, self_le hwph⟩
  | some mm =>
    obtain ⟨m', hm', _, _, hr⟩ := cwm_spec (subOnlyExistingX mm q.allocated) ph
    refine ⟨m', hm', ?_⟩
    intro e he
    exact has_getD_of_get? (hr hwph e he)

end QTree
end Yk
