/-
  `releaseApp` (partition.removeAllocation with an empty key: every allocation of the application, and — unless this is
  a TIMEOUT confirmation — every ask) and `appRemove` (partition.removeApplication): the books and the well-formedness
  of the state are preserved when the nodes list every allocation the application holds (`AppOnNodes`).
-/
import YkProofs.Core2Repl
namespace Yk
open Res Core

/-! ### small facts on vectors and sums -/

theorem app_foldl_addX_wf : ∀ (l : List Res) (acc : Res), wf acc = true → wf (l.foldl addX acc) = true := by
  intro l
  induction l with
  | nil => intro acc h; exact h
  | cons a t ih => intro acc h; rw [List.foldl_cons]; exact ih _ (addX_wf _ _ h)

theorem app_sumRes_wf (l : List Res) : wf (sumRes l) = true := app_foldl_addX_wf l [] rfl

/-- the entries of a map are its `getD`s -/
theorem nonNeg_of_getD {r : Res} (hw : wf r = true) (h : ∀ k, 0 ≤ r.getD k) : NonNeg r := by
  intro p hp
  have := h p.1
  rwa [mem_getD hw hp] at this

theorem nil_getD (k : String) : Res.getD [] k = 0 := rfl

/-- `sumRes` of the sizes of the items that satisfy `c` -/
theorem sumRes_items_getD (l : List CItem) (c : CItem → Bool) (hr : ∀ i ∈ l, wf i.res = true) (k : String) :
    (sumRes ((l.filter c).map (·.res))).getD k = itemSum l c k := by
  rw [sumRes_map_getD _ _ (fun i hi => hr i (List.mem_filter.mp hi).1)]; rfl

/-- the bound items are the real allocations and the placeholders -/
theorem itemSum_bound_split (l : List CItem) (k : String) :
    itemSum l (fun i => i.bound) k =
      itemSum l (fun i => i.bound && !i.ph) k + itemSum l (fun i => i.bound && i.ph) k := by
  unfold itemSum
  induction l with
  | nil => simp
  | cons a t ih =>
    rw [sumIf_cons, sumIf_cons, sumIf_cons, ih]
    cases a.bound <;> cases a.ph <;> simp <;> omega

theorem itemSum_nonneg (l : List CItem) (c : CItem → Bool) (hnn : ∀ i ∈ l, NonNeg i.res) (k : String) :
    0 ≤ itemSum l c k :=
  sumIf_nonneg _ _ _ (fun j hj _ => nonNeg_getD (hnn j hj) k)

/-- removing the live application `id` from the list -/
theorem qsum_rm (apps : List CApp) (id : String) (a : CApp)
    (hu : apps.Pairwise (fun a b => a.live = true → b.live = true → a.id ≠ b.id))
    (ha : a ∈ apps) (hl : a.live = true) (hid : a.id = id) (p : String) (g : CApp → Int) :
    qsum (apps.filter (fun x => !(x.live && x.id == id))) p g =
      qsum apps p g - (if under a.queue p = true then g a else 0) := by
  unfold qsum
  rw [sumIf_filter_rm apps (fun x => x.live && x.id == id) _ g a (appIds_atMostOne id hu) ha (by simp [hl, hid])]
  simp [hl]

/-! ### the side condition -/

/-- Every allocation the live application `app` holds is listed by a registered node (non-foreign, same size).  The
    implementation only takes off the queues what it found on the nodes (`onNodes`). -/
structure AppOnNodes (s : Core) (app : String) : Prop where
  onNode : ∀ a, s.findApp app = some a → ∀ i ∈ a.items, i.bound = true →
    ∃ n, s.findNode i.node = some n ∧ ∃ x ∈ n.allocs, x.key = i.key ∧ x.foreign = false ∧ ∀ k, x.res.getD k = i.res.getD k

/-- with it `onNodes` is the list of bound items -/
theorem onNodes_eq (s : Core) (app : String) (a : CApp) (hfind : s.findApp app = some a) (hok : AppOnNodes s app) :
    onNodes s a.items = a.items.filter (fun i => i.bound) := by
  unfold onNodes
  apply List.filter_congr
  intro i hi
  cases hb : i.bound with
  | false => simp
  | true =>
    obtain ⟨n, hn, x, hx, hxk, _⟩ := hok.onNode a hfind i hi hb
    rw [hn]
    simp only [Bool.true_and, Option.any_some]
    exact List.any_eq_true.mpr ⟨x, hx, by simp [hxk]⟩

/-! ### node.RemoveAllocation for a list of allocations -/

/-- the node list after `rmFromNodes` -/
def rmNs (nodes : List CNode) (l : List CItem) : List CNode :=
  l.foldl (fun ns i => updNs ns i.node (nodeRm i.key i.res)) nodes

theorem rmNs_cons (nodes : List CNode) (i : CItem) (t : List CItem) :
    rmNs nodes (i :: t) = rmNs (updNs nodes i.node (nodeRm i.key i.res)) t := rfl

theorem rmFromNodes_lists (l : List CItem) : ∀ c : Core,
    (rmFromNodes c l).apps = c.apps ∧ (rmFromNodes c l).queues = c.queues ∧ (rmFromNodes c l).nodes = rmNs c.nodes l := by
  induction l with
  | nil => intro c; exact ⟨rfl, rfl, rfl⟩
  | cons i t ih =>
    intro c
    have h := ih (updNode c i.node (nodeRm i.key i.res))
    have e : rmFromNodes c (i :: t) = rmFromNodes (updNode c i.node (nodeRm i.key i.res)) t := rfl
    rw [e, rmNs_cons]
    exact h

/-- a registered node with the id the item names lists the item's allocation (non-foreign, same size) -/
def ListedOn (nodes : List CNode) (i : CItem) : Prop :=
  ∃ n ∈ nodes, n.id = i.node ∧ ∃ x ∈ n.allocs, x.key = i.key ∧ x.foreign = false ∧ ∀ k, x.res.getD k = i.res.getD k

/-- removing the allocation of another key keeps an item listed (the two may sit on the same node) -/
theorem listedOn_step (nodes : List CNode) (i j : CItem) (hne : j.key ≠ i.key) (h : ListedOn nodes j) :
    ListedOn (updNs nodes i.node (nodeRm i.key i.res)) j := by
  obtain ⟨n, hn, hid, x, hx, hxk, hxf, hxr⟩ := h
  by_cases hd : (n.id == i.node) = true
  · refine ⟨nodeRm i.key i.res n, List.mem_map.mpr ⟨n, hn, by rw [if_pos hd]⟩, hid, x, ?_, hxk, hxf, hxr⟩
    show x ∈ n.allocs.filter (fun y => y.key != i.key)
    exact List.mem_filter.mpr ⟨hx, by simp [hxk, hne]⟩
  · exact ⟨n, List.mem_map.mpr ⟨n, hn, by rw [if_neg hd]⟩, hid, x, hx, hxk, hxf, hxr⟩

/-- the allocations of a list of items with pairwise distinct keys, each listed by its node, leave the nodes: ids,
    well-formedness and the node ledgers are preserved -/
theorem rmNs_props (l : List CItem) : ∀ (nodes : List CNode),
    l.Pairwise (fun i j => i.key ≠ j.key) →
    nodes.Pairwise (fun a b => a.id ≠ b.id) → (∀ n ∈ nodes, NWF n) → (∀ n ∈ nodes, NodeBooks n) →
    (∀ i ∈ l, wf i.res = true) → (∀ i ∈ l, ListedOn nodes i) →
    (rmNs nodes l).Pairwise (fun a b => a.id ≠ b.id) ∧ (∀ n ∈ rmNs nodes l, NWF n) ∧ (∀ n ∈ rmNs nodes l, NodeBooks n) := by
  induction l with
  | nil => intro nodes _ hu hW hB _ _; exact ⟨hu, hW, hB⟩
  | cons i t ih =>
    intro nodes hk hu hW hB hr hon
    have hp := List.pairwise_cons.mp hk
    obtain ⟨h4, h5⟩ := wf_updNs nodes i.node (nodeRm i.key i.res) hu hW (nodeRm_id i.key i.res)
      (fun n hn _ => nodeRm_wf i.key i.res n (hW n hn))
    have h6 : ∀ n ∈ updNs nodes i.node (nodeRm i.key i.res), NodeBooks n := by
      apply books_upd_nodes _ _ _ hB
      intro m hm hmid hmb
      obtain ⟨n, hn, hnid, x, hx, hxk, hxf, hxr⟩ := hon i List.mem_cons_self
      have : m = n := (atMostOne_of_pairwise_ne nodes (·.id) i.node hu).eq hm hn (by simp [hmid]) (by simp [hnid])
      subst this
      exact nodeRm_books i.key i.res m (hW m hm) hmb (hr i List.mem_cons_self) x hx hxk hxf hxr
    rw [rmNs_cons]
    exact ih _ hp.2 h4 h5 h6 (fun j hj => hr j (List.mem_cons_of_mem _ hj))
      (fun j hj => listedOn_step nodes i j (fun e => hp.1 j hj e.symm) (hon j (List.mem_cons_of_mem _ hj)))

/-- well-formedness alone needs no side condition -/
theorem rmNs_wf (l : List CItem) : ∀ (nodes : List CNode),
    nodes.Pairwise (fun a b => a.id ≠ b.id) → (∀ n ∈ nodes, NWF n) →
    (rmNs nodes l).Pairwise (fun a b => a.id ≠ b.id) ∧ (∀ n ∈ rmNs nodes l, NWF n) := by
  induction l with
  | nil => intro nodes hu hW; exact ⟨hu, hW⟩
  | cons i t ih =>
    intro nodes hu hW
    obtain ⟨h4, h5⟩ := wf_updNs nodes i.node (nodeRm i.key i.res) hu hW (nodeRm_id i.key i.res)
      (fun n hn _ => nodeRm_wf i.key i.res n (hW n hn))
    rw [rmNs_cons]
    exact ih _ h4 h5

/-! ### the application after `relAllApp` / `dropAsksApp` -/

/-- the item list after Application.RemoveAllAllocations -/
def unboundAll (l : List CItem) : List CItem := (l.map (fun x => { x with bound := false })).filter (fun x => x.inReq)

theorem relAllApp_items (a : CApp) : (relAllApp a).items = unboundAll a.items := by unfold relAllApp unboundAll; simp
theorem relAllApp_queue (a : CApp) : (relAllApp a).queue = a.queue := by unfold relAllApp; simp
theorem relAllApp_id (a : CApp) : (relAllApp a).id = a.id := by unfold relAllApp; simp
theorem relAllApp_pending (a : CApp) : (relAllApp a).pending = a.pending := by unfold relAllApp; simp
theorem relAllApp_allocated (a : CApp) : (relAllApp a).allocated = [] := by unfold relAllApp; simp
theorem relAllApp_allocatedPh (a : CApp) : (relAllApp a).allocatedPh = [] := by unfold relAllApp; simp

theorem mem_unboundAll {l : List CItem} {y : CItem} (hy : y ∈ unboundAll l) :
    y.bound = false ∧ ∃ x ∈ l, y.key = x.key ∧ y.res = x.res ∧ y.allocated = x.allocated ∧ y.inReq = x.inReq := by
  obtain ⟨hm, _⟩ := List.mem_filter.mp hy
  obtain ⟨x, hx, rfl⟩ := List.mem_map.mp hm
  exact ⟨rfl, x, hx, rfl, rfl, rfl, rfl⟩

theorem pairwise_unboundAll (l : List CItem) (h : l.Pairwise (fun i j => i.key ≠ j.key)) :
    (unboundAll l).Pairwise (fun i j => i.key ≠ j.key) := by
  unfold unboundAll
  apply List.Pairwise.filter
  rw [List.pairwise_map]
  exact h

theorem unboundAll_filter_bound (l : List CItem) : (unboundAll l).filter (fun x => x.bound) = [] := by
  rw [List.filter_eq_nil_iff]
  intro x hx
  rw [(mem_unboundAll hx).1]; simp

/-- the three sums after every allocation was unbound -/
theorem itemSum_unboundAll (l : List CItem) (k : String) :
    itemSum (unboundAll l) (fun i => i.bound && !i.ph) k = 0 ∧
    itemSum (unboundAll l) (fun i => i.bound && i.ph) k = 0 ∧
    itemSum (unboundAll l) (fun i => i.inReq && !i.allocated) k = itemSum l (fun i => i.inReq && !i.allocated) k := by
  refine ⟨?_, ?_, ?_⟩
  · exact sumIf_none _ _ _ (fun x hx => by rw [(mem_unboundAll hx).1]; rfl)
  · exact sumIf_none _ _ _ (fun x hx => by rw [(mem_unboundAll hx).1]; rfl)
  · unfold unboundAll
    rw [itemSum_filter_irrel _ _ _ _ (fun x _ hd => by
      have hd' : x.inReq = false := hd
      simp [hd'])]
    apply itemSum_map_irrel
    intro x _; exact ⟨rfl, rfl⟩

theorem dropAsksApp_queue (a : CApp) : (dropAsksApp a).queue = a.queue := by unfold dropAsksApp; split <;> simp
theorem dropAsksApp_id (a : CApp) : (dropAsksApp a).id = a.id := by unfold dropAsksApp; split <;> simp
theorem dropAsksApp_live (a : CApp) : (dropAsksApp a).live = a.live := by unfold dropAsksApp; split <;> simp
theorem dropAsksApp_allocated (a : CApp) : (dropAsksApp a).allocated = a.allocated := by unfold dropAsksApp; split <;> simp
theorem dropAsksApp_allocatedPh (a : CApp) : (dropAsksApp a).allocatedPh = a.allocatedPh := by
  unfold dropAsksApp; split <;> simp
theorem dropAsksApp_pending (a : CApp) :
    (dropAsksApp a).pending = if a.items.any (fun x => x.inReq) = true then [] else a.pending := by
  unfold dropAsksApp
  cases h : a.items.any (fun x => x.inReq) <;> simp
theorem dropAsksApp_items (a : CApp) :
    (dropAsksApp a).items = if a.items.any (fun x => x.inReq) = true
      then (a.items.filter (fun x => x.bound)).map (fun x => { x with inReq := false }) else a.items := by
  unfold dropAsksApp
  cases h : a.items.any (fun x => x.inReq) <;> simp

/-- the asks are dropped as well: not a TIMEOUT confirmation, the application is still there and has requests -/
def relAsks (tt : TermType) (a : CApp) : Bool :=
  tt != .timeout && (relAllApp a).live && (relAllApp a).items.any (·.inReq)

/-- the application after `releaseApp` -/
def relAll2 (tt : TermType) (a : CApp) : CApp :=
  let a2 := if relAsks tt a then dropAsksApp (relAllApp a) else relAllApp a
  { a2 with live := (relAllApp a).live && !(terminated a2.state) }

theorem relAsks_any {tt : TermType} {a : CApp} (h : relAsks tt a = true) :
    (relAllApp a).items.any (fun x => x.inReq) = true := by
  unfold relAsks at h
  simp only [Bool.and_eq_true] at h
  exact h.2

theorem relAll2_queue (tt : TermType) (a : CApp) : (relAll2 tt a).queue = a.queue := by
  unfold relAll2; dsimp only; split
  · rw [dropAsksApp_queue, relAllApp_queue]
  · rw [relAllApp_queue]
theorem relAll2_id (tt : TermType) (a : CApp) : (relAll2 tt a).id = a.id := by
  unfold relAll2; dsimp only; split
  · rw [dropAsksApp_id, relAllApp_id]
  · rw [relAllApp_id]
theorem relAll2_allocated (tt : TermType) (a : CApp) : (relAll2 tt a).allocated = [] := by
  unfold relAll2; dsimp only; split
  · rw [dropAsksApp_allocated, relAllApp_allocated]
  · rw [relAllApp_allocated]
theorem relAll2_allocatedPh (tt : TermType) (a : CApp) : (relAll2 tt a).allocatedPh = [] := by
  unfold relAll2; dsimp only; split
  · rw [dropAsksApp_allocatedPh, relAllApp_allocatedPh]
  · rw [relAllApp_allocatedPh]
theorem relAll2_pending (tt : TermType) (a : CApp) :
    (relAll2 tt a).pending = if relAsks tt a = true then [] else a.pending := by
  unfold relAll2; dsimp only; split
  · rename_i h; rw [dropAsksApp_pending, relAsks_any h]; rfl
  · rw [relAllApp_pending]
theorem relAll2_items (tt : TermType) (a : CApp) :
    (relAll2 tt a).items = if relAsks tt a = true then [] else unboundAll a.items := by
  unfold relAll2; dsimp only; split
  · rename_i h
    rw [dropAsksApp_items, relAsks_any h, relAllApp_items, if_pos rfl, unboundAll_filter_bound]; rfl
  · rw [relAllApp_items]

theorem appBooks_relAll2 (tt : TermType) (a : CApp) (hba : AppBooks a) : AppBooks (relAll2 tt a) := by
  refine ⟨?_, ?_, ?_⟩ <;> intro k
  · rw [relAll2_allocated, relAll2_items, nil_getD]
    split
    · rfl
    · exact (itemSum_unboundAll a.items k).1.symm
  · rw [relAll2_allocatedPh, relAll2_items, nil_getD]
    split
    · rfl
    · exact (itemSum_unboundAll a.items k).2.1.symm
  · rw [relAll2_pending, relAll2_items]
    split
    · rfl
    · rw [(itemSum_unboundAll a.items k).2.2]; exact hba.pending k

theorem appWF_relAll2 (tt : TermType) (a : CApp) (hwa : AppWF a) : AppWF (relAll2 tt a) := by
  obtain ⟨hwp, _, _⟩ := hwa.appRes
  refine ⟨?_, ?_, ?_, ?_⟩
  · rw [relAll2_items]; split
    · exact List.Pairwise.nil
    · exact pairwise_unboundAll _ hwa.itemKeys
  · rw [relAll2_pending, relAll2_allocated, relAll2_allocatedPh]
    refine ⟨?_, rfl, rfl⟩
    split
    · rfl
    · exact hwp
  · intro y hy
    rw [relAll2_items] at hy
    split at hy
    · cases hy
    · obtain ⟨_, x, hx, _, hr, _⟩ := mem_unboundAll hy
      rw [hr]; exact hwa.itemRes x hx
  · intro y hy hb
    rw [relAll2_items] at hy
    split at hy
    · cases hy
    · rw [(mem_unboundAll hy).1] at hb; cases hb

/-! ### the queue chain after `releaseApp` -/

/-- the chain queue after the allocations left it -/
def relAllQ0 (total pre : Res) (q : CQueue) : CQueue :=
  let q1 := if strictlyGreaterThanZero (some total) then qDecAlloc total q else q
  if strictlyGreaterThanZero (some pre) then qDecPreempting pre q1 else q1

/-- … and the asks -/
def relAllQ1 (total pre : Res) (a1 : CApp) (asks : Bool) (q : CQueue) : CQueue :=
  if asks then qDecPend a1.pending (relAllQ0 total pre q) else relAllQ0 total pre q

theorem relAllQ_eq (total pre : Res) (a1 a2 : CApp) (asks : Bool) (q : CQueue) :
    relAllQ total pre a1 a2 asks q =
      if a2.live = true then relAllQ1 total pre a1 asks q else qLeave a2 (relAllQ1 total pre a1 asks q) := rfl

theorem relAllQ0_path (total pre : Res) (q : CQueue) : (relAllQ0 total pre q).path = q.path := by
  unfold relAllQ0 qDecPreempting qDecAlloc
  cases strictlyGreaterThanZero (some total) <;> cases strictlyGreaterThanZero (some pre) <;> rfl

theorem relAllQ0_pending (total pre : Res) (q : CQueue) : (relAllQ0 total pre q).pending = q.pending := by
  unfold relAllQ0 qDecPreempting qDecAlloc
  cases strictlyGreaterThanZero (some total) <;> cases strictlyGreaterThanZero (some pre) <;> rfl

theorem relAllQ0_wf (total pre : Res) (q : CQueue) (hq : QWF q) : QWF (relAllQ0 total pre q) := by
  unfold relAllQ0
  dsimp only
  split <;> split <;>
    first
    | exact hq
    | exact qDecAlloc_wf _ _ hq
    | exact qDecPreempting_wf _ _ (qDecAlloc_wf _ _ hq)
    | exact qDecPreempting_wf _ _ hq

/-- `total` is what the queue loses, also when the implementation skips a total that is not strictly positive -/
theorem relAllQ0_allocated (total pre : Res) (q : CQueue) (hq : QWF q) (ht : wf total = true)
    (hnn : ∀ k, 0 ≤ total.getD k) (k : String) :
    (relAllQ0 total pre q).allocated.getD k = q.allocated.getD k - total.getD k := by
  unfold relAllQ0
  cases hz : strictlyGreaterThanZero (some total) with
  | true =>
    simp only [if_true]
    split
    · exact qDecAlloc_allocated _ _ hq ht k
    · exact qDecAlloc_allocated _ _ hq ht k
  | false =>
    simp only [Bool.false_eq_true, if_false]
    rw [zero_of_not_sgtz (nonNeg_of_getD ht hnn) hz k]
    split
    · show q.allocated.getD k = _; omega
    · omega

theorem relAllQ1_path (total pre : Res) (a1 : CApp) (asks : Bool) (q : CQueue) :
    (relAllQ1 total pre a1 asks q).path = q.path := by
  unfold relAllQ1
  cases asks
  · exact relAllQ0_path total pre q
  · exact relAllQ0_path total pre q

theorem relAllQ1_wf (total pre : Res) (a1 : CApp) (asks : Bool) (q : CQueue) (hq : QWF q) :
    QWF (relAllQ1 total pre a1 asks q) := by
  unfold relAllQ1
  cases asks
  · exact relAllQ0_wf total pre q hq
  · exact qDecPend_wf _ _ (relAllQ0_wf total pre q hq)

theorem relAllQ1_allocated (total pre : Res) (a1 : CApp) (asks : Bool) (q : CQueue) :
    (relAllQ1 total pre a1 asks q).allocated = (relAllQ0 total pre q).allocated := by
  unfold relAllQ1
  cases asks <;> rfl

theorem relAllQ1_pending (total pre : Res) (a1 : CApp) (asks : Bool) (q : CQueue) (hq : QWF q)
    (h1p : wf a1.pending = true) (hle : ∀ k, 0 ≤ a1.pending.getD k ∧ a1.pending.getD k ≤ q.pending.getD k) (k : String) :
    (relAllQ1 total pre a1 asks q).pending.getD k = q.pending.getD k - (if asks = true then a1.pending.getD k else 0) := by
  unfold relAllQ1
  cases asks with
  | false => simp only [Bool.false_eq_true, if_false]; rw [relAllQ0_pending]; omega
  | true =>
    simp only [if_true]
    rw [qDecPend_pending _ _ (relAllQ0_wf total pre q hq) h1p (by rw [relAllQ0_pending]; exact hle) k, relAllQ0_pending]

theorem relAllQ_path (total pre : Res) (a1 a2 : CApp) (asks : Bool) (q : CQueue) :
    (relAllQ total pre a1 a2 asks q).path = q.path := by
  rw [relAllQ_eq]
  split
  · exact relAllQ1_path total pre a1 asks q
  · exact relAllQ1_path total pre a1 asks q

theorem relAllQ_wf (total pre : Res) (a1 a2 : CApp) (asks : Bool) (q : CQueue) (hq : QWF q) :
    QWF (relAllQ total pre a1 a2 asks q) := by
  rw [relAllQ_eq]
  split
  · exact relAllQ1_wf total pre a1 asks q hq
  · exact qLeave_wf _ _ (relAllQ1_wf total pre a1 asks q hq)

/-- the chain queue after `releaseApp`, pointwise -/
theorem relAllQ_getD (total pre : Res) (a1 a2 : CApp) (asks : Bool) (q : CQueue) (hq : QWF q)
    (ht : wf total = true) (hnn : ∀ k, 0 ≤ total.getD k)
    (h1p : wf a1.pending = true) (h2p : wf a2.pending = true) (h2a : wf a2.allocated = true) (h2h : wf a2.allocatedPh = true)
    (hle1 : ∀ k, 0 ≤ a1.pending.getD k ∧ a1.pending.getD k ≤ q.pending.getD k)
    (hle2 : ∀ k, 0 ≤ a2.pending.getD k ∧
      a2.pending.getD k ≤ q.pending.getD k - (if asks = true then a1.pending.getD k else 0)) (k : String) :
    (relAllQ total pre a1 a2 asks q).allocated.getD k =
      q.allocated.getD k - total.getD k - (if a2.live = true then 0 else a2.allocated.getD k + a2.allocatedPh.getD k) ∧
    (relAllQ total pre a1 a2 asks q).pending.getD k =
      q.pending.getD k - (if asks = true then a1.pending.getD k else 0) - (if a2.live = true then 0 else a2.pending.getD k) := by
  rw [relAllQ_eq]
  have h1 := relAllQ1_wf total pre a1 asks q hq
  have ea : (relAllQ1 total pre a1 asks q).allocated.getD k = q.allocated.getD k - total.getD k := by
    rw [relAllQ1_allocated]; exact relAllQ0_allocated total pre q hq ht hnn k
  have ep := fun k' => relAllQ1_pending total pre a1 asks q hq h1p hle1 k'
  cases hlv : a2.live with
  | true =>
    simp only [if_true]
    rw [ea, ep k]; constructor <;> omega
  | false =>
    simp only [Bool.false_eq_true, if_false]
    rw [qLeave_allocated _ _ h1 h2a h2h k, ea, qLeave_pending _ _ h1 h2p (fun k' => by rw [ep k']; exact hle2 k') k, ep k]
    constructor <;> omega

/-! ### `releaseApp` -/

/-- the state after the application, the nodes and the queue chain were updated, before the reservation bookkeeping
    and the counters -/
def releaseAppCore (s : Core) (tt : TermType) (app : String) (a : CApp) : Core :=
  let there := onNodes s a.items
  let total := sumRes (there.map (·.res))
  let preempting := sumRes ((there.filter (·.preempted)).map (·.res))
  let sA := updApp s app (fun _ => relAll2 tt a)
  let sN := rmFromNodes sA there
  updQueues sN (pathChain s a.queue) (relAllQ total preempting (relAllApp a) (relAll2 tt a) (relAsks tt a))

theorem releaseApp_lists (s : Core) (tt : TermType) (app : String) (a : CApp) (hfind : s.findApp app = some a) :
    (s.releaseApp tt app).apps =
      (if relAsks tt a = true then unreserveApp (releaseAppCore s tt app a) a false else releaseAppCore s tt app a).apps ∧
    (s.releaseApp tt app).queues =
      (if relAsks tt a = true then unreserveApp (releaseAppCore s tt app a) a false else releaseAppCore s tt app a).queues ∧
    (s.releaseApp tt app).nodes =
      (if relAsks tt a = true then unreserveApp (releaseAppCore s tt app a) a false else releaseAppCore s tt app a).nodes := by
  unfold releaseApp
  simp only [hfind]
  exact ⟨rfl, rfl, rfl⟩

theorem releaseAppCore_lists (s : Core) (tt : TermType) (app : String) (a : CApp) :
    (releaseAppCore s tt app a).apps = updApps s.apps app (fun _ => relAll2 tt a) ∧
    (releaseAppCore s tt app a).nodes = rmNs s.nodes (onNodes s a.items) ∧
    (releaseAppCore s tt app a).queues = updQs s.queues (pathChain s a.queue)
      (relAllQ (sumRes ((onNodes s a.items).map (·.res))) (sumRes (((onNodes s a.items).filter (·.preempted)).map (·.res)))
        (relAllApp a) (relAll2 tt a) (relAsks tt a)) := by
  obtain ⟨h1, h2, h3⟩ := rmFromNodes_lists (onNodes s a.items) (updApp s app (fun _ => relAll2 tt a))
  unfold releaseAppCore
  refine ⟨?_, ?_, ?_⟩
  · show (rmFromNodes _ _).apps = _
    rw [h1]; rfl
  · show (rmFromNodes _ _).nodes = _
    rw [h3]; rfl
  · show updQs (rmFromNodes _ _).queues _ _ = _
    rw [h2]; rfl

/-- the bound items with `AppOnNodes`: listed on the nodes of the state -/
theorem listed_of_onNodes (s : Core) (app : String) (a : CApp) (hfind : s.findApp app = some a) (hok : AppOnNodes s app) :
    ∀ i ∈ onNodes s a.items, ListedOn s.nodes i := by
  intro i hi
  rw [onNodes_eq s app a hfind hok] at hi
  obtain ⟨him, hbd⟩ := List.mem_filter.mp hi
  obtain ⟨n, hn, x, hx, h⟩ := hok.onNode a hfind i him hbd
  obtain ⟨hnm, hnid⟩ := findNode_some hn
  exact ⟨n, hnm, hnid, x, hx, h⟩

/-- the nodes after the allocations of the application left them -/
theorem rmNs_app (s : Core) (app : String) (a : CApp) (hw : CoreWF s) (hb : Books s) (hfind : s.findApp app = some a)
    (hok : AppOnNodes s app) :
    (rmNs s.nodes (onNodes s a.items)).Pairwise (fun a b => a.id ≠ b.id) ∧
    (∀ n ∈ rmNs s.nodes (onNodes s a.items), NWF n) ∧ (∀ n ∈ rmNs s.nodes (onNodes s a.items), NodeBooks n) := by
  obtain ⟨ham, hl, _⟩ := findApp_some hfind
  have hwa := hw.app ham hl
  refine rmNs_props (onNodes s a.items) s.nodes ?_ hw.nodeIds (fun n hn => hw.node hn) hb.nodes
    (fun i hi => (hwa.itemRes i (List.mem_filter.mp hi).1).1) (listed_of_onNodes s app a hfind hok)
  unfold onNodes
  exact hwa.itemKeys.filter _

/-- what the queue chain loses is what the application held -/
theorem total_getD (s : Core) (app : String) (a : CApp) (hw : CoreWF s) (hb : Books s) (hfind : s.findApp app = some a)
    (hok : AppOnNodes s app) (k : String) :
    (sumRes ((onNodes s a.items).map (·.res))).getD k = a.allocated.getD k + a.allocatedPh.getD k := by
  obtain ⟨ham, hl, _⟩ := findApp_some hfind
  have hwa := hw.app ham hl
  have hba := hb.apps a ham hl
  rw [onNodes_eq s app a hfind hok, sumRes_items_getD _ _ (fun i hi => (hwa.itemRes i hi).1), itemSum_bound_split,
    hba.allocated k, hba.allocatedPh k]

theorem releaseAppCore_props (s : Core) (tt : TermType) (app : String) (a : CApp) (hw : CoreWF s) (hb : Books s)
    (hfind : s.findApp app = some a) (hok : AppOnNodes s app) :
    Books (releaseAppCore s tt app a) ∧ CoreWF (releaseAppCore s tt app a) := by
  obtain ⟨ham, hl, hid⟩ := findApp_some hfind
  have hwa := hw.app ham hl
  obtain ⟨hwp, hwal, hwh⟩ := hwa.appRes
  have hba := hb.apps a ham hl
  obtain ⟨hta, htn, htq⟩ := releaseAppCore_lists s tt app a
  obtain ⟨n1, n2, n3⟩ := rmNs_app s app a hw hb hfind hok
  have htot := total_getD s app a hw hb hfind hok
  have hwa2 := appWF_relAll2 tt a hwa
  obtain ⟨hwp2, hwal2, hwh2⟩ := hwa2.appRes
  constructor
  · refine books_upd s _ app a _ (pathChain s a.queue) _ hta htq (by rw [htn]; exact n3) hw.appIds ham hl hid hb.apps hb.queues
      (relAll2_queue tt a) (fun _ => appBooks_relAll2 tt a hba) (chain_iff s a.queue) (relAllQ_path _ _ _ _ _) ?_
    intro q hq hun k
    have hge := fun k' => app_pending_ge s.apps (fun y hy hyl j hj => (hw.itemRes y hy hyl j hj).2) hb.apps a ham hl q
      (hb.queues q hq) hun k'
    obtain ⟨e1, e2⟩ := relAllQ_getD (sumRes ((onNodes s a.items).map (·.res)))
      (sumRes (((onNodes s a.items).filter (·.preempted)).map (·.res))) (relAllApp a) (relAll2 tt a) (relAsks tt a) q
      (hw.queue hq) (app_sumRes_wf _)
      (fun k' => by
        rw [htot k', hba.allocated k', hba.allocatedPh k']
        have h1 := itemSum_nonneg a.items (fun i => i.bound && !i.ph) (fun i hi => (hwa.itemRes i hi).2) k'
        have h2 := itemSum_nonneg a.items (fun i => i.bound && i.ph) (fun i hi => (hwa.itemRes i hi).2) k'
        omega)
      (by rw [relAllApp_pending]; exact hwp) hwp2 hwal2 hwh2
      (by rw [relAllApp_pending]; exact hge)
      (fun k' => by
        rw [relAll2_pending, relAllApp_pending]
        have := hge k'
        cases relAsks tt a
        · simp only [Bool.false_eq_true, if_false]; omega
        · simp only [if_true, nil_getD]; omega) k
    rw [e1, e2, relAll2_allocated, relAll2_allocatedPh, relAll2_pending, relAllApp_pending, htot k]
    cases relAsks tt a <;> cases (relAll2 tt a).live <;>
      simp only [Bool.false_eq_true, if_false, if_true, nil_getD] <;> constructor <;> omega
  · obtain ⟨w1, w2⟩ := wf_updApps s.apps app (fun _ => relAll2 tt a) a hw.appIds ham hl hid (fun x hx hxl => hw.app hx hxl)
      (const_id (by rw [relAll2_id, hid])) (fun _ => hwa2)
    have w3 := wf_updQs s.queues (pathChain s a.queue)
      (relAllQ (sumRes ((onNodes s a.items).map (·.res))) (sumRes (((onNodes s a.items).filter (·.preempted)).map (·.res)))
        (relAllApp a) (relAll2 tt a) (relAsks tt a))
      (fun q hq => hw.queue hq) (fun q hq _ => relAllQ_wf _ _ _ _ _ q (hw.queue hq))
    exact CoreWF.of_parts (by rw [hta]; exact w1) (by rw [htn]; exact n1) (by rw [hta]; exact w2) (by rw [htq]; exact w3)
      (by rw [htn]; exact n2)

/-- partition.removeAllocation(app, "", tt): the books and the well-formedness of the state are preserved -/
theorem releaseApp_props (s : Core) (tt : TermType) (app : String) (hw : CoreWF s) (hb : Books s) (hok : AppOnNodes s app) :
    Books (s.releaseApp tt app) ∧ CoreWF (s.releaseApp tt app) := by
  cases hfind : s.findApp app with
  | none => unfold releaseApp; simp only [hfind]; exact ⟨hb, hw⟩
  | some a =>
    obtain ⟨hb1, hw1⟩ := releaseAppCore_props s tt app a hw hb hfind hok
    obtain ⟨e1, e2, e3⟩ := releaseApp_lists s tt app a hfind
    cases hA : relAsks tt a with
    | false =>
      rw [hA] at e1 e2 e3
      simp only [Bool.false_eq_true, if_false] at e1 e2 e3
      exact ⟨Books.of_lists e1 e2 e3 hb1, CoreWF.of_lists e1 e2 e3 hw1⟩
    | true =>
      rw [hA] at e1 e2 e3
      simp only [if_true] at e1 e2 e3
      obtain ⟨hb2, hw2⟩ := unreserveApp_props _ a false hw1 hb1
      exact ⟨Books.of_lists e1 e2 e3 hb2, CoreWF.of_lists e1 e2 e3 hw2⟩

theorem books_releaseApp (s : Core) (tt : TermType) (app : String) (hw : CoreWF s) (hb : Books s) (hok : AppOnNodes s app) :
    Books (s.releaseApp tt app) := (releaseApp_props s tt app hw hb hok).1

theorem wf_releaseApp (s : Core) (tt : TermType) (app : String) (hw : CoreWF s) (hb : Books s) (hok : AppOnNodes s app) :
    CoreWF (s.releaseApp tt app) := (releaseApp_props s tt app hw hb hok).2

/-! ### `appRemove` -/

/-- the chain queue after the asks of the application were dropped -/
def rmQ0 (a : CApp) (q : CQueue) : CQueue := if a.items.any (·.inReq) then qDecPend a.pending q else q

/-- … and Queue.RemoveApplication -/
def rmQ1 (a : CApp) (q : CQueue) : CQueue := qLeave (dropAsksApp a) (rmQ0 a q)

/-- the chain queue after `appRemove` -/
def rmQ (a : CApp) (q : CQueue) : CQueue :=
  let q1 := qLeave (dropAsksApp a) (if a.items.any (·.inReq) then qDecPend a.pending q else q)
  let pre := preemptedSum a
  if isZero (some pre) then q1 else qDecPreempting pre q1

theorem rmQ_eq (a : CApp) (q : CQueue) :
    rmQ a q = if isZero (some (preemptedSum a)) = true then rmQ1 a q else qDecPreempting (preemptedSum a) (rmQ1 a q) := rfl

theorem rmQ0_wf (a : CApp) (q : CQueue) (hq : QWF q) : QWF (rmQ0 a q) := by
  unfold rmQ0
  split
  · exact qDecPend_wf _ _ hq
  · exact hq

theorem rmQ0_path (a : CApp) (q : CQueue) : (rmQ0 a q).path = q.path := by
  unfold rmQ0; split <;> rfl

theorem rmQ0_allocated (a : CApp) (q : CQueue) : (rmQ0 a q).allocated = q.allocated := by
  unfold rmQ0; split <;> rfl

theorem rmQ0_pending (a : CApp) (q : CQueue) (hq : QWF q) (hp : wf a.pending = true)
    (hle : ∀ k, 0 ≤ a.pending.getD k ∧ a.pending.getD k ≤ q.pending.getD k) (k : String) :
    (rmQ0 a q).pending.getD k =
      q.pending.getD k - (if a.items.any (fun x => x.inReq) = true then a.pending.getD k else 0) := by
  unfold rmQ0
  split
  · exact qDecPend_pending _ _ hq hp hle k
  · omega

theorem rmQ_path (a : CApp) (q : CQueue) : (rmQ a q).path = q.path := by
  rw [rmQ_eq]
  split
  · exact rmQ0_path a q
  · exact rmQ0_path a q

theorem rmQ_wf (a : CApp) (q : CQueue) (hq : QWF q) : QWF (rmQ a q) := by
  rw [rmQ_eq]
  split
  · exact qLeave_wf _ _ (rmQ0_wf a q hq)
  · exact qDecPreempting_wf _ _ (qLeave_wf _ _ (rmQ0_wf a q hq))

theorem rmQ1_getD (a : CApp) (q : CQueue) (hq : QWF q) (hwa : AppWF a)
    (hle : ∀ k, 0 ≤ a.pending.getD k ∧ a.pending.getD k ≤ q.pending.getD k) (k : String) :
    (rmQ1 a q).allocated.getD k = q.allocated.getD k - a.allocated.getD k - a.allocatedPh.getD k ∧
    (rmQ1 a q).pending.getD k = q.pending.getD k - a.pending.getD k := by
  obtain ⟨hwp, hwal, hwh⟩ := hwa.appRes
  have h0 := rmQ0_wf a q hq
  have ep := fun k' => rmQ0_pending a q hq hwp hle k'
  have hp1 : wf (dropAsksApp a).pending = true := by
    rw [dropAsksApp_pending]; split
    · rfl
    · exact hwp
  unfold rmQ1
  rw [qLeave_allocated _ _ h0 (by rw [dropAsksApp_allocated]; exact hwal) (by rw [dropAsksApp_allocatedPh]; exact hwh) k,
    rmQ0_allocated, dropAsksApp_allocated, dropAsksApp_allocatedPh,
    qLeave_pending _ _ h0 hp1 (fun k' => by
      rw [ep k', dropAsksApp_pending]
      have := hle k'
      cases a.items.any (fun x => x.inReq)
      · simp only [Bool.false_eq_true, if_false]; omega
      · simp only [if_true, nil_getD]; omega) k,
    ep k, dropAsksApp_pending]
  refine ⟨rfl, ?_⟩
  cases a.items.any (fun x => x.inReq)
  · simp only [Bool.false_eq_true, if_false]; omega
  · simp only [if_true, nil_getD]; omega

theorem rmQ_getD (a : CApp) (q : CQueue) (hq : QWF q) (hwa : AppWF a)
    (hle : ∀ k, 0 ≤ a.pending.getD k ∧ a.pending.getD k ≤ q.pending.getD k) (k : String) :
    (rmQ a q).allocated.getD k = q.allocated.getD k - a.allocated.getD k - a.allocatedPh.getD k ∧
    (rmQ a q).pending.getD k = q.pending.getD k - a.pending.getD k := by
  rw [rmQ_eq]
  split
  · exact rmQ1_getD a q hq hwa hle k
  · exact rmQ1_getD a q hq hwa hle k

/-- the state after the application left the partition, its allocations the nodes and the queue chain forgot it,
    before the reservation bookkeeping and the counter -/
def appRemoveCore (s : Core) (app : String) (a : CApp) : Core :=
  let sA := { s with apps := s.apps.filter (fun x => !(x.live && x.id == app)) }
  let sN := rmFromNodes sA (onNodes s a.items)
  updQueues sN (pathChain s a.queue) (rmQ a)

theorem appRemove_lists (s : Core) (app : String) (a : CApp) (hfind : s.findApp app = some a) :
    (s.appRemove app).apps = (unreserveApp (appRemoveCore s app a) a false).apps ∧
    (s.appRemove app).queues = (unreserveApp (appRemoveCore s app a) a false).queues ∧
    (s.appRemove app).nodes = (unreserveApp (appRemoveCore s app a) a false).nodes := by
  unfold appRemove
  simp only [hfind]
  exact ⟨rfl, rfl, rfl⟩

theorem appRemoveCore_lists (s : Core) (app : String) (a : CApp) :
    (appRemoveCore s app a).apps = s.apps.filter (fun x => !(x.live && x.id == app)) ∧
    (appRemoveCore s app a).nodes = rmNs s.nodes (onNodes s a.items) ∧
    (appRemoveCore s app a).queues = updQs s.queues (pathChain s a.queue) (rmQ a) := by
  obtain ⟨h1, h2, h3⟩ := rmFromNodes_lists (onNodes s a.items)
    { s with apps := s.apps.filter (fun x => !(x.live && x.id == app)) }
  unfold appRemoveCore
  refine ⟨?_, ?_, ?_⟩
  · show (rmFromNodes _ _).apps = _
    rw [h1]
  · show (rmFromNodes _ _).nodes = _
    rw [h3]
  · show updQs (rmFromNodes _ _).queues _ _ = _
    rw [h2]

theorem appRemoveCore_props (s : Core) (app : String) (a : CApp) (hw : CoreWF s) (hb : Books s)
    (hfind : s.findApp app = some a) (hok : AppOnNodes s app) :
    Books (appRemoveCore s app a) ∧ CoreWF (appRemoveCore s app a) := by
  obtain ⟨ham, hl, hid⟩ := findApp_some hfind
  have hwa := hw.app ham hl
  obtain ⟨hta, htn, htq⟩ := appRemoveCore_lists s app a
  obtain ⟨n1, n2, n3⟩ := rmNs_app s app a hw hb hfind hok
  constructor
  · refine ⟨?_, ?_, by rw [htn]; exact n3⟩
    · rw [hta]
      intro x hx hxl
      exact hb.apps x (List.mem_filter.mp hx).1 hxl
    · rw [hta, htq]
      intro q' hq'
      obtain ⟨q, hqm, rfl⟩ := List.mem_map.mp hq'
      have hbq := hb.queues q hqm
      by_cases hc : (pathChain s a.queue).contains q.path = true
      · have hun := (chain_iff s a.queue q hqm).mp hc
        rw [if_pos hc]
        have hge := fun k' => app_pending_ge s.apps (fun y hy hyl j hj => (hw.itemRes y hy hyl j hj).2) hb.apps a ham hl q
          hbq hun k'
        have e := fun k => rmQ_getD a q (hw.queue hqm) hwa hge k
        constructor
        · intro k
          rw [rmQ_path, qsum_rm s.apps app a hw.appIds ham hl hid, (e k).1, hbq.allocated k]
          simp only [hun, if_true]; omega
        · intro k
          rw [rmQ_path, qsum_rm s.apps app a hw.appIds ham hl hid, (e k).2, hbq.pending k]
          simp only [hun, if_true]
      · have hun : ¬ under a.queue q.path = true := fun h => hc ((chain_iff s a.queue q hqm).mpr h)
        rw [if_neg hc]
        constructor
        · intro k
          rw [qsum_rm s.apps app a hw.appIds ham hl hid, hbq.allocated k]; simp [hun]
        · intro k
          rw [qsum_rm s.apps app a hw.appIds ham hl hid, hbq.pending k]; simp [hun]
  · have w3 := wf_updQs s.queues (pathChain s a.queue) (rmQ a) (fun q hq => hw.queue hq)
      (fun q hq _ => rmQ_wf a q (hw.queue hq))
    refine CoreWF.of_parts (by rw [hta]; exact hw.appIds.filter _) (by rw [htn]; exact n1) ?_ (by rw [htq]; exact w3)
      (by rw [htn]; exact n2)
    rw [hta]
    intro x hx hxl
    exact hw.app (List.mem_filter.mp hx).1 hxl

/-- partition.removeApplication: the books and the well-formedness of the state are preserved -/
theorem appRemove_props (s : Core) (app : String) (hw : CoreWF s) (hb : Books s) (hok : AppOnNodes s app) :
    Books (s.appRemove app) ∧ CoreWF (s.appRemove app) := by
  cases hfind : s.findApp app with
  | none => unfold appRemove; simp only [hfind]; exact ⟨hb, hw⟩
  | some a =>
    obtain ⟨hb1, hw1⟩ := appRemoveCore_props s app a hw hb hfind hok
    obtain ⟨e1, e2, e3⟩ := appRemove_lists s app a hfind
    obtain ⟨hb2, hw2⟩ := unreserveApp_props _ a false hw1 hb1
    exact ⟨Books.of_lists e1 e2 e3 hb2, CoreWF.of_lists e1 e2 e3 hw2⟩

theorem books_appRemove (s : Core) (app : String) (hw : CoreWF s) (hb : Books s) (hok : AppOnNodes s app) :
    Books (s.appRemove app) := (appRemove_props s app hw hb hok).1

theorem wf_appRemove (s : Core) (app : String) (hw : CoreWF s) (hb : Books s) (hok : AppOnNodes s app) :
    CoreWF (s.appRemove app) := (appRemove_props s app hw hb hok).2

/-! ### nothing of the application stays on the nodes -/

/-- a node after `rmNs`: it is a node of the old list with fewer allocations, none of them with the key of an item of
    the list that names this node -/
theorem rmNs_mem (l : List CItem) : ∀ (nodes : List CNode) (n : CNode), n ∈ rmNs nodes l →
    ∃ n0 ∈ nodes, n0.id = n.id ∧ (∀ x ∈ n.allocs, x ∈ n0.allocs) ∧
      (∀ i ∈ l, i.node = n.id → ∀ x ∈ n.allocs, x.key ≠ i.key) := by
  induction l with
  | nil =>
    intro nodes n hn
    exact ⟨n, hn, rfl, fun x hx => hx, fun i hi => by cases hi⟩
  | cons i t ih =>
    intro nodes n hn
    rw [rmNs_cons] at hn
    obtain ⟨n1, hn1, hid1, hsub1, hno1⟩ := ih _ n hn
    obtain ⟨n0, hn0, rfl⟩ := List.mem_map.mp hn1
    by_cases hd : (n0.id == i.node) = true
    · rw [if_pos hd] at hid1 hsub1
      refine ⟨n0, hn0, hid1, fun x hx => (List.mem_filter.mp (hsub1 x hx)).1, ?_⟩
      intro j hj hjn x hx
      rcases List.mem_cons.mp hj with rfl | hjt
      · have := (List.mem_filter.mp (hsub1 x hx)).2
        simpa using this
      · exact hno1 j hjt hjn x hx
    · rw [if_neg hd] at hid1 hsub1
      refine ⟨n0, hn0, hid1, hsub1, ?_⟩
      intro j hj hjn x hx
      rcases List.mem_cons.mp hj with rfl | hjt
      · exact absurd (by simp [hid1, hjn]) hd
      · exact hno1 j hjt hjn x hx

theorem unreserveApp_nodes_mem (c : Core) (a : CApp) (b : Bool) (n : CNode) (hn : n ∈ (unreserveApp c a b).nodes) :
    ∃ n0 ∈ c.nodes, n0.id = n.id ∧ n0.allocs = n.allocs := by
  unfold unreserveApp at hn
  split at hn
  · exact ⟨n, hn, rfl, rfl⟩
  · obtain ⟨n0, hn0, rfl⟩ := List.mem_map.mp hn
    exact ⟨n0, hn0, rfl, rfl⟩

/-- `appRemove` adds nothing to a node: every allocation a node lists afterwards it listed before -/
theorem appRemove_allocs_subset (s : Core) (app : String) (n : CNode) (hn : n ∈ (s.appRemove app).nodes) :
    ∃ n0 ∈ s.nodes, n0.id = n.id ∧ ∀ x ∈ n.allocs, x ∈ n0.allocs := by
  cases hfind : s.findApp app with
  | none =>
    have : s.appRemove app = s := by unfold appRemove; simp only [hfind]
    rw [this] at hn
    exact ⟨n, hn, rfl, fun x hx => hx⟩
  | some a =>
    rw [(appRemove_lists s app a hfind).2.2] at hn
    obtain ⟨n1, hn1, hid1, hal1⟩ := unreserveApp_nodes_mem _ a false n hn
    rw [(appRemoveCore_lists s app a).2.1] at hn1
    obtain ⟨n0, hn0, hid0, hsub, _⟩ := rmNs_mem _ _ n1 hn1
    exact ⟨n0, hn0, hid0.trans hid1, fun x hx => hsub x (hal1 ▸ hx)⟩

/-- After `appRemove` the node a bound item of the removed application names does not list its allocation any more. -/
theorem appRemove_no_trace (s : Core) (app : String) (a : CApp) (hfind : s.findApp app = some a) (hok : AppOnNodes s app)
    (i : CItem) (hi : i ∈ a.items) (hbd : i.bound = true) :
    ∀ n ∈ (s.appRemove app).nodes, n.id = i.node → ∀ x ∈ n.allocs, x.key ≠ i.key := by
  intro n hn hid x hx
  rw [(appRemove_lists s app a hfind).2.2] at hn
  obtain ⟨n1, hn1, hid1, hal1⟩ := unreserveApp_nodes_mem _ a false n hn
  rw [(appRemoveCore_lists s app a).2.1] at hn1
  obtain ⟨_, _, _, _, hno⟩ := rmNs_mem _ _ n1 hn1
  refine hno i ?_ (by rw [hid1, hid]) x (hal1 ▸ hx)
  rw [onNodes_eq s app a hfind hok]
  exact List.mem_filter.mpr ⟨hi, hbd⟩

/-- … and no node at all does when the key is listed by that node only (allocation keys are unique in the cluster). -/
theorem appRemove_no_trace_all (s : Core) (app : String) (a : CApp) (hfind : s.findApp app = some a) (hok : AppOnNodes s app)
    (i : CItem) (hi : i ∈ a.items) (hbd : i.bound = true)
    (huniq : ∀ n ∈ s.nodes, ∀ x ∈ n.allocs, x.key = i.key → n.id = i.node) :
    ∀ n ∈ (s.appRemove app).nodes, ∀ x ∈ n.allocs, x.key ≠ i.key := by
  intro n hn x hx hk
  obtain ⟨n0, hn0, hid0, hsub⟩ := appRemove_allocs_subset s app n hn
  have hid : n.id = i.node := hid0.symm.trans (huniq n0 hn0 x (hsub x hx) hk)
  exact appRemove_no_trace s app a hfind hok i hi hbd n hn hid x hx hk

/-- the same for `releaseApp` -/
theorem releaseApp_no_trace (s : Core) (tt : TermType) (app : String) (a : CApp) (hfind : s.findApp app = some a)
    (hok : AppOnNodes s app) (i : CItem) (hi : i ∈ a.items) (hbd : i.bound = true) :
    ∀ n ∈ (s.releaseApp tt app).nodes, n.id = i.node → ∀ x ∈ n.allocs, x.key ≠ i.key := by
  intro n hn hid x hx
  rw [(releaseApp_lists s tt app a hfind).2.2] at hn
  have hcore : ∃ n1 ∈ (releaseAppCore s tt app a).nodes, n1.id = n.id ∧ n1.allocs = n.allocs := by
    split at hn
    · exact unreserveApp_nodes_mem _ a false n hn
    · exact ⟨n, hn, rfl, rfl⟩
  obtain ⟨n1, hn1, hid1, hal1⟩ := hcore
  rw [(releaseAppCore_lists s tt app a).2.1] at hn1
  obtain ⟨_, _, _, _, hno⟩ := rmNs_mem _ _ n1 hn1
  refine hno i ?_ (by rw [hid1, hid]) x (hal1 ▸ hx)
  rw [onNodes_eq s app a hfind hok]
  exact List.mem_filter.mpr ⟨hi, hbd⟩

end Yk
