/- The state after the first configuration load meets the group accounting invariant (start of
   YkProps/C05 group_usage_is_sum_partial). -/
import YkProofs.UgmGAcct
namespace Yk.Ugm
open Yk Yk.Res Yk.QTree

/-- every `limits:` entry sets a limit (configs.Validate: "all resource limits are null" is refused) -/
def properEntry (l : LimitEntry) : Bool := !(l.maxApps == 0 && isZero l.maxRes)
def ProperCfg (c : Cfg) : Prop := ∀ q ∈ c, q.1.take 1 = rootPath ∧ ∀ l ∈ q.2, properEntry l = true

theorem aget_setGroupLimits (m : Mgr) (g : String) (lc : Limit) (p : Path) (g' : String) :
    aget (setGroupLimits m g lc p).groups g' =
      if g = g' then some { ((aget m.groups g').getD newGT) with qt := setLimit [] false ((aget m.groups g').getD newGT).qt p lc.maxRes lc.maxApps false false }
      else aget m.groups g' := by
  unfold setGroupLimits updGroup
  simp only
  rw [aget_amod, aget_ensureGroupT]
  by_cases e : g = g'
  · subst e
    cases aget m.groups g <;> simp
  · cases hh : aget m.groups g' <;> simp [e]

structure K2 (s : Mgr × NewCfg) : Prop where
  nolinks : ∀ u app, linkOf s.1 u app = none
  cc1 : ∀ p gs, aget s.2.confGroups p = some gs → ∀ g ∈ gs, (aget2 s.2.groupLimits p g).isSome = true
  cc2 : ∀ p, ahas s.2.groupWild p = true → (aget2 s.2.groupLimits p "*").isSome = true
  named : ∀ g, ahas s.1.groups g = true → ∃ p, (aget2 s.2.groupLimits p g).isSome = true
  has : ∀ p g, (aget2 s.2.groupLimits p g).isSome = true → ahas s.1.groups g = true
  noempty : ∀ p, (aget2 s.2.groupLimits p "").isSome = false
  pre : ∀ g gt, aget s.1.groups g = some gt → ∀ p, (aget2 s.2.groupLimits p g).isSome = true → ∀ p' ∈ prefixes p, ahas gt.qt p' = true
  inv0 : ∀ g gt, aget s.1.groups g = some gt → Inv gt.qt []

theorem K2_init : K2 (({} : Mgr), ({} : NewCfg)) :=
  ⟨fun _ _ => rfl, fun p gs h => (by cases h), fun p h => (by cases h), fun g h => (by cases h), fun p g h => (by cases h),
   fun _ => rfl, fun g gt h => (by cases h), fun g gt h => (by cases h)⟩

theorem linkOf_setUserLimits (m : Mgr) (u : String) (lc : Limit) (p : Path) (u' app : String) :
    linkOf (setUserLimits m u lc p) u' app = linkOf m u' app := by
  unfold setUserLimits
  refine Eq.trans (linkOf_updUser_qt _ _ _ ?_ u' app) (linkOf_ensureUser_eq m u u' app)
  intro ut; rfl

theorem K2_procUser {s : Mgr × NewCfg} (h : K2 s) (p : Path) (lc : Limit) (u : String) : K2 (procUser p lc s u) := by
  unfold procUser
  split
  · exact h
  · split
    · exact ⟨h.nolinks, h.cc1, h.cc2, h.named, h.has, h.noempty, h.pre, h.inv0⟩
    · have hg : (setUserLimits s.1 u lc p).groups = s.1.groups := by
        unfold setUserLimits updUser ensureUser; split <;> rfl
      refine ⟨?_, h.cc1, h.cc2, ?_, ?_, h.noempty, ?_, ?_⟩
      · intro u' app; show linkOf (setUserLimits s.1 u lc p) u' app = none; rw [linkOf_setUserLimits]; exact h.nolinks u' app
      · intro g hh; apply h.named g; rw [← hg]; exact hh
      · intro p' g hs; show ahas (setUserLimits s.1 u lc p).groups g = true; rw [hg]; exact h.has p' g hs
      · intro g gt hgt; apply h.pre g gt; rw [← hg]; exact hgt
      · intro g gt hgt; apply h.inv0 g gt; rw [← hg]; exact hgt

theorem ensurePath_ahas_mono (w : List (Path × Limit)) (isUser : Bool) (t : Tree) (q p : Path) (h : ahas t p = true) :
    ahas (ensurePath w isUser t q) p = true := by
  rw [ahas_eq] at h ⊢
  rw [aget_ensurePath]
  cases hh : aget t p with
  | none => rw [hh] at h; cases h
  | some x => rfl

theorem setLimit_ahas (w : List (Path × Limit)) (isUser : Bool) (t : Tree) (q : Path) (mr : ORes) (ma : Nat) (uw ck : Bool) (p : Path) :
    ahas (setLimit w isUser t q mr ma uw ck) p = ahas (ensurePath w isUser t q) p := by
  unfold setLimit
  rw [ahas_eq, ahas_eq, aget_amod]
  by_cases e : q = p
  · subst e; cases aget (ensurePath w isUser t q) q <;> simp
  · simp [e]

theorem K2_procGroup {s : Mgr × NewCfg} (h : K2 s) (p : Path) (lc : Limit) (g : String) : K2 (procGroup p lc s g) := by
  unfold procGroup
  split
  · exact h
  · simp only
    have hfields : ∀ b : Bool,
        (if b = true then ({ s.2 with groupLimits := aset2 s.2.groupLimits p g lc, groupWild := aset s.2.groupWild p lc } : NewCfg)
          else { s.2 with groupLimits := aset2 s.2.groupLimits p g lc,
                          confGroups := aset s.2.confGroups p ((aget s.2.confGroups p).getD [] ++ [g]) }).groupLimits
          = aset2 s.2.groupLimits p g lc := by
      intro b; cases b <;> rfl
    have hmono : ∀ p' g', (aget2 s.2.groupLimits p' g').isSome = true → (aget2 (aset2 s.2.groupLimits p g lc) p' g').isSome = true := by
      intro p' g' hs
      rw [aget2_aset2]; split
      · rfl
      · exact hs
    have hnew : (aget2 (aset2 s.2.groupLimits p g lc) p g).isSome = true := by rw [aget2_aset2]; simp
    have husers : (setGroupLimits s.1 g lc p).users = s.1.users := users_setGroupLimits _ _ _ _
    rename_i hgne
    refine ⟨?_, ?_, ?_, ?_, ?_, ?_, ?_, ?_⟩
    · intro u app
      show linkOf (setGroupLimits s.1 g lc p) u app = none
      have : linkOf (setGroupLimits s.1 g lc p) u app = linkOf s.1 u app := by unfold linkOf; rw [husers]
      rw [this]; exact h.nolinks u app
    · intro p' gs hgs g' hg'
      simp only at hgs ⊢
      rw [hfields]
      by_cases hw : (g == "*") = true
      · rw [if_pos hw] at hgs
        exact hmono p' g' (h.cc1 p' gs hgs g' hg')
      · rw [if_neg hw] at hgs
        simp only at hgs
        rw [aget_aset] at hgs
        by_cases e : p = p'
        · subst e
          simp only [if_true, Option.some.injEq] at hgs
          subst hgs
          rcases List.mem_append.mp hg' with hm | hm
          · cases hc : aget s.2.confGroups p with
            | none => rw [hc] at hm; simp at hm
            | some gs0 => rw [hc] at hm; exact hmono p g' (h.cc1 p gs0 hc g' hm)
          · simp at hm; subst hm; exact hnew
        · simp only [e, if_false] at hgs
          exact hmono p' g' (h.cc1 p' gs hgs g' hg')
    · intro p' hp'
      simp only at hp' ⊢
      rw [hfields]
      by_cases hw : (g == "*") = true
      · rw [if_pos hw] at hp'
        simp only at hp'
        have hg : g = "*" := by simpa using hw
        rw [ahas_eq, aget_aset] at hp'
        by_cases e : p = p'
        · subst e; subst hg; exact hnew
        · simp only [e, if_false] at hp'
          exact hmono p' "*" (h.cc2 p' (by rw [ahas_eq]; exact hp'))
      · rw [if_neg hw] at hp'
        exact hmono p' "*" (h.cc2 p' hp')
    · intro g' hh
      simp only at hh ⊢
      rw [hfields]
      rw [ahas_eq, aget_setGroupLimits] at hh
      by_cases e : g = g'
      · subst e; exact ⟨p, hnew⟩
      · simp only [e, if_false] at hh
        obtain ⟨p', hp'⟩ := h.named g' (by rw [ahas_eq]; exact hh)
        exact ⟨p', hmono p' g' hp'⟩
    · intro p' g' hs
      simp only at hs ⊢
      rw [hfields, aget2_aset2] at hs
      rw [ahas_eq, aget_setGroupLimits]
      by_cases e : g = g'
      · simp [e]
      · have hold : (aget2 s.2.groupLimits p' g').isSome = true := by
          have : ¬ (p = p' ∧ g = g') := fun x => e x.2
          simpa [this] using hs
        simp only [e, if_false]
        have := h.has p' g' hold
        rw [ahas_eq] at this; exact this
    · intro p'
      simp only
      rw [hfields, aget2_aset2]
      have : ¬ (p = p' ∧ g = "") := by
        intro x; apply hgne; rw [x.2]; rfl
      rw [if_neg this]; exact h.noempty p'
    · intro g' gt hgt p' hp' p'' hp''
      simp only at hgt hp'
      rw [hfields, aget2_aset2] at hp'
      rw [aget_setGroupLimits] at hgt
      by_cases e : g = g'
      · subst e
        simp only [if_true, Option.some.injEq] at hgt
        subst hgt
        simp only
        rw [setLimit_ahas]
        by_cases ep : p = p'
        · subst ep
          obtain ⟨n, hn⟩ := ensurePath_has [] false ((aget s.1.groups g).getD newGT).qt p p'' hp''
          rw [ahas_eq, hn]; rfl
        · have hold : (aget2 s.2.groupLimits p' g).isSome = true := by
            simpa [ep] using hp'
          apply ensurePath_ahas_mono
          cases hgt0 : aget s.1.groups g with
          | none =>
            have := h.has p' g hold
            rw [ahas_eq, hgt0] at this; cases this
          | some gt0 => simp only [Option.getD_some]; exact h.pre g gt0 hgt0 p' hold p'' hp''
      · simp only [e, if_false] at hgt
        have hold : (aget2 s.2.groupLimits p' g').isSome = true := by
          have : ¬ (p = p' ∧ g = g') := fun x => e x.2
          simpa [this] using hp'
        exact h.pre g' gt hgt p' hold p'' hp''
    · intro g' gt hgt
      simp only at hgt
      rw [aget_setGroupLimits] at hgt
      by_cases e : g = g'
      · subst e
        simp only [if_true, Option.some.injEq] at hgt
        subst hgt
        simp only
        apply neutral_setLimit
        cases hgt0 : aget s.1.groups g with
        | none => exact inv_new [] false
        | some gt0 => exact h.inv0 g gt0 hgt0
      · simp only [e, if_false] at hgt; exact h.inv0 g' gt hgt

theorem K2_processConfig (c : Cfg) : K2 (processConfig {} c) := by
  unfold processConfig
  apply foldl_preserves _ K2 c _ _ K2_init
  intro s q _ hs
  apply foldl_preserves _ K2 _ _ _ hs
  intro s l _ hs
  unfold procEntry
  apply foldl_preserves _ K2 _ (fun s g _ hs => K2_procGroup hs _ _ g)
  exact foldl_preserves _ K2 _ (fun s u _ hs => K2_procUser hs _ _ u) _ hs

theorem ensureGroupAux_cases (m : Mgr) (ugs : List String) : ∀ (n : Nat) (p : Path), ensureGroupAux m ugs n p ≠ "" →
    (∃ p' gs, aget m.confGroups p' = some gs ∧ ensureGroupAux m ugs n p ∈ gs) ∨
    (ensureGroupAux m ugs n p = "*" ∧ ∃ p', ahas m.groupWild p' = true) := by
  intro n
  induction n with
  | zero => intro p h; exact absurd rfl h
  | succ n ih =>
    intro p h
    simp only [ensureGroupAux] at h ⊢
    cases hf : ((aget m.confGroups p).getD []).find? (fun cg => ugs.contains cg) with
    | some g0 =>
      simp only
      left
      have hm := List.mem_of_find?_eq_some hf
      cases hc : aget m.confGroups p with
      | none => rw [hc] at hm; simp at hm
      | some gs => rw [hc] at hm; exact ⟨p, gs, hc, hm⟩
    | none =>
      rw [hf] at h
      simp only at h ⊢
      by_cases hw : ahas m.groupWild p = true
      · rw [if_pos hw]; right; exact ⟨rfl, p, hw⟩
      · rw [if_neg hw] at h ⊢
        by_cases hl : p.length ≤ 1
        · rw [if_pos hl] at h; exact absurd rfl h
        · rw [if_neg hl] at h ⊢; exact ih _ h

theorem linkOf_wildStepFn (n : NewCfg) (m : Mgr) (e : Path × Limit) (u app : String) :
    linkOf (wildStepFn n m e) u app = linkOf m u app := by
  unfold linkOf wildStepFn
  rw [aget_mapUsers]
  cases aget m.users u with
  | none => rfl
  | some ut => simp only [Option.map_some]; split <;> rfl

theorem linkOf_applyWild (n : NewCfg) (m : Mgr) (u app : String) : linkOf (applyWildCardUserLimits m n) u app = linkOf m u app := by
  rw [applyWild_eq]
  generalize n.userWild = l
  induction l generalizing m with
  | nil => rfl
  | cons e l ih => rw [List.foldl_cons, ih, linkOf_wildStepFn]

theorem properEntry_limited {l : LimitEntry} (h : properEntry l = true) {n : Node} (ht : triple n = t3 (lcOf l)) : limited n = true := by
  simp only [triple, t3, lcOf, Prod.mk.injEq] at ht
  unfold limited; rw [ht.1, ht.2.1]; exact h

/-- the state after the first load of a proper configuration, with an empty ledger -/
theorem ginv_first_load (c : Cfg) (hc : ProperCfg c) : GInv (updateConfig {} c) [] := by
  have hne : ∀ q ∈ c, q.1 ≠ [] := by
    intro q hq e; have := (hc q hq).1; rw [e] at this; cases this
  have k := K_processConfig c hne
  have k2 := K2_processConfig c
  have w := W_processConfig c hne
  have hU : UInv (updateConfig {} c).users [] := uinv_updateConfig uinv_empty c
  rw [updateConfig_empty c hne] at hU ⊢
  have hmaps3 : ∀ p g, g ≠ "" → aget2 (processConfig {} c).2.groupLimits p g = (lastGroupEntry c p g).map lcOf :=
    fun p g h1 => maps_groupLimits c p g h1
  generalize processConfig {} c = s at k k2 w hU hmaps3 ⊢
  have hq0 : UsersQ s.1.users (viewD s.2 []) := by
    apply UsersQ_congr k.uq
    intro u p; unfold viewD
    cases aget2 s.2.userLimits p u <;> rfl
  obtain ⟨_, _, _, a4⟩ := applyWild_fold s.2 s.2.userWild [] s.1 (by simpa using w.1) w.2 k.uw hq0
  rw [← applyWild_eq] at a4
  have hlinks : ∀ u app, linkOf (replaceLimitConfigs (applyWildCardUserLimits s.1 s.2) s.2) u app = none := by
    intro u app
    have : linkOf (replaceLimitConfigs (applyWildCardUserLimits s.1 s.2) s.2) u app = linkOf (applyWildCardUserLimits s.1 s.2) u app := rfl
    rw [this, linkOf_applyWild]; exact k2.nolinks u app
  have hgroups : (replaceLimitConfigs (applyWildCardUserLimits s.1 s.2) s.2).groups = s.1.groups := a4
  -- a group the parsed maps mention has a tracker, anchored at a queue where it holds a proper limit
  have hnoempty := k2.noempty
  refine ⟨hU, fun e1 h1 => (by cases h1), fun e he => (by cases he), ?_, ?_, ?_, ?_⟩
  · intro u app g hlk; rw [hlinks] at hlk; cases hlk
  · intro ugs q hne'
    rw [hgroups]
    unfold ensureGroup at hne' ⊢
    split at hne'
    · exact absurd rfl hne'
    · rename_i hemp
      rw [if_neg hemp]
      rcases ensureGroupAux_cases _ ugs q.length q hne' with ⟨p', gs, hgs, hmem⟩ | ⟨hstar, p', hp'⟩
      · exact k2.has p' _ (k2.cc1 p' gs hgs _ hmem)
      · rw [hstar]; exact k2.has p' "*" (k2.cc2 p' hp')
  · intro g gt hgt
    rw [hgroups] at hgt
    obtain ⟨p, hp⟩ := k2.named g (by rw [ahas_eq, hgt]; rfl)
    have hgne : g ≠ "" := by intro e; subst e; rw [hnoempty p] at hp; cases hp
    have hm := hmaps3 p g hgne
    cases hl : lastGroupEntry c p g with
    | none => rw [hm, hl] at hp; cases hp
    | some l =>
      -- the entry comes from the configuration: its queue starts at the root and it sets a limit
      have hlmem : l ∈ ((c.filter (fun q => q.1 == p)).flatMap (·.2)).filter (fun l => l.groups.contains g) :=
        List.mem_of_getLast? hl
      rw [List.mem_filter, List.mem_flatMap] at hlmem
      obtain ⟨⟨q, hq, hlq⟩, _⟩ := hlmem
      rw [List.mem_filter] at hq
      have hqp : q.1 = p := by simpa using hq.2
      have hproper := (hc q hq.1).2 l hlq
      have hroot : p.take 1 = rootPath := by rw [← hqp]; exact (hc q hq.1).1
      have hQ := k.gq g gt hgt
      have hnode : ahas gt.qt p = true := hQ.2 p (by simp only; rw [hm, hl]; rfl)
      rw [ahas_eq] at hnode
      cases hn : aget gt.qt p with
      | none => rw [hn] at hnode; cases hnode
      | some node =>
        have ht := hQ.1 p node hn
        simp only at ht
        rw [hm, hl] at ht
        simp only [Option.map_some, Option.getD_some] at ht
        exact ⟨p, hroot, ⟨node, hn, properEntry_limited hproper ht⟩, k2.pre g gt hgt p hp⟩
  · intro g gt _ hgt
    rw [hgroups] at hgt
    exact k2.inv0 g gt hgt

end Yk.Ugm
