/-
  Executable checkers for the reduced side conditions of the stepped model (`Op.ok2`, YkProofs/Core2RunL.lean) and for the
  linkage invariant `Linked`.  As in YkProofs/Core2Check.lean every structure gets a Bool function that is SUFFICIENT for
  it (`…_of_b`); `Op.okb2` / `runOKb2` check one step / a history, `runOKb2_sound : runOKb2 s ops = true → RunOK2 s ops`
  makes `reachable_linked` applicable to concrete histories by evaluation, `linked_of_b` gives `Linked` of a concrete state.
-/
import YkProofs.Core2RunL
import YkProofs.Core2Check
namespace Yk
open Res Core

/-! ### `OnNode`, `Linked` -/

/-- the node of `i` is registered and lists a non-foreign allocation of application `app` with the key and size of `i` -/
def onNodeAppb (s : Core) (app : String) (i : CItem) : Bool :=
  match s.findNode i.node with
  | none => false
  | some n => n.allocs.any (fun x => x.key == i.key && x.app == app && !x.foreign && sparseEq x.res i.res)

theorem onNodeApp_of_b {s : Core} {app : String} {i : CItem} (h : onNodeAppb s app i = true) : OnNode s app i := by
  unfold onNodeAppb at h
  split at h
  · cases h
  · rename_i n hn
    obtain ⟨x, hx, hc⟩ := List.any_eq_true.mp h
    simp only [Bool.and_eq_true, beq_iff_eq, Bool.not_eq_true'] at hc
    exact ⟨n, hn, x, hx, hc.1.1.1, hc.1.1.2, hc.1.2, sparseEq_getD hc.2⟩

/-- every bound item of every live application is listed by its node -/
def linkedb (s : Core) : Bool :=
  s.apps.all (fun a => !a.live || a.items.all (fun i => !i.bound || onNodeAppb s a.id i))

theorem linked_of_b {s : Core} (h : linkedb s = true) : Linked s := by
  intro a ha hl i hi hbd
  have h1 := List.all_eq_true.mp h a ha
  simp only [hl, Bool.not_true, Bool.false_or] at h1
  have h2 := List.all_eq_true.mp h1 i hi
  simp only [hbd, Bool.not_true, Bool.false_or] at h2
  exact onNodeApp_of_b h2

/-! ### `SwapLinkOK` -/

/-- what `SwapLinkOK` asks of the main path: what `SwapOK` asks (`swapCaseOKb`), and in the cross-node case the real half
    is parked on its node -/
def swapLinkCaseOKb (s : Core) (app : String) (a : CApp) (p r : CItem) : Bool :=
  swapCaseOKb s a p r && (decide (r.node = p.node) || onNodeAppb s app r)

def swapLinkOKb (s : Core) (app phKey : String) : Bool :=
  match s.findApp app with
  | none => true
  | some a =>
    match a.items.find? (·.key == phKey) with
    | none => true
    | some p =>
      !(p.bound && p.ph) ||
      match p.release.bind (findReal s a) with
      | none => true
      | some r => swapLinkCaseOKb s app a p r

theorem swapLinkCaseOK_of_b {s : Core} {app phKey : String} (hb : swapLinkOKb s app phKey = true) {a : CApp} {p r : CItem}
    (hc : SwapCase s app phKey a p r) : swapLinkCaseOKb s app a p r = true := by
  unfold swapLinkOKb at hb
  simp only [hc.app, hc.item, hc.isPh, hc.real, Bool.not_true, Bool.false_or] at hb
  exact hb

theorem swapLinkOK_of_b {s : Core} {app phKey : String} (hb : swapLinkOKb s app phKey = true) : SwapLinkOK s app phKey := by
  refine ⟨?_, ?_, ?_, ?_⟩
  · intro a p r hc
    have h := swapLinkCaseOK_of_b hb hc
    simp only [swapLinkCaseOKb, swapCaseOKb, Bool.and_eq_true] at h
    exact replOK_of_b h.1.1.1
  · intro a p r hc
    have h := swapLinkCaseOK_of_b hb hc
    simp only [swapLinkCaseOKb, swapCaseOKb, Bool.and_eq_true] at h
    exact leqb_sound h.1.1.2
  · intro a p r hc hnode
    have h := swapLinkCaseOK_of_b hb hc
    simp only [swapLinkCaseOKb, swapCaseOKb, Bool.and_eq_true, Bool.or_eq_true, decide_eq_true_eq] at h
    rcases h.1.2 with h' | h'
    · exact absurd hnode h'
    · exact freshOnNode_of_b h'
  · intro a p r hc hnode
    have h := swapLinkCaseOK_of_b hb hc
    simp only [swapLinkCaseOKb, Bool.and_eq_true, Bool.or_eq_true, decide_eq_true_eq] at h
    rcases h.2 with h' | h'
    · exact absurd h' hnode
    · exact onNodeApp_of_b h'

/-! ### `NodeLinkOK`, `NodeLinkLoopOK`, `NodeRemoveLinkOK` -/

/-- a bound placeholder on the node whose real half is an item of the application that waits on another node: the real
    half is parked there -/
def nodeLinkOKb (c : Core) (nodeId app key : String) : Bool :=
  match c.findApp app with
  | none => true
  | some a =>
    match a.items.find? (·.key == key) with
    | none => true
    | some i =>
      match i.release with
      | none => true
      | some rk =>
        !(i.ph && i.bound) ||
        match a.items.find? (·.key == rk) with
        | none => true
        | some r => decide (r.node = nodeId) || onNodeAppb c app r

theorem nodeLinkOK_of_b {c : Core} {nodeId app key : String} (hb : nodeLinkOKb c nodeId app key = true) :
    NodeLinkOK c nodeId app key := by
  refine ⟨?_⟩
  intro a i rk r ha hi hrel hph hreal hnode hbd
  simp only [nodeLinkOKb, ha, hi, hrel, hph, hbd, hreal, Bool.and_self, Bool.not_true, Bool.false_or, Bool.or_eq_true,
    decide_eq_true_eq] at hb
  rcases hb with h | h
  · exact absurd h hnode
  · exact onNodeApp_of_b h

def nodeLinkLoopOKb (nodeId : String) : Core → List (String × String) → Bool
  | _, [] => true
  | c, p :: t => nodeLinkOKb c nodeId p.1 p.2 && nodeLinkLoopOKb nodeId (nodeRmAlloc c nodeId p.1 p.2) t

theorem nodeLinkLoopOK_of_b {nodeId : String} {c : Core} {l : List (String × String)}
    (hb : nodeLinkLoopOKb nodeId c l = true) : NodeLinkLoopOK nodeId c l := by
  induction l generalizing c with
  | nil => trivial
  | cons p t ih =>
    simp only [nodeLinkLoopOKb, Bool.and_eq_true] at hb
    exact ⟨nodeLinkOK_of_b hb.1, ih hb.2⟩

def nodeRemoveLinkOKb (s : Core) (id : String) (order : List (String × String)) : Bool :=
  match s.findNode id with
  | none => true
  | some n => nodeLinkLoopOKb id (n.reservations.foldl (fun c k => unreserveOn c id k) s) (order ++ nodeRest n order)

theorem nodeRemoveLinkOK_of_b {s : Core} {id : String} {order : List (String × String)}
    (hb : nodeRemoveLinkOKb s id order = true) : NodeRemoveLinkOK s id order := by
  intro n hn
  simp only [nodeRemoveLinkOKb, hn] at hb
  exact nodeLinkLoopOK_of_b hb

/-! ### one step, a history -/

/-- the executable reduced side condition of one step (same cases as `Op.ok2`) -/
def Op.okb2 (s : Core) : Op → Bool
  | .nodeCreate _ cap _ => wf cap
  | .nodeUpdate _ cap => wf cap
  | .nodeSchedulable _ _ => true
  | .nodeRemove id order => nodeRemoveOKb s id order && nodeRemoveLinkOKb s id order
  | .foreignAdd key node res => wf res && freshOnNodeb s node key
  | .foreignRemove _ => true
  | .appAdd _ nq => freshQueuesOKb s nq
  | .appRemove _ => true
  | .ask app key res _ _ _ => askOKb s app key res
  | .schedAlloc _ key node => freshOnNodeb s node key
  | .swapStart _ realKey _ node => freshOnNodeb s node realKey
  | .swapConfirm app phKey => swapLinkOKb s app phKey
  | .releaseKey _ _ => true
  | .release _ _ _ => true
  | .releaseApp _ _ => true
  | .markReleased _ _ _ => true
  | .phTimeout _ _ => true
  | .stateTimeout _ => true
  | .cleanup => true
  | .reserve _ _ _ => true
  | .unreserve _ _ _ => true

theorem okb2_sound {s : Core} {op : Op} (h : op.okb2 s = true) : op.ok2 s := by
  cases op with
  | nodeCreate id cap b => exact h
  | nodeUpdate id cap => exact h
  | nodeSchedulable id b => trivial
  | nodeRemove id order =>
    have h' : (nodeRemoveOKb s id order && nodeRemoveLinkOKb s id order) = true := h
    rw [Bool.and_eq_true] at h'
    exact ⟨nodeRemoveOK_of_b h'.1, nodeRemoveLinkOK_of_b h'.2⟩
  | foreignAdd key node res =>
    have h' : (wf res && freshOnNodeb s node key) = true := h
    rw [Bool.and_eq_true] at h'
    exact ⟨h'.1, freshOnNode_of_b h'.2⟩
  | foreignRemove key => trivial
  | appAdd a nq => exact freshQueuesOK_of_b h
  | appRemove app => trivial
  | ask app key res ph tg reqNode => exact askOK_of_b h
  | schedAlloc app key node => exact freshOnNode_of_b h
  | swapStart app realKey phKey node => exact freshOnNode_of_b h
  | swapConfirm app phKey => exact swapLinkOK_of_b h
  | releaseKey app key => trivial
  | release tt app key => trivial
  | releaseApp tt app => trivial
  | markReleased app key p => trivial
  | phTimeout app ev => trivial
  | stateTimeout app => trivial
  | cleanup => trivial
  | reserve _ _ _ => trivial
  | unreserve _ _ _ => trivial

/-- every step of the history passes its executable reduced side condition in the state it is applied to -/
def runOKb2 : Core → List Op → Bool
  | _, [] => true
  | s, op :: t => op.okb2 s && runOKb2 (op.apply s) t

theorem runOKb2_sound (s : Core) (ops : List Op) (h : runOKb2 s ops = true) : RunOK2 s ops := by
  induction ops generalizing s with
  | nil => trivial
  | cons op t ih =>
    simp only [runOKb2, Bool.and_eq_true] at h
    exact ⟨okb2_sound h.1, ih _ h.2⟩

/-- `reachable_linked` for a history that passes the executable checks -/
theorem reachable_linked_b (s : Core) (ops : List Op) (hw : CoreWF s) (hb : Books s) (hl : linkedb s = true)
    (h : runOKb2 s ops = true) : Books (run s ops) ∧ CoreWF (run s ops) ∧ Linked (run s ops) :=
  reachable_linked s ops hw hb (linked_of_b hl) (runOKb2_sound s ops h)

end Yk
