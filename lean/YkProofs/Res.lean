/- Pointwise characterisation of the resource-vector model (helper lemmas for YkProps/C18 and the L1 models). -/
import YkModel.ResSpec
import YkProofs.ResArith
namespace Yk
open Res

namespace Res

@[simp] theorem getD_nil (k : String) : getD [] k = 0 := rfl
@[simp] theorem get?_nil (k : String) : get? [] k = none := rfl
@[simp] theorem has_nil (k : String) : has [] k = false := rfl

theorem getD_eq_get? (r : Res) (k : String) : getD r k = (get? r k).getD 0 := rfl
theorem has_eq_get? (r : Res) (k : String) : has r k = (get? r k).isSome := rfl

theorem get?_cons (k' : String) (v' : Int) (t : Res) (k : String) :
    get? ((k', v') :: t) k = if k = k' then some v' else get? t k := by
  unfold get?; rw [List.lookup_cons]
  by_cases h : k = k'
  · simp [h]
  · have : (k == k') = false := by simp [h]
    simp [this, h]

theorem getD_cons (k' : String) (v' : Int) (t : Res) (k : String) :
    getD ((k', v') :: t) k = if k = k' then v' else getD t k := by
  rw [getD_eq_get?, get?_cons]; by_cases h : k = k' <;> simp [h, getD_eq_get?]

theorem has_cons (k' : String) (v' : Int) (t : Res) (k : String) :
    has ((k', v') :: t) k = (decide (k = k') || has t k) := by
  rw [has_eq_get?, get?_cons]; by_cases h : k = k' <;> simp [h, has_eq_get?]

theorem get?_set (r : Res) (k : String) (v : Int) (k' : String) :
    get? (set r k v) k' = if k' = k then some v else get? r k' := by
  induction r with
  | nil => simp [set, get?_cons]
  | cons p t ih =>
    obtain ⟨a, b⟩ := p
    unfold set
    by_cases h : a = k
    · subst h; simp only [beq_self_eq_true, if_true, get?_cons]; by_cases h2 : k' = a <;> simp [h2]
    · have : (a == k) = false := by simp [h]
      simp only [this, Bool.false_eq_true, if_false, get?_cons, ih]
      by_cases h2 : k' = a
      · subst h2; simp [h]
      · simp [h2]

theorem getD_set (r : Res) (k : String) (v : Int) (k' : String) :
    getD (set r k v) k' = if k' = k then v else getD r k' := by
  rw [getD_eq_get?, get?_set]; by_cases h : k' = k <;> simp [h, getD_eq_get?]

theorem has_set (r : Res) (k : String) (v : Int) (k' : String) :
    has (set r k v) k' = (decide (k' = k) || has r k') := by
  rw [has_eq_get?, get?_set]; by_cases h : k' = k <;> simp [h, has_eq_get?]

theorem wf_cons (k : String) (v : Int) (t : Res) : wf ((k, v) :: t) = (!(has t k) && wf t) := by
  have : t.any (fun p => p.1 == k) = has t k := by
    induction t with
    | nil => rfl
    | cons p t ih =>
      obtain ⟨a, b⟩ := p
      rw [has_cons, List.any_cons, ih]
      by_cases h : a = k
      · subst h; simp
      · have h' : ¬ k = a := fun e => h e.symm
        simp [h, h']
  simp [wf, this]

theorem has_iff_mem_keys (r : Res) (k : String) : has r k = true ↔ k ∈ keys r := by
  induction r with
  | nil => simp [keys]
  | cons p t ih =>
    obtain ⟨a, b⟩ := p
    rw [has_cons]; simp only [keys, List.map_cons, List.mem_cons, Bool.or_eq_true, decide_eq_true_eq]
    simp only [keys] at ih; rw [ih]

theorem get?_of_mem {r : Res} (hw : wf r = true) {k : String} {v : Int} (h : (k, v) ∈ r) : get? r k = some v := by
  induction r with
  | nil => cases h
  | cons p t ih =>
    obtain ⟨a, b⟩ := p
    rw [wf_cons] at hw
    simp only [Bool.and_eq_true, Bool.not_eq_true'] at hw
    rw [get?_cons]
    cases h with
    | head => simp
    | tail _ h' =>
      have := ih hw.2 h'
      by_cases h2 : k = a
      · subst h2; have : has t k = true := by rw [has_eq_get?, this]; rfl
        rw [hw.1] at this; cases this
      · simp [h2, this]

theorem mem_of_get? {r : Res} {k : String} {v : Int} (h : get? r k = some v) : (k, v) ∈ r := by
  induction r with
  | nil => cases h
  | cons p t ih =>
    obtain ⟨a, b⟩ := p
    rw [get?_cons] at h
    by_cases h2 : k = a
    · subst h2; simp at h; subst h; exact List.mem_cons_self
    · simp [h2] at h; exact List.mem_cons_of_mem _ (ih h)

end Res

/-- the fold that Add/Sub run over `right` -/
theorem foldl_set_getD (f : Int → Int → Int) (r : Res) (hw : wf r = true) (acc : Res) (k : String) :
    (zipFold f acc r).getD k =
      if has r k then f (acc.getD k) (getD r k) else acc.getD k := by
  unfold zipFold
  induction r generalizing acc with
  | nil => simp
  | cons p t ih =>
    obtain ⟨a, b⟩ := p
    rw [wf_cons] at hw
    simp only [Bool.and_eq_true, Bool.not_eq_true'] at hw
    rw [List.foldl_cons, ih hw.2, has_cons, getD_cons, getD_set]
    by_cases h : k = a
    · subst h; simp [hw.1]
    · simp [h]

theorem foldl_set_has (f : Int → Int → Int) (r : Res) (acc : Res) (k : String) :
    (zipFold f acc r).has k = (has acc k || has r k) := by
  unfold zipFold
  induction r generalizing acc with
  | nil => simp
  | cons p t ih =>
    obtain ⟨a, b⟩ := p
    rw [List.foldl_cons, ih, has_set, has_cons]
    by_cases h : k = a <;> simp [h, Bool.or_comm]

/-- Add is the pointwise saturating sum (right operand a well-formed map; all values int64). -/
theorem add_getD (l r : Res) (hw : wf r = true) (k : String) :
    (add (some l) (some r)).getD k = if has r k then goAddVal (l.getD k) (r.getD k) else l.getD k := by
  unfold add orZero; simp only [Option.getD_some]; exact foldl_set_getD goAddVal r hw l k

theorem sub_getD (l r : Res) (hw : wf r = true) (k : String) :
    (sub (some l) (some r)).getD k = if has r k then goSubVal (l.getD k) (r.getD k) else l.getD k := by
  unfold sub orZero; simp only [Option.getD_some]; exact foldl_set_getD goSubVal r hw l k

theorem add_has (l r : Res) (k : String) : (add (some l) (some r)).has k = (has l k || has r k) := by
  unfold add orZero; simp only [Option.getD_some]; exact foldl_set_has goAddVal r l k

theorem sub_has (l r : Res) (k : String) : (sub (some l) (some r)).has k = (has l k || has r k) := by
  unfold sub orZero; simp only [Option.getD_some]; exact foldl_set_has goSubVal r l k

theorem getD_of_not_has {r : Res} {k : String} (h : has r k = false) : getD r k = 0 := by
  rw [getD_eq_get?]; rw [has_eq_get?] at h
  cases hg : get? r k <;> simp_all

theorem addX_getD (l r : Res) (hw : wf r = true) (k : String) : (addX l r).getD k = l.getD k + r.getD k := by
  unfold addX; rw [foldl_set_getD _ r hw l k]
  by_cases h : has r k = true
  · simp [h]
  · have h' : has r k = false := by simpa using h
    simp [h', getD_of_not_has h']

theorem subX_getD (l r : Res) (hw : wf r = true) (k : String) : (subX l r).getD k = l.getD k - r.getD k := by
  unfold subX; rw [foldl_set_getD _ r hw l k]
  by_cases h : has r k = true
  · simp [h]
  · have h' : has r k = false := by simpa using h
    simp [h', getD_of_not_has h']

theorem prune_getD (r : Res) (hw : wf r = true) (k : String) : (prune r).getD k = r.getD k := by
  induction r with
  | nil => rfl
  | cons p t ih =>
    obtain ⟨a, b⟩ := p
    rw [wf_cons] at hw
    simp only [Bool.and_eq_true, Bool.not_eq_true'] at hw
    have ih' := ih hw.2
    unfold prune at *
    rw [List.filter_cons]
    by_cases hb : b = 0
    · subst hb; simp only [bne_self_eq_false, Bool.false_eq_true, if_false, ih', getD_cons]
      by_cases h : k = a
      · subst h; simp [getD_of_not_has hw.1]
      · simp [h]
    · have : (b != 0) = true := by simp [hb]
      simp only [this, if_true, getD_cons, ih']

theorem set_wf (r : Res) (hw : wf r = true) (k : String) (v : Int) : wf (Res.set r k v) = true := by
  induction r with
  | nil => simp [Res.set, wf]
  | cons p t ih =>
    obtain ⟨a, b⟩ := p
    rw [wf_cons] at hw
    simp only [Bool.and_eq_true, Bool.not_eq_true'] at hw
    unfold Res.set
    by_cases h : a = k
    · subst h; simp only [beq_self_eq_true, if_true, wf_cons, hw.1, hw.2]; rfl
    · have : (a == k) = false := by simp [h]
      simp only [this, Bool.false_eq_true, if_false, wf_cons, has_set, ih hw.2, hw.1]
      have : ¬ a = k := h
      simp [this]

theorem zipFold_wf (f : Int → Int → Int) (l r : Res) (hw : wf l = true) : wf (zipFold f l r) = true := by
  unfold zipFold
  induction r generalizing l with
  | nil => simpa
  | cons p t ih => rw [List.foldl_cons]; exact ih _ (set_wf l hw _ _)

theorem prune_wf (r : Res) (hw : wf r = true) : wf (prune r) = true := by
  induction r with
  | nil => rfl
  | cons p t ih =>
    obtain ⟨a, b⟩ := p
    rw [wf_cons] at hw
    simp only [Bool.and_eq_true, Bool.not_eq_true'] at hw
    have ih' := ih hw.2
    unfold prune at *
    rw [List.filter_cons]
    split
    · rw [wf_cons, ih']
      have : has (List.filter (fun p => p.2 != 0) t) a = false := by
        have h1 := hw.1
        rw [Bool.eq_false_iff] at h1 ⊢
        intro hc; apply h1
        rw [has_iff_mem_keys] at hc ⊢
        simp only [keys, List.mem_map] at hc ⊢
        obtain ⟨q, hq, hqa⟩ := hc
        exact ⟨q, (List.mem_filter.mp hq).1, hqa⟩
      simp [this]
    · exact ih'

/-- all values are int64 -/
def allInR (r : Res) : Prop := ∀ p ∈ r, inR p.2

theorem getD_inR {r : Res} (h : allInR r) (k : String) : inR (getD r k) := by
  induction r with
  | nil => simp [inR, minI, maxI]
  | cons p t ih =>
    obtain ⟨a, b⟩ := p
    rw [getD_cons]
    by_cases h2 : k = a
    · simp only [h2, if_true]; exact h (a, b) List.mem_cons_self
    · simp only [h2, if_false]; exact ih (fun q hq => h q (List.mem_cons_of_mem _ hq))

end Yk
