/-
  Life-cycle invariants of the stepped Core model (C06 "no placeholder outlives its application", C10 "terminated
  applications leave the partition", "an application with outstanding asks or live real allocations is never
  Completed"): definitions and the basic tools.  The preservation proofs per operation are in Core2LifeA–D.lean, the
  histories in Core2LifeRun.lean.
-/
import YkProofs.Core2RunL
namespace Yk
open Res Core

/-- the size of an ask / allocation is positive somewhere (what `ask` accepts: not zero, nothing negative) -/
def PosRes (r : Res) : Prop := ∃ k, 0 < r.getD k

/-- an item that is still asked for -/
def CItem.outstanding (i : CItem) : Bool := i.inReq && !i.allocated

/-- The part of the life-cycle invariant that also holds in the middle of a node removal (where an application that has
    just terminated is still listed as live until the loop over the node's allocations is done). -/
structure LifeCore (s : Core) : Prop where
  /-- sizes of asks and allocations of live applications are positive somewhere -/
  pos : ∀ a ∈ s.apps, a.live = true → ∀ i ∈ a.items, PosRes i.res
  /-- … and so are the sizes of the scheduler's own allocations on the nodes -/
  posNode : ∀ n ∈ s.nodes, ∀ x ∈ n.allocs, x.foreign = false → PosRes x.res
  /-- a Completing application holds no real allocation (a real allocation moves it back to Running) -/
  completingNoReal : ∀ a ∈ s.apps, a.live = true → a.state = "Completing" → ∀ i ∈ a.items, i.bound = true → i.ph = true
  /-- C06: no placeholder outlives its application — an application that has terminated (Completed / Failed) or has left
      the partition lists no bound placeholder -/
  noPhOrphan : ∀ a ∈ s.apps, (a.live = false ∨ terminated a.state = true) → ∀ i ∈ a.items, i.bound = true → i.ph = false
  /-- C10: a Completed application holds no real allocation -/
  completedNoReal : ∀ a ∈ s.apps, a.state = "Completed" → ∀ i ∈ a.items, i.bound = true → i.ph = true

/-- The life-cycle invariant at the operation boundaries. -/
structure LifeInv (s : Core) : Prop extends LifeCore s where
  /-- C10: terminated applications leave the partition -/
  termGone : ∀ a ∈ s.apps, a.live = true → terminated a.state = false

/-- C10, the clause about asks.  (Before the repair 20ee082 of `Application.DeallocateAsk` it was broken by a node
    removal that rolled back an in-flight swap of a Completing application — the former KNOWN_FINDINGS entry
    C10.completing-with-pending-ask+swap-rolled-back-by-node-removal; now `deallocAppRun` moves the application back to
    Running and the clause holds along every history.) -/
structure NoPendInv (s : Core) : Prop where
  /-- a Completing application has no outstanding ask (an ask moves it back to Running) -/
  completingNoPending : ∀ a ∈ s.apps, a.live = true → a.state = "Completing" → ∀ i ∈ a.items, i.outstanding = false
  /-- a Completed application has no outstanding ask -/
  completedNoAsk : ∀ a ∈ s.apps, a.state = "Completed" → ∀ i ∈ a.items, i.outstanding = false

/-- The clause about asks for one application record as it also holds in the middle of a node removal: there an
    application that has just become Completed is still listed as live (it leaves, and its asks are dropped, when the
    loop over the node's allocations is done: `sweepTerminated`), and a later round of the loop may roll a swap of it
    back; so the clause about Completed only speaks about the records that have left the partition. -/
structure AppNoPendMid (a : CApp) : Prop where
  completingNoPending : a.live = true → a.state = "Completing" → ∀ i ∈ a.items, i.outstanding = false
  completedNoAsk : a.live = false → a.state = "Completed" → ∀ i ∈ a.items, i.outstanding = false

/-- `NoPendInv` in the middle of a node removal -/
def NoPendMid (s : Core) : Prop := ∀ a ∈ s.apps, AppNoPendMid a

theorem NoPendInv.mid {s : Core} (h : NoPendInv s) : NoPendMid s :=
  fun a ha => ⟨h.completingNoPending a ha, fun _ => h.completedNoAsk a ha⟩

/-- once the terminated applications have left, the clause holds in full again -/
theorem NoPendMid.inv {s : Core} (h : NoPendMid s) (ht : ∀ a ∈ s.apps, a.live = true → terminated a.state = false) :
    NoPendInv s := by
  refine ⟨fun a ha => (h a ha).completingNoPending, ?_⟩
  intro a ha hst
  cases hl : a.live with
  | false => exact (h a ha).completedNoAsk hl hst
  | true =>
    have := ht a ha hl
    rw [hst] at this
    exact absurd this (by decide)

/-! ### sums that are zero -/

theorem getD_zero_of_isZero {r : Res} (h : isZero (some r) = true) (k : String) : r.getD k = 0 := by
  unfold isZero at h
  simp only at h
  rw [getD_eq_get?]
  cases hg : get? r k with
  | none => rfl
  | some v =>
    have := List.all_eq_true.mp h (k, v) (mem_of_get? hg)
    simpa using this

/-- a sum of non-negative vectors that is zero everywhere has no positive summand -/
theorem no_item_of_sum_zero (l : List CItem) (c : CItem → Bool) (hnn : ∀ i ∈ l, NonNeg i.res) (hpos : ∀ i ∈ l, PosRes i.res)
    (hz : ∀ k, itemSum l c k = 0) : ∀ i ∈ l, c i = false := by
  intro i hi
  cases hc : c i with
  | false => rfl
  | true =>
    exfalso
    obtain ⟨k, hk⟩ := hpos i hi
    have := le_sumIf l c (fun j => j.res.getD k) (fun j hj _ => nonNeg_getD (hnn j hj) k) i hi hc
    have h0 : sumIf l c (fun j => j.res.getD k) = 0 := hz k
    omega

/-- an application whose real total is zero lists no real allocation; likewise placeholders and outstanding asks -/
theorem AppBooks.none_of_zero {a : CApp} (hb : AppBooks a) (hw : AppWF a) (hpos : ∀ i ∈ a.items, PosRes i.res) :
    (isZero (some a.allocated) = true → ∀ i ∈ a.items, i.bound = true → i.ph = true) ∧
    (isZero (some a.allocatedPh) = true → ∀ i ∈ a.items, i.bound = true → i.ph = false) ∧
    (isZero (some a.pending) = true → ∀ i ∈ a.items, i.outstanding = false) := by
  have hnn : ∀ i ∈ a.items, NonNeg i.res := fun i hi => (hw.itemRes i hi).2
  refine ⟨?_, ?_, ?_⟩
  · intro hz i hi hbd
    have := no_item_of_sum_zero a.items _ hnn hpos (fun k => by rw [← hb.allocated k]; exact getD_zero_of_isZero hz k) i hi
    simpa [hbd] using this
  · intro hz i hi hbd
    have := no_item_of_sum_zero a.items _ hnn hpos (fun k => by rw [← hb.allocatedPh k]; exact getD_zero_of_isZero hz k) i hi
    simpa [hbd] using this
  · intro hz i hi
    have := no_item_of_sum_zero a.items (fun i => i.inReq && !i.allocated) hnn hpos
      (fun k => by rw [← hb.pending k]; exact getD_zero_of_isZero hz k) i hi
    exact this

/-- what `ask` accepts (a Go map that is strictly greater than zero) is positive somewhere -/
theorem posRes_of_sgtz {r : Res} (hw : wf r = true) (hs : strictlyGreaterThanZero (some r) = true) : PosRes r := by
  unfold strictlyGreaterThanZero at hs
  simp only at hs
  split at hs
  · cases hs
  · obtain ⟨p, hp, hpos⟩ := List.any_eq_true.mp hs
    exact ⟨p.1, by rw [mem_getD hw hp]; simpa using hpos⟩

theorem LifeInv.core {s : Core} (h : LifeInv s) : LifeCore s := h.toLifeCore

/-- `LifeCore` / `NoPendInv` only look at the applications and the node allocations -/
theorem LifeCore.of_lists {s t : Core} (ha : t.apps = s.apps) (hn : t.nodes = s.nodes) (h : LifeCore s) : LifeCore t :=
  ⟨by rw [ha]; exact h.pos, by rw [hn]; exact h.posNode, by rw [ha]; exact h.completingNoReal, by rw [ha]; exact h.noPhOrphan,
   by rw [ha]; exact h.completedNoReal⟩

theorem NoPendInv.of_apps {s t : Core} (ha : t.apps = s.apps) (h : NoPendInv s) : NoPendInv t :=
  ⟨by rw [ha]; exact h.completingNoPending, by rw [ha]; exact h.completedNoAsk⟩

end Yk
